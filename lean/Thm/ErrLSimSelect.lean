import Thm.ErrLSimCond
import Thm.ErrLSimSelectTest
/-!
Error layer, simulation part: the SELECT CASE statement (port of `JmpLSimSelect`).

Generated shape and statement-address entries (`[m]`):
`[m] <selector>; PushAToValueStack; Jump select-begin; [m] Jump select-skip; select-begin: [m]`, then per CASE block `caseN:`
`[m] <item tests>` (selector on top of the value stack, kept there), an optional `case-statementsN:` label, the block's
statements, `[m] Jump end-select`; then the optional `case-else:` part, `end-select:`, `PopValueStackIntoA`, `select-skip:`.

Resume units:
* **the selector** `[off, off + ne + 2)`: it fails before `PushA`; RESUME evaluates the SELECT again (operands the selector
  had pushed stay on the value stack: `ValsOk` only claims the height), RESUME NEXT continues at the `Jump select-skip`, i.e.
  after END SELECT;
* **the items of CASE i** `[caseN + 1, first statement of the block)`: RESUME tests the items again — against the value on top
  of the value stack, which is the selector *because* the items are `CaseNoPending` (premise clause P2: `esel_conds_fails`
  gives the failing state with the value stack exactly as at the start of the items); RESUME NEXT enters the block.

The blocks live at SELECT depth `e + 1`; a CASE block is followed (in the table) by its own `Jump end-select`, the CASE ELSE
block by what follows the SELECT: a `normal` end of the CASE ELSE block *at that entry* (its last unit skipped by RESUME
NEXT) leaves the selector on the value stack — which is sound only outside a handler (`StmtSpec`'s `normal` clause says so).

Revision 3 (handler in a register frame of its own, `Resume` / `ResumeNext` cut back to the recorded heights): a `resumed k`
answer that comes out of a block is passed on like `ret` (`StmtSpec.resumed_out`: the selector lies on top of the part of the
value stack the clause speaks about) — for every `k`, no depth premise on RESUME / RESUME NEXT any more.  P2 stays.
-/
namespace RbThm.ErrLSim
set_option linter.unusedVariables false
set_option linter.unusedSimpArgs false
open RbModel RbModel.Num RbModel.ErrL RbModel.ErrL.Compile RbModel.ErrL.Vm
open RbModel.JmpL.Compile (CInstr Code labelName compileExpr compileExprTo storeVar loadVar compileItems compileConds
  sizeCaseExpr sizeItems sizeConds Dp lookupNat lookupDepth stepSuffix maxPos)
open RbModel.JmpL.Vm (Vm truncTop)
open RbModel.Ast (Pos PrintItem CaseExpr)
open RbModel.Ref (St)
open RbModel.ErrL.Ref
open RbThm.ErrLLen
open RbThm.C01Sim (Typed SlotsBelow ExprWt NumericAt NumericCond ItemsSlots CaseSlots CondsSlots)
open RbThm.JmpLSim (SelKeeps SelTestSpec)

/-! ### code pieces -/

theorem sel_lift_append (a b : Code) : lift (a ++ b) = lift a ++ lift b := by simp [lift]

theorem sel_codeAt_lift_left {code : ECode} {off : Nat} {a b : Code} (h : CodeAt code off (lift (a ++ b))) :
    CodeAt code off (lift a) := by
  rw [sel_lift_append] at h; exact h.append_left

theorem sel_codeAt_lift_right {code : ECode} {off : Nat} {a b : Code} (h : CodeAt code off (lift (a ++ b))) :
    CodeAt code (off + a.length) (lift b) := by
  rw [sel_lift_append] at h
  have := h.append_right
  rwa [lift_length] at this

theorem sel_caseExpr_noread (p : Pos) (next : Nat) (c : CaseExpr) :
    ∀ ip ∈ JmpL.Compile.compileCaseExpr p next c, ip.1 ≠ CInstr.builtInRead := by
  intro ip h
  cases c with
  | simple e =>
    simp only [JmpL.Compile.compileCaseExpr, List.mem_append] at h
    rcases h with h | h
    · exact cu_expr_noread e ip h
    · simp at h; rcases h with h | h | h | h | h <;> (subst h; simp)
  | is op e =>
    simp only [JmpL.Compile.compileCaseExpr, List.mem_append] at h
    rcases h with h | h
    · exact cu_expr_noread e ip h
    · simp at h; rcases h with h | h | h | h | h <;> (subst h; simp)
  | range lo hi =>
    simp only [JmpL.Compile.compileCaseExpr, List.mem_append] at h
    rcases h with ((h | h) | h) | h
    · exact cu_expr_noread lo ip h
    · simp at h; rcases h with h | h | h | h | h <;> (subst h; simp)
    · exact cu_expr_noread hi ip h
    · simp at h; rcases h with h | h | h | h | h <;> (subst h; simp)

theorem sel_conds_noread (p : Pos) (sfx : String) (bi nextCase stmts : Nat) :
    ∀ (conds : List CaseExpr) (off ei : Nat), ∀ ip ∈ compileConds p sfx bi nextCase stmts off ei conds,
      ip.1 ≠ CInstr.builtInRead
  | [], _, _ => by simp [compileConds]
  | [c], _, _ => by
    intro ip h
    simp only [compileConds] at h
    exact sel_caseExpr_noread p _ c ip h
  | c :: d :: rest, off, ei => by
    intro ip h
    simp only [compileConds, List.mem_append] at h
    rcases h with ((h | h) | h) | h
    · exact sel_caseExpr_noread p _ c ip h
    · simp at h; subst h; simp
    · simp at h; subst h; simp
    · exact sel_conds_noread p sfx bi nextCase stmts (d :: rest) _ _ ip h

/-! ### single instructions on the error layer's VM -/

theorem sel_step_label {P : Prog} (hP : ProgOk P) {x : EVm} {n : String} {p : Pos}
    (h : P.code[x.b.pc]? = some (.base (.label n), p)) : step P x = .next { x with b := JmpL.Vm.advance x.b } := by
  rw [step_base hP h (by simp)]
  simp only [JmpL.Vm.step, base_get hP h]

theorem sel_step_jump {P : Prog} (hP : ProgOk P) {x : EVm} {a : Nat} {p : Pos}
    (h : P.code[x.b.pc]? = some (.base (.jump a), p)) : step P x = .next { x with b := { x.b with pc := a } } := by
  rw [step_base hP h (by simp)]
  simp only [JmpL.Vm.step, base_get hP h]

theorem sel_step_popA {P : Prog} (hP : ProgOk P) {x : EVm} {p : Pos} {v : Val} {rest : List Val}
    (h : P.code[x.b.pc]? = some (.base .popA, p)) (hv : x.b.vals = v :: rest) :
    step P x = .next { x with b := JmpL.Vm.advance { JmpL.Vm.setA x.b v with vals := rest } } := by
  rw [step_base hP h (by simp)]
  simp only [JmpL.Vm.step, base_get hP h, hv]

theorem sel_keeps_rel {sl : List Ty} {s : St} {a b : Vm} (hk : SelKeeps a b) (hr : Rel sl s a) : Rel sl s b :=
  hr.same hk.env hk.out hk.data hk.dataIdx hk.queue

theorem sel_keeps_quiet (x : EVm) {τ : Vm} (hk : SelKeeps x.b τ) : Quiet x { x with b := τ } :=
  ⟨hk.regStack, hk.vals, hk.paths, hk.gosubs, rfl⟩

/-- a `Jump t` right behind a block whose own `Jump` is the entry that follows it: its normal end continues at `t` -/
theorem StmtSpec.sel_then_jump {C : Ctx} (hC : C.Ok) {d e vb a t nx' : Nat} {p : Pos} {σ : EVm} {r : ESt × Outcome}
    (h : StmtSpec C d e vb a a σ r) (hj : C.prog.code[a]? = some (.base (.jump t), p)) :
    StmtSpec C d e vb t nx' σ r := by
  obtain ⟨s', o⟩ := r
  cases o with
  | normal =>
    obtain ⟨τ, st, hp, hr, a1, a2, a3, a4, a5⟩ := h
    have hpa : τ.b.pc = a := by rcases hp with h | ⟨h, _⟩ <;> exact h
    have hj' : C.prog.code[τ.b.pc]? = some (.base (.jump t), p) := by rw [hpa]; exact hj
    exact ⟨{ τ with b := { τ.b with pc := t } }, st.trans (Steps.one (sel_step_jump hC.pok hj')), .inl rfl,
      hr.same (hr.base.setPc t), a1, a2, a3, a4, a5⟩
  | halted => exact h
  | jump L => exact h
  | ret q => exact h
  | resumed k => exact h
  | error c q => exact h
  | inexact => trivial
  | outOfFuel => trivial
  | illFormed => trivial
  | unspec => trivial
  | notHere => trivial

/-- the pieces of the code of one CASE block -/
theorem sel_cons_layout {code : ECode} {env : LEnv} {sfx : String} {d e : Nat} {p : Pos} {endOff elseOff off i : Nat}
    {conds : List CaseExpr} {body : SStmt} {rest : SCases}
    (hc : CodeAt code off (compileCases env sfx d e p endOff elseOff off i (.cons conds body rest))) :
    code[off]? = some (.base (CInstr.label (labelName ("case" ++ toString i) p sfx)), p) ∧
    CodeAt code (off + 1) (lift (compileConds p sfx i
      (off + 1 + sizeConds conds + (if conds.length > 1 then 1 else 0) + sizeStmt env.dp d e body + 1)
      (off + 1 + sizeConds conds) (off + 1) 0 conds)) ∧
    (conds.length > 1 → ∃ n, code[off + 1 + sizeConds conds]? = some (.base (CInstr.label n), p)) ∧
    CodeAt code (off + 1 + sizeConds conds + (if conds.length > 1 then 1 else 0))
      (compileStmt env sfx d e (off + 1 + sizeConds conds + (if conds.length > 1 then 1 else 0)) body) ∧
    code[off + 1 + sizeConds conds + (if conds.length > 1 then 1 else 0) + sizeStmt env.dp d e body]? =
      some (.base (CInstr.jump endOff), p) ∧
    CodeAt code (off + 1 + sizeConds conds + (if conds.length > 1 then 1 else 0) + sizeStmt env.dp d e body + 1)
      (compileCases env sfx d e p endOff elseOff
        (off + 1 + sizeConds conds + (if conds.length > 1 then 1 else 0) + sizeStmt env.dp d e body + 1) (i + 1) rest) := by
  simp only [compileCases, decide_eq_true_eq] at hc
  obtain ⟨m, L, hm, hL, hLlen, hLlab⟩ : ∃ (m : Nat) (L : Code),
      (if conds.length > 1 then 1 else 0) = m ∧
      (if conds.length > 1 then [(CInstr.label (labelName ("case-statements" ++ toString i) p sfx), p)]
        else []) = L ∧
      L.length = m ∧
      (conds.length > 1 → ∃ n, L = [(CInstr.label n, p)]) := by
    by_cases hmul : conds.length > 1
    · exact ⟨1, _, by simp [hmul], by simp [hmul]; rfl, rfl, fun _ => ⟨_, rfl⟩⟩
    · exact ⟨0, [], by simp [hmul], by simp [hmul], rfl, fun h => absurd h hmul⟩
  simp only [hm, hL] at hc ⊢
  clear hm hL
  have hhead : CodeAt code off (lift (([(CInstr.label (labelName ("case" ++ toString i) p sfx), p)] ++
      compileConds p sfx i (off + 1 + sizeConds conds + m + sizeStmt env.dp d e body + 1)
        (off + 1 + sizeConds conds) (off + 1) 0 conds) ++ L)) := by
    have := hc.append_left.append_left.append_left
    simpa only [List.append_assoc] using this
  have hlab : code[off]? = some (.base (CInstr.label (labelName ("case" ++ toString i) p sfx)), p) := by
    have := (sel_codeAt_lift_left (sel_codeAt_lift_left hhead)).lift_get (i := 0)
      (ip := (CInstr.label (labelName ("case" ++ toString i) p sfx), p)) rfl
    simpa using this
  have hcc : CodeAt code (off + 1) (lift (compileConds p sfx i (off + 1 + sizeConds conds + m + sizeStmt env.dp d e body + 1)
      (off + 1 + sizeConds conds) (off + 1) 0 conds)) := by
    have := sel_codeAt_lift_right (sel_codeAt_lift_left hhead)
    simpa only [List.length_singleton] using this
  have hcL : CodeAt code (off + 1 + sizeConds conds) (lift L) := by
    have := sel_codeAt_lift_right hhead
    simp only [List.length_append, List.length_singleton, RbThm.JmpLLen.len_conds] at this
    have e1 : off + (1 + sizeConds conds) = off + 1 + sizeConds conds := by omega
    rw [e1] at this
    exact this
  have hLl : conds.length > 1 → ∃ n, code[off + 1 + sizeConds conds]? = some (.base (CInstr.label n), p) := by
    intro hmul
    obtain ⟨n, hn⟩ := hLlab hmul
    subst hn
    refine ⟨n, ?_⟩
    have := hcL.lift_get (i := 0) (ip := (CInstr.label n, p)) rfl
    simpa using this
  have hcb : CodeAt code (off + 1 + sizeConds conds + m)
      (compileStmt env sfx d e (off + 1 + sizeConds conds + m) body) := by
    have := hc.append_left.append_left.append_right
    simp only [lift_length, List.length_append, List.length_singleton, RbThm.JmpLLen.len_conds, hLlen] at this
    have e1 : off + (1 + sizeConds conds + m) = off + 1 + sizeConds conds + m := by omega
    rw [e1] at this
    exact this
  have hj : code[off + 1 + sizeConds conds + m + sizeStmt env.dp d e body]? = some (.base (CInstr.jump endOff), p) := by
    have h1 := hc.append_left.append_right
    have := h1.lift_get (i := 0) (ip := (CInstr.jump endOff, p)) rfl
    simp only [lift_length, List.length_append, List.length_singleton, RbThm.JmpLLen.len_conds, len_stmt, hLlen,
      Nat.add_zero] at this
    rw [← this]; congr 1; omega
  have hcr : CodeAt code (off + 1 + sizeConds conds + m + sizeStmt env.dp d e body + 1)
      (compileCases env sfx d e p endOff elseOff (off + 1 + sizeConds conds + m + sizeStmt env.dp d e body + 1) (i + 1)
        rest) := by
    have := hc.append_right
    simp only [lift_length, List.length_append, List.length_singleton, RbThm.JmpLLen.len_conds, len_stmt, hLlen] at this
    have e1 : off + (1 + sizeConds conds + m + sizeStmt env.dp d e body + 1) =
        off + 1 + sizeConds conds + m + sizeStmt env.dp d e body + 1 := by omega
    rw [e1] at this
    exact this
  exact ⟨hlab, hcc, hLl, hcb, hj, hcr⟩


/-! ### the blocks -/

/-- the optional CASE ELSE part, abstractly: its size `k`, what it desugars to (`T`), its code (`E`), and what running it /
entering it at a label does.  The entry that follows the CASE ELSE block is the entry `nx` that follows the SELECT. -/
theorem sel_tail (C : Ctx) (hC : C.Ok) (fuel : Nat) (ih : StmtIHle C fuel) (hasElse : Bool) (els : SStmt) (p : Pos)
    (sfx : String) (d e vb gd elseOff nx : Nat) (hwe : Wf C.sl C.env.dp C.rl d e els) (hne : hasElse = false → els = .skip)
    (hle : hasElse = true → LabAt C.env d e (elseOff + 1) els)
    (hme : hasElse = true → MarksAt C.prog.marks (marksStmt C.env.dp d e (elseOff + 1) els) nx) :
    ∃ (k : Nat) (T : Cases) (E : ECode),
      (if hasElse = true then 1 + sizeStmt C.env.dp d e els else 0) = k ∧
      (if hasElse = true then Cases.else_ (desugar els) else Cases.nil) = T ∧
      (if hasElse = true then lift [(CInstr.label (labelName "case-else" p sfx), p)] ++
        compileStmt C.env sfx d e (elseOff + 1) els else []) = E ∧
      E.length = k ∧ T.labels = els.labels ∧
      (∀ L, L ∈ els.labels → d ≤ C.env.dp.fd L ∧ e ≤ C.env.dp.sd L) ∧
      (CodeAt C.prog.code elseOff E → elseOff + k ≤ nx → ∀ f, f ≤ fuel → ∀ (pp : Pos) (subj : Val) (τ : EVm) (s : ESt),
        τ.b.pc = elseOff → ERel C.sl C.env s τ → Inv C d e vb gd τ →
        StmtSpec C d e vb (elseOff + k) nx τ (execCases f C.P gd pp subj T s)) ∧
      (CodeAt C.prog.code elseOff E → elseOff + k ≤ nx → ∀ f, f ≤ fuel → ∀ (L : Nat) (τ : EVm) (s : ESt), L ∈ els.labels →
        τ.b.pc = C.env.addr L → ERel C.sl C.env s τ → Inv C d e vb gd τ →
        StmtSpec C d e vb (elseOff + k) nx τ (seekCases f C.P gd T L s)) := by
  cases hasElse with
  | false =>
    have hsk := hne rfl
    subst hsk
    refine ⟨0, Cases.nil, [], by simp, by simp, by simp, rfl, rfl, ?_, ?_, ?_⟩
    · intro L hL; simp [SStmt.labels] at hL
    · intro _ _ f hf pp subj τ s hτ hrτ hiτ
      cases f with
      | zero => simp only [execCases, StmtSpec]
      | succ f' =>
        simp only [execCases, StmtSpec]
        exact ⟨τ, Steps.refl τ, .inl (by omega), hrτ, rfl, ⟨hiτ.he, fun _ => rfl⟩, rfl, rfl, rfl⟩
    · intro _ _ f hf L τ s hL
      simp [SStmt.labels] at hL
  | true =>
    have hl := hle rfl
    have hm := hme rfl
    refine ⟨1 + sizeStmt C.env.dp d e els, Cases.else_ (desugar els),
      lift [(CInstr.label (labelName "case-else" p sfx), p)] ++ compileStmt C.env sfx d e (elseOff + 1) els,
      by simp, by simp, by simp, by simp [len_stmt], ?_, ?_, ?_, ?_⟩
    · simp only [Cases.labels]; exact labels_desugar C.sl C.env.dp C.rl els d e hwe
    · intro L hL; exact hl.depth_ge hL
    · intro hcE hnx f hf pp subj τ s hτ hrτ hiτ
      cases f with
      | zero => simp only [execCases, StmtSpec]
      | succ f' =>
        simp only [execCases]
        have hl0 : C.prog.code[τ.b.pc]? = some (.base (CInstr.label (labelName "case-else" p sfx)), p) := by
          rw [hτ]
          have := hcE.append_left.lift_get (i := 0) (ip := (CInstr.label (labelName "case-else" p sfx), p)) rfl
          simpa using this
        have s1 := sel_step_label hC.pok hl0
        have hcb : CodeAt C.prog.code (elseOff + 1) (compileStmt C.env sfx d e (elseOff + 1) els) := by
          have := hcE.append_right
          simpa only [lift_length, List.length_singleton] using this
        have hq : Quiet τ { τ with b := JmpL.Vm.advance τ.b } := ⟨rfl, rfl, rfl, rfl, rfl⟩
        have hb := ih f' (by omega) els sfx d e (elseOff + 1) nx vb gd .run { τ with b := JmpL.Vm.advance τ.b } s hcb hl hwe hm
          (by omega) (by show τ.b.pc + 1 = elseOff + 1; rw [hτ]) (hrτ.same hrτ.base.advance) (hq.inv hiτ)
        exact StmtSpec.of_steps (Steps.one s1) hq (hb.addr (by omega))
    · intro hcE hnx f hf L τ s hL hτ hrτ hiτ
      cases f with
      | zero => simp only [seekCases, StmtSpec]
      | succ f' =>
        simp only [seekCases]
        have hcb : CodeAt C.prog.code (elseOff + 1) (compileStmt C.env sfx d e (elseOff + 1) els) := by
          have := hcE.append_right
          simpa only [lift_length, List.length_singleton] using this
        have hb := ih f' (by omega) els sfx d e (elseOff + 1) nx vb gd (.seek L) τ s hcb hl hwe hm (by omega) ⟨hL, hτ⟩ hrτ hiτ
        exact hb.addr (by omega)

/-- seek mode, the CASE blocks: the VM is at the label `L`, which is inside one of the blocks (or in the CASE ELSE part:
`htail`); no test runs, the block is entered at the label and, on a normal end, control arrives at `endOff` -/
theorem sel_seek_cases (C : Ctx) (hC : C.Ok) (fuel : Nat) (ih : StmtIHle C fuel) (sfx : String) (p : Pos) (d e vb gd : Nat)
    (endOff elseOff nx : Nat) (tail : Cases) (tl : List Nat)
    (htail : ∀ f, f ≤ fuel → ∀ (L : Nat) (σ : EVm) (s : ESt), L ∈ tl → σ.b.pc = C.env.addr L → ERel C.sl C.env s σ →
      Inv C d e vb gd σ → StmtSpec C d e vb endOff nx σ (seekCases f C.P gd tail L s)) :
    ∀ (cs : SCases) (f : Nat), f ≤ fuel → ∀ (off i nxC : Nat) (L : Nat) (σ : EVm) (s : ESt),
      CodeAt C.prog.code off (compileCases C.env sfx d e p endOff elseOff off i cs) →
      LabAtCases C.env d e off cs → WfCases C.sl C.env.dp C.rl d e cs →
      MarksAt C.prog.marks (marksCases C.env.dp d e off cs) nxC →
      L ∈ cs.labels ++ tl → σ.b.pc = C.env.addr L → ERel C.sl C.env s σ → Inv C d e vb gd σ →
      StmtSpec C d e vb endOff nx σ (seekCases f C.P gd (desugarCases cs tail) L s)
  | .nil, f, hf, off, i, nxC, L, σ, s, hc, hl, hw, hm, hL, hpc, hr, hi => by
    simp only [desugarCases]
    simp only [SCases.labels, List.nil_append] at hL
    exact htail f hf L σ s hL hpc hr hi
  | .cons conds body rest, f, hf, off, i, nxC, L, σ, s, hc, hl, hw, hm, hL, hpc, hr, hi => by
    cases f with
    | zero => simp only [desugarCases, seekCases, StmtSpec]
    | succ f' =>
      simp only [desugarCases, seekCases]
      obtain ⟨_, _, _, hcb, hj, hcr⟩ := sel_cons_layout hc
      obtain ⟨hne, hcs, hnp, hwb, hwr⟩ := hw
      obtain ⟨hlb, hlr⟩ := hl.cons
      obtain ⟨_, hmb, hmr⟩ := marks_case hm
      by_cases hLb : (desugar body).hasLabel L = true
      · simp only [hLb, if_true]
        have hb := ih f' (by omega) body sfx d e _ _ vb gd (.seek L) σ s hcb hlb hwb hmb (Nat.le_refl _)
          ⟨(hasLabel_iff hwb L).mp hLb, hpc⟩ hr hi
        exact hb.sel_then_jump hC hj
      · simp only [hLb]
        have hL' : L ∈ rest.labels ++ tl := by
          simp only [SCases.labels, List.mem_append] at hL ⊢
          rcases hL with (h | h) | h
          · exact absurd ((hasLabel_iff hwb L).mpr h) hLb
          · exact .inl h
          · exact .inr h
        exact sel_seek_cases C hC fuel ih sfx p d e vb gd endOff elseOff nx tail tl htail rest f' (by omega) _ (i + 1) nxC L σ s
          hcr hlr hwr hmr hL' hpc hr hi

/-- where a run of the CASE tests stands: at the `caseN` label of the block, or — after `RESUME` — behind it, at the first
instruction of the items -/
def SelAt (off : Nat) (cs : SCases) (pc : Nat) : Prop := pc = off ∨ (cs ≠ .nil ∧ pc = off + 1)

/-- run mode, the CASE blocks: running from the label of block `i` (or from its items) does what `execCases` prescribes and,
on a normal end, arrives at `endOff`; `htail` says what happens once all blocks have been tried and control is at `elseOff`.
`e` is the depth of the blocks (the SELECT counted); the selector is on top of the value stack.  The items of a block are a
resume unit: RESUME tests them again (the failing state has the selector on top of the value stack: P2), RESUME NEXT enters
the block. -/
theorem sel_cases_correct (C : Ctx) (hC : C.Ok) (fuel : Nat) (ih : StmtIHle C fuel) (sfx : String) (p : Pos)
    (d e vb gd : Nat) (endOff elseOff nx : Nat) (subj : Val) (tail : Cases)
    (htail : ∀ f, f ≤ fuel → ∀ (σ : EVm) (s : ESt), σ.b.pc = elseOff → ERel C.sl C.env s σ → Inv C d e vb gd σ →
      StmtSpec C d e vb endOff nx σ (execCases f C.P gd p subj tail s)) :
    ∀ (f : Nat), f ≤ fuel → ∀ (cs : SCases) (off i nxC : Nat) (σ : EVm) (s : ESt),
      CodeAt C.prog.code off (compileCases C.env sfx d e p endOff elseOff off i cs) →
      off + sizeCases C.env.dp d e cs = elseOff → LabAtCases C.env d e off cs → WfCases C.sl C.env.dp C.rl d e cs →
      MarksAt C.prog.marks (marksCases C.env.dp d e off cs) nxC →
      SelAt off cs σ.b.pc → ERel C.sl C.env s σ → Inv C d e vb gd σ → (∃ vs, σ.b.vals = subj :: vs) →
      StmtSpec C d e vb endOff nx σ (execCases f C.P gd p subj (desugarCases cs tail) s) := by
  intro f
  induction f with
  | zero =>
    intro _ cs off i nxC σ s _ _ _ _ _ _ _ _ _
    simp only [execCases, StmtSpec]
  | succ f' ihf =>
    intro hf cs off i nxC σ s hc hsz hl hw hm hat hr hi hv
    cases cs with
    | nil =>
      simp only [desugarCases]
      simp only [sizeCases] at hsz
      have hpc : σ.b.pc = off := by
        rcases hat with h | ⟨h, _⟩
        · exact h
        · exact absurd rfl h
      exact htail (f' + 1) hf σ s (by omega) hr hi
    | cons conds body rest =>
      simp only [desugarCases, execCases]
      obtain ⟨hlab, hcc, hLl, hcb, hj, hcr⟩ := sel_cons_layout hc
      have hw0 := hw
      have hl0 := hl
      obtain ⟨hne, hcs, hnp, hwb, hwr⟩ := hw
      obtain ⟨hlb, hlr⟩ := hl.cons
      obtain ⟨hmu, hmb, hmr⟩ := marks_case hm
      simp only [sizeCases] at hsz
      -- behind the `caseN` label
      obtain ⟨x1, st0, hq0, hp1, hr1⟩ : ∃ x1, Steps C.prog σ x1 ∧ Quiet σ x1 ∧ x1.b.pc = off + 1 ∧ ERel C.sl C.env s x1 := by
        rcases hat with hpc | ⟨_, hpc⟩
        · have hl' : C.prog.code[σ.b.pc]? = some (.base (CInstr.label (labelName ("case" ++ toString i) p sfx)), p) := by
            rw [hpc]; exact hlab
          exact ⟨{ σ with b := JmpL.Vm.advance σ.b }, Steps.one (sel_step_label hC.pok hl'), ⟨rfl, rfl, rfl, rfl, rfl⟩,
            by show σ.b.pc + 1 = off + 1; rw [hpc], hr.same hr.base.advance⟩
        · exact ⟨σ, Steps.refl σ, Quiet.refl σ, hpc, hr⟩
      have hi1 : Inv C d e vb gd x1 := hq0.inv hi
      obtain ⟨vs, hv0⟩ := hv
      have hv1 : x1.b.vals = subj :: vs := by rw [hq0.vals]; exact hv0
      refine StmtSpec.of_steps st0 hq0 ?_
      -- the tests, on the fragment placed alone
      have hnr := sel_conds_noread p sfx i
        (off + 1 + sizeConds conds + (if conds.length > 1 then 1 else 0) + sizeStmt C.env.dp d e body + 1)
        (off + 1 + sizeConds conds) conds (off + 1) 0
      have hslots : CondsSlots x1.b.env.length conds := by rw [hr1.base.len]; exact hcs
      have hconds := RbThm.JmpLSim.conds_correct _ p sfx i
        (off + 1 + sizeConds conds + (if conds.length > 1 then 1 else 0) + sizeStmt C.env.dp d e body + 1)
        (off + 1 + sizeConds conds) subj vs conds (off + 1) 0 x1.b hne (codeAt_pad (off + 1) _) rfl hp1 hv1 hslots
      rw [hr1.base.env] at hconds
      simp only [ErrL.Ref.anyMatches]
      cases ham : JmpL.Ref.anyMatches s.st.env p subj conds with
      | ok bm =>
        rw [ham] at hconds
        cases bm with
        | true =>
          simp only [SelTestSpec] at hconds
          obtain ⟨τ', st, hp', hk⟩ := hconds
          have st' := lift_steps hC.pok hcc hnr st x1 rfl
          have hq1 := sel_keeps_quiet x1 hk
          have hr2 : ERel C.sl C.env s { x1 with b := τ' } := hr1.same (sel_keeps_rel hk hr1.base)
          -- the optional `case-statements` label
          obtain ⟨x2, st2, hq2, hp2, hr2'⟩ : ∃ x2, Steps C.prog x1 x2 ∧ Quiet x1 x2 ∧
              x2.b.pc = off + 1 + sizeConds conds + (if conds.length > 1 then 1 else 0) ∧ ERel C.sl C.env s x2 := by
            by_cases hmul : conds.length > 1
            · obtain ⟨n, hn⟩ := hLl hmul
              have hl' : C.prog.code[({ x1 with b := τ' } : EVm).b.pc]? = some (.base (CInstr.label n), p) := by
                show C.prog.code[τ'.pc]? = _; rw [hp']; exact hn
              refine ⟨{ x1 with b := JmpL.Vm.advance τ' }, st'.trans (Steps.one (sel_step_label hC.pok hl')),
                hq1.trans ⟨rfl, rfl, rfl, rfl, rfl⟩, ?_, hr2.same hr2.base.advance⟩
              show τ'.pc + 1 = _
              rw [hp']; simp [hmul]
            · exact ⟨_, st', hq1, by show τ'.pc = _; rw [hp']; simp [hmul], hr2⟩
          have hb := ih f' (by omega) body sfx d e _ _ vb gd .run x2 s hcb hlb hwb hmb (Nat.le_refl _) hp2 hr2' (hq2.inv hi1)
          exact StmtSpec.of_steps st2 hq2 (hb.sel_then_jump hC hj)
        | false =>
          simp only [SelTestSpec] at hconds
          obtain ⟨τ', st, hp', hk⟩ := hconds
          have st' := lift_steps hC.pok hcc hnr st x1 rfl
          have hq1 := sel_keeps_quiet x1 hk
          have hr2 : ERel C.sl C.env s { x1 with b := τ' } := hr1.same (sel_keeps_rel hk hr1.base)
          have hrec := ihf (by omega) rest _ (i + 1) nxC { x1 with b := τ' } s hcr (by omega) hlr hwr hmr (.inl hp') hr2
            (hq1.inv hi1) ⟨vs, by show τ'.vals = _; rw [hk.vals]; exact hv1⟩
          exact StmtSpec.of_steps st' hq1 hrec
      | error o =>
        rcases RbThm.JmpLSim.anyMatches_error_kind conds ham with ⟨cd, q, rfl⟩ | rfl
        · simp only [failOf]
          -- the items fail: the failing state has the selector on top of the value stack (P2)
          have ham' : JmpL.Ref.anyMatches x1.b.env p subj conds = .error (.error cd q) := by rw [hr1.base.env]; exact ham
          obtain ⟨υ, st, hs, hk⟩ := RbThm.JmpLSim.esel_conds_fails _ p sfx i
            (off + 1 + sizeConds conds + (if conds.length > 1 then 1 else 0) + sizeStmt C.env.dp d e body + 1)
            (off + 1 + sizeConds conds) subj vs conds (off + 1) 0 x1.b hne (codeAt_pad (off + 1) _) rfl hp1 hv1 hslots hnp
            cd q ham'
          obtain ⟨hst, hylo, hyhi, hstep⟩ := lift_fails' hC.pok hcc hnr st hs x1 rfl
          have hqy := sel_keeps_quiet x1 hk
          generalize hy : ({ x1 with b := υ } : EVm) = y at hst hstep hqy
          have hyb : y.b = υ := by subst hy; rfl
          have hry : ERel C.sl C.env s y := by
            subst hy
            exact hr1.same (sel_keeps_rel hk hr1.base)
          have hiy : Inv C d e vb gd y := hqy.inv hi1
          have hlen : (compileConds p sfx i
              (off + 1 + sizeConds conds + (if conds.length > 1 then 1 else 0) + sizeStmt C.env.dp d e body + 1)
              (off + 1 + sizeConds conds) (off + 1) 0 conds).length = sizeConds conds := RbThm.JmpLLen.len_conds ..
          rw [hlen] at hyhi
          cases f' with
          | zero => simp only [Ref.raise, StmtSpec]
          | succ g =>
            have hrs := raise_correct hC (ih g (by omega)) hmu (by rw [hyb]; exact hylo)
              (by rw [hyb]; omega) hstep (Quiet.refl y) hry hiy
            generalize hres : Ref.raise (g + 1) C.P gd cd q s = r at hrs ⊢
            obtain ⟨s', dsp⟩ := r
            cases dsp with
            | again =>
              obtain ⟨τ, st2, hp, hrτ, qq⟩ := hrs
              have hqτ : Quiet x1 τ := ⟨qq.regStack.trans hqy.regStack, qq.vals.trans hqy.vals, qq.paths.trans hqy.paths,
                qq.gosubs.trans hqy.gosubs, HKeep.of_none (hqy.errAddr.addr.symm.trans qq.notH) qq.errAddr⟩
              have hrec := ihf (by omega) (.cons conds body rest) off i nxC τ s' hc (by simp only [sizeCases]; omega) hl0 hw0 hm
                (.inr ⟨by simp, hp⟩) hrτ (hqτ.inv hi1) ⟨vs, by rw [hqτ.vals]; exact hv1⟩
              simp only [desugarCases] at hrec
              exact StmtSpec.of_steps (hst.trans st2) hqτ hrec
            | next =>
              obtain ⟨τ, st2, hp, hrτ, qq⟩ := hrs
              have hqτ : Quiet x1 τ := ⟨qq.regStack.trans hqy.regStack, qq.vals.trans hqy.vals, qq.paths.trans hqy.paths,
                qq.gosubs.trans hqy.gosubs, HKeep.of_none (hqy.errAddr.addr.symm.trans qq.notH) qq.errAddr⟩
              have hb := ih (g + 1) (by omega) body sfx d e _ _ vb gd .run τ s' hcb hlb hwb hmb (Nat.le_refl _) hp hrτ
                (hqτ.inv hi1)
              exact StmtSpec.of_steps (hst.trans st2) hqτ (hb.sel_then_jump hC hj)
            | out o' =>
              obtain ⟨n1, n2, n3, n4, n5, hsp⟩ := hrs
              exact out_of_unit hst hqy.regStack hqy.paths hqy.gosubs hqy.errAddr.addr n1 n2 n3 n4 n5 hsp endOff nx
        · simp only [failOf, StmtSpec]


/-! ### jumps between the blocks, leaving the SELECT -/

/-- a jump out of a block to a label that is at least as deep as the blocks arrives with the stacks the blocks may assume
(`jump_caught` with the lower bounds only: nothing is popped on the way) -/
theorem sel_jump_caught {C : Ctx} {d e vb gd fin nx : Nat} {σ : EVm} {s' : ESt} {L : Nat} (hi : Inv C d e vb gd σ)
    (h : StmtSpec C d e vb fin nx σ (s', .jump L)) (h2 : d ≤ C.env.dp.fd L) (h4 : e ≤ C.env.dp.sd L) :
    ∃ τ, Steps C.prog σ τ ∧ τ.b.pc = C.env.addr L ∧ ERel C.sl C.env s' τ ∧ Inv C d e vb gd τ ∧
      τ.b.regStack = σ.b.regStack ∧ ValsOk vb e 0 σ τ ∧ τ.b.paths = σ.b.paths ∧ τ.b.gosubs = σ.b.gosubs ∧ HKeep σ τ := by
  obtain ⟨τ, st, hp, hr, e1, e2, e3, e4, e5⟩ := h
  have hd : d - C.env.dp.fd L = 0 := by omega
  have he : e - C.env.dp.sd L = 0 := by omega
  rw [hd] at e1; rw [he] at e2
  simp only [List.drop_zero] at e1
  have e2' : ValsOk vb e 0 σ τ := ⟨by have := e2.1; omega, e2.2⟩
  exact ⟨τ, st, hp, hr, hi.congr e1 e2'.1 e4 e5.addr, e1, e2', e3, e4, e5⟩

/-- **the jump-handling rule of a SELECT**: a jump that came out of a block to a label in a block of the same SELECT has
arrived at the label with the stacks of the entry state (the selector still on the value stack): the blocks are re-entered
in seek mode -/
theorem sel_catch {C : Ctx} {d e vb gd endOff nx : Nat} {cs' : Cases} {labs : List Nat} {f : Nat}
    (hlabs : ∀ L, cs'.hasLabel L = true → L ∈ labs)
    (hdepth : ∀ L, L ∈ labs → d ≤ C.env.dp.fd L ∧ e ≤ C.env.dp.sd L)
    (hseek : ∀ (L : Nat) (σ : EVm) (s : ESt), L ∈ labs → σ.b.pc = C.env.addr L → ERel C.sl C.env s σ → Inv C d e vb gd σ →
      StmtSpec C d e vb endOff nx σ (selectSeek f C.P gd cs' L s))
    {σ : EVm} (r1 : ESt × Outcome) (h1 : StmtSpec C d e vb endOff nx σ r1) (hi : Inv C d e vb gd σ) :
    StmtSpec C d e vb endOff nx σ
      (match (generalizing := false) r1 with
       | (s', .jump L) => if cs'.hasLabel L = true then selectSeek f C.P gd cs' L s' else (s', .jump L)
       | r => r) := by
  obtain ⟨s1, o1⟩ := r1
  cases o1 with
  | jump L =>
    simp only
    by_cases hL : cs'.hasLabel L = true
    · simp only [hL, if_true]
      obtain ⟨g1, g2⟩ := hdepth L (hlabs L hL)
      obtain ⟨τ, st, hp, hr, hi', a1, a2, a3, a4, a5⟩ := sel_jump_caught hi h1 g1 g2
      have := hseek L τ s1 (hlabs L hL) hp hr hi'
      exact StmtSpec.after st a1 a2 a3 a4 a5 this
    · simp only [hL]
      exact h1
  | normal => exact h1
  | halted => exact h1
  | ret q => exact h1
  | resumed k => exact h1
  | error c q => exact h1
  | inexact => trivial
  | outOfFuel => trivial
  | illFormed => trivial
  | unspec => trivial
  | notHere => trivial

/-- `selectSeek`: the block that contains the label is entered, jumps between the blocks are followed -/
theorem sel_seek_correct {C : Ctx} {fuel : Nat} {d e vb gd endOff nx : Nat} {cs' : Cases} {labs : List Nat}
    (hlabs : ∀ L, cs'.hasLabel L = true → L ∈ labs)
    (hdepth : ∀ L, L ∈ labs → d ≤ C.env.dp.fd L ∧ e ≤ C.env.dp.sd L)
    (hseekc : ∀ f, f ≤ fuel → ∀ (L : Nat) (σ : EVm) (s : ESt), L ∈ labs → σ.b.pc = C.env.addr L → ERel C.sl C.env s σ →
      Inv C d e vb gd σ → StmtSpec C d e vb endOff nx σ (seekCases f C.P gd cs' L s)) :
    ∀ f, f ≤ fuel → ∀ (L : Nat) (σ : EVm) (s : ESt), L ∈ labs → σ.b.pc = C.env.addr L → ERel C.sl C.env s σ →
      Inv C d e vb gd σ → StmtSpec C d e vb endOff nx σ (selectSeek f C.P gd cs' L s) := by
  intro f
  induction f with
  | zero =>
    intro _ L σ s _ _ _ _
    simp only [selectSeek, StmtSpec]
  | succ f ihf =>
    intro hf L σ s hL hpc hr hi
    simp only [selectSeek]
    have h1 := hseekc f (by omega) L σ s hL hpc hr hi
    exact sel_catch hlabs hdepth (ihf (by omega)) _ h1 hi

/-- leaving the SELECT: the result of the blocks (relative to the state `σ4` that carries the selector on the value stack)
as a result of the whole statement (relative to the entry state `σ`) -/
theorem sel_exit {C : Ctx} (hC : C.Ok) {d e vb fin endOff nx : Nat} {p : Pos} {n1 n2 : String} {σ σ4 : EVm} {subj : Val}
    (pre : Steps C.prog σ σ4) (hv : σ4.b.vals = subj :: σ.b.vals) (hrs : σ4.b.regStack = σ.b.regStack)
    (hpa : σ4.b.paths = σ.b.paths) (hgs : σ4.b.gosubs = σ.b.gosubs) (hea : HKeep σ σ4)
    (hend : CodeAt C.prog.code endOff (lift [(CInstr.label n1, p), (CInstr.popA, p), (CInstr.label n2, p)]))
    (hfin : fin = endOff + 3)
    (r : ESt × Outcome) (h : StmtSpec C d (e + 1) vb endOff nx σ4 r)
    (hdep : ∀ s' L, r = (s', .jump L) → C.env.dp.sd L ≤ e) :
    StmtSpec C d e vb fin nx σ r := by
  obtain ⟨s', o⟩ := r
  have hne : σ.errAddr ≠ none → σ4.errAddr ≠ none := fun hh => by rw [hea.addr]; exact hh
  cases o with
  | normal =>
    obtain ⟨τ, st3, hp3, hrel3, a1, ⟨a2, a2'⟩, a3, a4, a5⟩ := h
    rcases hp3 with hp3 | ⟨hp3, hn4⟩
    · -- `end-select: PopValueStackIntoA; select-skip:`
      have hc0 : C.prog.code[endOff]? = some (.base (CInstr.label n1), p) := by
        have := hend.lift_get (i := 0) (ip := (CInstr.label n1, p)) rfl
        simpa using this
      have hc1 : C.prog.code[endOff + 1]? = some (.base CInstr.popA, p) :=
        hend.lift_get (i := 1) (ip := (CInstr.popA, p)) rfl
      have hc2 : C.prog.code[endOff + 2]? = some (.base (CInstr.label n2), p) :=
        hend.lift_get (i := 2) (ip := (CInstr.label n2, p)) rfl
      cases hvals : τ.b.vals with
      | nil => rw [hvals] at a2; simp at a2
      | cons v rest =>
        let τ0 : EVm := { τ with b := JmpL.Vm.advance τ.b }
        have s4 : step C.prog τ = .next τ0 := sel_step_label hC.pok (by rw [hp3]; exact hc0)
        let τ1 : EVm := { τ0 with b := JmpL.Vm.advance { JmpL.Vm.setA τ0.b v with vals := rest } }
        have s5 : step C.prog τ0 = .next τ1 :=
          sel_step_popA hC.pok (by show C.prog.code[τ.b.pc + 1]? = _; rw [hp3]; exact hc1) hvals
        let τ2 : EVm := { τ1 with b := JmpL.Vm.advance τ1.b }
        have s6 : step C.prog τ1 = .next τ2 :=
          sel_step_label hC.pok (by show C.prog.code[τ.b.pc + 1 + 1]? = _; rw [hp3]; exact hc2)
        refine ⟨τ2, (pre.trans st3).trans (Steps.cons s4 (Steps.cons s5 (Steps.one s6))), .inl ?_, ?_, ?_, ⟨?_, ?_⟩, ?_, ?_, ?_⟩
        · show τ.b.pc + 1 + 1 + 1 = fin; rw [hp3, hfin]
        · exact hrel3.same (hrel3.base.same rfl rfl rfl rfl rfl)
        · show τ.b.regStack = _; rw [a1, hrs]
        · show vb + e ≤ rest.length
          rw [hvals] at a2; simp only [List.length_cons] at a2; omega
        · intro hh
          show rest = σ.b.vals.drop 0
          have := a2' (hne hh)
          rw [hvals, hv] at this
          simp only [List.drop_zero, List.cons.injEq] at this
          simp only [List.drop_zero]; exact this.2
        · show τ.b.paths = _; rw [a3, hpa]
        · show τ.b.gosubs = _; rw [a4, hgs]
        · exact a5.trans hea
    · -- RESUME NEXT skipped the last unit of the CASE ELSE block: the selector stays on the value stack
      have hσn : σ.errAddr = none := by rw [← hea.addr]; exact hn4
      exact ⟨τ, pre.trans st3, .inr ⟨hp3, hσn⟩, hrel3, by rw [a1, hrs], ⟨by omega, fun hh => absurd hσn hh⟩, by rw [a3, hpa],
        by rw [a4, hgs], a5.trans hea⟩
  | jump L =>
    obtain ⟨τ, st, hp, hrel, h1, ⟨h2, h2'⟩, h3, h4, h5⟩ := h
    have hsd := hdep s' L rfl
    refine ⟨τ, pre.trans st, hp, hrel, by rw [h1, hrs], ⟨h2, fun hh => ?_⟩, by rw [h3, hpa], by rw [h4, hgs], h5.trans hea⟩
    rw [h2' (hne hh), hv]
    have e1 : e + 1 - C.env.dp.sd L = (e - C.env.dp.sd L) + 1 := by omega
    rw [e1, List.drop_succ_cons]
  | ret q =>
    obtain ⟨τ, st, hp, hrel, ⟨X, hX⟩, b1, b2, h3, h4, h5⟩ := h
    refine ⟨τ, pre.trans st, hp, hrel, ⟨X, by rw [hX, hrs]⟩, b1, fun hh => ?_, by rw [h3, hpa], by rw [h4, hgs], h5.trans hea⟩
    obtain ⟨Y, hY⟩ := b2 (hne hh)
    exact ⟨Y, by rw [hY, hv, List.drop_succ_cons]⟩
  | resumed k =>
    -- a RESUME reached inside a block: passed on like `ret` (the selector lies above the SELECT's own part of the value stack)
    exact StmtSpec.resumed_out h pre (by rw [hrs]) (by rw [hv]; rfl) hpa hgs hea
  | halted =>
    obtain ⟨τ, υ, st, hh, hrel⟩ := h
    exact ⟨τ, υ, pre.trans st, hh, hrel⟩
  | error c q =>
    obtain ⟨τ, υ, st, hh, ho⟩ := h
    exact ⟨τ, υ, pre.trans st, hh, ho⟩
  | inexact => trivial
  | outOfFuel => trivial
  | illFormed => trivial
  | unspec => trivial
  | notHere => trivial


/-! ### the statement -/

theorem case_select (C : Ctx) (hC : C.Ok) (fuel : Nat) (ih : StmtIHle C fuel) (sel : Ast.Expr) (cases : SCases)
    (hasElse : Bool) (els : SStmt) (p : Pos) (sfx : String) (d e off nx vb gd : Nat) (m : Mode) (σ : EVm) (s : ESt)
    (hc : CodeAt C.prog.code off (compileStmt C.env sfx d e off (.select sel cases hasElse els p)))
    (hl : LabAt C.env d e off (.select sel cases hasElse els p))
    (hw : Wf C.sl C.env.dp C.rl d e (.select sel cases hasElse els p))
    (hm : MarksAt C.prog.marks (marksStmt C.env.dp d e off (.select sel cases hasElse els p)) nx)
    (hnx : off + sizeStmt C.env.dp d e (.select sel cases hasElse els p) ≤ nx)
    (hen : Entry C.env off (.select sel cases hasElse els p) m σ) (hr : ERel C.sl C.env s σ) (hi : Inv C d e vb gd σ) :
    StmtSpec C d e vb (off + sizeStmt C.env.dp d e (.select sel cases hasElse els p)) nx σ
      (exec (fuel + 1) C.P gd (desugar (.select sel cases hasElse els p)) m s) := by
  cases m with
  | seek L =>
    -- a SELECT is not entered from outside in seek mode
    simp only [desugar, exec]
    generalize Cases.hasLabel _ L = bb
    cases bb
    · simp only [Bool.false_eq_true, if_false, StmtSpec]
    · simp only [if_true, StmtSpec]
  | run =>
    have hpc : σ.b.pc = off := hen
    -- a jump that leaves the SELECT names a label that is not deeper than the SELECT
    have hdepOut : ∀ s' L, exec (fuel + 1) C.P gd (desugar (.select sel cases hasElse els p)) .run s = (s', .jump L) →
        C.env.dp.sd L ≤ e := fun s' L h => (Ctx.Ok.jump_depths hC.shape hw hl h).2.2
    have hc0 := hc
    have hw0 := hw
    simp only [compileStmt] at hc
    obtain ⟨hlc, hle⟩ := hl.select
    obtain ⟨hse, hwc, hwe, hnoelse, _⟩ := hw
    obtain ⟨hmu, ⟨nxC, hmc⟩, hme⟩ := marks_select hm
    obtain ⟨k, T, E, hk, hT, hE, hElen, hTlab, hdepE, htailRun, htailSeek⟩ :=
      sel_tail C hC fuel ih hasElse els p sfx d (e + 1) vb gd
        (off + (compileExpr sel).length + 1 + 3 + sizeCases C.env.dp d (e + 1) cases) nx hwe hnoelse hle hme
    have hfin : off + sizeStmt C.env.dp d e (.select sel cases hasElse els p) =
        off + (compileExpr sel).length + 1 + 3 + sizeCases C.env.dp d (e + 1) cases + k + 3 := by
      simp only [sizeStmt, hk]; omega
    simp only [desugar, exec, evalE] at hdepOut ⊢
    simp only [hk, hT, hE] at hc hdepOut ⊢
    rw [hfin] at hnx ⊢
    -- the pieces of the code
    have hcH : CodeAt C.prog.code off (lift (compileExpr sel ++ [(CInstr.pushA, p)] ++
        [(CInstr.jump (off + (compileExpr sel).length + 1 + 3 - 1), p),
         (CInstr.jump (off + (compileExpr sel).length + 1 + 3 + sizeCases C.env.dp d (e + 1) cases + k + 2), p),
         (CInstr.label (labelName "select-begin" p sfx), p)])) := hc.append_left.append_left.append_left
    have hcSel : CodeAt C.prog.code off (lift (compileExpr sel)) := sel_codeAt_lift_left (sel_codeAt_lift_left hcH)
    have hcc : CodeAt C.prog.code (off + (compileExpr sel).length + 1 + 3)
        (compileCases C.env sfx d (e + 1) p
          (off + (compileExpr sel).length + 1 + 3 + sizeCases C.env.dp d (e + 1) cases + k)
          (off + (compileExpr sel).length + 1 + 3 + sizeCases C.env.dp d (e + 1) cases)
          (off + (compileExpr sel).length + 1 + 3) 0 cases) := by
      have := hc.append_left.append_left.append_right
      simp only [lift_length, List.length_append, List.length_singleton, List.length_cons, List.length_nil] at this
      have e1 : off + ((compileExpr sel).length + 1 + (0 + 1 + 1 + 1)) = off + (compileExpr sel).length + 1 + 3 := by
        omega
      rw [e1] at this
      exact this
    have hcE : CodeAt C.prog.code (off + (compileExpr sel).length + 1 + 3 + sizeCases C.env.dp d (e + 1) cases) E := by
      have := hc.append_left.append_right
      simp only [lift_length, List.length_append, List.length_singleton, List.length_cons, List.length_nil, len_cases]
        at this
      have e1 : off + ((compileExpr sel).length + 1 + (0 + 1 + 1 + 1) + sizeCases C.env.dp d (e + 1) cases) =
          off + (compileExpr sel).length + 1 + 3 + sizeCases C.env.dp d (e + 1) cases := by omega
      rw [e1] at this
      exact this
    have hend : CodeAt C.prog.code (off + (compileExpr sel).length + 1 + 3 + sizeCases C.env.dp d (e + 1) cases + k)
        (lift [(CInstr.label (labelName "end-select" p sfx), p), (CInstr.popA, p),
          (CInstr.label (labelName "select-skip" p sfx), p)]) := by
      have := hc.append_right
      simp only [lift_length, List.length_append, List.length_singleton, List.length_cons, List.length_nil, len_cases,
        hElen] at this
      have e1 : off + ((compileExpr sel).length + 1 + (0 + 1 + 1 + 1) + sizeCases C.env.dp d (e + 1) cases + k) =
          off + (compileExpr sel).length + 1 + 3 + sizeCases C.env.dp d (e + 1) cases + k := by omega
      rw [e1] at this
      exact this
    have hslots : SlotsBelow σ.b.env.length sel := by rw [hr.base.len]; exact hse
    cases hev : RbModel.Ref.eval s.st.env sel with
    | inexact => simp only [hev, StmtSpec]
    | err c q =>
      -- the selector unit `[off, off + ne + 2)` fails
      simp only [hev]
      have hev' : RbModel.Ref.eval σ.b.env sel = .err c q := by rw [hr.base.env]; exact hev
      obtain ⟨υ, st, hs, hfa⟩ := expr_fails _ sel off σ.b (codeAt_pad off _) hpc hslots c q hev'
      obtain ⟨hst, hylo, hyhi, hstep⟩ := lift_fails' hC.pok hcSel (cu_expr_noread sel) st hs σ rfl
      generalize hy : ({ σ with b := υ } : EVm) = y at hst hstep
      have hyb : y.b = υ := by subst hy; rfl
      have hye : y.errAddr = σ.errAddr := by subst hy; rfl
      have hry : ERel C.sl C.env s y := by subst hy; exact hfa.erel hr
      have hiy : Inv C d e vb gd y := by subst hy; exact hfa.inv hi
      have h1 : y.b.regStack = σ.b.regStack := by rw [hyb]; exact hfa.regStack
      have h3 : y.b.paths = σ.b.paths := by rw [hyb]; exact hfa.paths
      have h4 : y.b.gosubs = σ.b.gosubs := by rw [hyb]; exact hfa.gosubs
      cases fuel with
      | zero => simp only [Ref.raise, StmtSpec]
      | succ g =>
        have hrs := raise_correct hC (ih g (by omega)) hmu (by rw [hyb]; exact hylo) (by rw [hyb]; omega) hstep
          (Quiet.refl y) hry hiy
        generalize hres : Ref.raise (g + 1) C.P gd c q s = r at hrs ⊢
        obtain ⟨s', dsp⟩ := r
        cases dsp with
        | again =>
          -- RESUME: the SELECT is evaluated again (on top of whatever the failing selector had pushed)
          obtain ⟨τ, st2, hp, hrτ, qq⟩ := hrs
          have hσe : σ.errAddr = none := by rw [← hye]; exact qq.notH
          have hiτ : Inv C d e vb gd τ :=
            hiy.congr qq.regStack (by rw [qq.vals]; exact hiy.he) qq.gosubs (qq.errAddr.trans qq.notH.symm)
          have := ih.self (.select sel cases hasElse els p) sfx d e off nx vb gd .run τ s' hc0 hl hw0 hm
            (by rw [hfin]; exact hnx) hp hrτ hiτ
          simp only [desugar, hT] at this
          rw [hfin] at this
          exact StmtSpec.after (hst.trans st2) (by rw [qq.regStack, h1])
            ⟨by rw [qq.vals]; exact hiy.he, fun hne => absurd hσe hne⟩ (by rw [qq.paths, h3]) (by rw [qq.gosubs, h4])
            (HKeep.of_none hσe qq.errAddr) this
        | next =>
          -- RESUME NEXT: at the `Jump select-skip`, i.e. after END SELECT
          obtain ⟨τ, st2, hp, hrτ, qq⟩ := hrs
          have hσe : σ.errAddr = none := by rw [← hye]; exact qq.notH
          have hj2 : C.prog.code[off + (compileExpr sel).length + 2]? = some (.base (CInstr.jump
              (off + (compileExpr sel).length + 1 + 3 + sizeCases C.env.dp d (e + 1) cases + k + 2)), p) := by
            have := (sel_codeAt_lift_right hcH).lift_get (i := 1) (ip := (CInstr.jump
              (off + (compileExpr sel).length + 1 + 3 + sizeCases C.env.dp d (e + 1) cases + k + 2), p)) rfl
            simp only [List.length_append, List.length_singleton] at this
            rw [← this]; congr 1
          have hl2 : C.prog.code[off + (compileExpr sel).length + 1 + 3 + sizeCases C.env.dp d (e + 1) cases + k + 2]? =
              some (.base (CInstr.label (labelName "select-skip" p sfx)), p) :=
            hend.lift_get (i := 2) (ip := (CInstr.label (labelName "select-skip" p sfx), p)) rfl
          let τ1 : EVm := { τ with b := { τ.b with
            pc := off + (compileExpr sel).length + 1 + 3 + sizeCases C.env.dp d (e + 1) cases + k + 2 } }
          have s3 : step C.prog τ = .next τ1 := sel_step_jump hC.pok (by rw [hp]; exact hj2)
          have s4 : step C.prog τ1 = .next { τ1 with b := JmpL.Vm.advance τ1.b } := sel_step_label hC.pok hl2
          exact ⟨{ τ1 with b := JmpL.Vm.advance τ1.b }, (hst.trans st2).trans (Steps.cons s3 (Steps.one s4)), .inl rfl,
            hrτ.same (hrτ.base.same rfl rfl rfl rfl rfl), by show τ.b.regStack = _; rw [qq.regStack, h1],
            ⟨by show vb + e ≤ τ.b.vals.length; rw [qq.vals]; exact hiy.he, fun hne => absurd hσe hne⟩,
            by show τ.b.paths = _; rw [qq.paths, h3], by show τ.b.gosubs = _; rw [qq.gosubs, h4],
            HKeep.of_none hσe qq.errAddr⟩
        | out o' =>
          obtain ⟨n1, n2, n3, n4, n5, hsp⟩ := hrs
          exact out_of_unit hst h1 h3 h4 hye n1 n2 n3 n4 n5 hsp _ nx
    | ok subj =>
      simp only [hev] at hdepOut ⊢
      -- the selector, on the header placed alone: push the subject, jump to the `select-begin` label, step over it
      have hcp := codeAt_pad off (compileExpr sel ++ [(CInstr.pushA, p)] ++
        [(CInstr.jump (off + (compileExpr sel).length + 1 + 3 - 1), p),
         (CInstr.jump (off + (compileExpr sel).length + 1 + 3 + sizeCases C.env.dp d (e + 1) cases + k + 2), p),
         (CInstr.label (labelName "select-begin" p sfx), p)])
      generalize hcode' : pad off (compileExpr sel ++ [(CInstr.pushA, p)] ++
        [(CInstr.jump (off + (compileExpr sel).length + 1 + 3 - 1), p),
         (CInstr.jump (off + (compileExpr sel).length + 1 + 3 + sizeCases C.env.dp d (e + 1) cases + k + 2), p),
         (CInstr.label (labelName "select-begin" p sfx), p)]) = code' at hcp
      have hev0 := RbThm.JmpLSim.compileExpr_correct code' sel off σ.b hcp.append_left.append_left hpc hslots
      simp only [RbThm.JmpLSim.ExprSpec] at hev0
      rw [hr.base.env, hev] at hev0
      obtain ⟨b, st⟩ := hev0
      have hpush : code'[off + (compileExpr sel).length]? = some (CInstr.pushA, p) := hcp.append_left.append_right.head
      have hjb : code'[off + (compileExpr sel).length + 1]? =
          some (CInstr.jump (off + (compileExpr sel).length + 1 + 3 - 1), p) := by
        have := hcp.append_right.head
        simp only [List.length_append, List.length_singleton] at this
        rw [← this]; congr 1
      have hlb : code'[off + (compileExpr sel).length + 1 + 3 - 1]? =
          some (CInstr.label (labelName "select-begin" p sfx), p) := by
        have := hcp.append_right.tail.tail.head
        simp only [List.length_append, List.length_singleton] at this
        rw [← this]; congr 1
      let σ1 : Vm := RbThm.JmpLSim.afterExpr σ.b (off + (compileExpr sel).length) subj b
      let σ2 : Vm := JmpL.Vm.advance { σ1 with vals := subj :: σ.b.vals }
      let σ3 : Vm := { σ2 with pc := off + (compileExpr sel).length + 1 + 3 - 1 }
      let σ4 : Vm := JmpL.Vm.advance σ3
      have s2 : JmpL.Vm.step code' σ1 = .next σ2 := by
        simp only [JmpL.Vm.step, σ1, RbThm.JmpLSim.afterExpr, hpush]; rfl
      have s3 : JmpL.Vm.step code' σ2 = .next σ3 := by
        have h : code'[σ2.pc]? = some (CInstr.jump (off + (compileExpr sel).length + 1 + 3 - 1), p) := hjb
        simp only [JmpL.Vm.step, h] <;> rfl
      have s4 : JmpL.Vm.step code' σ3 = .next σ4 := by
        have h : code'[σ3.pc]? = some (CInstr.label (labelName "select-begin" p sfx), p) := hlb
        simp only [JmpL.Vm.step, h] <;> rfl
      have stJ : RbThm.JmpLSim.Steps code' σ.b σ4 :=
        st.trans (RbThm.JmpLSim.Steps.cons s2 (RbThm.JmpLSim.Steps.cons s3 (RbThm.JmpLSim.Steps.one s4)))
      have hnrH : ∀ ip ∈ (compileExpr sel ++ [(CInstr.pushA, p)] ++
          [(CInstr.jump (off + (compileExpr sel).length + 1 + 3 - 1), p),
           (CInstr.jump (off + (compileExpr sel).length + 1 + 3 + sizeCases C.env.dp d (e + 1) cases + k + 2), p),
           (CInstr.label (labelName "select-begin" p sfx), p)]), ip.1 ≠ CInstr.builtInRead := by
        intro ip h
        simp only [List.mem_append, List.mem_singleton, List.mem_cons, List.not_mem_nil, or_false] at h
        rcases h with (h | h) | h | h | h
        · exact cu_expr_noread sel ip h
        all_goals (subst h; simp)
      subst hcode'
      have pre : Steps C.prog σ { σ with b := σ4 } := lift_steps hC.pok hcH hnrH stJ σ rfl
      have hr4 : ERel C.sl C.env s { σ with b := σ4 } := hr.same (hr.base.same rfl rfl rfl rfl rfl)
      have hi4 : Inv C d (e + 1) vb gd { σ with b := σ4 } :=
        ⟨hi.hd, by show vb + (e + 1) ≤ (subj :: σ.b.vals).length; simp only [List.length_cons]; have := hi.he; omega,
          hi.gs, hi.cut⟩
      -- the labels of the blocks
      have hlabs : ∀ L, (desugarCases cases T).hasLabel L = true → L ∈ cases.labels ++ els.labels := by
        intro L hL
        simp only [Cases.hasLabel, labels_desugarCases C.sl C.env.dp C.rl cases d (e + 1) hwc T, hTlab] at hL
        simpa using hL
      have hdepth : ∀ L, L ∈ cases.labels ++ els.labels → d ≤ C.env.dp.fd L ∧ e + 1 ≤ C.env.dp.sd L := by
        intro L hL
        rcases List.mem_append.mp hL with h | h
        · exact hlc.depth_ge h
        · exact hdepE L h
      have hnxE : off + (compileExpr sel).length + 1 + 3 + sizeCases C.env.dp d (e + 1) cases + k ≤ nx := by omega
      -- the blocks entered at a label
      have hseekc := sel_seek_cases C hC fuel ih sfx p d (e + 1) vb gd
        (off + (compileExpr sel).length + 1 + 3 + sizeCases C.env.dp d (e + 1) cases + k)
        (off + (compileExpr sel).length + 1 + 3 + sizeCases C.env.dp d (e + 1) cases) nx T els.labels (htailSeek hcE hnxE)
      have hseek := sel_seek_correct (cs' := desugarCases cases T) hlabs hdepth
        (fun f hf L τ s' hL hp' hr' hi' =>
          hseekc cases f hf _ 0 nxC L τ s' hcc hlc hwc hmc hL hp' hr' hi')
      -- the blocks from the first test
      have hcases := sel_cases_correct C hC fuel ih sfx p d (e + 1) vb gd
        (off + (compileExpr sel).length + 1 + 3 + sizeCases C.env.dp d (e + 1) cases + k)
        (off + (compileExpr sel).length + 1 + 3 + sizeCases C.env.dp d (e + 1) cases) nx subj T
        (fun f hf τ s' hp' hr' hi' => htailRun hcE hnxE f hf p subj τ s' hp' hr' hi')
        fuel (Nat.le_refl _) cases (off + (compileExpr sel).length + 1 + 3) 0 nxC { σ with b := σ4 } s hcc rfl hlc hwc hmc
        (.inl (by show off + (compileExpr sel).length + 1 + 3 - 1 + 1 = _; omega)) hr4 hi4 ⟨σ.b.vals, rfl⟩
      have hinner := sel_catch hlabs hdepth (hseek fuel (Nat.le_refl _)) _ hcases hi4
      exact sel_exit hC pre rfl rfl rfl rfl rfl hend rfl _ hinner hdepOut

end RbThm.ErrLSim
