import Thm.JmpLSimBase
/-!
Jump layer, simulation part: `IF … [ELSEIF …]* [ELSE …] END IF` (port of `C01SimIf`).

The ELSEIF chain is desugared into nested `ifs` nodes, and *every* node applies the jump-handling rule: a jump out of one
of its two parts to a label inside the node re-enters the node in seek mode.  So the proof has a lemma for one node
(`ifs_node`: entered from its condition, or in seek mode at a label in its block or further down the chain; what the rest of
the chain does and what a re-entry of the node itself does — at one unit of fuel less — are hypotheses), a lemma for the chain
by induction on the fuel (`chain_correct`), and the statement itself, whose first node is re-entered through the statement
theorem.  All specifications are stated at the end address `fin` of the whole IF (behind the `end-if` label).
-/
namespace RbThm.JmpLSim
set_option linter.unusedVariables false
set_option linter.unusedSimpArgs false
open RbModel RbModel.Num RbModel.JmpL RbModel.JmpL.Compile RbModel.JmpL.Vm
open RbModel.Ast (Pos PrintItem CaseExpr)
open RbModel.Ref (St ERes eval evalTo codeOf codeOutOfData codeZeroStep zeroOf truthy printValue endsInSeparator StepSign
  binStep lift)
open RbModel.JmpL.Ref
open RbThm.JmpLLen
open RbThm.C01Sim (Typed SlotsBelow ExprWt NumericAt NumericCond ItemsSlots CaseSlots CondsSlots)
open RbThm.JmpLShape (hasLabel_ifs)

/-- how a node of the lean syntax is entered: at address `a`, or in seek mode at a label inside it -/
def EntryS (env : LEnv) (a : Nat) (N : Stmt) : Mode → Vm → Prop
  | .run, σ => σ.pc = a
  | .seek L, σ => N.hasLabel L = true ∧ σ.pc = env.addr L

/-- a normal end at `bodyFin`, where `Jump endOff` sits, and `endOff` holds the `end-if` label: the run goes on to `fin` -/
theorem body_to_fin {C : Ctx} {d e bodyFin endOff fin : Nat} {σ : Vm} {p : Pos} {name : String} {r : St × Outcome}
    (h : StmtSpec C d e bodyFin σ r) (hj : C.code[bodyFin]? = some (CInstr.jump endOff, p))
    (hl : C.code[endOff]? = some (CInstr.label name, p)) (hfin : fin = endOff + 1) : StmtSpec C d e fin σ r := by
  obtain ⟨s', o⟩ := r
  cases o with
  | normal =>
    obtain ⟨τ, st, hp, hrel, hss⟩ := h
    have hj' : C.code[τ.pc]? = some (CInstr.jump endOff, p) := by rw [hp]; exact hj
    let τ1 : Vm := { τ with pc := endOff }
    have s1 : Vm.step C.code τ = .next τ1 := by simp only [Vm.step, hj']; rfl
    have hl' : C.code[τ1.pc]? = some (CInstr.label name, p) := hl
    have s2 : Vm.step C.code τ1 = .next (advance τ1) := by simp only [Vm.step, hl']
    exact ⟨advance τ1, st.trans (Steps.cons s1 (Steps.one s2)), by rw [hfin]; rfl, (hrel.setPc _).advance,
      SameStacks.trans hss ⟨rfl, rfl, rfl, rfl⟩⟩
  | halted => exact h
  | jump L => exact h
  | ret q => exact h
  | error c q => exact h
  | inexact => trivial
  | outOfFuel => trivial
  | illFormed => trivial
  | notHere => trivial

/-- a normal end at `endOff`, which holds the `end-if` label -/
theorem then_label {C : Ctx} {d e endOff fin : Nat} {σ : Vm} {p : Pos} {name : String} {r : St × Outcome}
    (h : StmtSpec C d e endOff σ r) (hl : C.code[endOff]? = some (CInstr.label name, p)) (hfin : fin = endOff + 1) :
    StmtSpec C d e fin σ r := by
  obtain ⟨s', o⟩ := r
  cases o with
  | normal =>
    obtain ⟨τ, st, hp, hrel, hss⟩ := h
    have hl' : C.code[τ.pc]? = some (CInstr.label name, p) := by rw [hp]; exact hl
    have s2 : Vm.step C.code τ = .next (advance τ) := by simp only [Vm.step, hl']
    exact ⟨advance τ, st.trans (Steps.one s2), by rw [hfin]; show τ.pc + 1 = _; rw [hp], hrel.advance,
      SameStacks.trans hss ⟨rfl, rfl, rfl, rfl⟩⟩
  | halted => exact h
  | jump L => exact h
  | ret q => exact h
  | error c q => exact h
  | inexact => trivial
  | outOfFuel => trivial
  | illFormed => trivial
  | notHere => trivial

/-- the labels of an ELSEIF chain with its ELSE part -/
theorem chain_hasLabel {sl : List Ty} {dp : Dp} {d e : Nat} {el : ElseIfs} {els : SStmt} (hwe : WfElifs sl dp d e el)
    (hwels : Wf sl dp d e els) (p : Pos) (L : Nat) :
    (desugarElifs el (desugar els) p).hasLabel L = true ↔ L ∈ el.labels ∨ L ∈ els.labels := by
  simp only [Stmt.hasLabel, labels_desugarElifs sl dp el d e hwe, labels_desugar sl dp els d e hwels,
    List.contains_eq_mem, List.mem_append, decide_eq_true_eq]

/-- the label of a jump that leaves an ELSEIF chain is not deeper than the IF -/
theorem jump_depths_elifs {sl : List Ty} {dp : Dp} {d e : Nat} {el : ElseIfs} {els : SStmt} (hwe : WfElifs sl dp d e el)
    (hwels : Wf sl dp d e els) {fuel : Nat} {P : Stmt} {m : Mode} {s s' : St} {L : Nat} {p : Pos}
    (h : exec fuel P (desugarElifs el (desugar els) p) m s = (s', .jump L)) : dp.fd L ≤ d ∧ dp.sd L ≤ e := by
  obtain ⟨hg, hl⟩ := RbThm.JmpLShape.jump_shape fuel P _ m s s' L h
  have hl' : ¬ (L ∈ el.labels ∨ L ∈ els.labels) := by
    intro hh
    have := (chain_hasLabel hwe hwels p L).mpr hh
    rw [this] at hl; cases hl
  rcases gotos_desugarElifs el (desugar els) p L hg with hg | hg
  · exact goto_depths_elifs sl dp el d e L hwe hg (fun h => hl' (.inl h))
  · exact goto_depths sl dp els d e L hwels (gotos_desugar els L hg) (fun h => hl' (.inr h))

/-- the jump-handling rule of a node of the lean syntax, given what a re-entry of the node does -/
theorem catch_with {C : Ctx} {d e fin : Nat} {σ : Vm} (N : Stmt) (f : Nat) (r1 : St × Outcome)
    (h1 : StmtSpec C d e fin σ r1)
    (hdep : ∀ s' L, r1 = (s', .jump L) → C.env.dp.fd L ≤ d ∧ C.env.dp.sd L ≤ e)
    (hge : ∀ L, N.hasLabel L = true → d ≤ C.env.dp.fd L ∧ e ≤ C.env.dp.sd L)
    (hself : ∀ (L : Nat) (τ : Vm) (s0 : St), N.hasLabel L = true → τ.pc = C.env.addr L →
      Rel C.sl s0 τ → SameStacks σ τ → StmtSpec C d e fin τ (exec f C.P N (.seek L) s0)) :
    StmtSpec C d e fin σ
      (match (generalizing := false) r1 with
       | (s', .jump L) => if N.hasLabel L = true then exec f C.P N (.seek L) s' else (s', .jump L)
       | r => r) := by
  obtain ⟨s1, o1⟩ := r1
  cases o1 with
  | jump L =>
    simp only
    by_cases hL : N.hasLabel L = true
    · simp only [hL, if_true]
      obtain ⟨g1, g2⟩ := hge L hL
      obtain ⟨k1, k2⟩ := hdep _ _ rfl
      obtain ⟨τ, st, hp, hrτ, hss⟩ := jump_caught h1 k1 g1 k2 g2
      exact StmtSpec.of_steps st hss (hself L τ s1 hL hp hrτ hss)
    · simp only [hL]
      exact h1
  | normal => exact h1
  | halted => exact h1
  | ret q => exact h1
  | error cd q => exact h1
  | inexact => trivial
  | outOfFuel => trivial
  | illFormed => trivial
  | notHere => trivial

/-! ### one node -/

theorem ifs_node (C : Ctx) (fuel f : Nat) (ih : StmtIHle C fuel) (hf : f ≤ fuel)
    (c : Ast.Expr) (body : SStmt) (E : Stmt) (sfx : String) (p : Pos) (d e a next endOff fin : Nat) (name : String)
    (hc : CodeAt C.code a (compileExpr c ++ [(CInstr.jumpIfFalse next, p)] ++
      compileStmt C.env sfx d e (a + (compileExpr c).length + 1) body ++ [(CInstr.jump endOff, p)]))
    (hendl : C.code[endOff]? = some (CInstr.label name, p)) (hfin : fin = endOff + 1)
    (hlb : LabAt C.env d e (a + (compileExpr c).length + 1) body) (hwb : Wf C.sl C.env.dp d e body)
    (hsc : SlotsBelow C.sl.length c) (hnc : NumericCond C.sl c)
    (m : Mode) (σ : Vm) (s : St)
    (hen : EntryS C.env a (Stmt.ifs c (desugar body) E p) m σ)
    (hr : Rel C.sl s σ) (hd : d ≤ σ.regStack.length) (he : e ≤ σ.vals.length)
    (hge : ∀ L, (Stmt.ifs c (desugar body) E p).hasLabel L = true → d ≤ C.env.dp.fd L ∧ e ≤ C.env.dp.sd L)
    (hdepE : ∀ (m' : Mode) (s0 s' : St) (L : Nat), exec f C.P E m' s0 = (s', .jump L) →
      C.env.dp.fd L ≤ d ∧ C.env.dp.sd L ≤ e)
    (hrest : ∀ (m' : Mode) (τ : Vm) (s0 : St), EntryS C.env next E m' τ → Rel C.sl s0 τ → SameStacks σ τ →
      StmtSpec C d e fin τ (exec f C.P E m' s0))
    (hself : ∀ (L : Nat) (τ : Vm) (s0 : St), (Stmt.ifs c (desugar body) E p).hasLabel L = true → τ.pc = C.env.addr L →
      Rel C.sl s0 τ → SameStacks σ τ →
      StmtSpec C d e fin τ (exec f C.P (Stmt.ifs c (desugar body) E p) (.seek L) s0)) :
    StmtSpec C d e fin σ (exec (f + 1) C.P (Stmt.ifs c (desugar body) E p) m s) := by
  have hcb : CodeAt C.code (a + (compileExpr c).length + 1)
      (compileStmt C.env sfx d e (a + (compileExpr c).length + 1) body) := by
    have := hc.append_left.append_right
    simp only [List.length_append, List.length_singleton] at this
    have e1 : a + ((compileExpr c).length + 1) = a + (compileExpr c).length + 1 := by omega
    rw [e1] at this
    exact this
  have hj : C.code[a + (compileExpr c).length + 1 + sizeStmt C.env.dp d e body]? = some (CInstr.jump endOff, p) := by
    have := hc.append_right.head
    simp only [List.length_append, List.length_singleton, len_stmt] at this
    rw [← this]; congr 1; omega
  -- the block, entered either way from a state with the stacks of `σ`
  have hblock : ∀ (mb : Mode) (τ : Vm), Entry C.env (a + (compileExpr c).length + 1) body mb τ → Rel C.sl s τ →
      SameStacks σ τ → StmtSpec C d e fin τ (exec f C.P (desugar body) mb s) := by
    intro mb τ hen' hr' hss
    have := ih f hf body sfx d e _ mb τ s hcb hlb hwb hen' hr' (by rw [hss.1]; exact hd) (by rw [hss.2.1]; exact he)
    exact body_to_fin this hj hendl hfin
  have hent : m.enters (Stmt.ifs c (desugar body) E p) = true := by
    cases m with
    | run => rfl
    | seek L => exact hen.1
  -- the two parts, before the jump-handling rule
  have hinner : StmtSpec C d e fin σ
      (match (generalizing := false) m with
       | .run =>
         match evalCond s.env c with
         | .error o => (s, o)
         | .ok true => exec f C.P (desugar body) .run s
         | .ok false => exec f C.P E .run s
       | .seek L => if (desugar body).hasLabel L = true then exec f C.P (desugar body) (.seek L) s else exec f C.P E (.seek L) s) ∧
      ∀ s' L, (match (generalizing := false) m with
       | .run =>
         match evalCond s.env c with
         | .error o => (s, o)
         | .ok true => exec f C.P (desugar body) .run s
         | .ok false => exec f C.P E .run s
       | .seek L => if (desugar body).hasLabel L = true then exec f C.P (desugar body) (.seek L) s else exec f C.P E (.seek L) s)
        = (s', .jump L) → C.env.dp.fd L ≤ d ∧ C.env.dp.sd L ≤ e := by
    cases m with
    | seek L =>
      simp only
      by_cases hLb : (desugar body).hasLabel L = true
      · simp only [hLb, if_true]
        exact ⟨hblock (.seek L) σ ⟨(hasLabel_iff hwb L).mp hLb, hen.2⟩ hr (SameStacks.refl σ),
          fun s' L' h => (jump_depths hwb h).2⟩
      · simp only [hLb]
        have hLE : E.hasLabel L = true := by
          have := hen.1
          rw [hasLabel_ifs] at this
          simp only [Bool.or_eq_true] at this
          exact this.resolve_left hLb
        exact ⟨hrest (.seek L) σ s ⟨hLE, hen.2⟩ hr (SameStacks.refl σ), fun s' L' h => hdepE _ _ _ _ h⟩
    | run =>
      have hpc : σ.pc = a := hen
      have hcond := cond_correct C.code c next p a σ hc.append_left.append_left hpc
        (by rw [hr.len]; exact hsc) (by rw [hr.env]; exact hnc _ hr.typed)
      rw [hr.env] at hcond
      simp only
      cases hec : evalCond s.env c with
      | error o =>
        simp only [hec] at hcond ⊢
        refine ⟨StmtSpec.of_cond_error hec ?_, ?_⟩
        · intro cd q ho
          subst ho
          exact ⟨s.env, by rw [← hr.out]; exact hcond⟩
        · intro s' L' h
          simp only [Prod.mk.injEq] at h
          exact absurd h.2 (RbThm.JmpLShape.evalCond_no_jump hec L')
      | ok bv =>
        simp only [hec] at hcond ⊢
        cases bv with
        | true =>
          obtain ⟨v, b, st⟩ := hcond
          exact ⟨StmtSpec.of_steps st ⟨rfl, rfl, rfl, rfl⟩
            (hblock .run _ rfl (hr.afterExpr _ v b) ⟨rfl, rfl, rfl, rfl⟩), fun s' L' h => (jump_depths hwb h).2⟩
        | false =>
          obtain ⟨v, b, st⟩ := hcond
          exact ⟨StmtSpec.of_steps st ⟨rfl, rfl, rfl, rfl⟩
            (hrest .run _ s rfl (hr.afterExpr _ v b) ⟨rfl, rfl, rfl, rfl⟩), fun s' L' h => hdepE _ _ _ _ h⟩
  simp only [exec, hent, if_true]
  exact catch_with _ f _ hinner.1 hinner.2 hge hself

/-! ### the ELSEIF chain with the ELSE part -/

theorem chain_correct (C : Ctx) (fuel : Nat) (ih : StmtIHle C fuel) (sfx : String) (p : Pos)
    (d e endOff elseOff fin : Nat) (name : String) (hasElse : Bool) (els : SStmt)
    (hendl : C.code[endOff]? = some (CInstr.label name, p)) (hfin : fin = endOff + 1)
    (hwels : Wf C.sl C.env.dp d e els) (hnoelse : hasElse = false → els = .skip ∧ elseOff = endOff)
    (hcelse : hasElse = true →
      C.code[elseOff]? = some (CInstr.label (labelName "else" p sfx), p) ∧
      CodeAt C.code (elseOff + 1) (compileStmt C.env sfx d e (elseOff + 1) els) ∧
      elseOff + 1 + sizeStmt C.env.dp d e els = endOff ∧ LabAt C.env d e (elseOff + 1) els)
    (σ0 : Vm) (hd : d ≤ σ0.regStack.length) (he : e ≤ σ0.vals.length) :
    ∀ (n f : Nat), f ≤ n → f ≤ fuel → ∀ (elifs : ElseIfs) (off i : Nat) (m : Mode) (σ : Vm) (s : St),
      CodeAt C.code off (compileElifs C.env sfx d e p endOff elseOff off i elifs) →
      off + sizeElifs C.env.dp d e elifs = elseOff → LabAtElifs C.env d e off elifs → WfElifs C.sl C.env.dp d e elifs →
      EntryS C.env off (desugarElifs elifs (desugar els) p) m σ → Rel C.sl s σ → SameStacks σ0 σ →
      StmtSpec C d e fin σ (exec f C.P (desugarElifs elifs (desugar els) p) m s) := by
  intro n
  induction n with
  | zero =>
    intro f hfn _ elifs off i m σ s _ _ _ _ _ _ _
    have : f = 0 := by omega
    subst this
    simp only [exec, StmtSpec]
  | succ n ihn =>
    intro f hfn hff elifs off i m σ s hc hsz hl hw hen hr hss
    by_cases hle : f ≤ n
    · exact ihn f hle hff elifs off i m σ s hc hsz hl hw hen hr hss
    have hfe : f = n + 1 := by omega
    subst hfe
    have hdσ : d ≤ σ.regStack.length := by rw [hss.1]; exact hd
    have heσ : e ≤ σ.vals.length := by rw [hss.2.1]; exact he
    cases elifs with
    | nil =>
      simp only [desugarElifs] at hen ⊢
      simp only [sizeElifs] at hsz
      cases hasElse with
      | false =>
        obtain ⟨hskip, heq⟩ := hnoelse rfl
        subst hskip
        cases m with
        | seek L => simp only [desugar, exec, StmtSpec]
        | run =>
          have hpc : σ.pc = endOff := by rw [← heq, ← hsz]; exact hen
          simp only [desugar, exec]
          exact then_label ⟨σ, Steps.refl σ, hpc, hr, SameStacks.refl σ⟩ hendl hfin
      | true =>
        obtain ⟨hlab, hce, hsz2, hlels⟩ := hcelse rfl
        cases m with
        | seek L =>
          have hL : L ∈ els.labels := (hasLabel_iff hwels L).mp hen.1
          have := ih (n + 1) hff els sfx d e _ (.seek L) σ s hce hlels hwels ⟨hL, hen.2⟩ hr hdσ heσ
          rw [hsz2] at this
          exact then_label this hendl hfin
        | run =>
          have hpc : σ.pc = elseOff := by rw [← hsz]; exact hen
          have hlab' : C.code[σ.pc]? = some (CInstr.label (labelName "else" p sfx), p) := by rw [hpc]; exact hlab
          have s1 : Vm.step C.code σ = .next (advance σ) := by simp only [Vm.step, hlab']
          have := ih (n + 1) hff els sfx d e _ .run (advance σ) s hce hlels hwels
            (by show σ.pc + 1 = elseOff + 1; rw [hpc]) hr.advance hdσ heσ
          rw [hsz2] at this
          exact StmtSpec.of_steps (Steps.one s1) ⟨rfl, rfl, rfl, rfl⟩ (then_label this hendl hfin)
    | cons c body rest =>
      have hc0 := hc
      have hl0 := hl
      have hw0 := hw
      simp only [desugarElifs] at hen ⊢
      simp only [compileElifs] at hc
      obtain ⟨hsc, hnc, hwb, hwr⟩ := hw
      obtain ⟨hlb, hlr⟩ := hl.cons
      simp only [sizeElifs] at hsz
      have hlabel : C.code[off]? = some (CInstr.label (labelName ("else-if-" ++ toString i) p sfx), p) :=
        hc.append_left.append_left.append_left.append_left.append_left.head
      have harm : CodeAt C.code (off + 1) (compileExpr c ++
          [(CInstr.jumpIfFalse (off + 1 + (compileExpr c).length + 1 + sizeStmt C.env.dp d e body + 1), p)] ++
          compileStmt C.env sfx d e (off + 1 + (compileExpr c).length + 1) body ++ [(CInstr.jump endOff, p)]) := by
        have h := hc.append_left
        have h' : CodeAt C.code off ([(CInstr.label (labelName ("else-if-" ++ toString i) p sfx), p)] ++
            (compileExpr c ++
              [(CInstr.jumpIfFalse (off + 1 + (compileExpr c).length + 1 + sizeStmt C.env.dp d e body + 1), p)] ++
              compileStmt C.env sfx d e (off + 1 + (compileExpr c).length + 1) body ++ [(CInstr.jump endOff, p)])) := by
          simpa only [List.append_assoc] using h
        have := h'.append_right
        simpa only [List.length_singleton] using this
      have hcr : CodeAt C.code (off + 1 + (compileExpr c).length + 1 + sizeStmt C.env.dp d e body + 1)
          (compileElifs C.env sfx d e p endOff elseOff
            (off + 1 + (compileExpr c).length + 1 + sizeStmt C.env.dp d e body + 1) (i + 1) rest) := by
        have := hc.append_right
        simp only [List.length_append, List.length_singleton, len_stmt] at this
        have e1 : off + (1 + (compileExpr c).length + 1 + sizeStmt C.env.dp d e body + 1) =
            off + 1 + (compileExpr c).length + 1 + sizeStmt C.env.dp d e body + 1 := by omega
        rw [e1] at this
        exact this
      have hgeN : ∀ L, (Stmt.ifs c (desugar body) (desugarElifs rest (desugar els) p) p).hasLabel L = true →
          d ≤ C.env.dp.fd L ∧ e ≤ C.env.dp.sd L := by
        intro L hL
        rw [hasLabel_ifs] at hL
        simp only [Bool.or_eq_true] at hL
        rcases hL with hL | hL
        · exact hlb.depth_ge ((hasLabel_iff hwb L).mp hL)
        · rcases (chain_hasLabel hwr hwels p L).mp hL with hL | hL
          · exact hlr.depth_ge hL
          · cases hasElse with
            | false => rw [(hnoelse rfl).1] at hL; simp [SStmt.labels] at hL
            | true => exact (hcelse rfl).2.2.2.depth_ge hL
      -- apply the node lemma from a state `σ'` with the stacks of `σ`
      have hnode : ∀ (σ' : Vm), SameStacks σ σ' → Rel C.sl s σ' →
          EntryS C.env (off + 1) (Stmt.ifs c (desugar body) (desugarElifs rest (desugar els) p) p) m σ' →
          StmtSpec C d e fin σ' (exec (n + 1) C.P (Stmt.ifs c (desugar body) (desugarElifs rest (desugar els) p) p) m s) := by
        intro σ' hss' hr' hen'
        have hss0 : SameStacks σ0 σ' := SameStacks.trans hss hss'
        refine ifs_node C fuel n ih (by omega) c body _ sfx p d e (off + 1) _ endOff fin name harm hendl hfin hlb hwb hsc hnc
          m σ' s hen' hr' (by rw [hss0.1]; exact hd) (by rw [hss0.2.1]; exact he) hgeN
          (fun m' s0 s' L h => jump_depths_elifs hwr hwels h) ?_ ?_
        · intro m' τ s0 henτ hrτ hssτ
          exact ihn n (Nat.le_refl _) (by omega) rest _ (i + 1) m' τ s0 hcr (by omega) hlr hwr henτ hrτ
            (SameStacks.trans hss0 hssτ)
        · intro L τ s0 hL hpτ hrτ hssτ
          have := ihn n (Nat.le_refl _) (by omega) (.cons c body rest) off i (.seek L) τ s0 hc0 (by simp only [sizeElifs]; omega)
            hl0 hw0 ⟨by simpa only [desugarElifs] using hL, hpτ⟩ hrτ (SameStacks.trans hss0 hssτ)
          simpa only [desugarElifs] using this
      cases m with
      | seek L => exact hnode σ (SameStacks.refl σ) hr hen
      | run =>
        have hpc : σ.pc = off := hen
        have hlabel' : C.code[σ.pc]? = some (CInstr.label (labelName ("else-if-" ++ toString i) p sfx), p) := by
          rw [hpc]; exact hlabel
        have s1 : Vm.step C.code σ = .next (advance σ) := by simp only [Vm.step, hlabel']
        exact StmtSpec.of_steps (Steps.one s1) ⟨rfl, rfl, rfl, rfl⟩
          (hnode (advance σ) ⟨rfl, rfl, rfl, rfl⟩ hr.advance (by show σ.pc + 1 = off + 1; rw [hpc]))

/-- `LabAt` of the empty statement -/
theorem labAt_skip (env : LEnv) (d e off : Nat) : LabAt env d e off .skip :=
  ⟨fun L a h => by simp [addrTable] at h, fun L d' e' h => by simp [depthTable] at h⟩

/-! ### the statement -/

theorem case_if (C : Ctx) (fuel : Nat) (ih : StmtIHle C fuel) (c : Ast.Expr) (thn : SStmt) (elifs : ElseIfs)
    (hasElse : Bool) (els : SStmt) (p : Pos) (sfx : String) (d e off : Nat) (m : Mode) (σ : Vm) (s : St)
    (hc : CodeAt C.code off (compileStmt C.env sfx d e off (.ifBlock c thn elifs hasElse els p)))
    (hl : LabAt C.env d e off (.ifBlock c thn elifs hasElse els p))
    (hw : Wf C.sl C.env.dp d e (.ifBlock c thn elifs hasElse els p))
    (hen : Entry C.env off (.ifBlock c thn elifs hasElse els p) m σ) (hr : Rel C.sl s σ)
    (hd : d ≤ σ.regStack.length) (he : e ≤ σ.vals.length) :
    StmtSpec C d e (off + sizeStmt C.env.dp d e (.ifBlock c thn elifs hasElse els p)) σ
      (exec (fuel + 1) C.P (desugar (.ifBlock c thn elifs hasElse els p)) m s) := by
  have hc0 := hc
  have hw0 := hw
  obtain ⟨hsc, hnc, hwt, hwe, hwels, hnoelse⟩ := hw
  obtain ⟨hlt, hle, hlels⟩ := hl.ifBlock
  -- addresses
  let afterThn := off + (compileExpr c).length + 1 + sizeStmt C.env.dp d e thn + 1
  let elseOff := afterThn + sizeElifs C.env.dp d e elifs
  let endOff := elseOff + (if hasElse then 1 + sizeStmt C.env.dp d e els else 0)
  have hfin : off + sizeStmt C.env.dp d e (.ifBlock c thn elifs hasElse els p) = endOff + 1 := by
    simp only [sizeStmt, endOff, elseOff, afterThn]; omega
  simp only [compileStmt] at hc
  have harm : CodeAt C.code off (compileExpr c ++ [(CInstr.jumpIfFalse afterThn, p)] ++
      compileStmt C.env sfx d e (off + (compileExpr c).length + 1) thn ++ [(CInstr.jump endOff, p)]) :=
    hc.append_left.append_left.append_left
  have hce : CodeAt C.code afterThn (compileElifs C.env sfx d e p endOff elseOff afterThn 0 elifs) := by
    have := hc.append_left.append_left.append_right
    simp only [List.length_append, List.length_singleton, len_stmt] at this
    have e1 : off + ((compileExpr c).length + 1 + sizeStmt C.env.dp d e thn + 1) = afterThn := by
      simp only [afterThn]; omega
    rw [e1] at this
    exact this
  have hendl : C.code[endOff]? = some (CInstr.label (labelName "end-if" p sfx), p) := by
    have := hc.append_right.head
    simp only [List.length_append, List.length_singleton, len_stmt, len_elifs] at this
    rw [← this]; congr 1
    simp only [endOff, elseOff, afterThn]
    cases hasElse <;> simp [len_stmt] <;> omega
  have hnoelse' : hasElse = false → els = .skip ∧ elseOff = endOff := by
    intro h; subst h
    exact ⟨hnoelse rfl, by simp [endOff]⟩
  have hcelse : hasElse = true →
      C.code[elseOff]? = some (CInstr.label (labelName "else" p sfx), p) ∧
      CodeAt C.code (elseOff + 1) (compileStmt C.env sfx d e (elseOff + 1) els) ∧
      elseOff + 1 + sizeStmt C.env.dp d e els = endOff ∧ LabAt C.env d e (elseOff + 1) els := by
    intro h; subst h
    simp only [if_true] at hc
    refine ⟨?_, ?_, by simp only [endOff, if_true]; omega, hlels rfl⟩
    · have := hc.append_left.append_right.append_left.head
      simp only [List.length_append, List.length_singleton, len_stmt, len_elifs] at this
      rw [← this]; congr 1
      simp only [elseOff, afterThn]; omega
    · have := hc.append_left.append_right.append_right
      simp only [List.length_append, List.length_singleton, len_stmt, len_elifs] at this
      have e1 : off + ((compileExpr c).length + 1 + sizeStmt C.env.dp d e thn + 1 + sizeElifs C.env.dp d e elifs) + 1 =
          elseOff + 1 := by simp only [elseOff, afterThn]; omega
      rw [e1] at this
      exact this
  rw [hfin]
  simp only [desugar]
  have henS : EntryS C.env off (Stmt.ifs c (desugar thn) (desugarElifs elifs (desugar els) p) p) m σ := by
    cases m with
    | run => exact hen
    | seek L => exact ⟨by have := (hasLabel_iff hw0 L).mpr hen.1; simpa only [desugar] using this, hen.2⟩
  refine ifs_node C fuel fuel ih (Nat.le_refl _) c thn _ sfx p d e off afterThn endOff (endOff + 1) _ harm hendl rfl
    hlt hwt hsc hnc m σ s henS hr hd he ?_ (fun m' s0 s' L h => jump_depths_elifs hwe hwels h) ?_ ?_
  · intro L hL
    have : (desugar (.ifBlock c thn elifs hasElse els p)).hasLabel L = true := by simpa only [desugar] using hL
    exact hl.depth_ge ((hasLabel_iff hw0 L).mp this)
  · intro m' τ s0 henτ hrτ hssτ
    exact chain_correct C fuel ih sfx p d e endOff elseOff (endOff + 1) _ hasElse els hendl rfl hwels hnoelse' hcelse σ hd he
      fuel fuel (Nat.le_refl _) (Nat.le_refl _) elifs afterThn 0 m' τ s0 hce rfl hle hwe henτ hrτ hssτ
  · intro L τ s0 hL hpτ hrτ hssτ
    have hL' : L ∈ (SStmt.ifBlock c thn elifs hasElse els p).labels := by
      have : (desugar (.ifBlock c thn elifs hasElse els p)).hasLabel L = true := by simpa only [desugar] using hL
      exact (hasLabel_iff hw0 L).mp this
    have := ih.self (.ifBlock c thn elifs hasElse els p) sfx d e off (.seek L) τ s0 hc0 hl hw0 ⟨hL', hpτ⟩ hrτ
      (by rw [hssτ.1]; exact hd) (by rw [hssτ.2.1]; exact he)
    rw [hfin] at this
    simpa only [desugar] using this

end RbThm.JmpLSim
