import Thm.ArrLSimProg
import RbModel.ArrL.WfB
/-!
Arrays layer — a decidable form of the static premise `ProgWf` of `ArrL.compile_correct`.

`progWfB prog = true` is what a driver can evaluate on a concrete linted program (`RbModel/ArrL/WfB.lean`);
`progWfB_sound` shows it implies `ProgWf prog`.
-/
namespace RbThm.ArrLSim
set_option linter.unusedVariables false
set_option linter.unusedSimpArgs false
open RbModel RbModel.Num RbModel.ArrL RbModel.ArrL.Compile RbModel.ArrL.Vm
open RbModel.Ast (Pos)

theorem ne_nil_of_not_isNil {idx : Exprs} (h : (!idx.isNil) = true) : idx ≠ .nil := by
  intro hn; subst hn; simp [Exprs.isNil] at h

mutual
theorem eWfB_sound (sc : Scope) : ∀ e, eWfB sc.slots sc.arrs e = true → EWf sc e
  | .lit _ _, _ => trivial
  | .var x t _, h => by simpa [eWfB, EWf] using h
  | .un _ e _, h => by
    simp only [eWfB] at h
    simp only [EWf]; exact eWfB_sound sc e h
  | .bin op l r t _, h => by
    simp only [eWfB, Bool.and_eq_true, Bool.or_eq_true, decide_eq_true_eq] at h
    simp only [EWf]
    exact ⟨eWfB_sound sc l h.1.1, eWfB_sound sc r h.1.2, h.2⟩
  | .paren e _, h => by
    simp only [eWfB] at h
    simp only [EWf]; exact eWfB_sound sc e h
  | .elem a idx t _, h => by
    simp only [eWfB, Bool.and_eq_true, decide_eq_true_eq] at h
    simp only [EWf]
    exact ⟨h.1.1, ne_nil_of_not_isNil h.1.2, idxWfB_sound sc idx h.2⟩
  | .bound _ a t _ _, h => by simpa [eWfB, EWf] using h
  | .boundD _ a t _ d _, h => by
    simp only [eWfB, Bool.and_eq_true, decide_eq_true_eq] at h
    simp only [EWf]
    exact ⟨h.1, eWfB_sound sc d h.2⟩
theorem idxWfB_sound (sc : Scope) : ∀ idx, idxWfB sc.slots sc.arrs idx = true → IdxWf sc idx
  | .nil, _ => trivial
  | .cons e rest, h => by
    simp only [idxWfB, Bool.and_eq_true] at h
    simp only [IdxWf]
    exact ⟨eWfB_sound sc e h.1, idxWfB_sound sc rest h.2⟩
end

theorem itemsWfB_sound (sc : Scope) : ∀ items, itemsWfB sc.slots sc.arrs items = true → ItemsWf sc items
  | [], _ => trivial
  | .expr e :: rest, h => by
    simp only [itemsWfB, Bool.and_eq_true] at h
    exact ⟨eWfB_sound sc e h.1, itemsWfB_sound sc rest h.2⟩
  | .comma :: rest, h => by
    simp only [itemsWfB] at h
    simp only [ItemsWf]; exact itemsWfB_sound sc rest h
  | .semicolon :: rest, h => by
    simp only [itemsWfB] at h
    simp only [ItemsWf]; exact itemsWfB_sound sc rest h

theorem selRelOpB_sound (op : Op) (h : selRelOpB op = true) : SelRelOp op := by
  simp only [selRelOpB, Bool.or_eq_true, decide_eq_true_eq] at h
  simp only [SelRelOp]
  rcases h with ((((h | h) | h) | h) | h) | h
  · exact .inl h
  · exact .inr (.inl h)
  · exact .inr (.inr (.inl h))
  · exact .inr (.inr (.inr (.inl h)))
  · exact .inr (.inr (.inr (.inr (.inl h))))
  · exact .inr (.inr (.inr (.inr (.inr h))))

theorem caseWfB_sound (sc : Scope) : ∀ c, caseWfB sc.slots sc.arrs c = true → CaseWf sc c
  | .simple e, h => eWfB_sound sc e h
  | .is op e, h => by
    simp only [caseWfB, Bool.and_eq_true] at h
    exact ⟨selRelOpB_sound op h.1, eWfB_sound sc e h.2⟩
  | .range lo hi, h => by
    simp only [caseWfB, Bool.and_eq_true] at h
    exact ⟨eWfB_sound sc lo h.1, eWfB_sound sc hi h.2⟩

theorem condsWfB_sound (sc : Scope) : ∀ cs, condsWfB sc.slots sc.arrs cs = true → CondsWf sc cs
  | [], _ => trivial
  | c :: rest, h => by
    simp only [condsWfB, Bool.and_eq_true] at h
    exact ⟨caseWfB_sound sc c h.1, condsWfB_sound sc rest h.2⟩

theorem dimsWfB_sound (sc : Scope) : ∀ ds, dimsWfB sc.slots sc.arrs ds = true → DimsWf sc ds
  | .nil, _ => trivial
  | .cons none hi rest, h => by
    simp only [dimsWfB, Bool.and_eq_true] at h
    exact ⟨eWfB_sound sc hi h.1, dimsWfB_sound sc rest h.2⟩
  | .cons (some lo) hi rest, h => by
    simp only [dimsWfB, Bool.and_eq_true] at h
    exact ⟨eWfB_sound sc lo h.1.1, eWfB_sound sc hi h.1.2, dimsWfB_sound sc rest h.2⟩

theorem targetWfB_sound (sc : Scope) : ∀ tg, targetWfB sc.slots sc.arrs tg = true → TargetWf sc tg
  | .var x t _, h => by simpa [targetWfB, TargetWf] using h
  | .elem a t idx _, h => by
    simp only [targetWfB, Bool.and_eq_true, decide_eq_true_eq] at h
    exact ⟨h.1.1, ne_nil_of_not_isNil h.1.2, idxWfB_sound sc idx h.2⟩

theorem isSkipB_sound : ∀ s, isSkipB s = true → s = .skip := by
  intro s h; cases s <;> first | rfl | cases h

theorem elseB_sound {hasElse : Bool} {els : SStmt} (h : (hasElse || isSkipB els) = true) :
    hasElse = false → els = .skip := by
  intro hf
  rw [hf] at h
  exact isSkipB_sound els (by simpa using h)

theorem ne_nil_of_not_isEmpty {α : Type} {l : List α} (h : (!l.isEmpty) = true) : l ≠ [] := by
  intro hl; subst hl; simp at h

mutual
theorem wfB_sound (sc : Scope) : ∀ s, wfB sc.slots sc.arrs s = true → Wf sc s
  | .skip, _ => trivial
  | .comment, _ => trivial
  | .seq a b, h => by
    simp only [wfB, Bool.and_eq_true] at h
    exact ⟨wfB_sound sc a h.1, wfB_sound sc b h.2⟩
  | .dim x t _, h => by simpa [wfB, Wf] using h
  | .dimArr a t dims _, h => by
    simp only [wfB, Bool.and_eq_true, decide_eq_true_eq] at h
    exact ⟨h.1, dimsWfB_sound sc dims h.2⟩
  | .assign x t e _, h => by
    simp only [wfB, Bool.and_eq_true, decide_eq_true_eq] at h
    exact ⟨h.1, eWfB_sound sc e h.2⟩
  | .assignElem a t idx e _, h => by
    simp only [wfB, Bool.and_eq_true, decide_eq_true_eq] at h
    exact ⟨h.1.1.1, ne_nil_of_not_isNil h.1.1.2, idxWfB_sound sc idx h.1.2, eWfB_sound sc e h.2⟩
  | .print items _, h => by
    simp only [wfB] at h
    exact itemsWfB_sound sc items h
  | .ifBlock c thn elifs hasElse els _, h => by
    simp only [wfB, Bool.and_eq_true, decide_eq_true_eq] at h
    obtain ⟨⟨⟨⟨⟨h1, h2⟩, h3⟩, h4⟩, h5⟩, h6⟩ := h
    exact ⟨eWfB_sound sc c h1, h2, wfB_sound sc thn h3, wfElifsB_sound sc elifs h4,
      wfB_sound sc els h5, elseB_sound h6⟩
  | .while c body _, h => by
    simp only [wfB, Bool.and_eq_true, decide_eq_true_eq] at h
    exact ⟨eWfB_sound sc c h.1.1, h.1.2, wfB_sound sc body h.2⟩
  | .doLoop c _ _ body _, h => by
    simp only [wfB, Bool.and_eq_true, decide_eq_true_eq] at h
    exact ⟨eWfB_sound sc c h.1.1, h.1.2, wfB_sound sc body h.2⟩
  | .end_ _, _ => trivial
  | .data _ _, h => by simp [wfB] at h
  | .read tgs _, h => by
    simp only [wfB, List.all_eq_true] at h
    intro tg htg
    exact targetWfB_sound sc tg (h tg htg)
  | .select e cases hasElse els _, h => by
    simp only [wfB, Bool.and_eq_true] at h
    obtain ⟨⟨⟨h1, h2⟩, h3⟩, h4⟩ := h
    exact ⟨eWfB_sound sc e h1, wfCasesB_sound sc cases h2, wfB_sound sc els h3, elseB_sound h4⟩
  | .forLoop x t lo hi step body _, h => by
    simp only [wfB, Bool.and_eq_true, decide_eq_true_eq] at h
    obtain ⟨⟨⟨⟨h1, h2⟩, h3⟩, h4⟩, h5⟩ := h
    refine ⟨h1, eWfB_sound sc lo h2, eWfB_sound sc hi h3, ?_, wfB_sound sc body h5⟩
    intro se hse
    subst hse
    exact eWfB_sound sc se h4
theorem wfElifsB_sound (sc : Scope) : ∀ e, wfElifsB sc.slots sc.arrs e = true → WfElifs sc e
  | .nil, _ => trivial
  | .cons c body rest, h => by
    simp only [wfElifsB, Bool.and_eq_true, decide_eq_true_eq] at h
    exact ⟨eWfB_sound sc c h.1.1.1, h.1.1.2, wfB_sound sc body h.1.2, wfElifsB_sound sc rest h.2⟩
theorem wfCasesB_sound (sc : Scope) : ∀ cs, wfCasesB sc.slots sc.arrs cs = true → WfCases sc cs
  | .nil, _ => trivial
  | .cons conds body rest, h => by
    simp only [wfCasesB, Bool.and_eq_true] at h
    exact ⟨ne_nil_of_not_isEmpty h.1.1.1, condsWfB_sound sc conds h.1.1.2, wfB_sound sc body h.1.2,
      wfCasesB_sound sc rest h.2⟩
end

theorem wfTopB_sound (sc : Scope) : ∀ body, wfTopB sc.slots sc.arrs body = true → WfTop sc body := by
  refine top_induction ?_ ?_
  · intro a b iha ihb h
    simp only [wfTopB, Bool.and_eq_true] at h
    exact ⟨iha h.1, ihb h.2⟩
  · intro st hns h
    cases st with
    | seq a b => exact absurd rfl (hns a b)
    | data items p => trivial
    | _ =>
      simp only [wfTopB] at h
      simp only [WfTop]
      exact wfB_sound sc _ h

/-- the executable premise implies the premise of the theorem -/
theorem progWfB_sound (prog : SProgram) (h : progWfB prog = true) : ProgWf prog :=
  wfTopB_sound (progScope prog) prog.body h

end RbThm.ArrLSim
