import Thm.ProcArrSimBase
/-!
Procedures layer, simulation part — the loops with a condition: `WHILE c … WEND` and the four forms of DO
(`DO WHILE c … LOOP`, `DO UNTIL c … LOOP`, `DO … LOOP WHILE c`, `DO … LOOP UNTIL c`).

Port of `C01SimBase.case_while` and `C01SimDo.case_do`.  All five loops are assembled from the same moves (a label, a jump,
`<cond>; JumpIfFalse`, the body, going round the loop), so the moves are stated once as lemmas about `SimDo.Reach`: "the run
from `σ` gets to address `pc` in a state that represents `s`, stacks untouched".
-/
namespace RbThm.ProcArrSim
set_option linter.unusedVariables false
set_option linter.unusedSimpArgs false
open RbModel RbModel.Num RbModel.ProcArr RbModel.ProcArr.Compile RbModel.ProcArr.Vm
open RbModel.Ast (Pos)
open RbThm.ProcArrLen

namespace SimDo

/-- a fragment followed by one more instruction -/
theorem codeAt_snoc {code : Code} {off : Nat} {frag : Code} {x : CInstr × Pos}
    (h1 : CodeAt code off frag) (h2 : code[off + frag.length]? = some x) : CodeAt code off (frag ++ [x]) := by
  intro i hi
  simp only [List.length_append, List.length_singleton] at hi
  by_cases h3 : i < frag.length
  · rw [List.getElem?_append_left h3]; exact h1 i h3
  · have hi' : i = frag.length := by omega
    subst hi'
    rw [List.getElem?_append_right (Nat.le_refl _), h2]
    simp

/-- the run from `σ` reaches address `pc` in a state that represents `s`, with the stacks as they were -/
def Reach (W : World) (sc : Scope) (below : List CtxState) (σ : Vm) (s : St) (pc : Nat) : Prop :=
  ∃ τ, Steps W.code σ τ ∧ τ.pc = pc ∧ Rel W sc [] below s τ ∧ SameStacks σ τ

theorem Reach.start {W : World} {sc : Scope} {below : List CtxState} {σ : Vm} {s : St} (hr : Rel W sc [] below s σ) :
    Reach W sc below σ s σ.pc :=
  ⟨σ, Steps.refl σ, rfl, hr, SameStacks.refl σ⟩

theorem Reach.label {W : World} {sc : Scope} {below : List CtxState} {σ : Vm} {s : St} {a : Nat} {l : String} {p : Pos}
    (h : Reach W sc below σ s a) (hl : W.code[a]? = some (CInstr.label l, p)) : Reach W sc below σ s (a + 1) := by
  obtain ⟨τ, st, hp, hr, hss⟩ := h
  subst hp
  have s1 : Vm.step W.code τ = .next (Vm.advance τ) := by simp only [Vm.step, hl]
  exact ⟨Vm.advance τ, st.trans (Steps.one s1), rfl, hr.advance, hss.trans ⟨rfl, rfl, rfl, rfl, rfl, rfl, id⟩⟩

theorem Reach.jump {W : World} {sc : Scope} {below : List CtxState} {σ : Vm} {s : St} {a t : Nat} {p : Pos}
    (h : Reach W sc below σ s a) (hl : W.code[a]? = some (CInstr.jump t, p)) : Reach W sc below σ s t := by
  obtain ⟨τ, st, hp, hr, hss⟩ := h
  subst hp
  have s1 : Vm.step W.code τ = .next { τ with pc := t } := by simp only [Vm.step, hl]
  exact ⟨{ τ with pc := t }, st.trans (Steps.one s1), rfl, hr.setPc t, hss.trans ⟨rfl, rfl, rfl, rfl, rfl, rfl, id⟩⟩

/-- an outcome other than `normal` does not mention the statement's end address -/
theorem StmtPost.abnormal {W : World} {sc : Scope} {below : List CtxState} {fd sd n off n' off' : Nat} {σ : Vm}
    {s' : St} {o : Outcome} (ho : o ≠ .normal) (h : StmtPost W sc below fd sd n off σ (s', o)) :
    StmtPost W sc below fd sd n' off' σ (s', o) := by
  cases o with
  | normal => exact absurd rfl ho
  | exited => exact h
  | halted => exact h
  | error c p => exact h
  | inexact => trivial
  | outOfFuel => trivial
  | tooBig => trivial
  | illFormed => exact h

/-- `<cond>; JumpIfFalse t` from a reached address: an evaluation that ends the run ends the statement (whatever the
statement), truth falls through, falsity lands on `t` -/
theorem Reach.cond {W : World} {sc : Scope} {below : List CtxState} {σ : Vm} {s : St} {a f : Nat}
    (h : Reach W sc below σ s a) (ih : IHle W f) (c : ProcArr.Expr) (t : Nat) (p : Pos)
    (hc : CodeAt W.code a (compileExpr W.lay a c ++ [(CInstr.jumpIfFalse t, p)]))
    (hw : EWf W.sg sc.slots c) (hn : c.ty ≠ .str) (s1 : St) (rv : Except Outcome Bool)
    (he : ProcArr.Ref.evalCond W.P f c s = (s1, rv)) :
    (∀ o, rv = .error o → ∀ (fd sd n off : Nat), StmtPost W sc below fd sd n off σ (s1, o)) ∧
    (rv = .ok true → Reach W sc below σ s1 (a + sizeExpr c + 1)) ∧
    (rv = .ok false → Reach W sc below σ s1 t) := by
  obtain ⟨τ, st, hp, hr, hss⟩ := h
  have hcond := cond_correct' W f ih sc c t p a [] below s τ hc hp hr hw hn
  rw [he] at hcond
  refine ⟨?_, ?_, ?_⟩
  · intro o ho fd sd n off
    subst ho
    exact StmtPost.of_err (ErrPost.of_steps st hcond)
  · intro ho
    subst ho
    obtain ⟨υ, st2, hp2, hrel2, hss2⟩ := hcond
    exact ⟨υ, st.trans st2, hp2, hrel2, hss.trans hss2⟩
  · intro ho
    subst ho
    obtain ⟨υ, st2, hp2, hrel2, hss2⟩ := hcond
    exact ⟨υ, st.trans st2, hp2, hrel2, hss.trans hss2⟩

/-- a sub-statement from a reached address: ending normally it reaches the address after it; any other outcome is the
outcome of the whole statement -/
theorem Reach.stmt {W : World} {sc : Scope} {below : List CtxState} {σ : Vm} {s : St} {a f fd sd : Nat}
    (h : Reach W sc below σ s a) (ih : StmtIH W f) (body : SStmt) (sfx : String)
    (hc : CodeAt W.code a (compileStmt W.lay sfx fd sd a body)) (hw : Wf W.sg sc body) (ha : ActInv sc fd sd σ)
    (s' : St) (o : Outcome) (he : ProcArr.Ref.exec W.P f (desugar body) s = (s', o)) :
    (o = .normal → Reach W sc below σ s' (a + sizeStmt fd sd body)) ∧
    (o ≠ .normal → ∀ (n off : Nat), StmtPost W sc below fd sd n off σ (s', o)) := by
  obtain ⟨τ, st, hp, hr, hss⟩ := h
  have hb := ih sc body sfx fd sd a below s τ hc hp hr hw (ha.of_same hss)
  rw [he] at hb
  constructor
  · intro ho
    subst ho
    obtain ⟨υ, st2, hp2, hrel2, hss2⟩ := hb
    exact ⟨υ, st.trans st2, hp2, hrel2, hss.trans hss2⟩
  · intro ho n off
    exact StmtPost.abnormal ho (StmtPost.of_steps st hss hb)

/-- reaching the end address is ending normally -/
theorem Reach.finish {W : World} {sc : Scope} {below : List CtxState} {σ : Vm} {s' : St} {fd sd n off : Nat}
    (h : Reach W sc below σ s' (off + n)) : StmtPost W sc below fd sd n off σ (s', .normal) := h

/-- reaching the start address again: what the statement does from there is what it does from here -/
theorem Reach.again {W : World} {sc : Scope} {below : List CtxState} {σ : Vm} {s' : St} {fd sd n off : Nat}
    {r : St × Outcome} (h : Reach W sc below σ s' off)
    (hl : ∀ τ : Vm, τ.pc = off → Rel W sc [] below s' τ → SameStacks σ τ → StmtPost W sc below fd sd n off τ r) :
    StmtPost W sc below fd sd n off σ r := by
  obtain ⟨τ, st, hp, hr, hss⟩ := h
  exact StmtPost.of_steps st hss (hl τ hp hr hss)

end SimDo

open SimDo

/-- `WHILE c … WEND` -/
theorem case_while (W : World) (fuel : Nat) (ih : IHle W fuel) (c : ProcArr.Expr) (body : SStmt) (p : Pos)
    (sc : Scope) (sfx : String) (fd sd off : Nat) (below : List CtxState) (s : St) (σ : Vm)
    (hc : CodeAt W.code off (compileStmt W.lay sfx fd sd off (.while c body p))) (hpc : σ.pc = off)
    (hr : Rel W sc [] below s σ) (hw : Wf W.sg sc (.while c body p)) (ha : ActInv sc fd sd σ) :
    StmtPost W sc below fd sd (sizeStmt fd sd (.while c body p)) off σ
      (ProcArr.Ref.exec W.P (fuel + 1) (desugar (.while c body p)) s) := by
  have hw0 := hw
  simp only [Wf] at hw
  obtain ⟨hwc, hnc, hwb⟩ := hw
  -- going round the loop again
  have hloop : ∀ (s' : St) (τ : Vm), τ.pc = off → Rel W sc [] below s' τ → SameStacks σ τ →
      StmtPost W sc below fd sd (sizeStmt fd sd (.while c body p)) off τ
        (ProcArr.Ref.exec W.P fuel (ProcArr.Stmt.while c (desugar body) p) s') := by
    intro s' τ hp hr' hss
    have := ih.self.stmt sc (.while c body p) sfx fd sd off below s' τ hc hp hr' hw0 (ha.of_same hss)
    simpa only [desugar] using this
  have h0 : Reach W sc below σ s off := by rw [← hpc]; exact Reach.start hr
  simp only [compileStmt] at hc
  have hlab : W.code[off]? = some (CInstr.label (labelName "while" p sfx), p) :=
    hc.append_left.append_left.append_left.append_left.head
  have hcc : CodeAt W.code (off + 1) (compileExpr W.lay (off + 1) c ++
      [(CInstr.jumpIfFalse (off + 1 + sizeExpr c + 1 + sizeStmt fd sd body + 1), p)]) := by
    have := hc.append_left.append_left
    rw [List.append_assoc] at this
    exact this.append_right
  have hcb : CodeAt W.code (off + 1 + sizeExpr c + 1) (compileStmt W.lay sfx fd sd (off + 1 + sizeExpr c + 1) body) := by
    have := hc.append_left.append_right
    simp only [List.length_append, List.length_singleton, len_expr] at this
    exact this.at (by omega)
  have hjmp : W.code[off + 1 + sizeExpr c + 1 + sizeStmt fd sd body]? = some (CInstr.jump off, p) := by
    have := hc.append_right.head
    simp only [List.length_append, List.length_singleton, len_expr, len_stmt] at this
    rw [← this]; congr 1; omega
  have hend : W.code[off + 1 + sizeExpr c + 1 + sizeStmt fd sd body + 1]? =
      some (CInstr.label (labelName "wend" p sfx), p) := by
    have := hc.append_right.tail.head
    simp only [List.length_append, List.length_singleton, len_expr, len_stmt] at this
    rw [← this]; congr 1; omega
  simp only [desugar, ProcArr.Ref.exec]
  generalize hec : ProcArr.Ref.evalCond W.P fuel c s = rc
  obtain ⟨s1, rv⟩ := rc
  obtain ⟨cerr, ctrue, cfalse⟩ := (h0.label hlab).cond ih c _ p hcc hwc hnc s1 rv hec
  cases rv with
  | error o => exact cerr o rfl _ _ _ _
  | ok bv =>
    cases bv with
    | false =>
      have := (cfalse rfl).label hend
      refine Reach.finish ?_
      have e : off + sizeStmt fd sd (.while c body p) = off + 1 + sizeExpr c + 1 + sizeStmt fd sd body + 1 + 1 := by
        simp only [sizeStmt]; omega
      rw [e]; exact this
    | true =>
      simp only
      generalize hrb : ProcArr.Ref.exec W.P fuel (desugar body) s1 = rb
      obtain ⟨s2, o1⟩ := rb
      obtain ⟨hn, hab⟩ := (ctrue rfl).stmt ih.self.stmt body sfx hcb hwb ha s2 o1 hrb
      cases o1 with
      | normal => exact ((hn rfl).jump hjmp).again (fun τ hp hr' hss => hloop s2 τ hp hr' hss)
      | exited => exact hab (by simp) _ _
      | halted => exact hab (by simp) _ _
      | error cd q => exact hab (by simp) _ _
      | inexact => exact hab (by simp) _ _
      | outOfFuel => exact hab (by simp) _ _
      | tooBig => exact hab (by simp) _ _
      | illFormed => exact hab (by simp) _ _

/-- DO loops, all four forms -/
theorem case_do (W : World) (fuel : Nat) (ih : IHle W fuel) (c : ProcArr.Expr) (top until_ : Bool) (body : SStmt) (p : Pos)
    (sc : Scope) (sfx : String) (fd sd off : Nat) (below : List CtxState) (s : St) (σ : Vm)
    (hc : CodeAt W.code off (compileStmt W.lay sfx fd sd off (.doLoop c top until_ body p))) (hpc : σ.pc = off)
    (hr : Rel W sc [] below s σ) (hw : Wf W.sg sc (.doLoop c top until_ body p)) (ha : ActInv sc fd sd σ) :
    StmtPost W sc below fd sd (sizeStmt fd sd (.doLoop c top until_ body p)) off σ
      (ProcArr.Ref.exec W.P (fuel + 1) (desugar (.doLoop c top until_ body p)) s) := by
  have hw0 := hw
  simp only [Wf] at hw
  obtain ⟨hwc, hnc, hwb⟩ := hw
  -- going round the loop again
  have hloop : ∀ (s' : St) (τ : Vm), τ.pc = off → Rel W sc [] below s' τ → SameStacks σ τ →
      StmtPost W sc below fd sd (sizeStmt fd sd (.doLoop c top until_ body p)) off τ
        (ProcArr.Ref.exec W.P fuel (ProcArr.Stmt.doLoop c top until_ (desugar body) p) s') := by
    intro s' τ hp hr' hss
    have := ih.self.stmt sc (.doLoop c top until_ body p) sfx fd sd off below s' τ hc hp hr' hw0 (ha.of_same hss)
    simpa only [desugar] using this
  have h0 : Reach W sc below σ s off := by rw [← hpc]; exact Reach.start hr
  cases top with
  | true =>
    cases until_ with
    | false =>
      -- DO WHILE c: label; cond; jif loop; body; jump off; label loop
      simp only [compileStmt, ↓reduceIte, Bool.false_eq_true] at hc
      have hlab : W.code[off]? = some (CInstr.label (labelName "do" p sfx), p) :=
        hc.append_left.append_left.append_left.append_left.head
      have hcc : CodeAt W.code (off + 1) (compileExpr W.lay (off + 1) c ++
          [(CInstr.jumpIfFalse (off + 1 + sizeExpr c + 1 + sizeStmt fd sd body + 1), p)]) := by
        have := hc.append_left.append_left
        rw [List.append_assoc] at this
        exact this.append_right
      have hcb : CodeAt W.code (off + 1 + sizeExpr c + 1)
          (compileStmt W.lay sfx fd sd (off + 1 + sizeExpr c + 1) body) := by
        have := hc.append_left.append_right
        simp only [List.length_append, List.length_singleton, len_expr] at this
        exact this.at (by omega)
      have hjmp : W.code[off + 1 + sizeExpr c + 1 + sizeStmt fd sd body]? = some (CInstr.jump off, p) := by
        have := hc.append_right.head
        simp only [List.length_append, List.length_singleton, len_expr, len_stmt] at this
        rw [← this]; congr 1; omega
      have hend : W.code[off + 1 + sizeExpr c + 1 + sizeStmt fd sd body + 1]? =
          some (CInstr.label (labelName "loop" p sfx), p) := by
        have := hc.append_right.tail.head
        simp only [List.length_append, List.length_singleton, len_expr, len_stmt] at this
        rw [← this]; congr 1; omega
      simp only [desugar, ProcArr.Ref.exec, ↓reduceIte]
      generalize hec : ProcArr.Ref.evalCond W.P fuel c s = rc
      obtain ⟨s1, rv⟩ := rc
      obtain ⟨cerr, ctrue, cfalse⟩ := (h0.label hlab).cond ih c _ p hcc hwc hnc s1 rv hec
      cases rv with
      | error o => exact cerr o rfl _ _ _ _
      | ok bv =>
        cases bv with
        | false =>
          simp only [Bool.bne_false, Bool.false_eq_true, ↓reduceIte]
          have := (cfalse rfl).label hend
          refine Reach.finish ?_
          have e : off + sizeStmt fd sd (.doLoop c true false body p) =
              off + 1 + sizeExpr c + 1 + sizeStmt fd sd body + 1 + 1 := by
            simp only [sizeStmt, ↓reduceIte, Bool.false_eq_true]; omega
          rw [e]; exact this
        | true =>
          simp only [Bool.bne_false, ↓reduceIte]
          generalize hrb : ProcArr.Ref.exec W.P fuel (desugar body) s1 = rb
          obtain ⟨s2, o1⟩ := rb
          obtain ⟨hn, hab⟩ := (ctrue rfl).stmt ih.self.stmt body sfx hcb hwb ha s2 o1 hrb
          cases o1 with
          | normal => exact ((hn rfl).jump hjmp).again (fun τ hp hr' hss => hloop s2 τ hp hr' hss)
          | exited => exact hab (by simp) _ _
          | halted => exact hab (by simp) _ _
          | error cd q => exact hab (by simp) _ _
          | inexact => exact hab (by simp) _ _
          | outOfFuel => exact hab (by simp) _ _
          | tooBig => exact hab (by simp) _ _
          | illFormed => exact hab (by simp) _ _
    | true =>
      -- DO UNTIL c: label; cond; jif do-body; jump loop; label do-body; body; jump off; label loop
      simp only [compileStmt, ↓reduceIte] at hc
      have hlab : W.code[off]? = some (CInstr.label (labelName "do" p sfx), p) :=
        hc.append_left.append_left.append_left.append_left.head
      have hj0 : W.code[off + 1 + sizeExpr c]? = some (CInstr.jumpIfFalse (off + 1 + sizeExpr c + 3 - 1), p) := by
        have := hc.append_left.append_left.append_right.head
        simp only [List.length_append, List.length_singleton, len_expr] at this
        rw [← this]; congr 1; omega
      have hcc : CodeAt W.code (off + 1) (compileExpr W.lay (off + 1) c ++
          [(CInstr.jumpIfFalse (off + 1 + sizeExpr c + 3 - 1), p)]) := by
        have := hc.append_left.append_left.append_left.append_right
        simp only [List.length_singleton] at this
        exact codeAt_snoc this (by rw [len_expr]; exact hj0)
      have hj1 : W.code[off + 1 + sizeExpr c + 1]? =
          some (CInstr.jump (off + 1 + sizeExpr c + 3 + sizeStmt fd sd body + 1), p) := by
        have := hc.append_left.append_left.append_right.tail.head
        simp only [List.length_append, List.length_singleton, len_expr] at this
        rw [← this]; congr 1; omega
      have hl2 : W.code[off + 1 + sizeExpr c + 3 - 1]? = some (CInstr.label (labelName "do-body" p sfx), p) := by
        have := hc.append_left.append_left.append_right.tail.tail.head
        simp only [List.length_append, List.length_singleton, len_expr] at this
        rw [← this]; congr 1; omega
      have hcb : CodeAt W.code (off + 1 + sizeExpr c + 3)
          (compileStmt W.lay sfx fd sd (off + 1 + sizeExpr c + 3) body) := by
        have := hc.append_left.append_right
        simp only [List.length_append, List.length_singleton, List.length_cons, List.length_nil, len_expr] at this
        exact this.at (by omega)
      have hjmp : W.code[off + 1 + sizeExpr c + 3 + sizeStmt fd sd body]? = some (CInstr.jump off, p) := by
        have := hc.append_right.head
        simp only [List.length_append, List.length_singleton, List.length_cons, List.length_nil, len_expr,
          len_stmt] at this
        rw [← this]; congr 1; omega
      have hend : W.code[off + 1 + sizeExpr c + 3 + sizeStmt fd sd body + 1]? =
          some (CInstr.label (labelName "loop" p sfx), p) := by
        have := hc.append_right.tail.head
        simp only [List.length_append, List.length_singleton, List.length_cons, List.length_nil, len_expr,
          len_stmt] at this
        rw [← this]; congr 1; omega
      simp only [desugar, ProcArr.Ref.exec, ↓reduceIte]
      generalize hec : ProcArr.Ref.evalCond W.P fuel c s = rc
      obtain ⟨s1, rv⟩ := rc
      obtain ⟨cerr, ctrue, cfalse⟩ := (h0.label hlab).cond ih c _ p hcc hwc hnc s1 rv hec
      cases rv with
      | error o => exact cerr o rfl _ _ _ _
      | ok bv =>
        cases bv with
        | true =>
          simp only [bne_self_eq_false, Bool.false_eq_true, ↓reduceIte]
          have := ((ctrue rfl).jump hj1).label hend
          refine Reach.finish ?_
          have e : off + sizeStmt fd sd (.doLoop c true true body p) =
              off + 1 + sizeExpr c + 3 + sizeStmt fd sd body + 1 + 1 := by
            simp only [sizeStmt, ↓reduceIte]; omega
          rw [e]; exact this
        | false =>
          simp only [Bool.bne_true, Bool.not_false, ↓reduceIte]
          have hre0 := (cfalse rfl).label hl2
          have e0 : off + 1 + sizeExpr c + 3 - 1 + 1 = off + 1 + sizeExpr c + 3 := by omega
          rw [e0] at hre0
          generalize hrb : ProcArr.Ref.exec W.P fuel (desugar body) s1 = rb
          obtain ⟨s2, o1⟩ := rb
          obtain ⟨hn, hab⟩ := hre0.stmt ih.self.stmt body sfx hcb hwb ha s2 o1 hrb
          cases o1 with
          | normal => exact ((hn rfl).jump hjmp).again (fun τ hp hr' hss => hloop s2 τ hp hr' hss)
          | exited => exact hab (by simp) _ _
          | halted => exact hab (by simp) _ _
          | error cd q => exact hab (by simp) _ _
          | inexact => exact hab (by simp) _ _
          | outOfFuel => exact hab (by simp) _ _
          | tooBig => exact hab (by simp) _ _
          | illFormed => exact hab (by simp) _ _
  | false =>
    -- test at the bottom: label; body; cond; …
    have hcb : CodeAt W.code (off + 1) (compileStmt W.lay sfx fd sd (off + 1) body) := by
      cases until_ <;> simp only [compileStmt, ↓reduceIte, Bool.false_eq_true] at hc
      · exact hc.append_left.append_left.append_left.append_right
      · exact hc.append_left.append_left.append_left.append_right
    have hlab : W.code[off]? = some (CInstr.label (labelName "do" p sfx), p) := by
      cases until_ <;> simp only [compileStmt, ↓reduceIte, Bool.false_eq_true] at hc
      · exact hc.append_left.append_left.append_left.append_left.head
      · exact hc.append_left.append_left.append_left.append_left.head
    have hce : CodeAt W.code (off + 1 + sizeStmt fd sd body) (compileExpr W.lay (off + 1 + sizeStmt fd sd body) c) := by
      cases until_ <;> simp only [compileStmt, ↓reduceIte, Bool.false_eq_true] at hc
      · have := hc.append_left.append_left.append_right
        simp only [List.length_append, List.length_singleton, len_stmt] at this
        exact this.at (by omega)
      · have := hc.append_left.append_left.append_right
        simp only [List.length_append, List.length_singleton, len_stmt] at this
        exact this.at (by omega)
    simp only [desugar, ProcArr.Ref.exec, Bool.false_eq_true, ↓reduceIte]
    generalize hrb : ProcArr.Ref.exec W.P fuel (desugar body) s = rb
    obtain ⟨s1, o1⟩ := rb
    obtain ⟨hn, hab⟩ := (h0.label hlab).stmt ih.self.stmt body sfx hcb hwb ha s1 o1 hrb
    cases o1 with
    | exited => exact hab (by simp) _ _
    | halted => exact hab (by simp) _ _
    | error cd q => exact hab (by simp) _ _
    | inexact => exact hab (by simp) _ _
    | outOfFuel => exact hab (by simp) _ _
    | tooBig => exact hab (by simp) _ _
    | illFormed => exact hab (by simp) _ _
    | normal =>
      have hre := hn rfl
      simp only
      generalize hec : ProcArr.Ref.evalCond W.P fuel c s1 = rc
      obtain ⟨s2, rv⟩ := rc
      cases until_ with
      | false =>
        -- … jif loop; jump off; label loop
        simp only [compileStmt, ↓reduceIte, Bool.false_eq_true] at hc
        have hj0 : W.code[off + 1 + sizeStmt fd sd body + sizeExpr c]? =
            some (CInstr.jumpIfFalse (off + 1 + sizeStmt fd sd body + sizeExpr c + 2), p) := by
          have := hc.append_left.append_right.head
          simp only [List.length_append, List.length_singleton, len_expr, len_stmt] at this
          rw [← this]; congr 1; omega
        have hjmp : W.code[off + 1 + sizeStmt fd sd body + sizeExpr c + 1]? = some (CInstr.jump off, p) := by
          have := hc.append_left.append_right.tail.head
          simp only [List.length_append, List.length_singleton, len_expr, len_stmt] at this
          rw [← this]; congr 1; omega
        have hend : W.code[off + 1 + sizeStmt fd sd body + sizeExpr c + 2]? =
            some (CInstr.label (labelName "loop" p sfx), p) := by
          have := hc.append_right.head
          simp only [List.length_append, List.length_singleton, List.length_cons, List.length_nil, len_expr,
            len_stmt] at this
          rw [← this]; congr 1; omega
        obtain ⟨cerr, ctrue, cfalse⟩ :=
          hre.cond ih c _ p (codeAt_snoc hce (by rw [len_expr]; exact hj0)) hwc hnc s2 rv hec
        cases rv with
        | error o => exact cerr o rfl _ _ _ _
        | ok bv =>
          cases bv with
          | false =>
            simp only [Bool.bne_false, Bool.false_eq_true, ↓reduceIte]
            have := (cfalse rfl).label hend
            refine Reach.finish ?_
            have e : off + sizeStmt fd sd (.doLoop c false false body p) =
                off + 1 + sizeStmt fd sd body + sizeExpr c + 2 + 1 := by
              simp only [sizeStmt, ↓reduceIte, Bool.false_eq_true]; omega
            rw [e]; exact this
          | true =>
            simp only [Bool.bne_false, ↓reduceIte]
            exact ((ctrue rfl).jump hjmp).again (fun τ hp hr' hss => hloop s2 τ hp hr' hss)
      | true =>
        -- … jif off; label loop
        simp only [compileStmt, ↓reduceIte, Bool.false_eq_true] at hc
        have hj0 : W.code[off + 1 + sizeStmt fd sd body + sizeExpr c]? = some (CInstr.jumpIfFalse off, p) := by
          have := hc.append_left.append_right.head
          simp only [List.length_append, List.length_singleton, len_expr, len_stmt] at this
          rw [← this]; congr 1; omega
        have hend : W.code[off + 1 + sizeStmt fd sd body + sizeExpr c + 1]? =
            some (CInstr.label (labelName "loop" p sfx), p) := by
          have := hc.append_right.head
          simp only [List.length_append, List.length_singleton, List.length_cons, List.length_nil, len_expr,
            len_stmt] at this
          rw [← this]; congr 1; omega
        obtain ⟨cerr, ctrue, cfalse⟩ :=
          hre.cond ih c _ p (codeAt_snoc hce (by rw [len_expr]; exact hj0)) hwc hnc s2 rv hec
        cases rv with
        | error o => exact cerr o rfl _ _ _ _
        | ok bv =>
          cases bv with
          | true =>
            simp only [bne_self_eq_false, Bool.false_eq_true, ↓reduceIte]
            have := (ctrue rfl).label hend
            refine Reach.finish ?_
            have e : off + sizeStmt fd sd (.doLoop c false true body p) =
                off + 1 + sizeStmt fd sd body + sizeExpr c + 1 + 1 := by
              simp only [sizeStmt, ↓reduceIte, Bool.false_eq_true]; omega
            rw [e]; exact this
          | false =>
            simp only [Bool.bne_true, Bool.not_false, ↓reduceIte]
            exact (cfalse rfl).again (fun τ hp hr' hss => hloop s2 τ hp hr' hss)

end RbThm.ProcArrSim
