import Thm.AoRSim
/-!
# C08 for the layer AoR (arrays of records / of fixed-length strings) — no internal failure

`Thm/C08Core.lean`, `Thm/C08Layers.lean` and `Thm/C08Layers2.lean` prove C08 ("a program the checker accepts runs to a
BASIC-level outcome, never an internal failure") for the core language and the layers procedures, arrays, records, jumps,
procedures + arrays, each as a corollary of the layer's simulation theorem.  This file does the same for the layer AoR
(`RbThm.AoRSim.compile_correct_checked`: core language + TYPE records with nesting + `STRING * n` + arrays of any declared
element type — built-in, `STRING * n`, record — with `a(i…).f.g` as a value and as an assignment target, LBOUND / UBOUND).

`AoR.Vm` answers `stuck` exactly where the real VM would panic on the layer's instructions (pop from an empty stack, a
variable path that expects an array / a user defined type and finds something else, a missing field, a missing variable /
array, an operand of the wrong kind in an unchecked accessor, no instruction at the pc) — and where the model does not
follow the code (exact arithmetic leaving its domain, an array beyond `sizeLimit`).  `step` is a function, so the run the
simulation theorem exhibits is *the* run.  Hence, for every program passing the layer's boolean premise checker `progWfB`
(evaluated by the driver on the real front end's tree: `aor.wf`) on which the reference run *finishes* — normally, with
END, or with a BASIC error (Subscript out of range of an element read / store / DIM / LBOUND / UBOUND included); not
`inexact`, `outOfFuel`, `illFormed` (a record / `STRING * n` variable or an array used although its DIM did not run) nor
`tooBig` —

* `aor_no_internal_failure`: the bounded VM run never answers `stuck`, whatever the step budget;
* `aor_basic_level_outcome`: with enough budget it has halted, with the reference's output, or stopped with exactly the
  reference's BASIC error (code and position), with the reference's output.
-/

namespace RbThm.C08AoR
set_option linter.unusedVariables false
open RbModel RbModel.Num RbModel.AoR RbModel.AoR.Compile RbModel.AoR.Vm
open RbModel.Ast (Pos)
open RbModel.RecL (ETy FTy FFields)
open RbThm.AoRSim (Steps HaltsWith ErrsWith)

/-- the layer's reference semantics finished: normally, with END, or with a BASIC error -/
def finished : AoR.Ref.Outcome → Bool
  | .normal => true
  | .halted => true
  | .error _ _ => true
  | .inexact => false
  | .outOfFuel => false
  | .illFormed => false
  | .tooBig => false

abbrev Finished (o : AoR.Ref.Outcome) : Prop := finished o = true

/-! `step` is a function, so a run that is known to end cannot get stuck earlier -/

theorem run_of_steps_halt (code : Code) {σ τ υ : Vm} (h : Steps code σ τ) (hh : Vm.step code τ = .halt υ) :
    ∀ m, Vm.run code m σ = .outOfFuel ∨ Vm.run code m σ = .halted υ := by
  induction h with
  | refl σ =>
    intro m
    cases m with
    | zero => exact .inl rfl
    | succ k => exact .inr (by simp [Vm.run, hh])
  | cons hs _ ih =>
    intro m
    cases m with
    | zero => exact .inl rfl
    | succ k =>
      rcases ih hh k with h1 | h1
      · exact .inl (by simp [Vm.run, hs, h1])
      · exact .inr (by simp [Vm.run, hs, h1])

theorem run_of_steps_err (code : Code) {σ τ υ : Vm} {c : Nat} {p : Pos} (h : Steps code σ τ)
    (hh : Vm.step code τ = .error c p υ) :
    ∀ m, Vm.run code m σ = .outOfFuel ∨ Vm.run code m σ = .error c p υ := by
  induction h with
  | refl σ =>
    intro m
    cases m with
    | zero => exact .inl rfl
    | succ k => exact .inr (by simp [Vm.run, hh])
  | cons hs _ ih =>
    intro m
    cases m with
    | zero => exact .inl rfl
    | succ k =>
      rcases ih hh k with h1 | h1
      · exact .inl (by simp [Vm.run, hs, h1])
      · exact .inr (by simp [Vm.run, hs, h1])

/-- the end of the VM run, as the simulation theorem gives it, for a finished reference run -/
theorem ends (prog : SProgram) (fuel : Nat) (hw : progWfB prog = true)
    (hfin : Finished (AoR.Ref.run fuel prog.toAst).2) :
    (∃ τ υ, Steps (compile prog) (Vm.init prog.types prog.slots prog.arrs) τ ∧ Vm.step (compile prog) τ = .halt υ ∧
        υ.out = (AoR.Ref.run fuel prog.toAst).1.out ∧
        ((AoR.Ref.run fuel prog.toAst).2 = .normal ∨ (AoR.Ref.run fuel prog.toAst).2 = .halted)) ∨
    (∃ τ υ c p, Steps (compile prog) (Vm.init prog.types prog.slots prog.arrs) τ ∧
        Vm.step (compile prog) τ = .error c p υ ∧
        υ.out = (AoR.Ref.run fuel prog.toAst).1.out ∧ (AoR.Ref.run fuel prog.toAst).2 = .error c p) := by
  have h := RbThm.AoRSim.compile_correct_checked prog fuel hw
  rcases hr : AoR.Ref.run fuel prog.toAst with ⟨s', o⟩
  rw [hr] at h hfin
  cases o with
  | normal => obtain ⟨τ, υ, hs, hh, ho⟩ := h; exact .inl ⟨τ, υ, hs, hh, ho, .inl rfl⟩
  | halted => obtain ⟨τ, υ, hs, hh, ho⟩ := h; exact .inl ⟨τ, υ, hs, hh, ho, .inr rfl⟩
  | error c p => obtain ⟨τ, υ, hs, hh, ho⟩ := h; exact .inr ⟨τ, υ, c, p, hs, hh, ho, rfl⟩
  | inexact => simp [Finished, finished] at hfin
  | outOfFuel => simp [Finished, finished] at hfin
  | illFormed => simp [Finished, finished] at hfin
  | tooBig => simp [Finished, finished] at hfin

/-- **`aor_no_internal_failure`** (layer AoR: records, fixed-length strings, arrays of any declared element type) — for
every program the layer's premise checker accepts on which the layer's reference semantics finishes (normally, with END,
with a BASIC error — Subscript out of range (9) of an element read, an element store, a DIM, LBOUND / UBOUND included), the
VM model running the generated code never answers `stuck` (the model's rendering of a Rust panic: among others a variable
path that expects an array or a record and finds something else, a field that is not there, an array that was never
allocated): whatever the step budget `m`, the run is still going, or has halted, or has stopped with a BASIC error. -/
theorem aor_no_internal_failure (prog : SProgram) (fuel : Nat) (hw : progWfB prog = true)
    (hfin : Finished (AoR.Ref.run fuel prog.toAst).2) :
    ∀ m, Vm.run (compile prog) m (Vm.init prog.types prog.slots prog.arrs) ≠ .stuck := by
  intro m
  rcases ends prog fuel hw hfin with ⟨τ, υ, hs, hh, _⟩ | ⟨τ, υ, c, p, hs, hh, _⟩
  · rcases run_of_steps_halt _ hs hh m with h1 | h1 <;> simp [h1]
  · rcases run_of_steps_err _ hs hh m with h1 | h1 <;> simp [h1]

/-- **`aor_basic_level_outcome`** (layer AoR) — … and with a large enough budget the run ends at BASIC level: halted (the
reference ended normally or with END) or in exactly the BASIC error, code and position, the reference ends in; in both
cases with the reference's output. -/
theorem aor_basic_level_outcome (prog : SProgram) (fuel : Nat) (hw : progWfB prog = true)
    (hfin : Finished (AoR.Ref.run fuel prog.toAst).2) :
    ∃ n, ∀ m, n ≤ m →
      (∃ ω, Vm.run (compile prog) m (Vm.init prog.types prog.slots prog.arrs) = .halted ω ∧
        ω.out = (AoR.Ref.run fuel prog.toAst).1.out ∧
        ((AoR.Ref.run fuel prog.toAst).2 = .normal ∨ (AoR.Ref.run fuel prog.toAst).2 = .halted)) ∨
      (∃ c p ω, Vm.run (compile prog) m (Vm.init prog.types prog.slots prog.arrs) = .error c p ω ∧
        ω.out = (AoR.Ref.run fuel prog.toAst).1.out ∧
        (AoR.Ref.run fuel prog.toAst).2 = .error c p) := by
  rcases ends prog fuel hw hfin with ⟨τ, υ, hs, hh, ho, hr⟩ | ⟨τ, υ, c, p, hs, hh, ho, hr⟩
  · obtain ⟨n, hn⟩ := RbThm.AoRSim.run_of_steps _ hs hh
    exact ⟨n, fun m hm => .inl ⟨υ, hn m hm, ho, hr⟩⟩
  · obtain ⟨n, hn⟩ := RbThm.AoRSim.run_of_steps_error _ hs hh
    exact ⟨n, fun m hm => .inr ⟨c, p, υ, hn m hm, ho, hr⟩⟩

/-- the bounded run is a function of the budget: once it has ended it stays ended — so the outcome of
`aor_basic_level_outcome` is the only outcome other than "still running" that any budget can show -/
theorem aor_only_outcome (prog : SProgram) (fuel : Nat) (hw : progWfB prog = true)
    (hfin : Finished (AoR.Ref.run fuel prog.toAst).2) (m : Nat) :
    Vm.run (compile prog) m (Vm.init prog.types prog.slots prog.arrs) = .outOfFuel ∨
    (∃ ω, Vm.run (compile prog) m (Vm.init prog.types prog.slots prog.arrs) = .halted ω ∧
      ω.out = (AoR.Ref.run fuel prog.toAst).1.out) ∨
    (∃ c p ω, Vm.run (compile prog) m (Vm.init prog.types prog.slots prog.arrs) = .error c p ω ∧
      ω.out = (AoR.Ref.run fuel prog.toAst).1.out ∧ (AoR.Ref.run fuel prog.toAst).2 = .error c p) := by
  rcases ends prog fuel hw hfin with ⟨τ, υ, hs, hh, ho, _⟩ | ⟨τ, υ, c, p, hs, hh, ho, hr⟩
  · rcases run_of_steps_halt _ hs hh m with h1 | h1
    · exact .inl h1
    · exact .inr (.inl ⟨υ, h1, ho⟩)
  · rcases run_of_steps_err _ hs hh m with h1 | h1
    · exact .inl h1
    · exact .inr (.inr ⟨c, p, υ, h1, ho, hr⟩)

/-! non-vacuity: an accepted program with an array of records whose element type has a `STRING * 3` field and a nested
record, stores into fields of elements in a FOR loop and prints them, on which the reference finishes normally; the same
ending in Subscript out of range at an element-field store (statement position) and at an element-field read (expression
position); in Overflow at the conversion of a stored value -/

def demoTypes : List FFields :=
  [.cons "X" (.sc .int) (.cons "Y" (.sc .long) .nil),
   .cons "N" (.sc .int) (.cons "S" (.fix 3) (.cons "P" (.udt 0 (.cons "X" (.sc .int) (.cons "Y" (.sc .long) .nil))) .nil))]

/-- ```
TYPE P : X AS INTEGER : Y AS LONG : END TYPE
TYPE T : N AS INTEGER : S AS STRING * 3 : P AS P : END TYPE
DIM A(1 TO 3) AS T
FOR I% = 1 TO k
  A(I%).P.X = I% * j
  A(I%).S = "abcdef"
NEXT
PRINT A(2).S; A(r).P.X; UBOUND(A)
``` (slot 0 = I%) -/
def demo (k j r : Int) : SProgram :=
  { types := demoTypes, slots := [.sc .int], arrs := [.udt 1],
    body :=
      .seq (.dimArr 0 (.udt 1) (.cons (some (.lit (.int 1) ⟨3, 7⟩)) (.lit (.int 3) ⟨3, 12⟩) .nil) ⟨3, 5⟩)
      (.seq (.forLoop 0 .int (.lit (.int 1) ⟨4, 10⟩) (.lit (.int k) ⟨4, 15⟩) none
              (.seq (.assignElem 0 (.cons (.var 0 [] (.sc .int) ⟨5, 5⟩) .nil) ["P", "X"] (.sc .int)
                      (.bin .multiply (.var 0 [] (.sc .int) ⟨5, 15⟩) (.lit (.int j) ⟨5, 20⟩) .int ⟨5, 18⟩) ⟨5, 3⟩)
              (.seq (.assignElem 0 (.cons (.var 0 [] (.sc .int) ⟨6, 5⟩) .nil) ["S"] (.fix 3)
                      (.lit (.str ['a', 'b', 'c', 'd', 'e', 'f']) ⟨6, 13⟩) ⟨6, 3⟩) .skip)) ⟨4, 1⟩)
      (.seq (.print [.expr (.elem 0 (.cons (.lit (.int 2) ⟨8, 9⟩) .nil) ["S"] (.fix 3) ⟨8, 7⟩), .semicolon,
                     .expr (.elem 0 (.cons (.lit (.int r) ⟨8, 17⟩) .nil) ["P", "X"] (.sc .int) ⟨8, 15⟩), .semicolon,
                     .expr (.bound true 0 ⟨8, 32⟩ ⟨8, 25⟩)] ⟨8, 1⟩) .skip)) }

example : progWfB (demo 3 2 2) = true ∧
    (match (AoR.Ref.run 100 (demo 3 2 2).toAst).2 with | .normal => true | _ => false) = true := by decide +kernel

/-- `k = 4`: Subscript out of range (9) at the element-field STORE `A(4).P.X = …`, at the statement's position -/
example : progWfB (demo 4 2 2) = true ∧
    (match (AoR.Ref.run 100 (demo 4 2 2).toAst).2 with | .error 9 ⟨5, 3⟩ => true | _ => false) = true := by decide +kernel

/-- `r = 0`: Subscript out of range (9) at the element-field READ `A(0).P.X`, at the expression's position -/
example : progWfB (demo 3 2 0) = true ∧
    (match (AoR.Ref.run 100 (demo 3 2 0).toAst).2 with | .error 9 ⟨8, 15⟩ => true | _ => false) = true := by decide +kernel

/-- `j = 20000`: Overflow (6) at the `*` whose result is to be stored into the INTEGER field of a nested record -/
example : progWfB (demo 3 20000 2) = true ∧
    (match (AoR.Ref.run 100 (demo 3 20000 2).toAst).2 with | .error 6 ⟨5, 18⟩ => true | _ => false) = true := by
  decide +kernel

example (m : Nat) : Vm.run (compile (demo 3 2 2)) m (Vm.init demoTypes [.sc .int] [.udt 1]) ≠ .stuck :=
  aor_no_internal_failure (demo 3 2 2) 100 (by decide +kernel) (by decide +kernel) m

example (m : Nat) : Vm.run (compile (demo 4 2 2)) m (Vm.init demoTypes [.sc .int] [.udt 1]) ≠ .stuck :=
  aor_no_internal_failure (demo 4 2 2) 100 (by decide +kernel) (by decide +kernel) m

end RbThm.C08AoR
