import RbModel.StrVal
import Thm.C17
/-!
C17 — VAL and STR$ beyond whole numbers (`RbModel/StrVal.lean`).

`valQ` is `val.rs::val` with every arm (fraction digits, integer digits beyond 2^53), the `f64` operations
being IEEE-754 round-to-nearest-even on exact rationals (`fl53`).  What the code does, proved here:

* `val_decimal_fraction_partial` — on `[blank|+|-] digits [. digits]` VAL returns the **correctly rounded** value
  of the decimal *provided no intermediate product `value * 10^i` is misrounded* (`fracOK`, decidable); then
  `val_decimal_fraction_exact`: the exact value when that is a binary64 number.  The unconditional statement
  `ValDecimalFraction` is **false** for the code as it is: `val_decimal_fraction_false` (`VAL("2.25")` is
  `2.25 + 2^-51`; the real interpreter prints `2.2500000000000004`).
* `val_no_exponent`: there is no exponent syntax (`VAL("1E3") = 1`).
* `val_prefix`, `val_prefix_break`, `val_blanks_ignored`: what the scanner accepts.
* `valQ_extends_val`: `valQ` agrees with `Str.val` wherever that answers.
* `str_sign_blank`, `val_str_roundtrip_fraction_partial` (+ `_false` for the unconditional statement).
-/
namespace RbThm.C17Val
open RbModel.Str RbModel.Num

/-! ### binary64 rounding -/

theorem fl53_of_isDouble {q : Rat} (h : isDouble q = true) : fl53 q = q := by
  simp [fl53, h]

theorem sigFits_of_lt (n : Nat) (h : n < 2 ^ 53) : sigFits 53 n = true := by
  unfold sigFits
  by_cases h0 : n = 0
  · simp [h0]
  · have : n.log2 < 53 := (Nat.log2_lt h0).mpr h
    have e : n.log2 + 1 - 53 = 0 := by omega
    simp [e, Nat.mod_one]

/-- Every natural number below 2^53 is a binary64 number. -/
theorem isDouble_natCast (n : Nat) (h : n < 2 ^ 53) : isDouble (n : Rat) = true := by
  simp only [isDouble, Rat.den_natCast, Rat.num_natCast, Int.natAbs_natCast, sigFits_of_lt n h, Bool.and_true]
  decide

theorem fl53_natCast (n : Nat) (h : n < 2 ^ 53) : fl53 (n : Rat) = n :=
  fl53_of_isDouble (isDouble_natCast n h)

theorem isDouble_neg (q : Rat) : isDouble (-q) = isDouble q := by
  simp [isDouble]

/-! ### digits -/

def AllDigits (ds : List Nat) : Prop := ∀ c ∈ ds, 48 ≤ c ∧ c ≤ 57

instance (ds : List Nat) : Decidable (AllDigits ds) := by unfold AllDigits; infer_instance

/-- The number the digits `ds` denote, continuing from `acc`. -/
def digitsVal (ds : List Nat) (acc : Nat) : Nat := ds.foldl (fun a c => a * 10 + (c - 48)) acc

theorem digitsVal_cons (c : Nat) (cs : List Nat) (acc : Nat) :
    digitsVal (c :: cs) acc = digitsVal cs (acc * 10 + (c - 48)) := by
  simp only [digitsVal, List.foldl_cons]

theorem digitsVal_append (a b : List Nat) (acc : Nat) :
    digitsVal (a ++ b) acc = digitsVal b (digitsVal a acc) := by
  simp [digitsVal, List.foldl_append]

theorem le_digitsVal (ds : List Nat) (acc : Nat) : acc ≤ digitsVal ds acc := by
  induction ds generalizing acc with
  | nil => exact Nat.le_refl _
  | cons c cs ih =>
    rw [digitsVal_cons]
    have := ih (acc * 10 + (c - 48))
    omega

/-- The state after scanning digits on the integer path. -/
def afterInt (st : VState) (ds : List Nat) : VState := if ds = [] then st else .int

/-- Scanning integer digits below 2^53: the value is exact. -/
theorem scan_int_digits (ds : List Nat) (hds : AllDigits ds) (rest : List Nat) (pos : Bool) (v fp : Nat)
    (st : VState) (hst : st = .initial ∨ st = .sign ∨ st = .int) (hv : digitsVal ds v < 2 ^ 53) :
    valQScan (ds ++ rest) pos (v : Rat) fp st
      = valQScan rest pos ((digitsVal ds v : Nat) : Rat) fp (afterInt st ds) := by
  induction ds generalizing v st with
  | nil => simp [digitsVal, afterInt]
  | cons c cs ih =>
    have hc : 48 ≤ c ∧ c ≤ 57 := hds c (by simp)
    have h2 : ¬ (st = .dot ∨ st = .fraction) := by
      rcases hst with h | h | h <;> subst h <;> simp
    rw [digitsVal_cons] at hv ⊢
    have hle := le_digitsVal cs (v * 10 + (c - 48))
    have e1 : (v : Rat) * 10 = ((v * 10 : Nat) : Rat) := by simp [Rat.natCast_mul]
    have e2 : ((v * 10 : Nat) : Rat) + ((c - 48 : Nat) : Rat) = ((v * 10 + (c - 48) : Nat) : Rat) := by
      simp [Rat.natCast_add]
    have step : fl53 (fl53 ((v : Rat) * 10) + ((c - 48 : Nat) : Rat)) = ((v * 10 + (c - 48) : Nat) : Rat) := by
      rw [e1, fl53_natCast _ (by omega), e2, fl53_natCast _ (by omega)]
    have := ih (fun d hd => hds d (by simp [hd])) (v * 10 + (c - 48)) .int (by simp) hv
    simp only [List.cons_append]
    conv => lhs; unfold valQScan
    simp only [hc, and_self, if_true, h2, if_false, step]
    rw [this]
    simp [afterInt]

/-- "No intermediate product is misrounded": scanning the fraction digits `ds` when `n` is the number read so
far and `i` digits of it are fraction digits, the `f64` product `value * 10^(i+1)` (with `value` the binary64
number nearest to `n / 10^i`) is the integer `10 n`, at every digit. -/
def fracOK (n i : Nat) : List Nat → Bool
  | [] => true
  | c :: cs =>
    (fl53 (fl53 ((n : Rat) / pow10 i) * pow10 (i + 1)) == ((n * 10 : Nat) : Rat))
      && fracOK (n * 10 + (c - 48)) (i + 1) cs

/-- The state after scanning digits behind the decimal point. -/
def afterFrac (st : VState) (ds : List Nat) : VState := if ds = [] then st else .fraction

/-- Scanning fraction digits: as long as no product is misrounded, the value is the correctly rounded
`n / 10^i` at every step. -/
theorem scan_frac_digits (ds : List Nat) (hds : AllDigits ds) (rest : List Nat) (pos : Bool) (n i : Nat)
    (st : VState) (hst : st = .dot ∨ st = .fraction) (hok : fracOK n i ds = true)
    (hv : digitsVal ds n < 2 ^ 53) (hi : i + ds.length ≤ 22) :
    valQScan (ds ++ rest) pos (fl53 ((n : Rat) / pow10 i)) i st
      = valQScan rest pos (fl53 (((digitsVal ds n : Nat) : Rat) / pow10 (i + ds.length))) (i + ds.length)
          (afterFrac st ds) := by
  induction ds generalizing n i st with
  | nil => simp [digitsVal, afterFrac]
  | cons c cs ih =>
    have hc : 48 ≤ c ∧ c ≤ 57 := hds c (by simp)
    rw [digitsVal_cons] at hv ⊢
    have hle := le_digitsVal cs (n * 10 + (c - 48))
    simp only [fracOK, Bool.and_eq_true, beq_iff_eq] at hok
    have hlen : i + 1 ≤ 22 := by simp at hi; omega
    have e2 : ((n * 10 : Nat) : Rat) + ((c - 48 : Nat) : Rat) = ((n * 10 + (c - 48) : Nat) : Rat) := by
      simp [Rat.natCast_add]
    have step : fl53 (fl53 (fl53 ((n : Rat) / pow10 i) * pow10 (i + 1)) + ((c - 48 : Nat) : Rat))
        = ((n * 10 + (c - 48) : Nat) : Rat) := by
      rw [hok.1, e2, fl53_natCast _ (by omega)]
    have := ih (fun d hd => hds d (by simp [hd])) (n * 10 + (c - 48)) (i + 1) .fraction (by simp) hok.2 hv
      (by simp at hi ⊢; omega)
    simp only [List.cons_append]
    conv => lhs; unfold valQScan
    simp only [hc, and_self, if_true, hst, hlen, step]
    rw [this]
    simp only [List.length_cons, afterFrac, if_neg (List.cons_ne_nil c cs)]
    have e : i + 1 + cs.length = i + (cs.length + 1) := by omega
    rw [e]
    by_cases hcs : cs = [] <;> simp [hcs]

/-! ### `[blank | + | -] digits [. digits]` -/

/-- What may stand before the digits: nothing, a blank, `+`, `-`. -/
inductive SignSlot where
  | none | blank | plus | minus
  deriving DecidableEq, Repr

def SignSlot.text : SignSlot → List Nat
  | .none => []
  | .blank => [32]
  | .plus => [43]
  | .minus => [45]

def SignSlot.neg : SignSlot → Bool
  | .minus => true
  | _ => false

def SignSlot.state : SignSlot → VState
  | .none => .initial
  | .blank => .initial
  | _ => .sign

theorem scan_sign (sg : SignSlot) (rest : List Nat) :
    valQScan (sg.text ++ rest) true 0 0 .initial = valQScan rest (!sg.neg) 0 0 sg.state := by
  cases sg with
  | none => rfl
  | blank => simp only [SignSlot.text, SignSlot.neg, SignSlot.state, List.cons_append, List.nil_append]
             conv => lhs; unfold valQScan
             simp
  | plus => simp only [SignSlot.text, SignSlot.neg, SignSlot.state, List.cons_append, List.nil_append]
            conv => lhs; unfold valQScan
            simp
  | minus => simp only [SignSlot.text, SignSlot.neg, SignSlot.state, List.cons_append, List.nil_append]
             conv => lhs; unfold valQScan
             simp

theorem pow10_zero : pow10 0 = 1 := by simp [pow10]

theorem div_pow10_zero (q : Rat) : q / pow10 0 = q := by
  rw [pow10_zero]; grind

/-- **VAL on a decimal with a fraction.**  For a text `[blank|+|-] digits . digits` (at most 22 fraction digits,
all digits together below 2^53) on which no intermediate product is misrounded (`fracOK`), VAL returns the
binary64 number nearest to the exact value `N / 10^k` of the decimal, with the sign of the text
(`-0.0` for `-0.0`). -/
theorem val_decimal_fraction_partial (sg : SignSlot) (ip fr : List Nat) (hip : AllDigits ip) (hfr : AllDigits fr)
    (hk : fr.length ≤ 22) (hN : digitsVal (ip ++ fr) 0 < 2 ^ 53)
    (hlen : (sg.text ++ ip ++ 46 :: fr).length ≤ maxValLen)
    (hok : fracOK (digitsVal ip 0) 0 fr = true) :
    valQ (sg.text ++ ip ++ 46 :: fr)
      = some ⟨sg.neg, fl53 (((digitsVal (ip ++ fr) 0 : Nat) : Rat) / pow10 fr.length)⟩ := by
  rw [digitsVal_append] at hN
  have hNip : digitsVal ip 0 < 2 ^ 53 := Nat.lt_of_le_of_lt (le_digitsVal fr _) hN
  have hs0 : sg.state = .initial ∨ sg.state = .sign ∨ sg.state = .int := by cases sg <;> simp [SignSlot.state]
  have h1 := scan_sign sg (ip ++ 46 :: fr)
  have h2 := scan_int_digits ip hip (46 :: fr) (!sg.neg) 0 0 sg.state hs0 hNip
  have hst1 : ¬ (afterInt sg.state ip = .dot ∨ afterInt sg.state ip = .fraction) := by
    unfold afterInt; split <;> cases sg <;> simp [SignSlot.state]
  have h3 : valQScan (46 :: fr) (!sg.neg) ((digitsVal ip 0 : Nat) : Rat) 0 (afterInt sg.state ip)
      = valQScan fr (!sg.neg) ((digitsVal ip 0 : Nat) : Rat) 0 .dot := by
    conv => lhs; unfold valQScan
    simp [hst1]
  have h4 := scan_frac_digits fr hfr [] (!sg.neg) (digitsVal ip 0) 0 .dot (by simp) hok hN (by omega)
  rw [div_pow10_zero, fl53_natCast _ hNip] at h4
  simp only [List.append_nil, Nat.zero_add] at h4
  have hfin : afterFrac .dot fr = .dot ∨ afterFrac .dot fr = .fraction := by
    unfold afterFrac; split <;> simp
  have hfin' : ¬ (afterFrac .dot fr = .initial ∨ afterFrac .dot fr = .sign) := by
    rcases hfin with h | h <;> rw [h] <;> simp
  unfold valQ
  rw [if_neg (by omega), List.append_assoc, h1]
  have e0 : ((0 : Nat) : Rat) = 0 := rfl
  rw [← e0, h2, h3, h4]
  simp only [valQScan, valQFinish, hfin', if_false, digitsVal_append, Bool.not_not]

/-- … and the exact value of the decimal when that is a binary64 number. -/
theorem val_decimal_fraction_exact (sg : SignSlot) (ip fr : List Nat) (hip : AllDigits ip) (hfr : AllDigits fr)
    (hk : fr.length ≤ 22) (hN : digitsVal (ip ++ fr) 0 < 2 ^ 53)
    (hlen : (sg.text ++ ip ++ 46 :: fr).length ≤ maxValLen)
    (hok : fracOK (digitsVal ip 0) 0 fr = true)
    (hx : isDouble (((digitsVal (ip ++ fr) 0 : Nat) : Rat) / pow10 fr.length) = true) :
    valQ (sg.text ++ ip ++ 46 :: fr)
      = some ⟨sg.neg, ((digitsVal (ip ++ fr) 0 : Nat) : Rat) / pow10 fr.length⟩ := by
  rw [val_decimal_fraction_partial sg ip fr hip hfr hk hN hlen hok, fl53_of_isDouble hx]

/-- Without a decimal point (at least one digit): the whole number, exactly. -/
theorem val_decimal_whole (sg : SignSlot) (ip : List Nat) (hip : AllDigits ip) (hne : ip ≠ [])
    (hN : digitsVal ip 0 < 2 ^ 53) (hlen : (sg.text ++ ip).length ≤ maxValLen) :
    valQ (sg.text ++ ip) = some ⟨sg.neg, ((digitsVal ip 0 : Nat) : Rat)⟩ := by
  have hs0 : sg.state = .initial ∨ sg.state = .sign ∨ sg.state = .int := by cases sg <;> simp [SignSlot.state]
  have h1 := scan_sign sg (ip ++ [])
  have h2 := scan_int_digits ip hip [] (!sg.neg) 0 0 sg.state hs0 hN
  have e0 : ((0 : Nat) : Rat) = 0 := rfl
  unfold valQ
  rw [if_neg (by omega)]
  rw [List.append_nil] at h1 h2
  rw [h1, ← e0, h2]
  simp [valQScan, valQFinish, afterInt, hne]

/-- The statement one would like: VAL of a decimal whose exact value is a binary64 number returns that value,
whatever the digits. -/
def ValDecimalFraction : Prop :=
  ∀ (sg : SignSlot) (ip fr : List Nat), AllDigits ip → AllDigits fr → fr.length ≤ 22 →
    digitsVal (ip ++ fr) 0 < 2 ^ 53 → (sg.text ++ ip ++ 46 :: fr).length ≤ maxValLen →
    isDouble (((digitsVal (ip ++ fr) 0 : Nat) : Rat) / pow10 fr.length) = true →
    valQ (sg.text ++ ip ++ 46 :: fr)
      = some ⟨sg.neg, ((digitsVal (ip ++ fr) 0 : Nat) : Rat) / pow10 fr.length⟩

/-- What `val.rs` answers for `"2.25"`: `2.25 + 2^-51` (the interpreter prints `2.2500000000000004`): after `2.2`
the value is the double nearest to 2.2, and that times 100 is `220.00000000000003`, not 220. -/
theorem val_2_25 : valQ [50, 46, 50, 53] = some ⟨false, 5066549580791809 / 2251799813685248⟩ := by
  decide +kernel

/-- It is false of the code as it is. -/
theorem val_decimal_fraction_false : ¬ ValDecimalFraction := by
  intro h
  have := h .none [50] [50, 53] (by decide) (by decide) (by decide) (by decide +kernel) (by decide)
    (by decide +kernel)
  rw [show SignSlot.none.text ++ [50] ++ 46 :: [50, 53] = [50, 46, 50, 53] from rfl, val_2_25] at this
  revert this
  decide +kernel

/-- `fracOK` excludes exactly that input … -/
example : fracOK 2 0 [50, 53] = false := by decide +kernel

/-- … and the hypotheses of the partial theorem are satisfiable on non-trivial values: `-0.375`, ` 12.5`,
`0.0625`, `3.14159` (correctly rounded, not a binary64 decimal). -/
example : valQ [45, 48, 46, 51, 55, 53] = some ⟨true, 3 / 8⟩ := by
  have h := val_decimal_fraction_exact .minus [48] [51, 55, 53] (by decide) (by decide) (by decide)
    (by decide +kernel) (by decide) (by decide +kernel) (by decide +kernel)
  rw [show ((digitsVal ([48] ++ [51, 55, 53]) 0 : Nat) : Rat) / pow10 [51, 55, 53].length = 3 / 8 from by
    decide +kernel] at h
  exact h

example : valQ [32, 49, 50, 46, 53] = some ⟨false, 25 / 2⟩ := by
  have h := val_decimal_fraction_exact .blank [49, 50] [53] (by decide) (by decide) (by decide)
    (by decide +kernel) (by decide) (by decide +kernel) (by decide +kernel)
  rw [show ((digitsVal ([49, 50] ++ [53]) 0 : Nat) : Rat) / pow10 [53].length = 25 / 2 from by
    decide +kernel] at h
  exact h

example : fracOK 0 0 [48, 54, 50, 53] = true ∧ fracOK 3 0 [49, 52, 49, 53, 57] = true := by decide +kernel

example : valQ [49, 50, 51] = some ⟨false, 123⟩ :=
  val_decimal_whole .none [49, 50, 51] (by decide) (by decide) (by decide +kernel) (by decide)

/-! ### What the scanner accepts: the longest prefix, blanks anywhere, no exponent -/

/-- The characters that end the scan wherever they stand: everything except digits, the blank, `.`, `+`, `-`. -/
def IsStop (c : Nat) : Prop := ¬ (48 ≤ c ∧ c ≤ 57) ∧ c ≠ 32 ∧ c ≠ 46 ∧ c ≠ 45 ∧ c ≠ 43

instance (c : Nat) : Decidable (IsStop c) := by unfold IsStop; infer_instance

/-- `c` ends the scan when the scanner is in state `st`: a stop character; a decimal point after a decimal
point; a sign anywhere but at the very beginning (blanks apart). -/
def Breaks (c : Nat) (st : VState) : Prop :=
  IsStop c ∨ (c = 46 ∧ (st = .dot ∨ st = .fraction)) ∨ ((c = 45 ∨ c = 43) ∧ st ≠ .initial)

theorem valQScan_break (c : Nat) (rest : List Nat) (pos : Bool) (v : Rat) (fp : Nat) (st : VState)
    (h : Breaks c st) : valQScan (c :: rest) pos v fp st = some (pos, v, st) := by
  unfold valQScan
  rcases h with h | ⟨rfl, h⟩ | ⟨h, hst⟩
  · obtain ⟨h1, h2, h3, h4, h5⟩ := h
    simp [h1, h2, h3, h4, h5]
  · simp [h]
  · rcases h with rfl | rfl <;> simp [hst]

/-- **VAL reads the longest numeric prefix.**  If the scan of `s` ends in state `st'` and `c` ends the scan in that
state, everything from `c` on is ignored (scan level; `s` may itself contain an earlier break). -/
theorem valQScan_prefix (s : List Nat) (c : Nat) (rest : List Nat) (pos : Bool) (v : Rat) (fp : Nat) (st : VState)
    (pos' : Bool) (v' : Rat) (st' : VState)
    (hs : valQScan s pos v fp st = some (pos', v', st')) (hc : Breaks c st') :
    valQScan (s ++ c :: rest) pos v fp st = some (pos', v', st') := by
  induction s generalizing pos v fp st with
  | nil =>
    simp only [valQScan, Option.some.injEq, Prod.mk.injEq] at hs
    obtain ⟨rfl, rfl, rfl⟩ := hs
    exact valQScan_break c rest pos v fp st hc
  | cons a as ih =>
    rw [List.cons_append]
    unfold valQScan at hs ⊢
    split
    · split
      · split
        · rename_i h1 h2 h3; simp only [h1, h2, h3, if_true, and_self] at hs; exact ih _ _ _ _ hs
        · rename_i h1 h2 h3; simp only [h1, h2, h3, if_true, if_false, and_self] at hs; exact absurd hs (by simp)
      · rename_i h1 h2; simp only [h1, h2, if_true, if_false, and_self] at hs; exact ih _ _ _ _ hs
    · rename_i h1
      simp only [h1, if_false] at hs
      split
      · rename_i h2; simp only [h2, if_true] at hs; exact ih _ _ _ _ hs
      · rename_i h2
        simp only [h2, if_false] at hs
        split
        · rename_i h3
          simp only [h3, if_true] at hs
          split
          · rename_i h4; simp only [h4, if_true] at hs; exact hs
          · rename_i h4; simp only [h4, if_false] at hs; exact ih _ _ _ _ hs
        · rename_i h3
          simp only [h3, if_false] at hs
          split
          · rename_i h4
            simp only [h4, if_true] at hs
            split
            · rename_i h5; simp only [h5, if_true] at hs; exact ih _ _ _ _ hs
            · rename_i h5; simp only [h5, if_false] at hs; exact hs
          · rename_i h4
            simp only [h4, if_false] at hs
            split
            · rename_i h5
              simp only [h5, if_true] at hs
              split
              · rename_i h6; simp only [h6, if_true] at hs; exact ih _ _ _ _ hs
              · rename_i h6; simp only [h6, if_false] at hs; exact hs
            · rename_i h5; simp only [h5, if_false] at hs; exact hs

theorem valQScan_stop (s : List Nat) (c : Nat) (rest : List Nat) (hc : IsStop c) (pos : Bool) (v : Rat) (fp : Nat)
    (st : VState) : valQScan (s ++ c :: rest) pos v fp st = valQScan s pos v fp st := by
  induction s generalizing pos v fp st with
  | nil =>
    rw [List.nil_append, valQScan_break c rest pos v fp st (Or.inl hc)]
    simp [valQScan]
  | cons a as ih =>
    rw [List.cons_append]
    conv => lhs; unfold valQScan
    conv => rhs; unfold valQScan
    simp only [ih]

/-- **VAL reads the longest numeric prefix** (1): a character that is not a digit, a blank, `.`, `+` or `-` ends the
number, whatever follows it. -/
theorem val_prefix (s : List Nat) (c : Nat) (rest : List Nat) (hc : IsStop c)
    (hlen : (s ++ c :: rest).length ≤ maxValLen) : valQ (s ++ c :: rest) = valQ s := by
  have h2 : s.length ≤ maxValLen := by simp at hlen; omega
  unfold valQ
  rw [if_neg (by omega), if_neg (by omega), valQScan_stop s c rest hc]

/-- (2): a second decimal point, and a sign that is not the first non-blank character, end the number as well. -/
theorem val_prefix_break (s : List Nat) (c : Nat) (rest : List Nat) (pos : Bool) (v : Rat) (st : VState)
    (hs : valQScan s true 0 0 .initial = some (pos, v, st)) (hc : Breaks c st)
    (hlen : (s ++ c :: rest).length ≤ maxValLen) : valQ (s ++ c :: rest) = valQ s := by
  have h2 : s.length ≤ maxValLen := by simp at hlen; omega
  unfold valQ
  rw [if_neg (by omega), if_neg (by omega), valQScan_prefix s c rest _ _ _ _ _ _ _ hs hc, hs]

/-- **No exponent syntax**: `E`, `D`, `e`, `d` end the number like any other letter (`VAL("1E3") = 1`). -/
theorem val_no_exponent (s : List Nat) (e : Nat) (rest : List Nat) (he : e = 69 ∨ e = 68 ∨ e = 101 ∨ e = 100)
    (hlen : (s ++ e :: rest).length ≤ maxValLen) : valQ (s ++ e :: rest) = valQ s :=
  val_prefix s e rest (by rcases he with rfl | rfl | rfl | rfl <;> decide) hlen

theorem valQScan_blanks (s : List Nat) (pos : Bool) (v : Rat) (fp : Nat) (st : VState) :
    valQScan (s.filter (· ≠ 32)) pos v fp st = valQScan s pos v fp st := by
  induction s generalizing pos v fp st with
  | nil => rfl
  | cons a as ih =>
    by_cases h : a = 32
    · subst h
      have e : (32 :: as).filter (· ≠ 32) = as.filter (· ≠ 32) := by simp
      rw [e, ih]
      conv => rhs; unfold valQScan
      simp
    · have e : (a :: as).filter (· ≠ 32) = a :: as.filter (· ≠ 32) := by simp [h]
      rw [e]
      conv => lhs; unfold valQScan
      conv => rhs; unfold valQScan
      simp only [ih]

/-- **Blanks are ignored wherever they stand** (`VAL("1 2") = 12`, `VAL("- 4 . 2") = -4.2`). -/
theorem val_blanks_ignored (s : List Nat) (hlen : s.length ≤ maxValLen) :
    valQ (s.filter (· ≠ 32)) = valQ s := by
  have := List.length_filter_le (· ≠ 32) s
  unfold valQ
  rw [if_neg (by omega), if_neg (by omega), valQScan_blanks]

/-- `1E3` → 1, `1.5D2` → 1.5, `12abc` → 12, `  7 ` → 7, `1 2` → 12, `1-2` → 1, `-.5.7` → −0.5, `x1` → 0. -/
example : valQ [49, 69, 51] = some ⟨false, 1⟩ ∧ valQ [49, 46, 53, 68, 50] = some ⟨false, 3 / 2⟩ ∧
    valQ [49, 50, 97, 98, 99] = some ⟨false, 12⟩ ∧ valQ [32, 32, 55, 32] = some ⟨false, 7⟩ ∧
    valQ [49, 32, 50] = some ⟨false, 12⟩ ∧ valQ [49, 45, 50] = some ⟨false, 1⟩ ∧
    valQ [45, 46, 53, 46, 55] = some ⟨true, 1 / 2⟩ ∧ valQ [120, 49] = some ⟨false, 0⟩ := by decide +kernel

example : valQ ([49, 46, 53] ++ 68 :: [50]) = valQ [49, 46, 53] := val_no_exponent _ _ _ (by decide) (by decide)

example : valQ ([45, 46, 53] ++ 46 :: [55]) = valQ [45, 46, 53] :=
  val_prefix_break [45, 46, 53] 46 [55] false (1 / 2) .fraction (by decide +kernel) (by simp [Breaks]) (by decide)

/-! ### `valQ` extends `Str.val` -/

theorem valScan_sim (s : List Nat) (pos : Bool) (v : Nat) (st : VState) (pos' : Bool) (v' : Nat) (st' : VState)
    (h : valScan s pos v st = some (pos', v', st')) (fp : Nat) :
    valQScan s pos (v : Rat) fp st = some (pos', (v' : Rat), st') := by
  induction s generalizing pos v st with
  | nil =>
    simp only [valScan, Option.some.injEq, Prod.mk.injEq] at h
    obtain ⟨rfl, rfl, rfl⟩ := h
    simp [valQScan]
  | cons c cs ih =>
    unfold valScan at h
    unfold valQScan
    by_cases hd : 48 ≤ c ∧ c ≤ 57
    · rw [if_pos hd] at h ⊢
      by_cases hst : st = .dot ∨ st = .fraction
      · rw [if_pos hst] at h; exact absurd h (by simp)
      · rw [if_neg hst] at h ⊢
        by_cases hlim : v * 10 + (c - 48) ≥ exactLimit
        · simp only [hlim, if_true] at h; exact absurd h (by simp)
        · simp only [hlim, if_false] at h
          have hlt : v * 10 + (c - 48) < 2 ^ 53 := by unfold exactLimit at hlim; omega
          have e1 : (v : Rat) * 10 = ((v * 10 : Nat) : Rat) := by simp [Rat.natCast_mul]
          have e2 : ((v * 10 : Nat) : Rat) + ((c - 48 : Nat) : Rat) = ((v * 10 + (c - 48) : Nat) : Rat) := by
            simp [Rat.natCast_add]
          rw [e1, fl53_natCast _ (by omega), e2, fl53_natCast _ hlt]
          exact ih _ _ _ h
    · rw [if_neg hd] at h ⊢
      by_cases h32 : c = 32
      · rw [if_pos h32] at h ⊢; exact ih _ _ _ h
      · rw [if_neg h32] at h ⊢
        by_cases h46 : c = 46
        · rw [if_pos h46] at h ⊢
          by_cases hst : st = .dot ∨ st = .fraction
          · rw [if_pos hst] at h ⊢
            simp only [Option.some.injEq, Prod.mk.injEq] at h
            obtain ⟨rfl, rfl, rfl⟩ := h; rfl
          · rw [if_neg hst] at h ⊢; exact ih _ _ _ h
        · rw [if_neg h46] at h ⊢
          by_cases h45 : c = 45
          · rw [if_pos h45] at h ⊢
            by_cases hst : st = .initial
            · rw [if_pos hst] at h ⊢; exact ih _ _ _ h
            · rw [if_neg hst] at h ⊢
              simp only [Option.some.injEq, Prod.mk.injEq] at h
              obtain ⟨rfl, rfl, rfl⟩ := h; rfl
          · rw [if_neg h45] at h ⊢
            by_cases h43 : c = 43
            · rw [if_pos h43] at h ⊢
              by_cases hst : st = .initial
              · rw [if_pos hst] at h ⊢; exact ih _ _ _ h
              · rw [if_neg hst] at h ⊢
                simp only [Option.some.injEq, Prod.mk.injEq] at h
                obtain ⟨rfl, rfl, rfl⟩ := h; rfl
            · rw [if_neg h43] at h ⊢
              simp only [Option.some.injEq, Prod.mk.injEq] at h
              obtain ⟨rfl, rfl, rfl⟩ := h; rfl

/-- Wherever the integer-path model `Str.val` of `Thm/C17.lean` answers, `valQ` gives the same double: the theorems
about `val` (`val_str_roundtrip`, …) are theorems about `valQ`. -/
theorem valQ_extends_val (s : List Nat) (neg : Bool) (m : Nat) (h : val s = some (.double neg m))
    (hlen : s.length ≤ maxValLen) : valQ s = some ⟨neg, (m : Rat)⟩ := by
  unfold val at h
  unfold valQ
  rw [if_neg (by omega)]
  cases hs : valScan s true 0 .initial with
  | none => rw [hs] at h; exact absurd h (by simp)
  | some r =>
    obtain ⟨pos, v, st⟩ := r
    rw [hs] at h
    have := valScan_sim s true 0 .initial pos v st hs 0
    have e0 : ((0 : Nat) : Rat) = 0 := rfl
    rw [e0] at this
    rw [this]
    simp only at h ⊢
    by_cases hf : st = .fraction
    · simp [hf] at h
    · simp only [hf, if_false, Option.some.injEq] at h
      unfold valFinish at h
      unfold valQFinish
      by_cases hi : st = .initial ∨ st = .sign
      · simp only [hi, if_true, VRes.double.injEq] at h ⊢
        obtain ⟨rfl, rfl⟩ := h; rfl
      · simp only [hi, if_false, VRes.double.injEq] at h ⊢
        obtain ⟨rfl, rfl⟩ := h; rfl

/-- VAL(STR$(k)) = k for every whole number below 2^53, now as a statement about the full scanner. -/
theorem val_str_roundtrip_whole (k : Int) (hlo : -(exactLimit : Int) < k) (hhi : k < (exactLimit : Int))
    (hlen : (strInt k).length ≤ maxValLen) :
    ∃ r, valQ (strInt k) = some r ∧ r.value = (k : Rat) := by
  have h := (RbThm.C17.val_str_roundtrip k hlo hhi).1
  refine ⟨_, valQ_extends_val _ _ _ h hlen, ?_⟩
  unfold VQ.value
  by_cases hk : k < 0
  · simp only [hk, decide_true, if_true]
    have : ((k.natAbs : Nat) : Int) = -k := by omega
    have e : ((k.natAbs : Nat) : Rat) = (((k.natAbs : Nat) : Int) : Rat) := (Rat.intCast_natCast _).symm
    rw [e, this]; simp [Rat.intCast_neg]
  · simp only [hk, decide_false]
    have : ((k.natAbs : Nat) : Int) = k := by omega
    have e : ((k.natAbs : Nat) : Rat) = (((k.natAbs : Nat) : Int) : Rat) := (Rat.intCast_natCast _).symm
    rw [e, this]; simp

/-! ### STR$ of floats, and VAL(STR$(x)) -/

theorem decimal_ne_nil (n : Nat) : decimal n ≠ [] := by
  rw [decimal]; split <;> simp

theorem decimal_allDigits (n : Nat) : AllDigits (decimal n) := RbThm.C17.decimal_digits n

theorem digitsVal_decimal (n : Nat) : digitsVal (decimal n) 0 = n := RbThm.C17.decimal_value n

theorem lt_of_decimal_length (n k : Nat) (h : (decimal n).length ≤ k) : n < 10 ^ k := by
  induction k generalizing n with
  | zero =>
    have := decimal_ne_nil n
    cases hd : decimal n with
    | nil => exact absurd hd this
    | cons a as => rw [hd] at h; simp at h
  | succ k ih =>
    rw [decimal] at h
    by_cases hn : n < 10
    · have : 10 ^ 1 ≤ 10 ^ (k + 1) := Nat.pow_le_pow_right (by omega) (by omega)
      omega
    · rw [if_neg hn] at h
      simp only [List.length_append, List.length_cons, List.length_nil] at h
      have := ih (n / 10) (by omega)
      rw [Nat.pow_succ]
      omega

theorem decimal_length_le (n k : Nat) (hk : 0 < k) (h : n < 10 ^ k) : (decimal n).length ≤ k := by
  induction k generalizing n with
  | zero => omega
  | succ k ih =>
    rw [decimal]
    by_cases hn : n < 10
    · rw [if_pos hn]; simp
    · rw [if_neg hn]
      simp only [List.length_append, List.length_cons, List.length_nil]
      by_cases hk0 : k = 0
      · subst hk0; simp at h; omega
      · have := ih (n / 10) (by omega) (by rw [Nat.pow_succ] at h; omega)
        omega

theorem fixedDigits_allDigits (k n : Nat) : AllDigits (fixedDigits k n) := by
  induction k generalizing n with
  | zero => intro c hc; simp [fixedDigits] at hc
  | succ k ih =>
    intro c hc
    simp only [fixedDigits, List.mem_append, List.mem_singleton] at hc
    rcases hc with hc | rfl
    · exact ih _ c hc
    · have := Nat.mod_lt n (by omega : 10 > 0); omega

theorem fixedDigits_length (k n : Nat) : (fixedDigits k n).length = k := by
  induction k generalizing n with
  | zero => rfl
  | succ k ih => simp [fixedDigits, ih]

theorem digitsVal_fixedDigits (k n acc : Nat) :
    digitsVal (fixedDigits k n) acc = acc * 10 ^ k + n % 10 ^ k := by
  induction k generalizing n with
  | zero => simp [fixedDigits, digitsVal, Nat.mod_one]
  | succ k ih =>
    simp only [fixedDigits]
    rw [digitsVal_append, ih, digitsVal_cons]
    have e : 48 + n % 10 - 48 = n % 10 := by omega
    have hm : n % 10 ^ (k + 1) = n % 10 + 10 * (n / 10 % 10 ^ k) := by
      rw [Nat.pow_succ, Nat.mul_comm (10 ^ k) 10, Nat.mod_mul]
    rw [hm, e]
    simp only [digitsVal, List.foldl_nil, Nat.pow_succ]
    generalize 10 ^ k = p
    generalize n / 10 % p = r
    have : acc * (p * 10) = acc * p * 10 := by rw [Nat.mul_assoc]
    rw [this, Nat.add_mul]
    omega

/-- **STR$ of a non-negative number starts with one blank, STR$ of a negative one with `-`**; what follows are
digits and at most the decimal point (so the blank is the only one). -/
theorem str_sign_blank (maxDigits wholeLimit : Nat) (q : Rat) (t : List Nat)
    (h : strFloat maxDigits wholeLimit q = some t) :
    ∃ body, t = (if q < 0 then 45 else 32) :: body ∧ body ≠ [] ∧ ∀ c ∈ body, c = 46 ∨ (48 ≤ c ∧ c ≤ 57) := by
  have hneg : q < 0 ↔ q.num < 0 := by
    rw [← Rat.not_le, ← Rat.num_nonneg]; omega
  unfold strFloat at h
  simp only at h
  split at h
  · split at h
    · split at h
      · simp only [Option.some.injEq] at h
        subst h
        unfold strWholeFloat strInt
        by_cases hq : q.num ≥ 0
        · have : ¬ q < 0 := by rw [hneg]; omega
          rw [if_pos hq, if_neg this]
          exact ⟨_, rfl, decimal_ne_nil _, fun c hc => Or.inr (decimal_allDigits _ c hc)⟩
        · have : q < 0 := by rw [hneg]; omega
          rw [if_neg hq, if_pos this]
          exact ⟨_, rfl, decimal_ne_nil _, fun c hc => Or.inr (decimal_allDigits _ c hc)⟩
      · exact absurd h (by simp)
    · rename_i hk
      split at h
      · simp only [Option.some.injEq] at h
        subst h
        refine ⟨_, rfl, ?_, ?_⟩
        · unfold decText; rw [if_neg hk]; simp
        · intro c hc
          unfold decText at hc
          rw [if_neg hk] at hc
          simp only [List.mem_append, List.mem_cons] at hc
          rcases hc with hc | rfl | hc
          · exact Or.inr (decimal_allDigits _ c hc)
          · exact Or.inl rfl
          · exact Or.inr (fixedDigits_allDigits _ _ c hc)
      · exact absurd h (by simp)
  · exact absurd h (by simp)

example : strDouble (9 / 4) = some [32, 50, 46, 50, 53] ∧ strDouble (-3 / 8) = some [45, 48, 46, 51, 55, 53] ∧
    strSingle (1 / 1024) = some [32, 48, 46, 48, 48, 48, 57, 55, 54, 53, 54, 50, 53] ∧
    strSingle (1 / 2048) = none ∧ strDouble 7 = some [32, 55] := by decide +kernel

theorem natCast_ne_zero (n : Nat) (h : n ≠ 0) : (n : Rat) ≠ 0 := by
  intro e
  apply h
  have : (n : Rat) = ((0 : Nat) : Rat) := by rw [e]; rfl
  exact Rat.natCast_inj.mp this

theorem lt_zero_iff_num (x : Rat) : x < 0 ↔ x.num < 0 := by
  rw [← Rat.not_le, ← Rat.num_nonneg]; omega

/-- The magnitude of a rational as the quotient of its numerator's absolute value and its denominator. -/
theorem absQ_eq (x : Rat) : absQ x = ((x.num.natAbs : Nat) : Rat) / ((x.den : Nat) : Rat) := by
  have hx : x = (x.num : Rat) / ((x.den : Nat) : Rat) := by
    rw [← Rat.mkRat_eq_div, Rat.mkRat_self]
  have e : ((x.num.natAbs : Nat) : Rat) = (((x.num.natAbs : Nat) : Int) : Rat) := (Rat.intCast_natCast _).symm
  unfold absQ
  by_cases h : x < 0
  · have hn := (lt_zero_iff_num x).mp h
    have : ((x.num.natAbs : Nat) : Int) = -x.num := by omega
    rw [if_pos h, e, this, Rat.intCast_neg]
    generalize (x.num : Rat) = a at hx ⊢
    generalize ((x.den : Nat) : Rat) = b at hx ⊢
    rw [hx]; grind
  · have hn : ¬ x.num < 0 := fun c => h ((lt_zero_iff_num x).mpr c)
    have : ((x.num.natAbs : Nat) : Int) = x.num := by omega
    rw [if_neg h, e, this]
    exact hx

theorem isDouble_absQ (x : Rat) : isDouble (absQ x) = isDouble x := by
  unfold absQ; split
  · exact isDouble_neg x
  · rfl

/-- `a * 5^k / 10^k = a / 2^k`. -/
theorem mant_div (a k : Nat) : ((a * 5 ^ k : Nat) : Rat) / pow10 k = (a : Rat) / ((2 ^ k : Nat) : Rat) := by
  have h10 : (10 : Nat) ^ k = 2 ^ k * 5 ^ k := by rw [← Nat.mul_pow]
  have h5 : ((5 ^ k : Nat) : Rat) ≠ 0 := natCast_ne_zero _ (Nat.pos_iff_ne_zero.mp (Nat.pow_pos (by omega)))
  have h2 : ((2 ^ k : Nat) : Rat) ≠ 0 := natCast_ne_zero _ (Nat.pos_iff_ne_zero.mp (Nat.pow_pos (by omega)))
  unfold pow10
  rw [h10, Rat.natCast_mul, Rat.natCast_mul]
  generalize ((5 ^ k : Nat) : Rat) = p5 at h5 ⊢
  generalize ((2 ^ k : Nat) : Rat) = p2 at h2 ⊢
  generalize (a : Rat) = A
  grind

/-- "No intermediate product is misrounded" for the text STR$ prints for `x`. -/
def roundtripOK (x : Rat) : Bool :=
  let k := x.den.log2
  let mant := x.num.natAbs * 5 ^ k
  fracOK (mant / 10 ^ k) 0 (fixedDigits k (mant % 10 ^ k))

/-- **VAL(STR$(x)) = x beyond whole numbers.**  For a SINGLE (`maxDigits = 7`) or DOUBLE (`15`) value `x` whose
exact decimal STR$ prints (`strFloat … x = some t`), VAL reads that text back as exactly `x` — a DOUBLE with the
sign of `x` — provided no intermediate product of the fraction loop is misrounded (`roundtripOK`; vacuous for
whole `x`). -/
theorem val_str_roundtrip_fraction_partial (maxDigits wholeLimit : Nat) (hmd : maxDigits ≤ 15)
    (hwl : wholeLimit ≤ exactLimit) (x : Rat) (t : List Nat) (h : strFloat maxDigits wholeLimit x = some t)
    (hx : isDouble x = true) (hok : roundtripOK x = true) :
    valQ t = some ⟨decide (x < 0), absQ x⟩ := by
  unfold strFloat at h
  simp only at h
  split at h
  · rename_i hden
    have hden : x.den = 2 ^ x.den.log2 := by simpa using hden
    split at h
    · -- whole
      rename_i hk
      have hd1 : x.den = 1 := by rw [hden, hk]
      split at h
      · rename_i hlim
        simp only [Option.some.injEq] at h
        subst h
        have hlo : -(exactLimit : Int) < x.num := by omega
        have hhi : x.num < (exactLimit : Int) := by omega
        have hr := (RbThm.C17.val_str_roundtrip x.num hlo hhi).1
        have hlen : (strInt x.num).length ≤ maxValLen := by
          have h16 : x.num.natAbs < 10 ^ 16 := by unfold exactLimit at hwl; omega
          have := decimal_length_le x.num.natAbs 16 (by omega) h16
          have e1 : (-x.num).toNat = x.num.natAbs ∨ x.num.toNat = x.num.natAbs := by omega
          unfold strInt maxValLen
          split
          · rename_i hp
            have : x.num.toNat = x.num.natAbs := by omega
            simp only [List.length_cons, this]; omega
          · rename_i hp
            have : (-x.num).toNat = x.num.natAbs := by omega
            simp only [List.length_cons, this]; omega
        show valQ (strInt x.num) = _
        rw [valQ_extends_val _ _ _ hr hlen, absQ_eq, hd1]
        have : decide (x.num < 0) = decide (x < 0) := by
          rw [decide_eq_decide]; exact (lt_zero_iff_num x).symm
        rw [this]
        have e1 : ((1 : Nat) : Rat) = 1 := rfl
        rw [e1]
        congr 2
        grind
      · exact absurd h (by simp)
    · -- fractional
      rename_i hk
      split at h
      · rename_i hdig
        simp only [Option.some.injEq] at h
        subst h
        generalize hkk : x.den.log2 = k at *
        generalize ha : x.num.natAbs = a at *
        have hmant : a * 5 ^ k < 10 ^ 15 :=
          Nat.lt_of_lt_of_le (lt_of_decimal_length _ _ hdig) (Nat.pow_le_pow_right (by omega) hmd)
        have ha0 : a ≠ 0 := by
          intro h0
          have hc := x.reduced
          rw [ha, h0] at hc
          have : x.den = 1 := by simpa [Nat.Coprime] using hc
          rw [hden] at this
          have : k = 0 := by
            rcases Nat.eq_zero_or_pos k with h | h
            · exact h
            · have := Nat.pow_lt_pow_right (a := 2) (by omega) h; omega
          exact hk this
        have hk22 : k ≤ 22 := by
          rcases Nat.lt_or_ge 22 k with h | h
          · have h1 : 5 ^ 23 ≤ 5 ^ k := Nat.pow_le_pow_right (by omega) h
            have h2 : 5 ^ k ≤ a * 5 ^ k := Nat.le_mul_of_pos_left _ (by omega)
            have : (10 : Nat) ^ 15 < 5 ^ 23 := by decide
            omega
          · exact h
        have hp : 0 < 10 ^ k := Nat.pow_pos (by omega)
        have hsplit : a * 5 ^ k / 10 ^ k * 10 ^ k + a * 5 ^ k % 10 ^ k = a * 5 ^ k := by
          have := Nat.div_add_mod (a * 5 ^ k) (10 ^ k)
          rw [Nat.mul_comm] at this; exact this
        have hN : digitsVal (decimal (a * 5 ^ k / 10 ^ k) ++ fixedDigits k (a * 5 ^ k % 10 ^ k)) 0 = a * 5 ^ k := by
          rw [digitsVal_append, digitsVal_decimal, digitsVal_fixedDigits, Nat.mod_mod]
          exact hsplit
        have hval : (((a * 5 ^ k : Nat) : Rat) / pow10 k) = absQ x := by
          rw [mant_div, absQ_eq, ha, hden]
        have hsg : ∃ sg : SignSlot, sg.text = [if x < 0 then 45 else 32] ∧ sg.neg = decide (x < 0) := by
          by_cases hneg : x < 0
          · exact ⟨.minus, by simp [SignSlot.text, hneg], by simp [SignSlot.neg, hneg]⟩
          · exact ⟨.blank, by simp [SignSlot.text, hneg], by simp [SignSlot.neg, hneg]⟩
        obtain ⟨sg, hsg1, hsg2⟩ := hsg
        have hiplen := decimal_length_le (a * 5 ^ k / 10 ^ k) 15 (by omega)
          (Nat.lt_of_le_of_lt (Nat.div_le_self _ _) hmant)
        have key := val_decimal_fraction_exact sg (decimal (a * 5 ^ k / 10 ^ k)) (fixedDigits k (a * 5 ^ k % 10 ^ k))
          (decimal_allDigits _) (fixedDigits_allDigits _ _) (by rw [fixedDigits_length]; exact hk22)
          (by rw [hN]; have : (10 : Nat) ^ 15 < 2 ^ 53 := by decide
              omega)
          (by rw [hsg1]; simp only [List.length_append, List.length_cons, List.length_nil, fixedDigits_length]
              unfold maxValLen; omega)
          (by rw [digitsVal_decimal]; simpa [roundtripOK, hkk, ha] using hok)
          (by rw [hN, fixedDigits_length, hval, isDouble_absQ]; exact hx)
        rw [hN, fixedDigits_length, hval, hsg1, hsg2] at key
        unfold decText
        rw [if_neg hk]
        simpa using key
      · exact absurd h (by simp)
  · exact absurd h (by simp)

/-- The statement one would like: STR$ then VAL gives every DOUBLE with a short exact decimal back. -/
def ValStrRoundtripFraction : Prop :=
  ∀ (x : Rat) (t : List Nat), isDouble x = true → strDouble x = some t → valQ t = some ⟨decide (x < 0), absQ x⟩

/-- It is false of the code as it is: `VAL(STR$(2.25#))` is `2.25 + 2^-51`. -/
theorem val_str_roundtrip_fraction_false : ¬ ValStrRoundtripFraction := by
  intro h
  have := h (9 / 4) [32, 50, 46, 50, 53] (by decide +kernel) (by decide +kernel)
  revert this
  decide +kernel

/-- DOUBLE: with the no-misrounding premise. -/
theorem val_str_roundtrip_double (x : Rat) (t : List Nat) (h : strDouble x = some t) (hx : isDouble x = true)
    (hok : roundtripOK x = true) : ∃ r, valQ t = some r ∧ r.value = x := by
  refine ⟨_, val_str_roundtrip_fraction_partial 15 exactLimit (by omega) (by omega) x t h hx hok, ?_⟩
  unfold VQ.value absQ
  by_cases hn : x < 0 <;> simp [hn, Rat.neg_neg]

/-- SINGLE (STR$ prints at most 7 significant digits; every binary32 number is a binary64 number, and VAL's
result is that number as a DOUBLE). -/
theorem val_str_roundtrip_single (x : Rat) (t : List Nat) (h : strSingle x = some t) (hx : isDouble x = true)
    (hok : roundtripOK x = true) : ∃ r, valQ t = some r ∧ r.value = x := by
  refine ⟨_, val_str_roundtrip_fraction_partial 7 16777217 (by omega) (by unfold exactLimit; omega) x t h hx hok, ?_⟩
  unfold VQ.value absQ
  by_cases hn : x < 0 <;> simp [hn, Rat.neg_neg]

/-- Non-vacuity: `-0.375`, `1234.25`, `0.0009765625!` satisfy the premises; `2.25` and `1234.0625` do not. -/
example : ∃ r, valQ [45, 48, 46, 51, 55, 53] = some r ∧ r.value = -3 / 8 :=
  val_str_roundtrip_double (-3 / 8) _ (by decide +kernel) (by decide +kernel) (by decide +kernel)

example : ∃ r, valQ [32, 49, 50, 51, 52, 46, 50, 53] = some r ∧ r.value = 4937 / 4 :=
  val_str_roundtrip_double (4937 / 4) _ (by decide +kernel) (by decide +kernel) (by decide +kernel)

example : ∃ r, valQ [32, 48, 46, 48, 48, 48, 57, 55, 54, 53, 54, 50, 53] = some r ∧ r.value = 1 / 1024 :=
  val_str_roundtrip_single (1 / 1024) _ (by decide +kernel) (by decide +kernel) (by decide +kernel)

example : roundtripOK (9 / 4) = false ∧ roundtripOK (19745 / 16) = false := by decide +kernel

/-! ### The exact domain of `RbModel/Num.lean` consists of binary64 numbers -/

theorem pow2_of_dvd (k d : Nat) (h : d ∣ 2 ^ k) : ∃ j, d = 2 ^ j := by
  induction k generalizing d with
  | zero =>
    have : d = 1 := by simpa using h
    exact ⟨0, this⟩
  | succ k ih =>
    rcases Nat.mod_two_eq_zero_or_one d with h0 | h1
    · obtain ⟨e, rfl⟩ : ∃ e, d = 2 * e := ⟨d / 2, by omega⟩
      have : e ∣ 2 ^ k := by
        rw [Nat.pow_succ, Nat.mul_comm (2 ^ k) 2] at h
        exact Nat.dvd_of_mul_dvd_mul_left (by omega) h
      obtain ⟨j, rfl⟩ := ih e this
      exact ⟨j + 1, by rw [Nat.pow_succ, Nat.mul_comm]⟩
    · have hc : Nat.Coprime d 2 := by
        rw [Nat.Coprime, Nat.gcd_comm, Nat.gcd_rec]; simp [h1]
      rw [Nat.pow_succ, Nat.mul_comm] at h
      exact ih d (hc.dvd_of_dvd_mul_left h)

/-- Every DOUBLE of the exact domain (`inD`), and every SINGLE (`inS`), is a binary64 number in the sense of
`isDouble`: the theorems above apply to all in-domain values. -/
theorem isDouble_of_inDom (p k : Nat) (hp : p ≤ 53) (q : Rat) (h : inDom p k q = true) : isDouble q = true := by
  unfold inDom at h
  simp only [Bool.and_eq_true, beq_iff_eq, decide_eq_true_eq] at h
  obtain ⟨⟨h1, h2⟩, _⟩ := h
  obtain ⟨j, hj⟩ := pow2_of_dvd k q.den (Nat.dvd_of_mod_eq_zero h1)
  unfold isDouble
  rw [hj, Nat.log2_two_pow]
  simp only [beq_self_eq_true, Bool.true_and]
  unfold sigFits at h2 ⊢
  simp only [Bool.or_eq_true, beq_iff_eq] at h2 ⊢
  rcases h2 with h2 | h2
  · exact Or.inl h2
  · right
    have hd : 2 ^ (q.num.natAbs.log2 + 1 - 53) ∣ 2 ^ (q.num.natAbs.log2 + 1 - p) :=
      Nat.pow_dvd_pow 2 (by omega)
    exact Nat.mod_eq_zero_of_dvd (Nat.dvd_trans hd (Nat.dvd_of_mod_eq_zero h2))

theorem isDouble_of_inD (q : Rat) (h : inD q = true) : isDouble q = true := isDouble_of_inDom 53 60 (by omega) q h
theorem isDouble_of_inS (q : Rat) (h : inS q = true) : isDouble q = true := isDouble_of_inDom 24 40 (by omega) q h

end RbThm.C17Val
