import RbModel.CallProto
import Thm.C03
/-!
C03 — the call epilogue: by-reference write-back and FUNCTION result, over `RbModel.CallProto`
(the instructions the generator emits after the return address of a user SUB/FUNCTION call and their
interpreter handlers) on top of the context model `RbModel.Ctx`.

Property theorems: `byref_writeback`, `byref_writeback_local`, `writeback_last_wins`,
`function_result`, `function_result_last_assignment`.  Everything else is a helper lemma.
-/
namespace RbThm.C03Call
open RbModel.Ctx RbModel.CallProto RbThm.C03

/-! ### helper lemmas -/

theorem execAll_append (l1 l2 : List EI) (vm : Vm) :
    execAll (l1 ++ l2) vm = (match execAll l1 vm with | .error e => .error e | .ok vm' => execAll l2 vm') := by
  induction l1 generalizing vm with
  | nil => rfl
  | cons i l1 ih =>
    simp only [List.cons_append, execAll]
    cases exec i vm with
    | error e => rfl
    | ok vm' => exact ih vm'

/-- What `generate_stash_by_ref_args` leaves in the queue. -/
def entries (cv : Vars) (ap : List (Option Loc)) (refs : List (Nat × Loc × Bool)) :
    List (Int × Option Loc) :=
  refs.map fun r => (valAt cv r.1, (ap[r.1]?).join)

theorem stash_spec : ∀ (refs : List (Nat × Loc × Bool)) (vm : Vm),
    (∀ r ∈ refs, r.1 < (curVars vm.ctx).length) →
    execAll (genStash refs) vm
      = .ok { vm with queue := vm.queue ++ entries (curVars vm.ctx) vm.argPaths refs } := by
  intro refs
  induction refs with
  | nil => intro vm _; simp [genStash, execAll, entries]
  | cons r refs ih =>
    intro vm h
    have hr := h r (List.mem_cons_self ..)
    obtain ⟨kv, hkv⟩ : ∃ kv, (curVars vm.ctx)[r.1]? = some kv :=
      ⟨_, List.getElem?_eq_some_iff.mpr ⟨hr, rfl⟩⟩
    have hval : valAt (curVars vm.ctx) r.1 = kv.2 := by simp [valAt, hkv]
    simp only [genStash, List.map_cons, execAll, exec, hkv]
    have := ih { vm with queue := vm.queue ++ [(kv.2, (vm.argPaths[r.1]?).join)] }
      (fun r' hr' => h r' (List.mem_cons_of_mem _ hr'))
    simp only [genStash] at this
    rw [this]
    simp [entries, hval]

/-- The queue entry the un-stash loop expects for a by-reference argument. -/
def expected (w : Nat → Int) (r : Nat × Loc × Bool) : Int × Option Loc :=
  (w r.1, if r.2.2 then some r.2.1 else none)

theorem unstash_spec (w : Nat → Int) : ∀ (refs : List (Nat × Loc × Bool)) (vm : Vm) (c' : Ctx),
    vm.queue = refs.map (expected w) →
    run (refs.map fun r => .setVar r.2.1.shared r.2.1.key (w r.1)) vm.ctx = .ok c' →
    ∃ a', execAll (genUnStash refs) vm = .ok { vm with ctx := c', a := a', queue := [] } := by
  intro refs
  induction refs with
  | nil =>
    intro vm c' hq hr
    simp [run] at hr; subst hr
    obtain ⟨c, a, p, q, ap, r⟩ := vm
    simp only [List.map_nil] at hq; subst hq
    exact ⟨a, by simp [genUnStash, execAll]⟩
  | cons r refs ih =>
    intro vm c' hq hr
    obtain ⟨idx, l, e⟩ := r
    simp only [List.map_cons, run, step] at hr
    cases hm : modifyVars l.shared (fun vs => Vars.insert vs l.key (w idx)) vm.ctx with
    | error err => simp [hm] at hr
    | ok c1 =>
      simp only [hm] at hr
      simp only [List.map_cons, expected] at hq
      cases e with
      | true =>
        simp only [if_true] at hq
        obtain ⟨a', ha'⟩ := ih { vm with ctx := c1, a := w idx, queue := refs.map (expected w) } c'
          rfl hr
        refine ⟨a', ?_⟩
        simp only [genUnStash, execAll, exec, hq, hm]
        simpa using ha'
      | false =>
        simp only [Bool.false_eq_true, if_false] at hq
        obtain ⟨a', ha'⟩ := ih { vm with ctx := c1, a := w idx, queue := refs.map (expected w) } c'
          rfl hr
        refine ⟨a', ?_⟩
        simp only [genUnStash, execAll, exec, hq, hm]
        simpa using ha'

theorem wbRun_stores (cv : Vars) (refs : List (Nat × Loc × Bool)) (k : List Bool) :
    wbRun (stores cv refs) k = some k := by
  induction refs with
  | nil => rfl
  | cons r refs ih => simp only [stores, List.map_cons, wbRun, wbStep] at ih ⊢; exact ih

/-- The callee's `arg_path`s are what `PushNamed` / `PushNamedByRef` stored: the resolved path for
an array element, nothing for a plain variable. -/
def ArgPathsOk (ap : List (Option Loc)) (refs : List (Nat × Loc × Bool)) : Prop :=
  ∀ r ∈ refs, (ap[r.1]?).join = if r.2.2 then some r.2.1 else none

theorem entries_eq_expected {cv : Vars} {ap : List (Option Loc)} {refs : List (Nat × Loc × Bool)}
    (h : ArgPathsOk ap refs) : entries cv ap refs = refs.map (expected (valAt cv)) := by
  apply List.map_congr_left
  intro r hr
  simp [expected, h r hr]

/-! ### by-reference write-back -/

/-- **byref_writeback.** The epilogue of a SUB call, executed when the callee (ordinary or STATIC,
at any depth) has returned to the instruction after `PushRet`: it never fails, and its whole effect
on the context is the history `PopStack`, then one store per by-reference actual IN ARGUMENT ORDER
(left to right), each storing the callee's final value of the corresponding parameter through the
path that was resolved before the call; the var-path stack and the by-ref queue are left as they
were, and the invariant holds afterwards. -/
theorem byref_writeback (args : List ArgKind) (vm : Vm) (k0 : List Bool) (hinv : Inv vm.ctx)
    (hk : kinds vm.ctx = false :: k0) (hk0 : k0 ≠ []) (hq : vm.queue = [])
    (hidx : ∀ r ∈ refsFrom 0 args, r.1 < (curVars vm.ctx).length)
    (hap : ArgPathsOk vm.argPaths (refsFrom 0 args)) :
    ∃ vm', execAll (genSubEpilogue args) vm = .ok vm' ∧
      run (.pop :: stores (curVars vm.ctx) (refsFrom 0 args)) vm.ctx = .ok vm'.ctx ∧
      aRun (.pop :: stores (curVars vm.ctx) (refsFrom 0 args)) (abs vm.ctx) = some (abs vm'.ctx) ∧
      Inv vm'.ctx ∧ vm'.paths = vm.paths ∧ vm'.queue = [] ∧ vm'.result = vm.result := by
  have hwb : (wbRun (.pop :: stores (curVars vm.ctx) (refsFrom 0 args)) (kinds vm.ctx)).isSome = true := by
    simp [wbRun, wbStep, hk, hk0, wbRun_stores]
  obtain ⟨c', hrun, hinv', _, habs⟩ := run_good _ vm.ctx hinv hwb
  -- split the run at the pop
  cases hpop : pop vm.ctx with
  | error e => simp [run, step, hpop] at hrun
  | ok c1 =>
    have hrun1 : run (stores (curVars vm.ctx) (refsFrom 0 args)) c1 = .ok c' := by
      simpa [run, step, hpop] using hrun
    have hst := stash_spec (refsFrom 0 args) vm hidx
    rw [hq, List.nil_append, entries_eq_expected hap] at hst
    obtain ⟨a', hun⟩ := unstash_spec (valAt (curVars vm.ctx)) (refsFrom 0 args)
      { vm with ctx := c1, queue := (refsFrom 0 args).map (expected (valAt (curVars vm.ctx))) } c'
      rfl hrun1
    refine ⟨{ vm with ctx := c', a := a', queue := [] }, ?_, hrun, habs, hinv', rfl, rfl, rfl⟩
    · simp only [genSubEpilogue, List.append_assoc, execAll_append, hst, List.singleton_append,
        execAll, exec, hpop, liftCtx]
      simpa using hun

/-- The stores of a write-back on a frame, left to right. -/
def applyStores (vs : Vars) : List (Nat × Int) → Vars
  | [] => vs
  | (k, v) :: r => applyStores (Vars.insert vs k v) r

theorem get?_insert (vs : Vars) (k k' : Nat) (v : Int) :
    (Vars.insert vs k v).get? k' = if k = k' then some v else vs.get? k' := by
  induction vs with
  | nil => by_cases h : k = k' <;> simp [Vars.insert, Vars.get?, h]
  | cons e vs ih =>
    obtain ⟨k0, v0⟩ := e
    by_cases h0 : k0 = k
    · subst h0; by_cases h : k0 = k' <;> simp [Vars.insert, Vars.get?, h]
    · by_cases h : k = k'
      · subst h; simp [Vars.insert, Vars.get?, h0, ih]
      · by_cases h1 : k0 = k'
        · subst h1; simp [Vars.insert, Vars.get?, h0, h]
        · simp [Vars.insert, Vars.get?, h0, h, h1, ih]

/-- **writeback_last_wins.** After the stores, a cell holds the value of the LAST (rightmost) store
into it — so when the same variable is passed twice the right-hand argument's value stays — and a
cell that was not passed is unchanged. -/
theorem writeback_last_wins (vs : Vars) (ws : List (Nat × Int)) (k : Nat) :
    (applyStores vs ws).get? k =
      match ws.reverse.find? (fun w => w.1 == k) with
      | some w => some w.2
      | none => vs.get? k := by
  induction ws generalizing vs with
  | nil => rfl
  | cons w ws ih =>
    obtain ⟨k1, v1⟩ := w
    simp only [applyStores, List.reverse_cons, List.find?_append]
    rw [ih]
    cases hf : ws.reverse.find? (fun w => w.1 == k) with
    | some w' => simp
    | none =>
      by_cases hk : k1 = k
      · subst hk; simp [get?_insert]
      · simp [get?_insert, hk]

/-- The stores of `refs` as (cell, value) pairs. -/
def cellWrites (cv : Vars) (refs : List (Nat × Loc × Bool)) : List (Nat × Int) :=
  refs.map fun r => (r.2.1.key, valAt cv r.1)

theorem aRun_stores_local (cv : Vars) : ∀ (refs : List (Nat × Loc × Bool)) (v : Vars)
    (rest : List AFrame) (st : List (Nat × Vars)) (g : Vars),
    (∀ r ∈ refs, r.2.1.shared = false) →
    aRun (stores cv refs) ⟨.local v :: rest, st, g⟩
      = some ⟨.local (applyStores v (cellWrites cv refs)) :: rest, st, g⟩ := by
  intro refs
  induction refs with
  | nil => intro v rest st g _; rfl
  | cons r refs ih =>
    intro v rest st g h
    have hr := h r (List.mem_cons_self ..)
    simp only [stores, List.map_cons, aRun, aStep, aModify, hr, Bool.false_eq_true, if_false,
      firstNormal, modifyFirstLocal]
    have := ih (Vars.insert v r.2.1.key (valAt cv r.1)) rest st g
      (fun r' hr' => h r' (List.mem_cons_of_mem _ hr'))
    simp only [stores] at this
    rw [this]
    simp [cellWrites, applyStores]

/-- **byref_writeback_local.** The caller is an activation of an ordinary subprogram (its frame
`cv0` lies directly below the callee's) and the actuals are its own variables: after the epilogue
the caller's frame is `cv0` with the callee's final parameter values stored left to right, and
NOTHING ELSE changed — the frames below, every STATIC frame and the global frame are the same. -/
theorem byref_writeback_local (args : List ArgKind) (vm : Vm) (k0 : List Bool) (hinv : Inv vm.ctx)
    (hk : kinds vm.ctx = false :: k0) (hk0 : k0 ≠ []) (hq : vm.queue = [])
    (hidx : ∀ r ∈ refsFrom 0 args, r.1 < (curVars vm.ctx).length)
    (hap : ArgPathsOk vm.argPaths (refsFrom 0 args))
    (callee : AFrame) (cv0 : Vars) (rest : List AFrame)
    (hstack : (abs vm.ctx).stack = callee :: .local cv0 :: rest)
    (hloc : ∀ r ∈ refsFrom 0 args, r.2.1.shared = false) :
    ∃ vm', execAll (genSubEpilogue args) vm = .ok vm' ∧
      abs vm'.ctx = { abs vm.ctx with
        stack := .local (applyStores cv0 (cellWrites (curVars vm.ctx) (refsFrom 0 args))) :: rest } := by
  obtain ⟨vm', hex, _, habs, _⟩ := byref_writeback args vm k0 hinv hk hk0 hq hidx hap
  refine ⟨vm', hex, ?_⟩
  have hnc : isCollect callee = false := by
    have : (kinds vm.ctx).head? = some false := by rw [hk]; rfl
    have h2 : (abs vm.ctx).stack.map isCollect = kinds vm.ctx := by
      simp only [abs, kinds, List.map_map]
      exact List.map_congr_left (fun s _ => isCollect_absFrame vm.ctx s)
    rw [hstack, hk] at h2
    simpa using (List.cons.inj h2).1
  have hpop : aStep .pop (abs vm.ctx) = some { abs vm.ctx with stack := .local cv0 :: rest } := by
    simp only [aStep, hstack]
    cases callee <;> simp_all [isCollect]
  simp only [aRun, hpop] at habs
  rw [aRun_stores_local _ _ _ _ _ _ hloc] at habs
  exact (Option.some.inj habs).symm

/-! ### FUNCTION result -/

theorem curVars_modify {c c' : Ctx} {f : Vars → Vars} (h : modifyVars false f c = .ok c') :
    curVars c' = f (curVars c) := by
  unfold modifyVars targetBlock at h
  simp only [Bool.false_eq_true, if_false] at h
  cases hs : c.states with
  | nil => simp [hs] at h
  | cons s rest =>
    simp only [hs] at h
    cases hb : c.blocks[s.blk]? with
    | none => simp [hb] at h
    | some b =>
      simp only [hb, Except.ok.injEq] at h
      subst h
      obtain ⟨hlen, heq⟩ := List.getElem?_eq_some_iff.mp hb
      simp [curVars, hs, varsAt, hlen, heq]

theorem get?_touch (vs : Vars) (k : Nat) :
    (Vars.touch vs k).get? k = some ((vs.get? k).getD 0) := by
  unfold Vars.touch
  cases h : vs.get? k with
  | some v => simp [h]
  | none =>
    simp only [Option.getD_none]
    induction vs with
    | nil => simp [Vars.get?]
    | cons e vs ih =>
      obtain ⟨k0, v0⟩ := e
      by_cases h0 : k0 = k
      · simp [Vars.get?, h0] at h
      · simp only [Vars.get?, if_neg h0] at h
        simp [Vars.get?, h0, ih h]

theorem touch_prefix (vs : Vars) (k : Nat) (i : Nat) (h : i < vs.length) :
    (Vars.touch vs k)[i]? = vs[i]? := by
  unfold Vars.touch
  cases vs.get? k with
  | some v => rfl
  | none => simp [List.getElem?_append, h]

/-- **function_result.** The epilogue of a FUNCTION call never fails and leaves in register A the
value the callee's frame holds under the function's name when it returns — 0 (the default of
`get_or_create`) if the name was never assigned —, after the same write-backs as for a SUB. -/
theorem function_result (name : Nat) (args : List ArgKind) (vm : Vm) (k0 : List Bool)
    (hinv : Inv vm.ctx) (hk : kinds vm.ctx = false :: k0) (hk0 : k0 ≠ []) (hq : vm.queue = [])
    (hidx : ∀ r ∈ refsFrom 0 args, r.1 < (curVars vm.ctx).length)
    (hap : ArgPathsOk vm.argPaths (refsFrom 0 args)) :
    ∃ vm', execAll (genFunEpilogue name args) vm = .ok vm' ∧
      vm'.a = ((curVars vm.ctx).get? name).getD 0 ∧
      run (.touch false name :: .pop :: stores (curVars vm.ctx) (refsFrom 0 args)) vm.ctx = .ok vm'.ctx ∧
      Inv vm'.ctx ∧ vm'.paths = vm.paths ∧ vm'.queue = [] ∧ vm'.result = none := by
  -- the stash loop
  have hst := stash_spec (refsFrom 0 args) vm hidx
  rw [hq, List.nil_append, entries_eq_expected hap] at hst
  -- StashFunctionReturnValue
  obtain ⟨c1, hm, hinv1, hk1, _⟩ := modify_good false (fun vs => Vars.touch vs name) hinv
  have hcur1 := curVars_modify hm
  -- PopStack and the stores
  have hwb : (wbRun (.pop :: stores (curVars vm.ctx) (refsFrom 0 args)) (kinds c1)).isSome = true := by
    simp [wbRun, wbStep, hk1, hk, hk0, wbRun_stores]
  obtain ⟨c', hrun, hinv', _, _⟩ := run_good _ c1 hinv1 hwb
  cases hpop : pop c1 with
  | error e => simp [run, step, hpop] at hrun
  | ok c2 =>
    have hrun2 : run (stores (curVars vm.ctx) (refsFrom 0 args)) c2 = .ok c' := by
      simpa [run, step, hpop] using hrun
    obtain ⟨a', hun⟩ := unstash_spec (valAt (curVars vm.ctx)) (refsFrom 0 args)
      { vm with ctx := c2, queue := (refsFrom 0 args).map (expected (valAt (curVars vm.ctx))),
                result := some (((curVars c1).get? name).getD 0) } c' rfl hrun2
    refine ⟨{ vm with ctx := c', a := ((curVars c1).get? name).getD 0, queue := [], result := none },
      ?_, ?_, ?_, hinv', rfl, rfl, rfl⟩
    · simp only [genFunEpilogue, List.append_assoc, execAll_append, hst, List.cons_append,
        List.nil_append, execAll, exec, hm, hpop, liftCtx]
      simp only [hun]
    · simp only [hcur1, get?_touch]; simp
    · simp [run, step, hm, hpop, hrun2]

/-- **function_result_last_assignment.** What a frame holds under a name after a sequence of
stores is the value of the last store to that name (`writeback_last_wins` read for the callee's
body): with `function_result`, a FUNCTION returns the last value assigned to its name. -/
theorem function_result_last_assignment (vs : Vars) (ws : List (Nat × Int)) (name : Nat) (v : Int)
    (h : ws.reverse.find? (fun w => w.1 == name) = some (name, v)) :
    ((applyStores vs ws).get? name).getD 0 = v := by
  rw [writeback_last_wins, h]; rfl

/-! ### the hypotheses are satisfiable: `M I, A(I)` and `X = F(A(1))` -/

/-- Caller `Outer(I = 1, A(1) = 10, A(2) = 20)` (cells 1, 11, 12) has called `M (P, Q)` with
`I` (plain variable) and `A(I)` (element, path resolved to cell 11 before the call); `M` set
`P = 2, Q = 11`.  After the epilogue: `I = 2`, `A(1) = 11`, `A(2)` untouched. -/
def exampleVm : Vm :=
  match run [.beginCollect, .stopCollect, .setVar false 1 1, .setVar false 11 10, .setVar false 12 20,
      .beginCollect, .pushArg 5 1, .pushArg 6 10, .stopCollect, .setVar false 5 2, .setVar false 6 11] init with
  | .ok c => ⟨c, 0, [], [], [none, some ⟨false, 11⟩], none⟩
  | .error _ => ⟨init, 0, [], [], [], none⟩

def exampleArgs : List ArgKind := [.byRefVar ⟨false, 1⟩, .byRefElem ⟨false, 11⟩]

example : ∃ vm', execAll (genSubEpilogue exampleArgs) exampleVm = .ok vm' ∧
    curVars vm'.ctx = [(1, 2), (11, 11), (12, 20)] ∧ vm'.paths = [] ∧ vm'.queue = [] := by
  refine ⟨_, rfl, ?_, ?_, ?_⟩ <;> decide

example : ∃ vm', execAll (genFunEpilogue 6 exampleArgs) exampleVm = .ok vm' ∧ vm'.a = 11 := by
  refine ⟨_, rfl, ?_⟩; decide

end RbThm.C03Call
