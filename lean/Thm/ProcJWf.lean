import Thm.ProcJSimBase
import Thm.ProcJProgWf
import RbModel.ProcJ.WfB
/-!
Layer "procedures ∪ jumps" — the boolean premise checker `ProcJ.progWfB` (what the driver evaluates on every explored program,
request `procj.wf`) is sound for the static premise `ProgWf` of `ProcJSim.compile_correct`.

The checks on expressions, argument lists, PRINT items, CASE items and READ lists are those of the procedures layer
(`RbModel.Proc.WfB`: `eWfB`, `aWfB`, `itemsWfB`, `caseWfB`, `condsWfB`, `readWfB`), the predicates they decide are those of
`Thm/ProcSimBase.lean` (`EWf`, `AWf`, …), which `Thm/ProcJSimBase.lean` reuses.  The statement checker `ProcJ.wfB` does not
itself test that a GOTO / GOSUB target is a label of the body the statement occurs in (`Wf … labs …`: `L ∈ labs`); the
program checker does (`targetsB body`), so `wfB_sound` takes the two facts "`s.gotos ⊆ labs`", "`s.gosubs ⊆ labs`" as
hypotheses and `progWfB_sound` discharges them from `targetsB`.
-/
namespace RbThm.ProcJSim
set_option linter.unusedVariables false
set_option linter.unusedSimpArgs false
open RbModel RbModel.ProcJ RbModel.ProcJ.Compile
open RbModel.Num hiding Expr
open RbModel.Ast (Pos)
open RbModel.Proc (Var SlotTabs Expr Args PrintItem CaseExpr ProcDecl Sigs sigsOf eWfB aWfB itemsWfB selRelOpB caseWfB condsWfB
  readWfB)
open RbThm.ProcSim (Scope EWf AWf ItemsWf SelRelOp CaseWf CondsWf)

/-! ### expressions, argument lists, PRINT items, CASE items, READ lists (the procedures layer's checks) -/

mutual
theorem eWfB_sound (sg : Sigs) (sl : SlotTabs) : ∀ e, eWfB sg sl e = true → EWf sg sl e
  | .lit _ _, _ => trivial
  | .var x t _, h => by simpa [eWfB, EWf] using h
  | .un _ e _, h => by
    simp only [eWfB] at h
    simp only [EWf]; exact eWfB_sound sg sl e h
  | .bin op l r t _, h => by
    simp only [eWfB, Bool.and_eq_true, Bool.or_eq_true, decide_eq_true_eq] at h
    simp only [EWf]
    exact ⟨eWfB_sound sg sl l h.1.1, eWfB_sound sg sl r h.1.2, h.2⟩
  | .paren e _, h => by
    simp only [eWfB] at h
    simp only [EWf]; exact eWfB_sound sg sl e h
  | .callFn f args t _, h => by
    simp only [eWfB, Bool.and_eq_true, decide_eq_true_eq] at h
    simp only [EWf]
    exact ⟨h.1, aWfB_sound sg sl args h.2⟩
theorem aWfB_sound (sg : Sigs) (sl : SlotTabs) : ∀ a, aWfB sg sl a = true → AWf sg sl a
  | .nil, _ => trivial
  | .cons e _ pt rest, h => by
    simp only [aWfB, Bool.and_eq_true, Bool.or_eq_true, Bool.not_eq_true', decide_eq_true_eq] at h
    simp only [AWf]
    refine ⟨eWfB_sound sg sl e h.1.1, ?_, aWfB_sound sg sl rest h.2⟩
    intro hr
    rcases h.1.2 with h2 | h2
    · rw [hr] at h2; cases h2
    · exact h2
end

theorem itemsWfB_sound (sg : Sigs) (sl : SlotTabs) : ∀ items, itemsWfB sg sl items = true → ItemsWf sg sl items
  | [], _ => trivial
  | .expr e :: rest, h => by
    simp only [itemsWfB, Bool.and_eq_true] at h
    exact ⟨eWfB_sound sg sl e h.1, itemsWfB_sound sg sl rest h.2⟩
  | .comma :: rest, h => by
    simp only [itemsWfB] at h
    simp only [ItemsWf]; exact itemsWfB_sound sg sl rest h
  | .semicolon :: rest, h => by
    simp only [itemsWfB] at h
    simp only [ItemsWf]; exact itemsWfB_sound sg sl rest h

theorem selRelOpB_sound (op : Op) (h : selRelOpB op = true) : SelRelOp op := by
  simp only [selRelOpB, Bool.or_eq_true, decide_eq_true_eq] at h
  simp only [SelRelOp]
  rcases h with ((((h | h) | h) | h) | h) | h
  · exact .inl h
  · exact .inr (.inl h)
  · exact .inr (.inr (.inl h))
  · exact .inr (.inr (.inr (.inl h)))
  · exact .inr (.inr (.inr (.inr (.inl h))))
  · exact .inr (.inr (.inr (.inr (.inr h))))

theorem caseWfB_sound (sg : Sigs) (sl : SlotTabs) : ∀ c, caseWfB sg sl c = true → CaseWf sg sl c
  | .simple e, h => eWfB_sound sg sl e h
  | .is op e, h => by
    simp only [caseWfB, Bool.and_eq_true] at h
    exact ⟨selRelOpB_sound op h.1, eWfB_sound sg sl e h.2⟩
  | .range lo hi, h => by
    simp only [caseWfB, Bool.and_eq_true] at h
    exact ⟨eWfB_sound sg sl lo h.1, eWfB_sound sg sl hi h.2⟩

theorem condsWfB_sound (sg : Sigs) (sl : SlotTabs) : ∀ cs, condsWfB sg sl cs = true → CondsWf sg sl cs
  | [], _ => trivial
  | c :: rest, h => by
    simp only [condsWfB, Bool.and_eq_true] at h
    exact ⟨caseWfB_sound sg sl c h.1, condsWfB_sound sg sl rest h.2⟩

theorem readWfB_sound (sl : SlotTabs) : ∀ vars, readWfB sl vars = true → ∀ v ∈ vars, sl.get? v.1 = some v.2.1
  | [], _, v, hv => by simp at hv
  | w :: rest, h, v, hv => by
    simp only [readWfB, Bool.and_eq_true, decide_eq_true_eq] at h
    simp only [List.mem_cons] at hv
    rcases hv with hv | hv
    · subst hv; exact h.1
    · exact readWfB_sound sl rest h.2 v hv

/-! ### the clauses of this layer's statement checker -/

theorem isSkipB_sound : ∀ s, isSkipB s = true → s = .skip := by
  intro s h; cases s <;> first | rfl | cases h

theorem elseB_sound {hasElse : Bool} {els : SStmt} (h : (hasElse || isSkipB els) = true) :
    hasElse = false → els = .skip := by
  intro hf
  rw [hf] at h
  exact isSkipB_sound els (by simpa using h)

theorem ne_nil_of_not_isEmpty {α : Type} {l : List α} (h : (!l.isEmpty) = true) : l ≠ [] := by
  intro hl; subst hl; simp at h

/-- a GOTO that leaves a FOR body / the blocks of a SELECT names a label that is not deeper than the construct -/
theorem leavesB_sound {depthOf : Nat → Nat} {depth : Nat} {inner gotos : List Nat}
    (h : leavesB depthOf depth inner gotos = true) : Leaves depthOf depth inner gotos := by
  intro L hL
  simp only [leavesB, List.all_eq_true, Bool.or_eq_true, decide_eq_true_eq] at h
  rcases h L hL with h | h
  · exact .inl (by simpa using h)
  · exact .inr h

/-- the targets named inside a statement are among `labs` -/
def TargetsIn (labs gotos gosubs : List Nat) : Prop := (∀ L ∈ gotos, L ∈ labs) ∧ (∀ L ∈ gosubs, L ∈ labs)

theorem TargetsIn.left {labs g₁ g₂ s₁ s₂ : List Nat} (h : TargetsIn labs (g₁ ++ g₂) (s₁ ++ s₂)) : TargetsIn labs g₁ s₁ :=
  ⟨fun L hL => h.1 L (List.mem_append_left _ hL), fun L hL => h.2 L (List.mem_append_left _ hL)⟩

theorem TargetsIn.right {labs g₁ g₂ s₁ s₂ : List Nat} (h : TargetsIn labs (g₁ ++ g₂) (s₁ ++ s₂)) : TargetsIn labs g₂ s₂ :=
  ⟨fun L hL => h.1 L (List.mem_append_right _ hL), fun L hL => h.2 L (List.mem_append_right _ hL)⟩

mutual
/-- the statement checker is sound: slots, typing, conditions, guarded DIM, call annotations, EXIT only in procedures, no DATA
(the procedures layer's clauses) and the jump discipline (depths of GOTO / GOSUB targets, `Leaves` for FOR bodies and SELECT
blocks, no label in the body of a `FOR … STEP`); that the targets are labels of the body comes from `TargetsIn` -/
theorem wfB_sound (sg : Sigs) (sc : Scope) (dp : Dp) (labs : List Nat) : ∀ (s : SStmt) (d e : Nat),
    wfB sg sc.slots sc.inProc sc.self.isSome dp d e s = true → TargetsIn labs s.gotos s.gosubs → Wf sg sc dp labs d e s
  | .skip, _, _, _, _ => trivial
  | .comment, _, _, _, _ => trivial
  | .seq a b, d, e, h, ht => by
    simp only [wfB, Bool.and_eq_true] at h
    simp only [SStmt.gotos, SStmt.gosubs] at ht
    exact ⟨wfB_sound sg sc dp labs a d e h.1 ht.left, wfB_sound sg sc dp labs b d e h.2 ht.right⟩
  | .dim x t _, _, _, h, _ => by
    simp only [wfB, Bool.and_eq_true, decide_eq_true_eq, Bool.not_eq_true'] at h
    refine ⟨h.1, ?_⟩
    cases hs : sc.self with
    | none => rfl
    | some f => rw [hs] at h; simp at h
  | .sdim x t _, _, _, h, _ => by
    simp only [wfB, Bool.and_eq_true, decide_eq_true_eq] at h
    exact h
  | .assign x t ex _, _, _, h, _ => by
    simp only [wfB, Bool.and_eq_true, decide_eq_true_eq] at h
    exact ⟨h.1, eWfB_sound sg sc.slots ex h.2⟩
  | .print items _, _, _, h, _ => by
    simp only [wfB] at h
    exact itemsWfB_sound sg sc.slots items h
  | .ifBlock c thn elifs hasElse els _, d, e, h, ht => by
    simp only [wfB, Bool.and_eq_true, decide_eq_true_eq] at h
    simp only [SStmt.gotos, SStmt.gosubs] at ht
    obtain ⟨⟨⟨⟨⟨h1, h2⟩, h3⟩, h4⟩, h5⟩, h6⟩ := h
    exact ⟨eWfB_sound sg sc.slots c h1, h2, wfB_sound sg sc dp labs thn d e h3 ht.left,
      wfElifsB_sound sg sc dp labs elifs d e h4 ht.right.left, wfB_sound sg sc dp labs els d e h5 ht.right.right,
      elseB_sound h6⟩
  | .while c body _, d, e, h, ht => by
    simp only [wfB, Bool.and_eq_true, decide_eq_true_eq] at h
    simp only [SStmt.gotos, SStmt.gosubs] at ht
    exact ⟨eWfB_sound sg sc.slots c h.1.1, h.1.2, wfB_sound sg sc dp labs body d e h.2 ht⟩
  | .doLoop c _ _ body _, d, e, h, ht => by
    simp only [wfB, Bool.and_eq_true, decide_eq_true_eq] at h
    simp only [SStmt.gotos, SStmt.gosubs] at ht
    exact ⟨eWfB_sound sg sc.slots c h.1.1, h.1.2, wfB_sound sg sc dp labs body d e h.2 ht⟩
  | .end_ _, _, _, _, _ => trivial
  | .data _ _, _, _, h, _ => by simp [wfB] at h
  | .read vars _, _, _, h, _ => by
    simp only [wfB] at h
    exact readWfB_sound sc.slots vars h
  | .select sel cases hasElse els _, d, e, h, ht => by
    simp only [wfB, Bool.and_eq_true] at h
    simp only [SStmt.gotos, SStmt.gosubs] at ht
    obtain ⟨⟨⟨⟨h1, h2⟩, h3⟩, h4⟩, h5⟩ := h
    exact ⟨eWfB_sound sg sc.slots sel h1, wfCasesB_sound sg sc dp labs cases d (e + 1) h2 ht.left,
      wfB_sound sg sc dp labs els d (e + 1) h3 ht.right, elseB_sound h4, leavesB_sound h5⟩
  | .forLoop x t lo hi step body _, d, e, h, ht => by
    simp only [wfB, Bool.and_eq_true, decide_eq_true_eq] at h
    simp only [SStmt.gotos, SStmt.gosubs] at ht
    obtain ⟨⟨⟨⟨⟨h1, h2⟩, h3⟩, h4⟩, h5⟩, h6⟩ := h
    refine ⟨h1, eWfB_sound sg sc.slots lo h2, eWfB_sound sg sc.slots hi h3, ?_,
      wfB_sound sg sc dp labs body (d + 1) e h5 ht, leavesB_sound h6⟩
    intro se hse
    subst hse
    simp only [Bool.and_eq_true, List.isEmpty_iff] at h4
    exact ⟨eWfB_sound sg sc.slots se h4.1, h4.2⟩
  | .callSub f args _, _, _, h, _ => by
    simp only [wfB, Bool.and_eq_true, decide_eq_true_eq] at h
    exact ⟨h.1, aWfB_sound sg sc.slots args h.2⟩
  | .exitProc _, _, _, h, _ => by simpa [wfB, Wf] using h
  | .label _ _ _, _, _, _, _ => trivial
  | .goto L _, d, e, h, ht => by
    simp only [wfB, Bool.and_eq_true, decide_eq_true_eq] at h
    exact ⟨h.1, h.2, ht.1 L (by simp [SStmt.gotos])⟩
  | .gosub L _, d, e, h, ht => by
    simp only [wfB, Bool.and_eq_true, decide_eq_true_eq] at h
    exact ⟨h.1, h.2, ht.2 L (by simp [SStmt.gosubs])⟩
  | .ret _, _, _, _, _ => trivial
theorem wfElifsB_sound (sg : Sigs) (sc : Scope) (dp : Dp) (labs : List Nat) : ∀ (el : ElseIfs) (d e : Nat),
    wfElifsB sg sc.slots sc.inProc sc.self.isSome dp d e el = true → TargetsIn labs el.gotos el.gosubs →
    WfElifs sg sc dp labs d e el
  | .nil, _, _, _, _ => trivial
  | .cons c body rest, d, e, h, ht => by
    simp only [wfElifsB, Bool.and_eq_true, decide_eq_true_eq] at h
    simp only [ElseIfs.gotos, ElseIfs.gosubs] at ht
    exact ⟨eWfB_sound sg sc.slots c h.1.1.1, h.1.1.2, wfB_sound sg sc dp labs body d e h.1.2 ht.left,
      wfElifsB_sound sg sc dp labs rest d e h.2 ht.right⟩
theorem wfCasesB_sound (sg : Sigs) (sc : Scope) (dp : Dp) (labs : List Nat) : ∀ (cs : SCases) (d e : Nat),
    wfCasesB sg sc.slots sc.inProc sc.self.isSome dp d e cs = true → TargetsIn labs cs.gotos cs.gosubs →
    WfCases sg sc dp labs d e cs
  | .nil, _, _, _, _ => trivial
  | .cons conds body rest, d, e, h, ht => by
    simp only [wfCasesB, Bool.and_eq_true] at h
    simp only [SCases.gotos, SCases.gosubs] at ht
    exact ⟨ne_nil_of_not_isEmpty h.1.1.1, condsWfB_sound sg sc.slots conds h.1.1.2,
      wfB_sound sg sc dp labs body d e h.1.2 ht.left, wfCasesB_sound sg sc dp labs rest d e h.2 ht.right⟩
end

/-- `targetsB body`: the jump targets of a body are labels of that body -/
theorem targetsB_sound (body : SStmt) (h : targetsB body = true) : TargetsIn body.labels body.gotos body.gosubs := by
  simp only [targetsB, Bool.and_eq_true, List.all_eq_true, List.contains_eq_mem, decide_eq_true_eq] at h
  exact ⟨h.1, h.2⟩

/-- labels defined once -/
theorem nodupB_sound : ∀ l : List Nat, nodupB l = true → l.Nodup
  | [], _ => List.nodup_nil
  | x :: rest, h => by
    simp only [nodupB, Bool.and_eq_true, Bool.not_eq_true', List.contains_eq_mem, decide_eq_false_iff_not] at h
    exact List.nodup_cons.mpr ⟨h.1, nodupB_sound rest h.2⟩

/-- `ProcDecl.wfSlots` gives the slot-table condition of the proof -/
theorem slotsOk_of_wfSlots (d : ProcDecl SStmt) (h : d.wfSlots = true) : SlotsOk d := by
  unfold ProcDecl.wfSlots at h
  simp only [beq_iff_eq] at h
  -- every entry of the prefix is an entry of the slot table
  have key : ∀ (pre : List Ty), d.slots.take pre.length = pre → ∀ (i : Nat) (t : Ty), pre[i]? = some t →
      d.slots[i]? = some t := by
    intro pre hp i t hi
    have hlt := (List.getElem?_eq_some_iff.mp hi).1
    have : (d.slots.take pre.length)[i]? = some t := by rw [hp]; exact hi
    rw [List.getElem?_take] at this
    simpa [hlt] using this
  have k := key _ h
  refine ⟨?_, ?_⟩
  · intro i pn pt hi
    apply k
    have hlt := (List.getElem?_eq_some_iff.mp hi).1
    rw [List.getElem?_append_left (by simpa using hlt), List.getElem?_map, hi]; rfl
  · intro rt hr
    apply k
    simp only [hr]
    rw [List.getElem?_append_right (by simp)]
    simp

/-- the scope a procedure's body is checked in is the scope the proof gives it -/
theorem procScope_isSome (gl : List Ty) (f : Nat) (d : ProcDecl SStmt) : (procScope gl f d).self.isSome = d.static := by
  simp only [procScope]
  cases d.static <;> rfl

/-- a procedure the program checker accepts: slot table, body, targets -/
theorem procWfB_sound (sg : Sigs) (gl : List Ty) (dp : Dp) (f : Nat) (d : ProcDecl SStmt)
    (h : (d.wfSlots && wfB sg ⟨d.slots, gl⟩ true d.static dp 0 0 d.body && targetsB d.body) = true) :
    SlotsOk d ∧ Wf sg (procScope gl f d) dp d.body.labels 0 0 d.body := by
  simp only [Bool.and_eq_true] at h
  refine ⟨slotsOk_of_wfSlots d h.1.1, wfB_sound sg (procScope gl f d) dp _ d.body 0 0 ?_ (targetsB_sound _ h.2)⟩
  rw [procScope_isSome]
  exact h.1.2

/-- a statement of the main module that is checked as an ordinary statement (`inProc = false`, not STATIC) -/
theorem wfB_main (sg : Sigs) (sc : Scope) (hp : sc.inProc = false) (hs : sc.self = none) (dp : Dp) (labs : List Nat)
    (s : SStmt) (h : wfB sg sc.slots false false dp 0 0 s = true) (ht : TargetsIn labs s.gotos s.gosubs) :
    Wf sg sc dp labs 0 0 s := by
  refine wfB_sound sg sc dp labs s 0 0 ?_ ht
  rw [hp, hs]
  exact h

/-- the main module: DATA statements only at the top level, everything else well formed at depths 0 / 0 -/
theorem wfTopB_sound (sg : Sigs) (sc : Scope) (hp : sc.inProc = false) (hs : sc.self = none) (dp : Dp) (labs : List Nat) :
    ∀ body, wfTopB sg sc.slots dp body = true → TargetsIn labs body.gotos body.gosubs → WfTop sg sc dp labs body
  | .seq a b, h, ht => by
    simp only [wfTopB, Bool.and_eq_true] at h
    simp only [SStmt.gotos, SStmt.gosubs] at ht
    exact ⟨wfTopB_sound sg sc hp hs dp labs a h.1 ht.left, wfTopB_sound sg sc hp hs dp labs b h.2 ht.right⟩
  | .data _ _, _, _ => trivial
  | .skip, h, ht => wfB_main sg sc hp hs dp labs _ h ht
  | .comment, h, ht => wfB_main sg sc hp hs dp labs _ h ht
  | .dim _ _ _, h, ht => wfB_main sg sc hp hs dp labs _ h ht
  | .sdim _ _ _, h, ht => wfB_main sg sc hp hs dp labs _ h ht
  | .assign _ _ _ _, h, ht => wfB_main sg sc hp hs dp labs _ h ht
  | .print _ _, h, ht => wfB_main sg sc hp hs dp labs _ h ht
  | .read _ _, h, ht => wfB_main sg sc hp hs dp labs _ h ht
  | .ifBlock _ _ _ _ _ _, h, ht => wfB_main sg sc hp hs dp labs _ h ht
  | .select _ _ _ _ _, h, ht => wfB_main sg sc hp hs dp labs _ h ht
  | .forLoop _ _ _ _ _ _ _, h, ht => wfB_main sg sc hp hs dp labs _ h ht
  | .while _ _ _, h, ht => wfB_main sg sc hp hs dp labs _ h ht
  | .doLoop _ _ _ _ _, h, ht => wfB_main sg sc hp hs dp labs _ h ht
  | .end_ _, h, ht => wfB_main sg sc hp hs dp labs _ h ht
  | .callSub _ _ _, h, ht => wfB_main sg sc hp hs dp labs _ h ht
  | .exitProc _, h, ht => wfB_main sg sc hp hs dp labs _ h ht
  | .label _ _ _, h, ht => wfB_main sg sc hp hs dp labs _ h ht
  | .goto _ _, h, ht => wfB_main sg sc hp hs dp labs _ h ht
  | .gosub _ _, h, ht => wfB_main sg sc hp hs dp labs _ h ht
  | .ret _, h, ht => wfB_main sg sc hp hs dp labs _ h ht

/-- **the checker is sound**: a program `progWfB` accepts satisfies the premise of `compile_correct` -/
theorem progWfB_sound (prog : SProgram) (h : progWfB prog = true) : ProgWf prog := by
  simp only [progWfB, Bool.and_eq_true, List.all_eq_true] at h
  obtain ⟨⟨⟨h1, h2⟩, h3⟩, h4⟩ := h
  refine ⟨wfTopB_sound _ (mainScope prog) rfl rfl _ _ _ h1 (targetsB_sound _ h2), ?_, nodupB_sound _ h4⟩
  intro f d hd
  exact procWfB_sound _ _ _ f d (by simpa only [Bool.and_eq_true] using h3 d (List.mem_of_getElem? hd))

/-! ### non-vacuity: a GOSUB routine in the main module, a SUB that loops with GOTO inside a FOR body and leaves with EXIT SUB

    X% = 0 : GOSUB Sub1 : S X% : PRINT X% : END
    Sub1: X% = X% + 1 : RETURN
    SUB S(B%) : FOR I% = 1 TO 2 : Again: B% = B% + 1 : IF B% < 3 THEN GOTO Again
      NEXT : GOTO Fin : B% = 0 : Fin: EXIT SUB : END SUB
-/

private def demoProc (target : Nat) : ProcDecl SStmt :=
  { result := none, name := "S", params := [("B", .int)], slots := [.int, .int],
    body :=
      .seq (.forLoop ⟨false, 1⟩ .int (.lit (.int 1) ⟨10, 12⟩) (.lit (.int 2) ⟨10, 17⟩) none
        (.seq (.label 1 "Again" ⟨11, 5⟩)
        (.seq (.assign ⟨false, 0⟩ .int (.bin .plus (.var ⟨false, 0⟩ .int ⟨12, 10⟩) (.lit (.int 1) ⟨12, 15⟩) .int ⟨12, 13⟩) ⟨12, 5⟩)
        (.seq (.ifBlock (.bin .less (.var ⟨false, 0⟩ .int ⟨13, 8⟩) (.lit (.int 3) ⟨13, 13⟩) .int ⟨13, 11⟩)
          (.seq (.goto 1 ⟨13, 20⟩) .skip) .nil false .skip ⟨13, 5⟩) .skip))) ⟨10, 3⟩)
      (.seq (.goto target ⟨15, 3⟩)
      (.seq (.assign ⟨false, 0⟩ .int (.lit (.int 0) ⟨16, 8⟩) ⟨16, 3⟩)
      (.seq (.label 2 "Fin" ⟨17, 3⟩)
      (.seq (.exitProc ⟨18, 3⟩) .skip)))),
    pos := ⟨9, 1⟩ }

private def demoMain : SStmt :=
  .seq (.assign ⟨false, 0⟩ .int (.lit (.int 0) ⟨1, 6⟩) ⟨1, 1⟩)
  (.seq (.gosub 0 ⟨2, 1⟩)
  (.seq (.callSub 0 (.cons (.var ⟨false, 0⟩ .int ⟨3, 3⟩) "B" .int .nil) ⟨3, 1⟩)
  (.seq (.print [.expr (.var ⟨false, 0⟩ .int ⟨4, 7⟩)] ⟨4, 1⟩)
  (.seq (.end_ ⟨5, 1⟩)
  (.seq (.label 0 "Sub1" ⟨6, 1⟩)
  (.seq (.assign ⟨false, 0⟩ .int (.bin .plus (.var ⟨false, 0⟩ .int ⟨7, 6⟩) (.lit (.int 1) ⟨7, 11⟩) .int ⟨7, 9⟩) ⟨7, 1⟩)
  (.seq (.ret ⟨8, 1⟩) .skip)))))))

private def demoProg (target : Nat) : SProgram := ⟨[.int], [], demoMain, [demoProc target]⟩

/-- the premise is satisfiable on a program that uses procedures and every jump statement -/
example : progWfB (demoProg 2) = true := by decide
example : ProgWf (demoProg 2) := progWfB_sound _ (by decide)
/-- labels are per procedure: a GOTO in the SUB to the main module's label `Sub1` (depths 0 / 0, defined once) is rejected by
`targetsB` only — the conjunct that gives `L ∈ labs` in `Wf` -/
example : progWfB (demoProg 0) = false := by decide
example : wfB (sigsOf [demoProc 0]) ⟨[.int, .int], []⟩ true false (dpOf (demoProg 0)) 0 0 (demoProc 0).body = true := by decide
/-- a GOTO from outside into the FOR body (label `Again` at FOR depth 1) is rejected by the depth check -/
example : progWfB (demoProg 1) = false := by decide

end RbThm.ProcJSim
