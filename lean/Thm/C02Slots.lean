import Thm.C02Sites
/-!
# C02 — temporaries appended to the slot table

The driver's `Drv.Rewrite.rewriteAt` answers, for the rules `select-if` and `for-while`, the rewritten tree together
with the types `extra` of the temporaries; the rewritten program runs over `P.slots ++ extra`.  The theorems of
`Thm/C02Vm.lean` / `Thm/C02Sites.lean` compare programs over ONE slot table.  This file closes the gap:

* `wfTopB_append`          the checker is monotone in the slot table
* `wfTopB_fresh`           a checked body mentions no slot `≥ sl.length` (`usesS zs (desugar body) = false`)
* `exec_ext` (`frame_all`) the reference semantics of a statement that mentions no slot of the appended block runs
  the same in the extended environment: same outcome, same output, environment `env ++ ex`
* `run_ext`                `Ref.run fuel P⁺.toAst` is `Ref.run fuel P.toAst` with the environment extended by zeros
* `vm_end_ext`             hence (through `C01_run_correct` on both sides; `compile` does not look at the slot table)
  the VM runs of `compile P` from `Vm.init P.slots` and from `Vm.init (P.slots ++ extra)` end alike (`VmEndExt`)
* `equivT_ext_same_vm_end`  generic composition: `P` over `P.slots`, `P'` over `P.slots ++ extra`, trees equivalent
  (`EquivT`) over the extended table modulo temporaries in the appended block; the reference run of EITHER finishes
* **`C02_rewriteAt_select_if_preserves_output`**, **`C02_rewriteAt_for_while_preserves_output`** (`_static`)
  the two rules with temporaries, from what `rewriteAt` answers, for `P` over `P.slots` and `P'` over
  `P.slots ++ extra` (`SameVmEndExt`: `SameVmEnd` cannot hold, it asks for environments of the same length).
  `select-if` needs nothing beyond what `C02_rewriteAt_nil_preserves_output` asks; `for-while` keeps the side
  conditions of `C02_for_while_preserves_output` (limit and step well typed: `wfTopB` checks only their slots; step
  not zero in any state typed over the extended table), discharged in `_static` for FOR without STEP / literal STEP.

Route: `compile` ignores the slot table, but the VM's unchecked store (`List.set`) and `Ref.eval`'s `getD` make a
frame lemma depend on "the body names only declared slots" either way; it is proved once, over `Ref` (`frame_all`,
induction on the fuel), because the converse direction (the run over the LONGER table finishes ⇒ the run over the
shorter one does) is needed when only `P'`'s reference run is known to finish, and `Ref.exec` being a function gives
both directions from one equation.
-/
namespace RbThm.C02Slots
open RbModel RbModel.Num RbModel.Ast RbModel.Src RbModel.Core RbModel.CoreVm RbModel.Ref RbModel.Rewrite
open RbModel.CoreWf
open RbThm.C01 RbThm.C01Sim RbThm.C01Sim.SimRead RbThm.C02 RbThm.C02Vm RbThm.C02Sites
open RbThm.C08Core (Finished finished)

/-- the program over the extended slot table: same body (hence same DATA, same code) -/
def extP (P : SProgram) (extra : List Ty) : SProgram := { P with slots := P.slots ++ extra }

theorem compile_extP (P : SProgram) (extra : List Ty) : compile (extP P extra) = compile P := rfl

/-! ### 1a. the checker is monotone in the slot table -/

theorem slotsB_mono {n m : Nat} (h : n ≤ m) : ∀ e : Ast.Expr, slotsB n e = true → slotsB m e = true
  | .lit _ _, _ => rfl
  | .var x _ _, hs => by
    simp only [slotsB, decide_eq_true_eq] at hs ⊢; omega
  | .un _ e _, hs => by
    simp only [slotsB] at hs ⊢; exact slotsB_mono h e hs
  | .bin _ l r _ _, hs => by
    simp only [slotsB, Bool.and_eq_true] at hs ⊢
    exact ⟨slotsB_mono h l hs.1, slotsB_mono h r hs.2⟩
  | .paren e _, hs => by
    simp only [slotsB] at hs ⊢; exact slotsB_mono h e hs

theorem get_append {sl ex : List Ty} {x : Nat} {t : Ty} (h : sl[x]? = some t) : (sl ++ ex)[x]? = some t := by
  rw [List.getElem?_append_left (lt_of_slot h)]; exact h

theorem exprWtB_append (sl ex : List Ty) : ∀ e : Ast.Expr, exprWtB sl e = true → exprWtB (sl ++ ex) e = true
  | .lit _ _, _ => rfl
  | .var x t _, hs => by
    simp only [exprWtB, decide_eq_true_eq] at hs ⊢; exact get_append hs
  | .un _ e _, hs => by
    simp only [exprWtB] at hs ⊢; exact exprWtB_append sl ex e hs
  | .bin op l r t _, hs => by
    simp only [exprWtB, Bool.and_eq_true] at hs ⊢
    exact ⟨⟨exprWtB_append sl ex l hs.1.1, exprWtB_append sl ex r hs.1.2⟩, hs.2⟩
  | .paren e _, hs => by
    simp only [exprWtB] at hs ⊢; exact exprWtB_append sl ex e hs

theorem len_le_append (sl ex : List Ty) : sl.length ≤ (sl ++ ex).length := by
  simp only [List.length_append]; omega

theorem condB_append {sl ex : List Ty} {c : Ast.Expr} (h : condB sl c = true) : condB (sl ++ ex) c = true := by
  simp only [condB, Bool.and_eq_true] at h ⊢
  exact ⟨⟨slotsB_mono (len_le_append sl ex) c h.1.1, exprWtB_append sl ex c h.1.2⟩, h.2⟩

theorem itemsB_mono {n m : Nat} (h : n ≤ m) : ∀ items : List PrintItem, itemsB n items = true → itemsB m items = true
  | [], _ => rfl
  | .expr e :: rest, hs => by
    simp only [itemsB, Bool.and_eq_true] at hs ⊢
    exact ⟨slotsB_mono h e hs.1, itemsB_mono h rest hs.2⟩
  | .comma :: rest, hs => by
    simp only [itemsB] at hs ⊢; exact itemsB_mono h rest hs
  | .semicolon :: rest, hs => by
    simp only [itemsB] at hs ⊢; exact itemsB_mono h rest hs

theorem caseB_mono {n m : Nat} (h : n ≤ m) : ∀ c : CaseExpr, caseB n c = true → caseB m c = true
  | .simple e, hs => by simp only [caseB] at hs ⊢; exact slotsB_mono h e hs
  | .is op e, hs => by
    simp only [caseB, Bool.and_eq_true] at hs ⊢; exact ⟨hs.1, slotsB_mono h e hs.2⟩
  | .range lo hi, hs => by
    simp only [caseB, Bool.and_eq_true] at hs ⊢; exact ⟨slotsB_mono h lo hs.1, slotsB_mono h hi hs.2⟩

theorem condsB_mono {n m : Nat} (h : n ≤ m) : ∀ cs : List CaseExpr, condsB n cs = true → condsB m cs = true
  | [], _ => rfl
  | c :: rest, hs => by
    simp only [condsB, Bool.and_eq_true] at hs ⊢; exact ⟨caseB_mono h c hs.1, condsB_mono h rest hs.2⟩

theorem readB_append (sl ex : List Ty) : ∀ vars : List (Nat × Ty × Pos), readB sl vars = true → readB (sl ++ ex) vars = true
  | [], _ => rfl
  | v :: rest, hs => by
    simp only [readB, Bool.and_eq_true, decide_eq_true_eq] at hs ⊢
    exact ⟨get_append hs.1, readB_append sl ex rest hs.2⟩

mutual
theorem wfB_append (sl ex : List Ty) : ∀ st : SStmt, wfB sl st = true → wfB (sl ++ ex) st = true
  | .skip, _ => by simp only [wfB]
  | .comment, _ => by simp only [wfB]
  | .seq a b, h => by
    simp only [wfB, Bool.and_eq_true] at h ⊢
    exact ⟨wfB_append sl ex a h.1, wfB_append sl ex b h.2⟩
  | .dim x t _, h => by
    simp only [wfB, decide_eq_true_eq] at h ⊢; exact get_append h
  | .assign x t e _, h => by
    simp only [wfB, Bool.and_eq_true, decide_eq_true_eq] at h ⊢
    exact ⟨⟨get_append h.1.1, slotsB_mono (len_le_append sl ex) e h.1.2⟩, exprWtB_append sl ex e h.2⟩
  | .print items _, h => by
    simp only [wfB] at h ⊢; exact itemsB_mono (len_le_append sl ex) items h
  | .ifBlock c thn elifs hasElse els _, h => by
    simp only [wfB, Bool.and_eq_true] at h ⊢
    exact ⟨⟨⟨⟨condB_append h.1.1.1.1, wfB_append sl ex thn h.1.1.1.2⟩, wfElifsB_append sl ex elifs h.1.1.2⟩,
      wfB_append sl ex els h.1.2⟩, h.2⟩
  | .while c body _, h => by
    simp only [wfB, Bool.and_eq_true] at h ⊢
    exact ⟨condB_append h.1, wfB_append sl ex body h.2⟩
  | .doLoop c _ _ body _, h => by
    simp only [wfB, Bool.and_eq_true] at h ⊢
    exact ⟨condB_append h.1, wfB_append sl ex body h.2⟩
  | .end_ _, _ => by simp only [wfB]
  | .data _ _, h => by simp [wfB] at h
  | .read vars _, h => by
    simp only [wfB] at h ⊢; exact readB_append sl ex vars h
  | .select e cases hasElse els _, h => by
    simp only [wfB, Bool.and_eq_true] at h ⊢
    exact ⟨⟨⟨slotsB_mono (len_le_append sl ex) e h.1.1.1, wfCasesB_append sl ex cases h.1.1.2⟩,
      wfB_append sl ex els h.1.2⟩, h.2⟩
  | .forLoop x t lo hi step body _, h => by
    simp only [wfB, Bool.and_eq_true, decide_eq_true_eq] at h ⊢
    refine ⟨⟨⟨⟨⟨get_append h.1.1.1.1.1, slotsB_mono (len_le_append sl ex) lo h.1.1.1.1.2⟩,
      exprWtB_append sl ex lo h.1.1.1.2⟩, slotsB_mono (len_le_append sl ex) hi h.1.1.2⟩, ?_⟩,
      wfB_append sl ex body h.2⟩
    have hs := h.1.2
    cases step with
    | none => rfl
    | some se => exact slotsB_mono (len_le_append sl ex) se hs
theorem wfElifsB_append (sl ex : List Ty) : ∀ el : ElseIfs, wfElifsB sl el = true → wfElifsB (sl ++ ex) el = true
  | .nil, _ => by simp only [wfElifsB]
  | .cons c body rest, h => by
    simp only [wfElifsB, Bool.and_eq_true] at h ⊢
    exact ⟨⟨condB_append h.1.1, wfB_append sl ex body h.1.2⟩, wfElifsB_append sl ex rest h.2⟩
theorem wfCasesB_append (sl ex : List Ty) : ∀ cs : SCases, wfCasesB sl cs = true → wfCasesB (sl ++ ex) cs = true
  | .nil, _ => by simp only [wfCasesB]
  | .cons conds body rest, h => by
    simp only [wfCasesB, Bool.and_eq_true] at h ⊢
    exact ⟨⟨⟨h.1.1.1, condsB_mono (len_le_append sl ex) conds h.1.1.2⟩, wfB_append sl ex body h.1.2⟩,
      wfCasesB_append sl ex rest h.2⟩
end

/-- **1a** a body the checker accepts over `sl` it accepts over `sl ++ ex` -/
theorem wfTopB_append (sl ex : List Ty) : ∀ body : SStmt, wfTopB sl body = true → wfTopB (sl ++ ex) body = true
  | .seq a b, h => by
    simp only [wfTopB, Bool.and_eq_true] at h ⊢
    exact ⟨wfTopB_append sl ex a h.1, wfTopB_append sl ex b h.2⟩
  | .data _ _, _ => rfl
  | .skip, h => wfB_append sl ex _ h
  | .comment, h => wfB_append sl ex _ h
  | .dim _ _ _, h => wfB_append sl ex _ h
  | .assign _ _ _ _, h => wfB_append sl ex _ h
  | .print _ _, h => wfB_append sl ex _ h
  | .read _ _, h => wfB_append sl ex _ h
  | .ifBlock _ _ _ _ _ _, h => wfB_append sl ex _ h
  | .select _ _ _ _ _, h => wfB_append sl ex _ h
  | .forLoop _ _ _ _ _ _ _, h => wfB_append sl ex _ h
  | .while _ _ _, h => wfB_append sl ex _ h
  | .doLoop _ _ _ _ _, h => wfB_append sl ex _ h
  | .end_ _, h => wfB_append sl ex _ h

/-! ### a checked body names only declared slots -/

theorem contains_false {zs : List Nat} {n x : Nat} (hzs : ∀ z, z ∈ zs → n ≤ z) (hx : x < n) : zs.contains x = false := by
  cases h : zs.contains x with
  | false => rfl
  | true =>
    have := hzs x (List.contains_iff_mem.mp h)
    omega

theorem contains_false_of_slot {zs : List Nat} {sl : List Ty} {x : Nat} {t : Ty} (hzs : ∀ z, z ∈ zs → sl.length ≤ z)
    (hx : sl[x]? = some t) : zs.contains x = false := contains_false hzs (lt_of_slot hx)

theorem usesE_below {zs : List Nat} {n : Nat} (hzs : ∀ z, z ∈ zs → n ≤ z) :
    ∀ e : Ast.Expr, slotsB n e = true → usesE zs e = false
  | .lit _ _, _ => rfl
  | .var x _ _, hs => by
    simp only [slotsB, decide_eq_true_eq] at hs
    simp only [usesE]; exact contains_false hzs hs
  | .un _ e _, hs => by
    simp only [slotsB] at hs
    simp only [usesE]; exact usesE_below hzs e hs
  | .bin _ l r _ _, hs => by
    simp only [slotsB, Bool.and_eq_true] at hs
    simp only [usesE, usesE_below hzs l hs.1, usesE_below hzs r hs.2, Bool.or_self]
  | .paren e _, hs => by
    simp only [slotsB] at hs
    simp only [usesE]; exact usesE_below hzs e hs

theorem usesItems_below {zs : List Nat} {n : Nat} (hzs : ∀ z, z ∈ zs → n ≤ z) :
    ∀ items : List PrintItem, itemsB n items = true → items.any (usesItem zs) = false
  | [], _ => rfl
  | .expr e :: rest, hs => by
    simp only [itemsB, Bool.and_eq_true] at hs
    simp only [List.any_cons, usesItem, usesE_below hzs e hs.1, usesItems_below hzs rest hs.2, Bool.or_self]
  | .comma :: rest, hs => by
    simp only [itemsB] at hs
    simp only [List.any_cons, usesItem, usesItems_below hzs rest hs, Bool.or_self]
  | .semicolon :: rest, hs => by
    simp only [itemsB] at hs
    simp only [List.any_cons, usesItem, usesItems_below hzs rest hs, Bool.or_self]

theorem usesCase_below {zs : List Nat} {n : Nat} (hzs : ∀ z, z ∈ zs → n ≤ z) :
    ∀ c : CaseExpr, caseB n c = true → usesCase zs c = false
  | .simple e, hs => by simp only [caseB] at hs; simp only [usesCase]; exact usesE_below hzs e hs
  | .is op e, hs => by
    simp only [caseB, Bool.and_eq_true] at hs; simp only [usesCase]; exact usesE_below hzs e hs.2
  | .range lo hi, hs => by
    simp only [caseB, Bool.and_eq_true] at hs
    simp only [usesCase, usesE_below hzs lo hs.1, usesE_below hzs hi hs.2, Bool.or_self]

theorem usesConds_below {zs : List Nat} {n : Nat} (hzs : ∀ z, z ∈ zs → n ≤ z) :
    ∀ cs : List CaseExpr, condsB n cs = true → cs.any (usesCase zs) = false
  | [], _ => rfl
  | c :: rest, hs => by
    simp only [condsB, Bool.and_eq_true] at hs
    simp only [List.any_cons, usesCase_below hzs c hs.1, usesConds_below hzs rest hs.2, Bool.or_self]

theorem usesRead_below {zs : List Nat} {sl : List Ty} (hzs : ∀ z, z ∈ zs → sl.length ≤ z) (p : Pos) :
    ∀ vars : List (Nat × Ty × Pos), readB sl vars = true → usesS zs (readSeq p vars) = false
  | [], _ => by simp only [readSeq, usesS]
  | (x, t, q) :: rest, hs => by
    simp only [readB, Bool.and_eq_true, decide_eq_true_eq] at hs
    simp only [readSeq, usesS, contains_false_of_slot hzs hs.1, usesRead_below hzs p rest hs.2, Bool.or_self]

mutual
theorem wfB_fresh {zs : List Nat} {sl : List Ty} (hzs : ∀ z, z ∈ zs → sl.length ≤ z) :
    ∀ st : SStmt, wfB sl st = true → usesS zs (desugar st) = false
  | .skip, _ => by simp only [desugar, usesS]
  | .comment, _ => by simp only [desugar, usesS]
  | .seq a b, h => by
    simp only [wfB, Bool.and_eq_true] at h
    simp only [desugar, usesS, wfB_fresh hzs a h.1, wfB_fresh hzs b h.2, Bool.or_self]
  | .dim x t _, h => by
    simp only [wfB, decide_eq_true_eq] at h
    simp only [desugar, usesS, usesE, contains_false_of_slot hzs h, Bool.or_self]
  | .assign x t e _, h => by
    simp only [wfB, Bool.and_eq_true, decide_eq_true_eq] at h
    simp only [desugar, usesS, contains_false_of_slot hzs h.1.1, usesE_below hzs e h.1.2, Bool.or_self]
  | .print items _, h => by
    simp only [wfB] at h
    simp only [desugar, usesS]; exact usesItems_below hzs items h
  | .ifBlock c thn elifs hasElse els p, h => by
    simp only [wfB, condB, Bool.and_eq_true] at h
    simp only [desugar, usesS, usesE_below hzs c h.1.1.1.1.1.1, wfB_fresh hzs thn h.1.1.1.2,
      wfElifsB_fresh hzs elifs (desugar els) p h.1.1.2 (wfB_fresh hzs els h.1.2), Bool.or_self]
  | .while c body _, h => by
    simp only [wfB, condB, Bool.and_eq_true] at h
    simp only [desugar, usesS, usesE_below hzs c h.1.1.1, wfB_fresh hzs body h.2, Bool.or_self]
  | .doLoop c _ _ body _, h => by
    simp only [wfB, condB, Bool.and_eq_true] at h
    simp only [desugar, usesS, usesE_below hzs c h.1.1.1, wfB_fresh hzs body h.2, Bool.or_self]
  | .end_ _, _ => by simp only [desugar, usesS]
  | .data _ _, _ => by simp only [desugar, usesS]
  | .read vars p, h => by
    simp only [wfB] at h
    simp only [desugar]; exact usesRead_below hzs p vars h
  | .select e cases hasElse els _, h => by
    simp only [wfB, Bool.and_eq_true] at h
    have htail : usesC zs (if hasElse = true then Cases.else_ (desugar els) else Cases.nil) = false := by
      cases hasElse
      · simp only [Bool.false_eq_true, if_false, usesC]
      · simp only [if_true, usesC]; exact wfB_fresh hzs els h.1.2
    simp only [desugar, usesS, usesE_below hzs e h.1.1.1, wfCasesB_fresh hzs cases _ h.1.1.2 htail, Bool.or_self]
  | .forLoop x t lo hi step body _, h => by
    simp only [wfB, Bool.and_eq_true, decide_eq_true_eq] at h
    have hst : usesStep zs step = false := by
      have hs := h.1.2
      cases step with
      | none => rfl
      | some se => simp only [usesStep]; exact usesE_below hzs se hs
    simp only [desugar, usesS, contains_false_of_slot hzs h.1.1.1.1.1, usesE_below hzs lo h.1.1.1.1.2,
      usesE_below hzs hi h.1.1.2, hst, wfB_fresh hzs body h.2, Bool.or_self]
theorem wfElifsB_fresh {zs : List Nat} {sl : List Ty} (hzs : ∀ z, z ∈ zs → sl.length ≤ z) :
    ∀ (el : ElseIfs) (els : Stmt) (p : Pos), wfElifsB sl el = true → usesS zs els = false →
      usesS zs (desugarElifs el els p) = false
  | .nil, els, p, _, he => by simp only [desugarElifs]; exact he
  | .cons c body rest, els, p, h, he => by
    simp only [wfElifsB, condB, Bool.and_eq_true] at h
    simp only [desugarElifs, usesS, usesE_below hzs c h.1.1.1.1, wfB_fresh hzs body h.1.2,
      wfElifsB_fresh hzs rest els p h.2 he, Bool.or_self]
theorem wfCasesB_fresh {zs : List Nat} {sl : List Ty} (hzs : ∀ z, z ∈ zs → sl.length ≤ z) :
    ∀ (cs : SCases) (tail : Cases), wfCasesB sl cs = true → usesC zs tail = false →
      usesC zs (desugarCases cs tail) = false
  | .nil, tail, _, ht => by simp only [desugarCases]; exact ht
  | .cons conds body rest, tail, h, ht => by
    simp only [wfCasesB, Bool.and_eq_true] at h
    simp only [desugarCases, usesC, usesConds_below hzs conds h.1.1.2, wfB_fresh hzs body h.1.2,
      wfCasesB_fresh hzs rest tail h.2 ht, Bool.or_self]
end

/-- a body the checker accepts over `sl` mentions no slot `≥ sl.length` -/
theorem wfTopB_fresh {zs : List Nat} {sl : List Ty} (hzs : ∀ z, z ∈ zs → sl.length ≤ z) :
    ∀ body : SStmt, wfTopB sl body = true → usesS zs (desugar body) = false
  | .seq a b, h => by
    simp only [wfTopB, Bool.and_eq_true] at h
    simp only [desugar, usesS, wfTopB_fresh hzs a h.1, wfTopB_fresh hzs b h.2, Bool.or_self]
  | .data _ _, _ => by simp only [desugar, usesS]
  | .skip, h => wfB_fresh hzs _ h
  | .comment, h => wfB_fresh hzs _ h
  | .dim _ _ _, h => wfB_fresh hzs _ h
  | .assign _ _ _ _, h => wfB_fresh hzs _ h
  | .print _ _, h => wfB_fresh hzs _ h
  | .read _ _, h => wfB_fresh hzs _ h
  | .ifBlock _ _ _ _ _ _, h => wfB_fresh hzs _ h
  | .select _ _ _ _ _, h => wfB_fresh hzs _ h
  | .forLoop _ _ _ _ _ _ _, h => wfB_fresh hzs _ h
  | .while _ _ _, h => wfB_fresh hzs _ h
  | .doLoop _ _ _ _ _, h => wfB_fresh hzs _ h
  | .end_ _, h => wfB_fresh hzs _ h

/-! ### 1b. the reference semantics in an extended environment -/

/-- the state with the block `ex` appended to the environment -/
def ext (ex : List Val) (s : St) : St := { s with env := s.env ++ ex }

def extR (ex : List Val) (r : St × Outcome) : St × Outcome := (ext ex r.1, r.2)

@[simp] theorem ext_env (ex : List Val) (s : St) : (ext ex s).env = s.env ++ ex := rfl
@[simp] theorem ext_out (ex : List Val) (s : St) : (ext ex s).out = s.out := rfl
@[simp] theorem ext_data (ex : List Val) (s : St) : (ext ex s).data = s.data := rfl
@[simp] theorem ext_dataIdx (ex : List Val) (s : St) : (ext ex s).dataIdx = s.dataIdx := rfl

/-- every slot outside `zs` lies outside the appended block `[n, n + k)` -/
def Fresh (zs : List Nat) (n k : Nat) : Prop := ∀ x, x ∉ zs → x < n ∨ n + k ≤ x

theorem fresh_range (n k : Nat) : Fresh (List.range' n k) n k := by
  intro x hx
  simp only [List.mem_range'_1, not_and, Nat.not_lt] at hx
  omega

theorem getElem?_ext {env ex : List Val} {x : Nat} (h : x < env.length ∨ env.length + ex.length ≤ x) :
    (env ++ ex)[x]? = env[x]? := by
  rcases h with h | h
  · exact List.getElem?_append_left h
  · rw [List.getElem?_eq_none (by simp only [List.length_append]; omega), List.getElem?_eq_none (by omega)]

theorem set_ext {env ex : List Val} {x : Nat} (v : Val) (h : x < env.length ∨ env.length + ex.length ≤ x) :
    (env ++ ex).set x v = env.set x v ++ ex := by
  rcases h with h | h
  · exact List.set_append_left _ _ h
  · rw [List.set_eq_of_length_le (by simp only [List.length_append]; omega), List.set_eq_of_length_le (by omega)]

theorem agree_ext {zs : List Nat} {n : Nat} {ex env : List Val} (hz : Fresh zs n ex.length) (hl : env.length = n) :
    ∀ x, x ∉ zs → (env ++ ex)[x]? = env[x]? :=
  fun x hx => getElem?_ext (by rw [hl]; exact hz x hx)

theorem ext_set {zs : List Nat} {n : Nat} {ex : List Val} (hz : Fresh zs n ex.length) {s : St} (hl : s.env.length = n)
    {x : Nat} (hx : x ∉ zs) (v : Val) : (ext ex s).set x v = ext ex (s.set x v) := by
  simp only [ext, St.set, set_ext v (show x < s.env.length ∨ s.env.length + ex.length ≤ x by rw [hl]; exact hz x hx)]

theorem set_len (s : St) (x : Nat) (v : Val) : (s.set x v).env.length = s.env.length := by
  simp only [St.set, List.length_set]

theorem evalTo_agree' {zs : List Nat} {env1 env2 : List Val} (h : ∀ x, x ∉ zs → env1[x]? = env2[x]?)
    {e : Ast.Expr} (hu : usesE zs e = false) (t : Ty) : evalTo env1 e t = evalTo env2 e t := by
  simp only [evalTo, eval_agree h e hu]

theorem evalCond_agree' {zs : List Nat} {env1 env2 : List Val} (h : ∀ x, x ∉ zs → env1[x]? = env2[x]?)
    {e : Ast.Expr} (hu : usesE zs e = false) : evalCond env1 e = evalCond env2 e := by
  simp only [evalCond, eval_agree h e hu]

theorem evalE_agree' {zs : List Nat} {env1 env2 : List Val} (h : ∀ x, x ∉ zs → env1[x]? = env2[x]?)
    {e : Ast.Expr} (hu : usesE zs e = false) : evalE env1 e = evalE env2 e := by
  simp only [evalE, eval_agree h e hu]

theorem caseMatches_agree' {zs : List Nat} {env1 env2 : List Val} (h : ∀ x, x ∉ zs → env1[x]? = env2[x]?)
    (p : Pos) (subj : Val) {c : CaseExpr} (hu : usesCase zs c = false) :
    caseMatches env1 p subj c = caseMatches env2 p subj c := by
  cases c with
  | simple e => simp only [caseMatches, evalE_agree' h (show usesE zs e = false by simpa [usesCase] using hu)]
  | is op e => simp only [caseMatches, evalE_agree' h (show usesE zs e = false by simpa [usesCase] using hu)]
  | range lo hi =>
    have hu' : usesE zs lo = false ∧ usesE zs hi = false := by simpa [usesCase] using hu
    simp only [caseMatches, evalE_agree' h hu'.1, evalE_agree' h hu'.2]

theorem anyMatches_agree' {zs : List Nat} {env1 env2 : List Val} (h : ∀ x, x ∉ zs → env1[x]? = env2[x]?)
    (p : Pos) (subj : Val) : ∀ conds : List CaseExpr, conds.any (usesCase zs) = false →
      anyMatches env1 p subj conds = anyMatches env2 p subj conds
  | [], _ => rfl
  | c :: rest, hu => by
      have hu' : usesCase zs c = false ∧ rest.any (usesCase zs) = false := by simpa using hu
      simp only [anyMatches, caseMatches_agree' h p subj hu'.1, anyMatches_agree' h p subj rest hu'.2]

/-- the extended run `r'` is the run `r` with `ex` appended to the environment, whose length is still `n` -/
structure Good (ex : List Val) (n : Nat) (r' r : St × Outcome) : Prop where
  eq : r' = extR ex r
  len : r.1.env.length = n

theorem good_andThen {ex : List Val} {n : Nat} {r' r : St × Outcome} {k' k : St → St × Outcome}
    (h : Good ex n r' r) (hk : ∀ s', s'.env.length = n → Good ex n (k' (ext ex s')) (k s')) :
    Good ex n (andThen r' k') (andThen r k) := by
  obtain ⟨s', o⟩ := r
  obtain ⟨rfl, hl⟩ := h
  by_cases ho : o = .normal
  · subst ho
    simp only [extR, andThen_normal]
    exact hk s' hl
  · rw [andThen_abort k ho, show extR ex (s', o) = (ext ex s', o) from rfl, andThen_abort k' ho]
    exact ⟨rfl, hl⟩

theorem printItems_ext {zs : List Nat} {n : Nat} {ex : List Val} (hz : Fresh zs n ex.length) :
    ∀ (items : List PrintItem) (s : St), items.any (usesItem zs) = false → s.env.length = n →
      Good ex n (printItems (ext ex s) items) (printItems s items)
  | [], s, _, hl => ⟨rfl, hl⟩
  | .comma :: rest, s, hu, hl => by
      simp only [printItems]
      exact printItems_ext hz rest { s with out := s.out.moveToNextPrintZone } (by simpa [usesItem] using hu) hl
  | .semicolon :: rest, s, hu, hl => by
      simp only [printItems]
      exact printItems_ext hz rest s (by simpa [usesItem] using hu) hl
  | .expr e :: rest, s, hu, hl => by
      have hu' : usesE zs e = false ∧ rest.any (usesItem zs) = false := by simpa [usesItem] using hu
      simp only [printItems, ext_env, eval_agree (agree_ext hz hl) e hu'.1]
      cases eval s.env e with
      | err c p => exact ⟨rfl, hl⟩
      | inexact => exact ⟨rfl, hl⟩
      | ok v =>
        simp only
        cases printValue v with
        | none => exact ⟨rfl, hl⟩
        | some pv => exact printItems_ext hz rest { s with out := s.out.print (Print.valueText pv) } hu'.2 hl

/-- the three statements proved together by induction on the fuel -/
def FrameAll (zs : List Nat) (n : Nat) (ex : List Val) (fuel : Nat) : Prop :=
  (∀ (st : Stmt) (s : St), usesS zs st = false → s.env.length = n →
    Good ex n (exec fuel st (ext ex s)) (exec fuel st s)) ∧
  (∀ (p : Pos) (subj : Val) (cs : Cases) (s : St), usesC zs cs = false → s.env.length = n →
    Good ex n (execCases fuel p subj cs (ext ex s)) (execCases fuel p subj cs s)) ∧
  (∀ (x : Nat) (t : Ty) (h sv : Val) (up : Bool) (body : Stmt) (p : Pos) (s : St), x ∉ zs → usesS zs body = false →
    s.env.length = n →
    Good ex n (forIter fuel x t h sv up body p (ext ex s)) (forIter fuel x t h sv up body p s))

theorem getD_ext {zs : List Nat} {n : Nat} {ex : List Val} (hz : Fresh zs n ex.length) {s : St} (hl : s.env.length = n)
    {x : Nat} (hx : x ∉ zs) (d : Val) : (s.env ++ ex).getD x d = s.env.getD x d := by
  simp only [List.getD_eq_getElem?_getD, agree_ext hz hl x hx]

theorem frame_all (zs : List Nat) (n : Nat) (ex : List Val) (hz : Fresh zs n ex.length) :
    ∀ fuel, FrameAll zs n ex fuel
  | 0 => by
    refine ⟨fun st s _ hl => ?_, fun p subj cs s _ hl => ?_, fun x t h sv up body p s _ _ hl => ?_⟩
    · simp only [exec]; exact ⟨rfl, hl⟩
    · simp only [execCases]; exact ⟨rfl, hl⟩
    · simp only [forIter]; exact ⟨rfl, hl⟩
  | fuel + 1 => by
    obtain ⟨ihS, ihC, ihF⟩ := frame_all zs n ex hz fuel
    refine ⟨?_, ?_, ?_⟩
    · intro st s hu hl
      have ha := agree_ext (env := s.env) hz hl
      cases st with
      | skip => simp only [exec]; exact ⟨rfl, hl⟩
      | end_ p => simp only [exec]; exact ⟨rfl, hl⟩
      | seq a b =>
        have h' : usesS zs a = false ∧ usesS zs b = false := by simpa [usesS] using hu
        rw [exec_seq, exec_seq]
        exact good_andThen (ihS a s h'.1 hl) (fun s' hl' => ihS b s' h'.2 hl')
      | assign x t e p =>
        have h' : zs.contains x = false ∧ usesE zs e = false := by simpa [usesS] using hu
        have hx := not_mem_of_contains h'.1
        simp only [exec, ext_env, evalTo_agree' ha h'.2]
        cases evalTo s.env e t with
        | ok v => exact ⟨by simp only [ext_set hz hl hx, extR], by rw [set_len]; exact hl⟩
        | err c q => exact ⟨rfl, hl⟩
        | inexact => exact ⟨rfl, hl⟩
      | print items p =>
        have h' : items.any (usesItem zs) = false := by simpa [usesS] using hu
        have hp := printItems_ext (ex := ex) hz items s h' hl
        simp only [exec]
        generalize printItems s items = r at hp ⊢
        obtain ⟨s', o⟩ := r
        rw [hp.eq]
        have hl' := hp.len
        cases o <;> simp only [extR] <;> try exact ⟨rfl, hl'⟩
        by_cases hsep : endsInSeparator items = true
        · simp only [hsep, if_true]; exact ⟨rfl, hl'⟩
        · simp only [hsep]; exact ⟨rfl, hl'⟩
      | read x t p =>
        have h' : zs.contains x = false := by simpa [usesS] using hu
        have hx := not_mem_of_contains h'
        simp only [exec, ext_data, ext_dataIdx]
        cases s.data[s.dataIdx]? with
        | none => exact ⟨rfl, hl⟩
        | some v =>
          simp only
          cases Num.cast v t with
          | ok w => exact ⟨by simp only [ext_set hz hl hx, extR]; rfl, by simp only [set_len]; exact hl⟩
          | err e => exact ⟨rfl, hl⟩
          | inexact => exact ⟨rfl, hl⟩
      | ifs c a b p =>
        have h' : (usesE zs c = false ∧ usesS zs a = false) ∧ usesS zs b = false := by simpa [usesS] using hu
        simp only [exec, ext_env, evalCond_agree' ha h'.1.1]
        cases evalCond s.env c with
        | error o => exact ⟨rfl, hl⟩
        | ok bv =>
          cases bv
          · exact ihS b s h'.2 hl
          · exact ihS a s h'.1.2 hl
      | select e cs p =>
        have h' : usesE zs e = false ∧ usesC zs cs = false := by simpa [usesS] using hu
        simp only [exec, ext_env, evalE_agree' ha h'.1]
        cases evalE s.env e with
        | error o => exact ⟨rfl, hl⟩
        | ok subj => exact ihC p subj cs s h'.2 hl
      | «while» c body p =>
        have h' : usesE zs c = false ∧ usesS zs body = false := by simpa [usesS] using hu
        rw [exec_while, exec_while]
        simp only [ext_env, evalCond_agree' ha h'.1]
        cases evalCond s.env c with
        | error o => exact ⟨rfl, hl⟩
        | ok bv =>
          cases bv
          · exact ⟨rfl, hl⟩
          · exact good_andThen (ihS body s h'.2 hl) (fun s' hl' => ihS _ s' hu hl')
      | doLoop c top u body p =>
        have h' : usesE zs c = false ∧ usesS zs body = false := by simpa [usesS] using hu
        cases top
        · rw [exec_doBottom, exec_doBottom]
          refine good_andThen (ihS body s h'.2 hl) (fun s' hl' => ?_)
          simp only [ext_env, evalCond_agree' (agree_ext (env := s'.env) hz hl') h'.1]
          cases evalCond s'.env c with
          | error o => exact ⟨rfl, hl'⟩
          | ok bv =>
            simp only
            by_cases hb : (bv != u) = true
            · simp only [hb, if_true]; exact ihS _ s' hu hl'
            · simp only [hb]; exact ⟨rfl, hl'⟩
        · rw [exec_doTop, exec_doTop]
          simp only [ext_env, evalCond_agree' ha h'.1]
          cases evalCond s.env c with
          | error o => exact ⟨rfl, hl⟩
          | ok bv =>
            simp only
            by_cases hb : (bv != u) = true
            · simp only [hb, if_true]
              exact good_andThen (ihS body s h'.2 hl) (fun s' hl' => ihS _ s' hu hl')
            · simp only [hb]; exact ⟨rfl, hl⟩
      | forLoop x t lo hi step body p =>
        have h' : (((zs.contains x = false ∧ usesE zs lo = false) ∧ usesE zs hi = false) ∧ usesStep zs step = false)
            ∧ usesS zs body = false := by simpa [usesS] using hu
        obtain ⟨⟨⟨⟨hx, hlo⟩, hhi⟩, hst⟩, hb⟩ := h'
        have hx := not_mem_of_contains hx
        simp only [exec, ext_env, evalTo_agree' ha hlo]
        cases evalTo s.env lo t with
        | err c q => exact ⟨rfl, hl⟩
        | inexact => exact ⟨rfl, hl⟩
        | ok l =>
          have hl1 : (s.set x l).env.length = n := by rw [set_len]; exact hl
          have ha1 := agree_ext (env := (s.set x l).env) hz hl1
          simp only [ext_set hz hl hx, ext_env, evalTo_agree' ha1 hhi]
          cases evalTo (s.set x l).env hi t with
          | err c q => exact ⟨rfl, hl1⟩
          | inexact => exact ⟨rfl, hl1⟩
          | ok h =>
            cases step with
            | none => exact ihF x t h (.int 1) true body p _ hx hb hl1
            | some se =>
              have hse : usesE zs se = false := by simpa [usesStep] using hst
              simp only [evalE_agree' ha1 hse]
              cases evalE (s.set x l).env se with
              | error o => exact ⟨rfl, hl1⟩
              | ok sv =>
                simp only
                cases stepSign p sv with
                | error o => exact ⟨rfl, hl1⟩
                | ok sg =>
                  cases sg
                  · exact ihF x t h sv false body p _ hx hb hl1
                  · exact ihF x t h sv true body p _ hx hb hl1
                  · exact ⟨rfl, hl1⟩
    · intro p subj cs s hu hl
      have ha := agree_ext (env := s.env) hz hl
      cases cs with
      | nil => simp only [execCases]; exact ⟨rfl, hl⟩
      | else_ body =>
        simp only [execCases]
        exact ihS body s (by simpa [usesC] using hu) hl
      | case conds body rest =>
        have h' : (conds.any (usesCase zs) = false ∧ usesS zs body = false) ∧ usesC zs rest = false := by
          simpa [usesC] using hu
        simp only [execCases, ext_env, anyMatches_agree' ha p subj conds h'.1.1]
        cases anyMatches s.env p subj conds with
        | error o => exact ⟨rfl, hl⟩
        | ok bv =>
          cases bv
          · exact ihC p subj rest s h'.2 hl
          · exact ihS body s h'.1.2 hl
    · intro x t h sv up body p s hx hb hl
      rw [forIter_succ, forIter_succ]
      simp only [ext_env, getD_ext hz hl hx]
      cases relTest p (if up = true then Op.lessOrEqual else Op.greaterOrEqual) (s.env.getD x (Ref.zeroOf t)) h with
      | error o => exact ⟨rfl, hl⟩
      | ok bv =>
        cases bv
        · exact ⟨rfl, hl⟩
        · refine good_andThen (ihS body s hb hl) (fun s' hl' => ?_)
          simp only [ext_env, getD_ext hz hl' hx]
          cases (plus (s'.env.getD x (Ref.zeroOf t)) sv).bind (fun v => Num.cast v t) with
          | ok v =>
            simp only [ext_set hz hl' hx]
            exact ihF x t h sv up body p _ hx hb (by rw [set_len]; exact hl')
          | err e => exact ⟨rfl, hl'⟩
          | inexact => exact ⟨rfl, hl'⟩

/-- **1b, statement level**: a statement that mentions no slot of the appended block `[n, n + ex.length)` runs the
same in the extended environment -/
theorem exec_ext {zs : List Nat} {n : Nat} {ex : List Val} (hz : Fresh zs n ex.length) (fuel : Nat) (st : Stmt) (s : St)
    (hu : usesS zs st = false) (hl : s.env.length = n) :
    exec fuel st (ext ex s) = extR ex (exec fuel st s) ∧ (exec fuel st s).1.env.length = n :=
  let h := (frame_all zs n ex hz fuel).1 st s hu hl
  ⟨h.eq, h.len⟩

/-- **1b, program level**: the reference run over the extended slot table is the reference run over the original
table with the zero values of the new slots appended to the environment (same outcome, same output) -/
theorem run_ext (P : SProgram) (extra : List Ty) (hw : wfTopB P.slots P.body = true) (fuel : Nat) :
    Ref.run fuel (extP P extra).toAst = extR (extra.map Ref.zeroOf) (Ref.run fuel P.toAst) ∧
      (Ref.run fuel P.toAst).1.env.length = P.slots.length := by
  rw [run_eq, run_eq]
  have hs : startSt (extP P extra) = ext (extra.map Ref.zeroOf) (startSt P) := by
    simp only [startSt, ext, extP, List.map_append]
  rw [hs]
  refine exec_ext (zs := List.range' P.slots.length extra.length) ?_ fuel _ _ ?_ ?_
  · rw [List.length_map]; exact fresh_range _ _
  · refine wfTopB_fresh ?_ _ hw
    intro z hz
    simp only [List.mem_range'_1] at hz
    exact hz.1
  · simp only [startSt, List.length_map]

theorem run_ext_finished (P : SProgram) (extra : List Ty) (hw : wfTopB P.slots P.body = true) (fuel : Nat) :
    Finished (Ref.run fuel (extP P extra).toAst).2 ↔ Finished (Ref.run fuel P.toAst).2 := by
  rw [(run_ext P extra hw fuel).1]; rfl

/-! ### 1c. the VM runs from the two initial states -/

/-- the run from the extended initial state ended as the run from the original one: both halted, same output, the
environment is the original one (of length `n`) with `ex` appended; or both stopped with the same error at the same
position with the same output -/
def VmEndExt (n : Nat) (ex : List Val) : RunRes → RunRes → Prop
  | .halted υ, .halted υ' => υ'.out = υ.out ∧ υ'.env = υ.env ++ ex ∧ υ.env.length = n
  | .error c p υ, .error c' p' υ' => c' = c ∧ p' = p ∧ υ'.out = υ.out
  | _, _ => False

/-- **1c**: `compile` does not look at the slot table; the code of an accepted program whose reference run finishes,
run from `Vm.init P.slots` and from `Vm.init (P.slots ++ extra)`, ends alike, the new slots still holding zeros -/
theorem vm_end_ext (P : SProgram) (extra : List Ty) (hw : wfTopB P.slots P.body = true) (fuel : Nat)
    (hfin : Finished (Ref.run fuel P.toAst).2) :
    ∃ n, ∀ m m', n ≤ m → n ≤ m' →
      VmEndExt P.slots.length (extra.map Ref.zeroOf) (CoreVm.run (compile P) m (Vm.init P.slots))
        (CoreVm.run (compile (extP P extra)) m' (Vm.init (extP P extra).slots)) := by
  have h := C01_run_correct P fuel (wfTopB_sound _ _ hw)
  have hq := C01_run_correct (extP P extra) fuel (wfTopB_sound _ _ (wfTopB_append _ extra _ hw))
  obtain ⟨he, hl⟩ := run_ext P extra hw fuel
  rw [he] at hq
  rcases hr : Ref.run fuel P.toAst with ⟨s', o⟩
  rw [hr] at h hq hfin hl
  simp only [extR] at hq
  cases o with
  | normal =>
    obtain ⟨n, υ, hn, hen, hon⟩ := h
    obtain ⟨n', υ', hn', hen', hon'⟩ := hq
    refine ⟨max n n', fun m m' hm hm' => ?_⟩
    rw [hn m (by omega), hn' m' (by omega)]
    exact ⟨by rw [hon, hon']; rfl, by rw [hen, hen']; rfl, by rw [hen]; exact hl⟩
  | halted =>
    obtain ⟨n, υ, hn, hen, hon⟩ := h
    obtain ⟨n', υ', hn', hen', hon'⟩ := hq
    refine ⟨max n n', fun m m' hm hm' => ?_⟩
    rw [hn m (by omega), hn' m' (by omega)]
    exact ⟨by rw [hon, hon']; rfl, by rw [hen, hen']; rfl, by rw [hen]; exact hl⟩
  | error c p =>
    obtain ⟨n, υ, hn, hon⟩ := h
    obtain ⟨n', υ', hn', hon'⟩ := hq
    refine ⟨max n n', fun m m' hm hm' => ?_⟩
    rw [hn m (by omega), hn' m' (by omega)]
    exact ⟨rfl, rfl, by rw [hon, hon']; rfl⟩
  | inexact => simp [Finished, finished] at hfin
  | outOfFuel => simp [Finished, finished] at hfin

/-! ### 2. programs over `P.slots` and `P.slots ++ extra` -/

/-- the two VM runs ended alike, the second over a slot table with `k` more slots: both halted with the same output
and the same value in every slot of the first (shorter) environment, or both stopped with a BASIC error of the same
code with the same output.  (`SameVmEnd` asks for environments of the same length.) -/
def SameVmEndExt (k : Nat) : RunRes → RunRes → Prop
  | .halted υ, .halted υ' =>
      υ.out = υ'.out ∧ υ'.env.length = υ.env.length + k ∧ ∀ x, x < υ.env.length → υ.env[x]? = υ'.env[x]?
  | .error c _ υ, .error c' _ υ' => c = c' ∧ υ.out = υ'.out
  | _, _ => False

theorem VmEndExt.trans {n : Nat} {ex : List Val} {zs : List Nat} {r rq r' : RunRes} (h : VmEndExt n ex r rq)
    (h' : SameVmEnd zs rq r') (hzs : ∀ z, z ∈ zs → n ≤ z) : SameVmEndExt ex.length r r' := by
  cases r <;> cases rq <;> simp only [VmEndExt] at h
  · cases r' <;> simp only [SameVmEnd] at h'
    obtain ⟨ho, he, hl⟩ := h
    obtain ⟨ho', hl', he'⟩ := h'
    refine ⟨by rw [← ho', ho], by rw [← hl', he, List.length_append], fun x hx => ?_⟩
    have hxz : x ∉ zs := fun hm => by have := hzs x hm; omega
    rw [← he' x hxz, he, List.getElem?_append_left hx]
  · cases r' <;> simp only [SameVmEnd] at h'
    obtain ⟨hc, _, ho⟩ := h
    obtain ⟨hc', ho'⟩ := h'
    exact ⟨by rw [← hc', hc], by rw [← ho', ho]⟩

theorem finished_of_oeq {o o' : Outcome} (h : OEq o o') (hf : Finished o) : Finished o' := by
  cases o <;> cases o' <;> simp_all [OEq, Finished, finished]

/-- **generic composition over two slot tables**: `P'` runs over `P.slots ++ extra`; the trees of `P` and `P'` are
equivalent over the extended table modulo temporaries `zs` that all lie in the appended block -/
theorem equivT_ext_same_vm_end (P P' : SProgram) (extra : List Ty) (zs : List Nat)
    (hsl : P'.slots = P.slots ++ extra) (hd : dataOf P'.body = dataOf P.body)
    (hzs : ∀ z, z ∈ zs → P.slots.length ≤ z ∧ z < P.slots.length + extra.length)
    (hw : wfTopB P.slots P.body = true) (hw' : wfTopB P'.slots P'.body = true)
    (heq : EquivT (P.slots ++ extra) (fun _ => True) zs (desugar P.body) (desugar P'.body))
    (fuel : Nat) (hfin : Finished (Ref.run fuel P.toAst).2 ∨ Finished (Ref.run fuel P'.toAst).2) :
    ∃ n, ∀ m m', n ≤ m → n ≤ m' →
      SameVmEndExt extra.length (CoreVm.run (compile P) m (Vm.init P.slots))
        (CoreVm.run (compile P') m' (Vm.init P'.slots)) := by
  have hwq : wfTopB (extP P extra).slots (extP P extra).body = true := wfTopB_append _ extra _ hw
  have hzq : ∀ z, z ∈ zs → z < (extP P extra).slots.length := by
    intro z hz
    simp only [extP, List.length_append]
    exact (hzs z hz).2
  -- the reference run over the extended table finishes, with some fuel
  have hf1 : ∃ f1, Finished (Ref.run f1 (extP P extra).toAst).2 := by
    rcases hfin with hfin | hfin
    · exact ⟨fuel, (run_ext_finished P extra hw fuel).2 hfin⟩
    · rcases hr : Ref.run fuel P'.toAst with ⟨s1', o⟩
      rw [hr] at hfin
      have hnf : Outcome.isFuel o = false := by cases o <;> simp [Finished, finished, Outcome.isFuel] at hfin ⊢
      have ht1 : Typed (P.slots ++ extra) (startSt P').env := by
        have := typed_init P'.slots
        rw [hsl] at this
        simpa [startSt, hsl] using this
      have ht2 : Typed (P.slots ++ extra) (startSt (extP P extra)).env := typed_init (P.slots ++ extra)
      have hst : StEq zs (startSt P') (startSt (extP P extra)) :=
        startSt_stEq (P := P') (P' := extP P extra) hsl.symm hd.symm (by rw [hsl]; exact hzq)
      obtain ⟨fuel', s2', o', he', _, ho'⟩ :=
        heq.2 fuel (startSt P') (startSt (extP P extra)) s1' o ht1 ht2 trivial hst (by rw [← run_eq]; exact hr) hnf
      refine ⟨fuel', ?_⟩
      rw [run_eq]
      have he'' : exec fuel' (desugar (extP P extra).body) (startSt (extP P extra)) = (s2', o') := he'
      rw [he'']
      exact finished_of_oeq ho' hfin
  obtain ⟨f1, hf1⟩ := hf1
  obtain ⟨n1, h1⟩ := equivT_same_vm_end (extP P extra) P' zs (fun _ => True) hsl hd hzq hwq hw' heq trivial trivial
    f1 (.inl hf1)
  obtain ⟨n2, h2⟩ := vm_end_ext P extra hw f1 ((run_ext_finished P extra hw f1).1 hf1)
  refine ⟨max n1 n2, fun m m' hm hm' => ?_⟩
  have := (h2 m (max n1 n2) (by omega) (by omega)).trans (h1 (max n1 n2) m' (by omega) (by omega))
    (fun z hz => (hzs z hz).1)
  simpa only [List.length_map] using this

theorem exprWt_append {sl : List Ty} (ex : List Ty) : ∀ e : Ast.Expr, ExprWt sl e → ExprWt (sl ++ ex) e
  | .lit _ _, _ => trivial
  | .var x t _, h => by simp only [ExprWt] at h ⊢; exact get_append h
  | .un _ e _, h => by simp only [ExprWt] at h ⊢; exact exprWt_append ex e h
  | .bin op l r t _, h => by
    simp only [ExprWt] at h ⊢
    exact ⟨exprWt_append ex l h.1, exprWt_append ex r h.2.1, h.2.2⟩
  | .paren e _, h => by simp only [ExprWt] at h ⊢; exact exprWt_append ex e h

/-- **`C02_rewriteAt_select_if_preserves_output`** — the driver's `rewriteAt "select-if"` on the tree the driver sees
(`P.toAst`): if it answers the tree of `P'` and the types `extra` of the temporaries, and `P'` runs over
`P.slots ++ extra` (as the driver builds it), both accepted, same DATA, and the reference run of either finishes, then
both VM runs end alike on every slot of `P`. -/
theorem C02_rewriteAt_select_if_preserves_output (P P' : SProgram) (idx : Nat) (extra : List Ty)
    (happ : Drv.Rewrite.rewriteAt "select-if" idx P.toAst = some (some (desugar P'.body, extra)))
    (hsl : P'.slots = P.slots ++ extra) (hd : dataOf P'.body = dataOf P.body)
    (hw : wfTopB P.slots P.body = true) (hw' : wfTopB P'.slots P'.body = true)
    (fuel : Nat) (hfin : Finished (Ref.run fuel P.toAst).2 ∨ Finished (Ref.run fuel P'.toAst).2) :
    ∃ n, ∀ m m', n ≤ m → n ≤ m' →
      SameVmEndExt extra.length (CoreVm.run (compile P) m (Vm.init P.slots))
        (CoreVm.run (compile P') m' (Vm.init P'.slots)) := by
  simp only [Drv.Rewrite.rewriteAt, SProgram.toAst] at happ
  split at happ
  · rename_i c e cs p hsite
    split at happ
    · rename_i hwf
      simp only [Option.some.injEq, Prod.mk.injEq] at happ
      obtain ⟨hP', rfl⟩ := happ
      have hzs : ∀ z, z ∈ [P.slots.length] → P.slots.length ≤ z := by
        intro z hz; simp only [List.mem_singleton] at hz; omega
      have hfr := ctx_uses_of_fresh (siteAt_fill hsite).1 (wfTopB_fresh hzs _ hw)
      have hresp : Respelling [P.slots.length] (.select e cs p)
          (.seq (.assign P.slots.length e.ty e p) (chain P.slots.length e.ty p cs)) :=
        .selectIf rfl hfr.2 (by intro e' cs' p' h; cases h; exact hwf)
      have heq := exec_congr hresp.equiv c hfr.1
      rw [(siteAt_fill hsite).1, hP'] at heq
      refine equivT_ext_same_vm_end P P' [e.ty] [P.slots.length] hsl hd ?_ hw hw'
        ⟨sim_toSimT heq.1 _, sim_toSimT heq.2 _⟩ fuel hfin
      intro z hz
      simp only [List.mem_singleton] at hz
      simp only [List.length_singleton]; omega
    · simp at happ
  · simp at happ
  · simp at happ

/-- **`C02_rewriteAt_for_while_preserves_output`** — the driver's `rewriteAt "for-while"`: the site is the `idx`-th
FOR (`hsite`, which names its parts), the rule answers the tree of `P'` and the types of the two temporaries, `P'`
runs over `P.slots ++ extra`.  Side conditions as in `C02_for_while_preserves_output`: the limit and the step are
well typed (`wfTopB` checks only their slots), the step is not zero in any well-typed state. -/
theorem C02_rewriteAt_for_while_preserves_output (P P' : SProgram) (idx : Nat) (extra : List Ty) {c : Ctx}
    {x : Nat} {t : Ty} {lo hi : Ast.Expr} {step : Option Ast.Expr} {body : Stmt} {p : Pos}
    (hsite : siteAt .for_ idx (desugar P.body) = some (c, .forLoop x t lo hi step body p))
    (happ : Drv.Rewrite.rewriteAt "for-while" idx P.toAst = some (some (desugar P'.body, extra)))
    (hwhi : ExprWt P.slots hi) (hwst : ∀ se, step = some se → ExprWt P.slots se)
    (hnz : ∀ s, Typed (P.slots ++ extra) s.env → StepNonZero x t lo (stepE step p) p s)
    (hsl : P'.slots = P.slots ++ extra) (hd : dataOf P'.body = dataOf P.body)
    (hw : wfTopB P.slots P.body = true) (hw' : wfTopB P'.slots P'.body = true)
    (fuel : Nat) (hfin : Finished (Ref.run fuel P.toAst).2 ∨ Finished (Ref.run fuel P'.toAst).2) :
    ∃ n, ∀ m m', n ≤ m → n ≤ m' →
      SameVmEndExt extra.length (CoreVm.run (compile P) m (Vm.init P.slots))
        (CoreVm.run (compile P') m' (Vm.init P'.slots)) := by
  simp only [Drv.Rewrite.rewriteAt, SProgram.toAst, hsite] at happ
  split at happ
  · rename_i tres htres
    cases hft : forToWhile P.slots.length (P.slots.length + 1) tres (.forLoop x t lo hi step body p) with
    | none => simp [hft] at happ
    | some st' =>
      simp only [hft, Option.map_some, Option.some.injEq, Prod.mk.injEq] at happ
      obtain ⟨hP', rfl⟩ := happ
      have hzs : ∀ z, z ∈ [P.slots.length, P.slots.length + 1] → P.slots.length ≤ z := by
        intro z hz; simp only [List.mem_cons, List.not_mem_nil, or_false] at hz; omega
      have hfr := ctx_uses_of_fresh (siteAt_fill hsite).1 (wfTopB_fresh hzs _ hw)
      have hwa : WfA (P.slots ++ [t, stepTy step]) (c.fill (.forLoop x t lo hi step body p)) := by
        rw [(siteAt_fill hsite).1]; exact wfA_top _ _ (wfTopB_sound _ _ (wfTopB_append _ _ _ hw))
      have hwa' : WfA (P.slots ++ [t, stepTy step]) (c.fill st') := by
        rw [hP', ← hsl]; exact wfA_top _ _ (wfTopB_sound _ _ hw')
      have heq := for_eq_while_in_context (sl := P.slots ++ [t, stepTy step]) hft (by omega) hfr.2
        (exprWt_append _ hi hwhi) (fun se hse => exprWt_append _ se (hwst se hse))
        (by simp) (by simp) htres hnz c hfr.1 hwa hwa'
      rw [(siteAt_fill hsite).1, hP'] at heq
      refine equivT_ext_same_vm_end P P' [t, stepTy step] [P.slots.length, P.slots.length + 1] hsl hd ?_ hw hw'
        heq fuel hfin
      intro z hz
      simp only [List.mem_cons, List.not_mem_nil, or_false] at hz
      simp only [List.length_cons, List.length_nil]; omega
  · simp at happ

/-- ... with the premises on the step discharged for the shapes without a step temporary: FOR without STEP, FOR with
a non-zero whole-number literal STEP -/
theorem C02_rewriteAt_for_while_preserves_output_static (P P' : SProgram) (idx : Nat) (extra : List Ty) {c : Ctx}
    {x : Nat} {t : Ty} {lo hi : Ast.Expr} {step : Option Ast.Expr} {body : Stmt} {p : Pos}
    (hsite : siteAt .for_ idx (desugar P.body) = some (c, .forLoop x t lo hi step body p))
    (happ : Drv.Rewrite.rewriteAt "for-while" idx P.toAst = some (some (desugar P'.body, extra)))
    (hst : step = none ∨ ∃ v q up, step = some (.lit v q) ∧ constSign v = some up)
    (hwhi : ExprWt P.slots hi)
    (hsl : P'.slots = P.slots ++ extra) (hd : dataOf P'.body = dataOf P.body)
    (hw : wfTopB P.slots P.body = true) (hw' : wfTopB P'.slots P'.body = true)
    (fuel : Nat) (hfin : Finished (Ref.run fuel P.toAst).2 ∨ Finished (Ref.run fuel P'.toAst).2) :
    ∃ n, ∀ m m', n ≤ m → n ≤ m' →
      SameVmEndExt extra.length (CoreVm.run (compile P) m (Vm.init P.slots))
        (CoreVm.run (compile P') m' (Vm.init P'.slots)) := by
  refine C02_rewriteAt_for_while_preserves_output P P' idx extra hsite happ hwhi ?_
    (fun s _ => stepNonZero_static x t lo step p hst s) hsl hd hw hw' fuel hfin
  intro se hse
  rcases hst with rfl | ⟨v, q, up, rfl, _⟩
  · cases hse
  · cases hse; trivial

/-! ### non-vacuity -/

/-- `SELECT CASE X% : CASE 1 TO 3 : PRINT "a" : CASE ELSE : PRINT "b" : END SELECT` behind `X% = 2`, over the slot
table `[X%]`; the driver's `select-if` answers the IF chain with the temporary in the new slot 1 -/
private def pa : SStmt := .print [.expr (.lit (.str ['a']) ⟨3, 7⟩)] ⟨3, 1⟩
private def pb : SStmt := .print [.expr (.lit (.str ['b']) ⟨5, 7⟩)] ⟨5, 1⟩
private def selS : SStmt :=
  .select (.var 0 .int ⟨2, 13⟩) (.cons [.range (.lit (.int 1) ⟨3, 6⟩) (.lit (.int 3) ⟨3, 11⟩)] pa .nil) true pb ⟨2, 1⟩
private def chainS : SStmt :=
  .seq (.assign 1 .int (.var 0 .int ⟨2, 13⟩) ⟨2, 1⟩)
    (.ifBlock (relE .greaterOrEqual 1 .int (.lit (.int 1) ⟨3, 6⟩) ⟨2, 1⟩)
      (.ifBlock (relE .lessOrEqual 1 .int (.lit (.int 3) ⟨3, 11⟩) ⟨2, 1⟩) pa .nil true pb ⟨2, 1⟩) .nil true pb ⟨2, 1⟩)
private def sAround (st : SStmt) : SStmt := .seq (.assign 0 .int (.lit (.int 2) ⟨1, 5⟩) ⟨1, 1⟩) (.seq st .skip)
private def sP : SProgram := ⟨[.int], sAround selS⟩
private def sP' : SProgram := ⟨[.int, .int], sAround chainS⟩

example : Drv.Rewrite.rewriteAt "select-if" 0 sP.toAst = some (some (desugar sP'.body, [.int])) ∧
    sP'.slots = sP.slots ++ [.int] ∧ dataOf sP'.body = dataOf sP.body ∧
    wfTopB sP.slots sP.body = true ∧ wfTopB sP'.slots sP'.body = true ∧
    Finished (Ref.run 100 sP.toAst).2 ∧ Finished (Ref.run 100 sP'.toAst).2 ∧
    (Ref.run 100 (extP sP [.int]).toAst).1.env = (Ref.run 100 sP.toAst).1.env ++ [.int 0] :=
  ⟨rfl, rfl, rfl, by decide +kernel, by decide +kernel, by decide +kernel, by decide +kernel, by decide +kernel⟩

/-- the theorem applied: its hypotheses hold of `sP`, `sP'` -/
example : ∃ n, ∀ m m', n ≤ m → n ≤ m' →
    SameVmEndExt 1 (CoreVm.run (compile sP) m (Vm.init sP.slots)) (CoreVm.run (compile sP') m' (Vm.init sP'.slots)) :=
  C02_rewriteAt_select_if_preserves_output sP sP' 0 [.int] rfl rfl rfl (by decide +kernel) (by decide +kernel) 100
    (.inl (by decide +kernel))

/-- `FOR X% = 1 TO 3 : PRINT X% : NEXT` inside `X% = 0 : IF 1 THEN … END IF`, over the slot table `[X%]`; the driver's
`for-while` answers `X% = 1 : ZL% = 3 : WHILE X% <= ZL% : PRINT X% : X% = X% + 1 : WEND` in the same place, with the
limit temporary in the new slot 1 and the (here unused) step temporary in the new slot 2 -/
private def q0 : Pos := ⟨1, 1⟩
private def fbody : SStmt := .print [.expr (.var 0 .int ⟨2, 7⟩)] ⟨2, 1⟩
private def forS : SStmt := .forLoop 0 .int (.lit (.int 1) ⟨1, 10⟩) (.lit (.int 3) ⟨1, 15⟩) none fbody q0
private def whileS : SStmt :=
  .seq (.assign 0 .int (.lit (.int 1) ⟨1, 10⟩) q0) (.seq (.assign 1 .int (.lit (.int 3) ⟨1, 15⟩) q0)
    (.while (.bin .lessOrEqual (.var 0 .int q0) (.var 1 .int q0) .int q0)
      (.seq fbody (.assign 0 .int (.bin .plus (.var 0 .int q0) (.lit (.int 1) q0) .int q0) q0)) q0))
private def around (loop : SStmt) : SStmt :=
  .seq (.assign 0 .int (.lit (.int 0) ⟨1, 5⟩) ⟨1, 1⟩)
    (.seq (.ifBlock (.lit (.int 1) ⟨2, 4⟩) (.seq loop .skip) .nil false .skip ⟨2, 1⟩) .skip)
private def aroundC : Ctx :=
  .seqR (.assign 0 .int (.lit (.int 0) ⟨1, 5⟩) ⟨1, 1⟩)
    (.seqL (.ifThen (.lit (.int 1) ⟨2, 4⟩) (.seqL .hole .skip) .skip ⟨2, 1⟩) .skip)
private def fP : SProgram := ⟨[.int], around forS⟩
private def fP' : SProgram := ⟨[.int, .int, .int], around whileS⟩

example : siteAt .for_ 0 (desugar fP.body) = some (aroundC, desugar forS) ∧
    Drv.Rewrite.rewriteAt "for-while" 0 fP.toAst = some (some (desugar fP'.body, [.int, .int])) ∧
    fP'.slots = fP.slots ++ [.int, .int] ∧ dataOf fP'.body = dataOf fP.body ∧
    ExprWt fP.slots (.lit (.int 3) ⟨1, 15⟩) ∧
    wfTopB fP.slots fP.body = true ∧ wfTopB fP'.slots fP'.body = true ∧
    Finished (Ref.run 100 fP.toAst).2 ∧ Finished (Ref.run 100 fP'.toAst).2 :=
  ⟨rfl, rfl, rfl, rfl, trivial, by decide +kernel, by decide +kernel, by decide +kernel, by decide +kernel⟩

/-- the theorem applied: its hypotheses hold of `fP`, `fP'` -/
example : ∃ n, ∀ m m', n ≤ m → n ≤ m' →
    SameVmEndExt 2 (CoreVm.run (compile fP) m (Vm.init fP.slots)) (CoreVm.run (compile fP') m' (Vm.init fP'.slots)) :=
  C02_rewriteAt_for_while_preserves_output_static fP fP' 0 [.int, .int] (c := aroundC)
    (x := 0) (t := .int) (lo := .lit (.int 1) ⟨1, 10⟩) (hi := .lit (.int 3) ⟨1, 15⟩) (step := none)
    (body := desugar fbody) (p := q0) rfl rfl (.inl rfl) trivial rfl rfl (by decide +kernel) (by decide +kernel) 100
    (.inr (by decide +kernel))

end RbThm.C02Slots
