import Thm.ErrLSimBase
/-!
Error layer, simulation part, whole programs — definitions and structural lemmas (port of the first half of
`Thm/JmpLSimProg.lean`): the premise `ProgWf`, the body with its top-level DATA statements replaced by comments (`strip`),
which desugars to the same program and has — statement by statement, address by address, entry by entry of the
statement-address table — the code of the reordered body behind the DATA prefix; the keys of the label tables.
-/
namespace RbThm.ErrLSim
set_option linter.unusedVariables false
set_option linter.unusedSimpArgs false
open RbModel RbModel.Num RbModel.ErrL RbModel.ErrL.Compile RbModel.ErrL.Vm
open RbModel.JmpL.Compile (CInstr Code labelName compileExpr compileExprTo storeVar loadVar compileItems compileConds
  sizeCaseExpr sizeItems sizeConds Dp lookupNat lookupDepth stepSuffix maxPos)
open RbModel.JmpL.Vm (Vm truncTop Regs)
open RbModel.Ast (Pos PrintItem CaseExpr)
open RbModel.Ref (St)
open RbModel.ErrL.Ref
open RbThm.ErrLLen
open RbThm.C01Sim (Typed SlotsBelow ExprWt NumericAt NumericCond ItemsSlots CaseSlots CondsSlots)

/-- a program body: DATA statements may occur only at top level (where the generator hoists them from); everything else is
well formed at depth 0 / 0 -/
def WfTop (sl : List Ty) (dp : Dp) : SStmt → Prop
  | .seq a b => WfTop sl dp a ∧ WfTop sl dp b
  | .data _ _ => True
  | st => Wf sl dp true 0 0 st

/-- the depths the generator records for the labels of a program (`collect_label_depths` does not care about the order of
the top-level statements) -/
def dpOf (prog : SProgram) : Dp := Dp.ofTable (depthTable 0 0 prog.body)

/-- the premise of the program theorem (decided by `ErrL.progWfXB`: `Thm/ErrLWf.lean`).  The flag `rl` of `Wf` ("the program
contains a RESUME label") is taken as `true`: the stack-cut invariant `CutInv` then holds along every run, whether or not a
RESUME label occurs. -/
def ProgWf (prog : SProgram) : Prop :=
  WfTop prog.slots (dpOf prog) prog.body ∧ prog.body.labels.Nodup

/-- the top-level DATA statements, in program order -/
def datas (body : SStmt) : List SStmt := (topLevel body).filter isData

/-- the other top-level statements, in program order -/
def others (body : SStmt) : List SStmt := (topLevel body).filter (fun s => !isData s)

/-- the body with its top-level DATA statements replaced by comments -/
def strip : SStmt → SStmt
  | .seq a b => .seq (strip a) (strip b)
  | .data _ _ => .comment
  | st => st

theorem compile_eq (prog : SProgram) :
    compile prog = compileStmt (envOf (reorder prog.body)) "" 0 0 0 (seqOf (datas prog.body ++ others prog.body)) ++
      [(.base .halt, maxPos)] := rfl

/-! ### induction over the top-level structure -/

theorem top_induction {P : SStmt → Prop} (hseq : ∀ a b, P a → P b → P (.seq a b))
    (hatom : ∀ st, (∀ a b, st ≠ .seq a b) → P st) : ∀ st, P st
  | .seq a b => hseq a b (top_induction hseq hatom a) (top_induction hseq hatom b)
  | .skip => hatom _ (by intro a b h; cases h)
  | .comment => hatom _ (by intro a b h; cases h)
  | .dim _ _ _ => hatom _ (by intro a b h; cases h)
  | .assign _ _ _ _ => hatom _ (by intro a b h; cases h)
  | .print _ _ => hatom _ (by intro a b h; cases h)
  | .data _ _ => hatom _ (by intro a b h; cases h)
  | .read _ _ => hatom _ (by intro a b h; cases h)
  | .ifBlock _ _ _ _ _ _ => hatom _ (by intro a b h; cases h)
  | .select _ _ _ _ _ => hatom _ (by intro a b h; cases h)
  | .forLoop _ _ _ _ _ _ _ => hatom _ (by intro a b h; cases h)
  | .while _ _ _ => hatom _ (by intro a b h; cases h)
  | .doLoop _ _ _ _ _ => hatom _ (by intro a b h; cases h)
  | .end_ _ => hatom _ (by intro a b h; cases h)
  | .label _ _ _ => hatom _ (by intro a b h; cases h)
  | .goto _ _ => hatom _ (by intro a b h; cases h)
  | .gosub _ _ => hatom _ (by intro a b h; cases h)
  | .ret _ => hatom _ (by intro a b h; cases h)
  | .onErrorGoto _ _ => hatom _ (by intro a b h; cases h)
  | .onErrorResumeNext _ => hatom _ (by intro a b h; cases h)
  | .onErrorGoto0 _ => hatom _ (by intro a b h; cases h)
  | .resume _ => hatom _ (by intro a b h; cases h)
  | .resumeNext _ => hatom _ (by intro a b h; cases h)
  | .resumeLabel _ _ => hatom _ (by intro a b h; cases h)

theorem others_seq (a b : SStmt) : others (.seq a b) = others a ++ others b := by
  simp only [others, topLevel, List.filter_append]

theorem datas_seq (a b : SStmt) : datas (.seq a b) = datas a ++ datas b := by
  simp only [datas, topLevel, List.filter_append]

/-- an atom of the top-level structure that is neither `skip` nor DATA is its own list of "other" statements -/
theorem atom_cases (st : SStmt) (hns : ∀ a b, st ≠ .seq a b) :
    (st = .skip ∧ others st = [] ∧ datas st = []) ∨ ((∃ items p, st = .data items p) ∧ others st = [] ∧ datas st = [st]) ∨
      (others st = [st] ∧ datas st = [] ∧ strip st = st ∧ isData st = false) := by
  cases st with
  | seq a b => exact absurd rfl (hns a b)
  | skip => left; simp [others, datas, topLevel]
  | data items p => right; left; exact ⟨⟨items, p, rfl⟩, by simp [others, datas, topLevel, isData]⟩
  | _ => right; right; simp [others, datas, topLevel, isData, strip]

/-! ### `seqOf` of an append: code, sizes, tables -/

theorem size_seqOf_append (dp : Dp) (l1 l2 : List SStmt) :
    sizeStmt dp 0 0 (seqOf (l1 ++ l2)) = sizeStmt dp 0 0 (seqOf l1) + sizeStmt dp 0 0 (seqOf l2) := by
  induction l1 with
  | nil => simp [seqOf, sizeStmt]
  | cons a rest ih => simp only [List.cons_append, seqOf, sizeStmt, ih]; omega

theorem code_seqOf_append (env : LEnv) (sfx : String) : ∀ (l1 l2 : List SStmt) (off : Nat),
    compileStmt env sfx 0 0 off (seqOf (l1 ++ l2)) =
      compileStmt env sfx 0 0 off (seqOf l1) ++ compileStmt env sfx 0 0 (off + sizeStmt env.dp 0 0 (seqOf l1)) (seqOf l2) := by
  intro l1
  induction l1 with
  | nil => intro l2 off; simp [seqOf, compileStmt, sizeStmt]
  | cons a rest ih =>
    intro l2 off
    simp only [List.cons_append, seqOf, compileStmt, sizeStmt, ih, List.append_assoc, Nat.add_assoc]

theorem addr_seqOf_append (dp : Dp) : ∀ (l1 l2 : List SStmt) (off : Nat),
    addrTable dp 0 0 off (seqOf (l1 ++ l2)) =
      addrTable dp 0 0 off (seqOf l1) ++ addrTable dp 0 0 (off + sizeStmt dp 0 0 (seqOf l1)) (seqOf l2) := by
  intro l1
  induction l1 with
  | nil => intro l2 off; simp [seqOf, addrTable, sizeStmt]
  | cons a rest ih =>
    intro l2 off
    simp only [List.cons_append, seqOf, addrTable, sizeStmt, ih, List.append_assoc, Nat.add_assoc]

theorem depth_seqOf_append : ∀ (l1 l2 : List SStmt),
    depthTable 0 0 (seqOf (l1 ++ l2)) = depthTable 0 0 (seqOf l1) ++ depthTable 0 0 (seqOf l2) := by
  intro l1
  induction l1 with
  | nil => intro l2; simp [seqOf, depthTable]
  | cons a rest ih => intro l2; simp only [List.cons_append, seqOf, depthTable, ih, List.append_assoc]

theorem datas_isData (body : SStmt) : ∀ x ∈ datas body, isData x = true := by
  intro x hx
  simp only [datas, List.mem_filter] at hx
  exact hx.2

theorem addr_datas (dp : Dp) : ∀ (l : List SStmt), (∀ x ∈ l, isData x = true) → ∀ off, addrTable dp 0 0 off (seqOf l) = [] := by
  intro l
  induction l with
  | nil => intro _ off; simp [seqOf, addrTable]
  | cons a rest ih =>
    intro h off
    have ha := h a (by simp)
    cases a <;> simp [isData] at ha
    simp only [seqOf, addrTable, List.nil_append]
    exact ih (fun x hx => h x (by simp [hx])) _

theorem depth_datas : ∀ (l : List SStmt), (∀ x ∈ l, isData x = true) → depthTable 0 0 (seqOf l) = [] := by
  intro l
  induction l with
  | nil => intro _; simp [seqOf, depthTable]
  | cons a rest ih =>
    intro h
    have ha := h a (by simp)
    cases a <;> simp [isData] at ha
    simp only [seqOf, depthTable, List.nil_append]
    exact ih (fun x hx => h x (by simp [hx]))

/-! ### `strip body` against `seqOf (others body)` -/

theorem size_strip (dp : Dp) : ∀ b : SStmt, sizeStmt dp 0 0 (strip b) = sizeStmt dp 0 0 (seqOf (others b)) := by
  refine top_induction ?_ ?_
  · intro a b iha ihb
    rw [others_seq, size_seqOf_append, ← iha, ← ihb]
    simp only [strip, sizeStmt]
  · intro st hns
    rcases atom_cases st hns with ⟨rfl, ho, _⟩ | ⟨⟨items, p, rfl⟩, ho, _⟩ | ⟨ho, _, hs, _⟩
    · rw [ho]; simp [strip, seqOf, sizeStmt]
    · rw [ho]; simp [strip, seqOf, sizeStmt]
    · rw [ho, hs]; simp [seqOf, sizeStmt]

theorem code_strip (env : LEnv) (sfx : String) : ∀ (b : SStmt) (off : Nat),
    compileStmt env sfx 0 0 off (strip b) = compileStmt env sfx 0 0 off (seqOf (others b)) := by
  refine top_induction ?_ ?_
  · intro a b iha ihb off
    rw [others_seq, code_seqOf_append, ← iha, ← ihb, ← size_strip]
    simp only [strip, compileStmt]
  · intro st hns off
    rcases atom_cases st hns with ⟨rfl, ho, _⟩ | ⟨⟨items, p, rfl⟩, ho, _⟩ | ⟨ho, _, hs, _⟩
    · rw [ho]; simp [strip, seqOf, compileStmt]
    · rw [ho]; simp [strip, seqOf, compileStmt]
    · rw [ho, hs]; simp [seqOf, compileStmt]

theorem addr_strip (dp : Dp) : ∀ (b : SStmt) (off : Nat),
    addrTable dp 0 0 off (strip b) = addrTable dp 0 0 off (seqOf (others b)) := by
  refine top_induction ?_ ?_
  · intro a b iha ihb off
    rw [others_seq, addr_seqOf_append, ← iha, ← ihb, ← size_strip]
    simp only [strip, addrTable]
  · intro st hns off
    rcases atom_cases st hns with ⟨rfl, ho, _⟩ | ⟨⟨items, p, rfl⟩, ho, _⟩ | ⟨ho, _, hs, _⟩
    · rw [ho]; simp [strip, seqOf, addrTable]
    · rw [ho]; simp [strip, seqOf, addrTable]
    · rw [ho, hs]; simp [seqOf, addrTable]

theorem depth_strip : ∀ (b : SStmt), depthTable 0 0 (strip b) = depthTable 0 0 b := by
  refine top_induction ?_ ?_
  · intro a b iha ihb
    simp only [strip, depthTable, iha, ihb]
  · intro st hns
    rcases atom_cases st hns with ⟨rfl, _, _⟩ | ⟨⟨items, p, rfl⟩, _, _⟩ | ⟨_, _, hs, _⟩
    · rfl
    · rfl
    · rw [hs]

theorem depth_others : ∀ (b : SStmt), depthTable 0 0 (seqOf (others b)) = depthTable 0 0 b := by
  refine top_induction ?_ ?_
  · intro a b iha ihb
    rw [others_seq, depth_seqOf_append, iha, ihb]
    simp only [depthTable]
  · intro st hns
    rcases atom_cases st hns with ⟨rfl, ho, _⟩ | ⟨⟨items, p, rfl⟩, ho, _⟩ | ⟨ho, _, _, _⟩
    · rw [ho]; rfl
    · rw [ho]; rfl
    · rw [ho]; simp [seqOf, depthTable]

theorem labels_strip : ∀ (b : SStmt), (strip b).labels = b.labels := by
  refine top_induction ?_ ?_
  · intro a b iha ihb
    simp only [strip, SStmt.labels, iha, ihb]
  · intro st hns
    rcases atom_cases st hns with ⟨rfl, _, _⟩ | ⟨⟨items, p, rfl⟩, _, _⟩ | ⟨_, _, hs, _⟩
    · rfl
    · rfl
    · rw [hs]

theorem desugar_strip : ∀ (b : SStmt), desugar (strip b) = desugar b := by
  refine top_induction ?_ ?_
  · intro a b iha ihb
    simp only [strip, desugar, iha, ihb]
  · intro st hns
    rcases atom_cases st hns with ⟨rfl, _, _⟩ | ⟨⟨items, p, rfl⟩, _, _⟩ | ⟨_, _, hs, _⟩
    · rfl
    · rfl
    · rw [hs]

theorem wf_strip (sl : List Ty) (dp : Dp) : ∀ (b : SStmt), WfTop sl dp b → Wf sl dp true 0 0 (strip b) := by
  refine top_induction ?_ ?_
  · intro a b iha ihb hw
    simp only [WfTop] at hw
    simp only [strip, Wf]
    exact ⟨iha hw.1, ihb hw.2⟩
  · intro st hns hw
    cases st with
    | seq a b => exact absurd rfl (hns a b)
    | data items p => simp only [strip, Wf]
    | _ => simpa only [WfTop, strip] using hw

/-- the depth table of the reordered body is that of the body -/
theorem depth_reorder (body : SStmt) : depthTable 0 0 (reorder body) = depthTable 0 0 body := by
  show depthTable 0 0 (seqOf (datas body ++ others body)) = _
  rw [depth_seqOf_append, depth_datas _ (datas_isData body), depth_others]
  rfl

/-! ### the label tables under `Wf`: the keys are the labels -/

mutual
theorem addr_keys (sl : List Ty) (dp : Dp) : ∀ (s : SStmt) (d e off : Nat), Wf sl dp true d e s →
    (addrTable dp d e off s).map Prod.fst = s.labels
  | .seq a b, d, e, off, h => by
    simp only [addrTable, SStmt.labels, List.map_append, addr_keys sl dp a d e _ h.1, addr_keys sl dp b d e _ h.2]
  | .ifBlock c thn elifs hasElse els p, d, e, off, h => by
    obtain ⟨_, _, h1, h2, h3, h4⟩ := h
    simp only [addrTable, SStmt.labels, List.map_append, addr_keys sl dp thn d e _ h1, addr_keys_elifs sl dp elifs d e _ h2]
    cases hasElse with
    | false => rw [h4 rfl]; simp [SStmt.labels]
    | true => simp [addr_keys sl dp els d e _ h3]
  | .select sel cases hasElse els p, d, e, off, h => by
    obtain ⟨_, h1, h2, h3, _⟩ := h
    simp only [addrTable, SStmt.labels, List.map_append, addr_keys_cases sl dp cases d (e + 1) _ h1]
    cases hasElse with
    | false => rw [h3 rfl]; simp [SStmt.labels]
    | true => simp [addr_keys sl dp els d (e + 1) _ h2]
  | .forLoop x t lo hi step body p, d, e, off, h => by
    obtain ⟨_, _, _, _, h5, h6, _⟩ := h
    cases step with
    | none => simp only [addrTable, SStmt.labels]; exact addr_keys sl dp body (d + 1) e _ h6
    | some se =>
      have hb := (h5 se rfl).2
      simp only [addrTable, SStmt.labels, List.map_append, addr_keys sl dp body (d + 1) e _ h6, hb, List.append_nil]
  | .while c body p, d, e, off, h => by simp only [addrTable, SStmt.labels]; exact addr_keys sl dp body d e _ h.2.2
  | .doLoop c top u body p, d, e, off, h => by
    simp only [addrTable, SStmt.labels]
    split <;> exact addr_keys sl dp body d e _ h.2.2
  | .label L name p, _, _, _, _ => by simp [addrTable, SStmt.labels]
  | .skip, _, _, _, _ => by simp [addrTable, SStmt.labels]
  | .comment, _, _, _, _ => by simp [addrTable, SStmt.labels]
  | .dim _ _ _, _, _, _, _ => by simp [addrTable, SStmt.labels]
  | .assign _ _ _ _, _, _, _, _ => by simp [addrTable, SStmt.labels]
  | .print _ _, _, _, _, _ => by simp [addrTable, SStmt.labels]
  | .data _ _, _, _, _, _ => by simp [addrTable, SStmt.labels]
  | .read _ _, _, _, _, _ => by simp [addrTable, SStmt.labels]
  | .end_ _, _, _, _, _ => by simp [addrTable, SStmt.labels]
  | .goto _ _, _, _, _, _ => by simp [addrTable, SStmt.labels]
  | .gosub _ _, _, _, _, _ => by simp [addrTable, SStmt.labels]
  | .ret _, _, _, _, _ => by simp [addrTable, SStmt.labels]
  | .onErrorGoto _ _, _, _, _, _ => by simp [addrTable, SStmt.labels]
  | .onErrorResumeNext _, _, _, _, _ => by simp [addrTable, SStmt.labels]
  | .onErrorGoto0 _, _, _, _, _ => by simp [addrTable, SStmt.labels]
  | .resume _, _, _, _, _ => by simp [addrTable, SStmt.labels]
  | .resumeNext _, _, _, _, _ => by simp [addrTable, SStmt.labels]
  | .resumeLabel _ _, _, _, _, _ => by simp [addrTable, SStmt.labels]
theorem addr_keys_elifs (sl : List Ty) (dp : Dp) : ∀ (el : ElseIfs) (d e off : Nat), WfElifs sl dp true d e el →
    (addrElifs dp d e off el).map Prod.fst = el.labels
  | .nil, _, _, _, _ => by simp [addrElifs, ElseIfs.labels]
  | .cons c body rest, d, e, off, h => by
    obtain ⟨_, _, h1, h2⟩ := h
    simp only [addrElifs, ElseIfs.labels, List.map_append, addr_keys sl dp body d e _ h1,
      addr_keys_elifs sl dp rest d e _ h2]
theorem addr_keys_cases (sl : List Ty) (dp : Dp) : ∀ (cs : SCases) (d e off : Nat), WfCases sl dp true d e cs →
    (addrCases dp d e off cs).map Prod.fst = cs.labels
  | .nil, _, _, _, _ => by simp [addrCases, SCases.labels]
  | .cons conds body rest, d, e, off, h => by
    obtain ⟨_, _, _, h1, h2⟩ := h
    simp only [addrCases, SCases.labels, List.map_append, addr_keys sl dp body d e _ h1,
      addr_keys_cases sl dp rest d e _ h2]
end

mutual
theorem depth_keys : ∀ (s : SStmt) (d e : Nat), (depthTable d e s).map Prod.fst = s.labels
  | .seq a b, d, e => by simp only [depthTable, SStmt.labels, List.map_append, depth_keys a, depth_keys b]
  | .ifBlock c thn elifs hasElse els p, d, e => by
    simp only [depthTable, SStmt.labels, List.map_append, depth_keys thn, depth_keys_elifs elifs, depth_keys els,
      List.append_assoc]
  | .select sel cases hasElse els p, d, e => by
    simp only [depthTable, SStmt.labels, List.map_append, depth_keys_cases cases, depth_keys els]
  | .forLoop x t lo hi step body p, d, e => by simp only [depthTable, SStmt.labels, depth_keys body]
  | .while c body p, d, e => by simp only [depthTable, SStmt.labels, depth_keys body]
  | .doLoop c top u body p, d, e => by simp only [depthTable, SStmt.labels, depth_keys body]
  | .label L name p, _, _ => by simp [depthTable, SStmt.labels]
  | .skip, _, _ => by simp [depthTable, SStmt.labels]
  | .comment, _, _ => by simp [depthTable, SStmt.labels]
  | .dim _ _ _, _, _ => by simp [depthTable, SStmt.labels]
  | .assign _ _ _ _, _, _ => by simp [depthTable, SStmt.labels]
  | .print _ _, _, _ => by simp [depthTable, SStmt.labels]
  | .data _ _, _, _ => by simp [depthTable, SStmt.labels]
  | .read _ _, _, _ => by simp [depthTable, SStmt.labels]
  | .end_ _, _, _ => by simp [depthTable, SStmt.labels]
  | .goto _ _, _, _ => by simp [depthTable, SStmt.labels]
  | .gosub _ _, _, _ => by simp [depthTable, SStmt.labels]
  | .ret _, _, _ => by simp [depthTable, SStmt.labels]
  | .onErrorGoto _ _, _, _ => by simp [depthTable, SStmt.labels]
  | .onErrorResumeNext _, _, _ => by simp [depthTable, SStmt.labels]
  | .onErrorGoto0 _, _, _ => by simp [depthTable, SStmt.labels]
  | .resume _, _, _ => by simp [depthTable, SStmt.labels]
  | .resumeNext _, _, _ => by simp [depthTable, SStmt.labels]
  | .resumeLabel _ _, _, _ => by simp [depthTable, SStmt.labels]
theorem depth_keys_elifs : ∀ (el : ElseIfs) (d e : Nat), (depthElifs d e el).map Prod.fst = el.labels
  | .nil, _, _ => by simp [depthElifs, ElseIfs.labels]
  | .cons c body rest, d, e => by
    simp only [depthElifs, ElseIfs.labels, List.map_append, depth_keys body, depth_keys_elifs rest]
theorem depth_keys_cases : ∀ (cs : SCases) (d e : Nat), (depthCases d e cs).map Prod.fst = cs.labels
  | .nil, _, _ => by simp [depthCases, SCases.labels]
  | .cons conds body rest, d, e => by
    simp only [depthCases, SCases.labels, List.map_append, depth_keys body, depth_keys_cases rest]
end

/-- in an association list without repeated keys every entry is the one a lookup finds -/
theorem lookupNat_of_mem : ∀ (tbl : List (Nat × Nat)), (tbl.map Prod.fst).Nodup → ∀ L a, (L, a) ∈ tbl →
    lookupNat L tbl = some a := by
  intro tbl
  induction tbl with
  | nil => intro _ L a h; simp at h
  | cons x rest ih =>
    intro hn L a hm
    obtain ⟨k, v⟩ := x
    simp only [List.map_cons, List.nodup_cons] at hn
    simp only [lookupNat]
    simp only [List.mem_cons, Prod.mk.injEq] at hm
    rcases hm with ⟨rfl, rfl⟩ | hm
    · simp
    · have : k ≠ L := by
        intro hk; subst hk
        exact hn.1 (List.mem_map.mpr ⟨(k, a), hm, rfl⟩)
      simp only [this, if_false]
      exact ih hn.2 L a hm

theorem lookupDepth_of_mem : ∀ (tbl : List (Nat × Nat × Nat)), (tbl.map Prod.fst).Nodup → ∀ L v, (L, v) ∈ tbl →
    lookupDepth L tbl = some v := by
  intro tbl
  induction tbl with
  | nil => intro _ L a h; simp at h
  | cons x rest ih =>
    intro hn L a hm
    obtain ⟨k, v⟩ := x
    simp only [List.map_cons, List.nodup_cons] at hn
    simp only [lookupDepth]
    simp only [List.mem_cons, Prod.mk.injEq] at hm
    rcases hm with ⟨rfl, rfl⟩ | hm
    · simp
    · have : k ≠ L := by
        intro hk; subst hk
        exact hn.1 (List.mem_map.mpr ⟨(k, a), hm, rfl⟩)
      simp only [this, if_false]
      exact ih hn.2 L a hm

theorem lookupDepth_some_mem : ∀ (tbl : List (Nat × Nat × Nat)) (L : Nat) (v : Nat × Nat), lookupDepth L tbl = some v →
    L ∈ tbl.map Prod.fst := by
  intro tbl
  induction tbl with
  | nil => intro L v h; simp [lookupDepth] at h
  | cons x rest ih =>
    intro L v h
    obtain ⟨k, w⟩ := x
    simp only [lookupDepth] at h
    by_cases hk : k = L
    · simp [hk]
    · simp only [hk, if_false] at h
      simp only [List.map_cons, List.mem_cons]
      exact .inr (ih L v h)

/-! ### the statement-address table of the reordered body -/

theorem marks_seqOf_append (dp : Dp) : ∀ (l1 l2 : List SStmt) (off : Nat),
    marksStmt dp 0 0 off (seqOf (l1 ++ l2)) =
      marksStmt dp 0 0 off (seqOf l1) ++ marksStmt dp 0 0 (off + sizeStmt dp 0 0 (seqOf l1)) (seqOf l2) := by
  intro l1
  induction l1 with
  | nil => intro l2 off; simp [seqOf, marksStmt, sizeStmt]
  | cons a rest ih =>
    intro l2 off
    simp only [List.cons_append, seqOf, marksStmt, sizeStmt, ih, List.append_assoc, Nat.add_assoc]

theorem marks_strip (dp : Dp) : ∀ (b : SStmt) (off : Nat),
    marksStmt dp 0 0 off (strip b) = marksStmt dp 0 0 off (seqOf (others b)) := by
  refine top_induction ?_ ?_
  · intro a b iha ihb off
    rw [others_seq, marks_seqOf_append, ← iha, ← ihb, ← size_strip]
    simp only [strip, marksStmt]
  · intro st hns off
    rcases atom_cases st hns with ⟨rfl, ho, _⟩ | ⟨⟨items, p, rfl⟩, ho, _⟩ | ⟨ho, _, hs, _⟩
    · rw [ho]; simp [strip, seqOf, marksStmt]
    · rw [ho]; simp [strip, seqOf, marksStmt]
    · rw [ho, hs]; simp [seqOf, marksStmt, sizeStmt]

/-- the entries of the stripped body sit in the program's table behind the entries of the DATA statements and are followed
by the final `Halt` -/
theorem marks_prog (prog : SProgram) :
    MarksAt (Compile.marks prog)
      (marksStmt (depthsOf (reorder prog.body)) 0 0 (sizeStmt (depthsOf (reorder prog.body)) 0 0 (seqOf (datas prog.body)))
        (strip prog.body))
      (sizeStmt (depthsOf (reorder prog.body)) 0 0 (seqOf (datas prog.body)) +
        sizeStmt (depthsOf (reorder prog.body)) 0 0 (strip prog.body)) := by
  refine ⟨marksStmt (depthsOf (reorder prog.body)) 0 0 0 (seqOf (datas prog.body)), [], ?_⟩
  show marksStmt _ 0 0 0 (seqOf (datas prog.body ++ others prog.body)) ++ [sizeStmt _ 0 0 (seqOf (datas prog.body ++ others prog.body))] = _
  rw [marks_seqOf_append, size_seqOf_append, Nat.zero_add, ← marks_strip, ← size_strip]

theorem casesNE_seqOf : ∀ (l : List SStmt), (∀ x ∈ l, CasesNE x) → CasesNE (seqOf l)
  | [], _ => trivial
  | a :: rest, h => ⟨h a (by simp), casesNE_seqOf rest (fun x hx => h x (by simp [hx]))⟩

theorem casesNE_topLevel (sl : List Ty) (dp : Dp) : ∀ (b : SStmt), WfTop sl dp b → ∀ x ∈ topLevel b, CasesNE x := by
  refine top_induction ?_ ?_
  · intro a b iha ihb hw x hx
    simp only [WfTop] at hw
    simp only [topLevel, List.mem_append] at hx
    rcases hx with hx | hx
    · exact iha hw.1 x hx
    · exact ihb hw.2 x hx
  · intro st hns hw x hx
    cases st with
    | seq a b => exact absurd rfl (hns a b)
    | skip => simp [topLevel] at hx
    | data items p => simp only [topLevel, List.mem_singleton] at hx; subst hx; trivial
    | _ =>
      simp only [topLevel, List.mem_singleton] at hx
      subst hx
      exact casesNE_of_wf sl dp true _ 0 0 (by simpa only [WfTop] using hw)

/-- every CASE of the reordered body has an item: the program's statement-address table is strictly ascending -/
theorem casesNE_reorder (sl : List Ty) (dp : Dp) (body : SStmt) (hw : WfTop sl dp body) : CasesNE (reorder body) := by
  refine casesNE_seqOf _ ?_
  intro x hx
  have h := casesNE_topLevel sl dp body hw
  simp only [List.mem_append, List.mem_filter] at hx
  rcases hx with hx | hx
  · exact h x hx.1
  · exact h x hx.1

end RbThm.ErrLSim
