import RbModel.Expr
/-!
C10 — expressions group by standard precedence; literals keep exact value and type.

Part 1 (grouping).  `Canon` is the declarative reading of the property: a tree respects precedence and
left associativity.  `climbToks` (textbook precedence climbing) rebuilds every `Canon` tree from its
in-order token list (`climbToks_yield`), hence `Canon` trees are determined by their in-order yield
(`canonical_unique`).  The parser's rotations never reorder tokens (`binaryExpr_inorder`,
`applyUnary_inorder`) and, when the rotation predicates are the rank comparisons, keep trees
canonical (`binaryExpr_canonical`, `applyUnary_canonical`); the extracted predicates *are* the rank
comparisons (`table_is_rank_order`, `table_unary_is_rank_order`, by `decide` over the tables written
from the real code).  Hence `parseChain_eq_climb`.

Part 2 (literals): `dec_narrowest`, `dec_type_by_magnitude`, `narrowest_is_least`, `neg_literal_fold` here;
`hex_oct_value` in `Thm/C10Lit.lean`.
-/
namespace RbThm.C10
open RbModel.Expr

/-! ## Specification vocabulary -/

/-- In-order token list of a tree; parenthesised sub-trees and leaves are single operand tokens. -/
def yield : Tree → List Tok
  | .leaf n => [.opd (.leaf n)]
  | .paren t => [.opd (.paren t)]
  | .un u t => .un u :: yield t
  | .bin o l r => yield l ++ .bin o :: yield r

/-- A rank above every operator's. -/
def top : Nat := 100

/-- Rank of the root if it is a binary operator, else `top`: what an operator on the *left* of the
tree competes with. -/
def lrank : Tree → Nat
  | .bin o _ _ => rankB o
  | _ => top

/-- The lowest level at which an operator arriving on the *right* of the tree would be captured by
something inside it: a binary node `o` on the right spine captures ranks above `rankB o`
(left associativity), a prefix operator `u` on the right spine captures ranks `≥ rankU u`. -/
def cap : Tree → Nat
  | .leaf _ => top + 1
  | .paren _ => top + 1
  | .un u t => min (rankU u) (cap t)
  | .bin o _ r => min (rankB o + 1) (cap r)

/-- The tree respects precedence and left associativity: the right operand of `o` is headed by a
strictly tighter operator (or a prefix operator / atom), nothing at the right edge of the left operand
would have captured `o`, the operand of a prefix operator is headed by a tighter operator. Inside
parentheses anything goes (they are parsed separately). -/
def Canon : Tree → Prop
  | .leaf _ => True
  | .paren _ => True
  | .un u t => Canon t ∧ rankU u ≤ lrank t
  | .bin o l r => Canon l ∧ Canon r ∧ rankB o < cap l ∧ rankB o < lrank r

instance : (t : Tree) → Decidable (Canon t)
  | .leaf _ => isTrue trivial
  | .paren _ => isTrue trivial
  | .un u t => by unfold Canon; exact @instDecidableAnd _ _ (instDecidableCanon t) _
  | .bin o l r => by
      unfold Canon
      exact @instDecidableAnd _ _ (instDecidableCanon l) (@instDecidableAnd _ _ (instDecidableCanon r) _)

theorem rankB_lt_top (o : Op) : rankB o < top := by cases o <;> decide
theorem rankB_pos (o : Op) : 0 < rankB o := by cases o <;> decide
theorem rankU_lt_top (u : UOp) : rankU u < top := by cases u <;> decide

theorem cap_le_lrank (t : Tree) : cap t ≤ lrank t + 1 := by
  cases t with
  | leaf n => simp [cap, lrank]
  | paren t => simp [cap, lrank]
  | un u t => simp only [cap, lrank]; have := rankU_lt_top u; omega
  | bin o l r => simp only [cap, lrank]; omega

/-! ## The rotations never reorder operands -/

theorem binaryExpr_inorder (sf : Op → Op → Bool) (r : Tree) :
    ∀ (l : Tree) (o : Op), yield (binaryExpr sf l o r) = yield l ++ .bin o :: yield r := by
  induction r with
  | leaf n => intro l o; simp [binaryExpr, yield]
  | paren t _ => intro l o; simp [binaryExpr, yield]
  | un u t _ => intro l o; simp [binaryExpr, yield]
  | bin ro rl rr ihl ihr =>
    intro l o
    unfold binaryExpr
    split
    · rw [ihr, ihl]; simp [yield]
    · simp [yield]

theorem applyUnary_inorder (sf : Op → Op → Bool) (su : UOp → Op → Bool) (u : UOp) (t : Tree) :
    yield (applyUnary sf su u t) = .un u :: yield t := by
  induction t with
  | leaf n => simp [applyUnary, yield]
  | paren t _ => simp [applyUnary, yield]
  | un v t _ => simp [applyUnary, yield]
  | bin ro rl rr ihl _ =>
    unfold applyUnary
    split
    · rw [binaryExpr_inorder, ihl]; simp [yield]
    · simp [yield]

/-! ## With rank-order predicates the rotations keep trees canonical -/

/-- The binary rotation predicate is the rank comparison (equal ranks rotate: left associativity). -/
def RankOrderB (sf : Op → Op → Bool) : Prop := ∀ l r, sf l r = decide (rankB r ≤ rankB l)

/-- The unary predicate is the rank comparison. -/
def RankOrderU (su : UOp → Op → Bool) : Prop := ∀ u r, su u r = decide (rankB r < rankU u)

theorem binaryExpr_canonical_aux {sf : Op → Op → Bool} (hsf : RankOrderB sf) (r : Tree) :
    ∀ (l : Tree) (o : Op), Canon l → Canon r → rankB o < cap l →
      Canon (binaryExpr sf l o r) ∧ min (rankB o + 1) (cap r) ≤ cap (binaryExpr sf l o r) := by
  induction r with
  | leaf n =>
    intro l o hl _ hc
    have := rankB_lt_top o
    simp [binaryExpr, Canon, cap, lrank, hl, hc, this]
  | paren t _ =>
    intro l o hl _ hc
    have := rankB_lt_top o
    simp [binaryExpr, Canon, cap, lrank, hl, hc, this]
  | un u t _ =>
    intro l o hl hr hc
    have := rankB_lt_top o
    simp [binaryExpr, Canon, cap, lrank, hl, hc, this]
    exact hr
  | bin ro rl rr ihl ihr =>
    intro l o hl hr hc
    obtain ⟨hrl, hrr, h1, h2⟩ := hr
    unfold binaryExpr
    rw [hsf]
    by_cases hflip : rankB ro ≤ rankB o
    · simp only [hflip, decide_true, if_true]
      obtain ⟨c1, b1⟩ := ihl l o hl hrl hc
      have hc2 : rankB ro < cap (binaryExpr sf l o rl) := by omega
      obtain ⟨c2, b2⟩ := ihr _ ro c1 hrr hc2
      refine ⟨c2, ?_⟩
      simp only [cap] at b2 ⊢
      omega
    · simp only [hflip, decide_false, Bool.false_eq_true, if_false]
      refine ⟨⟨hl, ⟨hrl, hrr, h1, h2⟩, hc, ?_⟩, ?_⟩
      · simp only [lrank]; omega
      · simp only [cap]; omega

/-- Inserting a new left operand `l o ·` in front of a canonical tree yields a canonical tree. -/
theorem binaryExpr_canonical {sf : Op → Op → Bool} (hsf : RankOrderB sf) (l : Tree) (o : Op) (r : Tree)
    (hl : Canon l) (hr : Canon r) (hc : rankB o < cap l) : Canon (binaryExpr sf l o r) :=
  (binaryExpr_canonical_aux hsf r l o hl hr hc).1

theorem applyUnary_canonical_aux {sf : Op → Op → Bool} {su : UOp → Op → Bool}
    (hsf : RankOrderB sf) (hsu : RankOrderU su) (u : UOp) (t : Tree) :
    Canon t → Canon (applyUnary sf su u t) ∧ min (rankU u) (cap t) ≤ cap (applyUnary sf su u t) := by
  induction t with
  | leaf n => intro _; have := rankU_lt_top u; simp [applyUnary, Canon, cap, lrank]; omega
  | paren t _ => intro _; have := rankU_lt_top u; simp [applyUnary, Canon, cap, lrank]; omega
  | un v t _ =>
    intro h; have := rankU_lt_top u
    simp only [applyUnary, Canon, cap, lrank]
    exact ⟨⟨h, by omega⟩, Nat.le_refl _⟩
  | bin ro rl rr ihl _ =>
    intro h
    obtain ⟨hrl, hrr, h1, h2⟩ := h
    unfold applyUnary
    rw [hsu]
    by_cases hflip : rankB ro < rankU u
    · simp only [hflip, decide_true, if_true]
      obtain ⟨c1, b1⟩ := ihl hrl
      have hc2 : rankB ro < cap (applyUnary sf su u rl) := by omega
      obtain ⟨c2, b2⟩ := binaryExpr_canonical_aux hsf rr _ ro c1 hrr hc2
      refine ⟨c2, ?_⟩
      simp only [cap] at b2 ⊢
      omega
    · simp only [hflip, decide_false, Bool.false_eq_true, if_false]
      refine ⟨⟨⟨hrl, hrr, h1, h2⟩, ?_⟩, ?_⟩
      · simp only [lrank]; omega
      · simp only [cap]; omega

/-- Putting a prefix operator in front of a canonical tree yields a canonical tree. -/
theorem applyUnary_canonical {sf : Op → Op → Bool} {su : UOp → Op → Bool}
    (hsf : RankOrderB sf) (hsu : RankOrderU su) (u : UOp) (t : Tree) (h : Canon t) :
    Canon (applyUnary sf su u t) :=
  (applyUnary_canonical_aux hsf hsu u t h).1

/-! ## Precedence climbing rebuilds every canonical tree from its tokens -/

/-- Number of tokens. -/
def size : Tree → Nat
  | .leaf _ => 1
  | .paren _ => 1
  | .un _ t => size t + 1
  | .bin _ l r => size l + size r + 1

/-- Fuel the climber spends before it holds the tree as the left operand of its loop. -/
def depthL : Tree → Nat
  | .bin _ l _ => depthL l + 1
  | _ => 1

theorem yield_length (t : Tree) : (yield t).length = size t := by
  induction t with
  | leaf n => rfl
  | paren t _ => rfl
  | un u t ih => simp [yield, size, ih]
  | bin o l r ihl ihr => simp [yield, size, ihl, ihr]; omega

theorem depthL_le_size (t : Tree) : depthL t ≤ size t := by
  induction t with
  | leaf n => simp [depthL, size]
  | paren t _ => simp [depthL, size]
  | un u t _ => simp [depthL, size]
  | bin o l r ihl _ => simp only [depthL, size]; omega

theorem depthL_pos (t : Tree) : 1 ≤ depthL t := by
  cases t <;> simp [depthL]

/-- The next token is not a binary operator of rank ≥ `lvl`. -/
def Stops (lvl : Nat) (rest : List Tok) : Prop := ∀ o ts, rest = .bin o :: ts → rankB o < lvl

theorem Stops.mono {a b : Nat} {rest : List Tok} (h : Stops a rest) (hab : a ≤ b) : Stops b rest :=
  fun o ts e => Nat.lt_of_lt_of_le (h o ts e) hab

theorem loop_stop (f m : Nat) (t : Tree) (rest : List Tok) (h : Stops m rest) :
    loop (f + 1) m t rest = some (t, rest) := by
  cases rest with
  | nil => simp [loop]
  | cons tk ts =>
    cases tk with
    | opd a => simp [loop]
    | un u => simp [loop]
    | bin o =>
      have := h o ts rfl
      have hn : ¬ m ≤ rankB o := by omega
      simp [loop, hn]

theorem expr_yield (t : Tree) :
    ∀ (F m : Nat) (rest : List Tok), Canon t → m ≤ lrank t → Stops (cap t) rest → 2 * size t + 1 ≤ F →
      expr F m (yield t ++ rest) = loop (F - depthL t) m t rest := by
  induction t with
  | leaf n =>
    intro F m rest _ _ _ hF
    obtain ⟨F2, rfl⟩ : ∃ F2, F = F2 + 2 := ⟨F - 2, by simp only [size] at hF; omega⟩
    simp [yield, expr, prim, depthL]
  | paren t _ =>
    intro F m rest _ _ _ hF
    obtain ⟨F2, rfl⟩ : ∃ F2, F = F2 + 2 := ⟨F - 2, by simp only [size] at hF; omega⟩
    simp [yield, expr, prim, depthL]
  | un u e ih =>
    intro F m rest hc _ hs hF
    obtain ⟨hce, hle⟩ := hc
    simp only [size] at hF
    obtain ⟨F2, rfl⟩ : ∃ F2, F = F2 + 2 := ⟨F - 2, by omega⟩
    have hse : Stops (cap e) rest := hs.mono (by simp only [cap]; omega)
    have hsu : Stops (rankU u) rest := hs.mono (by simp only [cap]; omega)
    have he := ih F2 (rankU u) rest hce hle hse (by omega)
    have hd := depthL_le_size e
    obtain ⟨K, hK⟩ : ∃ K, F2 - depthL e = K + 1 := ⟨F2 - depthL e - 1, by omega⟩
    rw [hK, loop_stop _ _ _ _ hsu] at he
    simp only [yield, List.cons_append, expr, prim, he, depthL]
    rfl
  | bin o l r ihl ihr =>
    intro F m rest hc hm hs hF
    obtain ⟨hcl, hcr, h1, h2⟩ := hc
    simp only [size] at hF
    simp only [lrank] at hm
    have hdl := depthL_le_size l
    have hdr := depthL_le_size r
    have hpl := depthL_pos l
    have hll := cap_le_lrank l
    have e1 : yield (.bin o l r) ++ rest = yield l ++ (.bin o :: (yield r ++ rest)) := by
      simp [yield]
    have hsl : Stops (cap l) (.bin o :: (yield r ++ rest)) := by
      intro o' ts e; cases e; exact h1
    rw [e1, ihl F m _ hcl (by omega) hsl (by omega)]
    obtain ⟨G, hG⟩ : ∃ G, F - depthL l = G + 1 := ⟨F - depthL l - 1, by omega⟩
    have hsr : Stops (cap r) rest := hs.mono (by simp only [cap]; omega)
    have hso : Stops (rankB o + 1) rest := hs.mono (by simp only [cap]; omega)
    have her := ihr G (rankB o + 1) rest hcr (by omega) hsr (by omega)
    obtain ⟨K, hK⟩ : ∃ K, G - depthL r = K + 1 := ⟨G - depthL r - 1, by omega⟩
    rw [hK, loop_stop _ _ _ _ hso] at her
    have hGd : F - depthL (.bin o l r) = G := by simp only [depthL]; omega
    rw [hG, hGd]
    simp [loop, hm, her]

/-- Textbook precedence climbing inverts the in-order yield of every canonical tree. -/
theorem climbToks_yield (t : Tree) (h : Canon t) : climbToks (yield t) = some t := by
  have h1 := expr_yield t (2 * (yield t).length + 2) 0 [] h (Nat.zero_le _)
    (fun o ts e => by cases e) (by rw [yield_length]; omega)
  have hd := depthL_le_size t
  obtain ⟨K, hK⟩ : ∃ K, 2 * (yield t).length + 2 - depthL t = K + 1 :=
    ⟨2 * (yield t).length + 2 - depthL t - 1, by rw [yield_length]; omega⟩
  rw [hK, loop_stop _ _ _ _ (fun o ts e => by cases e), List.append_nil] at h1
  simp [climbToks, h1]

/-- A precedence-respecting tree is determined by its in-order token list. -/
theorem canonical_unique (t₁ t₂ : Tree) (h₁ : Canon t₁) (h₂ : Canon t₂) (hy : yield t₁ = yield t₂) :
    t₁ = t₂ := by
  have a := climbToks_yield t₁ h₁
  have b := climbToks_yield t₂ h₂
  rw [hy, b] at a
  exact (Option.some.inj a).symm

/-! ## The extracted predicates are the rank comparisons (F1: false before the repair) -/

/-- The real `should_flip_binary`, as extracted over all 13 × 13 operator pairs, rotates exactly when
the left operator binds at least as tightly as the right one. -/
theorem table_is_rank_order : RankOrderB shouldFlipBinary := by
  intro l r
  cases l <;> cases r <;> decide

/-- The real `should_flip_unary`, as extracted over 2 × 13 (operator, binary root) pairs, descends
exactly when the prefix operator binds tighter than the binary root. -/
theorem table_unary_is_rank_order : RankOrderU shouldFlipUnary := by
  intro u r
  cases u <;> cases r <;> decide

/-- ... and never fires on an operand that is not a binary expression (variable, literal,
parenthesis, unary expression, function call — checked by the extractor on the real code). -/
theorem table_unary_nonbinary : Gen.ExprTables.flipUnaryNonBinary = false := by decide

/-- The extractor saw the same answers whatever the operands were (atoms, parentheses, unary and binary
operands), and `should_flip_binary` never fired with a non-binary right operand. -/
theorem table_operand_independent :
    Gen.ExprTables.flipBinaryOperandIndependent = true ∧ Gen.ExprTables.flipUnaryOperandIndependent = true
      ∧ Gen.ExprTables.flipBinaryNonBinary = false := by decide

/-- The extractor's syntactic argument went through on the source text of this tree: in `should_flip_binary` /
`should_flip_unary` every operand position of every `BinaryExpression` pattern is `_`, the right child is only
scrutinised for its constructor and operator, and `binary_priority` / the `is_*` methods see the operator alone
(extract.rs `syntactic_operand_free`; a change of that shape makes the generated flag `false` and breaks this
theorem). -/
theorem table_operand_free_syntactic : Gen.ExprTables.flipSyntacticOperandFree = true := by decide

/-! ## The parser equals the reference -/

theorem parseWith_canonical {sf : Op → Op → Bool} {su : UOp → Op → Bool}
    (hsf : RankOrderB sf) (hsu : RankOrderU su) (s : Src) : Canon (parseWith sf su s) := by
  induction s with
  | atom n => trivial
  | par s _ => trivial
  | atomBin n o r ih =>
    exact binaryExpr_canonical hsf _ o _ trivial ih (by have := rankB_lt_top o; simp only [cap]; omega)
  | parBin s o r _ ih =>
    exact binaryExpr_canonical hsf _ o _ trivial ih (by have := rankB_lt_top o; simp only [cap]; omega)
  | un u r ih => exact applyUnary_canonical hsf hsu u _ ih

/-- The parser's tree has exactly the source's tokens in order (parenthesised parts being the
reference parse of their content). -/
theorem parseWith_toks {sf : Op → Op → Bool} {su : UOp → Op → Bool}
    (hsf : RankOrderB sf) (hsu : RankOrderU su) (s : Src) :
    toks? s = some (yield (parseWith sf su s)) := by
  induction s with
  | atom n => rfl
  | par s ih =>
    simp only [toks?, ih, climbToks_yield _ (parseWith_canonical hsf hsu s), parseWith, yield]
  | atomBin n o r ih =>
    simp only [toks?, ih, parseWith, binaryExpr_inorder, yield, List.singleton_append]
  | parBin s o r ihs ihr =>
    simp only [toks?, ihs, ihr, climbToks_yield _ (parseWith_canonical hsf hsu s), parseWith,
      binaryExpr_inorder, yield, List.singleton_append]
  | un u r ih =>
    simp only [toks?, ih, parseWith, applyUnary_inorder]

/-- With rank-order rotation predicates, right-recursive parsing plus rotations is precedence
climbing: every chain, any length, prefix operators and parenthesised operands anywhere. -/
theorem parseWith_eq_climb {sf : Op → Op → Bool} {su : UOp → Op → Bool}
    (hsf : RankOrderB sf) (hsu : RankOrderU su) (s : Src) :
    climb s = some (parseWith sf su s) := by
  simp only [climb, parseWith_toks hsf hsu s, climbToks_yield _ (parseWith_canonical hsf hsu s)]

/-- **Main theorem (grouping).** The model of the real parser — with the predicates extracted from the
real code — produces the reference parse for every source expression. -/
theorem parseChain_eq_climb (s : Src) : climb s = some (parseChain s) :=
  parseWith_eq_climb table_is_rank_order table_unary_is_rank_order s

/-- The parse is precedence-respecting (declarative form of the same fact). -/
theorem parseChain_canonical (s : Src) : Canon (parseChain s) :=
  parseWith_canonical table_is_rank_order table_unary_is_rank_order s

/-! ## Prefix operators (F2) -/

/-- Where the property puts a prefix operator in front of a canonical tree: walk down the left
operands while the node binds looser than the operator, apply it there. -/
def attachLeftmost (u : UOp) : Tree → Tree
  | .bin ro rl rr => if rankB ro < rankU u then .bin ro (attachLeftmost u rl) rr else .un u (.bin ro rl rr)
  | t => .un u t

theorem binaryExpr_noflip {sf : Op → Op → Bool} (hsf : RankOrderB sf) (l : Tree) (o : Op) (r : Tree)
    (h : rankB o < lrank r) : binaryExpr sf l o r = .bin o l r := by
  cases r with
  | leaf n => rfl
  | paren t => rfl
  | un u t => rfl
  | bin ro rl rr =>
    simp only [lrank] at h
    have : ¬ rankB ro ≤ rankB o := by omega
    have e := hsf o ro
    simp [binaryExpr, e, this]

/-- The prefix operator ends up applied to the leftmost operand of the maximal chain of operators that
bind looser than it, and nothing else moves. -/
theorem unary_attach_leftmost {sf : Op → Op → Bool} {su : UOp → Op → Bool}
    (hsf : RankOrderB sf) (hsu : RankOrderU su) (u : UOp) (t : Tree) (h : Canon t) :
    applyUnary sf su u t = attachLeftmost u t := by
  induction t with
  | leaf n => rfl
  | paren t _ => rfl
  | un v t _ => rfl
  | bin ro rl rr ihl _ =>
    obtain ⟨hrl, _, _, h2⟩ := h
    have e := hsu u ro
    simp only [applyUnary, attachLeftmost, e]
    by_cases hflip : rankB ro < rankU u
    · simp only [hflip, decide_true, if_true, ihl hrl, binaryExpr_noflip hsf _ _ _ h2]
    · simp only [hflip, decide_false, Bool.false_eq_true, if_false]

/-! ## Non-vacuity and the former defects as closed examples -/

/-- `-A + B - C` groups as `((-A) + B) - C` (F2 printed −6 for 1, 2, 3). -/
example : parseChain (.un .neg (.atomBin 0 .plus (.atomBin 1 .minus (.atom 2))))
    = .bin .minus (.bin .plus (.un .neg (.leaf 0)) (.leaf 1)) (.leaf 2) := by decide

/-- `NOT A AND B OR C` groups as `((NOT A) AND B) OR C`. -/
example : parseChain (.un .not (.atomBin 0 .and (.atomBin 1 .or (.atom 2))))
    = .bin .or (.bin .and (.un .not (.leaf 0)) (.leaf 1)) (.leaf 2) := by decide

/-- `A * B MOD C` groups as `(A * B) MOD C` (F1: `2 * 7 MOD 4` printed 6). -/
example : parseChain (.atomBin 0 .mul (.atomBin 1 .mod (.atom 2)))
    = .bin .mod (.bin .mul (.leaf 0) (.leaf 1)) (.leaf 2) := by decide

/-- `A < B < C` groups left to right (F1: `1 < 2 < 3` printed 0). -/
example : parseChain (.atomBin 0 .less (.atomBin 1 .less (.atom 2)))
    = .bin .less (.bin .less (.leaf 0) (.leaf 1)) (.leaf 2) := by decide

/-- `A + NOT (B) * -C + D OR E`: prefix operators in the middle, a parenthesised operand. -/
example : climb (.atomBin 0 .plus (.un .not (.parBin (.atom 1) .mul (.un .neg
      (.atomBin 2 .plus (.atomBin 3 .or (.atom 4)))))))
    = some (.bin .or (.bin .plus (.leaf 0) (.un .not (.bin .plus
        (.bin .mul (.paren (.leaf 1)) (.un .neg (.leaf 2))) (.leaf 3)))) (.leaf 4)) := by decide

/-- The hypotheses of `canonical_unique` are satisfiable on a non-trivial tree, and the
non-canonical regrouping of the same tokens is rejected. -/
example : Canon (.bin .plus (.leaf 0) (.bin .mul (.leaf 1) (.leaf 2)))
    ∧ ¬ Canon (.bin .mul (.bin .plus (.leaf 0) (.leaf 1)) (.leaf 2)) := by decide

/-- The predicate before the F1 repair (transcribed from the pinned `should_flip_binary`) is not the
rank order: the five families of pairs the repair added. -/
def oldShouldFlip (l r : Op) : Bool :=
  let arith (o : Op) := o = .plus ∨ o = .minus ∨ o = .mul ∨ o = .div ∨ o = .mod
  let rel (o : Op) := rankB o = 4
  let bin (o : Op) := o = .and ∨ o = .or
  let pm (o : Op) := o = .plus ∨ o = .minus
  let md (o : Op) := o = .mul ∨ o = .div
  decide ((arith l ∧ (rel r ∨ bin r)) ∨ (rel l ∧ bin r) ∨ (l = .and ∧ r = .or)
    ∨ ((md l ∨ l = .mod) ∧ pm r) ∨ (pm l ∧ pm r) ∨ (md l ∧ md r))

theorem old_predicate_not_rank_order : ¬ RankOrderB oldShouldFlip := by
  intro h
  exact absurd (h .mul .mod) (by decide)

/-! ## Literals -/

/-! ### Decimal -/

/-- Everything `parse::<u32>` accepts is far inside the DOUBLE range. -/
theorem u32_lt_dblOverflow : 4294967295 < dblOverflow := by decide +kernel

/-- A run of decimal digits denotes its value with the narrowest of INTEGER, LONG, DOUBLE; a number that
no DOUBLE holds (`dblOverflow = 2^1024 - 2^970` or more) is the parse error Overflow. -/
theorem dec_narrowest (n : Nat) : decLit n = narrowest (n : Int) := by
  have hu := u32_lt_dblOverflow
  unfold decLit processDec narrowest
  simp only [Bool.false_eq_true, if_false]
  repeat' split
  all_goals first | rfl | omega

/-- The same, read off the type: INTEGER exactly up to 32767, LONG exactly from 32768 to 2147483647,
DOUBLE above up to the end of the DOUBLE range, Overflow beyond; the value is always the written one. -/
theorem dec_type_by_magnitude (n : Nat) :
    (n ≤ 32767 → decLit n = .int n) ∧ (32767 < n → n ≤ 2147483647 → decLit n = .long n)
      ∧ (2147483647 < n → n < dblOverflow → decLit n = .double n)
      ∧ (dblOverflow ≤ n → decLit n = .overflow) := by
  have hu := u32_lt_dblOverflow
  rw [dec_narrowest]
  unfold narrowest
  refine ⟨fun h => ?_, fun h1 h2 => ?_, fun h1 h2 => ?_, fun h => ?_⟩
  · rw [if_pos (by omega)]
  · rw [if_neg (by omega), if_pos (by omega)]
  · rw [if_neg (by omega), if_neg (by omega), if_pos (by omega)]
  · rw [if_neg (by omega), if_neg (by omega), if_neg (by omega)]

/-- `narrowest v` really is the narrowest type that holds `v`: it is INTEGER iff `v` is in the INTEGER
range, LONG iff it is in the LONG but not in the INTEGER range, DOUBLE iff it is in neither and a DOUBLE
holds it, and no literal at all (Overflow) iff no DOUBLE holds it. -/
theorem narrowest_is_least (v : Int) :
    (narrowest v = .int v ↔ (-32768 ≤ v ∧ v ≤ 32767))
      ∧ (narrowest v = .long v ↔ (¬ (-32768 ≤ v ∧ v ≤ 32767) ∧ -2147483648 ≤ v ∧ v ≤ 2147483647))
      ∧ (narrowest v = .double v ↔ (¬ (-2147483648 ≤ v ∧ v ≤ 2147483647) ∧ v.natAbs < dblOverflow))
      ∧ (narrowest v = .overflow ↔ dblOverflow ≤ v.natAbs) := by
  have hu := u32_lt_dblOverflow
  unfold narrowest
  refine ⟨?_, ?_, ?_, ?_⟩ <;> (repeat' split) <;> simp <;> omega

/-- A decimal literal written as a digit string (leading zeros allowed) is typed by its value. -/
theorem dec_digits_narrowest (ds : List Nat) :
    decLit (digitsVal 10 ds) = narrowest (digitsVal 10 ds : Nat) := dec_narrowest _

/-- **`neg_literal_fold`, full strength.** A minus sign directly followed by decimal digits is the
literal of the negated value with the narrowest type that holds it (`-32768` INTEGER, `-32769` LONG,
`-2147483648` LONG, `-2147483649` DOUBLE): no excluded value (F3c repaired). -/
theorem neg_literal_fold (n : Nat) : negDecLit n = narrowest (-(n : Int)) := by
  have hu := u32_lt_dblOverflow
  unfold negDecLit processDec narrowest
  simp only [if_true]
  repeat' split
  all_goals first | rfl | omega

example : negDecLit 32768 = .int (-32768) ∧ negDecLit 32769 = .long (-32769)
    ∧ negDecLit 2147483648 = .long (-2147483648) ∧ negDecLit 2147483649 = .double (-2147483649)
    ∧ negDecLit 4294967296 = .double (-4294967296) ∧ decLit 4294967296 = .double 4294967296
    ∧ decLit (digitsVal 10 [0, 0, 3, 2, 7, 6, 8]) = .long 32768 := by
  decide +kernel

/-- The end of the DOUBLE range: `2^1024 - 2^970 - 1` (309 digits, it rounds to the largest DOUBLE) is still a
DOUBLE literal, `2^1024 - 2^970` and `1` followed by 400 zeros are the parse error Overflow, with and
without a minus sign in front. -/
example : decLit (dblOverflow - 1) = .double (2 ^ 1024 - 2 ^ 970 - 1) ∧ decLit dblOverflow = .overflow
    ∧ negDecLit (dblOverflow - 1) = .double (-(2 ^ 1024 - 2 ^ 970 - 1)) ∧ negDecLit dblOverflow = .overflow
    ∧ decLit (10 ^ 400) = .overflow ∧ negDecLit (10 ^ 400) = .overflow := by
  decide +kernel

/-- `Expression::unary_minus` applied to an already typed literal (the path of `-&H8000`, `--5`; a
minus sign directly followed by decimal digits does not take it): the negated value with the narrowest
type, for every value but 2147483648.  That value can only be a DOUBLE literal (`2147483648#`, or
`2147483648` not directly after a minus sign), and the negation of a DOUBLE literal stays DOUBLE, which
is what `-2147483648#` must be. -/
theorem negLit_narrowest_partial (v : Int) (h : v ≠ 2147483648) :
    negLit (narrowest v) = narrowest (-v) := by
  have hu := u32_lt_dblOverflow
  unfold narrowest
  repeat' split
  all_goals (simp only [negLit]; repeat' split)
  all_goals first | rfl | omega | (congr 1; omega)

/-! ## Printing and parsing back (round trip) -/

/-- Precedence-respecting at every level, also inside parentheses. -/
def CanonD : Tree → Prop
  | .leaf _ => True
  | .paren t => Canon t ∧ CanonD t
  | .un _ t => CanonD t
  | .bin _ l r => CanonD l ∧ CanonD r

/-- Print a tree as source text (the token structure `Src`) *without adding parentheses*: the tokens in
order, `paren` nodes as the only parentheses. `k` is what follows on the right (`op rest`). -/
def printK : Tree → Option (Op × Src) → Src
  | .leaf n, none => .atom n
  | .leaf n, some (o, r) => .atomBin n o r
  | .paren t, none => .par (printK t none)
  | .paren t, some (o, r) => .parBin (printK t none) o r
  | .un u t, k => .un u (printK t k)
  | .bin o l r, k => printK l (some (o, printK r k))

def printSrc (t : Tree) : Src := printK t none

/-- The tokens that follow. -/
def contToks : Option (Op × List Tok) → List Tok
  | none => []
  | some (o, ts) => .bin o :: ts

theorem printK_toks (t : Tree) : ∀ (k : Option (Op × Src)) (kt : Option (Op × List Tok)),
    CanonD t →
    (match k, kt with
      | none, none => True
      | some (o, r), some (o', tr) => o = o' ∧ toks? r = some tr
      | _, _ => False) →
    toks? (printK t k) = some (yield t ++ contToks kt) := by
  induction t with
  | leaf n =>
    intro k kt _ hk
    match k, kt, hk with
    | none, none, _ => rfl
    | some (o, r), some (o', tr), ⟨ho, hr⟩ => subst ho; simp [printK, toks?, hr, yield, contToks]
  | paren t ih =>
    intro k kt hc hk
    have hin := ih none none hc.2 trivial
    simp only [contToks, List.append_nil] at hin
    match k, kt, hk with
    | none, none, _ => simp [printK, toks?, hin, climbToks_yield _ hc.1, yield, contToks]
    | some (o, r), some (o', tr), ⟨ho, hr⟩ =>
      subst ho; simp [printK, toks?, hin, hr, climbToks_yield _ hc.1, yield, contToks]
  | un u t ih =>
    intro k kt hc hk
    simp [printK, toks?, ih k kt hc hk, yield]
  | bin o l r ihl ihr =>
    intro k kt hc hk
    have h1 := ihr k kt hc.2 hk
    have h2 := ihl (some (o, printK r k)) (some (o, yield r ++ contToks kt)) hc.1 ⟨rfl, h1⟩
    simp [printK, h2, yield, contToks]

theorem print_toks (t : Tree) (h : CanonD t) : toks? (printSrc t) = some (yield t) := by
  have := printK_toks t none none h trivial
  simpa [contToks, printSrc] using this

/-- **Round trip, bare text.** A tree that respects precedence at every level is what the parser makes of its own
tokens printed without any further parentheses: chains of any length, prefix operators anywhere. -/
theorem parse_print (t : Tree) (hc : Canon t) (hd : CanonD t) : parseChain (printSrc t) = t := by
  have h1 := parseChain_eq_climb (printSrc t)
  simp only [climb, print_toks t hd, climbToks_yield t hc] at h1
  exact (Option.some.inj h1).symm

/-- Conversely the parentheses of a tree that does not respect precedence are needed: its bare text parses to
something else. -/
theorem parse_print_ne (t : Tree) (hc : ¬ Canon t) : parseChain (printSrc t) ≠ t := by
  intro h; exact hc (h ▸ parseChain_canonical (printSrc t))

/-- Parenthesise an operand unless it is an atom or already parenthesised. -/
def wrap : Tree → Tree
  | .leaf n => .leaf n
  | .paren t => .paren t
  | t => .paren t

/-- Fully parenthesised form: every operand of every operator is an atom or in parentheses. -/
def fullParen : Tree → Tree
  | .leaf n => .leaf n
  | .paren t => .paren (fullParen t)
  | .un u t => .un u (wrap (fullParen t))
  | .bin o l r => .bin o (wrap (fullParen l)) (wrap (fullParen r))

/-- Remove all parentheses. -/
def strip : Tree → Tree
  | .leaf n => .leaf n
  | .paren t => strip t
  | .un u t => .un u (strip t)
  | .bin o l r => .bin o (strip l) (strip r)

theorem strip_wrap (t : Tree) : strip (wrap t) = strip t := by cases t <;> rfl

theorem strip_fullParen (t : Tree) : strip (fullParen t) = strip t := by
  induction t with
  | leaf n => rfl
  | paren t ih => simpa [fullParen, strip] using ih
  | un u t ih => simp [fullParen, strip, strip_wrap, ih]
  | bin o l r ihl ihr => simp [fullParen, strip, strip_wrap, ihl, ihr]

theorem wrap_atom (t : Tree) : Canon (wrap t) ∧ lrank (wrap t) = top ∧ cap (wrap t) = top + 1 := by
  cases t <;> simp [wrap, Canon, lrank, cap]

theorem canonD_wrap (t : Tree) (hc : Canon t) (hd : CanonD t) : CanonD (wrap t) := by
  cases t with
  | leaf n => trivial
  | paren s => exact hd
  | un u s => exact ⟨hc, hd⟩
  | bin o l r => exact ⟨hc, hd⟩

theorem fullParen_canon (t : Tree) : Canon (fullParen t) ∧ CanonD (fullParen t) := by
  induction t with
  | leaf n => exact ⟨trivial, trivial⟩
  | paren t ih => exact ⟨trivial, ih⟩
  | un u t ih =>
    obtain ⟨h1, h2, -⟩ := wrap_atom (fullParen t)
    refine ⟨⟨h1, ?_⟩, canonD_wrap _ ih.1 ih.2⟩
    rw [h2]; exact Nat.le_of_lt (rankU_lt_top u)
  | bin o l r ihl ihr =>
    obtain ⟨l1, -, l3⟩ := wrap_atom (fullParen l)
    obtain ⟨r1, r2, -⟩ := wrap_atom (fullParen r)
    refine ⟨⟨l1, r1, ?_, ?_⟩, canonD_wrap _ ihl.1 ihl.2, canonD_wrap _ ihr.1 ihr.2⟩
    · rw [l3]; have := rankB_lt_top o; omega
    · rw [r2]; exact rankB_lt_top o

/-- **Round trip, fully parenthesised text.** For *every* tree — any grouping, precedence-respecting or not, any
length, prefix operators anywhere — the fully parenthesised text parses back to exactly that grouping. -/
theorem parse_print_fullParen (t : Tree) : parseChain (printSrc (fullParen t)) = fullParen t :=
  parse_print _ (fullParen_canon t).1 (fullParen_canon t).2

/-- Fully and minimally parenthesised renderings of a precedence-respecting tree parse to the same grouping. -/
theorem full_vs_bare (t : Tree) (hc : Canon t) (hd : CanonD t) :
    strip (parseChain (printSrc (fullParen t))) = strip (parseChain (printSrc t)) := by
  rw [parse_print_fullParen, parse_print t hc hd, strip_fullParen]

/-- Non-vacuity: `-a + NOT b * c - d` needs no parentheses; `(a + b) * c` without them is another tree, and with
full parentheses every grouping comes back, e.g. `a - (b - c)` and `-(a + b)`. -/
example : parseChain (printSrc (.bin .minus (.bin .plus (.un .neg (.leaf 0)) (.leaf 1)) (.leaf 2)))
    = .bin .minus (.bin .plus (.un .neg (.leaf 0)) (.leaf 1)) (.leaf 2) := by decide
example : parseChain (printSrc (.bin .mul (.bin .plus (.leaf 0) (.leaf 1)) (.leaf 2)))
    = .bin .plus (.leaf 0) (.bin .mul (.leaf 1) (.leaf 2)) := by decide
example : parseChain (printSrc (fullParen (.bin .minus (.leaf 0) (.bin .minus (.leaf 1) (.leaf 2)))))
    = .bin .minus (.leaf 0) (.paren (.bin .minus (.leaf 1) (.leaf 2))) := by decide
example : parseChain (printSrc (fullParen (.un .neg (.bin .plus (.leaf 0) (.leaf 1)))))
    = .un .neg (.paren (.bin .plus (.leaf 0) (.leaf 1))) := by decide

end RbThm.C10
