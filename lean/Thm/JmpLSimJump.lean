import Thm.JmpLSimBase
/-!
Jump layer, simulation part: the four new statements.

* `label L`: one `Label` instruction, a no-op; in seek mode it is the entry point.
* `goto L`: `(d − fd L)` × `PopRegisters`, `(e − sd L)` × `PopValueStackIntoA`, `Jump (addr L)`.
* `gosub L`: `GoSub (addr L)`; the routine is the *whole program body* entered at the label, one unit of fuel down; its
  `Return` cuts the register stack and the value stack back to the heights recorded by the `GoSub`.
* `ret`: the `Return` instruction itself is executed by whoever answers it (the GOSUB, or the top of the program: error 3).
-/
namespace RbThm.JmpLSim
set_option linter.unusedVariables false
set_option linter.unusedSimpArgs false
open RbModel RbModel.Num RbModel.JmpL RbModel.JmpL.Compile RbModel.JmpL.Vm
open RbModel.Ast (Pos PrintItem CaseExpr)
open RbModel.Ref (St ERes eval evalTo codeOf codeOutOfData codeZeroStep zeroOf truthy printValue endsInSeparator StepSign
  binStep lift)
open RbModel.JmpL.Ref
open RbThm.JmpLLen
open RbThm.C01Sim (Typed SlotsBelow ExprWt NumericAt NumericCond ItemsSlots CaseSlots CondsSlots)

/-- what the `PopRegisters` / `PopValueStackIntoA` runs of a GOTO leave alone -/
structure PopKeeps (σ τ : Vm) : Prop where
  env : τ.env = σ.env
  out : τ.out = σ.out
  skip : τ.skipNewline = σ.skipNewline
  data : τ.data = σ.data
  dataIdx : τ.dataIdx = σ.dataIdx
  queue : τ.queue = σ.queue
  paths : τ.paths = σ.paths
  gosubs : τ.gosubs = σ.gosubs

theorem PopKeeps.refl (σ : Vm) : PopKeeps σ σ := ⟨rfl, rfl, rfl, rfl, rfl, rfl, rfl, rfl⟩

theorem PopKeeps.trans {a b c : Vm} (h₁ : PopKeeps a b) (h₂ : PopKeeps b c) : PopKeeps a c :=
  ⟨h₂.env.trans h₁.env, h₂.out.trans h₁.out, h₂.skip.trans h₁.skip, h₂.data.trans h₁.data,
    h₂.dataIdx.trans h₁.dataIdx, h₂.queue.trans h₁.queue, h₂.paths.trans h₁.paths, h₂.gosubs.trans h₁.gosubs⟩

theorem PopKeeps.rel {sl : List Ty} {s : St} {σ τ : Vm} (h : PopKeeps σ τ) (hr : Rel sl s σ) : Rel sl s τ :=
  hr.same h.env h.out h.skip h.data h.dataIdx h.queue

/-- `k` × `PopRegisters`: the `k` topmost saved frames are dropped -/
theorem pop_regs_run (code : Code) (p : Pos) : ∀ (k : Nat) (σ : Vm),
    CodeAt code σ.pc (List.replicate k (CInstr.popRegs, p)) → k ≤ σ.regStack.length →
    ∃ τ, Steps code σ τ ∧ τ.pc = σ.pc + k ∧ τ.regStack = σ.regStack.drop k ∧ τ.vals = σ.vals ∧ PopKeeps σ τ := by
  intro k
  induction k with
  | zero => intro σ _ _; exact ⟨σ, Steps.refl σ, rfl, by simp, rfl, PopKeeps.refl σ⟩
  | succ k ih =>
    intro σ hc hk
    rw [List.replicate_succ] at hc
    have h0 : code[σ.pc]? = some (CInstr.popRegs, p) := hc.head
    cases hrs : σ.regStack with
    | nil => rw [hrs] at hk; simp at hk
    | cons r rest =>
      let σ1 : Vm := advance { σ with regs := r, regStack := rest }
      have s1 : Vm.step code σ = .next σ1 := by simp only [Vm.step, h0, hrs]; rfl
      have hk' : k ≤ σ1.regStack.length := by
        rw [hrs] at hk; simp only [List.length_cons] at hk
        show k ≤ rest.length
        omega
      obtain ⟨τ, st, hp, h1, h2, h3⟩ := ih σ1 hc.tail hk'
      refine ⟨τ, Steps.cons s1 st, ?_, ?_, ?_, ?_⟩
      · rw [hp]; show σ.pc + 1 + k = σ.pc + (k + 1); omega
      · rw [h1]; show rest.drop k = (r :: rest).drop (k + 1); rfl
      · rw [h2]; rfl
      · exact PopKeeps.trans (b := σ1) ⟨rfl, rfl, rfl, rfl, rfl, rfl, rfl, rfl⟩ h3

/-- `k` × `PopValueStackIntoA`: the `k` topmost values are dropped -/
theorem pop_vals_run (code : Code) (p : Pos) : ∀ (k : Nat) (σ : Vm),
    CodeAt code σ.pc (List.replicate k (CInstr.popA, p)) → k ≤ σ.vals.length →
    ∃ τ, Steps code σ τ ∧ τ.pc = σ.pc + k ∧ τ.regStack = σ.regStack ∧ τ.vals = σ.vals.drop k ∧ PopKeeps σ τ := by
  intro k
  induction k with
  | zero => intro σ _ _; exact ⟨σ, Steps.refl σ, rfl, rfl, by simp, PopKeeps.refl σ⟩
  | succ k ih =>
    intro σ hc hk
    rw [List.replicate_succ] at hc
    have h0 : code[σ.pc]? = some (CInstr.popA, p) := hc.head
    cases hvs : σ.vals with
    | nil => rw [hvs] at hk; simp at hk
    | cons v rest =>
      let σ1 : Vm := advance { setA σ v with vals := rest }
      have s1 : Vm.step code σ = .next σ1 := by simp only [Vm.step, h0, hvs]; rfl
      have hk' : k ≤ σ1.vals.length := by
        rw [hvs] at hk; simp only [List.length_cons] at hk
        show k ≤ rest.length
        omega
      obtain ⟨τ, st, hp, h1, h2, h3⟩ := ih σ1 hc.tail hk'
      refine ⟨τ, Steps.cons s1 st, ?_, ?_, ?_, ?_⟩
      · rw [hp]; show σ.pc + 1 + k = σ.pc + (k + 1); omega
      · rw [h1]; rfl
      · rw [h2]; show rest.drop k = (v :: rest).drop (k + 1); rfl
      · exact PopKeeps.trans (b := σ1) ⟨rfl, rfl, rfl, rfl, rfl, rfl, rfl, rfl⟩ h3

/-! ### `label` -/

theorem case_label (C : Ctx) (fuel : Nat) (L : Nat) (name : String) (p : Pos) (sfx : String) (d e off : Nat) (m : Mode)
    (σ : Vm) (s : St)
    (hc : CodeAt C.code off (compileStmt C.env sfx d e off (.label L name p)))
    (hl : LabAt C.env d e off (.label L name p)) (hen : Entry C.env off (.label L name p) m σ) (hr : Rel C.sl s σ) :
    StmtSpec C d e (off + sizeStmt C.env.dp d e (.label L name p)) σ
      (exec (fuel + 1) C.P (desugar (.label L name p)) m s) := by
  simp only [compileStmt] at hc
  have hpc : σ.pc = off := by
    cases m with
    | run => exact hen
    | seek L0 =>
      obtain ⟨h1, h2⟩ := hen
      simp only [SStmt.labels, List.mem_singleton] at h1
      subst h1
      rw [h2]; exact hl.label.1
  have h0 : C.code[σ.pc]? = some (CInstr.label name, p) := by rw [hpc]; exact hc.head
  have s1 : Vm.step C.code σ = .next (advance σ) := by simp only [Vm.step, h0]
  have hfin : StmtSpec C d e (off + sizeStmt C.env.dp d e (.label L name p)) σ (s, .normal) :=
    ⟨advance σ, Steps.one s1, by simp [advance, hpc, sizeStmt], hr.advance, ⟨rfl, rfl, rfl, rfl⟩⟩
  cases m with
  | run => simpa only [desugar, exec] using hfin
  | seek L0 =>
    obtain ⟨h1, _⟩ := hen
    simp only [SStmt.labels, List.mem_singleton] at h1
    subst h1
    simpa only [desugar, exec, if_true] using hfin

/-! ### `goto` -/

theorem case_goto (C : Ctx) (fuel : Nat) (L : Nat) (p : Pos) (sfx : String) (d e off : Nat) (m : Mode)
    (σ : Vm) (s : St)
    (hc : CodeAt C.code off (compileStmt C.env sfx d e off (.goto L p)))
    (hen : Entry C.env off (.goto L p) m σ) (hr : Rel C.sl s σ)
    (hd : d ≤ σ.regStack.length) (he : e ≤ σ.vals.length) :
    StmtSpec C d e (off + sizeStmt C.env.dp d e (.goto L p)) σ (exec (fuel + 1) C.P (desugar (.goto L p)) m s) := by
  obtain ⟨rfl, hpc⟩ := hen.of_nolabels rfl
  subst hpc
  simp only [compileStmt, compileGoto] at hc
  simp only [desugar, exec, StmtSpec]
  obtain ⟨τ1, st1, hp1, hr1, hv1, hk1⟩ :=
    pop_regs_run C.code p (d - C.env.dp.fd L) σ hc.append_left.append_left (by omega)
  have hc2 : CodeAt C.code τ1.pc (List.replicate (e - C.env.dp.sd L) (CInstr.popA, p)) := by
    have := hc.append_left.append_right
    simp only [List.length_replicate] at this
    rw [hp1]; exact this
  obtain ⟨τ2, st2, hp2, hr2, hv2, hk2⟩ :=
    pop_vals_run C.code p (e - C.env.dp.sd L) τ1 hc2 (by rw [hv1]; omega)
  have hj : C.code[τ2.pc]? = some (CInstr.jump (C.env.addr L), p) := by
    have := hc.append_right.head
    simp only [List.length_append, List.length_replicate] at this
    rw [hp2, hp1, ← this]; congr 1; omega
  let τ3 : Vm := { τ2 with pc := C.env.addr L }
  have s3 : Vm.step C.code τ2 = .next τ3 := by simp only [Vm.step, hj]; rfl
  refine ⟨τ3, (st1.trans st2).trans (Steps.one s3), rfl, ?_, ?_, ?_, ?_, ?_⟩
  · exact (hk2.rel (hk1.rel hr)).setPc _
  · show τ2.regStack = _; rw [hr2, hr1]
  · show τ2.vals = _; rw [hv2, hv1]
  · show τ2.paths = _; rw [hk2.paths, hk1.paths]
  · show τ2.gosubs = _; rw [hk2.gosubs, hk1.gosubs]

/-! ### `ret` -/

theorem case_ret (C : Ctx) (fuel : Nat) (p : Pos) (sfx : String) (d e off : Nat) (m : Mode) (σ : Vm) (s : St)
    (hc : CodeAt C.code off (compileStmt C.env sfx d e off (.ret p)))
    (hen : Entry C.env off (.ret p) m σ) (hr : Rel C.sl s σ) :
    StmtSpec C d e (off + sizeStmt C.env.dp d e (.ret p)) σ (exec (fuel + 1) C.P (desugar (.ret p)) m s) := by
  obtain ⟨rfl, hpc⟩ := hen.of_nolabels rfl
  subst hpc
  simp only [compileStmt] at hc
  simp only [desugar, exec, StmtSpec]
  exact ⟨σ, Steps.refl σ, hc.head, hr, ⟨σ.regStack.take d, (List.take_append_drop d σ.regStack).symm⟩,
    ⟨σ.vals.take e, (List.take_append_drop e σ.vals).symm⟩, rfl, rfl⟩

/-! ### `gosub` -/

/-- `register_stack.truncate(h)` at a `Return`: whatever frames the routine still has on top of the caller's, the caller's
saved frames are what is left below the (new) current frame -/
theorem truncTop_frames (R : List Regs) : ∀ (X : List Regs) (r : Regs),
    ∃ r', truncTop (R.length + 1) (r :: (X ++ R)) = r' :: R := by
  intro X
  induction X with
  | nil => intro r; exact ⟨r, by simp [truncTop]⟩
  | cons x X ih =>
    intro r
    obtain ⟨r', h⟩ := ih x
    refine ⟨r', ?_⟩
    simp only [truncTop, List.length_cons, List.length_append, List.cons_append] at h ⊢
    have e1 : X.length + R.length + 1 + 1 - (R.length + 1) = (X.length + R.length + 1 - (R.length + 1)) + 1 := by omega
    rw [e1, List.drop_succ_cons]
    exact h

theorem truncTop_vals (V Y : List Val) : truncTop V.length (Y ++ V) = V := by
  simp only [truncTop, List.length_append]
  have : Y.length + V.length - V.length = Y.length := by omega
  rw [this, List.drop_left]

theorem case_gosub (C : Ctx) (hC : C.Ok) (fuel : Nat) (ih : StmtIH C fuel) (L : Nat) (p : Pos) (sfx : String)
    (d e off : Nat) (m : Mode) (σ : Vm) (s : St)
    (hc : CodeAt C.code off (compileStmt C.env sfx d e off (.gosub L p)))
    (hw : Wf C.sl C.env.dp d e (.gosub L p))
    (hen : Entry C.env off (.gosub L p) m σ) (hr : Rel C.sl s σ) :
    StmtSpec C d e (off + sizeStmt C.env.dp d e (.gosub L p)) σ (exec (fuel + 1) C.P (desugar (.gosub L p)) m s) := by
  obtain ⟨rfl, hpc⟩ := hen.of_nolabels rfl
  subst hpc
  simp only [compileStmt] at hc
  have h0 : C.code[σ.pc]? = some (CInstr.goSub (C.env.addr L), p) := hc.head
  let σ1 : Vm := { σ with pc := C.env.addr L, gosubs := (σ.pc, σ.regStack.length + 1, σ.vals.length) :: σ.gosubs }
  have s1 : Vm.step C.code σ = .next σ1 := by simp only [Vm.step, h0]; rfl
  have hL : L ∈ C.B.labels := hC.gosubOk L hw.1
  -- the routine: the whole program body, entered at the label
  have hsub := ih C.B "" 0 0 C.base (.seek L) σ1 s hC.hcode hC.lab hC.wf ⟨hL, rfl⟩ (hr.same rfl rfl rfl rfl rfl rfl)
    (Nat.zero_le _) (Nat.zero_le _)
  simp only [desugar, exec, sizeStmt]
  change StmtSpec C d e (σ.pc + 1) σ (match exec fuel C.P C.P (.seek L) s with
    | (s', .ret _) => (s', .normal)
    | (s', .normal) => (s', .halted)
    | (s', .halted) => (s', .halted)
    | (s', .jump _) => (s', .illFormed)
    | (s', .notHere) => (s', .illFormed)
    | r => r)
  change StmtSpec C 0 0 _ σ1 (exec fuel C.P C.P (.seek L) s) at hsub
  generalize exec fuel C.P C.P (.seek L) s = r at hsub ⊢
  obtain ⟨s', o⟩ := r
  cases o with
  | ret q =>
    obtain ⟨τ, st, hret, hrel, ⟨X, hX⟩, ⟨Y, hY⟩, hpa, hgs⟩ := hsub
    simp only [List.drop_zero] at hX hY
    obtain ⟨r', hr'⟩ := truncTop_frames σ.regStack X τ.regs
    let υ : Vm := { τ with pc := σ.pc + 1, regs := r', regStack := σ.regStack, vals := σ.vals, gosubs := σ.gosubs }
    have s2 : Vm.step C.code τ = .next υ := by
      have hg : τ.gosubs = (σ.pc, σ.regStack.length + 1, σ.vals.length) :: σ.gosubs := hgs
      have ht : truncTop (σ.regStack.length + 1) (τ.regs :: τ.regStack) = r' :: σ.regStack := by rw [hX]; exact hr'
      have hv : truncTop σ.vals.length τ.vals = σ.vals := by rw [hY]; exact truncTop_vals _ _
      simp only [Vm.step, hret, hg, ht, hv]; rfl
    exact ⟨υ, (Steps.cons s1 st).trans (Steps.one s2), rfl, hrel.same rfl rfl rfl rfl rfl rfl, ⟨rfl, rfl, hpa, rfl⟩⟩
  | normal =>
    obtain ⟨τ, st, hp, hrel, _⟩ := hsub
    obtain ⟨q, hq⟩ := hC.hhalt
    exact ⟨τ, τ, Steps.cons s1 st, by simp only [Vm.step, hp, hq], hrel⟩
  | halted =>
    obtain ⟨τ, υ, st, hh, hrel⟩ := hsub
    exact ⟨τ, υ, Steps.cons s1 st, hh, hrel⟩
  | error c q =>
    obtain ⟨ev, h⟩ := hsub
    exact ⟨ev, ErrsWith.of_steps (Steps.one s1) h⟩
  | jump L' => trivial
  | notHere => trivial
  | inexact => trivial
  | outOfFuel => trivial
  | illFormed => trivial

end RbThm.JmpLSim
