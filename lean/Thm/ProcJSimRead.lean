import Thm.ProcJSimBase
import Thm.ProcJShape
/-!
Layer "procedures ∪ jumps", simulation part — `READ` (port of `Thm/ProcSimRead.lean`).

`READ a, b` is generated as `READ a : READ b`: one call of the built-in per variable —
`BeginCollectArguments; VarPathName x; CopyVarPathToA; PushUnnamedByRef; PushStack` (the collected value becomes the
frame of the built-in's activation); `BuiltInSub Read` (the variable of that frame receives the next DATA item converted
to the type of the value it holds — the declared type, because the environment is `Typed`); `EnqueueToReturnStack 0;
PopStack; DequeueFromReturnStack; VarPathName x; CopyAToVarPath`.  So every variable is assigned before the next DATA
item is converted: the `readSeq` of the reference semantics, round by round.  A READ defines no label: seek mode cannot
enter it (`Entry.of_nolabels`), and the jump-handling wrapper of the `seq`s of `readSeq` is the identity
(`labels_readSeq`); none of its instructions touches the GOSUB stack.
-/
set_option linter.unusedVariables false
set_option linter.unusedSimpArgs false

namespace RbThm.ProcJSim.PjRead
open RbModel RbModel.ProcJ RbModel.ProcJ.Compile RbModel.ProcJ.Vm
open RbModel.Num hiding Expr
open RbModel.Ast (Pos)
open RbModel.Proc (Var SlotTabs Expr Args PrintItem CaseExpr ProcDecl zeroOf Sigs sigsOf)
open RbModel.Proc.Compile (Layout Layout.addr sizeExpr sizePush refCount sizeExprTo sizeSubCall sizeItems sizeCaseExpr sizeConds
  sizeExit labelName stepSuffix maxPos)
open RbModel.Proc.Vm (Regs Regs.new Frame CtxState getVar setVar curVars modCur curStatic applyArgs readVars binInstr)
open RbModel.ProcJ.Ref (Outcome Mode Act)
open RbThm.ProcJLen
open RbThm.ProcSim (Scope topState)
open RbThm.C01Sim.SimRead (cast_tag typed_set typed_getD_tag)

/-- the code of one single-variable READ -/
def readBlock (p : Pos) (v : Var × Ty × Pos) : Code :=
  [(CInstr.beginArgs, p), (CInstr.varPath v.1 v.2.1, v.2.2), (CInstr.copyVarPathToA, v.2.2), (CInstr.pushByRef, v.2.2),
   (CInstr.pushStack, p), (CInstr.builtInRead, p), (CInstr.enqueue 0, v.2.2), (CInstr.popStack, p),
   (CInstr.dequeue, v.2.2), (CInstr.varPath v.1 v.2.1, v.2.2), (CInstr.copyAToVarPath, v.2.2)]

theorem compile_read (lay : Layout) (env : LEnv) (sfx : String) (fd sd off : Nat) (vars : List (Var × Ty × Pos)) (p : Pos) :
    compileStmt lay env sfx fd sd off (.read vars p) =
      if vars.isEmpty then
        [(CInstr.beginArgs, p), (CInstr.pushStack, p), (CInstr.builtInRead, p), (CInstr.popStack, p)]
      else vars.flatMap (readBlock p) := by
  simp only [compileStmt]
  rfl

theorem len_readBlocks (p : Pos) (vars : List (Var × Ty × Pos)) : (vars.flatMap (readBlock p)).length = 11 * vars.length :=
  flatMap_const_len _ 11 (fun _ => rfl) vars

/-- an argument-collecting state pushed on the context stack: names still resolve in the activation below it -/
theorem rel_pushArgs {W : World} {sc : Scope} {pre below : List CtxState} {s : St} {σ τ : Vm} (h : Rel W sc pre below s σ)
    (vs : List Val) (hc : τ.ctx = .args vs :: σ.ctx) (ho : τ.out = σ.out) (hd : τ.data = σ.data)
    (hi : τ.dataIdx = σ.dataIdx) (hq : τ.queue = σ.queue) (hf : τ.funRes = σ.funRes)
    (hcg : τ.glob = σ.glob := by rfl) (hcs : τ.statics = σ.statics := by rfl) :
    Rel W sc (.args vs :: pre) below s τ := by
  obtain ⟨fr, h1, h2, h3⟩ := h.ctx
  refine ⟨h.coll, h.self, ⟨fr, by rw [hc, h1]; rfl, ?_, h3⟩, h.typed, h.gl, by rw [hcg]; exact h.glob, h.gtyped,
    by rw [hcs]; exact h.stat, h.scok, by rw [ho, h.out], by rw [hd, h.data], by rw [hi, h.dataIdx],
    by rw [hq, h.queue], by rw [hf, h.funRes]⟩
  unfold Vm.curFrame at h2 ⊢
  rw [hc, hcs]; exact h2

/-- moving the READ cursor commutes with a store -/
theorem set_dataIdx (s : St) (x : Var) (w : Val) (n : Nat) :
    ({ s with dataIdx := n } : St).set x w = { s.set x w with dataIdx := n } := by
  unfold RbModel.Proc.Ref.St.set RbModel.Proc.Ref.St.setLocal
  cases x.shared
  · simp only [Bool.false_eq_true, if_false]
    cases s.self <;> rfl
  · rfl

/-- **one single-variable READ** -/
theorem one_read (W : World) (P : Program) (A : Act) (f : Nat) (x : Var) (t : Ty) (q p : Pos) (sc : Scope) (fd sd off : Nat)
    (below : List CtxState) (s : St) (σ : Vm)
    (hc : CodeAt W.code off (readBlock p (x, t, q))) (hpc : σ.pc = off) (hr : Rel W sc [] below s σ)
    (hx : sc.slots.get? x = some t) :
    StmtPost W sc below fd sd (off + 11) σ (ProcJ.Ref.exec P (f + 1) A (.read x t p) .run s) := by
  subst hpc
  simp only [readBlock] at hc
  obtain ⟨fr, hctx, hcf, hfr⟩ := hr.ctx
  have hctx : σ.ctx = topState sc fr :: below := hctx
  have h0 : W.code[σ.pc]? = some (CInstr.beginArgs, p) := hc.head
  have h1 : W.code[σ.pc + 1]? = some (CInstr.varPath x t, q) := hc.tail.head
  have h2 : W.code[σ.pc + 1 + 1]? = some (CInstr.copyVarPathToA, q) := hc.tail.tail.head
  have h3 : W.code[σ.pc + 1 + 1 + 1]? = some (CInstr.pushByRef, q) := hc.tail.tail.tail.head
  have h4 : W.code[σ.pc + 1 + 1 + 1 + 1]? = some (CInstr.pushStack, p) := hc.tail.tail.tail.tail.head
  have h5 : W.code[σ.pc + 1 + 1 + 1 + 1 + 1]? = some (CInstr.builtInRead, p) := hc.tail.tail.tail.tail.tail.head
  have h6 : W.code[σ.pc + 1 + 1 + 1 + 1 + 1 + 1]? = some (CInstr.enqueue 0, q) := hc.tail.tail.tail.tail.tail.tail.head
  have h7 : W.code[σ.pc + 1 + 1 + 1 + 1 + 1 + 1 + 1]? = some (CInstr.popStack, p) :=
    hc.tail.tail.tail.tail.tail.tail.tail.head
  have h8 : W.code[σ.pc + 1 + 1 + 1 + 1 + 1 + 1 + 1 + 1]? = some (CInstr.dequeue, q) :=
    hc.tail.tail.tail.tail.tail.tail.tail.tail.head
  have hst : CodeAt W.code (σ.pc + 1 + 1 + 1 + 1 + 1 + 1 + 1 + 1 + 1) (storeVar x t q) :=
    hc.tail.tail.tail.tail.tail.tail.tail.tail.tail
  -- the value the variable holds has the declared type
  let v0 : Val := s.get x t
  have htag : v0.tag = t := hr.get_tag hx
  -- the call with its one argument
  let σ1 : Vm := Vm.advance { σ with ctx := .args [] :: σ.ctx }
  let σ2 : Vm := Vm.advance { σ1 with paths := (x, t) :: σ1.paths }
  let σ3 : Vm := Vm.advance (Vm.setA σ2 v0)
  let σ4 : Vm := Vm.advance { σ3 with paths := σ.paths, ctx := .args [v0] :: σ.ctx }
  let σ5 : Vm := Vm.advance { σ4 with ctx := .frame [some v0] :: σ.ctx, trace := p :: σ.trace }
  have hr2 : Rel W sc [.args []] below s σ2 := rel_pushArgs hr [] rfl rfl rfl rfl rfl rfl
  have s1 : Vm.step W.code σ = .next σ1 := by simp only [Vm.step, h0]; rfl
  have s2 : Vm.step W.code σ1 = .next σ2 := by
    have h1' : W.code[σ1.pc]? = some (CInstr.varPath x t, q) := h1
    simp only [Vm.step, h1']; rfl
  have s3 : Vm.step W.code σ2 = .next σ3 := by
    have h2' : W.code[σ2.pc]? = some (CInstr.copyVarPathToA, q) := h2
    have hp2 : σ2.paths = (x, t) :: σ.paths := rfl
    have hgv : σ2.getV x t = some v0 := hr2.getV hx
    simp only [Vm.step, h2', hp2, hgv]; rfl
  have s4 : Vm.step W.code σ3 = .next σ4 := by
    have h3' : W.code[σ3.pc]? = some (CInstr.pushByRef, q) := h3
    have hp3 : σ3.paths = (x, t) :: σ.paths := rfl
    simp only [Vm.step, h3', hp3, pushArg]; rfl
  have s5 : Vm.step W.code σ4 = .next σ5 := by
    have h4' : W.code[σ4.pc]? = some (CInstr.pushStack, p) := h4
    have hc4 : σ4.ctx = .args [v0] :: σ.ctx := rfl
    simp only [Vm.step, h4', hc4]; rfl
  have pre : Steps W.code σ σ5 := Steps.cons s1 (Steps.cons s2 (Steps.cons s3 (Steps.cons s4 (Steps.one s5))))
  have hread : Vm.step W.code σ5 =
      match readVars [v0] s.data s.dataIdx with
      | .inr () => .error _root_.RbModel.Ref.codeOutOfData p σ5
      | .inl (.error e) => .error (RbModel.Proc.Vm.codeOf e) p σ5
      | .inl (.ok (vs', idx')) =>
        .next (Vm.advance { σ5 with ctx := .frame (vs'.map some) :: σ.ctx, dataIdx := idx' }) := by
    have h5' : W.code[σ5.pc]? = some (CInstr.builtInRead, p) := h5
    have hc5 : σ5.ctx = .frame [some v0] :: σ.ctx := rfl
    have hm : ([some v0] : Frame).mapM id = some [v0] := rfl
    have e : readVars [v0] σ5.data σ5.dataIdx = readVars [v0] s.data s.dataIdx := by
      have e2 : σ5.data = s.data := hr.data
      have e3 : σ5.dataIdx = s.dataIdx := hr.dataIdx
      rw [e2, e3]
    simp only [Vm.step, h5', hc5, hm]
    rw [e]; rfl
  simp only [ProcJ.Ref.exec]
  cases hd : s.data[s.dataIdx]? with
  | none =>
    simp only [StmtPost]
    refine ⟨σ5, σ5, pre, ?_, hr.out⟩
    rw [hread]; simp only [readVars, hd]; rfl
  | some v =>
    simp only
    cases hcst : Num.cast v t with
    | inexact => simp only [StmtPost]
    | err e =>
      simp only [StmtPost]
      refine ⟨σ5, σ5, pre, ?_, hr.out⟩
      rw [hread]; simp only [readVars, hd, htag, hcst]
    | ok w =>
      simp only [StmtPost]
      let σ6 : Vm := Vm.advance { σ5 with ctx := .frame [some w] :: σ.ctx, dataIdx := s.dataIdx + 1 }
      let σ7 : Vm := Vm.advance { σ6 with queue := σ6.queue ++ [w] }
      let σ8 : Vm := Vm.advance { σ7 with ctx := σ.ctx, trace := σ.trace }
      let σ9 : Vm := Vm.advance { Vm.setA σ8 w with queue := [] }
      have s6 : Vm.step W.code σ5 = .next σ6 := by
        rw [hread]; simp only [readVars, hd, htag, hcst]; rfl
      have s7 : Vm.step W.code σ6 = .next σ7 := by
        have h6' : W.code[σ6.pc]? = some (CInstr.enqueue 0, q) := h6
        have hcv : σ6.curFrame = some [some w] := rfl
        have hw0 : ([some w] : Frame)[0]? = some (some w) := rfl
        simp only [Vm.step, h6', hcv, hw0]; rfl
      have s8 : Vm.step W.code σ7 = .next σ8 := by
        have h7' : W.code[σ7.pc]? = some (CInstr.popStack, p) := h7
        have hc7 : σ7.ctx = .frame [some w] :: topState sc fr :: below := by
          show CtxState.frame [some w] :: σ.ctx = _
          rw [hctx]
        have ht7 : σ7.trace = p :: σ.trace := rfl
        have e8 : σ8 = Vm.advance { σ7 with ctx := topState sc fr :: below, trace := σ.trace } := by
          show Vm.advance { σ7 with ctx := σ.ctx, trace := σ.trace } = _
          rw [hctx]
        rw [e8]
        simp only [Vm.step, h7', hc7, ht7]
      have s9 : Vm.step W.code σ8 = .next σ9 := by
        have h8' : W.code[σ8.pc]? = some (CInstr.dequeue, q) := h8
        have hq8 : σ8.queue = [w] := by show σ.queue ++ [w] = [w]; rw [hr.queue]; rfl
        simp only [Vm.step, h8', hq8]; rfl
      have hr9 : Rel W sc [] below { s with dataIdx := s.dataIdx + 1 } σ9 :=
        hr.congr rfl rfl hr.out hr.data (by show s.dataIdx + 1 = s.dataIdx + 1; rfl) rfl hr.funRes
      have st9 : Steps W.code σ9 (storeSt σ9 x) := store_steps W.code x t q σ9 hst
      have hr10 := hr9.storeSt (x := x) hx (show σ9.regs.a.tag = t from cast_tag v t w hcst)
      rw [set_dataIdx] at hr10
      refine ⟨storeSt σ9 x, (pre.trans (Steps.cons s6 (Steps.cons s7 (Steps.cons s8 (Steps.one s9))))).trans st9,
        by rw [storeSt_pc]; rfl, hr10,
        SameStacks.trans (b := σ9) ⟨rfl, rfl, rfl, rfl, rfl, rfl, rfl, id⟩ (SameStacks.storeSt σ9 x)⟩

/-- no label is defined inside the rounds of a READ -/
theorem hasLabel_reads (x : Var) (t : Ty) (p : Pos) (rest : List (Var × Ty × Pos)) (L : Nat) :
    (Stmt.seq (.read x t p) (readSeq p rest)).hasLabel L = false := by
  simp [Stmt.hasLabel, Stmt.labels, labels_readSeq]

/-- the rounds of a READ statement: `readSeq` against the blocks, one unit of fuel per round -/
theorem reads_correct (W : World) (P : Program) (A : Act) (p : Pos) (sc : Scope) (fd sd : Nat) (below : List CtxState) :
    ∀ (vars : List (Var × Ty × Pos)) (fuel : Nat) (off : Nat) (σ : Vm) (s : St),
      CodeAt W.code off (vars.flatMap (readBlock p)) → σ.pc = off → Rel W sc [] below s σ →
      (∀ v ∈ vars, sc.slots.get? v.1 = some v.2.1) →
      StmtPost W sc below fd sd (off + 11 * vars.length) σ (ProcJ.Ref.exec P (fuel + 1) A (readSeq p vars) .run s)
  | [], fuel, off, σ, s, _, hpc, hr, _ => by
    simp only [readSeq, ProcJ.Ref.exec, StmtPost]
    exact ⟨σ, Steps.refl σ, by simp only [List.length_nil, Nat.mul_zero, Nat.add_zero, hpc], hr, SameStacks.refl σ⟩
  | (x, t, q) :: rest, fuel, off, σ, s, hc, hpc, hr, hw => by
    simp only [List.flatMap_cons] at hc
    have hnl := hasLabel_reads x t p rest
    simp only [readSeq, ProcJ.Ref.exec, Mode.enters, if_true]
    cases fuel with
    | zero => simp only [ProcJ.Ref.exec, StmtPost]
    | succ f =>
      have hx : sc.slots.get? x = some t := hw (x, t, q) (List.mem_cons_self ..)
      have h1 := one_read W P A f x t q p sc fd sd off below s σ hc.append_left hpc hr hx
      have hfin : off + 11 * ((x, t, q) :: rest).length = off + 11 + 11 * rest.length := by
        simp only [List.length_cons]; omega
      generalize ProcJ.Ref.exec P (f + 1) A (Stmt.read x t p) .run s = ra at h1 ⊢
      obtain ⟨s1, o1⟩ := ra
      cases o1 with
      | normal =>
        obtain ⟨τ, st, hp, hrel, hss⟩ := h1
        have hcr : CodeAt W.code (off + 11) (rest.flatMap (readBlock p)) := hc.append_right
        have h2 := reads_correct W P A p sc fd sd below rest f (off + 11) τ s1 hcr hp hrel
          (fun v hv => hw v (List.mem_cons_of_mem _ hv))
        have h3 := StmtPost.of_steps st hss (h2.addr hfin.symm)
        simp only
        generalize ProcJ.Ref.exec P (f + 1) A (readSeq p rest) .run s1 = rb at h3 ⊢
        obtain ⟨s2, o2⟩ := rb
        cases o2 with
        | jump L => simp only [hnl, Bool.false_eq_true, if_false]; exact h3
        | normal => exact h3
        | exited => exact h3
        | halted => exact h3
        | ret q' => exact h3
        | error c q' => exact h3
        | inexact => trivial
        | outOfFuel => trivial
        | illFormed => trivial
        | notHere => trivial
      | jump L => simp only [hnl, Bool.false_eq_true, if_false]; exact h1
      | exited => exact h1
      | halted => exact h1
      | ret q' => exact h1
      | error c q' => exact h1
      | inexact => trivial
      | outOfFuel => trivial
      | illFormed => trivial
      | notHere => trivial

end RbThm.ProcJSim.PjRead

namespace RbThm.ProcJSim
open RbModel RbModel.ProcJ RbModel.ProcJ.Compile RbModel.ProcJ.Vm
open RbModel.Num hiding Expr
open RbModel.Ast (Pos)
open RbModel.Proc (Var SlotTabs Expr Args PrintItem CaseExpr ProcDecl zeroOf Sigs sigsOf)
open RbModel.Proc.Compile (Layout Layout.addr sizeExpr sizePush refCount sizeExprTo sizeSubCall sizeItems sizeCaseExpr sizeConds
  sizeExit labelName stepSuffix maxPos)
open RbModel.Proc.Vm (Regs Regs.new Frame CtxState getVar setVar curVars modCur curStatic applyArgs readVars binInstr)
open RbModel.ProcJ.Ref (Outcome Mode Act)
open RbThm.ProcJLen RbThm.ProcJSim.PjRead
open RbThm.ProcSim (Scope topState)

/-- **READ**: one call of the built-in per variable (`READ a, b` = `READ a : READ b`).  A READ without variables is an
empty call. -/
theorem case_read (W : World) (B : BodyCtx) (fuel : Nat) (vars : List (Var × Ty × Pos)) (p : Pos)
    (sfx : String) (fd sd off : Nat) (m : Mode) (below : List CtxState) (s : St) (σ : Vm)
    (hc : CodeAt W.code off (compileStmt W.lay W.env sfx fd sd off (.read vars p)))
    (hw : Wf W.sg B.sc W.env.dp B.body.labels fd sd (.read vars p))
    (hen : Entry W.env off (.read vars p) m σ) (hr : Rel W B.sc [] below s σ) :
    StmtPost W B.sc below fd sd (off + sizeStmt W.env.dp fd sd (.read vars p)) σ
      (ProcJ.Ref.exec W.P (fuel + 1) B.act (desugar (.read vars p)) m s) := by
  obtain ⟨rfl, hpc⟩ := hen.of_nolabels rfl
  rw [compile_read] at hc
  simp only [Wf] at hw
  cases vars with
  | nil =>
    simp only [List.isEmpty_nil, if_true] at hc
    subst hpc
    obtain ⟨fr, hctx, hcf, hfr⟩ := hr.ctx
    have hctx : σ.ctx = topState B.sc fr :: below := hctx
    have h0 : W.code[σ.pc]? = some (CInstr.beginArgs, p) := hc.head
    have h1 : W.code[σ.pc + 1]? = some (CInstr.pushStack, p) := hc.tail.head
    have h2 : W.code[σ.pc + 1 + 1]? = some (CInstr.builtInRead, p) := hc.tail.tail.head
    have h3 : W.code[σ.pc + 1 + 1 + 1]? = some (CInstr.popStack, p) := hc.tail.tail.tail.head
    let σ1 : Vm := Vm.advance { σ with ctx := .args [] :: σ.ctx }
    let σ2 : Vm := Vm.advance { σ1 with ctx := .frame [] :: σ.ctx, trace := p :: σ.trace }
    let σ3 : Vm := Vm.advance { σ2 with ctx := .frame [] :: σ.ctx, dataIdx := σ.dataIdx }
    let σ4 : Vm := Vm.advance { σ3 with ctx := topState B.sc fr :: below, trace := σ.trace }
    have s1 : Vm.step W.code σ = .next σ1 := by simp only [Vm.step, h0]; rfl
    have s2 : Vm.step W.code σ1 = .next σ2 := by
      have h1' : W.code[σ1.pc]? = some (CInstr.pushStack, p) := h1
      have hc1 : σ1.ctx = .args [] :: σ.ctx := rfl
      simp only [Vm.step, h1', hc1]; rfl
    have s3 : Vm.step W.code σ2 = .next σ3 := by
      have h2' : W.code[σ2.pc]? = some (CInstr.builtInRead, p) := h2
      have hc2 : σ2.ctx = .frame [] :: σ.ctx := rfl
      have hm : ([] : Frame).mapM id = some [] := rfl
      simp only [Vm.step, h2', hc2, hm, readVars]; rfl
    have s4 : Vm.step W.code σ3 = .next σ4 := by
      have h3' : W.code[σ3.pc]? = some (CInstr.popStack, p) := h3
      have hc3 : σ3.ctx = .frame [] :: topState B.sc fr :: below := by
        show CtxState.frame [] :: σ.ctx = _
        rw [hctx]
      have ht3 : σ3.trace = p :: σ.trace := rfl
      simp only [Vm.step, h3', hc3, ht3]; rfl
    simp only [desugar, readSeq, ProcJ.Ref.exec, sizeStmt, List.isEmpty_nil, if_true, StmtPost]
    refine ⟨σ4, Steps.cons s1 (Steps.cons s2 (Steps.cons s3 (Steps.one s4))), rfl, ?_,
      ⟨rfl, rfl, rfl, rfl, rfl, rfl, rfl, id⟩⟩
    exact hr.same hctx.symm rfl rfl rfl rfl rfl
  | cons v rest =>
    simp only [List.isEmpty_cons, Bool.false_eq_true, if_false] at hc
    have h := reads_correct W W.P B.act p B.sc fd sd below (v :: rest) fuel off σ s hc hpc hr hw
    simp only [desugar, sizeStmt, List.isEmpty_cons, Bool.false_eq_true, if_false]
    exact h

end RbThm.ProcJSim
