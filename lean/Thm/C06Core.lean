import Thm.C06
import Thm.C01Sim
/-!
C06 over the whole core language.

`Thm/C06.lean` proves the property for single conversions, single operators and an expression/store step.
Here it is carried through every run of the reference semantics of the core language (`RbModel.Ref.exec`:
sequencing, assignment, DIM, PRINT, READ, IF / ELSEIF / ELSE, SELECT CASE, FOR with and without STEP, WHILE,
the four DO forms, END), whose agreement with the code the instruction generator emits is `C01_core_correct`
(`Thm/C01Sim.lean`; the generator model `Core.compileStmt` is compared with the real generator instruction for
instruction on every run of the C01 check).

* `exec_inrange` — along every run, **however it ends** (normally, END, BASIC error, out of the exact float
  domain, out of fuel), every variable holds a value of its declared type within that type's range.
* `assign_stores_conversion`, `for_increment_stores_conversion`, `read_stores_conversion` — what is stored is the
  QBasic conversion of the source value (identity when the static type is the variable's type, else `Num.cast`:
  nearest whole number, ties away from zero), and when the conversion fails the run stops with its error code
  (6 = Overflow, exactly when the rounded value is outside the range: `cast_overflow_iff`) and nothing is stored.
* `stores_are_cast_*` — the generator model emits the conversion in front of every store (syntactic).
* `core_run_inrange` — corollary over `C01_core_correct`: the VM running the generated code halts with every
  variable of its environment typed and in range.
-/
namespace RbThm.C06Core
open RbModel RbModel.Num RbModel.Ast RbModel.Src RbModel.Core RbModel.CoreVm RbModel.Ref
open RbThm.C06 RbThm.C01Sim RbThm.C01Sim.SimRead

/-! ### hypotheses: literals and DATA items are values of their own types -/

/-- every literal of the expression is in range for its own tag (what the parser produces) -/
def LitsInRange : Ast.Expr → Prop
  | .lit v _ => v.InRange
  | .var _ _ _ => True
  | .un _ e _ => LitsInRange e
  | .bin _ l r _ _ => LitsInRange l ∧ LitsInRange r
  | .paren e _ => LitsInRange e

mutual
/-- the expressions whose values are stored (assigned expressions, FOR start values) have in-range literals -/
def RangeWf : Stmt → Prop
  | .skip => True
  | .seq a b => RangeWf a ∧ RangeWf b
  | .assign _ _ e _ => LitsInRange e
  | .print _ _ => True
  | .read _ _ _ => True
  | .ifs _ thn els _ => RangeWf thn ∧ RangeWf els
  | .select _ cases _ => RangeWfC cases
  | .forLoop _ _ lo _ _ body _ => LitsInRange lo ∧ RangeWf body
  | .while _ body _ => RangeWf body
  | .doLoop _ _ _ body _ => RangeWf body
  | .end_ _ => True
def RangeWfC : Cases → Prop
  | .nil => True
  | .else_ body => RangeWf body
  | .case _ body rest => RangeWf body ∧ RangeWfC rest
end

/-- the invariant: every variable holds a value of its declared type (`Typed`), every value of the
environment is in range for its tag, and so is every DATA item -/
def Good (sl : List Ty) (s : St) : Prop :=
  Typed sl s.env ∧ (∀ v ∈ s.env, v.InRange) ∧ (∀ v ∈ s.data, v.InRange)

/-! ### helper lemmas -/

theorem zeroOf_inRange (t : Ty) : (Ref.zeroOf t).InRange := by cases t <;> decide +kernel

theorem getD_inRange {env : List Val} (h : ∀ v ∈ env, v.InRange) (x : Nat) {d : Val} (hd : d.InRange) :
    (env.getD x d).InRange := by
  simp only [List.getD]
  cases hx : env[x]? with
  | none => simpa using hd
  | some v => simpa using h v (List.mem_of_getElem? hx)

theorem set_inRange {env : List Val} (h : ∀ v ∈ env, v.InRange) (x : Nat) {w : Val} (hw : w.InRange) :
    ∀ v ∈ env.set x w, v.InRange := by
  intro v hv
  rcases List.mem_or_eq_of_mem_set hv with h1 | h1
  · exact h v h1
  · exact h1 ▸ hw

theorem good_set {sl : List Ty} {s : St} (h : Good sl s) {x : Nat} {t : Ty} {w : Val}
    (hx : sl[x]? = some t) (ht : w.tag = t) (hr : w.InRange) : Good sl (s.set x w) :=
  ⟨typed_set h.1 hx ht, set_inRange h.2.1 x hr, h.2.2⟩

theorem good_of_env {sl : List Ty} {s s' : St} (h : Good sl s) (he : s'.env = s.env) (hd : s'.data = s.data) :
    Good sl s' := by
  unfold Good; rw [he, hd]; exact h

theorem binStep_inRange (op : Op) (t : Ty) (a b w : Val) (ha : a.InRange) (hb : b.InRange)
    (h : binStep op t a b = .ok w) : w.InRange := by
  by_cases hd : op = .divide
  · subst hd
    simp only [binStep] at h
    obtain ⟨q, hq, hc⟩ := res_bind_ok h
    exact (cast_sound q t w (divide_inRange a b q hq) hc).2
  · have hb' : binStep op t a b = vmBin Gen.NumTables.binType op a b := by
      cases op <;> first | rfl | exact absurd rfl hd
    rw [hb'] at h
    exact (op_result_typed op a b w ha hb h).2

/-- expressions evaluate to in-range values in an in-range environment -/
theorem eval_inRange (env : List Val) (henv : ∀ v ∈ env, v.InRange) :
    ∀ (e : Ast.Expr) (v : Val), LitsInRange e → eval env e = .ok v → v.InRange := by
  intro e
  induction e with
  | lit w p => intro v hl h; simp only [eval] at h; cases h; exact hl
  | var x t p => intro v _ h; simp only [eval] at h; cases h; exact getD_inRange henv x (zeroOf_inRange t)
  | un op e p ih =>
    intro v hl h
    cases op with
    | neg =>
      simp only [eval] at h
      obtain ⟨a, ha, hn⟩ := eres_bind_ok h
      exact (negate_typed a v (ih a hl ha) (lift_ok hn)).2
    | not =>
      simp only [eval] at h
      obtain ⟨a, ha, hn⟩ := eres_bind_ok h
      exact (unaryNot_typed a v (ih a hl ha) (lift_ok hn)).2
  | paren e p ih => intro v hl h; simp only [eval] at h; exact ih v hl h
  | bin op l r t p ihl ihr =>
    intro v hl h
    simp only [eval] at h
    obtain ⟨a, ha, h⟩ := eres_bind_ok h
    obtain ⟨b, hb, h⟩ := eres_bind_ok h
    exact binStep_inRange op t a b v (ihl a hl.1 ha) (ihr b hl.2 hb) (lift_ok h)

/-- evaluate-and-convert yields a value of the target type within its range -/
theorem evalTo_good (sl : List Ty) (s : St) (hg : Good sl s) (e : Ast.Expr) (t : Ty) (v : Val)
    (hw : ExprWt sl e) (hl : LitsInRange e) (h : evalTo s.env e t = .ok v) : v.tag = t ∧ v.InRange := by
  refine ⟨evalTo_tag sl s.env hg.1 e t v hw h, ?_⟩
  unfold evalTo at h
  obtain ⟨a, ha, h⟩ := eres_bind_ok h
  have har := eval_inRange s.env hg.2.1 e a hl ha
  exact (storeCast_typed e.ty t a v (eval_tag sl s.env hg.1 e a hw ha) har (lift_ok h)).2

theorem evalE_inRange (env : List Val) (henv : ∀ v ∈ env, v.InRange) (e : Ast.Expr) (v : Val)
    (hl : LitsInRange e) (h : evalE env e = .ok v) : v.InRange := by
  unfold evalE at h
  cases he : eval env e with
  | ok w => rw [he] at h; cases h; exact eval_inRange env henv e _ hl he
  | err c p => rw [he] at h; cases h
  | inexact => rw [he] at h; cases h

/-- the FOR increment: `counter + step`, converted to the counter's type, is a value of that type in range
whatever the step value is (`+` range-checks or answers Overflow; the conversion range-checks again) -/
theorem increment_good (cur sv u : Val) (t : Ty) (h : (plus cur sv).bind (fun v => Num.cast v t) = .ok u) :
    u.tag = t ∧ u.InRange := by
  obtain ⟨w, hw, hc⟩ := res_bind_ok h
  exact cast_sound w t u (arith_typed .add cur sv w hw).2 hc

/-! ### the invariant along every run -/

/-- preservation at a given amount of fuel, for the three mutually recursive functions, for every outcome -/
def Pres (sl : List Ty) (fuel : Nat) : Prop :=
  (∀ stmt s s' o, WfA sl stmt → RangeWf stmt → Good sl s → exec fuel stmt s = (s', o) → Good sl s') ∧
  (∀ p subj cs s s' o, WfAC sl cs → RangeWfC cs → Good sl s → execCases fuel p subj cs s = (s', o) → Good sl s') ∧
  (∀ x t h sv up body p s s' o, sl[x]? = some t → WfA sl body → RangeWf body → Good sl s →
      forIter fuel x t h sv up body p s = (s', o) → Good sl s')

theorem printItems_data (items : List PrintItem) : ∀ (s s' : St) (o : Outcome),
    printItems s items = (s', o) → s'.data = s.data := by
  induction items with
  | nil => intro s s' o h; simp only [printItems] at h; cases h; rfl
  | cons it rest ih =>
    intro s s' o h
    cases it with
    | comma => simp only [printItems] at h; have := ih _ _ _ h; exact this
    | semicolon => simp only [printItems] at h; exact ih _ _ _ h
    | expr e =>
      simp only [printItems] at h
      cases hev : eval s.env e with
      | err c q => simp only [hev] at h; cases h; rfl
      | inexact => simp only [hev] at h; cases h; rfl
      | ok v =>
        simp only [hev] at h
        cases hpv : printValue v with
        | none => simp only [hpv] at h; cases h; rfl
        | some pv => simp only [hpv] at h; have := ih _ _ _ h; exact this

theorem pres_zero (sl : List Ty) : Pres sl 0 := by
  refine ⟨?_, ?_, ?_⟩
  · intro stmt s s' o _ _ hg h; simp only [exec] at h; cases h; exact hg
  · intro p subj cs s s' o _ _ hg h; simp only [execCases] at h; cases h; exact hg
  · intro x t hv sv up body p s s' o _ _ _ hg h; simp only [forIter] at h; cases h; exact hg

theorem pres_succ (sl : List Ty) (n : Nat) (ih : Pres sl n) : Pres sl (n + 1) := by
  obtain ⟨ihE, ihC, ihF⟩ := ih
  refine ⟨?_, ?_, ?_⟩
  · intro stmt s s' o hw hr hg h
    cases stmt with
    | skip => simp only [exec] at h; cases h; exact hg
    | seq a b =>
      simp only [WfA] at hw
      simp only [RangeWf] at hr
      simp only [exec] at h
      generalize hra : exec n a s = r at h
      obtain ⟨s1, o1⟩ := r
      have hg1 := ihE a s s1 o1 hw.1 hr.1 hg hra
      cases o1 with
      | normal => simp only at h; exact ihE b s1 s' o hw.2 hr.2 hg1 h
      | halted => simp only at h; cases h; exact hg1
      | error c q => simp only at h; cases h; exact hg1
      | inexact => simp only at h; cases h; exact hg1
      | outOfFuel => simp only at h; cases h; exact hg1
    | assign x t e p =>
      simp only [WfA] at hw
      simp only [RangeWf] at hr
      simp only [exec] at h
      cases hev : evalTo s.env e t with
      | err c q => simp only [hev] at h; cases h; exact hg
      | inexact => simp only [hev] at h; cases h; exact hg
      | ok v =>
        simp only [hev] at h; cases h
        obtain ⟨h1, h2⟩ := evalTo_good sl s hg e t v hw.2 hr hev
        exact good_set hg hw.1 h1 h2
    | print items p =>
      simp only [exec] at h
      generalize hri : printItems s items = r at h
      obtain ⟨s1, o1⟩ := r
      have he := printItems_env items s s1 o1 hri
      have hd : s1.data = s.data := printItems_data items s s1 o1 hri
      have hg1 : Good sl s1 := good_of_env hg he hd
      cases o1 with
      | normal =>
        simp only at h
        split at h
        · cases h; exact hg1
        · cases h; exact good_of_env hg1 rfl rfl
      | halted => simp only at h; cases h; exact hg1
      | error c q => simp only at h; cases h; exact hg1
      | inexact => simp only at h; cases h; exact hg1
      | outOfFuel => simp only at h; cases h; exact hg1
    | read x t p =>
      simp only [WfA] at hw
      simp only [exec] at h
      cases hd : s.data[s.dataIdx]? with
      | none => simp only [hd] at h; cases h; exact hg
      | some v =>
        simp only [hd] at h
        have hv : v.InRange := hg.2.2 v (List.mem_of_getElem? hd)
        cases hc : Num.cast v t with
        | err e => simp only [hc] at h; cases h; exact hg
        | inexact => simp only [hc] at h; cases h; exact hg
        | ok w =>
          simp only [hc] at h; cases h
          obtain ⟨h1, h2⟩ := cast_sound v t w hv hc
          exact good_of_env (good_set hg hw h1 h2) rfl rfl
    | ifs c thn els p =>
      simp only [WfA] at hw
      simp only [RangeWf] at hr
      simp only [exec] at h
      cases hc : evalCond s.env c with
      | error o' => simp only [hc] at h; cases h; exact hg
      | ok b =>
        cases b with
        | true => simp only [hc] at h; exact ihE thn s s' o hw.1 hr.1 hg h
        | false => simp only [hc] at h; exact ihE els s s' o hw.2 hr.2 hg h
    | select e cases p =>
      simp only [WfA] at hw
      simp only [RangeWf] at hr
      simp only [exec] at h
      cases he : evalE s.env e with
      | error o' => simp only [he] at h; cases h; exact hg
      | ok subj => simp only [he] at h; exact ihC p subj cases s s' o hw hr hg h
    | forLoop x t lo hi step body p =>
      simp only [WfA] at hw
      simp only [RangeWf] at hr
      obtain ⟨hx, hlo, hwb⟩ := hw
      simp only [exec] at h
      cases hl : evalTo s.env lo t with
      | err c q => simp only [hl] at h; cases h; exact hg
      | inexact => simp only [hl] at h; cases h; exact hg
      | ok l =>
        simp only [hl] at h
        obtain ⟨l1, l2⟩ := evalTo_good sl s hg lo t l hlo hr.1 hl
        have hg1 : Good sl (s.set x l) := good_set hg hx l1 l2
        cases hh : evalTo (s.set x l).env hi t with
        | err c q => simp only [hh] at h; cases h; exact hg1
        | inexact => simp only [hh] at h; cases h; exact hg1
        | ok hv =>
          simp only [hh] at h
          cases step with
          | none => simp only at h; exact ihF x t hv _ true body p _ s' o hx hwb hr.2 hg1 h
          | some se =>
            simp only at h
            cases hs : evalE (s.set x l).env se with
            | error o' => simp only [hs] at h; cases h; exact hg1
            | ok sv =>
              simp only [hs] at h
              cases hsg : stepSign p sv with
              | error o' => simp only [hsg] at h; cases h; exact hg1
              | ok sg =>
                cases sg with
                | neg => simp only [hsg] at h; exact ihF x t hv sv false body p _ s' o hx hwb hr.2 hg1 h
                | pos => simp only [hsg] at h; exact ihF x t hv sv true body p _ s' o hx hwb hr.2 hg1 h
                | zero => simp only [hsg] at h; cases h; exact hg1
    | «while» c body p =>
      have hw0 := hw
      have hr0 := hr
      simp only [WfA] at hw
      simp only [RangeWf] at hr
      simp only [exec] at h
      cases hc : evalCond s.env c with
      | error o' => simp only [hc] at h; cases h; exact hg
      | ok b =>
        cases b with
        | false => simp only [hc] at h; cases h; exact hg
        | true =>
          simp only [hc] at h
          generalize hrb : exec n body s = r at h
          obtain ⟨s1, o1⟩ := r
          have hg1 := ihE body s s1 o1 hw hr hg hrb
          cases o1 with
          | normal => simp only at h; exact ihE _ s1 s' o hw0 hr0 hg1 h
          | halted => simp only at h; cases h; exact hg1
          | error c q => simp only at h; cases h; exact hg1
          | inexact => simp only at h; cases h; exact hg1
          | outOfFuel => simp only at h; cases h; exact hg1
    | doLoop c top until_ body p =>
      have hw0 := hw
      have hr0 := hr
      simp only [WfA] at hw
      simp only [RangeWf] at hr
      simp only [exec] at h
      cases top with
      | true =>
        simp only [if_true] at h
        cases hc : evalCond s.env c with
        | error o' => simp only [hc] at h; cases h; exact hg
        | ok b =>
          simp only [hc] at h
          by_cases hb : (b != until_) = true
          · simp only [hb, if_true] at h
            generalize hrb : exec n body s = r at h
            obtain ⟨s1, o1⟩ := r
            have hg1 := ihE body s s1 o1 hw hr hg hrb
            cases o1 with
            | normal => simp only at h; exact ihE _ s1 s' o hw0 hr0 hg1 h
            | halted => simp only at h; cases h; exact hg1
            | error c q => simp only at h; cases h; exact hg1
            | inexact => simp only at h; cases h; exact hg1
            | outOfFuel => simp only at h; cases h; exact hg1
          · simp only [hb] at h; cases h; exact hg
      | false =>
        simp only [Bool.false_eq_true, if_false] at h
        generalize hrb : exec n body s = r at h
        obtain ⟨s1, o1⟩ := r
        have hg1 := ihE body s s1 o1 hw hr hg hrb
        cases o1 with
        | normal =>
          simp only at h
          cases hc : evalCond s1.env c with
          | error o' => simp only [hc] at h; cases h; exact hg1
          | ok b =>
            simp only [hc] at h
            by_cases hb : (b != until_) = true
            · simp only [hb, if_true] at h; exact ihE _ s1 s' o hw0 hr0 hg1 h
            · simp only [hb] at h; cases h; exact hg1
        | halted => simp only at h; cases h; exact hg1
        | error c q => simp only at h; cases h; exact hg1
        | inexact => simp only at h; cases h; exact hg1
        | outOfFuel => simp only at h; cases h; exact hg1
    | end_ p => simp only [exec] at h; cases h; exact hg
  · intro p subj cs s s' o hw hr hg h
    cases cs with
    | nil => simp only [execCases] at h; cases h; exact hg
    | else_ body =>
      simp only [WfAC] at hw; simp only [RangeWfC] at hr
      simp only [execCases] at h; exact ihE body s s' o hw hr hg h
    | case conds body rest =>
      simp only [WfAC] at hw
      simp only [RangeWfC] at hr
      simp only [execCases] at h
      cases hm : anyMatches s.env p subj conds with
      | error o' => simp only [hm] at h; cases h; exact hg
      | ok b =>
        cases b with
        | true => simp only [hm] at h; exact ihE body s s' o hw.1 hr.1 hg h
        | false => simp only [hm] at h; exact ihC p subj rest s s' o hw.2 hr.2 hg h
  · intro x t hv sv up body p s s' o hx hwb hrb hg h
    simp only [forIter] at h
    generalize hr0 : relTest p (if up = true then Op.lessOrEqual else Op.greaterOrEqual)
        (s.env.getD x (Ref.zeroOf t)) hv = rt at h
    cases rt with
    | error o' => simp only at h; cases h; exact hg
    | ok b =>
      cases b with
      | false => simp only at h; cases h; exact hg
      | true =>
        simp only at h
        generalize hre : exec n body s = r at h
        obtain ⟨s1, o1⟩ := r
        have hg1 := ihE body s s1 o1 hwb hrb hg hre
        cases o1 with
        | normal =>
          simp only at h
          generalize hp : (plus (s1.env.getD x (Ref.zeroOf t)) sv).bind (fun v => Num.cast v t) = pr at h
          cases pr with
          | ok v =>
            simp only at h
            obtain ⟨h1, h2⟩ := increment_good _ sv v t hp
            exact ihF x t hv sv up body p _ s' o hx hwb hrb (good_set hg1 hx h1 h2) h
          | err e => simp only at h; cases h; exact hg1
          | inexact => simp only at h; cases h; exact hg1
        | halted => simp only at h; cases h; exact hg1
        | error c q => simp only at h; cases h; exact hg1
        | inexact => simp only at h; cases h; exact hg1
        | outOfFuel => simp only at h; cases h; exact hg1

theorem pres_all (sl : List Ty) : ∀ n, Pres sl n
  | 0 => pres_zero sl
  | n + 1 => pres_succ sl n (pres_all sl n)


/-! ### the property-level theorems -/

/-- what `Good` says about a single variable -/
theorem Good.var {sl : List Ty} {s : St} (h : Good sl s) {x : Nat} {t : Ty} (hx : sl[x]? = some t) :
    ∃ v, s.env[x]? = some v ∧ v.tag = t ∧ v.InRange := by
  obtain ⟨v, hv, ht⟩ := h.1.2 x t hx
  exact ⟨v, hv, ht, h.2.1 v (List.mem_of_getElem? hv)⟩

/-- **`exec_inrange`** — every statement of the core language (sequencing, DIM, assignment, PRINT, READ,
IF / ELSEIF / ELSE, SELECT CASE, FOR with and without STEP, WHILE, the four DO forms, END), any amount of fuel,
**any outcome** (normal end, END, BASIC error, out of the exact float domain, out of fuel): if before the statement
every variable holds a value of its declared type within that type's range, then so it does afterwards.
Hypotheses: the statement is well formed (what the checker establishes, `Wf`), the literals of the stored
expressions are values of their own types (`RangeWf`, what the parser produces), the DATA items are in range. -/
theorem exec_inrange (sl : List Ty) (fuel : Nat) (stmt : SStmt) (s s' : St) (o : Outcome)
    (hw : Wf sl stmt) (hr : RangeWf (desugar stmt)) (hg : Good sl s)
    (h : exec fuel (desugar stmt) s = (s', o)) : Good sl s' :=
  (pres_all sl fuel).1 (desugar stmt) s s' o (wfA_desugar sl stmt hw) hr hg h

theorem wfA_top (sl : List Ty) : ∀ body : SStmt, WfTop sl body → WfA sl (desugar body)
  | .seq a b, h => by
    simp only [WfTop] at h
    simp only [desugar, WfA]
    exact ⟨wfA_top sl a h.1, wfA_top sl b h.2⟩
  | .data _ _, _ => by simp only [desugar, WfA]
  | .skip, h => wfA_desugar sl _ h
  | .comment, h => wfA_desugar sl _ h
  | .dim _ _ _, h => wfA_desugar sl _ h
  | .assign _ _ _ _, h => wfA_desugar sl _ h
  | .print _ _, h => wfA_desugar sl _ h
  | .read _ _, h => wfA_desugar sl _ h
  | .ifBlock _ _ _ _ _ _, h => wfA_desugar sl _ h
  | .select _ _ _ _ _, h => wfA_desugar sl _ h
  | .forLoop _ _ _ _ _ _ _, h => wfA_desugar sl _ h
  | .while _ _ _, h => wfA_desugar sl _ h
  | .doLoop _ _ _ _ _, h => wfA_desugar sl _ h
  | .end_ _, h => wfA_desugar sl _ h

theorem good_start (prog : SProgram) (hd : ∀ v ∈ dataOf prog.body, v.InRange) :
    Good prog.slots (startSt prog) := by
  refine ⟨typed_init prog.slots, ?_, hd⟩
  intro v hv
  simp only [startSt, List.mem_map] at hv
  obtain ⟨t, _, rfl⟩ := hv
  exact zeroOf_inRange t

/-- **`run_inrange`** — whole programs: however the run of a well-formed core program ends, every variable holds
a value of its declared type within that type's range. -/
theorem run_inrange (prog : SProgram) (fuel : Nat) (hw : WfTop prog.slots prog.body)
    (hr : RangeWf (desugar prog.body)) (hd : ∀ v ∈ dataOf prog.body, v.InRange) :
    Good prog.slots (Ref.run fuel prog.toAst).1 := by
  rw [run_eq]
  exact (pres_all prog.slots fuel).1 (desugar prog.body) (startSt prog) _ _
    (wfA_top prog.slots prog.body hw) hr (good_start prog hd) rfl

/-- **`core_run_inrange`** — corollary over `C01_core_correct`: when the reference run ends (normally or with END),
the VM model running the code the generator model emits reaches `Halt` with an environment in which every variable
has its declared type and is within that type's range. -/
theorem core_run_inrange (prog : SProgram) (fuel : Nat) (hw : WfTop prog.slots prog.body)
    (hr : RangeWf (desugar prog.body)) (hd : ∀ v ∈ dataOf prog.body, v.InRange) :
    match Ref.run fuel prog.toAst with
    | (_, .normal) => ∃ τ υ, Steps (compile prog) (Vm.init prog.slots) τ ∧
        CoreVm.step (compile prog) τ = .halt υ ∧ Typed prog.slots υ.env ∧ ∀ v ∈ υ.env, v.InRange
    | (_, .halted) => ∃ τ υ, Steps (compile prog) (Vm.init prog.slots) τ ∧
        CoreVm.step (compile prog) τ = .halt υ ∧ Typed prog.slots υ.env ∧ ∀ v ∈ υ.env, v.InRange
    | _ => True := by
  have h1 := C01_core_correct prog fuel hw
  have h2 := run_inrange prog fuel hw hr hd
  generalize Ref.run fuel prog.toAst = r at h1 h2
  obtain ⟨s', o⟩ := r
  cases o with
  | normal =>
    obtain ⟨τ, υ, a, b, he, _⟩ := h1
    exact ⟨τ, υ, a, b, he ▸ h2.1, he ▸ h2.2.1⟩
  | halted =>
    obtain ⟨τ, υ, a, b, he, _⟩ := h1
    exact ⟨τ, υ, a, b, he ▸ h2.1, he ▸ h2.2.1⟩
  | error c p => trivial
  | inexact => trivial
  | outOfFuel => trivial

/-! ### what is stored is the conversion of the source value, or the run stops with the conversion's error -/

/-- **assignment** (`x = e`, also DIM and FOR's start value): with `v` the value of `e`, either the conversion of
`v` to the variable's type (`storeCast`: identity when the static type of `e` is the variable's type, else
`Num.cast`) yields `w` and exactly `w` is stored; or the conversion fails with `er` and the statement ends with the
error code of `er` (Overflow = 6) at the position of `e`, nothing stored; or the execution leaves the exact domain. -/
theorem assign_stores_conversion (fuel x : Nat) (t : Ty) (e : Ast.Expr) (p : Pos) (s : St) (v : Val)
    (hev : eval s.env e = .ok v) :
    (∃ w, storeCast e.ty t v = .ok w ∧ exec (fuel + 1) (.assign x t e p) s = (s.set x w, .normal)) ∨
    (∃ er, storeCast e.ty t v = .err er ∧ exec (fuel + 1) (.assign x t e p) s = (s, .error (codeOf er) e.pos)) ∨
    (storeCast e.ty t v = .inexact ∧ exec (fuel + 1) (.assign x t e p) s = (s, .inexact)) := by
  cases hc : storeCast e.ty t v with
  | ok w => exact .inl ⟨w, rfl, by simp [exec, evalTo, hev, ERes.bind, hc, lift]⟩
  | err er => exact .inr (.inl ⟨er, rfl, by simp [exec, evalTo, hev, ERes.bind, hc, lift]⟩)
  | inexact => exact .inr (.inr ⟨rfl, by simp [exec, evalTo, hev, ERes.bind, hc, lift]⟩)

theorem codeOf_overflow (er : Err) : codeOf er = 6 ↔ er = .overflow := by cases er <;> simp [codeOf]

/-- **Overflow instead of storing**: assigning a numeric value `q` of another static type to an INTEGER or LONG
variable stops with Overflow (6) at the expression exactly when `q` rounded to the nearest whole number (ties away
from zero) lies outside the variable's range; otherwise exactly that rounded number is stored. -/
theorem assign_overflow_iff (fuel x : Nat) (t : Ty) (e : Ast.Expr) (p : Pos) (s : St) (v : Val) (q : Rat)
    (lo hi : Int) (ht : tyBounds t = some (lo, hi)) (hne : e.ty ≠ t)
    (hev : eval s.env e = .ok v) (hq : v.toRat? = some q) (hv : v.InRange) :
    (exec (fuel + 1) (.assign x t e p) s = (s, .error 6 e.pos) ↔ ¬ (lo ≤ roundHA q ∧ roundHA q ≤ hi)) ∧
    ((lo ≤ roundHA q ∧ roundHA q ≤ hi) →
      ∃ w, exec (fuel + 1) (.assign x t e p) s = (s.set x w, .normal) ∧ w.tag = t ∧
        w.toRat? = some ((roundHA q : Int) : Rat)) := by
  have hsc : storeCast e.ty t v = Num.cast v t := by simp [storeCast, hne]
  have hov := cast_overflow_iff v t q lo hi ht hq hv
  rcases assign_stores_conversion fuel x t e p s v hev with ⟨w, hw, hx⟩ | ⟨er, her, hx⟩ | ⟨hin, hx⟩
  · rw [hsc] at hw
    have hnot : ¬ Num.cast v t = .err .overflow := by rw [hw]; simp
    have hin : lo ≤ roundHA q ∧ roundHA q ≤ hi := Classical.not_not.mp (fun hn => hnot (hov.mpr hn))
    refine ⟨⟨fun h => ?_, fun h => absurd hin h⟩, fun _ => ⟨w, hx, (cast_sound v t w hv hw).1,
      (cast_rounds v t w q lo hi ht hq hv hw).1⟩⟩
    rw [hx] at h
    have := congrArg Prod.snd h
    cases this
  · rw [hsc] at her
    by_cases hov' : er = .overflow
    · subst hov'
      have hout := hov.mp her
      exact ⟨⟨fun _ => hout, fun _ => by rw [hx]; rfl⟩, fun h => absurd h hout⟩
    · have hno : ¬ Num.cast v t = .err .overflow := by rw [her]; simpa using hov'
      have hin : lo ≤ roundHA q ∧ roundHA q ≤ hi := Classical.not_not.mp (fun hn => hno (hov.mpr hn))
      -- a non-Overflow error of a numeric conversion to a whole-number type does not exist
      exfalso
      cases t <;> simp only [tyBounds, reduceCtorEq] at ht <;>
        cases v <;> simp only [Val.toRat?, reduceCtorEq] at hq <;>
        simp only [Num.cast, castRound, Res.bind] at her <;>
        (repeat' split at her) <;> simp_all
  · rw [hsc] at hin
    refine ⟨⟨fun h => ?_, fun h => ?_⟩, fun h => ?_⟩
    · rw [hx] at h
      have := congrArg Prod.snd h
      cases this
    · have := hov.mpr h; rw [hin] at this; cases this
    · exfalso
      cases t <;> simp only [tyBounds, reduceCtorEq] at ht <;>
        cases v <;> simp only [Val.toRat?, reduceCtorEq] at hq <;>
        simp only [Val.InRange] at hv <;>
        simp only [Num.cast, castRound, Res.bind, hv, if_true] at hin <;>
        (repeat' split at hin) <;> simp_all

/-- **READ**: the next DATA item converted to the variable's type is stored, or the statement ends with the
conversion's error (Overflow = 6) / Out of DATA (4) and nothing is stored. -/
theorem read_stores_conversion (fuel x : Nat) (t : Ty) (p : Pos) (s : St) :
    (s.data[s.dataIdx]? = none ∧ exec (fuel + 1) (.read x t p) s = (s, .error codeOutOfData p)) ∨
    (∃ v, s.data[s.dataIdx]? = some v ∧
      ((∃ w, Num.cast v t = .ok w ∧
          exec (fuel + 1) (.read x t p) s = ({ s.set x w with dataIdx := s.dataIdx + 1 }, .normal)) ∨
       (∃ er, Num.cast v t = .err er ∧ exec (fuel + 1) (.read x t p) s = (s, .error (codeOf er) p)) ∨
       (Num.cast v t = .inexact ∧ exec (fuel + 1) (.read x t p) s = (s, .inexact)))) := by
  cases hd : s.data[s.dataIdx]? with
  | none => exact .inl ⟨rfl, by simp [exec, hd]⟩
  | some v =>
    refine .inr ⟨v, rfl, ?_⟩
    cases hc : Num.cast v t with
    | ok w => exact .inl ⟨w, rfl, by simp [exec, hd, hc]⟩
    | err er => exact .inr (.inl ⟨er, rfl, by simp [exec, hd, hc]⟩)
    | inexact => exact .inr (.inr ⟨rfl, by simp [exec, hd, hc]⟩)

/-! ### the generator model emits the conversion in front of every store (syntactic) -/

/-- assignment: expression code, `Cast(type of the variable)` unless the static type already is that type, store -/
theorem stores_are_cast_assign (sfx : String) (off x : Nat) (t : Ty) (e : Ast.Expr) (p : Pos) :
    compileStmt sfx off (.assign x t e p) =
      compileExpr e ++ (if e.ty = t then [] else [(.cast t, e.pos)]) ++ [(.varPath x, p), (.copyAToVarPath, p)] := by
  simp [compileStmt, compileExprTo, storeVar]

/-- FOR increment: counter + step, `Cast(type of the counter)` unconditionally, store (inside every loop body copy) -/
theorem stores_are_cast_for_increment (sfx : String) (x : Nat) (t : Ty) (body : Code) (up : Bool) (p : Pos)
    (off outOff : Nat) :
    ∃ pre, forBody sfx x t body up p off outOff =
      pre ++ [(.copyDToB, p), (.bin .plus, p), (.cast t, p), (.varPath x, p), (.copyAToVarPath, p), (.jump off, p)] := by
  refine ⟨[(.label (labelName (if up then "positive-loop" else "negative-loop") p sfx), p), (.copyCToB, p)] ++
    loadVar x p ++ [(.bin (if up then .lessOrEqual else .greaterOrEqual), p), (.jumpIfFalse outOff, p), (.pushRegs, p)] ++
    body ++ [(.popRegs, p)] ++ loadVar x p, ?_⟩
  simp [forBody, storeVar, List.append_assoc]


/-! ### non-vacuity: a program in the covered fragment that exercises every kind of store -/

/-- `x0%`, `x1&`, `x2!`; DATA 70000.5 (read into the LONG: 70001), 99999 (read into the INTEGER: Overflow) -/
def demoSlots : List Ty := [.int, .long, .sgl]

/-- ```
DATA 70000.5, 99999
x0% = 32767
FOR x1& = 1 TO 3 STEP .5 : x2! = x1& / 4 : NEXT        ' the counter stays a LONG: 1, 2 (1.5 rounded), 3 (2.5 rounded), 4
READ x1&                                                 ' 70001
READ x0%                                                 ' Overflow, nothing stored
``` -/
def demoBody : SStmt :=
  .seq (.data [(.dbl (140001 / 2), ⟨1, 6⟩), (.long 99999, ⟨1, 15⟩)] ⟨1, 1⟩)
  (.seq (.assign 0 .int (.lit (.int 32767) ⟨2, 7⟩) ⟨2, 1⟩)
  (.seq (.forLoop 1 .long (.lit (.int 1) ⟨3, 11⟩) (.lit (.int 3) ⟨3, 16⟩) (some (.lit (.sgl (1 / 2)) ⟨3, 23⟩))
          (.assign 2 .sgl (.bin .divide (.var 1 .long ⟨3, 33⟩) (.lit (.int 4) ⟨3, 39⟩) .sgl ⟨3, 37⟩) ⟨3, 28⟩) ⟨3, 1⟩)
  (.seq (.read [(1, .long, ⟨4, 6⟩)] ⟨4, 1⟩)
        (.read [(0, .int, ⟨5, 6⟩)] ⟨5, 1⟩))))

def demo : SProgram := ⟨demoSlots, demoBody⟩

/-- the hypotheses of `run_inrange` / `core_run_inrange` hold for the demo program -/
example : WfTop demo.slots demo.body ∧ RangeWf (desugar demo.body) ∧ (∀ v ∈ dataOf demo.body, v.InRange) := by
  refine ⟨?_, ?_, ?_⟩
  · simp [demo, demoBody, demoSlots, WfTop, Wf, SlotsBelow, ExprWt]
  · simp only [demo, demoBody, desugar, readSeq, RangeWf, LitsInRange, and_true, true_and]
    decide +kernel
  · intro v hv
    simp only [demo, demoBody, dataOf, List.map, List.append_nil, List.nil_append, List.mem_cons, List.not_mem_nil, or_false] at hv
    rcases hv with rfl | rfl <;> decide +kernel

def isOverflowAt (o : Outcome) (row : Nat) : Bool :=
  match o with
  | .error 6 p => p.row == row
  | _ => false

/-- and its run ends with Overflow at the last READ, with `x0% = 32767`, `x1& = 70001` (70000.5 rounded away from
zero), `x2! = 0.75` (the last quotient, 3 / 4), the LONG counter having passed 1, 2, 3 and stopped at 4 -/
example : isOverflowAt (Ref.run 40 demo.toAst).2 5 = true ∧
    (Ref.run 40 demo.toAst).1.env = [.int 32767, .long 70001, .sgl (3 / 4)] := by
  decide +kernel

end RbThm.C06Core
