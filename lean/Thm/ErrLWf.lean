import Thm.ErrLSimProgBase
import Thm.C01Wf
/-!
Error layer: the boolean premise checker `ErrL.progWfXB` (what the driver evaluates on every explored program, request
`errl.wf`) is sound for the premise `ProgWf` of the program theorem (port of `Thm/JmpLWf.lean`).  The checks on expressions,
conditions, PRINT items, CASE items and READ lists are those of the core language (`RbModel.CoreWf`), whose soundness lemmas
(`Thm/C01Wf.lean`) are reused.  `progWfXB = progWfB && wfXB`: `wfB` decides the clauses the error layer shares with the jump
layer, the depth 0 / 0 of handler labels and RESUME labels, and that the upper bound of a FOR is well typed (P4); `wfXB`
decides the two clauses the simulation proof forced on top of them (P2: `CaseNoPending` of every CASE item, P5: `StepLit` of
every STEP).  The flag `rl` of `Wf` is `true` (as in `ProgWf`), so the third conjunct of the RESUME label clause is `rfl`.
Of the five program-level conjuncts of `progWfB` the theorem needs two (`wfTopB`, labels defined once); that every GOTO /
GOSUB / ON ERROR GOTO / RESUME target is defined is checked by the driver but not needed by the proof (undefined labels have
depth 1000000, so the depth checks of GOSUB, ON ERROR GOTO and RESUME label exclude them; a GOTO to one ends in `illFormed`,
which claims nothing).
-/
namespace RbThm.ErrLSim
set_option linter.unusedVariables false
set_option linter.unusedSimpArgs false
open RbModel RbModel.Num RbModel.ErrL RbModel.ErrL.Compile
open RbModel.JmpL.Compile (Dp)
open RbModel.Ast (Pos PrintItem CaseExpr)
open RbModel.CoreWf (slotsB exprWtB condB itemsB isRelB caseB condsB readB)
open RbThm.C01Sim (Typed SlotsBelow ExprWt NumericAt NumericCond ItemsSlots CaseSlots CondsSlots slotsB_sound
  exprWtB_sound condB_sound itemsB_sound caseB_sound condsB_sound readB_sound)

theorem isSkipB_sound : ∀ s, isSkipB s = true → s = .skip := by
  intro s h; cases s <;> simp [isSkipB] at h ⊢

theorem elseB_sound {hasElse : Bool} {els : SStmt} (h : (hasElse || isSkipB els) = true) :
    hasElse = false → els = .skip := by
  intro hf
  subst hf
  exact isSkipB_sound els (by simpa using h)

theorem leavesB_sound {depthOf : Nat → Nat} {depth : Nat} {inner gotos : List Nat}
    (h : leavesB depthOf depth inner gotos = true) : Leaves depthOf depth inner gotos := by
  intro L hL
  simp only [leavesB, List.all_eq_true, Bool.or_eq_true, decide_eq_true_eq] at h
  rcases h L hL with h | h
  · exact .inl (by simpa using h)
  · exact .inr h

/-! ### the clauses forced by the simulation proof -/

theorem atomicB_sound : ∀ e, atomicB e = true → Atomic e
  | .lit _ _, _ => trivial
  | .var _ _ _, _ => trivial
  | .paren e _, h => by
    simp only [atomicB] at h
    simp only [Atomic]
    exact atomicB_sound e h
  | .un _ _ _, h => by simp [atomicB] at h
  | .bin _ _ _ _ _, h => by simp [atomicB] at h

theorem noPendingB_sound : ∀ e, noPendingB e = true → NoPending e
  | .lit _ _, _ => trivial
  | .var _ _ _, _ => trivial
  | .paren e _, h => by
    simp only [noPendingB] at h
    simp only [NoPending]
    exact noPendingB_sound e h
  | .un _ e _, h => by
    simp only [noPendingB] at h
    simp only [NoPending]
    exact noPendingB_sound e h
  | .bin _ l r _ _, h => by
    simp only [noPendingB, Bool.and_eq_true] at h
    simp only [NoPending]
    exact ⟨noPendingB_sound l h.1, atomicB_sound r h.2⟩

theorem caseNoPendingB_sound : ∀ c, caseNoPendingB c = true → CaseNoPending c
  | .simple e, h => noPendingB_sound e (by simpa only [caseNoPendingB] using h)
  | .is _ e, h => noPendingB_sound e (by simpa only [caseNoPendingB] using h)
  | .range lo hi, h => by
    simp only [caseNoPendingB, Bool.and_eq_true] at h
    exact ⟨noPendingB_sound lo h.1, noPendingB_sound hi h.2⟩

theorem stepLitB_sound : ∀ e, stepLitB e = true → StepLit e
  | .lit v _, h => by
    simp only [stepLitB] at h
    simp only [StepLit]
    split at h
    · rename_i heq; exact .inl heq
    · rename_i heq; exact .inr heq
    · cases h
  | .var _ _ _, h => by simp [stepLitB] at h
  | .un _ _ _, h => by simp [stepLitB] at h
  | .bin _ _ _ _ _, h => by simp [stepLitB] at h
  | .paren _ _, h => by simp [stepLitB] at h

/-! ### statements -/

mutual
theorem wfB_sound (sl : List Ty) (dp : Dp) : ∀ (s : SStmt) (d e : Nat), wfB sl dp d e s = true → wfXB s = true →
    Wf sl dp true d e s
  | .skip, _, _, _, _ => trivial
  | .comment, _, _, _, _ => trivial
  | .seq a b, d, e, h, hx => by
    simp only [wfB, Bool.and_eq_true] at h
    simp only [wfXB, Bool.and_eq_true] at hx
    exact ⟨wfB_sound sl dp a d e h.1 hx.1, wfB_sound sl dp b d e h.2 hx.2⟩
  | .dim x t _, _, _, h, _ => by simpa [wfB, Wf] using h
  | .assign x t ex _, _, _, h, _ => by
    simp only [wfB, Bool.and_eq_true, decide_eq_true_eq] at h
    exact ⟨h.1.1, slotsB_sound _ ex h.1.2, exprWtB_sound sl ex h.2⟩
  | .print items _, _, _, h, _ => itemsB_sound _ items (by simpa [wfB] using h)
  | .ifBlock c thn elifs hasElse els _, d, e, h, hx => by
    simp only [wfB, Bool.and_eq_true] at h
    simp only [wfXB, Bool.and_eq_true] at hx
    obtain ⟨⟨⟨⟨hc, ht⟩, he⟩, hl⟩, hs⟩ := h
    obtain ⟨⟨hxt, hxe⟩, hxl⟩ := hx
    have hcc := condB_sound sl c hc
    exact ⟨hcc.1, hcc.2, wfB_sound sl dp thn d e ht hxt, wfElifsB_sound sl dp elifs d e he hxe,
      wfB_sound sl dp els d e hl hxl, elseB_sound hs⟩
  | .while c body _, d, e, h, hx => by
    simp only [wfB, Bool.and_eq_true] at h
    simp only [wfXB] at hx
    have hcc := condB_sound sl c h.1
    exact ⟨hcc.1, hcc.2, wfB_sound sl dp body d e h.2 hx⟩
  | .doLoop c _ _ body _, d, e, h, hx => by
    simp only [wfB, Bool.and_eq_true] at h
    simp only [wfXB] at hx
    have hcc := condB_sound sl c h.1
    exact ⟨hcc.1, hcc.2, wfB_sound sl dp body d e h.2 hx⟩
  | .end_ _, _, _, _, _ => trivial
  | .data _ _, _, _, h, _ => by simp [wfB] at h
  | .read vars _, _, _, h, _ => readB_sound sl vars (by simpa [wfB] using h)
  | .select sel cases hasElse els _, d, e, h, hx => by
    simp only [wfB, Bool.and_eq_true] at h
    simp only [wfXB, Bool.and_eq_true] at hx
    obtain ⟨⟨⟨⟨he, hcs⟩, hl⟩, hs⟩, hlv⟩ := h
    exact ⟨slotsB_sound _ sel he, wfCasesB_sound sl dp cases d (e + 1) hcs hx.1, wfB_sound sl dp els d (e + 1) hl hx.2,
      elseB_sound hs, leavesB_sound hlv⟩
  | .forLoop x t lo hi step body _, d, e, h, hx => by
    simp only [wfB, Bool.and_eq_true, decide_eq_true_eq] at h
    simp only [wfXB, Bool.and_eq_true] at hx
    obtain ⟨⟨⟨⟨⟨⟨⟨hx1, hlo⟩, hwlo⟩, hhi⟩, hwhi⟩, hst⟩, hb⟩, hlv⟩ := h
    obtain ⟨hxs, hxb⟩ := hx
    refine ⟨hx1, slotsB_sound _ lo hlo, exprWtB_sound sl lo hwlo, slotsB_sound _ hi hhi, ?_,
      wfB_sound sl dp body (d + 1) e hb hxb, leavesB_sound hlv, exprWtB_sound sl hi hwhi, ?_⟩
    · intro se hse
      subst hse
      simp only [Bool.and_eq_true, List.isEmpty_iff] at hst
      exact ⟨slotsB_sound _ se hst.1, hst.2⟩
    · intro se hse
      subst hse
      exact stepLitB_sound se hxs
  | .label _ _ _, _, _, _, _ => trivial
  | .goto L _, d, e, h, _ => by simpa [wfB, Wf] using h
  | .gosub L _, d, e, h, _ => by simpa [wfB, Wf] using h
  | .ret _, _, _, _, _ => trivial
  | .onErrorGoto L _, d, e, h, _ => by simpa [wfB, Wf] using h
  | .onErrorResumeNext _, _, _, _, _ => trivial
  | .onErrorGoto0 _, _, _, _, _ => trivial
  | .resume _, _, _, _, _ => trivial
  | .resumeNext _, _, _, _, _ => trivial
  | .resumeLabel L _, d, e, h, _ => by
    simp only [wfB, Bool.and_eq_true, decide_eq_true_eq] at h
    exact ⟨h.1, h.2, rfl⟩
theorem wfElifsB_sound (sl : List Ty) (dp : Dp) : ∀ (el : ElseIfs) (d e : Nat), wfElifsB sl dp d e el = true →
    wfXElifsB el = true → WfElifs sl dp true d e el
  | .nil, _, _, _, _ => trivial
  | .cons c body rest, d, e, h, hx => by
    simp only [wfElifsB, Bool.and_eq_true] at h
    simp only [wfXElifsB, Bool.and_eq_true] at hx
    have hcc := condB_sound sl c h.1.1
    exact ⟨hcc.1, hcc.2, wfB_sound sl dp body d e h.1.2 hx.1, wfElifsB_sound sl dp rest d e h.2 hx.2⟩
theorem wfCasesB_sound (sl : List Ty) (dp : Dp) : ∀ (cs : SCases) (d e : Nat), wfCasesB sl dp d e cs = true →
    wfXCasesB cs = true → WfCases sl dp true d e cs
  | .nil, _, _, _, _ => trivial
  | .cons conds body rest, d, e, h, hx => by
    simp only [wfCasesB, Bool.and_eq_true, Bool.not_eq_true'] at h
    simp only [wfXCasesB, Bool.and_eq_true, List.all_eq_true] at hx
    obtain ⟨⟨⟨hne, hcs⟩, hb⟩, hr⟩ := h
    obtain ⟨⟨hxc, hxb⟩, hxr⟩ := hx
    refine ⟨?_, condsB_sound _ conds hcs, fun c hc => caseNoPendingB_sound c (hxc c hc),
      wfB_sound sl dp body d e hb hxb, wfCasesB_sound sl dp rest d e hr hxr⟩
    intro hnil
    subst hnil
    simp at hne
end

theorem wfTopB_sound (sl : List Ty) (dp : Dp) : ∀ body, wfTopB sl dp body = true → wfXB body = true → WfTop sl dp body
  | .seq a b, h, hx => by
    simp only [wfTopB, Bool.and_eq_true] at h
    simp only [wfXB, Bool.and_eq_true] at hx
    exact ⟨wfTopB_sound sl dp a h.1 hx.1, wfTopB_sound sl dp b h.2 hx.2⟩
  | .data _ _, _, _ => trivial
  | .skip, h, hx => wfB_sound sl dp _ 0 0 h hx
  | .comment, h, hx => wfB_sound sl dp _ 0 0 h hx
  | .dim _ _ _, h, hx => wfB_sound sl dp _ 0 0 h hx
  | .assign _ _ _ _, h, hx => wfB_sound sl dp _ 0 0 h hx
  | .print _ _, h, hx => wfB_sound sl dp _ 0 0 h hx
  | .read _ _, h, hx => wfB_sound sl dp _ 0 0 h hx
  | .ifBlock _ _ _ _ _ _, h, hx => wfB_sound sl dp _ 0 0 h hx
  | .select _ _ _ _ _, h, hx => wfB_sound sl dp _ 0 0 h hx
  | .forLoop _ _ _ _ _ _ _, h, hx => wfB_sound sl dp _ 0 0 h hx
  | .while _ _ _, h, hx => wfB_sound sl dp _ 0 0 h hx
  | .doLoop _ _ _ _ _, h, hx => wfB_sound sl dp _ 0 0 h hx
  | .end_ _, h, hx => wfB_sound sl dp _ 0 0 h hx
  | .label _ _ _, h, hx => wfB_sound sl dp _ 0 0 h hx
  | .goto _ _, h, hx => wfB_sound sl dp _ 0 0 h hx
  | .gosub _ _, h, hx => wfB_sound sl dp _ 0 0 h hx
  | .ret _, h, hx => wfB_sound sl dp _ 0 0 h hx
  | .onErrorGoto _ _, h, hx => wfB_sound sl dp _ 0 0 h hx
  | .onErrorResumeNext _, h, hx => wfB_sound sl dp _ 0 0 h hx
  | .onErrorGoto0 _, h, hx => wfB_sound sl dp _ 0 0 h hx
  | .resume _, h, hx => wfB_sound sl dp _ 0 0 h hx
  | .resumeNext _, h, hx => wfB_sound sl dp _ 0 0 h hx
  | .resumeLabel _ _, h, hx => wfB_sound sl dp _ 0 0 h hx

theorem nodupB_sound : ∀ l : List Nat, nodupB l = true → l.Nodup
  | [], _ => List.nodup_nil
  | x :: rest, h => by
    simp only [nodupB, Bool.and_eq_true, Bool.not_eq_true', List.contains_eq_mem, decide_eq_false_iff_not] at h
    exact List.nodup_cons.mpr ⟨h.1, nodupB_sound rest h.2⟩

/-- **the checker is sound**: a program `progWfXB` accepts satisfies the premise of the program theorem -/
theorem progWfB_sound (prog : SProgram) (h : progWfXB prog = true) : ProgWf prog := by
  simp only [progWfXB, progWfB, Bool.and_eq_true] at h
  obtain ⟨⟨⟨⟨⟨h1, h2⟩, _⟩, _⟩, _⟩, hx⟩ := h
  exact ⟨wfTopB_sound _ _ _ h1 hx, nodupB_sound _ h2⟩

/-- not vacuous: the checker accepts `ON ERROR RESUME NEXT : ON ERROR GOTO 7 : 7: RESUME 7` -/
example : progWfXB ⟨[], .seq (.onErrorResumeNext ⟨1, 1⟩) (.seq (.onErrorGoto 7 ⟨2, 1⟩)
    (.seq (.label 7 "7" ⟨3, 1⟩) (.resumeLabel 7 ⟨4, 1⟩)))⟩ = true := by decide

end RbThm.ErrLSim
