import Thm.ProcJSim
import Thm.ProcJProps
/-!
# C03 / C05 at VM level for the layer ProcJ — how GOSUB / RETURN and procedure calls meet, as the VM model shows it

`Thm/ProcJProps.lean` states the three interaction facts over the reference semantics `ProcJ.Ref` alone
(`return_answers_own_procedure_only`, `procedure_exit_drops_its_gosubs`, `caller_gosub_survives_call`).  Here they are pushed
through the whole-program simulation theorem `ProcJSim.compile_correct_checked` / `run_correct_checked` to the VM model
`ProcJ.Vm` running the code of the generator model — as far as the simulation gives something observable: the outcome of the
bounded run (halted / BASIC error with code and position) and the output.

* `vm_halts_of_ref`, `vm_errs_of_ref` — the transfer: a reference run of an accepted program that ends normal / END / with
  error `c` at `p` is a VM run that, for every sufficient budget, has halted / stopped with `c` at `p`, with the same output.
* **`return_in_sub_with_main_gosub_pending_vm`** (`return_answers_own_procedure_only`) — the family of programs
  `GOSUB R : END : R: CALL S : RETURN` with **any** `SUB S` whose body's outermost run ends in a RETURN at `p` (after
  whatever the body did before: its own GOSUB … RETURN pairs, loops, calls): although the main module has a GOSUB pending while
  `S` runs, the VM stops with **error 3 at `p`**, the SUB's RETURN, for every sufficient budget.  The reference-level equation
  is obtained from `ProcJProps` (`return_answers_own_procedure_only_stmt`, `error_passes_gosub`, `error_passes_seq`,
  `error_ends_run`), not by evaluation; `sub_return_error3_of_main` is the general form for any program whose main module's run
  answers `error 3 p`.
* **`procedure_exit_drops_its_gosubs_vm`** (`procedure_exit_drops_its_gosubs`, `call_exited_eq_normal`) — the caller cannot
  tell, on the VM either: two accepted programs whose reference runs end the same way with the same output (e.g. one whose
  SUB is left by EXIT SUB from inside its own GOSUB routine, one whose SUB runs to END SUB) give VM runs that halt with the same
  output; evaluated pair `demoDrop true / false` (the GOSUB the SUB left pending is gone: the caller's RETURN answers the
  caller's GOSUB, the text after the caller's GOSUB is printed).
* **`caller_gosub_survives_call_vm`** (`caller_gosub_survives_call`, `caller_for_continues_after_call`) — evaluated program
  `demoSurvive`: a FOR loop of the main module whose body GOSUBs a routine that calls a SUB which itself GOSUBs and leaves by
  EXIT SUB with that GOSUB pending; the routine's RETURN answers the main module's GOSUB both times and the FOR goes on with its
  own counter, limit and step: the VM halts with the output ` 1  2 done` + CR LF.
-/
namespace RbThm.C03ProcJVm
set_option linter.unusedVariables false
open RbModel RbModel.ProcJ RbModel.ProcJ.Compile RbModel.ProcJ.Vm
open RbModel.Num hiding Expr
open RbModel.Ast (Pos)
open RbModel.Proc (Var Expr Args PrintItem CaseExpr ProcDecl zeroOf)
open RbModel.Proc.Ref (St)
open RbModel.ProcJ.Ref (Outcome Mode Act exec call evalArgs enter)
open RbThm.ProcJSim (startSt run_eq)

/-! ### the transfer -/

/-- a reference run of an accepted program that ends normally or with END is a VM run that has halted, for every sufficient
step budget, with the same output -/
theorem vm_halts_of_ref (prog : SProgram) (hw : progWfB prog = true) (fuel : Nat) (s' : St)
    (h : ProcJ.Ref.run fuel prog.toAst = (s', .normal) ∨ ProcJ.Ref.run fuel prog.toAst = (s', .halted)) :
    ∃ n υ, (∀ m, n ≤ m → Vm.run (compile prog) m Vm.init = .halted υ) ∧ υ.out = s'.out := by
  have := RbThm.ProcJSim.run_correct_checked prog hw fuel
  rcases h with h | h <;> (rw [h] at this; exact this)

/-- … and one that ends with BASIC error `c` at `p` is a VM run that has stopped with `c` at `p` -/
theorem vm_errs_of_ref (prog : SProgram) (hw : progWfB prog = true) (fuel : Nat) (s' : St) (c : Nat) (p : Pos)
    (h : ProcJ.Ref.run fuel prog.toAst = (s', .error c p)) :
    ∃ n υ, (∀ m, n ≤ m → Vm.run (compile prog) m Vm.init = .error c p υ) ∧ υ.out = s'.out := by
  have := RbThm.ProcJSim.run_correct_checked prog hw fuel
  rw [h] at this; exact this

/-! ### RETURN only answers a GOSUB of its own activation -/

/-- general form: when the main module's own run answers `error 3 p` (not `ret p`: the RETURN was not the main module's — by
`ProcJProps.return_answers_own_procedure_only` it came out of a callee's outermost run, and `error_passes_gosub` /
`error_passes_seq` carried it through whatever GOSUBs the callers had pending), the VM stops with error 3 at `p` -/
theorem sub_return_error3_of_main (prog : SProgram) (hw : progWfB prog = true) (fuel : Nat) (s' : St) (p : Pos)
    (hmain : exec prog.toAst fuel ⟨false, desugar prog.body⟩ (desugar prog.body) .run (startSt prog) = (s', .error 3 p)) :
    ∃ n υ, (∀ m, n ≤ m → Vm.run (compile prog) m Vm.init = .error 3 p υ) ∧ υ.out = s'.out :=
  vm_errs_of_ref prog hw fuel s' 3 p (by rw [run_eq, hmain]; rfl)

/-- the main module `GOSUB R : END : R: CALL S : RETURN` (label `R` = 0, procedure `S` = 0) -/
def mainRet : SStmt :=
  .seq (.gosub 0 ⟨1, 1⟩)
  (.seq (.end_ ⟨2, 1⟩)
  (.seq (.label 0 "R" ⟨3, 1⟩)
  (.seq (.callSub 0 .nil ⟨4, 1⟩)
  (.seq (.ret ⟨5, 1⟩) .skip))))

/-- the family: that main module with `SUB S` of any body `sb` and any local slots -/
def famRet (sb : SStmt) (slots : List Ty) : SProgram :=
  { slots := [], gslots := [], body := mainRet,
    procs := [ { result := none, name := "S", params := [], slots := slots, body := sb, pos := ⟨6, 1⟩ } ] }

/-- the declaration of `S` as the reference semantics sees it -/
def declS (sb : SStmt) (slots : List Ty) : ProcDecl Stmt :=
  { result := none, name := "S", params := [], slots := slots, body := desugar sb, pos := ⟨6, 1⟩ }

/-- (Ref) seeking a label of the second part of a sequence: an error of that part is the sequence's -/
theorem seek_seq_right_err {P : Program} {n : Nat} {A : Act} {a b : Stmt} {L : Nat} {s s' : St} {c : Nat} {p : Pos}
    (hs : (Stmt.seq a b).hasLabel L = true) (ha : a.hasLabel L = false)
    (h : exec P n A b (.seek L) s = (s', .error c p)) :
    exec P (n + 1) A (.seq a b) (.seek L) s = (s', .error c p) := by
  simp only [exec, Mode.enters, hs, ha, h, if_true, Bool.false_eq_true, if_false]

/-- (Ref) seeking a label of the first part, which ends normally; the second part then runs and fails -/
theorem seek_seq_left_then_err {P : Program} {n : Nat} {A : Act} {a b : Stmt} {L : Nat} {s s1 s' : St} {c : Nat} {p : Pos}
    (hs : (Stmt.seq a b).hasLabel L = true) (ha : a.hasLabel L = true)
    (h1 : exec P n A a (.seek L) s = (s1, .normal)) (h2 : exec P n A b .run s1 = (s', .error c p)) :
    exec P (n + 1) A (.seq a b) (.seek L) s = (s', .error c p) := by
  simp only [exec, Mode.enters, hs, ha, h1, h2, if_true]

/-- (Ref) the routine `R: CALL S : RETURN` entered by the main module's GOSUB ends with the error the call ended with -/
theorem routine_passes_error (P : Program) (n : Nat) (s s2 : St) (c : Nat) (p : Pos)
    (hcall : exec P (n + 1) ⟨false, desugar mainRet⟩ (.callSub 0 .nil ⟨4, 1⟩) .run s = (s2, .error c p)) :
    exec P (n + 5) ⟨false, desugar mainRet⟩ (desugar mainRet) (.seek 0) s = (s2, .error c p) := by
  have h3 := RbThm.ProcJProps.error_passes_seq P (n + 1) ⟨false, desugar mainRet⟩ (.callSub 0 .nil ⟨4, 1⟩)
    (.seq (.ret ⟨5, 1⟩) .skip) s s2 c p hcall
  have hl : exec P (n + 2) ⟨false, desugar mainRet⟩ (.label 0) (.seek 0) s = (s, .normal) := by simp [exec]
  have h2 := seek_seq_left_then_err (P := P) (n := n + 2) (A := ⟨false, desugar mainRet⟩) (a := .label 0)
    (b := .seq (.callSub 0 .nil ⟨4, 1⟩) (.seq (.ret ⟨5, 1⟩) .skip)) (L := 0) (by decide) (by decide) hl h3
  have h1 := seek_seq_right_err (P := P) (n := n + 3) (A := ⟨false, desugar mainRet⟩) (a := .end_ ⟨2, 1⟩) (L := 0)
    (by decide) (by decide) h2
  exact seek_seq_right_err (P := P) (n := n + 4) (A := ⟨false, desugar mainRet⟩) (a := .gosub 0) (L := 0)
    (by decide) (by decide) h1

/-- (Ref) **the family's run**: if the outermost run of `S`'s body, started in a fresh activation from the program's start
state, ends in a RETURN at `p` (state `s2`), the whole run ends with error 3 at `p` — the main module's pending GOSUB does not
answer it.  Obtained from `ProcJProps`: the call is error 3 (`return_answers_own_procedure_only_stmt`), the routine passes it
on, the pending GOSUB passes it on (`error_passes_gosub`), the main sequence passes it on (`error_passes_seq`), the run ends
with it (`run_eq`). -/
theorem famRet_run (sb : SStmt) (slots : List Ty) (n : Nat) (s2 : St) (p : Pos)
    (hb : exec (famRet sb slots).toAst (n + 1) ⟨true, desugar sb⟩ (desugar sb) .run
      (enter (declS sb slots) 0 [] (startSt (famRet sb slots))) = (s2, .ret p)) :
    ProcJ.Ref.run (n + 9) (famRet sb slots).toAst = (s2, .error 3 p) := by
  have hcall := RbThm.ProcJProps.return_answers_own_procedure_only_stmt (famRet sb slots).toAst (n + 1) 0
    ⟨false, desugar mainRet⟩ .nil ⟨4, 1⟩ (startSt (famRet sb slots)) (startSt (famRet sb slots)) s2 (declS sb slots) [] p
    rfl (by simp [evalArgs]) hb
  have hr := routine_passes_error _ (n + 2) _ s2 3 p hcall
  have hg := RbThm.ProcJProps.error_passes_gosub (famRet sb slots).toAst (n + 7) ⟨false, desugar mainRet⟩ 0 _ s2 3 p hr
  have hm : exec (famRet sb slots).toAst (n + 9) ⟨false, desugar mainRet⟩ (desugar mainRet) .run
      (startSt (famRet sb slots)) = (s2, .error 3 p) := by
    have := RbThm.ProcJProps.error_passes_seq (famRet sb slots).toAst (n + 8) ⟨false, desugar mainRet⟩ (.gosub 0)
      (desugar (.seq (.end_ ⟨2, 1⟩) (.seq (.label 0 "R" ⟨3, 1⟩) (.seq (.callSub 0 .nil ⟨4, 1⟩) (.seq (.ret ⟨5, 1⟩) .skip)))))
      _ s2 3 p hg
    exact this
  rw [run_eq]
  show (match exec (famRet sb slots).toAst (n + 9) ⟨false, desugar mainRet⟩ (desugar mainRet) .run
      (startSt (famRet sb slots)) with | (s, o) => (s, ProcJ.Ref.topOutcome o)) = _
  rw [hm]; rfl

/-- **`return_in_sub_with_main_gosub_pending_vm`** — a SUB RETURNs while only the main module has a GOSUB pending: for every
accepted member of the family whose SUB body's outermost run ends in a RETURN at `p`, the VM model stops with error 3 at `p`
for every sufficient step budget, with the output produced up to that RETURN. -/
theorem return_in_sub_with_main_gosub_pending_vm (sb : SStmt) (slots : List Ty) (hw : progWfB (famRet sb slots) = true)
    (n : Nat) (s2 : St) (p : Pos)
    (hb : exec (famRet sb slots).toAst (n + 1) ⟨true, desugar sb⟩ (desugar sb) .run
      (enter (declS sb slots) 0 [] (startSt (famRet sb slots))) = (s2, .ret p)) :
    ∃ k υ, (∀ m, k ≤ m → Vm.run (compile (famRet sb slots)) m Vm.init = .error 3 p υ) ∧ υ.out = s2.out :=
  vm_errs_of_ref _ hw (n + 9) s2 3 p (famRet_run sb slots n s2 p hb)

/-! non-vacuity: `SUB S : GOSUB T : RETURN : T: PRINT 7 : RETURN : END SUB` — the SUB's own GOSUB is answered by the second
RETURN (10:3), then the first RETURN (8:3) finds no GOSUB of the activation pending -/

def subBody : SStmt :=
  .seq (.gosub 1 ⟨7, 3⟩)
  (.seq (.ret ⟨8, 3⟩)
  (.seq (.label 1 "T" ⟨9, 1⟩)
  (.seq (.print [.expr (.lit (.int 7) ⟨10, 9⟩)] ⟨10, 3⟩)
  (.seq (.ret ⟨10, 13⟩) .skip))))

example : progWfB (famRet subBody []) = true := by decide

example : ∃ k υ, ∀ m, k ≤ m → Vm.run (compile (famRet subBody [])) m Vm.init = .error 3 ⟨8, 3⟩ υ := by
  obtain ⟨k, υ, h, _⟩ := return_in_sub_with_main_gosub_pending_vm subBody [] (by decide) 20
    (exec (famRet subBody []).toAst 21 ⟨true, desugar subBody⟩ (desugar subBody) .run
      (enter (declS subBody []) 0 [] (startSt (famRet subBody [])))).1 ⟨8, 3⟩
    (Prod.ext rfl (by decide))
  exact ⟨k, υ, h⟩

/-! ### leaving a procedure drops its pending GOSUBs; the caller's GOSUB and FOR survive a call -/

/-- **`procedure_exit_drops_its_gosubs_vm`** — the caller cannot tell on the VM either: two accepted programs whose reference
runs end normally / with END with the same output (`ProcJProps.call_exited_eq_normal`: a procedure left with GOSUBs pending
answers its caller exactly like one that reached END SUB) give VM runs that halt with the same output -/
theorem procedure_exit_drops_its_gosubs_vm (prog prog' : SProgram) (hw : progWfB prog = true) (hw' : progWfB prog' = true)
    (fuel fuel' : Nat) (s s' : St)
    (h : ProcJ.Ref.run fuel prog.toAst = (s, .normal) ∨ ProcJ.Ref.run fuel prog.toAst = (s, .halted))
    (h' : ProcJ.Ref.run fuel' prog'.toAst = (s', .normal) ∨ ProcJ.Ref.run fuel' prog'.toAst = (s', .halted))
    (hout : s.out = s'.out) :
    ∃ n υ υ', (∀ m, n ≤ m → Vm.run (compile prog) m Vm.init = .halted υ ∧ Vm.run (compile prog') m Vm.init = .halted υ') ∧
      υ.out = υ'.out := by
  obtain ⟨n, υ, h1, h2⟩ := vm_halts_of_ref prog hw fuel s h
  obtain ⟨n', υ', h1', h2'⟩ := vm_halts_of_ref prog' hw' fuel' s' h'
  exact ⟨max n n', υ, υ', fun m hm => ⟨h1 m (by omega), h1' m (by omega)⟩, by rw [h2, h2', hout]⟩

/-- `GOSUB R : PRINT 2 : END : R: CALL S : PRINT 1 : RETURN` with
`SUB S : GOSUB T : T: EXIT SUB : END SUB` (`leave = true`: the SUB is left from inside its own routine, its GOSUB pending) or
`SUB S : END SUB` (`leave = false`) -/
def demoDrop (leave : Bool) : SProgram :=
  { slots := [], gslots := [],
    body :=
      .seq (.gosub 0 ⟨1, 1⟩)
      (.seq (.print [.expr (.lit (.int 2) ⟨2, 7⟩)] ⟨2, 1⟩)
      (.seq (.end_ ⟨3, 1⟩)
      (.seq (.label 0 "R" ⟨4, 1⟩)
      (.seq (.callSub 0 .nil ⟨5, 1⟩)
      (.seq (.print [.expr (.lit (.int 1) ⟨6, 7⟩)] ⟨6, 1⟩)
      (.seq (.ret ⟨7, 1⟩) .skip)))))),
    procs :=
      [ { result := none, name := "S", params := [], slots := [],
          body := if leave then .seq (.gosub 1 ⟨9, 3⟩) (.seq (.label 1 "T" ⟨10, 1⟩) (.seq (.exitProc ⟨10, 4⟩) .skip)) else .skip,
          pos := ⟨8, 1⟩ } ] }

example : progWfB (demoDrop true) = true ∧ progWfB (demoDrop false) = true := by decide

/-- both programs end with END after printing `1` and `2`: after the SUB dropped its own GOSUB the caller's RETURN answered the
caller's GOSUB -/
example : (ProcJ.Ref.run 40 (demoDrop true).toAst).2 = .halted ∧ (ProcJ.Ref.run 40 (demoDrop false).toAst).2 = .halted ∧
    (ProcJ.Ref.run 40 (demoDrop true).toAst).1.out = (ProcJ.Ref.run 40 (demoDrop false).toAst).1.out ∧
    (ProcJ.Ref.run 40 (demoDrop true).toAst).1.out.out = " 1 \r\n 2 \r\n".toList := by decide

/-- … and so do the two VM runs: same output, the one the reference prescribes -/
example : ∃ n υ υ', (∀ m, n ≤ m → Vm.run (compile (demoDrop true)) m Vm.init = .halted υ ∧
      Vm.run (compile (demoDrop false)) m Vm.init = .halted υ') ∧ υ.out = υ'.out :=
  procedure_exit_drops_its_gosubs_vm (demoDrop true) (demoDrop false) (by decide) (by decide) 40 40
    (ProcJ.Ref.run 40 (demoDrop true).toAst).1 (ProcJ.Ref.run 40 (demoDrop false).toAst).1
    (.inr (Prod.ext rfl (by decide))) (.inr (Prod.ext rfl (by decide))) (by decide)

/-- `FOR I% = 1 TO 2 : GOSUB R : NEXT : PRINT "done" : END : R: CALL S : PRINT I%; : RETURN` with
`SUB S : GOSUB T : T: EXIT SUB : END SUB` (slot 0 = I%) -/
def demoSurvive : SProgram :=
  { slots := [.int], gslots := [],
    body :=
      .seq (.forLoop ⟨false, 0⟩ .int (.lit (.int 1) ⟨1, 10⟩) (.lit (.int 2) ⟨1, 15⟩) none
              (.seq (.gosub 0 ⟨2, 3⟩) .skip) ⟨1, 1⟩)
      (.seq (.print [.expr (.lit (.str "done".toList) ⟨4, 7⟩)] ⟨4, 1⟩)
      (.seq (.end_ ⟨5, 1⟩)
      (.seq (.label 0 "R" ⟨6, 1⟩)
      (.seq (.callSub 0 .nil ⟨7, 1⟩)
      (.seq (.print [.expr (.var ⟨false, 0⟩ .int ⟨8, 7⟩), .semicolon] ⟨8, 1⟩)
      (.seq (.ret ⟨9, 1⟩) .skip)))))),
    procs :=
      [ { result := none, name := "S", params := [], slots := [],
          body := .seq (.gosub 1 ⟨11, 3⟩) (.seq (.label 1 "T" ⟨12, 1⟩) (.seq (.exitProc ⟨12, 4⟩) .skip)),
          pos := ⟨10, 1⟩ } ] }

example : progWfB demoSurvive = true := by decide

/-- the reference run: both rounds of the main module's FOR GOSUB the routine, the routine's RETURN answers that GOSUB after
the call (which left a GOSUB of its own pending), the counter goes 1, 2 and the loop ends at its own limit -/
example : (ProcJ.Ref.run 60 demoSurvive.toAst).2 = .halted ∧
    (ProcJ.Ref.run 60 demoSurvive.toAst).1.out.out = " 1  2 done\r\n".toList := by decide

/-- **`caller_gosub_survives_call_vm`** on `demoSurvive`: the VM halts, for every sufficient budget, with that output -/
theorem caller_gosub_survives_call_vm :
    ∃ n υ, (∀ m, n ≤ m → Vm.run (compile demoSurvive) m Vm.init = .halted υ) ∧ υ.out.out = " 1  2 done\r\n".toList := by
  obtain ⟨n, υ, h1, h2⟩ := vm_halts_of_ref demoSurvive (by decide) 60 (ProcJ.Ref.run 60 demoSurvive.toAst).1
    (.inr (Prod.ext rfl (by decide)))
  exact ⟨n, υ, h1, by rw [h2]; decide⟩

end RbThm.C03ProcJVm
