import Thm.AoRSimBase
/-!
Layer AoR, simulation part: the expression theorem as a HYPOTHESIS of the statement case files.

The control-flow case files (`AoRSimStmt`, `AoRSimIf`, `AoRSimDo`, `AoRSimPrint`, `AoRSimSelect`, `AoRSimFor`, `AoRSimRead`)
are ports of the records-layer files and need `expr_correct` only as a black box.  So that they can be built before (and
in parallel with) the expression case files, they take it as the instance argument `[ExprOk]`: a `Prop`-valued class with
the single field "every expression satisfies `RvSpec`".  `Thm/AoRSim.lean` provides the instance from the real
`expr_correct` of `Thm/AoRSimExpr.lean`, so the final theorems carry no such argument.  Nothing is assumed: a theorem with
an `[ExprOk]` argument is an implication.
-/
namespace RbThm.AoRSim
open RbModel RbModel.Num RbModel.AoR RbModel.AoR.Compile RbModel.AoR.Vm

/-- "every expression satisfies its specification" -/
class ExprOk : Prop where
  rv : ∀ (code : Code) (sc : Scope) (e : AoR.Expr), RvSpec code sc e

theorem expr_correct [ExprOk] (code : Code) (sc : Scope) (e : AoR.Expr) : RvSpec code sc e := ExprOk.rv code sc e

end RbThm.AoRSim
