import Thm.C01Wf
import Thm.C01
/-!
C01 — what a condition that is not a comparison means.

`IF c`, `WHILE c`, `DO WHILE|UNTIL c`, `LOOP WHILE|UNTIL c`, `ELSEIF c`: the condition `c` may be any numeric
expression; it is *true iff its value is not the zero of its own type*.  No conversion to INTEGER takes place:
`0.25!` is true (not rounded to 0), `100000&` is true (no Overflow), a DOUBLE zero is false.  A string is
Type mismatch (13).

The file states this at the three levels of the C01 models and for all programs:
1. `Ref.truthy` (`truthy_iff_nonzero`, `truthy_never_overflows`);
2. the VM instruction `JumpIfFalse` (`jumpIfFalse_step`, `jumpIfFalse_step_str`);
3. the reference semantics of IF / WHILE / DO (`if_bare_condition`, `while_bare_condition`, `do_*_bare_condition`);
4. through the simulation theorem `C01_run_correct`: the VM model running the generated code of every accepted
   program (`vm_run_of_ref`, `vm_error_of_ref`, `vm_no_error_of_ref`); instantiated on evaluated programs whose
   condition is a bare SINGLE / LONG / DOUBLE variable (`vm_if_bare_condition_sgl` …: the reference side by
   `decide +kernel`, the VM side by the theorem), and on two program families for ALL values
   (`vm_if_bare_condition`, `vm_do_until_nonzero`: the reference side symbolically).

The model of `JumpIfFalse` follows `interpreter/main.rs` (`let is_true: bool = a.try_cast()…`) and
`QBNumberCast<bool> for Variant` (`rusty_linter/src/core/qb_casting.rs`): `*n != 0` / `*n != 0.0` per numeric
variant, `TypeMismatch` otherwise.
-/
namespace RbThm.C01Cond
open RbModel RbModel.Num RbModel.Ast RbModel.Src RbModel.Core RbModel.CoreVm RbModel.Ref RbModel.CoreWf
open RbThm.C01Sim

/-! ### 1. `truthy` -/

/-- a value of one of the four numeric types -/
def Numeric : Val → Prop
  | .str _ => False
  | _ => True

instance : DecidablePred Numeric := fun v => by cases v <;> unfold Numeric <;> infer_instance

/-- `v` is the zero of its own type (`0%`, `0&`, `0!`, `0#`) -/
def IsZero (v : Val) : Prop := v = Ref.zeroOf v.tag

instance : DecidablePred IsZero := fun v => by unfold IsZero; infer_instance

theorem isZero_int (i : Int) : IsZero (.int i) ↔ i = 0 := by simp [IsZero, Val.tag, Ref.zeroOf]
theorem isZero_long (i : Int) : IsZero (.long i) ↔ i = 0 := by simp [IsZero, Val.tag, Ref.zeroOf]
theorem isZero_sgl (q : Rat) : IsZero (.sgl q) ↔ q = 0 := by simp [IsZero, Val.tag, Ref.zeroOf]
theorem isZero_dbl (q : Rat) : IsZero (.dbl q) ↔ q = 0 := by simp [IsZero, Val.tag, Ref.zeroOf]

/-- the truth of a numeric value, as a function: not the zero of its type -/
theorem truthy_eq (v : Val) (hn : Numeric v) : Ref.truthy v = some (decide (¬ IsZero v)) := by
  cases v with
  | int i => by_cases h : i = 0 <;> simp [Ref.truthy, isZero_int, h]
  | long i => by_cases h : i = 0 <;> simp [Ref.truthy, isZero_long, h]
  | sgl q => by_cases h : q = 0 <;> simp [Ref.truthy, isZero_sgl, h]
  | dbl q => by_cases h : q = 0 <;> simp [Ref.truthy, isZero_dbl, h]
  | str s => exact hn.elim

/-- **`truthy_iff_nonzero`** — a numeric value is true iff it is not the zero of its type, false iff it is; a
string has no truth value -/
theorem truthy_iff_nonzero :
    (∀ v, Numeric v → (Ref.truthy v = some true ↔ ¬ IsZero v)) ∧
    (∀ v, Numeric v → (Ref.truthy v = some false ↔ IsZero v)) ∧
    (∀ s, Ref.truthy (.str s) = none) := by
  refine ⟨fun v hn => ?_, fun v hn => ?_, fun s => rfl⟩
  · rw [truthy_eq v hn]; simp
  · rw [truthy_eq v hn]; simp

/-- the same, constructor by constructor -/
theorem truthy_cases :
    (∀ i : Int, (Ref.truthy (.int i) = some true ↔ i ≠ 0) ∧ (Ref.truthy (.int i) = some false ↔ i = 0)) ∧
    (∀ i : Int, (Ref.truthy (.long i) = some true ↔ i ≠ 0) ∧ (Ref.truthy (.long i) = some false ↔ i = 0)) ∧
    (∀ q : Rat, (Ref.truthy (.sgl q) = some true ↔ q ≠ 0) ∧ (Ref.truthy (.sgl q) = some false ↔ q = 0)) ∧
    (∀ q : Rat, (Ref.truthy (.dbl q) = some true ↔ q ≠ 0) ∧ (Ref.truthy (.dbl q) = some false ↔ q = 0)) := by
  refine ⟨fun i => ?_, fun i => ?_, fun q => ?_, fun q => ?_⟩ <;> simp [Ref.truthy]

/-- **`truthy_never_overflows`** — the truth of a numeric value is always defined: no conversion (to INTEGER or
anything else) that could overflow or round is involved -/
theorem truthy_never_overflows (v : Val) (hn : Numeric v) : ∃ b, Ref.truthy v = some b :=
  ⟨_, truthy_eq v hn⟩

/-- and only a string has no truth value -/
theorem truthy_none_iff (v : Val) : Ref.truthy v = none ↔ ¬ Numeric v := by
  cases v <;> simp [Ref.truthy, Numeric]

/-- `100000&` does not fit an INTEGER; it is simply true -/
example : Ref.truthy (.long 100000) = some true := by decide

/-- every non-zero SINGLE is true, however small -/
theorem truthy_sgl_ne_zero (q : Rat) (hq : q ≠ 0) : Ref.truthy (.sgl q) = some true :=
  ((truthy_cases.2.2.1 q).1).2 hq

example : Ref.truthy (.sgl (1 / 4)) = some true := truthy_sgl_ne_zero _ (by decide +kernel)
example : Ref.truthy (.dbl 0) = some false := by decide
example : ¬ IsZero (.sgl (1 / 4)) := by decide +kernel
example : IsZero (.dbl 0) := by decide

/-! ### 2. the VM instruction -/

/-- **`jumpIfFalse_step`** — `JumpIfFalse a` with a numeric value in register A never stops with an error: it goes to
`a` if the value is the zero of its type and falls through otherwise; nothing else changes (registers included: A is
not converted) -/
theorem jumpIfFalse_step (code : Code) (σ : Vm) (a : Nat) (p : Pos)
    (hi : code[σ.pc]? = some (.jumpIfFalse a, p)) (hn : Numeric σ.regs.a) :
    CoreVm.step code σ = .next (if IsZero σ.regs.a then { σ with pc := a } else { σ with pc := σ.pc + 1 }) := by
  simp only [CoreVm.step, hi, truthy_eq _ hn]
  by_cases hz : IsZero σ.regs.a <;> simp [hz, advance]

theorem jumpIfFalse_step_zero (code : Code) (σ : Vm) (a : Nat) (p : Pos)
    (hi : code[σ.pc]? = some (.jumpIfFalse a, p)) (hn : Numeric σ.regs.a) (hz : IsZero σ.regs.a) :
    CoreVm.step code σ = .next { σ with pc := a } := by
  rw [jumpIfFalse_step code σ a p hi hn, if_pos hz]

theorem jumpIfFalse_step_nonzero (code : Code) (σ : Vm) (a : Nat) (p : Pos)
    (hi : code[σ.pc]? = some (.jumpIfFalse a, p)) (hn : Numeric σ.regs.a) (hz : ¬ IsZero σ.regs.a) :
    CoreVm.step code σ = .next { σ with pc := σ.pc + 1 } := by
  rw [jumpIfFalse_step code σ a p hi hn, if_neg hz]

/-- a string in A: Type mismatch (13) at the instruction's position, state unchanged -/
theorem jumpIfFalse_step_str (code : Code) (σ : Vm) (a : Nat) (p : Pos) (s : List Char)
    (hi : code[σ.pc]? = some (.jumpIfFalse a, p)) (hs : σ.regs.a = .str s) :
    CoreVm.step code σ = .error 13 p σ := by
  simp only [CoreVm.step, hi, hs, Ref.truthy]

/-- the instruction never leaves the model (`stuck`) and raises nothing but 13, and that only for a string -/
theorem jumpIfFalse_error_iff (code : Code) (σ : Vm) (a : Nat) (p : Pos)
    (hi : code[σ.pc]? = some (.jumpIfFalse a, p)) :
    (∀ c q τ, CoreVm.step code σ = .error c q τ → c = 13 ∧ q = p ∧ τ = σ ∧ ¬ Numeric σ.regs.a) ∧
    CoreVm.step code σ ≠ .stuck := by
  by_cases hn : Numeric σ.regs.a
  · rw [jumpIfFalse_step code σ a p hi hn]
    exact ⟨fun c q τ h => (nomatch h), fun h => (nomatch h)⟩
  · obtain ⟨s, hs⟩ : ∃ s, σ.regs.a = .str s := by
      cases h : σ.regs.a <;> simp [h, Numeric] at hn ⊢
    rw [jumpIfFalse_step_str code σ a p s hi hs]
    refine ⟨fun c q τ h => ?_, fun h => (nomatch h)⟩
    cases h
    exact ⟨rfl, rfl, rfl, hn⟩

/-- non-vacuity: 0.25! in A at a `JumpIfFalse 7` falls through, 100000& too, 0# jumps -/
private def σ0 (v : Val) : Vm := { Vm.init [] with regs := { Regs.new with a := v } }

example : CoreVm.step [(.jumpIfFalse 7, ⟨1, 1⟩)] (σ0 (.sgl (1 / 4))) = .next { σ0 (.sgl (1 / 4)) with pc := 1 } :=
  jumpIfFalse_step_nonzero _ _ 7 ⟨1, 1⟩ rfl trivial (by decide +kernel)
example : CoreVm.step [(.jumpIfFalse 7, ⟨1, 1⟩)] (σ0 (.long 100000)) = .next { σ0 (.long 100000) with pc := 1 } :=
  jumpIfFalse_step_nonzero _ _ 7 ⟨1, 1⟩ rfl trivial (by decide)
example : CoreVm.step [(.jumpIfFalse 7, ⟨1, 1⟩)] (σ0 (.dbl 0)) = .next { σ0 (.dbl 0) with pc := 7 } :=
  jumpIfFalse_step_zero _ _ 7 ⟨1, 1⟩ rfl trivial (by decide)
example : CoreVm.step [(.jumpIfFalse 7, ⟨1, 1⟩)] (σ0 (.str ['a'])) = .error 13 ⟨1, 1⟩ (σ0 (.str ['a'])) :=
  jumpIfFalse_step_str _ _ 7 ⟨1, 1⟩ ['a'] rfl rfl

/-! ### 3. the reference semantics, for all programs -/

/-- a condition whose value is numeric: its truth is "not the zero of its type"; never an error -/
theorem evalCond_bare (env : List Val) (c : Ast.Expr) (v : Val) (hev : Ref.eval env c = .ok v) (hn : Numeric v) :
    Ref.evalCond env c = .ok (decide (¬ IsZero v)) := by
  simp only [Ref.evalCond, hev, truthy_eq v hn]

/-- a condition whose value is a string: Type mismatch at the condition -/
theorem evalCond_str (env : List Val) (c : Ast.Expr) (t : List Char) (hev : Ref.eval env c = .ok (.str t)) :
    Ref.evalCond env c = .error (.error 13 c.pos) := by
  simp only [Ref.evalCond, hev, Ref.truthy]

/-- **`if_bare_condition`** — `IF c THEN thn ELSE els END IF` where `c` evaluates to a numeric value `v` (of any of
the four types, compared with nothing): exactly `thn` if `v` is not the zero of its type, exactly `els` if it is.
The condition itself contributes no error — no Overflow for a LONG beyond the INTEGER range, no rounding of a
fraction to zero. -/
theorem if_bare_condition (fuel : Nat) (s : St) (c : Ast.Expr) (thn els : Stmt) (p : Pos) (v : Val)
    (hev : Ref.eval s.env c = .ok v) (hn : Numeric v) :
    Ref.exec (fuel + 1) (.ifs c thn els p) s = if IsZero v then Ref.exec fuel els s else Ref.exec fuel thn s := by
  simp only [Ref.exec, evalCond_bare s.env c v hev hn]
  by_cases hz : IsZero v <;> simp [hz]

/-- the same for the source statement (`IF … THEN … [ELSE …] END IF` without ELSEIF), as the generator sees it -/
theorem ifBlock_bare_condition (fuel : Nat) (s : St) (c : Ast.Expr) (thn els : SStmt) (hasElse : Bool) (p : Pos)
    (v : Val) (hev : Ref.eval s.env c = .ok v) (hn : Numeric v) :
    Ref.exec (fuel + 1) (desugar (.ifBlock c thn .nil hasElse els p)) s =
      if IsZero v then Ref.exec fuel (desugar els) s else Ref.exec fuel (desugar thn) s := by
  simp only [desugar, desugarElifs]
  exact if_bare_condition fuel s c _ _ p v hev hn

/-- fuel-free form: whatever the chosen branch does (with any sufficient fuel), the IF does, with every larger fuel -/
theorem if_bare_condition_any_fuel (fuel : Nat) (s s' : St) (o : Outcome) (c : Ast.Expr) (thn els : Stmt) (p : Pos)
    (v : Val) (hev : Ref.eval s.env c = .ok v) (hn : Numeric v)
    (hb : Ref.exec fuel (if IsZero v then els else thn) s = (s', o)) (ho : C01.Outcome.isFuel o = false) :
    ∀ k, Ref.exec (fuel + 1 + k) (.ifs c thn els p) s = (s', o) := by
  intro k
  apply C01.exec_fuel_mono _ _ _ _ _ _ _ ho
  rw [if_bare_condition fuel s c thn els p v hev hn]
  by_cases hz : IsZero v <;> simpa [hz] using hb

/-- an ELSEIF condition is treated the same way -/
theorem elseif_bare_condition (fuel : Nat) (s : St) (c : Ast.Expr) (body : SStmt) (rest : ElseIfs) (els : Stmt)
    (p : Pos) (v : Val) (hev : Ref.eval s.env c = .ok v) (hn : Numeric v) :
    Ref.exec (fuel + 1) (desugarElifs (.cons c body rest) els p) s =
      if IsZero v then Ref.exec fuel (desugarElifs rest els p) s else Ref.exec fuel (desugar body) s := by
  simp only [desugarElifs]
  exact if_bare_condition fuel s c _ _ p v hev hn

/-- a string as condition: Type mismatch at the condition's position, nothing executed -/
theorem if_string_condition (fuel : Nat) (s : St) (c : Ast.Expr) (thn els : Stmt) (p : Pos) (t : List Char)
    (hev : Ref.eval s.env c = .ok (.str t)) :
    Ref.exec (fuel + 1) (.ifs c thn els p) s = (s, .error 13 c.pos) := by
  simp only [Ref.exec, evalCond_str s.env c t hev]

/-- "if the body ended normally go on with `k`, else that is how the loop ends" -/
def thenIfNormal (r : St × Outcome) (k : St → St × Outcome) : St × Outcome :=
  match r with
  | (s', .normal) => k s'
  | r => r

theorem thenIfNormal_normal (s' : St) (k : St → St × Outcome) : thenIfNormal (s', .normal) k = k s' := rfl

/-- **`while_bare_condition`** — one unfolding of `WHILE c … WEND` with a numeric condition value: zero of its type →
the loop ends, state unchanged; anything else → the body, then (if it ended normally) the loop again -/
theorem while_bare_condition (fuel : Nat) (s : St) (c : Ast.Expr) (body : Stmt) (p : Pos) (v : Val)
    (hev : Ref.eval s.env c = .ok v) (hn : Numeric v) :
    Ref.exec (fuel + 1) (.while c body p) s =
      if IsZero v then (s, .normal)
      else thenIfNormal (Ref.exec fuel body s) (Ref.exec fuel (.while c body p)) := by
  simp only [Ref.exec, evalCond_bare s.env c v hev hn]
  by_cases hz : IsZero v <;> simp only [hz, not_true_eq_false, not_false_eq_true, decide_true, decide_false, if_true,
    if_false]
  generalize Ref.exec fuel body s = r
  obtain ⟨s1, o⟩ := r
  cases o <;> rfl

/-- `DO WHILE c … LOOP` / `DO UNTIL c … LOOP` (`until_ = false / true`) -/
theorem do_top_bare_condition (fuel : Nat) (s : St) (c : Ast.Expr) (until_ : Bool) (body : Stmt) (p : Pos) (v : Val)
    (hev : Ref.eval s.env c = .ok v) (hn : Numeric v) :
    Ref.exec (fuel + 1) (.doLoop c true until_ body p) s =
      if IsZero v ↔ until_ = true then
        thenIfNormal (Ref.exec fuel body s) (Ref.exec fuel (.doLoop c true until_ body p))
      else (s, .normal) := by
  simp only [Ref.exec, evalCond_bare s.env c v hev hn, if_true]
  by_cases hz : IsZero v <;> cases until_ <;> simp [hz] <;>
    (generalize Ref.exec fuel body s = r; obtain ⟨s1, o⟩ := r; cases o <;> rfl)

/-- `DO UNTIL c` with a non-zero value (e.g. `0.25!`): the body does not run -/
theorem do_until_nonzero (fuel : Nat) (s : St) (c : Ast.Expr) (body : Stmt) (p : Pos) (v : Val)
    (hev : Ref.eval s.env c = .ok v) (hn : Numeric v) (hz : ¬ IsZero v) :
    Ref.exec (fuel + 1) (.doLoop c true true body p) s = (s, .normal) := by
  rw [do_top_bare_condition fuel s c true body p v hev hn]; simp [hz]

/-- `DO … LOOP WHILE c` / `DO … LOOP UNTIL c`: the condition is evaluated in the state the body leaves -/
theorem do_bottom_bare_condition (fuel : Nat) (s s' : St) (c : Ast.Expr) (until_ : Bool) (body : Stmt) (p : Pos)
    (v : Val) (hb : Ref.exec fuel body s = (s', .normal)) (hev : Ref.eval s'.env c = .ok v) (hn : Numeric v) :
    Ref.exec (fuel + 1) (.doLoop c false until_ body p) s =
      if IsZero v ↔ until_ = true then Ref.exec fuel (.doLoop c false until_ body p) s' else (s', .normal) := by
  simp only [Ref.exec, hb, evalCond_bare s'.env c v hev hn]
  by_cases hz : IsZero v <;> cases until_ <;> simp [hz]

/-! non-vacuity of the reference-level theorems: a state whose slot 0 holds `0.25!` / `100000&` / `0#`, the
condition is the bare variable, arbitrary branches and bodies -/

private def st1 (v : Val) : St := { env := [v], out := Print.WritePrinter.new, data := [], dataIdx := 0 }

example (fuel : Nat) (thn els : Stmt) (p : Pos) :
    Ref.exec (fuel + 1) (.ifs (.var 0 .sgl ⟨1, 4⟩) thn els p) (st1 (.sgl (1 / 4))) =
      Ref.exec fuel thn (st1 (.sgl (1 / 4))) := by
  rw [if_bare_condition fuel _ _ thn els p (.sgl (1 / 4)) rfl trivial, if_neg (by decide +kernel)]

example (fuel : Nat) (thn els : Stmt) (p : Pos) :
    Ref.exec (fuel + 1) (.ifs (.var 0 .long ⟨1, 4⟩) thn els p) (st1 (.long 100000)) =
      Ref.exec fuel thn (st1 (.long 100000)) := by
  rw [if_bare_condition fuel _ _ thn els p (.long 100000) rfl trivial, if_neg (by decide)]

example (fuel : Nat) (thn els : Stmt) (p : Pos) :
    Ref.exec (fuel + 1) (.ifs (.var 0 .dbl ⟨1, 4⟩) thn els p) (st1 (.dbl 0)) = Ref.exec fuel els (st1 (.dbl 0)) := by
  rw [if_bare_condition fuel _ _ thn els p (.dbl 0) rfl trivial, if_pos (by decide)]

example (fuel : Nat) (body : Stmt) (p : Pos) :
    Ref.exec (fuel + 1) (.while (.var 0 .dbl ⟨1, 7⟩) body p) (st1 (.dbl 0)) = (st1 (.dbl 0), .normal) := by
  rw [while_bare_condition fuel _ _ body p (.dbl 0) rfl trivial, if_pos (by decide)]

example (fuel : Nat) (body : Stmt) (p : Pos) :
    Ref.exec (fuel + 1) (.while (.var 0 .sgl ⟨1, 7⟩) body p) (st1 (.sgl (1 / 4))) =
      thenIfNormal (Ref.exec fuel body (st1 (.sgl (1 / 4)))) (Ref.exec fuel (.while (.var 0 .sgl ⟨1, 7⟩) body p)) := by
  rw [while_bare_condition fuel _ _ body p (.sgl (1 / 4)) rfl trivial, if_neg (by decide +kernel)]

example (fuel : Nat) (body : Stmt) (p : Pos) :
    Ref.exec (fuel + 1) (.doLoop (.var 0 .sgl ⟨1, 10⟩) true true body p) (st1 (.sgl (1 / 4))) =
      (st1 (.sgl (1 / 4)), .normal) :=
  do_until_nonzero fuel _ _ body p (.sgl (1 / 4)) rfl trivial (by decide +kernel)

example (fuel : Nat) (p : Pos) :
    Ref.exec (fuel + 1 + 1) (.doLoop (.var 0 .long ⟨1, 10⟩) false false .skip p) (st1 (.long 0)) =
      (st1 (.long 0), .normal) := by
  rw [do_bottom_bare_condition (fuel + 1) _ (st1 (.long 0)) _ false .skip p (.long 0) rfl rfl trivial,
    if_neg (by decide)]

/-! ### 4. through the simulation theorem: the VM model running the generated code -/

/-- the reference run ended normally (or with END) with exactly the output `o` -/
def RefPrints (r : St × Outcome) (o : List Char) : Prop :=
  (match r.2 with | .normal => True | .halted => True | _ => False) ∧ r.1.out.out = o

/-- a decidable form of `RefPrints`, for evaluated instances -/
def refPrintsB (r : St × Outcome) (o : List Char) : Bool :=
  (match r.2 with | .normal => true | .halted => true | _ => false) && decide (r.1.out.out = o)

theorem refPrintsB_sound (r : St × Outcome) (o : List Char) (h : refPrintsB r o = true) : RefPrints r o := by
  obtain ⟨s', oc⟩ := r
  simp only [refPrintsB, Bool.and_eq_true, decide_eq_true_eq] at h
  refine ⟨?_, h.2⟩
  cases oc <;> simp_all

/-- **`vm_run_of_ref`** — for EVERY program the checker accepts (`wfTopB`, the premise of
`C01_core_correct_checked`; conditions may be any expression whose static type is numeric — no comparison needed):
if the reference run ends normally (or with END) with output `o`, then for every sufficient step budget the VM model
running the generated code halts, with output `o` and the variables the reference run left.  With
`if_bare_condition` / `while_bare_condition` / `do_*_bare_condition` describing what the reference run does at a bare
condition, this is "the generated `JumpIfFalse` tests the value against the zero of its own type" for all programs. -/
theorem vm_run_of_ref (prog : SProgram) (fuel : Nat) (hw : wfTopB prog.slots prog.body = true) (o : List Char)
    (href : RefPrints (Ref.run fuel prog.toAst) o) :
    ∃ n υ, (∀ m, n ≤ m → CoreVm.run (compile prog) m (Vm.init prog.slots) = .halted υ) ∧
      υ.env = (Ref.run fuel prog.toAst).1.env ∧ υ.out.out = o := by
  have h := C01_run_correct prog fuel (wfTopB_sound prog.slots prog.body hw)
  obtain ⟨hoc, hout⟩ := href
  generalize Ref.run fuel prog.toAst = r at h hoc hout ⊢
  obtain ⟨s', oc⟩ := r
  cases oc with
  | normal => obtain ⟨n, υ, hr, he, ho⟩ := h; exact ⟨n, υ, hr, he, by rw [ho]; exact hout⟩
  | halted => obtain ⟨n, υ, hr, he, ho⟩ := h; exact ⟨n, υ, hr, he, by rw [ho]; exact hout⟩
  | error c p => exact hoc.elim
  | inexact => exact hoc.elim
  | outOfFuel => exact hoc.elim

/-- the error side: if the reference run stops with BASIC error `c` at `p`, so does the VM model (so a condition that
the reference semantics evaluates without error cannot raise Overflow / Type mismatch in the VM model) -/
theorem vm_error_of_ref (prog : SProgram) (fuel : Nat) (hw : wfTopB prog.slots prog.body = true) (s' : St) (c : Nat)
    (p : Pos) (href : Ref.run fuel prog.toAst = (s', .error c p)) :
    ∃ n υ, (∀ m, n ≤ m → CoreVm.run (compile prog) m (Vm.init prog.slots) = .error c p υ) ∧ υ.out = s'.out := by
  have h := C01_run_correct prog fuel (wfTopB_sound prog.slots prog.body hw)
  rw [href] at h
  exact h

/-- the VM model's run of a program's code is a function (one result per budget), so "halts with output `o`" excludes
every error, Overflow and Type mismatch included -/
theorem vm_no_error_of_ref (prog : SProgram) (fuel : Nat) (hw : wfTopB prog.slots prog.body = true) (o : List Char)
    (href : RefPrints (Ref.run fuel prog.toAst) o) :
    ∃ n, ∀ m, n ≤ m → ∀ c p υ, CoreVm.run (compile prog) m (Vm.init prog.slots) ≠ .error c p υ := by
  obtain ⟨n, υ, hr, _, _⟩ := vm_run_of_ref prog fuel hw o href
  exact ⟨n, fun m hm c p υ' h => by rw [hr m hm] at h; cases h⟩

/-! #### instances: a bare SINGLE / LONG / DOUBLE variable as the condition

Each program is evaluated on the *reference* side only (`decide +kernel` on `Ref.run`); the statement about the VM
model running the generated code follows from `vm_run_of_ref`, not from running the VM model. -/

def litS (s : List Char) (p : Pos) : Ast.Expr := .lit (.str s) p

/-- `<assign> : IF V THEN PRINT "t" ELSE PRINT "f" END IF` with `V` the variable of slot 0, of type `t` -/
def ifProg (t : Ty) (rhs : Ast.Expr) : SProgram :=
  { slots := [t],
    body :=
      .seq (.assign 0 t rhs ⟨1, 1⟩)
      (.seq (.ifBlock (.var 0 t ⟨2, 4⟩)
              (.seq (.print [.expr (litS ['t'] ⟨3, 9⟩)] ⟨3, 3⟩) .skip) .nil true
              (.seq (.print [.expr (litS ['f'] ⟨5, 9⟩)] ⟨5, 3⟩) .skip) ⟨2, 1⟩)
        .skip) }

/-- `V! = 0.25 : IF V! THEN PRINT "t" ELSE PRINT "f"` -/
def progSgl : SProgram := ifProg .sgl (.lit (.sgl (1 / 4)) ⟨1, 6⟩)
/-- `V& = 100000 : IF V& THEN PRINT "t" ELSE PRINT "f"` -/
def progLong : SProgram := ifProg .long (.lit (.long 100000) ⟨1, 6⟩)
/-- `V# = 0 : IF V# THEN PRINT "t" ELSE PRINT "f"` (the literal is an INTEGER, converted by the assignment) -/
def progDbl : SProgram := ifProg .dbl (.lit (.int 0) ⟨1, 6⟩)

/-- `<assign> : DO UNTIL V : PRINT "body" : LOOP : PRINT "end"` with `V` the variable of slot 0, of type `t` -/
def doUntilProg (t : Ty) (rhs : Ast.Expr) : SProgram :=
  { slots := [t],
    body :=
      .seq (.assign 0 t rhs ⟨1, 1⟩)
      (.seq (.doLoop (.var 0 t ⟨2, 10⟩) true true
              (.seq (.print [.expr (litS ['b', 'o', 'd', 'y'] ⟨3, 9⟩)] ⟨3, 3⟩) .skip) ⟨2, 1⟩)
      (.seq (.print [.expr (litS ['e', 'n', 'd'] ⟨5, 7⟩)] ⟨5, 1⟩) .skip)) }

/-- `V! = 0.25 : DO UNTIL V! : PRINT "body" : LOOP : PRINT "end"` -/
def progDoUntil : SProgram := doUntilProg .sgl (.lit (.sgl (1 / 4)) ⟨1, 6⟩)

/-- `V! = 0.25 : WHILE V! : PRINT "w" : V! = 0 : WEND` -/
def progWhile : SProgram :=
  { slots := [.sgl],
    body :=
      .seq (.assign 0 .sgl (.lit (.sgl (1 / 4)) ⟨1, 6⟩) ⟨1, 1⟩)
      (.seq (.while (.var 0 .sgl ⟨2, 7⟩)
              (.seq (.print [.expr (litS ['w'] ⟨3, 9⟩)] ⟨3, 3⟩)
                (.seq (.assign 0 .sgl (.lit (.int 0) ⟨4, 8⟩) ⟨4, 3⟩) .skip)) ⟨2, 1⟩)
        .skip) }

/-- the VM model, running the generated code of `prog`, halts with output `o` for every sufficient budget -/
def VmPrints (prog : SProgram) (o : List Char) : Prop :=
  ∃ n υ, (∀ m, n ≤ m → CoreVm.run (compile prog) m (Vm.init prog.slots) = .halted υ) ∧ υ.out.out = o

theorem vmPrints_of_ref (prog : SProgram) (fuel : Nat) (o : List Char)
    (hw : wfTopB prog.slots prog.body = true) (href : refPrintsB (Ref.run fuel prog.toAst) o = true) :
    VmPrints prog o := by
  obtain ⟨n, υ, hr, _, ho⟩ := vm_run_of_ref prog fuel hw o (refPrintsB_sound _ _ href)
  exact ⟨n, υ, hr, ho⟩

/-- **`vm_if_bare_condition`** — 0.25 in a SINGLE is true (not rounded to INTEGER 0) -/
theorem vm_if_bare_condition_sgl : VmPrints progSgl ['t', '\r', '\n'] :=
  vmPrints_of_ref progSgl 10 _ (by decide +kernel) (by decide +kernel)

/-- 100000 in a LONG is true: no Overflow from a conversion to INTEGER -/
theorem vm_if_bare_condition_long : VmPrints progLong ['t', '\r', '\n'] :=
  vmPrints_of_ref progLong 10 _ (by decide +kernel) (by decide +kernel)

/-- a DOUBLE zero is false -/
theorem vm_if_bare_condition_dbl : VmPrints progDbl ['f', '\r', '\n'] :=
  vmPrints_of_ref progDbl 10 _ (by decide +kernel) (by decide +kernel)

/-- `DO UNTIL V!` with `V! = 0.25` does not run its body -/
theorem vm_do_until_bare_condition : VmPrints progDoUntil ['e', 'n', 'd', '\r', '\n'] :=
  vmPrints_of_ref progDoUntil 10 _ (by decide +kernel) (by decide +kernel)

/-- `WHILE V!` with `V! = 0.25` runs its body once (then `V! = 0`) -/
theorem vm_while_bare_condition : VmPrints progWhile ['w', '\r', '\n'] :=
  vmPrints_of_ref progWhile 10 _ (by decide +kernel) (by decide +kernel)

/-! #### the two families in general: every type, every right-hand side, every value

Not evaluated instances but theorems about all values: the reference side is proved symbolically with
`evalCond_bare`, the VM side follows by `vm_run_of_ref`. -/

theorem ifProg_wf (t : Ty) (rhs : Ast.Expr) (ht : t ≠ .str) (hs : slotsB 1 rhs = true) (hw : exprWtB [t] rhs = true) :
    wfTopB (ifProg t rhs).slots (ifProg t rhs).body = true := by
  simp [ifProg, wfTopB, wfB, wfElifsB, condB, slotsB, exprWtB, itemsB, isSkipB, Ast.Expr.ty, hs, hw, ht, litS]

theorem ifProg_ref (t : Ty) (rhs : Ast.Expr) (v : Val) (hev : Ref.evalTo [Ref.zeroOf t] rhs t = .ok v)
    (hn : Numeric v) :
    RefPrints (Ref.run 10 (ifProg t rhs).toAst) (if IsZero v then ['f', '\r', '\n'] else ['t', '\r', '\n']) := by
  have hc : ∀ s : St, s.env = [Ref.zeroOf t] →
      Ref.evalCond (s.set 0 v).env (Ast.Expr.var 0 t ⟨2, 4⟩) = .ok (decide (¬ IsZero v)) := by
    intro s hs
    exact evalCond_bare _ _ v (by simp [Ref.eval, St.set, hs]) hn
  simp only [Ref.run, ifProg, SProgram.toAst, desugar, desugarElifs, dataOf, List.map]
  rw [show (10 : Nat) = 8 + 1 + 1 from rfl]
  simp only [Ref.exec, hev]
  rw [hc _ rfl]
  by_cases hz : IsZero v
  · simp only [hz, not_true_eq_false, decide_false, if_true]
    exact ⟨trivial, rfl⟩
  · simp only [hz, not_false_eq_true, decide_true, if_false]
    exact ⟨trivial, rfl⟩

/-- **`vm_if_bare_condition`** — `V = rhs : IF V THEN PRINT "t" ELSE PRINT "f" END IF` for a variable `V` of any
numeric type `t` and any right-hand side that the assignment evaluates (and converts) to a value `v`: the VM model
running the generated code halts having printed `t` if `v` is not the zero of its type and `f` if it is — for every
`v`: every LONG beyond the INTEGER range, every fraction, every DOUBLE. -/
theorem vm_if_bare_condition (t : Ty) (rhs : Ast.Expr) (v : Val) (ht : t ≠ .str)
    (hs : slotsB 1 rhs = true) (hw : exprWtB [t] rhs = true)
    (hev : Ref.evalTo [Ref.zeroOf t] rhs t = .ok v) (hn : Numeric v) :
    VmPrints (ifProg t rhs) (if IsZero v then ['f', '\r', '\n'] else ['t', '\r', '\n']) := by
  obtain ⟨n, υ, hr, _, ho⟩ := vm_run_of_ref (ifProg t rhs) 10 (ifProg_wf t rhs ht hs hw) _ (ifProg_ref t rhs v hev hn)
  exact ⟨n, υ, hr, ho⟩

/-- the literal case: `V = <literal of V's type>` -/
theorem vm_if_bare_condition_lit (v : Val) (hn : Numeric v) (p : Pos) :
    VmPrints (ifProg v.tag (.lit v p)) (if IsZero v then ['f', '\r', '\n'] else ['t', '\r', '\n']) := by
  refine vm_if_bare_condition v.tag (.lit v p) v ?_ rfl rfl ?_ hn
  · cases v <;> simp [Val.tag, Numeric] at hn ⊢
  · simp [Ref.evalTo, Ref.eval, ERes.bind, storeCast, Ast.Expr.ty, Ref.lift]

/-- every non-zero SINGLE is true in the generated code, every LONG ≠ 0 (however large) too -/
theorem vm_if_sgl_nonzero (q : Rat) (hq : q ≠ 0) (p : Pos) :
    VmPrints (ifProg .sgl (.lit (.sgl q) p)) ['t', '\r', '\n'] := by
  have h := vm_if_bare_condition_lit (.sgl q) trivial p
  rwa [if_neg (by rw [isZero_sgl]; exact hq)] at h

theorem vm_if_long_nonzero (i : Int) (hi : i ≠ 0) (p : Pos) :
    VmPrints (ifProg .long (.lit (.long i) p)) ['t', '\r', '\n'] := by
  have h := vm_if_bare_condition_lit (.long i) trivial p
  rwa [if_neg (by rw [isZero_long]; exact hi)] at h

/-- the evaluated instance again, now from the general theorem -/
example : VmPrints progSgl ['t', '\r', '\n'] := vm_if_sgl_nonzero (1 / 4) (by decide +kernel) ⟨1, 6⟩
example : VmPrints progLong ['t', '\r', '\n'] := vm_if_long_nonzero 100000 (by decide) ⟨1, 6⟩

theorem doUntilProg_wf (t : Ty) (rhs : Ast.Expr) (ht : t ≠ .str) (hs : slotsB 1 rhs = true)
    (hw : exprWtB [t] rhs = true) :
    wfTopB (doUntilProg t rhs).slots (doUntilProg t rhs).body = true := by
  simp [doUntilProg, wfTopB, wfB, condB, slotsB, exprWtB, itemsB, Ast.Expr.ty, hs, hw, ht, litS]

theorem doUntilProg_ref (t : Ty) (rhs : Ast.Expr) (v : Val) (hev : Ref.evalTo [Ref.zeroOf t] rhs t = .ok v)
    (hn : Numeric v) (hz : ¬ IsZero v) :
    RefPrints (Ref.run 10 (doUntilProg t rhs).toAst) ['e', 'n', 'd', '\r', '\n'] := by
  have hc : ∀ s : St, s.env = [Ref.zeroOf t] →
      Ref.evalCond (s.set 0 v).env (Ast.Expr.var 0 t ⟨2, 10⟩) = .ok true := by
    intro s hs
    rw [evalCond_bare _ _ v (by simp [Ref.eval, St.set, hs]) hn]; simp [hz]
  simp only [Ref.run, doUntilProg, SProgram.toAst, desugar, dataOf, List.map]
  rw [show (10 : Nat) = 7 + 1 + 1 + 1 from rfl]
  simp only [Ref.exec, hev, if_true]
  rw [hc _ rfl]
  exact ⟨trivial, rfl⟩

/-- **`vm_do_until_nonzero`** — `V = rhs : DO UNTIL V : PRINT "body" : LOOP : PRINT "end"`: for every value that is
not the zero of its type the generated code never runs the body -/
theorem vm_do_until_nonzero (t : Ty) (rhs : Ast.Expr) (v : Val) (ht : t ≠ .str)
    (hs : slotsB 1 rhs = true) (hw : exprWtB [t] rhs = true)
    (hev : Ref.evalTo [Ref.zeroOf t] rhs t = .ok v) (hn : Numeric v) (hz : ¬ IsZero v) :
    VmPrints (doUntilProg t rhs) ['e', 'n', 'd', '\r', '\n'] := by
  obtain ⟨n, υ, hr, _, ho⟩ :=
    vm_run_of_ref (doUntilProg t rhs) 10 (doUntilProg_wf t rhs ht hs hw) _ (doUntilProg_ref t rhs v hev hn hz)
  exact ⟨n, υ, hr, ho⟩

example : VmPrints progDoUntil ['e', 'n', 'd', '\r', '\n'] :=
  vm_do_until_nonzero .sgl _ (.sgl (1 / 4)) (by decide) rfl rfl rfl trivial (by decide +kernel)

end RbThm.C01Cond
