import Thm.AoRSimExpr0
/-!
Layer AoR (port of the records-layer file `Thm/RecLSimIf.lean`), simulation part: the block IF statement (`IF … THEN … ELSEIF … ELSE … END IF`); port of
`Thm/ProcSimIf.lean` (itself a port of `Thm/C01SimIf.lean`).

Every arm (the first one and each ELSEIF arm) has the shape `<cond>; JumpIfFalse next; <body>; Jump endOff`;
`SimIf.ifs_correct` treats one arm against one `.ifs` node of the desugared statement, `SimIf.elifs_correct` walks the
ELSEIF chain by structural recursion (one unit of fuel per arm), `case_if` puts the first arm, the chain, the optional
ELSE part and the closing `end-if` label together.  Conditions are pure: the state is the same before and after.

Convention: `StmtPost code sc 0 tgt σ r` is used as "what `r` prescribes, arriving at address `tgt` on a
normal end".
-/
namespace RbThm.AoRSim
set_option linter.unusedVariables false
set_option linter.unusedSimpArgs false
open RbModel RbModel.Num RbModel.AoR RbModel.AoR.Compile RbModel.AoR.Vm
open RbModel.Ast (Pos)
open RbModel.RecL (ETy FTy FFields expand zeroOf)
open RbModel.RecL.Vm (allocTy defaultVar)
open RbThm.AoRLen RbThm.ArrLNum RbThm.RecLTy RbThm.AoRTy

set_option linter.unusedSectionVars false
variable [ExprOk]

namespace SimIf

/-- a `Jump tgt` after the statement: a normal end arrives at `tgt` -/
theorem post_then_jump {code : Code} {sc : Scope} {n off tgt : Nat} {p : Pos} {σ : Vm}
    {r : St × Outcome} (h : StmtPost code sc n off σ r)
    (hj : code[off + n]? = some (CInstr.jump tgt, p)) : StmtPost code sc 0 tgt σ r := by
  obtain ⟨s', o⟩ := r
  cases o with
  | normal =>
    obtain ⟨τ, st, hp, hrel, hss⟩ := h
    have hj' : code[τ.pc]? = some (CInstr.jump tgt, p) := by rw [hp]; exact hj
    have s1 : Vm.step code τ = .next { τ with pc := tgt } := by simp only [Vm.step, hj']
    exact ⟨{ τ with pc := tgt }, st.trans (Steps.one s1), rfl, hrel.setPc tgt,
      hss.trans ⟨rfl, rfl, rfl, rfl, rfl, id⟩⟩
  | halted => exact h
  | error c q => exact h
  | inexact => trivial
  | outOfFuel => trivial
  | illFormed => trivial
  | tooBig => trivial

/-- a label after the statement: a normal end steps over it -/
theorem post_then_label {code : Code} {sc : Scope} {n off : Nat} {name : String}
    {p : Pos} {σ : Vm} {r : St × Outcome} (h : StmtPost code sc n off σ r)
    (hl : code[off + n]? = some (CInstr.label name, p)) : StmtPost code sc (n + 1) off σ r := by
  obtain ⟨s', o⟩ := r
  cases o with
  | normal =>
    obtain ⟨τ, st, hp, hrel, hss⟩ := h
    have hl' : code[τ.pc]? = some (CInstr.label name, p) := by rw [hp]; exact hl
    have s1 : Vm.step code τ = .next (Vm.advance τ) := by simp only [Vm.step, hl']
    exact ⟨Vm.advance τ, st.trans (Steps.one s1), by simp [Vm.advance, hp]; omega, hrel.advance,
      hss.trans ⟨rfl, rfl, rfl, rfl, rfl, id⟩⟩
  | halted => exact h
  | error c q => exact h
  | inexact => trivial
  | outOfFuel => trivial
  | illFormed => trivial
  | tooBig => trivial

/-- one arm `<cond>; JumpIfFalse next; <body>; Jump endOff` against one `.ifs` node: the true branch runs the body
(at fuel `f`, by the statement hypothesis) and jumps to `endOff`; the false branch continues at `next` with whatever
`hels` says about the rest, from the state the condition left -/
theorem ifs_correct (code : Code) (fuel f : Nat) (ih : IHle code fuel) (hf : f ≤ fuel) (c : AoR.Expr) (body : SStmt)
    (els : Stmt) (sc : Scope) (sfx : String) (p : Pos) (off next endOff : Nat) (s : St) (σ : Vm)
    (hc : CodeAt code off (compileExpr c ++ [(CInstr.jumpIfFalse next, p)] ++
      compileStmt sfx (off + (compileExpr c).length + 1) body ++ [(CInstr.jump endOff, p)]))
    (hpc : σ.pc = off) (hr : Rel sc s σ) (hwc : EWf sc c) (hnc : NumTy c.ty)
    (hwb : Wf sc body) (ha : ActInv σ)
    (hels : ∀ (s1 : St) (τ : Vm), τ.pc = next → Rel sc s1 τ → ActInv τ →
      StmtPost code sc 0 endOff τ (AoR.Ref.exec f els s1)) :
    StmtPost code sc 0 endOff σ (AoR.Ref.exec (f + 1) (.ifs c (desugar body) els p) s) := by
  have hcond := cond_correct' code sc c next p off s σ hc.append_left.append_left hpc hr hwc hnc
  simp only [AoR.Ref.exec]
  generalize AoR.Ref.evalCond s c = rb at hcond ⊢
  cases rb with
  | error o => exact StmtPost.of_err hcond
  | ok b =>
    cases b with
    | false =>
      obtain ⟨τ, st, hp, hrel, hss⟩ := hcond
      exact StmtPost.of_steps st hss (hels s τ hp hrel (ha.of_same hss))
    | true =>
      obtain ⟨τ, st, hp, hrel, hss⟩ := hcond
      have hcb : CodeAt code (off + (compileExpr c).length + 1) (compileStmt sfx (off + (compileExpr c).length + 1) body) := by
        have := hc.append_left.append_right
        simp only [List.length_append, List.length_singleton] at this
        exact this.at (by omega)
      have hb := (ih f hf).stmt sc body sfx _ s τ hcb hp hrel hwb (ha.of_same hss)
      have hj : code[off + (compileExpr c).length + 1 + sizeStmt body]? = some (CInstr.jump endOff, p) := by
        have := hc.append_right.head
        simp only [List.length_append, List.length_singleton, len_stmt] at this
        rw [← this]; congr 1; omega
      exact StmtPost.of_steps st hss (post_then_jump hb hj)

/-- the ELSEIF chain: running from the label of arm `i` does what the nested `.ifs` chain prescribes and, on a normal
end, arrives at `endOff`; `helse` says what happens once the chain is exhausted and control is at `elseOff` -/
theorem elifs_correct (code : Code) (fuel : Nat) (ih : IHle code fuel) (sc : Scope) (sfx : String) (p : Pos)
    (endOff elseOff : Nat) (els : SStmt)
    (helse : ∀ f, f ≤ fuel → ∀ (s : St) (σ : Vm), σ.pc = elseOff → Rel sc s σ → ActInv σ →
      StmtPost code sc 0 endOff σ (AoR.Ref.exec f (desugar els) s)) :
    ∀ (elifs : ElseIfs) (f : Nat), f ≤ fuel → ∀ (off i : Nat) (s : St) (σ : Vm),
      CodeAt code off (compileElifs sfx p endOff elseOff off i elifs) → off + sizeElifs elifs = elseOff →
      σ.pc = off → Rel sc s σ → WfElifs sc elifs → ActInv σ →
      StmtPost code sc 0 endOff σ (AoR.Ref.exec f (desugarElifs elifs (desugar els) p) s)
  | .nil, f, hf, off, i, s, σ, hc, he, hpc, hr, hw, ha => by
    simp only [desugarElifs]
    simp only [sizeElifs] at he
    exact helse f hf s σ (by omega) hr ha
  | .cons c body rest, f, hf, off, i, s, σ, hc, he, hpc, hr, hw, ha => by
    cases f with
    | zero => simp only [desugarElifs, AoR.Ref.exec, StmtPost]
    | succ f' =>
      simp only [desugarElifs]
      simp only [compileElifs] at hc
      simp only [WfElifs] at hw
      obtain ⟨hwc, hnc, hwb, hwr⟩ := hw
      simp only [sizeElifs] at he
      subst hpc
      have hlab : code[σ.pc]? = some (CInstr.label (labelName ("else-if-" ++ toString i) p sfx), p) :=
        hc.append_left.append_left.append_left.append_left.append_left.head
      have s1 : Vm.step code σ = .next (Vm.advance σ) := by simp only [Vm.step, hlab]
      have harm : CodeAt code (σ.pc + 1) (compileExpr c ++
          [(CInstr.jumpIfFalse (σ.pc + 1 + (compileExpr c).length + 1 + sizeStmt body + 1), p)] ++
          compileStmt sfx (σ.pc + 1 + (compileExpr c).length + 1) body ++ [(CInstr.jump endOff, p)]) := by
        have h := hc.append_left
        have h' : CodeAt code σ.pc ([(CInstr.label (labelName ("else-if-" ++ toString i) p sfx), p)] ++
            (compileExpr c ++
              [(CInstr.jumpIfFalse (σ.pc + 1 + (compileExpr c).length + 1 + sizeStmt body + 1), p)] ++
              compileStmt sfx (σ.pc + 1 + (compileExpr c).length + 1) body ++ [(CInstr.jump endOff, p)])) := by
          simpa only [List.append_assoc] using h
        have := h'.append_right
        simpa only [List.length_singleton] using this
      have hcr : CodeAt code (σ.pc + 1 + (compileExpr c).length + 1 + sizeStmt body + 1)
          (compileElifs sfx p endOff elseOff (σ.pc + 1 + (compileExpr c).length + 1 + sizeStmt body + 1) (i + 1)
            rest) := by
        have := hc.append_right
        simp only [List.length_append, List.length_singleton, len_stmt] at this
        exact this.at (by omega)
      have hss : SameStacks σ (Vm.advance σ) := ⟨rfl, rfl, rfl, rfl, rfl, id⟩
      refine StmtPost.of_steps (Steps.one s1) hss ?_
      refine ifs_correct code fuel f' ih (by omega) c body _ sc sfx p (σ.pc + 1) _ endOff s (Vm.advance σ)
        harm rfl hr.advance hwc hnc hwb (ha.of_same hss) ?_
      intro s1' τ hτ hrτ haτ
      exact elifs_correct code fuel ih sc sfx p endOff elseOff els helse rest f' (by omega) _ (i + 1) s1' τ
        hcr (by omega) hτ hrτ hwr haτ

end SimIf

open SimIf in
theorem case_if (code : Code) (fuel : Nat) (ih : IHle code fuel) (c : AoR.Expr) (thn : SStmt) (elifs : ElseIfs)
    (hasElse : Bool) (els : SStmt) (p : Pos)
    (sc : Scope) (sfx : String) (off : Nat) (s : St) (σ : Vm)
    (hc : CodeAt code off (compileStmt sfx off (.ifBlock c thn elifs hasElse els p))) (hpc : σ.pc = off)
    (hr : Rel sc s σ) (hw : Wf sc (.ifBlock c thn elifs hasElse els p)) (ha : ActInv σ) :
    StmtPost code sc (sizeStmt (.ifBlock c thn elifs hasElse els p)) off σ
      (AoR.Ref.exec (fuel + 1) (desugar (.ifBlock c thn elifs hasElse els p)) s) := by
  simp only [Wf] at hw
  obtain ⟨hwc, hnc, hwt, hwe, hwels, hnoelse⟩ := hw
  cases hasElse with
  | false =>
    have hskip : els = .skip := hnoelse rfl
    subst hskip
    simp only [compileStmt, Bool.false_eq_true, if_false, Nat.add_zero, List.append_nil] at hc
    simp only [desugar, sizeStmt, Bool.false_eq_true, if_false, Nat.add_zero]
    have harm := hc.append_left.append_left
    have hend : code[off + (compileExpr c).length + 1 + sizeStmt thn + 1 + sizeElifs elifs + 0]? =
        some (CInstr.label (labelName "end-if" p sfx), p) := by
      have := hc.append_right.head
      simp only [List.length_append, List.length_singleton, len_stmt, len_elifs] at this
      rw [← this]; congr 1; omega
    have hce : CodeAt code (off + (compileExpr c).length + 1 + sizeStmt thn + 1)
        (compileElifs sfx p (off + (compileExpr c).length + 1 + sizeStmt thn + 1 + sizeElifs elifs)
          (off + (compileExpr c).length + 1 + sizeStmt thn + 1 + sizeElifs elifs)
          (off + (compileExpr c).length + 1 + sizeStmt thn + 1) 0 elifs) := by
      have := hc.append_left.append_right
      simp only [List.length_append, List.length_singleton, len_stmt] at this
      exact this.at (by omega)
    refine (post_then_label ?_ hend).addr (by omega)
    refine ifs_correct code fuel fuel ih (Nat.le_refl _) c thn _ sc sfx p off _ _ s σ harm hpc hr hwc hnc hwt
      ha ?_
    intro s1 τ hτ hrτ haτ
    refine elifs_correct code fuel ih sc sfx p _ _ .skip ?_ elifs fuel (Nat.le_refl _) _ 0 s1 τ hce rfl hτ hrτ
      hwe haτ
    intro f hf s' σ' hpc' hr' ha'
    cases f with
    | zero => simp only [AoR.Ref.exec, StmtPost]
    | succ f' =>
      simp only [desugar, AoR.Ref.exec]
      exact ⟨σ', Steps.refl σ', by omega, hr', SameStacks.refl σ'⟩
  | true =>
    simp only [compileStmt, if_true] at hc
    simp only [desugar, sizeStmt, if_true]
    have harm := hc.append_left.append_left.append_left
    have hend : code[off + (compileExpr c).length + 1 + sizeStmt thn + 1 + sizeElifs elifs +
          (1 + sizeStmt els) + 0]? = some (CInstr.label (labelName "end-if" p sfx), p) := by
      have := hc.append_right.head
      simp only [List.length_append, List.length_singleton, len_stmt, len_elifs] at this
      rw [← this]; congr 1; omega
    have hce : CodeAt code (off + (compileExpr c).length + 1 + sizeStmt thn + 1)
        (compileElifs sfx p
          (off + (compileExpr c).length + 1 + sizeStmt thn + 1 + sizeElifs elifs + (1 + sizeStmt els))
          (off + (compileExpr c).length + 1 + sizeStmt thn + 1 + sizeElifs elifs)
          (off + (compileExpr c).length + 1 + sizeStmt thn + 1) 0 elifs) := by
      have := hc.append_left.append_left.append_right
      simp only [List.length_append, List.length_singleton, len_stmt] at this
      exact this.at (by omega)
    have hlab : code[off + (compileExpr c).length + 1 + sizeStmt thn + 1 + sizeElifs elifs]? =
        some (CInstr.label (labelName "else" p sfx), p) := by
      have := hc.append_left.append_right.append_left.head
      simp only [List.length_append, List.length_singleton, len_stmt, len_elifs] at this
      rw [← this]; congr 1; omega
    have hcels : CodeAt code (off + (compileExpr c).length + 1 + sizeStmt thn + 1 + sizeElifs elifs + 1)
        (compileStmt sfx (off + (compileExpr c).length + 1 + sizeStmt thn + 1 + sizeElifs elifs + 1)
          els) := by
      have := hc.append_left.append_right.append_right
      simp only [List.length_append, List.length_singleton, len_stmt, len_elifs] at this
      exact this.at (by omega)
    refine (post_then_label ?_ hend).addr (by omega)
    refine ifs_correct code fuel fuel ih (Nat.le_refl _) c thn _ sc sfx p off _ _ s σ harm hpc hr hwc hnc hwt
      ha ?_
    intro s1 τ hτ hrτ haτ
    refine elifs_correct code fuel ih sc sfx p _ _ els ?_ elifs fuel (Nat.le_refl _) _ 0 s1 τ hce rfl hτ hrτ
      hwe haτ
    intro f hf s' σ' hpc' hr' ha'
    have hlab' : code[σ'.pc]? = some (CInstr.label (labelName "else" p sfx), p) := by rw [hpc']; exact hlab
    have s1 : Vm.step code σ' = .next (Vm.advance σ') := by simp only [Vm.step, hlab']
    have hss : SameStacks σ' (Vm.advance σ') := ⟨rfl, rfl, rfl, rfl, rfl, id⟩
    have hb := (ih f hf).stmt sc els sfx _ s' (Vm.advance σ') hcels (by simp [Vm.advance, hpc'])
      hr'.advance hwels (ha'.of_same hss)
    exact StmtPost.of_steps (Steps.one s1) hss (hb.addr (by omega))

end RbThm.AoRSim
