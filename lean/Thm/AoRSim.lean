import Thm.AoRSimBase
import Thm.AoRSimExpr
import Thm.AoRSimStmt
import Thm.AoRSimIf
import Thm.AoRSimDo
import Thm.AoRSimPrint
import Thm.AoRSimSelect
import Thm.AoRSimFor
import Thm.AoRSimRead
import Thm.AoRSimAssignElem
import Thm.AoRSimDim
import Thm.AoRSimProg
import Thm.AoRWf
/-!
Layer AoR (arrays of records / of fixed-length strings = arrays layer ∪ records layer), simulation part — the induction on
fuel and the whole-program theorem `AoR.compile_correct`.

`Thm/AoRTyping.lean` holds the facts about the reference semantics alone (typing, no-NUL); `Thm/AoRSimBase.lean` the
infrastructure (`Rel` with the array relation `ArrsRel` over `Variant` trees) and the specifications;
`Thm/AoRSimExpr0.lean` / `AoRSimIdx` / `AoRSimElem` / `AoRSimCall` the expression cases and `Thm/AoRSimExpr.lean` the mutual
recursion `expr_correct_real` / `idx_correct_real`; `Thm/AoRSimStmt.lean` sequencing, assignment to a variable / field of
every kind, DIM of a variable, END; `Thm/AoRSimAssignElem.lean` the assignment `a(i…).f.g = e`; `Thm/AoRSimDim.lean`
`DIM a(…) AS T` / `REDIM`; `Thm/AoRSim{If,Do,Print,Select,For,Read}.lean` the control-flow constructs, PRINT and READ
(ports of the records layer, written against the hypothetical form `[ExprOk]` of the expression theorem);
`Thm/AoRSimProg.lean` the lift to whole programs; `Thm/AoRWf.lean` the decidable premise.  Here they are put together: the
two hypothetical forms (`ExprOk`, `IdxOk`) are discharged by the real theorems, so nothing below carries an instance
argument.
-/
namespace RbThm.AoRSim
set_option linter.unusedVariables false
open RbModel RbModel.Num RbModel.AoR RbModel.AoR.Compile RbModel.AoR.Vm
open RbModel.Ast (Pos)
open RbModel.RecL (ETy FTy FFields expand zeroOf)
open RbModel.RecL.Vm (allocTy defaultVar)
open RbThm.AoRLen RbThm.ArrLNum RbThm.RecLTy RbThm.AoRTy

/-- the hypothesis of the statement case files, discharged: every expression satisfies its specification -/
instance instExprOk : ExprOk := ⟨expr_correct_real⟩

/-- the hypothesis of the element assignment, discharged: every subscript list satisfies its specification -/
instance instIdxOk : IdxOk := ⟨idx_correct_real⟩

/-- one more unit of fuel: every statement of the language, given the hypothesis at all smaller amounts -/
theorem ih_succ (code : Code) (fuel : Nat) (ih : IHle code fuel) : StmtIH code (fuel + 1) := by
  intro sc stmt sfx off s σ hc hpc hr hw ha
  cases stmt with
  | skip =>
    simp only [desugar, AoR.Ref.exec, StmtPost, sizeStmt, Nat.add_zero]
    exact ⟨σ, Steps.refl σ, hpc, hr, SameStacks.refl σ⟩
  | comment =>
    simp only [desugar, AoR.Ref.exec, StmtPost, sizeStmt, Nat.add_zero]
    exact ⟨σ, Steps.refl σ, hpc, hr, SameStacks.refl σ⟩
  | seq a b => exact case_seq code fuel ih a b sc sfx off s σ hc hpc hr hw ha
  | dim x t p => exact case_dim code fuel ih x t p sc sfx off s σ hc hpc hr hw ha
  | dimArr a t dims p => exact case_dimArr code fuel ih a t dims p sc sfx off s σ hc hpc hr hw ha
  | assign x path t e p => exact case_assign code fuel ih x path t e p sc sfx off s σ hc hpc hr hw ha
  | assignElem a idx path t e p =>
    exact case_assignElem code fuel ih a idx path t e p sc sfx off s σ hc hpc hr hw ha
  | print items p => exact case_print code fuel ih items p sc sfx off s σ hc hpc hr hw ha
  | data items p => simp only [Wf] at hw
  | read tgs p => exact case_read code fuel ih tgs p sc sfx off s σ hc hpc hr hw ha
  | ifBlock c thn elifs hasElse els p =>
    exact case_if code fuel ih c thn elifs hasElse els p sc sfx off s σ hc hpc hr hw ha
  | select e cases hasElse els p =>
    exact case_select code fuel ih e cases hasElse els p sc sfx off s σ hc hpc hr hw ha
  | forLoop x t lo hi step body p =>
    exact case_for code fuel ih x t lo hi step body p sc sfx off s σ hc hpc hr hw ha
  | «while» c body p => exact case_while code fuel ih c body p sc sfx off s σ hc hpc hr hw ha
  | doLoop c top u body p => exact case_do code fuel ih c top u body p sc sfx off s σ hc hpc hr hw ha
  | end_ p => exact case_end code fuel p sc sfx off s σ hc hpc hr

theorem ihle_all (code : Code) : ∀ fuel, IHle code fuel := by
  intro fuel
  induction fuel with
  | zero =>
    intro f hf
    have : f = 0 := by omega
    subst this
    exact ih_zero code
  | succ n ih =>
    intro f hf
    by_cases h : f ≤ n
    · exact ih f h
    · have : f = n + 1 := by omega
      subst this
      exact ⟨ih_succ code n ih⟩

/-- **the simulation theorem for the layer AoR at the level of statements**: for every amount of fuel the code of every
well-formed statement does on the VM model what the reference semantics prescribes -/
theorem ih_all (code : Code) (fuel : Nat) : IH code fuel := (ihle_all code fuel).self

/-- **`AoR.compile_correct`** — whole programs with records, fixed-length strings and arrays of any declared element
type (built-in, `STRING * n`, record): for every well-formed program (`ProgWf`) and every amount of fuel, if the reference
semantics `AoR.Ref.run` ends normally or with END, the VM model `AoR.Vm` running the code the generator model
`AoR.Compile.compile` emits reaches a `Halt` from the initial state (no array dimensioned) with the same output; if it ends
with BASIC error `c` at position `p` (Subscript out of range of an element read / store / DIM / LBOUND / UBOUND included),
the VM stops with error `c` at `p` with the same output.  Nothing is claimed for the outcomes outside the modelled
language: `illFormed` (a record / `STRING * n` variable or an array used although its DIM did not run), `tooBig` (an array
with more than `sizeLimit` elements), `inexact` (a float outside the exact domain), `outOfFuel`.  No bound on program size,
nesting depth of statements or of record types, number of dimensions, string lengths or run length. -/
theorem compile_correct (prog : SProgram) (fuel : Nat) (hw : ProgWf prog) :
    match AoR.Ref.run fuel prog.toAst with
    | (s', .normal) => HaltsWith (compile prog) (Vm.init prog.types prog.slots prog.arrs) s'.out
    | (s', .halted) => HaltsWith (compile prog) (Vm.init prog.types prog.slots prog.arrs) s'.out
    | (s', .error c p) => ErrsWith (compile prog) (Vm.init prog.types prog.slots prog.arrs) c p s'.out
    | (_, .inexact) => True
    | (_, .outOfFuel) => True
    | (_, .illFormed) => True
    | (_, .tooBig) => True :=
  compile_correct_of prog fuel hw (fun f => (ih_all (compile prog) f).stmt)

/-- `Steps` is what `AoR.Vm.run` does: a run that takes the steps and then halts is a halted run of the bounded
interpreter the correspondence check executes, for every sufficient step budget -/
theorem run_of_steps (code : Code) {σ τ υ : Vm} (h : Steps code σ τ) (hh : Vm.step code τ = .halt υ) :
    ∃ n, ∀ m, n ≤ m → Vm.run code m σ = .halted υ := by
  induction h with
  | refl σ =>
    refine ⟨1, fun m hm => ?_⟩
    obtain ⟨k, rfl⟩ : ∃ k, m = k + 1 := ⟨m - 1, by omega⟩
    simp [Vm.run, hh]
  | cons hs _ ih =>
    obtain ⟨n, hn⟩ := ih hh
    refine ⟨n + 1, fun m hm => ?_⟩
    obtain ⟨k, rfl⟩ : ∃ k, m = k + 1 := ⟨m - 1, by omega⟩
    simp [Vm.run, hs, hn k (by omega)]

theorem run_of_steps_error (code : Code) {σ τ υ : Vm} {c : Nat} {p : Pos} (h : Steps code σ τ)
    (hh : Vm.step code τ = .error c p υ) :
    ∃ n, ∀ m, n ≤ m → Vm.run code m σ = .error c p υ := by
  induction h with
  | refl σ =>
    refine ⟨1, fun m hm => ?_⟩
    obtain ⟨k, rfl⟩ : ∃ k, m = k + 1 := ⟨m - 1, by omega⟩
    simp [Vm.run, hh]
  | cons hs _ ih =>
    obtain ⟨n, hn⟩ := ih hh
    refine ⟨n + 1, fun m hm => ?_⟩
    obtain ⟨k, rfl⟩ : ∃ k, m = k + 1 := ⟨m - 1, by omega⟩
    simp [Vm.run, hs, hn k (by omega)]

/-- **`AoR.run_correct`** — `AoR.compile_correct` restated for the bounded interpreter `AoR.Vm.run` that the
correspondence check (`harness/src/bin/c04a.rs`) executes against the real VM: for every sufficient step budget the run
of the generated code ends as the reference semantics prescribes -/
theorem run_correct (prog : SProgram) (fuel : Nat) (hw : ProgWf prog) :
    match AoR.Ref.run fuel prog.toAst with
    | (s', .normal) =>
      ∃ n υ, (∀ m, n ≤ m → Vm.run (compile prog) m (Vm.init prog.types prog.slots prog.arrs) = .halted υ) ∧
        υ.out = s'.out
    | (s', .halted) =>
      ∃ n υ, (∀ m, n ≤ m → Vm.run (compile prog) m (Vm.init prog.types prog.slots prog.arrs) = .halted υ) ∧
        υ.out = s'.out
    | (s', .error c p) =>
      ∃ n υ, (∀ m, n ≤ m → Vm.run (compile prog) m (Vm.init prog.types prog.slots prog.arrs) = .error c p υ) ∧
        υ.out = s'.out
    | (_, .inexact) => True
    | (_, .outOfFuel) => True
    | (_, .illFormed) => True
    | (_, .tooBig) => True := by
  have h := compile_correct prog fuel hw
  generalize AoR.Ref.run fuel prog.toAst = r at h ⊢
  obtain ⟨s', o⟩ := r
  cases o with
  | normal =>
    obtain ⟨τ, υ, st, hh, ho⟩ := h
    obtain ⟨n, hn⟩ := run_of_steps _ st hh
    exact ⟨n, υ, hn, ho⟩
  | halted =>
    obtain ⟨τ, υ, st, hh, ho⟩ := h
    obtain ⟨n, hn⟩ := run_of_steps _ st hh
    exact ⟨n, υ, hn, ho⟩
  | error c p =>
    obtain ⟨τ, υ, st, hh, ho⟩ := h
    obtain ⟨n, hn⟩ := run_of_steps_error _ st hh
    exact ⟨n, υ, hn, ho⟩
  | inexact => trivial
  | outOfFuel => trivial
  | illFormed => trivial
  | tooBig => trivial

/-- `AoR.compile_correct` with the premise in its decidable form (`RbModel/AoR/WfB.lean`, sound by `Thm/AoRWf.lean`):
what the driver evaluates on every program the harness explores (request `aor.wf`) -/
theorem compile_correct_checked (prog : SProgram) (fuel : Nat) (hw : AoR.progWfB prog = true) :
    match AoR.Ref.run fuel prog.toAst with
    | (s', .normal) => HaltsWith (compile prog) (Vm.init prog.types prog.slots prog.arrs) s'.out
    | (s', .halted) => HaltsWith (compile prog) (Vm.init prog.types prog.slots prog.arrs) s'.out
    | (s', .error c p) => ErrsWith (compile prog) (Vm.init prog.types prog.slots prog.arrs) c p s'.out
    | (_, .inexact) => True
    | (_, .outOfFuel) => True
    | (_, .illFormed) => True
    | (_, .tooBig) => True :=
  compile_correct prog fuel (progWfB_sound prog hw)

/-- `AoR.run_correct` with the premise in its decidable form -/
theorem run_correct_checked (prog : SProgram) (fuel : Nat) (hw : AoR.progWfB prog = true) :
    match AoR.Ref.run fuel prog.toAst with
    | (s', .normal) =>
      ∃ n υ, (∀ m, n ≤ m → Vm.run (compile prog) m (Vm.init prog.types prog.slots prog.arrs) = .halted υ) ∧
        υ.out = s'.out
    | (s', .halted) =>
      ∃ n υ, (∀ m, n ≤ m → Vm.run (compile prog) m (Vm.init prog.types prog.slots prog.arrs) = .halted υ) ∧
        υ.out = s'.out
    | (s', .error c p) =>
      ∃ n υ, (∀ m, n ≤ m → Vm.run (compile prog) m (Vm.init prog.types prog.slots prog.arrs) = .error c p υ) ∧
        υ.out = s'.out
    | (_, .inexact) => True
    | (_, .outOfFuel) => True
    | (_, .illFormed) => True
    | (_, .tooBig) => True :=
  run_correct prog fuel (progWfB_sound prog hw)

/-! #### non-vacuity: two concrete programs

    TYPE T : A AS INTEGER : S AS STRING * 3 : END TYPE
    DIM R(1 TO 2) AS T
    R(2).S = "abcdef"
    PRINT R(2).S; R(2).A; UBOUND(R)
    [ R(3).A = 1 ]                 ' only in the second program: Subscript out of range
-/

private def demoTypes : List FFields := [.cons "A" (.sc .int) (.cons "S" (.fix 3) .nil)]

private def demoHead (tail : SStmt) : SStmt :=
  .seq (.dimArr 0 (.udt 0) (.cons (some (.lit (.int 1) ⟨2, 7⟩)) (.lit (.int 2) ⟨2, 12⟩) .nil) ⟨2, 5⟩)
  (.seq (.assignElem 0 (.cons (.lit (.int 2) ⟨3, 3⟩) .nil) ["S"] (.fix 3)
          (.lit (.str ['a', 'b', 'c', 'd', 'e', 'f']) ⟨3, 10⟩) ⟨3, 1⟩)
  (.seq (.print [.expr (.elem 0 (.cons (.lit (.int 2) ⟨4, 9⟩) .nil) ["S"] (.fix 3) ⟨4, 7⟩), .semicolon,
                 .expr (.elem 0 (.cons (.lit (.int 2) ⟨4, 17⟩) .nil) ["A"] (.sc .int) ⟨4, 15⟩), .semicolon,
                 .expr (.bound true 0 ⟨4, 30⟩ ⟨4, 23⟩)] ⟨4, 1⟩)
    tail))

/-- the program that ends normally -/
private def demoProg : SProgram := { types := demoTypes, slots := [], arrs := [.udt 0], body := demoHead .skip }

/-- the program that ends with Subscript out of range (9) in the element-field store of line 5 -/
private def demoErr : SProgram :=
  { types := demoTypes, slots := [], arrs := [.udt 0],
    body := demoHead (.seq (.assignElem 0 (.cons (.lit (.int 3) ⟨5, 3⟩) .nil) ["A"] (.sc .int)
                              (.lit (.int 1) ⟨5, 10⟩) ⟨5, 1⟩) .skip) }

/-- the premise of `AoR.compile_correct_checked` is satisfiable: both demo programs pass the checker -/
example : AoR.progWfB demoProg = true := by decide

example : AoR.progWfB demoErr = true := by decide

/-- the first program is in the `normal` arm of the theorem, the second in the `error` arm — code 9 — and neither in an
arm that claims nothing -/
example : (AoR.Ref.run 20 demoProg.toAst).2 = .normal := by rfl

example : ∃ p, (AoR.Ref.run 20 demoErr.toAst).2 = .error 9 p := ⟨_, by rfl⟩

/-- so the generated code of the second program, run on the VM model, stops with Subscript out of range -/
example : ∃ p out, ErrsWith (compile demoErr) (Vm.init demoErr.types demoErr.slots demoErr.arrs) 9 p out := by
  have h := compile_correct_checked demoErr 20 (by decide)
  generalize hr : AoR.Ref.run 20 demoErr.toAst = r at h
  have h2 : ∃ p, r.2 = .error 9 p := by rw [← hr]; exact ⟨_, by rfl⟩
  obtain ⟨s', o⟩ := r
  obtain ⟨p, hp⟩ := h2
  simp only at hp
  subst hp
  exact ⟨p, s'.out, h⟩

end RbThm.AoRSim
