import Thm.JmpLSimBase
/-!
Jump layer, simulation part: `FOR … NEXT`, with and without `STEP` (port of `C01SimFor`).

New with respect to the core language: the body runs one FOR deeper (`d + 1`) on top of the frame `PushRegisters` saved
(`f :: regStack`), everything is relative in the stacks, and the body can answer `jump L` / `ret p`:

* a `jump L` out of the body never names a label of the body (`jump_shape`): the branch `forIter … (.seek L)` of the reference
  semantics is dead, the jump leaves the loop.  `Leaves dp.fd d` (in `Wf`) says `fd L ≤ d`, so the `PopRegisters` run of the
  GOTO has removed the loop's frame: `(f :: R).drop (d + 1 − fd L) = R.drop (d − fd L)`;
* a `ret p` is passed on: `X ++ (f :: R).drop (d + 1) = X ++ R.drop d`;
* a FOR entered in seek mode from outside answers `illFormed` / `notHere`: nothing is claimed.
-/
namespace RbThm.JmpLSim
set_option linter.unusedVariables false
set_option linter.unusedSimpArgs false
open RbModel RbModel.Num RbModel.JmpL RbModel.JmpL.Compile RbModel.JmpL.Vm
open RbModel.Ast (Pos PrintItem CaseExpr)
open RbModel.Ref (St ERes eval evalTo codeOf codeOutOfData codeZeroStep zeroOf truthy printValue endsInSeparator StepSign
  binStep lift)
open RbModel.JmpL.Ref
open RbThm.JmpLLen
open RbThm.C01Sim (Typed SlotsBelow ExprWt NumericAt NumericCond ItemsSlots CaseSlots CondsSlots getD_of_lt)

/-! ### small facts about values -/

theorem for_truthy_ofBool (b : Bool) : truthy (ofBool b) = some b := by
  cases b <;> rfl

/-- the current value of a typed variable -/
theorem for_cur {sl : List Ty} {env : List Val} (h : Typed sl env) {x : Nat} {t : Ty} (hx : sl[x]? = some t) :
    ∃ v, env[x]? = some v ∧ env.getD x (zeroOf t) = v := by
  obtain ⟨hg, hs⟩ := getD_of_lt (zeroOf t) (h.lt hx)
  exact ⟨_, hs, hg⟩

theorem CodeAt.at_for {code : Code} {off off' : Nat} {frag : Code} (h : CodeAt code off frag) (e : off = off') :
    CodeAt code off' frag := e ▸ h

/-! ### instruction groups -/

/-- `VarPathName x; CopyVarPathToA; PopVarPath`: load variable `x` into A -/
theorem for_load_steps (code : Code) (x : Nat) (p : Pos) (off : Nat) (τ : Vm) (v : Val)
    (hc : CodeAt code off (loadVar x p)) (hpc : τ.pc = off) (hv : τ.env[x]? = some v) :
    Steps code τ { τ with pc := off + 3, regs := { τ.regs with a := v } } := by
  subst hpc
  have h0 : code[τ.pc]? = some (CInstr.varPath x, p) := hc.head
  have h1 : code[τ.pc + 1]? = some (CInstr.copyVarPathToA, p) := hc.tail.head
  have h2 : code[τ.pc + 1 + 1]? = some (CInstr.popVarPath, p) := hc.tail.tail.head
  refine Steps.cons (τ := advance { τ with paths := x :: τ.paths }) ?_ ?_
  · simp only [Vm.step, h0]
  refine Steps.cons (τ := advance (setA (advance { τ with paths := x :: τ.paths }) v)) ?_ ?_
  · simp only [Vm.step, advance, h1, hv]
  refine Steps.one ?_
  simp only [Vm.step, advance, setA, h2]

/-- the relational instructions are `try_cmp` turned into −1 / 0 -/
def ForIsRel (op : Op) : Prop :=
  ∀ a b, binInstr op a b = (tryCmp a b).bind fun o => Res.ok (ofBool (relHolds op o))

/-- compare A with B by a relational operator and branch on the outcome -/
theorem for_cmp_jump (code : Code) (op : Op) (hop : ForIsRel op) (p : Pos) (target : Nat) (off : Nat) (τ : Vm)
    (hc : CodeAt code off [(CInstr.bin op, p), (CInstr.jumpIfFalse target, p)]) (hpc : τ.pc = off) :
    match tryCmp τ.regs.a τ.regs.b with
    | .ok o =>
      if relHolds op o then Steps code τ { τ with pc := off + 2, regs := { τ.regs with a := ofBool true } }
      else Steps code τ { τ with pc := target, regs := { τ.regs with a := ofBool false } }
    | .err e => ErrsWith code τ (codeOf e) p τ.env τ.out
    | .inexact => True := by
  subst hpc
  have h0 : code[τ.pc]? = some (CInstr.bin op, p) := hc.head
  have h1 : code[τ.pc + 1]? = some (CInstr.jumpIfFalse target, p) := hc.tail.head
  have s0 : Vm.step code τ = resA τ p (binInstr op τ.regs.a τ.regs.b) := by
    simp only [Vm.step, h0]
  rw [hop] at s0
  cases hcmp : tryCmp τ.regs.a τ.regs.b with
  | ok o =>
    simp only [hcmp, Res.bind, resA] at s0 ⊢
    cases hb : relHolds op o with
    | true =>
      simp only [hb, if_true] at s0 ⊢
      refine Steps.cons s0 (Steps.one ?_)
      simp only [Vm.step, advance, setA, h1, for_truthy_ofBool]
    | false =>
      simp only [hb] at s0 ⊢
      refine Steps.cons s0 (Steps.one ?_)
      simp only [Vm.step, advance, setA, h1, for_truthy_ofBool]
  | err e =>
    simp only [hcmp, Res.bind, resA] at s0 ⊢
    exact ⟨τ, τ, Steps.refl τ, s0, rfl, rfl⟩
  | inexact => trivial

/-- the head of one FOR round: label, `CopyCToB`, load the counter, compare, branch, `PushRegisters` -/
def forHeadCode (lbl : String) (x : Nat) (op : Op) (p : Pos) (outOff : Nat) : Code :=
  [(CInstr.label lbl, p), (CInstr.copyCToB, p)] ++ loadVar x p ++
    [(CInstr.bin op, p), (CInstr.jumpIfFalse outOff, p), (CInstr.pushRegs, p)]

/-- the tail of one FOR round: `PopRegisters`, counter := cast (counter + D), jump back -/
def forTailCode (x : Nat) (t : Ty) (p : Pos) (bo : Nat) : Code :=
  [(CInstr.popRegs, p)] ++ loadVar x p ++ [(CInstr.copyDToB, p), (CInstr.bin .plus, p), (CInstr.cast t, p)] ++
    storeVar x p ++ [(CInstr.jump bo, p)]

theorem forBody_split (sfx : String) (x : Nat) (t : Ty) (bc : Code) (up : Bool) (p : Pos) (bo outOff : Nat) :
    forBody sfx x t bc up p bo outOff =
      forHeadCode (labelName (if up then "positive-loop" else "negative-loop") p sfx) x
        (if up then .lessOrEqual else .greaterOrEqual) p outOff ++ (bc ++ forTailCode x t p bo) := by
  simp [forBody, forHeadCode, forTailCode, loadVar, storeVar]

theorem for_head (code : Code) (lbl : String) (x : Nat) (op : Op) (hop : ForIsRel op) (p : Pos) (bo outOff : Nat)
    (h sv : Val) (σ : Vm) (cur : Val)
    (hc : CodeAt code bo (forHeadCode lbl x op p outOff)) (hpc : σ.pc = bo) (hC : σ.regs.c = h) (hD : σ.regs.d = sv)
    (hv : σ.env[x]? = some cur) :
    match tryCmp cur h with
    | .ok o =>
      if relHolds op o then
        ∃ a, Steps code σ { σ with pc := bo + 8, regs := Regs.new, regStack := ⟨a, h, h, sv⟩ :: σ.regStack }
      else ∃ a, Steps code σ { σ with pc := outOff, regs := ⟨a, h, h, sv⟩ }
    | .err e => ErrsWith code σ (codeOf e) p σ.env σ.out
    | .inexact => True := by
  subst hpc
  subst hC
  subst hD
  simp only [forHeadCode] at hc
  have h0 : code[σ.pc]? = some (CInstr.label lbl, p) := hc.append_left.append_left.head
  have h1 : code[σ.pc + 1]? = some (CInstr.copyCToB, p) := hc.append_left.append_left.tail.head
  have hl : CodeAt code (σ.pc + 2) (loadVar x p) := hc.append_left.append_right
  have hcj : CodeAt code (σ.pc + 5) [(CInstr.bin op, p), (CInstr.jumpIfFalse outOff, p), (CInstr.pushRegs, p)] :=
    hc.append_right
  have hcj2 : CodeAt code (σ.pc + 5) [(CInstr.bin op, p), (CInstr.jumpIfFalse outOff, p)] :=
    CodeAt.append_left (a := [(CInstr.bin op, p), (CInstr.jumpIfFalse outOff, p)]) (b := [(CInstr.pushRegs, p)]) hcj
  have h7 : code[σ.pc + 7]? = some (CInstr.pushRegs, p) := hcj.tail.tail.head
  let σ1 : Vm := advance σ
  let σ2 : Vm := advance { σ1 with regs := { σ1.regs with b := σ1.regs.c } }
  let σ3 : Vm := { σ2 with pc := σ.pc + 2 + 3, regs := { σ2.regs with a := cur } }
  have s1 : Vm.step code σ = .next σ1 := by simp only [Vm.step, h0]; rfl
  have s2 : Vm.step code σ1 = .next σ2 := by simp only [Vm.step, σ1, advance, h1]; rfl
  have s3 : Steps code σ2 σ3 := for_load_steps code x p (σ.pc + 2) σ2 cur hl rfl hv
  have pre : Steps code σ σ3 := Steps.cons s1 (Steps.cons s2 s3)
  have hcmp := for_cmp_jump code op hop p outOff (σ.pc + 5) σ3 hcj2 rfl
  have ha : σ3.regs.a = cur := rfl
  have hb : σ3.regs.b = σ.regs.c := rfl
  rw [ha, hb] at hcmp
  cases hcm : tryCmp cur σ.regs.c with
  | ok o =>
    simp only [hcm] at hcmp ⊢
    cases hr : relHolds op o with
    | true =>
      simp only [hr, if_true] at hcmp ⊢
      refine ⟨ofBool true, (pre.trans hcmp).trans (Steps.one ?_)⟩
      simp only [Vm.step, h7]
      rfl
    | false =>
      simp only [hr] at hcmp ⊢
      exact ⟨ofBool false, pre.trans hcmp⟩
  | err e =>
    simp only [hcm] at hcmp ⊢
    exact ErrsWith.of_steps pre hcmp
  | inexact => trivial

theorem for_tail (code : Code) (x : Nat) (t : Ty) (p : Pos) (q bo : Nat) (υ : Vm) (r : Regs) (rest : List Regs)
    (cur : Val)
    (hc : CodeAt code q (forTailCode x t p bo)) (hpc : υ.pc = q) (hrs : υ.regStack = r :: rest)
    (hv : υ.env[x]? = some cur) :
    match (plus cur r.d).bind (fun w => cast w t) with
    | .ok v => Steps code υ { υ with pc := bo, regs := { r with a := v, b := r.d }, regStack := rest,
                                      env := υ.env.set x v }
    | .err e => ErrsWith code υ (codeOf e) p υ.env υ.out
    | .inexact => True := by
  subst hpc
  simp only [forTailCode] at hc
  have h0 : code[υ.pc]? = some (CInstr.popRegs, p) := hc.append_left.append_left.append_left.append_left.head
  have hl : CodeAt code (υ.pc + 1) (loadVar x p) := hc.append_left.append_left.append_left.append_right
  have h3 : CodeAt code (υ.pc + 4) [(CInstr.copyDToB, p), (CInstr.bin .plus, p), (CInstr.cast t, p)] :=
    hc.append_left.append_left.append_right
  have hs : CodeAt code (υ.pc + 7) (storeVar x p) := hc.append_left.append_right
  have hj : code[υ.pc + 9]? = some (CInstr.jump bo, p) := hc.append_right.head
  let υ1 : Vm := advance { υ with regs := r, regStack := rest }
  let υ2 : Vm := { υ1 with pc := υ.pc + 1 + 3, regs := { υ1.regs with a := cur } }
  let υ3 : Vm := advance { υ2 with regs := { υ2.regs with b := υ2.regs.d } }
  have s1 : Vm.step code υ = .next υ1 := by simp only [Vm.step, h0, hrs]; rfl
  have s2 : Steps code υ1 υ2 := for_load_steps code x p (υ.pc + 1) υ1 cur hl rfl hv
  have s3 : Vm.step code υ2 = .next υ3 := by
    have := h3.head
    simp only [Vm.step, υ2, this]; rfl
  have s4 : Vm.step code υ3 = resA υ3 p (plus cur r.d) := by
    have := h3.tail.head
    simp only [Vm.step, υ3, υ2, advance, this]; rfl
  have pre : Steps code υ υ3 := Steps.cons s1 (s2.trans (Steps.one s3))
  cases hpl : plus cur r.d with
  | ok w =>
    simp only [Res.bind]
    let υ4 : Vm := advance (setA υ3 w)
    have s4' : Vm.step code υ3 = .next υ4 := by rw [s4, hpl]; rfl
    have s5 : Vm.step code υ4 = resA υ4 p (cast w t) := by
      have := h3.tail.tail.head
      simp only [Vm.step, υ4, υ3, υ2, advance, setA, this]
    cases hcs : cast w t with
    | ok v =>
      simp only
      let υ5 : Vm := advance (setA υ4 v)
      have s5' : Vm.step code υ4 = .next υ5 := by rw [s5, hcs]; rfl
      have s6 := store_steps code x p (υ.pc + 7) υ5 hs rfl
      refine (pre.trans (Steps.cons s4' (Steps.cons s5' s6))).trans (Steps.one ?_)
      simp only [Vm.step, hj]
      rfl
    | err e =>
      simp only
      refine ⟨υ4, υ4, pre.trans (Steps.one s4'), ?_, rfl, rfl⟩
      rw [s5, hcs]; rfl
    | inexact => trivial
  | err e =>
    simp only [Res.bind]
    refine ⟨υ3, υ3, pre, ?_, rfl, rfl⟩
    rw [s4, hpl]; rfl
  | inexact => trivial

/-! ### the rounds -/

/-- **the FOR rounds**: from the loop-head label with the limit in C and the step in D, the generated code does what
`forIter` (entered in run mode) prescribes and leaves through the `out-of-for` address; relative to the stacks of the
loop-head state, at the depths of the FOR statement.  The body runs at FOR depth `d + 1` on top of the saved frame. -/
theorem for_loop (C : Ctx) (fuel : Nat) (ih : StmtIHle C fuel) (x : Nat) (t : Ty)
    (body : SStmt) (p : Pos) (sfx : String) (up : Bool) (d e bo outOff : Nat) (h sv : Val)
    (hx : C.sl[x]? = some t) (hwb : Wf C.sl C.env.dp (d + 1) e body) (hlb : LabAt C.env (d + 1) e (bo + 8) body)
    (hleave : Leaves C.env.dp.fd d body.labels body.gotos)
    (hc : CodeAt C.code bo
      (forBody sfx x t (compileStmt C.env (stepSuffix sfx up) (d + 1) e (bo + 8) body) up p bo outOff)) :
    ∀ f, f ≤ fuel → ∀ (σ : Vm) (s : St), σ.pc = bo → σ.regs.c = h → σ.regs.d = sv → Rel C.sl s σ →
      d ≤ σ.regStack.length → e ≤ σ.vals.length →
      StmtSpec C d e outOff σ (forIter f C.P x t h sv up (desugar body) p .run s) := by
  rw [forBody_split] at hc
  have hch := hc.append_left
  have hlenH : (forHeadCode (labelName (if up then "positive-loop" else "negative-loop") p sfx) x
        (if up then Op.lessOrEqual else Op.greaterOrEqual) p outOff).length = 8 := by
    simp [forHeadCode, loadVar]
  have hcb : CodeAt C.code (bo + 8) (compileStmt C.env (stepSuffix sfx up) (d + 1) e (bo + 8) body) := by
    have := hc.append_right.append_left
    rwa [hlenH] at this
  have hct : CodeAt C.code (bo + 8 + sizeStmt C.env.dp (d + 1) e body) (forTailCode x t p bo) := by
    have := hc.append_right.append_right
    rwa [hlenH, len_stmt] at this
  have hop : ForIsRel (if up then Op.lessOrEqual else Op.greaterOrEqual) := by
    cases up <;> exact fun _ _ => rfl
  intro f
  induction f with
  | zero => intro _ σ s _ _ _ _ _ _; simp [forIter, StmtSpec]
  | succ f' ihf =>
    intro hf σ s hpc hC hD hr hd he
    obtain ⟨cur, hcur, hgd⟩ := for_cur hr.typed hx
    have hhead := for_head C.code _ x _ hop p bo outOff h sv σ cur hch hpc hC hD (by rw [hr.env]; exact hcur)
    simp only [forIter, hgd, relTest]
    cases hcm : tryCmp cur h with
    | err er =>
      simp only [hcm] at hhead ⊢
      simp only [StmtSpec]
      exact ⟨_, by rw [← hr.out]; exact hhead⟩
    | inexact => simp [StmtSpec]
    | ok o =>
      simp only [hcm] at hhead ⊢
      cases hrel : relHolds (if up then Op.lessOrEqual else Op.greaterOrEqual) o with
      | false =>
        simp only [hrel] at hhead ⊢
        obtain ⟨a, st⟩ := hhead
        simp only [StmtSpec]
        exact ⟨_, st, rfl, hr.same rfl rfl rfl rfl rfl rfl, ⟨rfl, rfl, rfl, rfl⟩⟩
      | true =>
        simp only [hrel, if_true] at hhead ⊢
        obtain ⟨a, st⟩ := hhead
        let τ0 : Vm := { σ with pc := bo + 8, regs := Regs.new, regStack := ⟨a, h, h, sv⟩ :: σ.regStack }
        have hrel0 : Rel C.sl s τ0 := hr.same rfl rfl rfl rfl rfl rfl
        have hb := ih f' (by omega) body (stepSuffix sfx up) (d + 1) e (bo + 8) .run τ0 s hcb hlb hwb rfl hrel0
          (by show d + 1 ≤ (σ.regStack.length + 1); omega) he
        generalize hrb : exec f' C.P (desugar body) .run s = rb at hb ⊢
        obtain ⟨s1, o1⟩ := rb
        cases o1 with
        | normal =>
          obtain ⟨υ, st2, hp2, hrel2, hss2⟩ := hb
          obtain ⟨cur', hcur', hgd'⟩ := for_cur hrel2.typed hx
          have htail := for_tail C.code x t p (bo + 8 + sizeStmt C.env.dp (d + 1) e body) bo υ ⟨a, h, h, sv⟩
            σ.regStack cur' hct hp2 hss2.1 (by rw [hrel2.env]; exact hcur')
          simp only [hgd']
          simp only [] at htail
          cases hinc : (plus cur' sv).bind (fun v => cast v t) with
          | ok v =>
            simp only [hinc] at htail ⊢
            let υ1 : Vm := { υ with pc := bo, regs := ⟨v, sv, h, sv⟩, regStack := σ.regStack, env := υ.env.set x v }
            have hv : v.tag = t := by
              cases hpl : plus cur' sv with
              | ok w => rw [hpl] at hinc; exact RbThm.C01Sim.SimRead.cast_tag w t v hinc
              | err er => rw [hpl] at hinc; cases hinc
              | inexact => rw [hpl] at hinc; cases hinc
            have hrel3 : Rel C.sl (s1.set x v) υ1 := hrel2.store hx hv rfl rfl rfl rfl rfl rfl
            have hloop := ihf (by omega) υ1 (s1.set x v) rfl rfl rfl hrel3 hd
              (by show e ≤ υ.vals.length; rw [hss2.2.1]; exact he)
            have pre : Steps C.code σ υ1 := (st.trans st2).trans htail
            exact StmtSpec.of_steps pre ⟨rfl, hss2.2.1, hss2.2.2.1, hss2.2.2.2⟩ hloop
          | err er =>
            simp only [hinc] at htail ⊢
            simp only [StmtSpec]
            exact ⟨_, by rw [← hrel2.out]; exact ErrsWith.of_steps (st.trans st2) htail⟩
          | inexact => simp [StmtSpec]
        | jump L =>
          simp only
          obtain ⟨hnl, _⟩ := jump_depths hwb hrb
          obtain ⟨hg, _⟩ := RbThm.JmpLShape.jump_shape f' C.P _ .run s s1 L hrb
          have hfd : C.env.dp.fd L ≤ d := by
            rcases hleave L (gotos_desugar body L hg) with h1 | h1
            · exact absurd h1 hnl
            · exact h1
          by_cases hL : (desugar body).hasLabel L = true
          · exact absurd ((hasLabel_iff hwb L).mp hL) hnl
          · simp only [hL]
            obtain ⟨τ, st2, hp, hrel2, h1, h2, h3, h4⟩ := hb
            simp only [StmtSpec]
            refine ⟨τ, st.trans st2, hp, hrel2, ?_, h2, h3, h4⟩
            have e1 : d + 1 - C.env.dp.fd L = (d - C.env.dp.fd L) + 1 := by omega
            rw [h1]
            show List.drop (d + 1 - C.env.dp.fd L) (_ :: σ.regStack) = _
            rw [e1, List.drop_succ_cons]
        | ret q =>
          obtain ⟨τ, st2, hp, hrel2, ⟨X, hX⟩, hY, h3, h4⟩ := hb
          simp only [StmtSpec]
          refine ⟨τ, st.trans st2, hp, hrel2, ⟨X, ?_⟩, hY, h3, h4⟩
          rw [hX]
          show X ++ List.drop (d + 1) (_ :: σ.regStack) = _
          rw [List.drop_succ_cons]
        | halted =>
          obtain ⟨υ, ω, st2, hh, hrel2⟩ := hb
          simp only [StmtSpec]
          exact ⟨υ, ω, st.trans st2, hh, hrel2⟩
        | error cd q =>
          obtain ⟨ev, hb⟩ := hb
          simp only [StmtSpec]
          exact ⟨ev, ErrsWith.of_steps st hb⟩
        | inexact => simp [StmtSpec]
        | outOfFuel => simp [StmtSpec]
        | illFormed => simp [StmtSpec]
        | notHere => simp [StmtSpec]

/-- leaving the loop: the rounds end at the `out-of-for` label, one more step reaches the end of the statement -/
theorem for_finish (C : Ctx) (d e : Nat) (σ σd : Vm) (outOff fin : Nat) (lbl : String) (p : Pos)
    (pre : Steps C.code σ σd) (hss : SameStacks σ σd)
    (hlab : C.code[outOff]? = some (CInstr.label lbl, p)) (hn : fin = outOff + 1) (r : St × Outcome)
    (h : StmtSpec C d e outOff σd r) : StmtSpec C d e fin σ r := by
  refine StmtSpec.of_steps pre hss ?_
  obtain ⟨s', o⟩ := r
  cases o with
  | normal =>
    obtain ⟨τ, st, hp, hrel, hs⟩ := h
    have s2 : Vm.step C.code τ = .next (advance τ) := by
      simp only [Vm.step, hp, hlab]
    exact ⟨advance τ, st.trans (Steps.one s2), by simp only [advance, hp, hn], hrel.advance,
      hs.trans ⟨rfl, rfl, rfl, rfl⟩⟩
  | halted => exact h
  | jump L => exact h
  | ret q => exact h
  | error c q => exact h
  | inexact => trivial
  | outOfFuel => trivial
  | illFormed => trivial
  | notHere => trivial

theorem for_stepSign_eq (p : Pos) (sv : Val) : stepSign p sv =
    match tryCmp sv (.int 0) with
    | .ok .lt => .ok .neg
    | .ok .gt => .ok .pos
    | .ok .eq => .ok .zero
    | .err e => .error (.error (codeOf e) p)
    | .inexact => .error .inexact := by
  simp only [stepSign, relTest]
  cases tryCmp sv (.int 0) with
  | ok o => cases o <;> rfl
  | err e => rfl
  | inexact => rfl

/-- the sign test of a FOR with STEP: `step < 0` → the negative loop, else `step > 0` → the positive loop, else
`ForLoopZeroStep` -/
theorem for_sign (code : Code) (p q : Pos) (lblT lblZ lblO : String) (a0 testPos zeroOff : Nat) (τ : Vm)
    (hc : CodeAt code a0 [(CInstr.loadA (.int 0), p), (CInstr.copyAToB, p), (CInstr.copyDToA, p),
      (CInstr.bin .less, p), (CInstr.jumpIfFalse testPos, p)])
    (hcT : CodeAt code testPos [(CInstr.label lblT, p), (CInstr.copyDToA, p), (CInstr.bin .greater, p),
      (CInstr.jumpIfFalse zeroOff, p)])
    (hcZ : CodeAt code zeroOff [(CInstr.label lblZ, p), (CInstr.throwZeroStep, q), (CInstr.label lblO, p)])
    (hpc : τ.pc = a0) :
    match tryCmp τ.regs.d (.int 0) with
    | .ok .lt => ∃ a, Steps code τ { τ with pc := a0 + 5, regs := ⟨a, .int 0, τ.regs.c, τ.regs.d⟩ }
    | .ok .gt => ∃ a, Steps code τ { τ with pc := testPos + 4, regs := ⟨a, .int 0, τ.regs.c, τ.regs.d⟩ }
    | .ok .eq => ErrsWith code τ codeZeroStep q τ.env τ.out
    | .err e => ErrsWith code τ (codeOf e) p τ.env τ.out
    | .inexact => True := by
  subst hpc
  have h0 : code[τ.pc]? = some (CInstr.loadA (.int 0), p) := hc.head
  have h1 : code[τ.pc + 1]? = some (CInstr.copyAToB, p) := hc.tail.head
  have h2 : code[τ.pc + 1 + 1]? = some (CInstr.copyDToA, p) := hc.tail.tail.head
  have hcj : CodeAt code (τ.pc + 3) [(CInstr.bin .less, p), (CInstr.jumpIfFalse testPos, p)] := hc.tail.tail.tail
  let τ1 : Vm := advance (setA τ (.int 0))
  let τ2 : Vm := advance { τ1 with regs := { τ1.regs with b := τ1.regs.a } }
  let τ3 : Vm := advance { τ2 with regs := { τ2.regs with a := τ2.regs.d } }
  have s1 : Vm.step code τ = .next τ1 := by simp only [Vm.step, h0]; rfl
  have s2 : Vm.step code τ1 = .next τ2 := by simp only [Vm.step, τ1, advance, setA, h1]; rfl
  have s3 : Vm.step code τ2 = .next τ3 := by simp only [Vm.step, τ2, τ1, advance, setA, h2]; rfl
  have pre : Steps code τ τ3 := Steps.cons s1 (Steps.cons s2 (Steps.one s3))
  have hcmp := for_cmp_jump code .less (fun _ _ => rfl) p testPos (τ.pc + 3) τ3 hcj rfl
  have ha : τ3.regs.a = τ.regs.d := rfl
  have hb : τ3.regs.b = .int 0 := rfl
  rw [ha, hb] at hcmp
  -- the second test
  have hT0 : code[testPos]? = some (CInstr.label lblT, p) := hcT.head
  have hT1 : code[testPos + 1]? = some (CInstr.copyDToA, p) := hcT.tail.head
  have hcj' : CodeAt code (testPos + 2) [(CInstr.bin .greater, p), (CInstr.jumpIfFalse zeroOff, p)] := hcT.tail.tail
  let τ4 : Vm := { τ3 with pc := testPos, regs := { τ3.regs with a := ofBool false } }
  let τ5 : Vm := advance τ4
  let τ6 : Vm := advance { τ5 with regs := { τ5.regs with a := τ5.regs.d } }
  have s5 : Vm.step code τ4 = .next τ5 := by simp only [Vm.step, τ4, hT0]; rfl
  have s6 : Vm.step code τ5 = .next τ6 := by simp only [Vm.step, τ5, τ4, advance, hT1]; rfl
  have hcmp2 := for_cmp_jump code .greater (fun _ _ => rfl) p zeroOff (testPos + 2) τ6 hcj' rfl
  have ha2 : τ6.regs.a = τ.regs.d := rfl
  have hb2 : τ6.regs.b = .int 0 := rfl
  rw [ha2, hb2] at hcmp2
  cases hcm : tryCmp τ.regs.d (.int 0) with
  | err e =>
    simp only [hcm] at hcmp ⊢
    exact ErrsWith.of_steps pre hcmp
  | inexact => trivial
  | ok o =>
    simp only [hcm] at hcmp hcmp2
    cases o with
    | lt =>
      have : relHolds .less .lt = true := rfl
      simp only [this, if_true] at hcmp ⊢
      exact ⟨_, pre.trans hcmp⟩
    | eq =>
      have e1 : relHolds .less .eq = false := rfl
      have e2 : relHolds .greater .eq = false := rfl
      simp only [e1, e2] at hcmp hcmp2 ⊢
      have hZ0 : code[zeroOff]? = some (CInstr.label lblZ, p) := hcZ.head
      have hZ1 : code[zeroOff + 1]? = some (CInstr.throwZeroStep, q) := hcZ.tail.head
      let τ7 : Vm := { τ6 with pc := zeroOff, regs := { τ6.regs with a := ofBool false } }
      have s7 : Vm.step code τ7 = .next (advance τ7) := by simp only [Vm.step, τ7, hZ0]
      refine ⟨advance τ7, advance τ7,
        (pre.trans hcmp).trans (Steps.cons s5 (Steps.cons s6 (hcmp2.trans (Steps.one s7)))), ?_, rfl, rfl⟩
      simp only [Vm.step, τ7, advance, hZ1]
    | gt =>
      have e1 : relHolds .less .gt = false := rfl
      have e2 : relHolds .greater .gt = true := rfl
      simp only [e1, e2, if_true] at hcmp hcmp2 ⊢
      exact ⟨_, (pre.trans hcmp).trans (Steps.cons s5 (Steps.cons s6 hcmp2))⟩

/-! ### the statement -/

/-- **FOR … NEXT**, with and without STEP -/
theorem case_for (C : Ctx) (hC : C.Ok) (fuel : Nat) (ih : StmtIHle C fuel) (x : Nat) (t : Ty)
    (lo hi : Ast.Expr) (step : Option Ast.Expr) (body : SStmt) (p : Pos)
    (sfx : String) (d e off : Nat) (m : Mode) (σ : Vm) (s : St)
    (hc : CodeAt C.code off (compileStmt C.env sfx d e off (.forLoop x t lo hi step body p)))
    (hl : LabAt C.env d e off (.forLoop x t lo hi step body p))
    (hw : Wf C.sl C.env.dp d e (.forLoop x t lo hi step body p))
    (hen : Entry C.env off (.forLoop x t lo hi step body p) m σ) (hr : Rel C.sl s σ)
    (hd : d ≤ σ.regStack.length) (he : e ≤ σ.vals.length) :
    StmtSpec C d e (off + sizeStmt C.env.dp d e (.forLoop x t lo hi step body p)) σ
      (exec (fuel + 1) C.P (desugar (.forLoop x t lo hi step body p)) m s) := by
  cases m with
  | seek L =>
    -- a FOR body is not entered from outside: nothing is claimed
    simp only [desugar, exec]
    split <;> trivial
  | run =>
  have hpc : σ.pc = off := hen
  obtain ⟨hx, hslo, hwlo, hshi, hsstep, hwb, hleave⟩ := hw
  simp only [compileStmt] at hc
  have hclo : CodeAt C.code off (compileExprTo lo t) := hc.append_left.append_left.append_left
  have hcst : CodeAt C.code (off + (compileExprTo lo t).length) (storeVar x p) :=
    hc.append_left.append_left.append_right
  have hchi : CodeAt C.code (off + (compileExprTo lo t).length + 2) (compileExprTo hi t) :=
    hc.append_left.append_right.at_for (by
      simp only [List.length_append, storeVar, List.length_cons, List.length_nil]; omega)
  have hrest := hc.append_right.at_for (off' := off + (compileExprTo lo t).length + 2 + (compileExprTo hi t).length) (by
      simp only [List.length_append, storeVar, List.length_cons, List.length_nil]; omega)
  -- the start value
  have helo := exprTo_correct C.code lo t off σ hclo hpc (by rw [hr.len]; exact hslo)
  rw [hr.env] at helo
  simp only [desugar, exec]
  cases hev : evalTo s.env lo t with
  | err c q =>
    simp only [hev] at helo ⊢
    simp only [StmtSpec]
    rw [← hr.out]; exact ⟨_, helo⟩
  | inexact => simp [StmtSpec]
  | ok l =>
    simp only [hev] at helo ⊢
    obtain ⟨b1, st1⟩ := helo
    let σa : Vm := afterExpr σ (off + (compileExprTo lo t).length) l b1
    have st2 := store_steps C.code x p (off + (compileExprTo lo t).length) σa hcst rfl
    let σb : Vm := { σa with pc := off + (compileExprTo lo t).length + 2, env := σa.env.set x σa.regs.a }
    have hltag : l.tag = t := RbThm.C01Sim.SimRead.evalTo_tag C.sl s.env hr.typed lo t l hwlo hev
    have hrb : Rel C.sl (s.set x l) σb := (hr.afterExpr _ l b1).store hx hltag rfl rfl rfl rfl rfl rfl
    -- the limit
    have hehi := exprTo_correct C.code hi t (off + (compileExprTo lo t).length + 2) σb hchi rfl
      (by rw [hrb.len]; exact hshi)
    rw [hrb.env] at hehi
    cases hevh : evalTo (s.set x l).env hi t with
    | err c q =>
      simp only [hevh] at hehi ⊢
      simp only [StmtSpec]
      exact ⟨_, ErrsWith.of_steps (st1.trans st2) (by have := hehi; rw [hrb.out] at this; exact this)⟩
    | inexact => simp [StmtSpec]
    | ok h =>
      simp only [hevh] at hehi ⊢
      obtain ⟨b2, st3⟩ := hehi
      let σc : Vm := afterExpr σb (off + (compileExprTo lo t).length + 2 + (compileExprTo hi t).length) h b2
      have pre3 : Steps C.code σ σc := (st1.trans st2).trans st3
      cases step with
      | none =>
        simp only [] at hrest ⊢
        have i0 := hrest.append_left.append_left.head
        have i1 := hrest.append_left.append_left.tail.head
        have i2 := hrest.append_left.append_left.tail.tail.head
        let σ1 : Vm := advance { σc with regs := { σc.regs with c := σc.regs.a } }
        let σ2 : Vm := advance (setA σ1 (.int 1))
        let σ3 : Vm := advance { σ2 with regs := { σ2.regs with d := σ2.regs.a } }
        have s1 : Vm.step C.code σc = .next σ1 := by simp only [Vm.step, σc, afterExpr, i0]; rfl
        have s2 : Vm.step C.code σ1 = .next σ2 := by simp only [Vm.step, σ1, σc, afterExpr, advance, i1]; rfl
        have s3 : Vm.step C.code σ2 = .next σ3 := by
          simp only [Vm.step, σ2, σ1, σc, afterExpr, advance, setA, i2]; rfl
        -- the resume point: `jump for-begin; jump out-of-for; label for-begin`
        have i3 := hrest.append_left.append_left.tail.tail.tail.head
        have i5 := hrest.append_left.append_left.tail.tail.tail.tail.tail.head
        let σ4 : Vm := { σ3 with pc := (off + (compileExprTo lo t).length + 2 + (compileExprTo hi t).length) + 5 }
        let σ5 : Vm := { σ4 with pc := off + (compileExprTo lo t).length + 2 + (compileExprTo hi t).length + 6 }
        have s4 : Vm.step C.code σ3 = .next σ4 := by
          simp only [Vm.step, σ3, σ2, σ1, σc, afterExpr, advance, setA, i3]; rfl
        have s5 : Vm.step C.code σ4 = .next σ5 := by
          have : C.code[σ4.pc]? = some (CInstr.label (labelName "for-begin" p sfx), p) := by
            rw [← i5]
          simp only [Vm.step, this]; rfl
        have pre : Steps C.code σ σ5 :=
          pre3.trans (Steps.cons s1 (Steps.cons s2 (Steps.cons s3 (Steps.cons s4 (Steps.one s5)))))
        have hr3 : Rel C.sl (s.set x l) σ5 := hrb.same rfl rfl rfl rfl rfl rfl
        have hcl := hrest.append_left.append_right.at_for
          (off' := off + (compileExprTo lo t).length + 2 + (compileExprTo hi t).length + 6) (by
            simp only [List.length_cons, List.length_nil])
        have hloop := for_loop C fuel ih x t body p sfx true d e
          (off + (compileExprTo lo t).length + 2 + (compileExprTo hi t).length + 6) _ h (.int 1) hx hwb hl.forNone hleave
          hcl fuel (Nat.le_refl _) σ5 (s.set x l) rfl rfl rfl hr3 hd he
        refine for_finish C d e σ σ5 _ _ (labelName "out-of-for" p sfx) p pre ⟨rfl, rfl, rfl, rfl⟩ ?_ ?_ _ hloop
        · have := hrest.append_right.head
          simp only [List.length_append, List.length_cons, List.length_nil, len_forBody, len_stmt] at this
          rw [← this]; congr 1
          simp only [sizeForBody]; omega
        · simp only [sizeStmt, sizeForBody]; omega
      | some se =>
        simp only [] at hrest ⊢
        obtain ⟨hsse, _⟩ := hsstep se rfl
        obtain ⟨hlneg, hlpos⟩ := hl.forSome
        have hpush : C.code[(off + (compileExprTo lo t).length + 2 + (compileExprTo hi t).length)]? = some (CInstr.pushA, p) :=
          hrest.append_left.append_left.append_left.append_left.append_left.append_left.head
        have hcse : CodeAt C.code ((off + (compileExprTo lo t).length + 2 + (compileExprTo hi t).length) + 1) (compileExpr se) :=
          hrest.append_left.append_left.append_left.append_left.append_left.append_right
        have h8 := hrest.append_left.append_left.append_left.append_left.append_right.at_for (off' := (off + (compileExprTo lo t).length + 2 + (compileExprTo hi t).length) + 1 + (compileExpr se).length) (by
          simp only [List.length_append, List.length_cons, List.length_nil, len_forBody, len_stmt, sizeForBody]; omega)
        have hneg := hrest.append_left.append_left.append_left.append_right
        have h5 := hrest.append_left.append_left.append_right
        have hpos := hrest.append_left.append_right
        have h4 := hrest.append_right
        -- push the limit, evaluate the step
        let σ1 : Vm := advance { σc with vals := σc.regs.a :: σc.vals }
        have sp : Vm.step C.code σc = .next σ1 := by simp only [Vm.step, σc, afterExpr, hpush]; rfl
        have hs1 : σ1.env = (s.set x l).env := hrb.env
        have hexp := compileExpr_correct C.code se ((off + (compileExprTo lo t).length + 2 + (compileExprTo hi t).length) + 1) σ1 hcse rfl
          (by rw [hs1, hrb.typed.len]; exact hsse)
        simp only [ExprSpec] at hexp
        rw [hs1] at hexp
        simp only [evalE]
        cases hes : eval (s.set x l).env se with
        | err c q =>
          simp only [hes] at hexp ⊢
          simp only [StmtSpec]
          exact ⟨_, ErrsWith.of_steps (pre3.trans (Steps.one sp))
            (by have := hexp; rw [show σ1.out = (s.set x l).out from hrb.out] at this; exact this)⟩
        | inexact => simp [StmtSpec]
        | ok sv =>
          simp only [hes] at hexp ⊢
          obtain ⟨b3, st5⟩ := hexp
          let σ2 : Vm := afterExpr σ1 ((off + (compileExprTo lo t).length + 2 + (compileExprTo hi t).length) + 1 + (compileExpr se).length) sv b3
          have i0 := h8.head
          have i1 := h8.tail.head
          have i2 := h8.tail.tail.head
          let σ3 : Vm := advance { σ2 with regs := { σ2.regs with d := σ2.regs.a } }
          let σ4 : Vm := advance { setA σ3 h with vals := σc.vals }
          let σ5 : Vm := advance { σ4 with regs := { σ4.regs with c := σ4.regs.a } }
          have s3 : Vm.step C.code σ2 = .next σ3 := by simp only [Vm.step, σ2, afterExpr, i0]; rfl
          have s4 : Vm.step C.code σ3 = .next σ4 := by
            simp only [Vm.step, σ3, σ2, σ1, σc, afterExpr, advance, i1]; rfl
          have s5 : Vm.step C.code σ4 = .next σ5 := by
            simp only [Vm.step, σ4, σ3, σ2, σ1, σc, afterExpr, advance, setA, i2]; rfl
          -- the resume point: `jump for-begin; jump out-of-for; label for-begin`
          have i3 := h8.tail.tail.tail.head
          have i5 := h8.tail.tail.tail.tail.tail.head
          let σ5a : Vm := { σ5 with pc := (off + (compileExprTo lo t).length + 2 + (compileExprTo hi t).length) + 1 + (compileExpr se).length + 5 }
          let σ5b : Vm := advance σ5a
          have s5a : Vm.step C.code σ5 = .next σ5a := by
            simp only [Vm.step, σ5, σ4, σ3, σ2, σ1, σc, afterExpr, advance, setA, i3]; rfl
          have s5b : Vm.step C.code σ5a = .next σ5b := by
            have : C.code[σ5a.pc]? = some (CInstr.label (labelName "for-begin" p sfx), p) := by
              rw [← i5]
            simp only [Vm.step, this]; rfl
          have pre5 : Steps C.code σ σ5b :=
            (pre3.trans (Steps.cons sp st5)).trans
              (Steps.cons s3 (Steps.cons s4 (Steps.cons s5 (Steps.cons s5a (Steps.one s5b)))))
          have hsign := for_sign C.code p se.pos _ _ _ ((off + (compileExprTo lo t).length + 2 + (compileExprTo hi t).length) + 1 + (compileExpr se).length + 5 + 1) _ _ σ5b
            h8.tail.tail.tail.tail.tail.tail
            (CodeAt.at_for h5.tail (by simp only [List.length_append, List.length_cons, List.length_nil, len_forBody, len_stmt, sizeForBody]; omega))
            (CodeAt.at_for h4.tail (by simp only [List.length_append, List.length_cons, List.length_nil, len_forBody, len_stmt, sizeForBody]; omega)) rfl
          have hd5 : σ5b.regs.d = sv := rfl
          rw [hd5] at hsign
          have hlab : C.code[(off + (compileExprTo lo t).length + 2 + (compileExprTo hi t).length) + 1 + (compileExpr se).length + 11 + sizeForBody C.env.dp d e x body + 1 + 4 + sizeForBody C.env.dp d e x body + 1 + 2]? =
              some (CInstr.label (labelName "out-of-for" p sfx), p) := by
            have := h4.tail.tail.tail.head
            rw [← this]; congr 1
            simp only [List.length_append, List.length_cons, List.length_nil, len_forBody, len_stmt, sizeForBody]; omega
          rw [for_stepSign_eq]
          cases hcm : tryCmp sv (.int 0) with
          | err er =>
            simp only [hcm] at hsign ⊢
            simp only [StmtSpec]
            exact ⟨_, ErrsWith.of_steps pre5
              (by have := hsign; rw [show σ5b.out = (s.set x l).out from hrb.out] at this; exact this)⟩
          | inexact => simp [StmtSpec]
          | ok o =>
            cases o with
            | lt =>
              simp only [hcm] at hsign ⊢
              obtain ⟨a, st6⟩ := hsign
              let σ6 : Vm := { σ5b with pc := (off + (compileExprTo lo t).length + 2 + (compileExprTo hi t).length) + 1 + (compileExpr se).length + 5 + 1 + 5, regs := ⟨a, .int 0, h, sv⟩ }
              have st6' : Steps C.code σ5b σ6 := st6
              have hr6 : Rel C.sl (s.set x l) σ6 := hrb.same rfl rfl rfl rfl rfl rfl
              have hloop := for_loop C fuel ih x t body p sfx false d e
                (off + (compileExprTo lo t).length + 2 + (compileExprTo hi t).length + 1 + (compileExpr se).length + 11) _
                h sv hx hwb hlneg hleave
                (CodeAt.at_for hneg (by simp only [List.length_append, List.length_cons, List.length_nil, len_forBody, len_stmt, sizeForBody]; omega))
                fuel (Nat.le_refl _) σ6 (s.set x l) (by dsimp only [σ6] <;> omega) rfl rfl hr6 hd he
              refine for_finish C d e σ σ6 _ _ (labelName "out-of-for" p sfx) p (pre5.trans st6')
                ⟨rfl, rfl, rfl, rfl⟩ hlab ?_ _ hloop
              simp only [sizeStmt, sizeForBody]; omega
            | gt =>
              simp only [hcm] at hsign ⊢
              obtain ⟨a, st6⟩ := hsign
              let σ6 : Vm := { σ5b with pc := (off + (compileExprTo lo t).length + 2 + (compileExprTo hi t).length) + 1 + (compileExpr se).length + 11 + sizeForBody C.env.dp d e x body + 1 + 4, regs := ⟨a, .int 0, h, sv⟩ }
              have st6' : Steps C.code σ5b σ6 := st6
              have hr6 : Rel C.sl (s.set x l) σ6 := hrb.same rfl rfl rfl rfl rfl rfl
              have hloop := for_loop C fuel ih x t body p sfx true d e
                (off + (compileExprTo lo t).length + 2 + (compileExprTo hi t).length + 1 + (compileExpr se).length + 11 +
                  sizeForBody C.env.dp d e x body + 1 + 4) _
                h sv hx hwb hlpos hleave
                (CodeAt.at_for hpos (by simp only [List.length_append, List.length_cons, List.length_nil, len_forBody, len_stmt, sizeForBody]; omega))
                fuel (Nat.le_refl _) σ6 (s.set x l) (by dsimp only [σ6] <;> omega) rfl rfl hr6 hd he
              refine for_finish C d e σ σ6 _ _ (labelName "out-of-for" p sfx) p (pre5.trans st6')
                ⟨rfl, rfl, rfl, rfl⟩ hlab ?_ _ hloop
              simp only [sizeStmt, sizeForBody]; omega
            | eq =>
              simp only [hcm] at hsign ⊢
              simp only [StmtSpec]
              exact ⟨_, ErrsWith.of_steps pre5
                (by have := hsign; rw [show σ5b.out = (s.set x l).out from hrb.out] at this; exact this)⟩

end RbThm.JmpLSim
