import RbModel.ConstProg
import Thm.C14
/-!
C14, statement level — replacing every use of a constant by its defining expression leaves the run of
the program unchanged.

Over the reference semantics of the core language (`RbModel.Ref`, tied to the generated code and the VM
by C01): if the linted tree of the inlined program matches the linted tree of the named program
(`matchS`: identical except that a literal may face a parenthesised closed expression that evaluates to
exactly that literal and has its static type), then `Ref.exec` gives the same state — output, variables,
DATA cursor — and the same outcome, for every amount of fuel and every start state.  And the defining
expression of an accepted constant *is* such an expression (`const_use_good`): the bridge from the
folder's model (`ConstEval.fold`, `toExpr`) to the syntax tree.
-/
namespace RbThm.C14
open RbModel RbModel.Num RbModel.Ast RbModel.Ref RbModel.ConstEval RbModel.ConstProg Gen.NumTables
open RbModel.Ast (Expr)

/-! ### expressions -/

theorem closed_eval (env : List Val) (k : Ast.Expr) (h : closedE k = true) : eval env k = eval [] k := by
  induction k with
  | lit v p => rfl
  | var x t p => simp [closedE] at h
  | un op e p ih => cases op <;> simp only [eval, ih (by simpa [closedE] using h)]
  | bin op l r t p ihl ihr =>
    have h' : closedE l = true ∧ closedE r = true := by simpa [closedE] using h
    simp only [eval, ihl h'.1, ihr h'.2]
  | paren e p ih => simp only [eval]; exact ih (by simpa [closedE] using h)

theorem good_spec {v : Val} {k : Ast.Expr} (h : good v k = true) :
    closedE k = true ∧ eval [] k = .ok v ∧ k.ty = v.tag := by
  simp only [good, Bool.and_eq_true, beq_iff_eq] at h
  obtain ⟨⟨hc, he⟩, ht⟩ := h
  refine ⟨hc, ?_, ht⟩
  cases hk : eval [] k with
  | ok w => rw [hk] at he; simp only [beq_iff_eq] at he; rw [he]
  | err c p => rw [hk] at he; cases he
  | inexact => rw [hk] at he; cases he

/-- matching expressions have the same value (or the same error at the same position) in every
run-time state, the same static type and the same position -/
theorem matchE_spec (env : List Val) : ∀ (e e' : Ast.Expr), matchE e e' = true →
    eval env e' = eval env e ∧ e'.ty = e.ty ∧ e'.pos = e.pos := by
  intro e
  induction e with
  | lit v p =>
    intro e' h
    cases e' with
    | lit v' p' =>
      simp only [matchE, Bool.and_eq_true, beq_iff_eq] at h
      obtain ⟨rfl, rfl⟩ := h; exact ⟨rfl, rfl, rfl⟩
    | paren k p' =>
      simp only [matchE, Bool.and_eq_true, beq_iff_eq] at h
      obtain ⟨rfl, hg⟩ := h
      obtain ⟨hc, he, ht⟩ := good_spec hg
      exact ⟨by simp only [eval]; rw [closed_eval env k hc, he], by simp only [Ast.Expr.ty, ht], rfl⟩
    | var _ _ _ => simp [matchE] at h
    | un _ _ _ => simp [matchE] at h
    | bin _ _ _ _ _ => simp [matchE] at h
  | var x t p =>
    intro e' h
    cases e' <;> simp only [matchE, Bool.and_eq_true, beq_iff_eq, Bool.false_eq_true] at h
    obtain ⟨⟨rfl, rfl⟩, rfl⟩ := h; exact ⟨rfl, rfl, rfl⟩
  | un op e p ih =>
    intro e' h
    cases e' <;> simp only [matchE, Bool.and_eq_true, beq_iff_eq, Bool.false_eq_true] at h
    obtain ⟨⟨rfl, he⟩, rfl⟩ := h
    obtain ⟨h1, h2, _⟩ := ih _ he
    exact ⟨by cases op <;> simp only [eval, h1], by simp only [Ast.Expr.ty, h2], rfl⟩
  | bin op l r t p ihl ihr =>
    intro e' h
    cases e' <;> simp only [matchE, Bool.and_eq_true, beq_iff_eq, Bool.false_eq_true] at h
    obtain ⟨⟨⟨⟨rfl, hl⟩, hr⟩, rfl⟩, rfl⟩ := h
    obtain ⟨h1, _, _⟩ := ihl _ hl
    obtain ⟨h2, _, _⟩ := ihr _ hr
    exact ⟨by simp only [eval, h1, h2], rfl, rfl⟩
  | paren e p ih =>
    intro e' h
    cases e' <;> simp only [matchE, Bool.and_eq_true, beq_iff_eq, Bool.false_eq_true] at h
    obtain ⟨he, rfl⟩ := h
    obtain ⟨h1, h2, _⟩ := ih _ he
    exact ⟨by simp only [eval, h1], by simp only [Ast.Expr.ty, h2], rfl⟩

theorem matchE_evalTo {env : List Val} {e e' : Ast.Expr} (h : matchE e e' = true) (t : Ty) :
    evalTo env e' t = evalTo env e t := by
  obtain ⟨h1, h2, h3⟩ := matchE_spec env e e' h
  simp only [evalTo, h1, h2, h3]

theorem matchE_evalCond {env : List Val} {e e' : Ast.Expr} (h : matchE e e' = true) :
    evalCond env e' = evalCond env e := by
  obtain ⟨h1, _, h3⟩ := matchE_spec env e e' h
  simp only [evalCond, h1, h3]

theorem matchE_evalE {env : List Val} {e e' : Ast.Expr} (h : matchE e e' = true) :
    evalE env e' = evalE env e := by
  obtain ⟨h1, _, _⟩ := matchE_spec env e e' h
  simp only [evalE, h1]

/-! ### PRINT items, CASE items -/

theorem matchItems_spec : ∀ (items items' : List PrintItem) (s : St), matchItems items items' = true →
    printItems s items' = printItems s items ∧ endsInSeparator items' = endsInSeparator items := by
  intro items
  induction items with
  | nil =>
    intro items' s h
    cases items' with
    | nil => exact ⟨rfl, rfl⟩
    | cons _ _ => simp [matchItems] at h
  | cons a r ih =>
    intro items' s h
    cases items' with
    | nil => simp [matchItems] at h
    | cons a' r' =>
      simp only [matchItems, Bool.and_eq_true] at h
      obtain ⟨ha, hr⟩ := h
      have hsep : endsInSeparator (a' :: r') = endsInSeparator (a :: r) := by
        have hr2 := (ih r' s hr).2
        cases a <;> cases a' <;> simp only [matchItem, Bool.false_eq_true] at ha <;>
          cases r <;> cases r' <;> simp_all [matchItems, endsInSeparator]
      refine ⟨?_, hsep⟩
      cases a <;> cases a' <;> simp only [matchItem, Bool.false_eq_true] at ha
      · next e e' =>
        simp only [printItems, (matchE_spec s.env e e' ha).1]
        cases eval s.env e with
        | err c p => rfl
        | inexact => rfl
        | ok v =>
          simp only
          cases printValue v with
          | none => rfl
          | some pv => exact (ih r' _ hr).1
      · simp only [printItems]; exact (ih r' _ hr).1
      · simp only [printItems]; exact (ih r' _ hr).1

theorem matchCase_spec {env : List Val} (p : Pos) (subj : Val) {c c' : CaseExpr} (h : matchCase c c' = true) :
    caseMatches env p subj c' = caseMatches env p subj c := by
  cases c <;> cases c' <;> simp only [matchCase, Bool.and_eq_true, beq_iff_eq, Bool.false_eq_true] at h
  · simp only [caseMatches, matchE_evalE h]
  · obtain ⟨rfl, he⟩ := h; simp only [caseMatches, matchE_evalE he]
  · obtain ⟨h1, h2⟩ := h; simp only [caseMatches, matchE_evalE h1, matchE_evalE h2]

theorem matchCaseList_spec {env : List Val} (p : Pos) (subj : Val) : ∀ (cs cs' : List CaseExpr),
    matchCaseList cs cs' = true → anyMatches env p subj cs' = anyMatches env p subj cs := by
  intro cs
  induction cs with
  | nil => intro cs' h; cases cs' with
    | nil => rfl
    | cons _ _ => simp [matchCaseList] at h
  | cons a r ih =>
    intro cs' h
    cases cs' with
    | nil => simp [matchCaseList] at h
    | cons a' r' =>
      simp only [matchCaseList, Bool.and_eq_true] at h
      simp only [anyMatches, matchCase_spec p subj h.1, ih r' h.2]

/-! ### statements -/

/-- the three mutually recursive runners agree on matching statements, for the same fuel -/
theorem exec_match_all : ∀ fuel : Nat,
    (∀ (S S' : Stmt) (s : St), matchS S S' = true → exec fuel S' s = exec fuel S s) ∧
    (∀ (p : Pos) (subj : Val) (cs cs' : Cases) (s : St), matchC cs cs' = true →
      execCases fuel p subj cs' s = execCases fuel p subj cs s) ∧
    (∀ (x : Nat) (t : Ty) (h sv : Val) (up : Bool) (body body' : Stmt) (p : Pos) (s : St),
      matchS body body' = true → forIter fuel x t h sv up body' p s = forIter fuel x t h sv up body p s) := by
  intro fuel
  induction fuel with
  | zero =>
    refine ⟨?_, ?_, ?_⟩
    · intro S S' s _; simp only [exec]
    · intro p subj cs cs' s _; simp only [execCases]
    · intro x t h sv up body body' p s _; simp only [forIter]
  | succ n ih =>
    obtain ⟨ihS, ihC, ihF⟩ := ih
    refine ⟨?_, ?_, ?_⟩
    · intro S S' s h
      cases S <;> cases S' <;>
        simp only [matchS, Bool.and_eq_true, beq_iff_eq, Bool.false_eq_true] at h
      case skip.skip => simp only [exec]
      case seq.seq a b a' b' =>
        simp only [exec, ihS a a' s h.1]
        cases exec n a s with
        | mk s1 o => cases o <;> simp only <;> exact ihS b b' s1 h.2
      case assign.assign x t e p x' t' e' p' =>
        obtain ⟨⟨⟨rfl, rfl⟩, he⟩, rfl⟩ := h
        simp only [exec, matchE_evalTo he]
      case print.print items p items' p' =>
        obtain ⟨hi, rfl⟩ := h
        obtain ⟨h1, h2⟩ := matchItems_spec items items' s hi
        simp only [exec, h1, h2]
      case read.read x t p x' t' p' =>
        obtain ⟨⟨rfl, rfl⟩, rfl⟩ := h; rfl
      case ifs.ifs c a b p c' a' b' p' =>
        obtain ⟨⟨⟨hc, ha⟩, hb⟩, rfl⟩ := h
        simp only [exec, matchE_evalCond hc]
        cases evalCond s.env c with
        | error o => rfl
        | ok bb => cases bb <;> simp only <;> first | exact ihS _ _ s ha | exact ihS _ _ s hb
      case select.select e cs p e' cs' p' =>
        obtain ⟨⟨he, hc⟩, rfl⟩ := h
        simp only [exec, matchE_evalE he]
        cases evalE s.env e with
        | error o => rfl
        | ok subj => exact ihC p subj cs cs' s hc
      case forLoop.forLoop x t lo hi st body p x' t' lo' hi' st' body' p' =>
        obtain ⟨⟨⟨⟨⟨⟨rfl, rfl⟩, hlo⟩, hhi⟩, hst⟩, hb⟩, rfl⟩ := h
        simp only [exec, matchE_evalTo hlo]
        cases evalTo s.env lo t with
        | err c q => rfl
        | inexact => rfl
        | ok l =>
          simp only [matchE_evalTo hhi]
          cases evalTo (s.set x l).env hi t with
          | err c q => rfl
          | inexact => rfl
          | ok hv =>
            cases st <;> cases st' <;> simp only [matchStep, Bool.false_eq_true] at hst
            · exact ihF x t hv (.int 1) true body body' p _ hb
            · next se se' =>
              simp only [matchE_evalE hst, (matchE_spec (s.set x l).env se se' hst).2.2]
              cases evalE (s.set x l).env se with
              | error o => rfl
              | ok sv =>
                simp only
                cases stepSign p sv with
                | error o => rfl
                | ok sg => cases sg <;> simp only <;> first | exact ihF x t hv sv _ body body' p _ hb | rfl
      case while.while c body p c' body' p' =>
        obtain ⟨⟨hc, hb⟩, rfl⟩ := h
        have hw : matchS (.while c body p) (.while c' body' p) = true := by
          simp [matchS, hc, hb]
        simp only [exec, matchE_evalCond hc]
        cases evalCond s.env c with
        | error o => rfl
        | ok bb =>
          cases bb <;> simp only
          rw [ihS body body' s hb]
          cases exec n body s with
          | mk s1 o => cases o <;> simp only <;> exact ihS _ _ s1 hw
      case doLoop.doLoop c top u body p c' top' u' body' p' =>
        obtain ⟨⟨⟨⟨hc, rfl⟩, rfl⟩, hb⟩, rfl⟩ := h
        have hw : matchS (.doLoop c top u body p) (.doLoop c' top u body' p) = true := by
          simp [matchS, hc, hb]
        simp only [exec]
        cases top with
        | true =>
          simp only [if_true, matchE_evalCond hc]
          cases evalCond s.env c with
          | error o => rfl
          | ok bb =>
            simp only
            by_cases hbu : (bb != u) = true
            · rw [if_pos hbu, if_pos hbu]
              rw [ihS body body' s hb]
              cases exec n body s with
              | mk s1 o => cases o <;> simp only <;> exact ihS _ _ s1 hw
            · rw [if_neg hbu, if_neg hbu]
        | false =>
          simp only [Bool.false_eq_true, if_false]
          rw [ihS body body' s hb]
          cases exec n body s with
          | mk s1 o =>
            cases o <;> simp only
            simp only [matchE_evalCond hc]
            cases evalCond s1.env c with
            | error o => rfl
            | ok bb =>
              simp only
              by_cases hbu : (bb != u) = true
              · rw [if_pos hbu, if_pos hbu]; exact ihS _ _ s1 hw
              · rw [if_neg hbu, if_neg hbu]
      case end_.end_ p p' => subst h; rfl
    · intro p subj cs cs' s h
      cases cs <;> cases cs' <;> simp only [matchC, Bool.and_eq_true, Bool.false_eq_true] at h
      case nil.nil => simp only [execCases]
      case else_.else_ b b' => simp only [execCases]; exact ihS b b' s h
      case case.case conds b rest conds' b' rest' =>
        obtain ⟨⟨hcs, hb⟩, hr⟩ := h
        simp only [execCases, matchCaseList_spec p subj conds conds' hcs]
        cases anyMatches s.env p subj conds with
        | error o => rfl
        | ok bb => cases bb <;> simp only <;> first | exact ihS b b' s hb | exact ihC p subj rest rest' s hr
    · intro x t h sv up body body' p s hb
      simp only [forIter]
      cases relTest p (if up = true then Op.lessOrEqual else Op.greaterOrEqual) (s.env.getD x (Ref.zeroOf t)) h with
      | error o => rfl
      | ok bb =>
        cases bb <;> simp only
        rw [ihS body body' s hb]
        cases exec n body s with
        | mk s1 o =>
          cases o <;> simp only
          cases (plus (s1.env.getD x (Ref.zeroOf t)) sv).bind (fun v => cast v t) with
          | ok v => exact ihF x t h sv up body body' p _ hb
          | err e => rfl
          | inexact => rfl

/-! ### the property, statement level -/

/-- **`const_inline_exec`.** If the linted tree `I` of the inlined program matches the linted tree `N`
of the named program — node by node the same, except that where `N` has the literal a use of a
constant became, `I` has a parenthesised closed expression that evaluates to exactly that value and has
its type — then running `I` from any state, with any fuel, gives exactly what running `N` gives: the
same output, the same variables, the same DATA cursor, the same outcome (a normal end, END, the same
error code at the same position, or out of fuel).  Every statement form of the core language is
covered, at any nesting depth: assignment, PRINT, READ, IF, SELECT CASE, FOR (bounds, step, body),
WHILE, DO, END. -/
theorem const_inline_exec (fuel : Nat) (N I : Stmt) (s : St) (h : matchS N I = true) :
    exec fuel I s = exec fuel N s :=
  (exec_match_all fuel).1 N I s h

/-- **`const_inline_run`.** The same for whole programs: same variable slots, same DATA, matching
bodies ⇒ the same run. -/
theorem const_inline_run (fuel : Nat) (N I : Program) (h : matchP N I = true) : run fuel I = run fuel N := by
  simp only [matchP, Bool.and_eq_true, beq_iff_eq] at h
  obtain ⟨⟨hs, hd⟩, hb⟩ := h
  simp only [run, ← hs, ← hd]
  exact const_inline_exec fuel N.body I.body _ hb

/-! ### the bridge: the defining expression of an accepted constant is such an expression -/

theorem astOf_rel (p : Pos) : ∀ (e : Num.Expr) (k : Ast.Expr), astOf p e = some k → AstOf e k := by
  intro e
  induction e with
  | lit v => intro k h; simp only [astOf] at h; cases h; exact .lit v p
  | var x => intro k h; simp [astOf] at h
  | un op e ih =>
    intro k h
    simp only [astOf, Option.map_eq_some_iff] at h
    obtain ⟨j, hj, rfl⟩ := h
    exact .un op p (ih j hj)
  | bin op l r ihl ihr =>
    intro k h
    simp only [astOf] at h
    cases hl : astOf p l with
    | none => rw [hl] at h; cases h
    | some kl =>
      cases hr : astOf p r with
      | none => rw [hl, hr] at h; cases h
      | some kr =>
        rw [hl, hr] at h
        simp only at h
        cases ht : binType op kl.ty kr.ty with
        | none => rw [ht] at h; cases h
        | some t => rw [ht] at h; cases h; exact .bin op p (ihl kl hl) (ihr kr hr) ht

/-- The `Ast` form of a converted constant expression evaluates, under the reference semantics and in
every run-time state, to what the generated code computes for it (`Expr.eval` with `vmBin`); its static
type is the value's tag; it mentions no variable. -/
theorem astOf_eval {e : Num.Expr} {k : Ast.Expr} (hk : AstOf e k) (env : List Val) (venv : Nat → Val) :
    ∀ v, e.LitsInRange → e.eval binType venv = .ok v →
      eval env k = .ok v ∧ k.ty = v.tag ∧ v.InRange ∧ closedE k = true := by
  induction hk with
  | lit w p =>
    intro v hl h
    simp only [Num.Expr.eval] at h; cases h
    exact ⟨rfl, rfl, hl, rfl⟩
  | @un op e k p _ ih =>
    intro v hl h
    cases op with
    | neg =>
      simp only [Num.Expr.eval] at h
      obtain ⟨a, ha, hn⟩ := RbThm.C06.bind_ok h
      obtain ⟨h1, h2, h3, h4⟩ := ih a hl ha
      obtain ⟨t1, t2⟩ := RbThm.C06.negate_typed a v h3 hn
      exact ⟨by simp only [eval, h1, ERes.bind, hn, lift], by simp only [Ast.Expr.ty, h2, t1], t2,
        by simp only [closedE, h4]⟩
    | not =>
      simp only [Num.Expr.eval] at h
      obtain ⟨a, ha, hn⟩ := RbThm.C06.bind_ok h
      obtain ⟨h1, h2, h3, h4⟩ := ih a hl ha
      obtain ⟨t1, t2⟩ := RbThm.C06.unaryNot_typed a v h3 hn
      exact ⟨by simp only [eval, h1, ERes.bind, hn, lift], by simp only [Ast.Expr.ty, h2, t1], t2,
        by simp only [closedE, h4]⟩
  | @bin op l r kl kr t p _ _ ht ihl ihr =>
    intro v hl h
    simp only [Num.Expr.eval] at h
    obtain ⟨a, ha, h'⟩ := RbThm.C06.bind_ok h
    obtain ⟨b, hb, hv⟩ := RbThm.C06.bind_ok h'
    obtain ⟨l1, l2, l3, l4⟩ := ihl a hl.1 ha
    obtain ⟨r1, r2, r3, r4⟩ := ihr b hl.2 hb
    obtain ⟨t1, t2⟩ := RbThm.C06.op_result_typed op a b v l3 r3 hv
    rw [l2, r2, t1] at ht
    cases ht
    have hstep : binStep op v.tag a b = .ok v := by
      cases op <;> first | exact hv | (simp only [binStep]; simp only [vmBin, t1] at hv; exact hv)
    exact ⟨by simp only [eval, l1, r1, ERes.bind, hstep, lift], rfl, t2, by simp only [closedE, l4, r4, Bool.and_self]⟩
  | @paren e k p _ ih =>
    intro v hl h
    obtain ⟨h1, h2, h3, h4⟩ := ih v hl h
    exact ⟨by simp only [eval, h1], by simp only [Ast.Expr.ty, h2], h3, by simp only [closedE, h4]⟩

/-- **`const_use_good`.** For an accepted `CONST c = e` with folded value `v` (environment of earlier
constants in range, literals in range): the syntax tree of the converted defining expression — any
positions, any extra parentheses, the linter's static types at the binary nodes — is an expression the
literal `v` may be replaced by: closed, evaluates to exactly `v` in the reference semantics, has `v`'s
static type.  So the linted tree of the inlined program matches (`matchS`) the linted tree of the named
program at every use of `c`, and `const_inline_exec` / `const_inline_run` apply. -/
theorem const_use_good (env : Env) (hr : EnvInRange env) (e : CExpr) (hl : e.LitsInRange) (v : Val)
    (hf : fold env e = .ok v) (e' : Num.Expr) (he : toExpr env e = some e') (k : Ast.Expr) (hk : AstOf e' k) :
    good v k = true := by
  obtain ⟨e'', he'', hev⟩ := const_value_eq_runtime env e v hf
  rw [he] at he''; cases he''
  obtain ⟨h1, h2, _, h4⟩ := astOf_eval hk [] (fun _ => .int 0) v (inline_litsInRange env hr e hl e' he) (hev _)
  simp [good, h1, h2, h4]

/-- A use of an accepted constant, in the two programs: the literal of the named program and the
parenthesised defining expression of the inlined one match. -/
theorem const_use_match (env : Env) (hr : EnvInRange env) (e : CExpr) (hl : e.LitsInRange) (v : Val)
    (hf : fold env e = .ok v) (e' : Num.Expr) (he : toExpr env e = some e') (k : Ast.Expr) (hk : AstOf e' k)
    (p : Pos) : matchE (.lit v p) (.paren k p) = true := by
  simp [matchE, const_use_good env hr e hl v hf e' he k hk]

/-! ### instances -/

private def p0 : Pos := ⟨1, 1⟩
private def exConsts : Env := lookup [(0, .int 2), (1, .long 100000), (2, .sgl (7 / 2))]

/-- `CONST C = K1 * K0 + K2` (C = 200003.5): the hypotheses of `const_use_good` hold and the tree of the
converted expression exists. -/
example : fold exConsts (.bin .plus (.bin .multiply (.cref 1 none) (.cref 0 none)) (.cref 2 none)) = .ok (.sgl (400007 / 2)) ∧
    ((toExpr exConsts (.bin .plus (.bin .multiply (.cref 1 none) (.cref 0 none)) (.cref 2 none))).bind (astOf p0)).isSome = true := by
  decide +kernel

/-- Named: `A% = <6/3 folded: SINGLE 2> * 2 : WHILE A% < <LONG 100000> : A% = A% + 30000 : WEND : PRINT A%`;
inlined: the same with `(6 / 3)` and `(50000 + 50000)` in parentheses. The trees match, so the runs are
equal (here: Overflow at the second addition, in both). -/
private def exNamed (two big : Ast.Expr) : Program :=
  ⟨[.int], [],
    .seq (.assign 0 .int (.bin .multiply two (.lit (.int 2) ⟨1, 20⟩) .sgl ⟨1, 6⟩) ⟨1, 1⟩)
    (.seq (.while (.bin .less (.var 0 .int ⟨2, 7⟩) big .int ⟨2, 7⟩)
        (.seq (.assign 0 .int (.bin .plus (.var 0 .int ⟨3, 6⟩) (.lit (.int 30000) ⟨3, 11⟩) .int ⟨3, 6⟩) ⟨3, 1⟩) .skip) ⟨2, 1⟩)
    (.seq (.print [.expr (.var 0 .int ⟨5, 7⟩)] ⟨5, 1⟩) .skip))⟩

example :
    matchP (exNamed (.lit (.sgl 2) ⟨1, 6⟩) (.lit (.long 100000) ⟨2, 12⟩))
      (exNamed (.paren (.bin .divide (.lit (.int 6) ⟨1, 7⟩) (.lit (.int 3) ⟨1, 11⟩) .sgl ⟨1, 7⟩) ⟨1, 6⟩)
        (.paren (.bin .plus (.lit (.long 50000) ⟨2, 13⟩) (.lit (.long 50000) ⟨2, 21⟩) .long ⟨2, 13⟩) ⟨2, 12⟩)) = true ∧
    -- a wrong replacement (the INTEGER 2 of the unrepaired folder's `6 / 3`) does not match
    matchP (exNamed (.lit (.int 2) ⟨1, 6⟩) (.lit (.long 100000) ⟨2, 12⟩))
      (exNamed (.paren (.bin .divide (.lit (.int 6) ⟨1, 7⟩) (.lit (.int 3) ⟨1, 11⟩) .sgl ⟨1, 7⟩) ⟨1, 6⟩)
        (.lit (.long 100000) ⟨2, 12⟩)) = false := by
  decide +kernel

end RbThm.C14
