import Thm.ProcArrSimBase
import RbModel.ProcArr.WfB
/-!
Combined layer (procedures + arrays) — a decidable form of the static premise `ProgWf` of `ProcArr.compile_correct`.

`progWfB prog = true` is what a driver can evaluate on a concrete linted program; `progWfB_sound` shows it implies
`ProgWf prog`.  The slot-table condition is the `ProcDecl.wfSlots` of `RbModel.ProcArr.Syntax` (`slotsOk_of_wfSlots`).
-/
namespace RbThm.ProcArrSim
set_option linter.unusedVariables false
set_option linter.unusedSimpArgs false
open RbModel RbModel.Num RbModel.ProcArr RbModel.ProcArr.Compile RbModel.ProcArr.Vm
open RbModel.Ast (Pos)
open RbThm.ProcArrLen

theorem exprs_ne_nil_of_length {idx : Exprs} (h : idx.length ≠ 0) : idx ≠ .nil := by
  intro e; subst e; exact h rfl

theorem dims_ne_nil_of_length {ds : Dims} (h : ds.length ≠ 0) : ds ≠ .nil := by
  intro e; subst e; exact h rfl

mutual
theorem eWfB_sound (sg : Sigs) (sl : SlotTabs) : ∀ e, eWfB sg sl e = true → EWf sg sl e
  | .lit _ _, _ => trivial
  | .var x t _, h => by simpa [eWfB, EWf] using h
  | .un _ e _, h => by
    simp only [eWfB] at h
    simp only [EWf]; exact eWfB_sound sg sl e h
  | .bin op l r t _, h => by
    simp only [eWfB, Bool.and_eq_true, Bool.or_eq_true, decide_eq_true_eq] at h
    simp only [EWf]
    exact ⟨eWfB_sound sg sl l h.1.1, eWfB_sound sg sl r h.1.2, h.2⟩
  | .paren e _, h => by
    simp only [eWfB] at h
    simp only [EWf]; exact eWfB_sound sg sl e h
  | .callFn f args t _, h => by
    simp only [eWfB, Bool.and_eq_true, decide_eq_true_eq] at h
    simp only [EWf]
    exact ⟨h.1, aWfB_sound sg sl _ args h.2⟩
  | .elem a idx t _, h => by
    simp only [eWfB, Bool.and_eq_true, decide_eq_true_eq] at h
    simp only [EWf]
    exact ⟨h.1.1, exprs_ne_nil_of_length h.1.2, idxWfB_sound sg sl idx h.2⟩
theorem idxWfB_sound (sg : Sigs) (sl : SlotTabs) : ∀ idx, idxWfB sg sl idx = true → IdxWf sg sl idx
  | .nil, _ => trivial
  | .cons e rest, h => by
    simp only [idxWfB, Bool.and_eq_true, decide_eq_true_eq] at h
    simp only [IdxWf]
    exact ⟨eWfB_sound sg sl e h.1.1, h.1.2, idxWfB_sound sg sl rest h.2⟩
theorem aWfB_sound (sg : Sigs) (sl : SlotTabs) (cs : Bool) : ∀ a, aWfB sg sl cs a = true → AWf sg sl cs a
  | .nil, _ => trivial
  | .cons e _ pt rest, h => by
    simp only [aWfB, Bool.and_eq_true, Bool.or_eq_true, Bool.not_eq_true', decide_eq_true_eq] at h
    simp only [AWf]
    refine ⟨eWfB_sound sg sl e h.1.1.1, ?_, ?_, aWfB_sound sg sl cs rest h.2⟩
    · intro hr
      rcases h.1.1.2 with h2 | h2
      · rw [hr] at h2; cases h2
      · exact h2
    · intro hr
      rcases h.1.2 with h2 | h2
      · rw [hr] at h2; cases h2
      · exact h2
end

theorem dimsWfB_sound (sg : Sigs) (sl : SlotTabs) : ∀ ds, dimsWfB sg sl ds = true → DimsWf sg sl ds
  | .nil, _ => trivial
  | .cons none hi rest, h => by
    simp only [dimsWfB, Bool.and_eq_true, Bool.true_and, decide_eq_true_eq] at h
    simp only [DimsWf]
    exact ⟨eWfB_sound sg sl hi h.1.1, h.1.2, dimsWfB_sound sg sl rest h.2⟩
  | .cons (some lo) hi rest, h => by
    simp only [dimsWfB, Bool.and_eq_true, decide_eq_true_eq] at h
    simp only [DimsWf]
    exact ⟨eWfB_sound sg sl lo h.1.1.1.1, h.1.1.1.2, eWfB_sound sg sl hi h.1.1.2, h.1.2, dimsWfB_sound sg sl rest h.2⟩

theorem itemsWfB_sound (sg : Sigs) (sl : SlotTabs) : ∀ items, itemsWfB sg sl items = true → ItemsWf sg sl items
  | [], _ => trivial
  | .expr e :: rest, h => by
    simp only [itemsWfB, Bool.and_eq_true] at h
    exact ⟨eWfB_sound sg sl e h.1, itemsWfB_sound sg sl rest h.2⟩
  | .comma :: rest, h => by
    simp only [itemsWfB] at h
    simp only [ItemsWf]; exact itemsWfB_sound sg sl rest h
  | .semicolon :: rest, h => by
    simp only [itemsWfB] at h
    simp only [ItemsWf]; exact itemsWfB_sound sg sl rest h

theorem selRelOpB_sound (op : Op) (h : selRelOpB op = true) : SelRelOp op := by
  simp only [selRelOpB, Bool.or_eq_true, decide_eq_true_eq] at h
  simp only [SelRelOp]
  rcases h with ((((h | h) | h) | h) | h) | h
  · exact .inl h
  · exact .inr (.inl h)
  · exact .inr (.inr (.inl h))
  · exact .inr (.inr (.inr (.inl h)))
  · exact .inr (.inr (.inr (.inr (.inl h))))
  · exact .inr (.inr (.inr (.inr (.inr h))))

theorem caseWfB_sound (sg : Sigs) (sl : SlotTabs) : ∀ c, caseWfB sg sl c = true → CaseWf sg sl c
  | .simple e, h => eWfB_sound sg sl e h
  | .is op e, h => by
    simp only [caseWfB, Bool.and_eq_true] at h
    exact ⟨selRelOpB_sound op h.1, eWfB_sound sg sl e h.2⟩
  | .range lo hi, h => by
    simp only [caseWfB, Bool.and_eq_true] at h
    exact ⟨eWfB_sound sg sl lo h.1, eWfB_sound sg sl hi h.2⟩

theorem condsWfB_sound (sg : Sigs) (sl : SlotTabs) : ∀ cs, condsWfB sg sl cs = true → CondsWf sg sl cs
  | [], _ => trivial
  | c :: rest, h => by
    simp only [condsWfB, Bool.and_eq_true] at h
    exact ⟨caseWfB_sound sg sl c h.1, condsWfB_sound sg sl rest h.2⟩

theorem isSkipB_sound : ∀ s, isSkipB s = true → s = .skip := by
  intro s h; cases s <;> first | rfl | cases h

theorem readWfB_sound (sl : SlotTabs) : ∀ vars, readWfB sl vars = true → ∀ v ∈ vars, sl.get? v.1 = some v.2.1
  | [], _, v, hv => by simp at hv
  | w :: rest, h, v, hv => by
    simp only [readWfB, Bool.and_eq_true, decide_eq_true_eq] at h
    simp only [List.mem_cons] at hv
    rcases hv with hv | hv
    · subst hv; exact h.1
    · exact readWfB_sound sl rest h.2 v hv

theorem elseB_sound {hasElse : Bool} {els : SStmt} (h : (hasElse || isSkipB els) = true) :
    hasElse = false → els = .skip := by
  intro hf
  rw [hf] at h
  exact isSkipB_sound els (by simpa using h)

theorem ne_nil_of_not_isEmpty {α : Type} {l : List α} (h : (!l.isEmpty) = true) : l ≠ [] := by
  intro hl; subst hl; simp at h

mutual
theorem wfB_sound (sg : Sigs) (sc : Scope) : ∀ s, wfB sg sc.slots sc.inProc sc.self.isSome s = true → Wf sg sc s
  | .skip, _ => trivial
  | .comment, _ => trivial
  | .seq a b, h => by
    simp only [wfB, Bool.and_eq_true] at h
    exact ⟨wfB_sound sg sc a h.1, wfB_sound sg sc b h.2⟩
  | .dim x t _, h => by
    simp only [wfB, Bool.and_eq_true, decide_eq_true_eq, Bool.not_eq_true'] at h
    refine ⟨h.1, ?_⟩
    cases hs : sc.self with
    | none => rfl
    | some f => rw [hs] at h; simp at h
  | .sdim x t _, h => by
    simp only [wfB, Bool.and_eq_true, decide_eq_true_eq] at h
    exact h
  | .assign x t e _, h => by
    simp only [wfB, Bool.and_eq_true, decide_eq_true_eq] at h
    exact ⟨h.1, eWfB_sound sg sc.slots e h.2⟩
  | .dimArr a t dims _, h => by
    simp only [wfB, Bool.and_eq_true, decide_eq_true_eq, Bool.not_eq_true'] at h
    refine ⟨h.1.1.1, dims_ne_nil_of_length h.1.1.2, dimsWfB_sound sg sc.slots dims h.1.2, ?_⟩
    cases hs : sc.self with
    | none => rfl
    | some f => have h2 := h.2; rw [hs] at h2; simp at h2
  | .assignElem a t idx e _, h => by
    simp only [wfB, Bool.and_eq_true, decide_eq_true_eq] at h
    exact ⟨h.1.1.1, exprs_ne_nil_of_length h.1.1.2, idxWfB_sound sg sc.slots idx h.1.2, eWfB_sound sg sc.slots e h.2⟩
  | .print items _, h => by
    simp only [wfB] at h
    exact itemsWfB_sound sg sc.slots items h
  | .ifBlock c thn elifs hasElse els _, h => by
    simp only [wfB, Bool.and_eq_true, decide_eq_true_eq] at h
    obtain ⟨⟨⟨⟨⟨h1, h2⟩, h3⟩, h4⟩, h5⟩, h6⟩ := h
    exact ⟨eWfB_sound sg sc.slots c h1, h2, wfB_sound sg sc thn h3, wfElifsB_sound sg sc elifs h4,
      wfB_sound sg sc els h5, elseB_sound h6⟩
  | .while c body _, h => by
    simp only [wfB, Bool.and_eq_true, decide_eq_true_eq] at h
    exact ⟨eWfB_sound sg sc.slots c h.1.1, h.1.2, wfB_sound sg sc body h.2⟩
  | .doLoop c _ _ body _, h => by
    simp only [wfB, Bool.and_eq_true, decide_eq_true_eq] at h
    exact ⟨eWfB_sound sg sc.slots c h.1.1, h.1.2, wfB_sound sg sc body h.2⟩
  | .end_ _, _ => trivial
  | .data _ _, h => by simp [wfB] at h
  | .read vars _, h => by
    simp only [wfB] at h
    exact readWfB_sound sc.slots vars h
  | .select e cases hasElse els _, h => by
    simp only [wfB, Bool.and_eq_true] at h
    obtain ⟨⟨⟨h1, h2⟩, h3⟩, h4⟩ := h
    exact ⟨eWfB_sound sg sc.slots e h1, wfCasesB_sound sg sc cases h2, wfB_sound sg sc els h3, elseB_sound h4⟩
  | .forLoop x t lo hi step body _, h => by
    simp only [wfB, Bool.and_eq_true, decide_eq_true_eq] at h
    obtain ⟨⟨⟨⟨h1, h2⟩, h3⟩, h4⟩, h5⟩ := h
    refine ⟨h1, eWfB_sound sg sc.slots lo h2, eWfB_sound sg sc.slots hi h3, ?_, wfB_sound sg sc body h5⟩
    intro se hse
    subst hse
    exact eWfB_sound sg sc.slots se h4
  | .callSub f args _, h => by
    simp only [wfB, Bool.and_eq_true, decide_eq_true_eq] at h
    exact ⟨h.1, aWfB_sound sg sc.slots _ args h.2⟩
  | .exitProc _, h => by simpa [wfB, Wf] using h
theorem wfElifsB_sound (sg : Sigs) (sc : Scope) : ∀ e, wfElifsB sg sc.slots sc.inProc sc.self.isSome e = true → WfElifs sg sc e
  | .nil, _ => trivial
  | .cons c body rest, h => by
    simp only [wfElifsB, Bool.and_eq_true, decide_eq_true_eq] at h
    exact ⟨eWfB_sound sg sc.slots c h.1.1.1, h.1.1.2, wfB_sound sg sc body h.1.2, wfElifsB_sound sg sc rest h.2⟩
theorem wfCasesB_sound (sg : Sigs) (sc : Scope) : ∀ cs, wfCasesB sg sc.slots sc.inProc sc.self.isSome cs = true → WfCases sg sc cs
  | .nil, _ => trivial
  | .cons conds body rest, h => by
    simp only [wfCasesB, Bool.and_eq_true] at h
    exact ⟨ne_nil_of_not_isEmpty h.1.1.1, condsWfB_sound sg sc.slots conds h.1.1.2, wfB_sound sg sc body h.1.2,
      wfCasesB_sound sg sc rest h.2⟩
end

theorem wfTopB_sound (sg : Sigs) (sc : Scope) :
    ∀ body, wfTopB sg sc.slots sc.inProc sc.self.isSome body = true → WfTop sg sc body
  | .seq a b, h => by
    simp only [wfTopB, Bool.and_eq_true] at h
    exact ⟨wfTopB_sound sg sc a h.1, wfTopB_sound sg sc b h.2⟩
  | .data _ _, _ => trivial
  | .skip, h => wfB_sound sg sc _ h
  | .comment, h => wfB_sound sg sc _ h
  | .dim _ _ _, h => wfB_sound sg sc _ h
  | .sdim _ _ _, h => wfB_sound sg sc _ h
  | .assign _ _ _ _, h => wfB_sound sg sc _ h
  | .dimArr _ _ _ _, h => wfB_sound sg sc _ h
  | .assignElem _ _ _ _ _, h => wfB_sound sg sc _ h
  | .print _ _, h => wfB_sound sg sc _ h
  | .read _ _, h => wfB_sound sg sc _ h
  | .ifBlock _ _ _ _ _ _, h => wfB_sound sg sc _ h
  | .select _ _ _ _ _, h => wfB_sound sg sc _ h
  | .forLoop _ _ _ _ _ _ _, h => wfB_sound sg sc _ h
  | .while _ _ _, h => wfB_sound sg sc _ h
  | .doLoop _ _ _ _ _, h => wfB_sound sg sc _ h
  | .end_ _, h => wfB_sound sg sc _ h
  | .callSub _ _ _, h => wfB_sound sg sc _ h
  | .exitProc _, h => wfB_sound sg sc _ h

/-- `ProcDecl.wfSlots` (checked by `SProgram.wf`) gives the slot-table condition of the proof -/
theorem slotsOk_of_wfSlots (d : ProcDecl SStmt) (h : d.wfSlots = true) : SlotsOk d := by
  unfold ProcDecl.wfSlots at h
  simp only [beq_iff_eq] at h
  -- every entry of the prefix is an entry of the slot table
  have key : ∀ (pre : List Ty), d.slots.take pre.length = pre → ∀ (i : Nat) (t : Ty), pre[i]? = some t →
      d.slots[i]? = some t := by
    intro pre hp i t hi
    have hlt := (List.getElem?_eq_some_iff.mp hi).1
    have : (d.slots.take pre.length)[i]? = some t := by rw [hp]; exact hi
    rw [List.getElem?_take] at this
    simpa [hlt] using this
  have k := key _ h
  refine ⟨?_, ?_⟩
  · intro i pn pt hi
    apply k
    have hlt := (List.getElem?_eq_some_iff.mp hi).1
    rw [List.getElem?_append_left (by simpa using hlt), List.getElem?_map, hi]; rfl
  · intro rt hr
    apply k
    simp only [hr]
    rw [List.getElem?_append_right (by simp)]
    simp

theorem progWfB_sound (prog : SProgram) (h : progWfB prog = true) : ProgWf prog := by
  simp only [progWfB, Bool.and_eq_true, List.all_eq_true, Bool.or_eq_true, Bool.not_eq_true',
    List.isEmpty_iff] at h
  refine ⟨wfTopB_sound _ (mainScope prog) _ h.1, ?_⟩
  intro f d hd
  have hm : d ∈ prog.procs := List.mem_of_getElem? hd
  have := h.2 d hm
  refine ⟨slotsOk_of_wfSlots d this.1.1, ?_, ?_⟩
  · intro hs
    rcases this.1.2 with h2 | h2
    · rw [hs] at h2; cases h2
    · exact h2
  · intro ap
    refine wfB_sound _ (procScope prog.gslots (statOf prog) f d ap) _ ?_
    have e : (procScope prog.gslots (statOf prog) f d ap).self.isSome = d.static := by
      simp only [procScope]
      cases d.static <;> rfl
    rw [e]
    exact this.2

end RbThm.ProcArrSim
