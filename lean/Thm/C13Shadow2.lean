import Thm.C13Shadow
/-!
C13, the SHARED-not-shadowed rule, second part: the DEFtype-dependent pairs.

`Thm/C13Shadow.lean` leaves two pairs to the context level, because whether they clash depends on the DEFtype table at
the point of the bare declaration: (a) a bare `DIM SHARED n` (its qualifier is the DEFtype default of `n` at that
point) against a local `DIM n<q>` / `DIM n`, (b) a suffixed `DIM SHARED n<q>` against a bare local `DIM n`.  Here:

* `lint_rejects_shadowing_family_bare`: the ten BARE programs of the harness oracle `rule:shared-not-shadowed`
  (`DEF<T> A : DIM SHARED Abc : … : SUB|FUNCTION … DIM Abc …`) are rejected with `DuplicateDefinition` (a finite table);
* `lint_rejects_shadowing_bare_local`: pair (b) and the bare/bare half of (a) as an instance of
  `lint_rejects_shadowing` — a bare local `DIM n` where the SHARED name is in sight under the DEFtype default in force
  at the local DIM;
* `dimShared_bare_ok` / `lint_rejects_shadowing_bare_shared`: pair (a) — an accepted bare `DIM SHARED n` leaves the
  SHARED compact `(n, default at that point)` in the global table, so a later local `DIM n<that default>` is
  `DuplicateDefinition`.

No syntactic never-accepted theorem with DEFtype tracking is attempted.
-/
namespace RbThm.C13Shadow
open RbModel.Names RbThm.C13 RbThm.C13Reach RbThm.C13Total RbThm.C13Rules

/-! ## 1. the bare family the harness runs -/

/-- `DEF<T> A : DIM SHARED Abc : Abc = 1 : <call> : PRINT Abc : SUB|FUNCTION … DIM Abc : Abc = 2 : END` -/
def famScriptBare (q : Q) (fn : Bool) : Script :=
  [.defType q [(65, 65)],
   .stmt (.dim true abc .bare),
   .stmt (.assign ⟨abc, none⟩ (q == Q.str) 1),
   (if fn then .stmt (.printCall ⟨[70], some .int⟩ [false]) else .stmt (.callSub [83] [])),
   .stmt (.print ⟨abc, none⟩),
   (if fn then .func ⟨[70], some .int⟩ [⟨[88], .compact .int⟩]
      [.dim false abc .bare, .assign ⟨abc, none⟩ (q == Q.str) 2]
    else .sub [83] [] [.dim false abc .bare, .assign ⟨abc, none⟩ (q == Q.str) 2])]

/-- the finite table: the ten bare scripts of the family (five DEFtype statements × SUB / FUNCTION) are rejected with
`DuplicateDefinition` (evaluation of the model on ten closed terms, not an instance of the general theorem) -/
theorem lint_rejects_shadowing_family_bare :
    ∀ q ∈ [Q.int, Q.lng, Q.sng, Q.dbl, Q.str], ∀ fn ∈ [false, true],
      runScript (famScriptBare q fn) = .rejected .duplicateDefinition := by decide +kernel

theorem lint_rejects_shadowing_family_bare' (q : Q) (fn : Bool) :
    lint (famScriptBare q fn) = .error .duplicateDefinition := by
  apply lint_of_runScript_rejected
  exact lint_rejects_shadowing_family_bare q (by cases q <;> simp) fn (by cases fn <;> simp)

/-- … and without the local DIM the same bare scripts are accepted and the procedure's assignment goes to the global
(the DEFtype default really is the qualifier of the SHARED variable) -/
def famScriptBareNoDim (q : Q) : Script :=
  [.defType q [(65, 65)], .stmt (.dim true abc .bare), .stmt (.callSub [83] []), .stmt (.print ⟨abc, none⟩),
   .sub [83] [] [.assign ⟨abc, none⟩ (q == Q.str) 2]]

theorem bareNoDim_family_writes_global :
    ∀ q ∈ [Q.int, Q.lng, Q.sng, Q.dbl, Q.str],
      runScript (famScriptBareNoDim q) =
        .accepted [.var (fold abc) q .global, .var (fold abc) q .global] (some [⟨.tag 2, q⟩]) true := by
  decide +kernel

/-! ## 2. the general DEFtype-dependent forms -/

/-- **lint_rejects_shadowing_bare_local.**  `lint_rejects_shadowing` for a bare local `DIM n`: the global table holds a
SHARED variable in sight under `n<q>` where `q` is the DEFtype default of `n` in force at the local DIM (the table
`c3.deft` the converter carries there).  Covers `DIM SHARED n<q>` and bare `DIM SHARED n` alike. -/
theorem lint_rejects_shadowing_bare_local (pre post : List Item) (proc : Item) (p : Pre) (c1 c2 c3 : Ctx)
    (r1 : List RItem) (sc : Scope) (ps : List Param) (pq : List (Key × Q)) (b1 b2 : List Stmt) (rs : List RStmt)
    (n : Ident)
    (hpre : preItems pre0 (pre ++ proc :: post) = .ok p)
    (hconv : convItems (initCtx p) pre = .ok (c1, r1))
    (hproc : procParts c1 proc = some (sc, ps, b1 ++ .dim false n .bare :: b2))
    (hparams : convParams (enter c1 sc) ps = .ok (c2, pq))
    (hbody : convStmts c2 b1 = .ok (c3, rs))
    (hshared : SharedName c1.globals (fold n) (defaultQ c3.deft (fold n))) :
    lint (pre ++ proc :: post) = .error .duplicateDefinition :=
  lint_rejects_shadowing pre post proc p c1 c2 c3 r1 sc ps pq b1 b2 rs n .bare hpre hconv hproc hparams hbody hshared

/-- an accepted bare `DIM SHARED n` in the main module leaves the SHARED compact `(n, q)` in sight, `q` the DEFtype
default of `n` at that point; the DEFtype table is untouched -/
theorem dimShared_bare_ok (ca cb : Ctx) (n : Ident) (rb : List RItem) (hsa : ca.scope = Scope.global)
    (hb : convItem ca (.stmt (.dim true n .bare)) = .ok (cb, rb)) :
    SharedName cb.globals (fold n) (defaultQ ca.deft (fold n)) ∧ cb.deft = ca.deft := by
  have hina : ca.inSub = false := by simp [Ctx.inSub, hsa]
  simp only [convItem, convStmt] at hb
  cases hd : convDim ca true (fold n) .bare with
  | error e => rw [hd] at hb; simp [Except.map] at hb
  | ok cb' =>
    rw [hd] at hb; simp only [Except.map] at hb
    injection hb with hb; injection hb with hb _; subst hb
    unfold convDim at hd
    split at hd; · cases hd
    split at hd; · cases hd
    split at hd; · cases hd
    split at hd; · cases hd
    simp only [declare] at hd
    split at hd
    · injection hd with hd
      constructor
      · have : cb'.globals = ca.cur.insertCompact (fold n) (defaultQ ca.deft (fold n)) true := by
          rw [← hd]; unfold Ctx.setCur; simp [hina]
        have hv := vin_insertCompact_self ca.cur (fold n) (defaultQ ca.deft (fold n)) true
        rw [← this] at hv
        exact (sharedName_iff_vin _ _ _).2 ⟨_, hv⟩
      · rw [← hd]; unfold Ctx.setCur; simp [hina]
    · cases hd

/-- after an accepted bare `DIM SHARED n` (context `ca` before, `cb` after), in any later context `c` inside a
subprogram whose global table still answers what `cb`'s did, the local `DIM n'<q>` with `q` the DEFtype default of `n`
at the SHARED declaration (and `n'` a re-spelling of `n`) is `DuplicateDefinition` -/
theorem convDim_after_bare_shared (ca cb c : Ctx) (n n' : Ident) (rb : List RItem) (hsa : ca.scope = Scope.global)
    (hb : convItem ca (.stmt (.dim true n .bare)) = .ok (cb, rb)) (hn : fold n' = fold n)
    (hin : c.inSub = true)
    (hmono : ∀ k q v, vin cb.globals k q = some v → vin c.globals k q = some v) :
    convDim c false (fold n') (.compact (defaultQ ca.deft (fold n))) = .error .duplicateDefinition := by
  apply convDim_clash_rejected c _ _ hin
  show SharedName _ _ _
  rw [hn]
  obtain ⟨x, hx⟩ := (sharedName_iff_vin _ _ _).1 (dimShared_bare_ok ca cb n rb hsa hb).1
  exact (sharedName_iff_vin _ _ _).2 ⟨x, hmono _ _ _ hx⟩

/-- **lint_rejects_shadowing_bare_shared.**  A script `g1 ++ DIM SHARED n :: g2 ++ proc :: post` where
* the pre-linter accepts the script, the converter accepts `g1` (leaving `ca`), the bare `DIM SHARED n` and `g2`;
* `proc` is a SUB or FUNCTION whose parameters are accepted and whose body is `b1 ; DIM n'<q> ; b2` with `b1`
  accepted, `n'` a re-spelling of `n`, and `q` the DEFtype default of `n` in force at the `DIM SHARED` (`ca.deft`)
is rejected with `DuplicateDefinition`. -/
theorem lint_rejects_shadowing_bare_shared (g1 g2 post : List Item) (proc : Item) (p : Pre) (ca c1 c2 c3 : Ctx)
    (ra r1 : List RItem) (sc : Scope) (ps : List Param) (pq : List (Key × Q)) (b1 b2 : List Stmt) (rs : List RStmt)
    (n n' : Ident) (hn : fold n' = fold n)
    (hpre : preItems pre0 ((g1 ++ .stmt (.dim true n .bare) :: g2) ++ proc :: post) = .ok p)
    (hca : convItems (initCtx p) g1 = .ok (ca, ra))
    (hconv : convItems (initCtx p) (g1 ++ .stmt (.dim true n .bare) :: g2) = .ok (c1, r1))
    (hproc : procParts c1 proc =
      some (sc, ps, b1 ++ .dim false n' (.compact (defaultQ ca.deft (fold n))) :: b2))
    (hparams : convParams (enter c1 sc) ps = .ok (c2, pq))
    (hbody : convStmts c2 b1 = .ok (c3, rs)) :
    lint ((g1 ++ .stmt (.dim true n .bare) :: g2) ++ proc :: post) = .error .duplicateDefinition := by
  refine lint_rejects_shadowing _ post proc p c1 c2 c3 r1 sc ps pq b1 b2 rs n' _ hpre hconv hproc hparams hbody ?_
  show SharedName _ _ _
  rw [hn]
  obtain ⟨ca', ra', r2, ha, hc⟩ := convItems_append_ok _ _ _ _ _ hconv
  rw [hca] at ha
  injection ha with ha; injection ha with ha _; subst ha
  obtain ⟨hsa, _, _⟩ := convItems_ok (initCtx p) ca g1 ra rfl hca
  obtain ⟨cb, rb, r3, hb, hc⟩ := convItems_cons_ok _ _ _ _ _ hc
  obtain ⟨hsb, _, _⟩ := convItem_ok ca cb _ rb hsa hb
  obtain ⟨_, hmono, _⟩ := convItems_ok cb c1 g2 r3 hsb hc
  obtain ⟨x, hx⟩ := (sharedName_iff_vin _ _ _).1 (dimShared_bare_ok ca cb n rb hsa hb).1
  exact (sharedName_iff_vin _ _ _).2 ⟨x, hmono _ _ _ hx⟩

/-! ## non-vacuity -/

/-- `famScriptBare .int false` (`DEFINT A : DIM SHARED Abc : … : SUB S : DIM Abc …`) is an instance of
`lint_rejects_shadowing_bare_local`: the general theorem, not the table, gives the verdict -/
example : lint (famScriptBare .int false) = .error .duplicateDefinition :=
  lint_rejects_shadowing_bare_local
    [.defType .int [(65, 65)], .stmt (.dim true abc .bare), .stmt (.assign ⟨abc, none⟩ false 1),
     .stmt (.callSub [83] []), .stmt (.print ⟨abc, none⟩)] [] _ _ _ _ _ _ (.sub [83]) [] [] [] _ _ abc
    rfl rfl rfl rfl rfl (Or.inl rfl)

/-- … and pair (b): `DEFSTR A : DIM SHARED Abc$ : SUB S : DIM Abc : END SUB` -/
example : lint [.defType .str [(65, 65)], .stmt (.dim true abc (.compact .str)), .sub [83] [] [.dim false abc .bare]]
    = .error .duplicateDefinition :=
  lint_rejects_shadowing_bare_local
    [.defType .str [(65, 65)], .stmt (.dim true abc (.compact .str))] [] _ _ _ _ _ _ (.sub [83]) [] [] [] _ _ abc
    rfl rfl rfl rfl rfl (Or.inl rfl)

/-- … and of `lint_rejects_shadowing_bare_shared`: `DEFLNG A : DIM SHARED Abc : Sb : SUB Sb : DIM ABC& : END SUB`
(re-spelled local name; the qualifier `&` is the default at the `DIM SHARED`) -/
example : lint (([.defType .lng [(65, 65)]] ++ .stmt (.dim true abc .bare) :: [.stmt (.callSub [83] [])]) ++
    Item.sub [83] [] [.dim false [65, 66, 67] (.compact .lng)] :: []) = .error .duplicateDefinition :=
  lint_rejects_shadowing_bare_shared [.defType .lng [(65, 65)]] [.stmt (.callSub [83] [])] [] _ _ _ _ _ _ _ _
    (.sub [83]) [] [] [] [] _ abc [65, 66, 67] (by decide) rfl rfl rfl rfl rfl rfl

/-- the DEFtype dependence is real: under `DEFINT A` the bare `DIM SHARED Abc` is `Abc%`, and a local `DIM Abc!` in
the SUB is a different variable — the script is accepted -/
example : (match lint [.defType .int [(65, 65)], .stmt (.dim true abc .bare),
    .sub [83] [] [.dim false abc (.compact .sng)]] with | .ok _ => true | .error _ => false) = true := by
  decide +kernel

end RbThm.C13Shadow
