import RbModel.Names
/-!
C13 — names resolve by the documented bare / qualified / extended rules in every scope.

All statements are about `RbModel.Names` (the transcription of the linter's name tables and of
`variable.rs::convert`) and quantify over *every* linter context `c` (hence over every script prefix that can
lead to it), every name and every qualifier.
-/
namespace RbThm.C13
open RbModel.Names

/-! ## letters, case folding, DEFtype table -/

theorem upper_idem (b : Nat) : upper (upper b) = upper b := by
  unfold upper
  by_cases h : 97 ≤ b ∧ b ≤ 122
  · simp [h]; omega
  · simp [h]

/-- `deftype_fold`: the letter index does not depend on the case of the letter. -/
theorem deftype_fold (b : Nat) : charToAlphabetIndex b = charToAlphabetIndex (upper b) := by
  simp [charToAlphabetIndex, upper_idem]

/-- a letter index is one of the 26 table positions -/
theorem charToAlphabetIndex_lt (b i : Nat) (h : charToAlphabetIndex b = some i) : i < 26 := by
  unfold charToAlphabetIndex isAsciiUpper at h
  simp only [] at h
  split at h
  · next hu =>
    have := of_decide_eq_true hu
    injection h with h; omega
  · cases h

/-- both spellings of the 26 letters are letters, nothing else is -/
theorem charToAlphabetIndex_isSome (b : Nat) :
    (charToAlphabetIndex b).isSome = decide ((65 ≤ b ∧ b ≤ 90) ∨ (97 ≤ b ∧ b ≤ 122)) := by
  unfold charToAlphabetIndex isAsciiUpper upper
  by_cases h : 97 ≤ b ∧ b ≤ 122
  · have h2 : 65 ≤ b - 32 ∧ b - 32 ≤ 90 := by omega
    simp [h, h2]
  · by_cases h3 : 65 ≤ b ∧ b ≤ 90 <;> simp [h, h3]

/-- the parser's acceptance of a DEFtype range does not depend on the case of the two letters -/
theorem rangeAccepted_fold (a b : Nat) : rangeAccepted (upper a) (upper b) = rangeAccepted a b := by
  simp [rangeAccepted, upper_idem]

/-- a DEFtype range `a-b` is accepted iff `a` does not come after `b` in the alphabet (whatever their case):
exactly the ranges for which `fillRanges` has something to fill -/
theorem rangeAccepted_iff_index (a b i j : Nat) (ha : charToAlphabetIndex a = some i)
    (hb : charToAlphabetIndex b = some j) : rangeAccepted a b = true ↔ i ≤ j := by
  unfold charToAlphabetIndex isAsciiUpper at ha hb
  simp only [] at ha hb
  split at ha
  · next hua =>
    split at hb
    · next hub =>
      have h1 := of_decide_eq_true hua
      have h2 := of_decide_eq_true hub
      injection ha with ha; injection hb with hb
      unfold rangeAccepted
      rw [decide_eq_true_iff]; omega
    · cases hb
  · cases ha

example : rangeAccepted 97 90 = true ∧ rangeAccepted 90 97 = false ∧ rangeAccepted 65 97 = true := by decide

theorem fold_idem (s : Ident) : fold (fold s) = fold s := by
  simp [fold, List.map_map, Function.comp_def, upper_idem]

/-- The `PartialEq` of `CaseInsensitiveString` (ported loop `ciEq`) is equality of the folded byte lists:
keys of the model = identity of names in the linter's hash maps. -/
theorem ciEq_iff_fold (a b : List Nat) : ciEq a b = true ↔ fold a = fold b := by
  induction a generalizing b with
  | nil => cases b <;> simp [ciEq, fold]
  | cons x xs ih =>
    cases b with
    | nil => simp [ciEq, fold]
    | cons y ys =>
      simp only [ciEq, fold, List.map_cons, List.cons.injEq]
      by_cases h : upper x = upper y
      · simp only [h, if_true, true_and]; exact ih ys
      · simp [h]

theorem ciEq_refl (a : List Nat) : ciEq a a = true := (ciEq_iff_fold a a).2 rfl
theorem ciEq_symm (a b : List Nat) : ciEq a b = ciEq b a := by
  rw [Bool.eq_iff_iff, ciEq_iff_fold, ciEq_iff_fold]; exact eq_comm
theorem ciEq_fold (a : List Nat) : ciEq a (fold a) = true := (ciEq_iff_fold _ _).2 (fold_idem a).symm

theorem fillLoop_length (t : DefTable) (x : Nat) (q : Q) (n : Nat) : (fillLoop t x q n).length = t.length := by
  induction n generalizing t x with
  | zero => rfl
  | succ n ih => simp [fillLoop, ih]

theorem fillLoop_getElem? (t : DefTable) (x : Nat) (q : Q) (n i : Nat) :
    (fillLoop t x q n)[i]? = if x ≤ i ∧ i < x + n ∧ i < t.length then some q else t[i]? := by
  induction n generalizing t x with
  | zero => simp [fillLoop]; omega
  | succ n ih =>
    simp only [fillLoop]
    rw [ih]
    simp only [List.length_set, List.getElem?_set]
    by_cases hxi : x = i
    · subst hxi
      by_cases hl : x < t.length
      · have h1 : ¬ (x + 1 ≤ x ∧ x < x + 1 + n ∧ x < t.length) := by omega
        have h2 : (x ≤ x ∧ x < x + (n + 1) ∧ x < t.length) := by omega
        rw [if_neg h1, if_pos h2]; simp [hl]
      · have h1 : ¬ (x + 1 ≤ x ∧ x < x + 1 + n ∧ x < t.length) := by omega
        have h2 : ¬ (x ≤ x ∧ x < x + (n + 1) ∧ x < t.length) := by omega
        rw [if_neg h1, if_neg h2]
        have : t[x]? = none := by simp; omega
        simp [hl, this]
    · by_cases hc : x + 1 ≤ i ∧ i < x + 1 + n ∧ i < t.length
      · have : x ≤ i ∧ i < x + (n + 1) ∧ i < t.length := by omega
        rw [if_pos hc, if_pos this]
      · have : ¬ (x ≤ i ∧ i < x + (n + 1) ∧ i < t.length) := by omega
        rw [if_neg hc, if_neg this]; simp [hxi]

theorem fillLoop_getD (t : DefTable) (x : Nat) (q : Q) (n i : Nat) :
    (fillLoop t x q n).getD i Q.sng = if x ≤ i ∧ i < x + n ∧ i < t.length then q else t.getD i Q.sng := by
  rw [List.getD_eq_getElem?_getD, List.getD_eq_getElem?_getD, fillLoop_getElem?]
  split <;> rfl

/-- `DEFxxx a-b` gives exactly the letters `a..b` the new type and leaves every other letter alone. -/
theorem fillRanges_getD (t : DefTable) (a b : Nat) (q : Q) (i : Nat) (hb : b < t.length) :
    (fillRanges t a b q).getD i Q.sng = if a ≤ i ∧ i ≤ b then q else t.getD i Q.sng := by
  unfold fillRanges
  rw [fillLoop_getD]
  by_cases h : a ≤ i ∧ i ≤ b
  · have : a ≤ i ∧ i < a + (b + 1 - a) ∧ i < t.length := by omega
    simp [h, this]
  · have : ¬ (a ≤ i ∧ i < a + (b + 1 - a) ∧ i < t.length) := by omega
    simp [h, this]

theorem init_getD (i : Nat) : DefTable.init.getD i Q.sng = Q.sng := by
  show (List.replicate 26 Q.sng).getD i Q.sng = Q.sng
  rw [List.getD_eq_getElem?_getD, List.getElem?_replicate]
  split <;> rfl

/-- with no DEFtype statement every name defaults to SINGLE -/
theorem defaultQ_init (k : Key) : defaultQ DefTable.init k = Q.sng := by
  unfold defaultQ
  cases k with
  | nil => rfl
  | cons b _ =>
    simp only []
    split
    · exact init_getD _
    · rfl

/-- the default type of a name only depends on the letter, not on its case -/
theorem defaultQ_fold (t : DefTable) (s : Ident) : defaultQ t (fold s) = defaultQ t s := by
  cases s with
  | nil => rfl
  | cons b bs => simp [defaultQ, fold, ← deftype_fold]


/-! ## contexts -/

@[simp] theorem setCur_scope (c : Ctx) (t : Table) : (c.setCur t).scope = c.scope := by
  unfold Ctx.setCur; split <;> rfl
@[simp] theorem setCur_inSub (c : Ctx) (t : Table) : (c.setCur t).inSub = c.inSub := by
  simp [Ctx.inSub]
@[simp] theorem setCur_cur (c : Ctx) (t : Table) : (c.setCur t).cur = t := by
  unfold Ctx.cur
  rw [setCur_inSub]
  unfold Ctx.setCur
  cases h : c.inSub <;> simp
@[simp] theorem setCur_deft (c : Ctx) (t : Table) : (c.setCur t).deft = c.deft := by
  unfold Ctx.setCur; split <;> rfl
@[simp] theorem setCur_funcs (c : Ctx) (t : Table) : (c.setCur t).funcs = c.funcs := by
  unfold Ctx.setCur; split <;> rfl
@[simp] theorem setCur_subs (c : Ctx) (t : Table) : (c.setCur t).subs = c.subs := by
  unfold Ctx.setCur; split <;> rfl
@[simp] theorem setCur_hasSub (c : Ctx) (t : Table) (k : Key) : (c.setCur t).hasSub k = c.hasSub k := by
  simp [Ctx.hasSub]
@[simp] theorem setCur_funcQ (c : Ctx) (t : Table) (k : Key) : (c.setCur t).funcQ k = c.funcQ k := by
  simp [Ctx.funcQ]
theorem setCur_globals_inSub (c : Ctx) (t : Table) (h : c.inSub = true) : (c.setCur t).globals = c.globals := by
  unfold Ctx.setCur; simp [h]

@[simp] theorem find_cons_self (t : Table) (k : Key) (v : NameInfo) : Table.find ((k, v) :: t) k = some v := by
  simp [Table.find]

/-! ## the documented rules -/

/-- **bare_is_default_type.**  In every context where `k` is not an `AS type` variable, a constant or a function
name, the bare name `k` and `k<q>` with `q` the DEFtype of its first letter (SINGLE without DEFtype:
`defaultQ_init`) resolve identically: same variable, same resulting context. -/
theorem bare_is_default_type (c : Ctx) (k : Key) (m : Mode)
    (hext : c.getExtendedRec k = none) (hconst : c.getConstRec k = none) (hfn : c.funcQ k = none) :
    resolveVar c k none m = resolveVar c k (some (defaultQ c.deft k)) m := by
  have hloc : c.cur.getConst k = none := by
    unfold Ctx.getConstRec at hconst
    cases h : c.cur.getConst k with
    | none => rfl
    | some v => simp [h] at hconst
  simp [resolveVar, resolveTail, addImplicit, hext, hconst, hfn, hloc]

/-- statement level: `A = v` and `A<q> = v`, `PRINT A` and `PRINT A<q>` are the same statement -/
theorem bare_is_default_type_stmt (c : Ctx) (n : Ident) (b : Bool) (tag : Nat)
    (hext : c.getExtendedRec (fold n) = none) (hconst : c.getConstRec (fold n) = none)
    (hfn : c.funcQ (fold n) = none) :
    convStmt c (.assign ⟨n, none⟩ b tag) = convStmt c (.assign ⟨n, some (defaultQ c.deft (fold n))⟩ b tag) ∧
    convStmt c (.print ⟨n, none⟩) = convStmt c (.print ⟨n, some (defaultQ c.deft (fold n))⟩) := by
  have h := fun m => bare_is_default_type c (fold n) m hext hconst hfn
  simp [convStmt, h]

/-- a suffixed name that is not shadowed by an `AS type` variable, constant, function or sub resolves to the
variable with exactly that qualifier -/
theorem suffixed_resolves_to_own_qualifier (c : Ctx) (k : Key) (q : Q) (m : Mode)
    (hsub : c.hasSub k = false) (hext : c.getExtendedRec k = none) (hconst : c.getConstRec k = none)
    (hfn : c.funcQ k = none) :
    ∃ c' home, resolveVar c k (some q) m = .ok (c', .var k q home) := by
  have hloc : c.cur.getConst k = none := by
    unfold Ctx.getConstRec at hconst
    cases h : c.cur.getConst k with
    | none => rfl
    | some v => simp [h] at hconst
  cases hc : c.getCompactRec k q with
  | some home => exact ⟨c, home, by simp [resolveVar, hsub, hext, hc]⟩
  | none =>
    exact ⟨_, _, by simp [resolveVar, resolveTail, addImplicit, hsub, hext, hc, hloc, hfn, hconst]; exact ⟨rfl, rfl⟩⟩

/-- **five_suffixes_distinct.**  `A%`, `A&`, `A!`, `A#`, `A$` resolve to five different variables: the resolved
qualified names are pairwise different (and therefore so are the run-time keys, `frame_cells_distinct`). -/
theorem five_suffixes_distinct (c : Ctx) (k : Key) (m : Mode)
    (hsub : c.hasSub k = false) (hext : c.getExtendedRec k = none) (hconst : c.getConstRec k = none)
    (hfn : c.funcQ k = none) (q1 q2 : Q) (hne : q1 ≠ q2) (c1 c2 : Ctx) (r1 r2 : Res)
    (h1 : resolveVar c k (some q1) m = .ok (c1, r1)) (h2 : resolveVar c k (some q2) m = .ok (c2, r2)) :
    (∃ home, r1 = .var k q1 home) ∧ (∃ home, r2 = .var k q2 home) ∧ r1 ≠ r2 := by
  obtain ⟨c1', home1, e1⟩ := suffixed_resolves_to_own_qualifier c k q1 m hsub hext hconst hfn
  obtain ⟨c2', home2, e2⟩ := suffixed_resolves_to_own_qualifier c k q2 m hsub hext hconst hfn
  rw [e1] at h1; rw [e2] at h2
  injection h1 with h1; injection h2 with h2
  injection h1 with _ h1; injection h2 with _ h2
  subst h1; subst h2
  refine ⟨⟨home1, rfl⟩, ⟨home2, rfl⟩, ?_⟩
  intro h; injection h with _ hq _; exact hne hq

/-- run-time: writing one qualified name never changes what another qualified name of the same frame reads
(`Variables` is keyed by the qualified `Name`) -/
theorem frame_cells_distinct (f : Frame) (k : Key) (q1 q2 : Q) (v : Val) (h : q1 ≠ q2) :
    (f.set (k, q1) v).get (k, q2) = f.get (k, q2) := by
  simp [Frame.set, Frame.get, h]

theorem frame_get_set (f : Frame) (n : Key × Q) (v : Val) : (f.set n v).get n = v := by
  simp [Frame.set, Frame.get]


/-- after a successful extended declaration the current table holds exactly that variable for `k` -/
theorem declare_extended (c c' : Ctx) (k : Key) (T : Q) (shared : Bool)
    (h : declare c k (.extended T) shared = .ok c') :
    c' = c.setCur (c.cur.insertExtended k T shared) := by
  unfold declare at h
  simp only [] at h
  split at h
  · injection h with h; exact h.symm
  · cases h

theorem getExtendedRec_after_insert (c : Ctx) (k : Key) (T : Q) (shared : Bool) :
    (c.setCur (c.cur.insertExtended k T shared)).getExtendedRec k = some (T, c.scope) := by
  simp [Ctx.getExtendedRec, Table.insertExtended, Table.getExtended]

/-- **extended_unique.**  After `DIM [SHARED] k AS T` is accepted, the bare name and the name with `T`'s suffix are
that one variable, and every other suffix is rejected with `TypeMismatch` — in every context, both modes. -/
theorem extended_unique (c c' : Ctx) (shared : Bool) (k : Key) (T : Q) (m : Mode)
    (h : convDim c shared k (.extended T) = .ok c') :
    resolveVar c' k none m = .ok (c', .var k T c'.scope) ∧
    resolveVar c' k (some T) m = .ok (c', .var k T c'.scope) ∧
    ∀ q, q ≠ T → resolveVar c' k (some q) m = .error .typeMismatch := by
  unfold convDim at h
  by_cases hs : c.hasSub k = true
  · simp [hs] at h
  · simp only [hs] at h
    split at h; · cases h
    split at h; · cases h
    split at h; · cases h
    split at h; · cases h
    have hc := declare_extended c c' k T shared h
    have hsub : c'.hasSub k = false := by rw [hc]; simpa using hs
    have hext : c'.getExtendedRec k = some (T, c'.scope) := by
      rw [hc, getExtendedRec_after_insert]; simp
    refine ⟨?_, ?_, ?_⟩
    · simp [resolveVar, hsub, hext, sfxOk]
    · simp [resolveVar, hsub, hext, sfxOk]
    · intro q hq; simp [resolveVar, hsub, hext, sfxOk, hq]

/-- the same for a parameter `k AS T` of a SUB/FUNCTION -/
theorem extended_unique_param (c c' : Ctx) (k : Key) (T : Q) (m : Mode)
    (h : convParam c k (.extended T) = .ok c') :
    resolveVar c' k none m = .ok (c', .var k T c'.scope) ∧
    resolveVar c' k (some T) m = .ok (c', .var k T c'.scope) ∧
    ∀ q, q ≠ T → resolveVar c' k (some q) m = .error .typeMismatch := by
  unfold convParam at h
  by_cases hs : c.hasSub k = true
  · simp [hs] at h
  · simp only [hs] at h
    split at h; · cases h
    split at h; · cases h
    split at h; · cases h
    have hc := declare_extended c c' k T false h
    have hsub : c'.hasSub k = false := by rw [hc]; simpa using hs
    have hext : c'.getExtendedRec k = some (T, c'.scope) := by
      rw [hc, getExtendedRec_after_insert]; simp
    refine ⟨?_, ?_, ?_⟩
    · simp [resolveVar, hsub, hext, sfxOk]
    · simp [resolveVar, hsub, hext, sfxOk]
    · intro q hq; simp [resolveVar, hsub, hext, sfxOk, hq]

/-- what "declared `DIM SHARED`" means for a resolved variable -/
def sharedGlobal (c : Ctx) (k : Key) (q : Q) : Prop :=
  c.globals.getExtended k = some (q, true) ∨ c.globals.getCompact k q = some true

theorem getExtendedRec_home (c : Ctx) (k : Key) (q : Q) (home : Scope) (h : c.getExtendedRec k = some (q, home)) :
    home = c.scope ∨ (home = Scope.global ∧ c.globals.getExtended k = some (q, true)) := by
  unfold Ctx.getExtendedRec at h
  split at h
  · injection h with h; injection h with _ h; exact Or.inl h.symm
  · split at h
    · split at h
      · next heq => injection h with h; injection h with h1 h2; subst h1; subst h2; exact Or.inr ⟨rfl, heq⟩
      · cases h
    · cases h

theorem getCompactRec_home (c : Ctx) (k : Key) (q : Q) (home : Scope) (h : c.getCompactRec k q = some home) :
    home = c.scope ∨ (home = Scope.global ∧ c.globals.getCompact k q = some true) := by
  unfold Ctx.getCompactRec at h
  split at h
  · injection h with h; exact Or.inl h.symm
  · split at h
    · split at h
      · next heq => injection h with h; subst h; exact Or.inr ⟨rfl, heq⟩
      · cases h
    · cases h

/-- **local_unless_param_const_shared.**  Whatever a name occurrence resolves to (in particular inside a SUB or
FUNCTION), if it is a variable then it lives in the frame of the current scope (a local, a parameter or the function
result) — or in the global frame, and then it was declared `DIM SHARED`.  A global that is not SHARED is never
what a name denotes inside a subprogram. (Constants resolve to `Res.constant`, never to a variable.) -/
theorem local_unless_param_const_shared (c c' : Ctx) (k k' : Key) (sfx : Option Q) (m : Mode) (q : Q) (home : Scope)
    (h : resolveVar c k sfx m = .ok (c', .var k' q home)) :
    k' = k ∧ (home = c.scope ∨ (home = Scope.global ∧ sharedGlobal c k q)) := by
  unfold resolveVar at h
  split at h; · cases h
  split at h
  · next q0 home0 hext =>
    split at h
    · injection h with h; injection h with _ h; injection h with h1 h2 h3
      subst h1; subst h2; subst h3
      rcases getExtendedRec_home c k q0 home0 hext with h | ⟨h, hg⟩
      · exact ⟨rfl, Or.inl h⟩
      · exact ⟨rfl, Or.inr ⟨h, Or.inl hg⟩⟩
    · cases h
  · simp only [] at h
    split at h
    · next home0 hc =>
      injection h with h; injection h with _ h; injection h with h1 h2 h3
      subst h1; subst h2; subst h3
      rcases getCompactRec_home c k _ home0 hc with h | ⟨h, hg⟩
      · exact ⟨rfl, Or.inl h⟩
      · exact ⟨rfl, Or.inr ⟨h, Or.inr hg⟩⟩
    · split at h
      · -- local constant: never a variable
        unfold resolveConst at h
        split at h <;> simp [Except.map] at h
      · unfold resolveTail at h
        split at h
        · split at h
          · split at h
            · split at h
              · injection h with h; injection h with _ h; injection h with h1 h2 h3
                exact ⟨h1.symm, Or.inl h3.symm⟩
              · cases h
            · cases h
          · split at h
            · injection h with h; injection h with _ h; cases h
            · cases h
        · split at h
          · unfold resolveConst at h
            split at h <;> simp [Except.map] at h
          · unfold addImplicit at h
            injection h with h; injection h with _ h; injection h with h1 h2 h3
            exact ⟨h1.symm, Or.inl h3.symm⟩

/-- a global variable that is not SHARED is invisible inside a subprogram: the name denotes a fresh local -/
theorem nonshared_global_is_hidden (c : Ctx) (k : Key) (q : Q) (m : Mode)
    (hin : c.inSub = true) (hsub : c.hasSub k = false) (hfn : c.funcQ k = none) (hconst : c.getConstRec k = none)
    (hlocal : c.locals.find k = none)
    (hg : c.globals.find k = some (.compacts [(q, false)])) :
    ∃ c', resolveVar c k (some q) m = .ok (c', .var k q c.scope) ∧ c'.globals = c.globals := by
  have hcur : c.cur = c.locals := by simp [Ctx.cur, hin]
  have hext : c.getExtendedRec k = none := by
    simp [Ctx.getExtendedRec, hcur, Table.getExtended, hlocal, hg, hin]
  have hcomp : c.getCompactRec k q = none := by
    simp [Ctx.getCompactRec, hcur, Table.getCompact, hlocal, hg, hin, compactFind]
  have hloc : c.cur.getConst k = none := by simp [hcur, Table.getConst, hlocal]
  refine ⟨c.setCur (c.cur.insertCompact k q false), ?_, setCur_globals_inSub c _ hin⟩
  simp [resolveVar, resolveTail, addImplicit, hsub, hext, hcomp, hloc, hfn, hconst]

/-- a CONST of the main module is visible inside every subprogram that does not declare the name itself -/
theorem global_const_visible (c : Ctx) (k : Key) (cq : Q) (l : Lit) (m : Mode)
    (hin : c.inSub = true) (hsub : c.hasSub k = false) (hfn : c.funcQ k = none)
    (hlocal : c.locals.find k = none) (hg : c.globals.find k = some (.const cq l)) :
    resolveVar c k none m = .ok (c, .constant cq l) ∧ resolveVar c k (some cq) m = .ok (c, .constant cq l) := by
  have hcur : c.cur = c.locals := by simp [Ctx.cur, hin]
  have hext : c.getExtendedRec k = none := by
    simp [Ctx.getExtendedRec, hcur, Table.getExtended, hlocal, hg, hin]
  have hcomp : ∀ q, c.getCompactRec k q = none := by
    intro q; simp [Ctx.getCompactRec, hcur, Table.getCompact, hlocal, hg, hin]
  have hloc : c.cur.getConst k = none := by simp [hcur, Table.getConst, hlocal]
  have hrec : c.getConstRec k = some (cq, l) := by
    simp [Ctx.getConstRec, hcur, Table.getConst, hlocal, hg, hin]
  constructor <;>
    simp [resolveVar, resolveTail, resolveConst, sfxOk, hsub, hext, hcomp, hloc, hfn, hrec, Except.map]


/-! ## case insensitivity of whole scripts -/

def normRef (n : NameRef) : NameRef := ⟨fold n.name, n.sfx⟩

def normStmt : Stmt → Stmt
  | .dim sh n d => .dim sh (fold n) d
  | .const n l => .const (normRef n) l
  | .assign n b t => .assign (normRef n) b t
  | .print n => .print (normRef n)
  | .callSub n a => .callSub (fold n) a
  | .printCall n a => .printCall (normRef n) a

def normParam (p : Param) : Param := ⟨fold p.name, p.d⟩

def normItem : Item → Item
  | .defType q rs => .defType q (rs.map fun r => (upper r.1, upper r.2))
  | .stmt s => .stmt (normStmt s)
  | .sub n ps body => .sub (fold n) (ps.map normParam) (body.map normStmt)
  | .func n ps body => .func (normRef n) (ps.map normParam) (body.map normStmt)

/-- every identifier (and DEFtype letter) upper-cased -/
def normalize (s : Script) : Script := s.map normItem

/-- Two scripts that differ only in the letter case of identifiers and DEFtype letters: same structure, and
corresponding identifiers are equal for `CaseInsensitiveString` (`ciEq_iff_fold`). -/
def CaseEq (s1 s2 : Script) : Prop := normalize s1 = normalize s2

theorem convStmt_norm (c : Ctx) (s : Stmt) : convStmt c (normStmt s) = convStmt c s := by
  cases s <;> simp [normStmt, normRef, convStmt, fold_idem]

theorem convStmts_norm (c : Ctx) (l : List Stmt) : convStmts c (l.map normStmt) = convStmts c l := by
  induction l generalizing c with
  | nil => rfl
  | cons s rest ih =>
    simp only [List.map_cons, convStmts, convStmt_norm]
    split <;> simp [ih]

theorem convParams_norm (c : Ctx) (l : List Param) : convParams c (l.map normParam) = convParams c l := by
  induction l generalizing c with
  | nil => rfl
  | cons p rest ih =>
    simp only [List.map_cons, convParams, normParam, fold_idem]
    split <;> simp [ih]

theorem convSubprogram_norm (c : Ctx) (sc : Scope) (ps : List Param) (body : List Stmt) :
    convSubprogram c sc (ps.map normParam) (body.map normStmt) = convSubprogram c sc ps body := by
  simp [convSubprogram, convParams_norm, convStmts_norm]

theorem setDefType_norm (t : DefTable) (q : Q) (rs : List (Nat × Nat)) :
    setDefType t q (rs.map fun r => (upper r.1, upper r.2)) = setDefType t q rs := by
  induction rs generalizing t with
  | nil => rfl
  | cons r rest ih =>
    obtain ⟨a, b⟩ := r
    simp only [List.map_cons, setDefType, ← deftype_fold]
    split <;> simp [ih]

theorem convItem_norm (c : Ctx) (it : Item) : convItem c (normItem it) = convItem c it := by
  cases it with
  | defType q rs => simp [normItem, convItem, setDefType_norm]
  | stmt s => simp [normItem, convItem, convStmt_norm]
  | sub n ps body => simp [normItem, convItem, convSubprogram_norm, fold_idem]
  | func n ps body => simp [normItem, normRef, convItem, convSubprogram_norm, fold_idem]

theorem convItems_norm (c : Ctx) (l : List Item) : convItems c (l.map normItem) = convItems c l := by
  induction l generalizing c with
  | nil => rfl
  | cons it rest ih =>
    simp only [List.map_cons, convItems, convItem_norm]
    split <;> simp [ih]

theorem paramQ_norm (t : DefTable) (ps : List Param) : (ps.map normParam).map (paramQ t) = ps.map (paramQ t) := by
  induction ps with
  | nil => rfl
  | cons p rest ih =>
    simp only [List.map_cons, ih]
    congr 1
    cases hd : p.d <;> simp [paramQ, normParam, hd, fold_idem]

theorem paramQ_comp (t : DefTable) : paramQ t ∘ normParam = paramQ t := by
  funext p
  cases hd : p.d <;> simp [paramQ, normParam, hd, fold_idem]

theorem preItem_norm (p : Pre) (it : Item) : preItem p (normItem it) = preItem p it := by
  cases it with
  | defType q rs => simp [normItem, preItem, setDefType_norm]
  | stmt s => cases s <;> simp [normItem, normStmt, normRef, preItem, fold_idem]
  | sub n ps body => simp [normItem, preItem, paramQ_comp, fold_idem]
  | func n ps body => simp [normItem, normRef, preItem, paramQ_comp, fold_idem]

theorem preItems_norm (p : Pre) (l : List Item) : preItems p (l.map normItem) = preItems p l := by
  induction l generalizing p with
  | nil => rfl
  | cons it rest ih =>
    simp only [List.map_cons, preItems, preItem_norm]
    split <;> simp [ih]

theorem lint_normalize (s : Script) : lint (normalize s) = lint s := by
  simp [lint, normalize, preItems_norm, convItems_norm]

theorem runScript_normalize (s : Script) : runScript (normalize s) = runScript s := by
  simp [runScript, lint_normalize]

/-- **names_case_insensitive.**  Verdict, resolved names and printed values of a script are invariant under any
change of letter case in its identifiers and DEFtype letters. -/
theorem names_case_insensitive (s1 s2 : Script) (h : CaseEq s1 s2) : runScript s1 = runScript s2 := by
  rw [← runScript_normalize s1, ← runScript_normalize s2, h]

/-- `CaseEq` is what re-spelling gives: replacing every identifier by any `ciEq`-equal spelling -/
theorem caseEq_of_respelling_stmt (n1 n2 : Ident) (sfx : Option Q) (h : ciEq n1 n2 = true) :
    CaseEq [.stmt (.print ⟨n1, sfx⟩)] [.stmt (.print ⟨n2, sfx⟩)] := by
  have := (ciEq_iff_fold n1 n2).1 h
  simp [CaseEq, normalize, normItem, normStmt, normRef, this]

/-! ## the hypotheses are satisfiable / non-trivial instances (evaluated by the kernel) -/

/-- `a` / `A` / `A!` -/
def nmA : Ident := [65]
def nma : Ident := [97]

/-- `A = 1 : PRINT a! : PRINT A%` : bare is SINGLE, `a!` is the same variable, `A%` another one -/
example :
    runScript [.stmt (.assign ⟨nmA, none⟩ false 1), .stmt (.print ⟨nma, some .sng⟩), .stmt (.print ⟨nmA, some .int⟩)]
      = .accepted [.var [65] .sng .global, .var [65] .sng .global, .var [65] .int .global]
          (some [⟨.tag 1, .sng⟩, ⟨.default, .int⟩]) true := by decide

/-- `DEFINT A-C : A = 1 : PRINT A%` : now bare is INTEGER -/
example :
    runScript [.defType .int [(65, 67)], .stmt (.assign ⟨nmA, none⟩ false 1), .stmt (.print ⟨nmA, some .int⟩)]
      = .accepted [.var [65] .int .global, .var [65] .int .global] (some [⟨.tag 1, .int⟩, ]) true := by decide

/-- `DIM A AS INTEGER : PRINT A$` is rejected with the coded error -/
example :
    runScript [.stmt (.dim false nmA (.extended .int)), .stmt (.print ⟨nmA, some .str⟩)]
      = .rejected .typeMismatch := by decide

/-- `A = 1 : SUB S : PRINT A : END SUB : S` prints the default 0 of a local, not 1;
with `DIM SHARED A` it prints the global's value -/
example :
    runScript [.stmt (.assign ⟨nmA, none⟩ false 1), .sub [83] [] [.print ⟨nmA, none⟩], .stmt (.callSub [83] [])]
      = .accepted [.var [65] .sng .global, .var [65] .sng (.sub [83])] (some [⟨.default, .sng⟩]) true := by decide

example :
    runScript [.stmt (.dim true nmA .bare), .stmt (.assign ⟨nmA, none⟩ false 1),
               .sub [83] [] [.print ⟨nmA, none⟩], .stmt (.callSub [83] [])]
      = .accepted [.var [65] .sng .global, .var [65] .sng .global] (some [⟨.tag 1, .sng⟩]) true := by decide

/-- the hypotheses of `bare_is_default_type` / `five_suffixes_distinct` hold in the initial context -/
def ctx0 : Ctx := { deft := DefTable.init, funcs := [], subs := [], globals := [], locals := [], scope := .global }
example : ctx0.getExtendedRec nmA = none ∧ ctx0.getConstRec nmA = none ∧ ctx0.funcQ nmA = none ∧
    ctx0.hasSub nmA = false := by decide
/-- the hypothesis of `extended_unique` holds for `DIM A AS STRING` in the initial context -/
example : ∃ c', convDim ctx0 false nmA (.extended .str) = .ok c' := ⟨_, rfl⟩

end RbThm.C13
