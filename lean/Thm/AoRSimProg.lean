import Thm.AoRSimRead
import Thm.AoRProgWf
/-!
Layer AoR (port of the records-layer file `Thm/RecLSimProg.lean`), simulation part — whole programs: the statement
hypothesis (`StmtIH` at every fuel, proved case by case in the other `Thm/AoRSim*.lean` files) lifted to
`AoR.Compile.compile` / `AoR.Ref.run`.  The static premise `ProgWf` is defined in `Thm/AoRProgWf.lean`; the initial states
have no array dimensioned (`arrsRel_init`).

`compile` emits the top-level DATA statements first (`move_data_statements_first`), then the other top-level statements,
then `Halt`.  The DATA phase fills the VM's data segment with `dataOf body` and touches nothing else; the reference
semantics, which treats DATA as `skip`, is followed along the ORIGINAL top-level structure (so no fuel bookkeeping is
needed for the flattening).
-/
namespace RbThm.AoRSim
set_option linter.unusedVariables false
set_option linter.unusedSimpArgs false
open RbModel RbModel.Num RbModel.AoR RbModel.AoR.Compile RbModel.AoR.Vm
open RbModel.Ast (Pos)
open RbModel.RecL (ETy FTy FFields expand zeroOf)
open RbModel.RecL.Vm (allocTy defaultVar)
open RbThm.AoRLen RbThm.ArrLNum RbThm.RecLTy RbThm.AoRTy

/-- the top-level DATA statements, in program order -/
def datas (body : SStmt) : List SStmt := (topLevel body).filter isData

/-- the other top-level statements, in program order -/
def others (body : SStmt) : List SStmt := (topLevel body).filter (fun s => !isData s)

theorem compile_eq (prog : SProgram) :
    compile prog = compileStmt "" 0 (seqOf (datas prog.body ++ others prog.body)) ++ [(.halt, maxPos)] := rfl

theorem dataOf_eq : ∀ body : SStmt, dataOf body = (datas body).flatMap dataOf := by
  refine top_induction ?_ ?_
  · intro a b iha ihb
    simp only [datas] at iha ihb ⊢
    simp only [dataOf, topLevel, List.filter_append, List.flatMap_append, ← iha, ← ihb]
  · intro st hns
    cases st with
    | seq a b => exact absurd rfl (hns a b)
    | data items p => simp [datas, dataOf, topLevel, isData, List.filter]
    | _ => simp [datas, dataOf, topLevel, isData]

theorem datas_isData (body : SStmt) : ∀ x ∈ datas body, isData x = true := by
  intro x hx
  simp only [datas, List.mem_filter] at hx
  exact hx.2

theorem size_seqOf_append (l1 l2 : List SStmt) :
    sizeStmt (seqOf (l1 ++ l2)) = sizeStmt (seqOf l1) + sizeStmt (seqOf l2) := by
  induction l1 with
  | nil => simp [seqOf, sizeStmt]
  | cons a rest ih => simp only [List.cons_append, seqOf, sizeStmt, ih]; omega

theorem code_seqOf_append (sfx : String) : ∀ (l1 l2 : List SStmt) (off : Nat),
    compileStmt sfx off (seqOf (l1 ++ l2)) =
      compileStmt sfx off (seqOf l1) ++ compileStmt sfx (off + sizeStmt (seqOf l1)) (seqOf l2) := by
  intro l1
  induction l1 with
  | nil => intro l2 off; simp [seqOf, compileStmt, sizeStmt]
  | cons a rest ih =>
    intro l2 off
    simp only [List.cons_append, seqOf, compileStmt, sizeStmt, ih, List.append_assoc, Nat.add_assoc]

/-! ### the statement hypothesis along the top-level structure -/

theorem others_seq (a b : SStmt) : others (.seq a b) = others a ++ others b := by
  simp only [others, topLevel, List.filter_append]

/-- the reference semantics runs the body as written (DATA = `skip`); the code is that of the non-DATA top-level
statements in order -/
theorem top_spec (code : Code) (sc : Scope) (hst : ∀ fuel, StmtIH code fuel) : ∀ (b : SStmt), WfTop sc b →
    ∀ (fuel off : Nat) (s : St) (σ : Vm),
    CodeAt code off (compileStmt "" off (seqOf (others b))) → σ.pc = off → Rel sc s σ → ActInv σ →
    StmtPost code sc (sizeStmt (seqOf (others b))) off σ (AoR.Ref.exec fuel (desugar b) s) := by
  refine top_induction ?_ ?_
  · intro a b iha ihb hw fuel off s σ hc hpc hr ha
    simp only [WfTop] at hw
    cases fuel with
    | zero => simp only [desugar, AoR.Ref.exec, StmtPost]
    | succ fuel =>
      rw [others_seq, code_seqOf_append] at hc
      rw [others_seq, size_seqOf_append]
      have h1 := iha hw.1 fuel off s σ hc.append_left hpc hr ha
      simp only [desugar, AoR.Ref.exec]
      generalize AoR.Ref.exec fuel (desugar a) s = ra at h1 ⊢
      obtain ⟨s1, o1⟩ := ra
      cases o1 with
      | normal =>
        obtain ⟨τ, st, hp, hrel, hss⟩ := h1
        have hcb := hc.append_right
        rw [len_stmt] at hcb
        have h2 := ihb hw.2 fuel _ s1 τ hcb hp hrel (ha.of_same hss)
        simp only
        exact StmtPost.of_steps st hss (h2.addr (by omega))
      | halted => exact h1
      | error c p => exact h1
      | inexact => trivial
      | outOfFuel => trivial
      | illFormed => trivial
      | tooBig => trivial
  · intro st hns hw fuel off s σ hc hpc hr ha
    have hskip : ∀ (st' : SStmt), others st' = [] → desugar st' = .skip →
        StmtPost code sc (sizeStmt (seqOf (others st'))) off σ (AoR.Ref.exec fuel (desugar st') s) := by
      intro st' ho hd
      rw [ho, hd]
      cases fuel with
      | zero => simp only [AoR.Ref.exec, StmtPost]
      | succ fuel =>
        simp only [AoR.Ref.exec, StmtPost, seqOf, sizeStmt, Nat.add_zero]
        exact ⟨σ, Steps.refl σ, hpc, hr, SameStacks.refl σ⟩
    have hatom : others st = [st] → Wf sc st →
        StmtPost code sc (sizeStmt (seqOf (others st))) off σ (AoR.Ref.exec fuel (desugar st) s) := by
      intro ho hwf
      rw [ho] at hc ⊢
      simp only [seqOf, compileStmt] at hc
      have := hst fuel sc st "" off s σ hc.append_left hpc hr hwf ha
      exact this.addr (by simp only [seqOf, sizeStmt]; omega)
    cases st with
    | seq a b => exact absurd rfl (hns a b)
    | skip => exact hskip _ (by simp [others, topLevel]) rfl
    | data items p => exact hskip _ (by simp [others, topLevel, isData]) rfl
    | comment => exact hatom (by simp [others, topLevel, isData]) (by simpa only [WfTop] using hw)
    | dim x t p => exact hatom (by simp [others, topLevel, isData]) (by simpa only [WfTop] using hw)
    | assign x path t e p => exact hatom (by simp [others, topLevel, isData]) (by simpa only [WfTop] using hw)
    | dimArr a t dims p => exact hatom (by simp [others, topLevel, isData]) (by simpa only [WfTop] using hw)
    | assignElem a idx path t e p =>
      exact hatom (by simp [others, topLevel, isData]) (by simpa only [WfTop] using hw)
    | print items p => exact hatom (by simp [others, topLevel, isData]) (by simpa only [WfTop] using hw)
    | read vars p => exact hatom (by simp [others, topLevel, isData]) (by simpa only [WfTop] using hw)
    | ifBlock c thn elifs hasElse els p =>
      exact hatom (by simp [others, topLevel, isData]) (by simpa only [WfTop] using hw)
    | select e cases hasElse els p =>
      exact hatom (by simp [others, topLevel, isData]) (by simpa only [WfTop] using hw)
    | forLoop x t lo hi step body p =>
      exact hatom (by simp [others, topLevel, isData]) (by simpa only [WfTop] using hw)
    | «while» c body p => exact hatom (by simp [others, topLevel, isData]) (by simpa only [WfTop] using hw)
    | doLoop c top u body p => exact hatom (by simp [others, topLevel, isData]) (by simpa only [WfTop] using hw)
    | end_ p => exact hatom (by simp [others, topLevel, isData]) (by simpa only [WfTop] using hw)

/-! ### the DATA phase -/

/-- what the code of a DATA statement leaves alone (it changes the program counter, A, the data segment and —
temporarily — the argument lists and the stack trace) -/
structure DKeeps (σ τ : Vm) : Prop where
  regStack : τ.regStack = σ.regStack
  vals : τ.vals = σ.vals
  paths : τ.paths = σ.paths
  vars : τ.vars = σ.vars
  arrs : τ.arrs = σ.arrs
  funRes : τ.funRes = σ.funRes
  types : τ.types = σ.types
  out : τ.out = σ.out
  skipNewline : τ.skipNewline = σ.skipNewline
  dataIdx : τ.dataIdx = σ.dataIdx
  queue : τ.queue = σ.queue
  trace : τ.trace = σ.trace

theorem DKeeps.refl (σ : Vm) : DKeeps σ σ := ⟨rfl, rfl, rfl, rfl, rfl, rfl, rfl, rfl, rfl, rfl, rfl, rfl⟩

theorem DKeeps.trans {a b c : Vm} (h₁ : DKeeps a b) (h₂ : DKeeps b c) : DKeeps a c :=
  ⟨h₂.regStack.trans h₁.regStack, h₂.vals.trans h₁.vals, h₂.paths.trans h₁.paths, h₂.vars.trans h₁.vars,
    h₂.arrs.trans h₁.arrs, h₂.funRes.trans h₁.funRes,
    h₂.types.trans h₁.types, h₂.out.trans h₁.out,
    h₂.skipNewline.trans h₁.skipNewline, h₂.dataIdx.trans h₁.dataIdx, h₂.queue.trans h₁.queue,
    h₂.trace.trans h₁.trace⟩

/-- `(LoadIntoA v; PushUnnamedByVal)*`: the items of a DATA statement join the argument list being collected -/
theorem data_items (code : Code) (f : Val × Pos → Code)
    (hf : ∀ it, f it = [(CInstr.loadA it.1, it.2), (CInstr.pushByVal, it.2)]) :
    ∀ (items : List (Val × Pos)) (off : Nat) (σ : Vm) (args : List (RV × Option Path))
      (rest : List Call),
      CodeAt code off (items.flatMap f) → σ.pc = off → σ.ctx = ⟨args, none⟩ :: rest →
      ∃ τ, Steps code σ τ ∧ τ.pc = off + 2 * items.length ∧
        τ.ctx = ⟨args ++ items.map (fun it => (ArrPath.Val.leaf it.1, none)), none⟩ :: rest ∧ τ.data = σ.data ∧ DKeeps σ τ := by
  intro items
  induction items with
  | nil =>
    intro off σ args rest _ hpc hcx
    exact ⟨σ, Steps.refl σ, by simp [hpc], by simp [hcx], rfl, DKeeps.refl σ⟩
  | cons it items ih =>
    intro off σ args rest hc hpc hcx
    rw [List.flatMap_cons, hf it] at hc
    subst hpc
    have h0 : code[σ.pc]? = some (CInstr.loadA it.1, it.2) := hc.append_left.head
    have h1 : code[σ.pc + 1]? = some (CInstr.pushByVal, it.2) := hc.append_left.tail.head
    let σ1 : Vm := Vm.advance (Vm.setA σ it.1)
    let σ2 : Vm := Vm.advance { σ1 with ctx := ⟨args ++ [(.leaf it.1, none)], none⟩ :: rest }
    have s1 : Vm.step code σ = .next σ1 := by simp only [Vm.step, h0]; rfl
    have s2 : Vm.step code σ1 = .next σ2 := by
      simp only [Vm.step, σ1, Vm.advance, Vm.setA, h1, hcx]; rfl
    have hcr : CodeAt code (σ.pc + 2) (items.flatMap f) := by
      have := hc.append_right
      simpa using this
    obtain ⟨τ, st, hp, hcx', hd, hk⟩ := ih (σ.pc + 2) σ2 (args ++ [(.leaf it.1, none)]) rest hcr rfl rfl
    refine ⟨τ, Steps.cons s1 (Steps.cons s2 st), ?_, ?_, ?_, ?_⟩
    · rw [hp]; simp only [List.length_cons]; omega
    · rw [hcx']; simp
    · exact hd
    · exact DKeeps.trans (show DKeeps σ σ2 from ⟨rfl, rfl, rfl, rfl, rfl, rfl, rfl, rfl, rfl, rfl, rfl, rfl⟩) hk

theorem mapM_sc (items : List (Val × Pos)) (f : RV × Option Path → Option Val)
    (hf : ∀ v, f (.leaf v, none) = some v) :
    (items.map (fun it => ((ArrPath.Val.leaf it.1, none) : RV × Option Path))).mapM f = some (items.map (·.1)) := by
  induction items with
  | nil => rfl
  | cons it rest ih =>
    simp only [List.map_cons, List.mapM_cons, ih, hf]
    rfl

/-- one DATA statement: `BeginCollectArguments; (LoadIntoA v; PushUnnamedByVal)*; PushStack; BuiltInSub Data;
PopStack` appends its items to the data segment -/
theorem data_stmt (code : Code) (items : List (Val × Pos)) (p : Pos) (sfx : String) (off : Nat) (σ : Vm)
    (hc : CodeAt code off (compileStmt sfx off (.data items p))) (hpc : σ.pc = off) :
    ∃ τ, Steps code σ τ ∧ τ.pc = off + sizeStmt (.data items p) ∧ τ.data = σ.data ++ items.map (·.1) ∧
      τ.ctx = σ.ctx ∧ DKeeps σ τ := by
  simp only [compileStmt] at hc
  subst hpc
  have h0 : code[σ.pc]? = some (CInstr.beginArgs, p) := hc.append_left.append_left.head
  let σ1 : Vm := Vm.advance { σ with ctx := ⟨[], none⟩ :: σ.ctx }
  have s1 : Vm.step code σ = .next σ1 := by simp only [Vm.step, h0]; rfl
  have hci := hc.append_left.append_right
  simp only [List.length_singleton] at hci
  obtain ⟨τ1, st1, hp1, hcx1, hd1, hk1⟩ :=
    data_items code _ (fun it => rfl) items (σ.pc + 1) σ1 [] σ.ctx hci rfl rfl
  have hct := hc.append_right
  have hl := flatMap_const_len (fun x : Val × Pos => [(CInstr.loadA x.fst, x.snd), (CInstr.pushByVal, x.snd)]) 2
    (fun _ => rfl) items
  simp only [List.length_append, List.length_singleton, hl] at hct
  have e : σ.pc + (1 + 2 * items.length) = τ1.pc := by rw [hp1]; omega
  rw [e] at hct
  have h2 : code[τ1.pc]? = some (CInstr.pushStack, p) := hct.head
  have h3 : code[τ1.pc + 1]? = some (CInstr.builtInData, p) := hct.tail.head
  have h4 : code[τ1.pc + 1 + 1]? = some (CInstr.popStack, p) := hct.tail.tail.head
  simp only [List.nil_append] at hcx1
  let τ2 : Vm := Vm.advance { τ1 with trace := p :: τ1.trace }
  let τ3 : Vm := Vm.advance { τ2 with data := τ2.data ++ items.map (·.1),
                                      ctx := ⟨items.map (fun it => (ArrPath.Val.leaf it.1, none)), none⟩ :: σ.ctx }
  let τ4 : Vm := Vm.advance { τ3 with ctx := σ.ctx, trace := τ1.trace }
  have s2 : Vm.step code τ1 = .next τ2 := by simp only [Vm.step, h2]; rfl
  have s3 : Vm.step code τ2 = .next τ3 := by
    simp only [Vm.step, τ2, Vm.advance, h3, hcx1]
    rw [mapM_sc items]
    · rfl
    · intro v; rfl
  have s4 : Vm.step code τ3 = .next τ4 := by
    simp only [Vm.step, τ3, τ2, Vm.advance, h4]; rfl
  refine ⟨τ4, (Steps.cons s1 st1).trans (Steps.cons s2 (Steps.cons s3 (Steps.one s4))), ?_, ?_, rfl, ?_⟩
  · simp only [τ4, τ3, τ2, Vm.advance, hp1, sizeStmt]; omega
  · simp only [τ4, τ3, τ2, Vm.advance, hd1, σ1]
  · exact DKeeps.trans (DKeeps.trans (show DKeeps σ σ1 from ⟨rfl, rfl, rfl, rfl, rfl, rfl, rfl, rfl, rfl, rfl, rfl, rfl⟩) hk1)
      (show DKeeps τ1 τ4 from ⟨rfl, rfl, rfl, rfl, rfl, rfl, rfl, rfl, rfl, rfl, rfl, rfl⟩)

/-- the hoisted DATA statements, run in order, build the data segment -/
theorem data_list (code : Code) (sfx : String) : ∀ (l : List SStmt), (∀ x ∈ l, isData x = true) →
    ∀ (off : Nat) (σ : Vm),
      CodeAt code off (compileStmt sfx off (seqOf l)) → σ.pc = off →
      ∃ τ, Steps code σ τ ∧ τ.pc = off + sizeStmt (seqOf l) ∧ τ.data = σ.data ++ l.flatMap dataOf ∧
        τ.ctx = σ.ctx ∧ DKeeps σ τ := by
  intro l
  induction l with
  | nil =>
    intro _ off σ _ hpc
    exact ⟨σ, Steps.refl σ, by simp [seqOf, sizeStmt, hpc], by simp, rfl, DKeeps.refl σ⟩
  | cons a l ih =>
    intro hall off σ hc hpc
    have hd : isData a = true := hall a (by simp)
    cases a with
    | data items p =>
      have hc : CodeAt code off (compileStmt sfx off (.data items p) ++
          compileStmt sfx (off + sizeStmt (.data items p)) (seqOf l)) := by
        simpa only [seqOf, compileStmt] using hc
      obtain ⟨τ1, st1, hp1, hd1, hcx1, hk1⟩ := data_stmt code items p sfx off σ hc.append_left hpc
      have hcr := hc.append_right
      rw [len_stmt] at hcr
      obtain ⟨τ2, st2, hp2, hd2, hcx2, hk2⟩ :=
        ih (fun x hx => hall x (by simp [hx])) _ τ1 hcr hp1
      refine ⟨τ2, st1.trans st2, ?_, ?_, by rw [hcx2, hcx1], DKeeps.trans hk1 hk2⟩
      · rw [hp2]; simp only [seqOf, sizeStmt]; omega
      · rw [hd2, hd1]; simp [List.flatMap_cons, dataOf]
    | _ => simp [isData] at hd

/-! ### the program theorem -/

theorem run_eq (prog : SProgram) (fuel : Nat) :
    AoR.Ref.run fuel prog.toAst = AoR.Ref.exec fuel (desugar prog.body) (AoR.Ref.St.init prog.toAst) := rfl

theorem varsRel_init (slots : List ETy) : VarsRel slots (slots.map AoR.Ref.initVar) (slots.map defaultVar) := by
  refine ⟨by simp, by simp, ?_⟩
  intro x st hx
  cases st with
  | sc t =>
    refine Or.inr ⟨.sc (zeroOf t), .leaf (zeroOf t), by simp [List.getElem?_map, hx, AoR.Ref.initVar],
      by simp [List.getElem?_map, hx, defaultVar], ?_⟩
    simp only [ValRel, RecL.Spec.ValRel]
  | fix n => exact Or.inl ⟨by simp [List.getElem?_map, hx, AoR.Ref.initVar], by simp [List.getElem?_map, hx]⟩
  | udt k => exact Or.inl ⟨by simp [List.getElem?_map, hx, AoR.Ref.initVar], by simp [List.getElem?_map, hx]⟩

/-- no array is dimensioned at the start, on either side -/
theorem arrsRel_init (types : List FFields) (al : List ETy) :
    ArrsRel types al (al.map fun _ => none) (al.map fun _ => none) := by
  refine ⟨by simp, by simp, ?_⟩
  intro a et ha
  exact Or.inl ⟨by simp [List.getElem?_map, ha], by simp [List.getElem?_map, ha]⟩

/-- **the whole-program theorem, given the statement hypothesis at every fuel** (assembled in `Thm/AoRSim.lean`) -/
theorem compile_correct_of (prog : SProgram) (fuel : Nat) (hw : ProgWf prog)
    (hst : ∀ fuel, StmtIH (compile prog) fuel) :
    match AoR.Ref.run fuel prog.toAst with
    | (s', .normal) => HaltsWith (compile prog) (Vm.init prog.types prog.slots prog.arrs) s'.out
    | (s', .halted) => HaltsWith (compile prog) (Vm.init prog.types prog.slots prog.arrs) s'.out
    | (s', .error c p) => ErrsWith (compile prog) (Vm.init prog.types prog.slots prog.arrs) c p s'.out
    | (_, .inexact) => True
    | (_, .outOfFuel) => True
    | (_, .illFormed) => True
    | (_, .tooBig) => True := by
  have hall2 : CodeAt (compile prog) 0
      (compileStmt "" 0 (seqOf (datas prog.body ++ others prog.body)) ++ [(.halt, maxPos)]) := by
    intro i _; rw [Nat.zero_add]; rfl
  have hbody := hall2.append_left
  rw [code_seqOf_append] at hbody
  have hcd := hbody.append_left
  have hco := hbody.append_right
  rw [len_stmt, Nat.zero_add] at hco
  have hhalt := hall2.append_right.head
  rw [len_stmt, size_seqOf_append, Nat.zero_add] at hhalt
  -- DATA phase
  obtain ⟨σ1, st1, hp1, hd1, hcx1, hk1⟩ :=
    data_list (compile prog) "" (datas prog.body) (datas_isData prog.body) 0 (Vm.init prog.types prog.slots prog.arrs) hcd rfl
  rw [Nat.zero_add] at hp1
  have hdata : σ1.data = dataOf prog.body := by
    rw [hd1, ← dataOf_eq]; simp [Vm.init]
  have hrel : Rel (progScope prog) (AoR.Ref.St.init prog.toAst) σ1 := by
    refine ⟨hw.1, rfl, by rw [hk1.types]; rfl, by rw [hk1.vars]; exact varsRel_init prog.slots,
      by rw [hk1.arrs]; exact arrsRel_init prog.types prog.arrs,
      typed_init prog.types prog.slots, nonul_init prog.slots, by rw [hk1.out]; rfl, ?_, by rw [hk1.dataIdx]; rfl,
      by rw [hk1.queue]; rfl, by rw [hk1.funRes]; rfl, hw.2.2⟩
    rw [hdata]; rfl
  have hact : ActInv σ1 := ⟨by rw [hk1.skipNewline]; rfl⟩
  have hs : StmtPost (compile prog) (progScope prog) _ _ σ1
      (AoR.Ref.exec fuel (desugar prog.body) (AoR.Ref.St.init prog.toAst)) :=
    top_spec (compile prog) (progScope prog) hst prog.body hw.2.1 fuel _ (AoR.Ref.St.init prog.toAst) σ1 hco hp1 hrel hact
  rw [run_eq]
  generalize AoR.Ref.exec fuel (desugar prog.body) (AoR.Ref.St.init prog.toAst) = r at hs ⊢
  obtain ⟨s', o⟩ := r
  cases o with
  | normal =>
    obtain ⟨τ, st, hp, hrel', _⟩ := hs
    refine ⟨τ, τ, st1.trans st, ?_, hrel'.out⟩
    have : (compile prog)[τ.pc]? = some (CInstr.halt, maxPos) := by rw [hp]; exact hhalt
    simp only [Vm.step, this]
  | halted => exact HaltsWith.of_steps st1 hs
  | error c p => exact ErrsWith.of_steps st1 hs
  | inexact => trivial
  | outOfFuel => trivial
  | illFormed => trivial
  | tooBig => trivial

end RbThm.AoRSim
