import Thm.C06ProcArrBase
import Thm.C06ProcArrPres
/-!
C06 over the combined layer (`RbModel.ProcArr.Ref`: core language + SUB / FUNCTION with by-value and by-reference scalar
parameters, DIM SHARED, STATIC + arrays of scalars in every ordinary scope + array ELEMENTS as by-reference actuals).

`Thm/C06Proc.lean` carries "a numeric variable only ever holds a value of its own type and range" through calls,
`Thm/C06ArrL.lean` through arrays.  Here both at once: the state of `ProcArr.Ref` has five stores — the activation
environment, the arrays of the activation, the table of DIM SHARED variables, one persistent environment per (STATIC)
procedure, the DATA items — and `Good` (`Thm/C06ProcArrBase.lean`) says every slot of every one of them, every stored cell
and the default value of every dimensioned array holds a value of its declared type, within that type's range.

* `exec_inrange`, `eval_inrange`, `args_inrange`, `call_inrange` — every statement, expression (function calls and element
  reads inside), argument list and call, any amount of fuel, **any outcome**: `Good` before implies `Good` after (for the
  same activation when the outcome lets the run go on, for the activation the run ended in otherwise: `GoodSome`).
* `elem_store_converts`, `elem_overflow_iff` — element assignment; `param_by_value_converted`, `arg_overflow_iff`,
  `arg_converted`, `elem_arg_by_reference`, `call_arg_error_stores_nothing`, `param_bound` — parameters;
  `byref_writeback_inrange` (in the base file; plain variables and array elements), `elem_byref_receives_param`,
  `function_result_inrange`; `run_inrange`; `procarr_run_inrange` (to the VM model through the simulation theorem).
-/
namespace RbThm.C06ProcArr
set_option linter.unusedVariables false
set_option linter.unusedSimpArgs false
open RbModel RbModel.Num RbModel.ProcArr RbModel.ProcArr.Ref
open RbModel.Ast (Pos)
open RbThm.C06
open RbThm.ProcArrSim (EWf IdxWf AWf DimsWf ItemsWf CaseWf CondsWf SelRelOp Typed)
open RbThm.C06ArrL (GoodArr GoodArrs)

/-! ### from the layer's premise `ProgWf` (faithful syntax) to the reference syntax -/

open RbThm.ProcArrSim (Wf WfElifs WfCases WfTop ProgWf Scope procScope mainScope SlotsOk statOf)

theorem wfA_readSeq (sg : Sigs) (tb : SlotTabs) (p : Pos) : ∀ (vars : List (Var × Ty × Pos)),
    (∀ v ∈ vars, tb.get? v.1 = some v.2.1) → WfA sg tb (readSeq p vars)
  | [], _ => by simp only [readSeq, WfA]
  | (x, t, q) :: rest, h => by
    simp only [readSeq, WfA]
    exact ⟨h (x, t, q) (List.mem_cons_self ..), wfA_readSeq sg tb p rest (fun v hv => h v (List.mem_cons_of_mem _ hv))⟩

mutual
theorem wfA_desugar (sg : Sigs) (sc : Scope) : ∀ (s : SStmt), Wf sg sc s → WfA sg sc.slots (desugar s)
  | .skip, _ => by simp only [desugar, WfA]
  | .comment, _ => by simp only [desugar, WfA]
  | .seq a b, h => by
    simp only [Wf] at h
    simp only [desugar, WfA]
    exact ⟨wfA_desugar sg sc a h.1, wfA_desugar sg sc b h.2⟩
  | .dim x t p, h => by
    simp only [Wf] at h
    simp only [desugar, WfA, EWf]
    exact ⟨h.1, trivial⟩
  | .sdim x t p, _ => by simp only [desugar, WfA]
  | .assign x t e p, h => by
    simp only [Wf] at h
    simp only [desugar, WfA]
    exact h
  | .dimArr a t dims p, h => by
    simp only [Wf] at h
    simp only [desugar, WfA]
    exact ⟨h.1, h.2.2.1⟩
  | .assignElem a t idx e p, h => by
    simp only [Wf] at h
    simp only [desugar, WfA]
    exact ⟨h.1, h.2.2.1, h.2.2.2⟩
  | .print items p, h => by
    simp only [Wf] at h
    simp only [desugar, WfA]
    exact h
  | .data items p, h => by simp only [Wf] at h
  | .read vars p, h => by
    simp only [Wf] at h
    simp only [desugar]
    exact wfA_readSeq sg sc.slots p vars h
  | .ifBlock c thn elifs hasElse els p, h => by
    simp only [Wf] at h
    simp only [desugar, WfA]
    exact ⟨h.1, wfA_desugar sg sc thn h.2.2.1, wfA_elifs sg sc elifs _ p h.2.2.2.1 (wfA_desugar sg sc els h.2.2.2.2.1)⟩
  | .select e cases hasElse els p, h => by
    simp only [Wf] at h
    simp only [desugar, WfA]
    refine ⟨h.1, wfA_cases sg sc cases _ h.2.1 ?_⟩
    cases hasElse
    · simp only [Bool.false_eq_true, if_false, WfAC]
    · simp only [if_true, WfAC]; exact wfA_desugar sg sc els h.2.2.1
  | .forLoop x t lo hi step body p, h => by
    simp only [Wf] at h
    simp only [desugar, WfA]
    exact ⟨h.1, h.2.1, h.2.2.1, h.2.2.2.1, wfA_desugar sg sc body h.2.2.2.2⟩
  | .while c body p, h => by
    simp only [Wf] at h
    simp only [desugar, WfA]
    exact ⟨h.1, wfA_desugar sg sc body h.2.2⟩
  | .doLoop c top u body p, h => by
    simp only [Wf] at h
    simp only [desugar, WfA]
    exact ⟨h.1, wfA_desugar sg sc body h.2.2⟩
  | .end_ p, _ => by simp only [desugar, WfA]
  | .callSub f args p, h => by
    simp only [Wf] at h
    simp only [desugar, WfA]
    exact h
  | .exitProc p, _ => by simp only [desugar, WfA]
theorem wfA_elifs (sg : Sigs) (sc : Scope) : ∀ (e : ElseIfs) (els : Stmt) (p : Pos),
    WfElifs sg sc e → WfA sg sc.slots els → WfA sg sc.slots (desugarElifs e els p)
  | .nil, els, p, _, h => by simp only [desugarElifs]; exact h
  | .cons c body rest, els, p, hw, h => by
    simp only [WfElifs] at hw
    simp only [desugarElifs, WfA]
    exact ⟨hw.1, wfA_desugar sg sc body hw.2.2.1, wfA_elifs sg sc rest els p hw.2.2.2 h⟩
theorem wfA_cases (sg : Sigs) (sc : Scope) : ∀ (cs : SCases) (tail : Cases),
    WfCases sg sc cs → WfAC sg sc.slots tail → WfAC sg sc.slots (desugarCases cs tail)
  | .nil, tail, _, h => by simp only [desugarCases]; exact h
  | .cons conds body rest, tail, hw, h => by
    simp only [WfCases] at hw
    simp only [desugarCases, WfAC]
    exact ⟨hw.2.1, wfA_desugar sg sc body hw.2.2.1, wfA_cases sg sc rest tail hw.2.2.2 h⟩
end

theorem wfA_top (sg : Sigs) (sc : Scope) : ∀ body : SStmt, WfTop sg sc body → WfA sg sc.slots (desugar body)
  | .seq a b, h => by
    simp only [WfTop] at h
    simp only [desugar, WfA]
    exact ⟨wfA_top sg sc a h.1, wfA_top sg sc b h.2⟩
  | .data _ _, _ => by simp only [desugar, WfA]
  | .skip, h => wfA_desugar sg sc _ h
  | .comment, h => wfA_desugar sg sc _ h
  | .dim _ _ _, h => wfA_desugar sg sc _ h
  | .sdim _ _ _, h => wfA_desugar sg sc _ h
  | .assign _ _ _ _, h => wfA_desugar sg sc _ h
  | .dimArr _ _ _ _, h => wfA_desugar sg sc _ h
  | .assignElem _ _ _ _ _, h => wfA_desugar sg sc _ h
  | .print _ _, h => wfA_desugar sg sc _ h
  | .read _ _, h => wfA_desugar sg sc _ h
  | .ifBlock _ _ _ _ _ _, h => wfA_desugar sg sc _ h
  | .select _ _ _ _ _, h => wfA_desugar sg sc _ h
  | .forLoop _ _ _ _ _ _ _, h => wfA_desugar sg sc _ h
  | .while _ _ _, h => wfA_desugar sg sc _ h
  | .doLoop _ _ _ _ _, h => wfA_desugar sg sc _ h
  | .end_ _, h => wfA_desugar sg sc _ h
  | .callSub _ _ _, h => wfA_desugar sg sc _ h
  | .exitProc _, h => wfA_desugar sg sc _ h

theorem toAst_proc (prog : SProgram) {f : Nat} {d' : ProcDecl Stmt} (h : prog.toAst.procs[f]? = some d') :
    ∃ d, prog.procs[f]? = some d ∧ d' = { d with body := desugar d.body } := by
  simp only [SProgram.toAst, List.getElem?_map] at h
  cases hd : prog.procs[f]? with
  | none => rw [hd] at h; cases h
  | some d => rw [hd] at h; simp only [Option.map_some, Option.some.injEq] at h; exact ⟨d, rfl, h.symm⟩

/-- the STATIC flags of the reference program are those of the faithful one -/
theorem stat_toAst (prog : SProgram) : prog.toAst.procs.map (·.static) = statOf prog := by
  simp only [SProgram.toAst, statOf, List.map_map]
  rfl

/-- the tables of a scope whose DIM SHARED table and STATIC flags are the program's -/
theorem tabs_of_scope (prog : SProgram) (sc : Scope) (hgl : sc.slots.glob = prog.gslots)
    (hst : sc.slots.stat = statOf prog) : sc.slots = tabs prog.toAst sc.slots.loc sc.slots.arrs := by
  obtain ⟨⟨l, g, a, st⟩, _, _, _, _⟩ := sc
  simp only at hgl hst
  subst hgl; subst hst
  simp only [tabs, stat_toAst]
  rfl

/-- the premises of the layer's simulation theorem (`ProgWf`, decidable as `progWfB`) and the range premise give what the
induction needs of the procedures -/
theorem procsGood_of (prog : SProgram) (hw : ProgWf prog) (hr : progRangeB prog.toAst = true) :
    ProcsGood prog.toAst (sigsOf prog.procs) := by
  refine ⟨?_, ?_⟩
  · simp only [sigsOf, SProgram.toAst, List.map_map]
    rfl
  · intro f d' hd'
    obtain ⟨d, hd, rfl⟩ := toAst_proc prog hd'
    obtain ⟨hso, _, hwf⟩ := hw.procs f d hd
    refine ⟨hso, ?_, ?_⟩
    · have h1 := wfA_desugar _ (procScope prog.gslots (statOf prog) f d []) d.body (hwf [])
      rw [tabs_of_scope prog (procScope prog.gslots (statOf prog) f d []) rfl rfl] at h1
      exact h1
    · simp only [progRangeB, Bool.and_eq_true, List.all_eq_true] at hr
      exact hr.1.2 _ (List.mem_of_getElem? hd')

/-! ### the property-level theorems -/

/-- what `Good` says about a single variable of the current scope (own or DIM SHARED) -/
theorem Good.var {P : Program} {sl al : List Ty} {s : St} (h : Good P sl al s) {x : Var} {t : Ty}
    (hx : (tabs P sl al).get? x = some t) : (s.get x t).tag = t ∧ (s.get x t).InRange := h.get hx

/-- what `Good` says about a single element of a dimensioned array of the activation: whatever the subscripts — stored or
not, inside the box or not — it reads as a value of the element type within its range; so does the array's default -/
theorem Good.elem {P : Program} {sl al : List Ty} {s : St} (h : Good P sl al s) {a : Nat} {t : Ty} {A : RArr}
    (ha : al[a]? = some t) (hA : s.arrs[a]? = some (some A)) (idx : List Int) :
    (A.get idx).tag = t ∧ (A.get idx).InRange ∧ (ArrL.zeroOf A.ty).tag = t ∧ (ArrL.zeroOf A.ty).InRange :=
  ⟨((h.arrs.2 a t A ha hA).get idx).1, ((h.arrs.2 a t A ha hA).get idx).2, (h.arrs.2 a t A ha hA).default⟩

/-- `GoodEnv` spelled out: the environment has one value per slot, of the slot's type, in range -/
theorem GoodEnv.slot {sl : List Ty} {env : List Val} (h : GoodEnv sl env) {x : Nat} {t : Ty} (hx : sl[x]? = some t) :
    ∃ v, env[x]? = some v ∧ v.tag = t ∧ v.InRange := by
  obtain ⟨v, hv, ht⟩ := h.1.2 x t hx
  exact ⟨v, hv, ht, h.2 v (List.mem_of_getElem? hv)⟩

/-- **`exec_inrange`** — every statement of the combined layer (the core language of `C06Core.exec_inrange`; SUB calls,
function calls in any expression, EXIT SUB / FUNCTION, DIM and DIM SHARED, the guarded DIM of STATIC procedures as in
`C06Proc.exec_inrange`; DIM / REDIM of arrays with run-time bounds, element assignment, element reads in any expression —
subscripts may call functions — and array elements as by-reference actuals), any amount of fuel, **any outcome**.  If
before the statement every slot of every store — the activation environment, the DIM SHARED table, the persistent
environment of every procedure — and every stored cell and the default of every dimensioned array of the activation holds a
value of its declared type within that type's range (`Good`), then afterwards: when the statement ends normally or with
EXIT SUB / FUNCTION the same holds, for the same activation; when it ends the run (END, a BASIC error, out of the exact
float domain, out of fuel, an array beyond the size limit — possibly many calls deep) it holds with the scope of the
activation the run ended in (`PostO`).
Hypotheses: `ProgWf` (the layer's decidable premise `progWfB`), `progRangeB` (literals and DATA items in range), the
statement is well formed in its scope and its literals are in range. -/
theorem exec_inrange (prog : SProgram) (hw : ProgWf prog) (hr : progRangeB prog.toAst = true)
    (sc : Scope) (hgl : sc.slots.glob = prog.gslots) (hst : sc.slots.stat = statOf prog) (stmt : SStmt)
    (hws : Wf (sigsOf prog.procs) sc stmt) (hrs : rangeB (desugar stmt) = true) (fuel : Nat) (s : St)
    (hg : Good prog.toAst sc.slots.loc sc.slots.arrs s) :
    PostO prog.toAst sc.slots.loc sc.slots.arrs (exec prog.toAst fuel (desugar stmt) s) := by
  have hwa := wfA_desugar _ sc stmt hws
  rw [tabs_of_scope prog sc hgl hst] at hwa
  exact (pres_all (procsGood_of prog hw hr) fuel).exec _ _ _ s hg hwa hrs

/-- `exec_inrange` read for a given result: whatever the outcome, the final state satisfies the invariant (for the scope
its activation belongs to); and for the starting scope when the outcome lets the run go on -/
theorem exec_inrange_any (prog : SProgram) (hw : ProgWf prog) (hr : progRangeB prog.toAst = true)
    (sc : Scope) (hgl : sc.slots.glob = prog.gslots) (hst : sc.slots.stat = statOf prog) (stmt : SStmt)
    (hws : Wf (sigsOf prog.procs) sc stmt) (hrs : rangeB (desugar stmt) = true) (fuel : Nat) (s s' : St) (o : Outcome)
    (hg : Good prog.toAst sc.slots.loc sc.slots.arrs s) (h : exec prog.toAst fuel (desugar stmt) s = (s', o)) :
    GoodSome prog.toAst s' ∧ (returns o = true → Good prog.toAst sc.slots.loc sc.slots.arrs s') := by
  have := exec_inrange prog hw hr sc hgl hst stmt hws hrs fuel s hg
  rw [h] at this
  refine ⟨this.any, fun ho => ?_⟩
  cases o <;> first | exact this | (simp [returns] at ho)

/-- **expressions with calls and element reads** (`ProcArr.Ref.eval`): a value comes with a state satisfying the invariant,
has the static type of the expression and is in range; an abrupt end comes with a state satisfying the invariant -/
theorem eval_inrange {P : Program} {sg : Sigs} (hP : ProcsGood P sg) (fuel : Nat) (sl al : List Ty) (e : ProcArr.Expr)
    (s : St) (hg : Good P sl al s) (hw : EWf sg (tabs P sl al) e) (hl : litsE e = true) :
    PostE P sl al (fun v => v.tag = e.ty ∧ v.InRange) (ProcArr.Ref.eval P fuel e s) :=
  (pres_all hP fuel).eval sl al e s hg hw hl

/-- **argument lists** (`ProcArr.Ref.evalArgs`): the values have the parameters' types and are in range, and an element
actual comes with a location in the array it names -/
theorem args_inrange {P : Program} {sg : Sigs} (hP : ProcsGood P sg) (fuel : Nat) (sl al : List Ty) (cs : Bool)
    (a : Args) (s : St) (hg : Good P sl al s) (hw : AWf sg (tabs P sl al) cs a) (hl : litsA a = true) :
    PostE P sl al (fun avs => avs.map (fun av => av.1.tag) = a.params.map (·.2) ∧ (∀ av ∈ avs, av.1.InRange) ∧
      LocsA a avs) (evalArgs P fuel a s) :=
  (pres_all hP fuel).evalArgs sl al cs a s hg hw hl

/-- **calls** (`ProcArr.Ref.call`): a call that returns leaves the caller's state satisfying the invariant (write-backs into
variables and array elements done), and the result of a FUNCTION with result type `t` is a value of type `t` in range -/
theorem call_inrange {P : Program} {sg : Sigs} (hP : ProcsGood P sg) (fuel : Nat) (sl al : List Ty) (f : Nat) (a : Args)
    (cs : Bool) (res : Option Ty) (s : St) (hg : Good P sl al s) (hs : sg[f]? = some (res, a.params))
    (hw : AWf sg (tabs P sl al) cs a) (hl : litsA a = true) :
    PostE P sl al (fun v => ∀ t, res = some t → v.tag = t ∧ v.InRange) (call P fuel f a s) :=
  (pres_all hP fuel).call sl al f a cs res s hg hs hw hl

/-- **`function_result_inrange`** — the value a FUNCTION with result type `t` returns is a value of type `t` within its
range, and the caller's state (variables, arrays, by-reference actuals written back) satisfies the invariant -/
theorem function_result_inrange {P : Program} {sg : Sigs} (hP : ProcsGood P sg) (fuel : Nat) (sl al : List Ty) (f : Nat)
    (a : Args) (cs : Bool) (t : Ty) (s s' : St) (v : Val) (hg : Good P sl al s) (hs : sg[f]? = some (some t, a.params))
    (hw : AWf sg (tabs P sl al) cs a) (hl : litsA a = true) (h : call P fuel f a s = (s', .ok v)) :
    v.tag = t ∧ v.InRange ∧ Good P sl al s' := by
  have := call_inrange hP fuel sl al f a cs (some t) s hg hs hw hl
  rw [h] at this
  exact ⟨(this.2 t rfl).1, (this.2 t rfl).2, this.1⟩

theorem good_start (prog : SProgram) (hr : progRangeB prog.toAst = true) :
    Good prog.toAst prog.slots prog.arrs (St.init prog.toAst) := by
  refine ⟨.inl ⟨rfl, rfl⟩, goodEnv_zero _, goodEnv_zero _, ?_, (fun f hf => by cases hf), goodArrs_none prog.arrs, ?_⟩
  · intro f d hd
    show GoodEnv d.slots (match prog.toAst.procs[f]? with | some d => d.slots.map zeroOf | none => [])
    rw [hd]
    exact goodEnv_zero _
  · simp only [progRangeB, Bool.and_eq_true, List.all_eq_true, decide_eq_true_eq] at hr
    exact hr.2

/-- **`run_inrange`** — whole programs with procedures and arrays: however the run ends — normally, with END or a BASIC
error anywhere (also inside a procedure, any number of calls deep), out of the exact float domain, out of fuel, with an
array beyond the size limit — every variable of the final state (activation environment, DIM SHARED table, every STATIC
procedure's persistent environment) and every stored cell and the default value of every dimensioned array of the final
activation holds a value of its declared type within that type's range; after a normal end the activation is the main
module's -/
theorem run_inrange (prog : SProgram) (fuel : Nat) (hw : ProgWf prog) (hr : progRangeB prog.toAst = true) :
    GoodSome prog.toAst (ProcArr.Ref.run fuel prog.toAst).1 ∧
    ((ProcArr.Ref.run fuel prog.toAst).2 = .normal →
      Good prog.toAst prog.slots prog.arrs (ProcArr.Ref.run fuel prog.toAst).1) := by
  have hwa := wfA_top _ (mainScope prog) prog.body hw.body
  rw [tabs_of_scope prog (mainScope prog) rfl rfl] at hwa
  have hrb : rangeB prog.toAst.body = true := by
    simp only [progRangeB, Bool.and_eq_true] at hr
    exact hr.1.1
  have := (pres_all (procsGood_of prog hw hr) fuel).exec prog.slots prog.arrs (desugar prog.body) (St.init prog.toAst)
    (good_start prog hr) hwa hrb
  show GoodSome prog.toAst (exec prog.toAst fuel (desugar prog.body) (St.init prog.toAst)).1 ∧ _
  generalize hrun : ProcArr.Ref.run fuel prog.toAst = r
  have hrun' : exec prog.toAst fuel (desugar prog.body) (St.init prog.toAst) = r := hrun
  rw [hrun'] at this ⊢
  obtain ⟨s', o⟩ := r
  exact ⟨this.any, fun ho => by simp only at ho; subst ho; exact this⟩

/-- `run_inrange` with the static premise in its decidable form -/
theorem run_inrange_checked (prog : SProgram) (fuel : Nat) (hw : RbModel.ProcArr.progWfB prog = true)
    (hr : progRangeB prog.toAst = true) :
    GoodSome prog.toAst (ProcArr.Ref.run fuel prog.toAst).1 ∧
    ((ProcArr.Ref.run fuel prog.toAst).2 = .normal →
      Good prog.toAst prog.slots prog.arrs (ProcArr.Ref.run fuel prog.toAst).1) :=
  run_inrange prog fuel (RbThm.ProcArrSim.progWfB_sound prog hw) hr

/-! ### conversions: what is stored / bound is the conversion of the source value, or the run stops with its error -/

/-- **Overflow instead of a value** (`evalTo`, the route of every assignment, element assignment, FOR start value and
by-value argument): converting a numeric value `q` of another static type to INTEGER or LONG stops with Overflow (6) at
the expression exactly when `q` rounded to the nearest whole number (ties away from zero) lies outside the target's range;
otherwise exactly that rounded number is the result -/
theorem evalTo_overflow_iff (P : Program) (n : Nat) (e : ProcArr.Expr) (pt : Ty) (s s1 : St) (v : Val) (q : Rat)
    (lo hi : Int) (ht : tyBounds pt = some (lo, hi)) (hne : e.ty ≠ pt)
    (hev : ProcArr.Ref.eval P n e s = (s1, .ok v)) (hq : v.toRat? = some q) (hv : v.InRange) :
    (evalTo P (n + 1) e pt s = (s1, .error (.error 6 e.pos)) ↔ ¬ (lo ≤ roundHA q ∧ roundHA q ≤ hi)) ∧
    ((lo ≤ roundHA q ∧ roundHA q ≤ hi) →
      ∃ w, evalTo P (n + 1) e pt s = (s1, .ok w) ∧ w.tag = pt ∧ w.toRat? = some ((roundHA q : Int) : Rat)) := by
  have hsc : storeCast e.ty pt v = Num.cast v pt := by simp [storeCast, hne]
  have hov := cast_overflow_iff v pt q lo hi ht hq hv
  have hto : evalTo P (n + 1) e pt s = liftR s1 e.pos (Num.cast v pt) := by simp [evalTo, hev, hsc]
  rw [hto]
  cases hc : Num.cast v pt with
  | ok w =>
    have hnot : ¬ Num.cast v pt = .err .overflow := by rw [hc]; simp
    have hin : lo ≤ roundHA q ∧ roundHA q ≤ hi := Classical.not_not.mp (fun hn => hnot (hov.mpr hn))
    refine ⟨⟨fun h => ?_, fun h => absurd hin h⟩, fun _ => ⟨w, rfl, (cast_sound v pt w hv hc).1,
      (cast_rounds v pt w q lo hi ht hq hv hc).1⟩⟩
    simp [liftR] at h
  | err er =>
    by_cases hov' : er = .overflow
    · subst hov'
      have hout := hov.mp hc
      exact ⟨⟨fun _ => hout, fun _ => rfl⟩, fun h => absurd h hout⟩
    · have hno : ¬ Num.cast v pt = .err .overflow := by rw [hc]; simpa using hov'
      have hin : lo ≤ roundHA q ∧ roundHA q ≤ hi := Classical.not_not.mp (fun hn => hno (hov.mpr hn))
      -- a non-Overflow error of a numeric conversion to a whole-number type does not exist
      exfalso
      cases pt <;> simp only [tyBounds, reduceCtorEq] at ht <;>
        cases v <;> simp only [Val.toRat?, reduceCtorEq] at hq <;>
        simp only [Num.cast, castRound, Res.bind] at hc <;>
        (repeat' split at hc) <;> simp_all
  | inexact =>
    refine ⟨⟨fun h => ?_, fun h => ?_⟩, fun h => ?_⟩
    · simp [liftR] at h
    · have := hov.mpr h; rw [hc] at this; cases this
    · exfalso
      cases pt <;> simp only [tyBounds, reduceCtorEq] at ht <;>
        cases v <;> simp only [Val.toRat?, reduceCtorEq] at hq <;>
        simp only [Val.InRange] at hv <;>
        simp only [Num.cast, castRound, Res.bind, hv, if_true] at hc <;>
        (repeat' split at hc) <;> simp_all

/-- **`elem_store_converts`** — `a(i…) = e`: with `v` the value of `e` (evaluated first, in state `s1`), either the
conversion of `v` to the array's element type (`storeCast`: identity when the static type of `e` is the element type, else
`Num.cast`: nearest whole number, ties away from zero) yields `w`, and then the subscripts are evaluated (they may call
functions: state `s2`) and — the array being dimensioned and the subscripts inside its box — exactly `w` is stored in
exactly that element (it reads back as `w`), while with a subscript outside the box or the array not dimensioned the
statement ends with Subscript out of range (9) at its own position and stores nothing; or the conversion fails with `er`
and the statement ends with the error code of `er` (Overflow = 6) at the position of `e` BEFORE the subscripts are looked
at, nothing stored; or the execution leaves the exact domain -/
theorem elem_store_converts (P : Program) (n a : Nat) (t : Ty) (idx : Exprs) (e : ProcArr.Expr) (p : Pos) (s s1 : St)
    (v : Val) (hev : ProcArr.Ref.eval P n e s = (s1, .ok v)) :
    (∃ w, storeCast e.ty t v = .ok w ∧
      (∀ s2 is A, evalIdx P (n + 1) idx s1 = (s2, .ok is) → s2.arrs[a]? = some (some A) → A.inBounds is = true →
        exec P (n + 2) (.assignElem a t idx e p) s = (s2.setArr a (A.set is w), .normal) ∧ (A.set is w).get is = w) ∧
      (∀ s2 is, evalIdx P (n + 1) idx s1 = (s2, .ok is) →
        (∀ A, s2.arrs[a]? = some (some A) → A.inBounds is = false) →
        exec P (n + 2) (.assignElem a t idx e p) s = (s2, .error codeSubscript p)) ∧
      (∀ s2 o, evalIdx P (n + 1) idx s1 = (s2, .error o) →
        exec P (n + 2) (.assignElem a t idx e p) s = (s2, o))) ∨
    (∃ er, storeCast e.ty t v = .err er ∧
      exec P (n + 2) (.assignElem a t idx e p) s = (s1, .error (codeOf er) e.pos)) ∨
    (storeCast e.ty t v = .inexact ∧ exec P (n + 2) (.assignElem a t idx e p) s = (s1, .inexact)) := by
  cases hc : storeCast e.ty t v with
  | ok w =>
    refine .inl ⟨w, rfl, ?_, ?_, ?_⟩
    · intro s2 is A hi hA hb
      exact ⟨by simp [exec, evalTo, hev, hc, liftR, hi, St.readElem, St.setElem, hA, hb],
        RbThm.ProcArrProps.rget_set_self A is w⟩
    · intro s2 is hi hA
      have hre : s2.readElem a is p = .error (.error codeSubscript p) := by
        unfold St.readElem
        split
        · next A hA' => simp [hA A hA']
        · rfl
      simp [exec, evalTo, hev, hc, liftR, hi, hre]
    · intro s2 o hi
      simp [exec, evalTo, hev, hc, liftR, hi]
  | err er => exact .inr (.inl ⟨er, rfl, by simp [exec, evalTo, hev, hc, liftR]⟩)
  | inexact => exact .inr (.inr ⟨rfl, by simp [exec, evalTo, hev, hc, liftR]⟩)

/-- the value an element assignment stores is of the element type and in range (given the invariant) -/
theorem elem_store_typed {P : Program} {sg : Sigs} (hP : ProcsGood P sg) (n : Nat) (sl al : List Ty) (t : Ty)
    (e : ProcArr.Expr) (s s1 : St) (v w : Val) (hg : Good P sl al s) (hw : EWf sg (tabs P sl al) e)
    (hl : litsE e = true) (hev : ProcArr.Ref.eval P n e s = (s1, .ok v)) (hc : storeCast e.ty t v = .ok w) :
    w.tag = t ∧ w.InRange := by
  have h := eval_inrange hP n sl al e s hg hw hl
  rw [hev] at h
  exact storeCast_typed e.ty t v w h.2.1 h.2.2 hc

/-- **`elem_overflow_iff`** — **Overflow instead of storing**: assigning a numeric value `q` of another static type to an
element of an INTEGER or LONG array stops with Overflow (6) at the expression exactly when `q` rounded to the nearest whole
number (ties away from zero) lies outside the element type's range — whatever the subscripts are (they are not even
evaluated), and nothing is stored (the state is the one the evaluation of `e` ended in); otherwise exactly that rounded
number is the value that is stored -/
theorem elem_overflow_iff (P : Program) (n a : Nat) (t : Ty) (idx : Exprs) (e : ProcArr.Expr) (p : Pos) (s s1 : St)
    (v : Val) (q : Rat) (lo hi : Int) (ht : tyBounds t = some (lo, hi)) (hne : e.ty ≠ t)
    (hev : ProcArr.Ref.eval P n e s = (s1, .ok v)) (hq : v.toRat? = some q) (hv : v.InRange) :
    (evalTo P (n + 1) e t s = (s1, .error (.error 6 e.pos)) ↔ ¬ (lo ≤ roundHA q ∧ roundHA q ≤ hi)) ∧
    (evalTo P (n + 1) e t s = (s1, .error (.error 6 e.pos)) →
      exec P (n + 2) (.assignElem a t idx e p) s = (s1, .error 6 e.pos)) ∧
    ((lo ≤ roundHA q ∧ roundHA q ≤ hi) →
      ∃ w, evalTo P (n + 1) e t s = (s1, .ok w) ∧ w.tag = t ∧ w.toRat? = some ((roundHA q : Int) : Rat)) := by
  obtain ⟨h1, h2⟩ := evalTo_overflow_iff P n e t s s1 v q lo hi ht hne hev hq hv
  exact ⟨h1, fun h => by simp [exec, h], h2⟩

/-! ### parameters -/

/-- **one by-value argument** (anything but a plain variable of the parameter's type or an array element): with `v` the
value of the argument expression, either its conversion to the parameter's type yields `w`, and `w` is the value the
parameter receives, with no location; or the conversion fails with `er` and the evaluation of the argument ends with the
error code of `er` (Overflow = 6) at the argument's position, in the state `s1` reached by evaluating the argument
expression; or the execution leaves the exact domain -/
theorem arg_converted (P : Program) (n : Nat) (e : ProcArr.Expr) (pt : Ty) (s s1 : St) (v : Val)
    (hne : e.isElem = false) (hev : ProcArr.Ref.eval P n e s = (s1, .ok v)) :
    (∃ w, storeCast e.ty pt v = .ok w ∧ evalArg P (n + 2) e pt s = (s1, .ok (w, none))) ∨
    (∃ er, storeCast e.ty pt v = .err er ∧ evalArg P (n + 2) e pt s = (s1, .error (.error (codeOf er) e.pos))) ∨
    (storeCast e.ty pt v = .inexact ∧ evalArg P (n + 2) e pt s = (s1, .error .inexact)) := by
  cases hc : storeCast e.ty pt v with
  | ok w =>
    refine .inl ⟨w, rfl, ?_⟩
    cases e <;> first | (simp [evalArg, evalTo, hev, hc, liftR]; done) | (simp [Expr.isElem] at hne)
  | err er =>
    refine .inr (.inl ⟨er, rfl, ?_⟩)
    cases e <;> first | (simp [evalArg, evalTo, hev, hc, liftR]; done) | (simp [Expr.isElem] at hne)
  | inexact =>
    refine .inr (.inr ⟨rfl, ?_⟩)
    cases e <;> first | (simp [evalArg, evalTo, hev, hc, liftR]; done) | (simp [Expr.isElem] at hne)

/-- **an array element as actual**: passed to a parameter of its own type (what the linter demands of a by-reference
actual) the element's value is passed unconverted, together with the location `(a, is)` the subscripts denote now -/
theorem elem_arg_by_reference (P : Program) (n a : Nat) (idx : Exprs) (t : Ty) (p : Pos) (s s1 : St) (v : Val)
    (is : List Int) (hev : evalElem P n a idx p s = (s1, .ok (v, is))) :
    evalArg P (n + 1) (.elem a idx t p) t s = (s1, .ok (v, some (a, is))) := by
  simp [evalArg, hev, storeCast, liftR]

/-- **Overflow instead of binding**: passing a numeric value `q` of another static type by value to an INTEGER or LONG
parameter stops with Overflow (6) at the argument exactly when `q` rounded to the nearest whole number (ties away from
zero) lies outside the parameter's range; otherwise exactly that rounded number is what the parameter receives -/
theorem arg_overflow_iff (P : Program) (n : Nat) (e : ProcArr.Expr) (pt : Ty) (s s1 : St) (v : Val) (q : Rat)
    (lo hi : Int) (ht : tyBounds pt = some (lo, hi)) (hne : e.ty ≠ pt)
    (hev : ProcArr.Ref.eval P n e s = (s1, .ok v)) (hq : v.toRat? = some q) (hv : v.InRange) :
    (evalTo P (n + 1) e pt s = (s1, .error (.error 6 e.pos)) ↔ ¬ (lo ≤ roundHA q ∧ roundHA q ≤ hi)) ∧
    ((lo ≤ roundHA q ∧ roundHA q ≤ hi) →
      ∃ w, evalTo P (n + 1) e pt s = (s1, .ok w) ∧ w.tag = pt ∧ w.toRat? = some ((roundHA q : Int) : Rat)) :=
  evalTo_overflow_iff P n e pt s s1 v q lo hi ht hne hev hq hv

/-- **a failed argument conversion is never stored**: when the evaluation of the argument list ends abruptly (an Overflow
of a by-value conversion, a subscript of an element actual out of range, any other error), the call ends the same way in
the same state — the body is not entered, no parameter is bound, nothing is written back -/
theorem call_arg_error_stores_nothing (P : Program) (n f : Nat) (d : ProcDecl Stmt) (args : Args) (s s1 : St)
    (o : Outcome) (hd : P.procs[f]? = some d) (h : evalArgs P n args s = (s1, .error o)) :
    call P (n + 1) f args s = (s1, .error o) := by
  simp [call, hd, h]

/-- at entry the parameter slots hold the evaluated arguments -/
theorem param_bound (d : ProcDecl Stmt) (f : Nat) (vals : List Val) (s1 : St) (i : Nat) (hi : i < vals.length)
    (hlen : vals.length ≤ d.params.length) : (enter d f vals s1).locals[i]? = vals[i]? := by
  cases hs : d.static with
  | true =>
    rw [RbThm.ProcArrProps.enter_static_locals d f vals s1 hs i (Or.inl (by simp only [ProcDecl.resultSlot]; omega))]
    exact RbThm.ProcArrSim.rebind_get_lt _ _ _ hi
  | false =>
    have he : enter d f vals s1 = enterCore d f vals s1 := by simp [enter, hs]
    rw [he]
    simp only [enterCore, hs, Bool.false_eq_true, if_false, St.locals]
    exact RbThm.ProcArrSim.freshEnv_get_lt _ _ _ hi

/-- **`param_by_value_converted`** — when the arguments of a call of procedure `f` have been evaluated to `avs` (each value
the conversion of the argument's value to its parameter's type: `arg_converted`, `elem_arg_by_reference`), the body starts
with parameter `i` holding the `i`-th value, a value of the parameter's declared type within that type's range — and with
none of the callee's arrays dimensioned; an argument that does not fit never gets that far (`arg_overflow_iff`,
`call_arg_error_stores_nothing`) -/
theorem param_by_value_converted {P : Program} {sg : Sigs} (hP : ProcsGood P sg) (n : Nat) (sl al : List Ty) (f : Nat)
    (d : ProcDecl Stmt) (a : Args) (cs : Bool) (res : Option Ty) (s s1 : St) (avs : List (Val × Option Loc))
    (hg : Good P sl al s) (hs : sg[f]? = some (res, a.params)) (hw : AWf sg (tabs P sl al) cs a)
    (hl : litsA a = true) (hd : P.procs[f]? = some d) (h : evalArgs P n a s = (s1, .ok avs)) :
    Good P d.slots d.arrs (enter d f (avs.map (·.1)) s1) ∧
    ∀ (i : Nat) (pn : String) (pt : Ty), d.params[i]? = some (pn, pt) →
      ∃ w : Val, (avs.map (·.1))[i]? = some w ∧ (enter d f (avs.map (·.1)) s1).locals[i]? = some w ∧
        d.slots[i]? = some pt ∧ w.tag = pt ∧ w.InRange := by
  have h1 := args_inrange hP n sl al cs a s hg hw hl
  rw [h] at h1
  obtain ⟨hg1, htags0, hrs0, _⟩ := h1
  obtain ⟨_, hps⟩ := sig_of_proc hP hd hs
  generalize hvals : avs.map (·.1) = vals
  have htags : vals.map Val.tag = d.params.map (·.2) := by
    rw [← hvals, List.map_map, ← hps, ← htags0]; rfl
  have hrs : ∀ v ∈ vals, v.InRange := by
    intro v hv
    rw [← hvals] at hv
    simp only [List.mem_map] at hv
    obtain ⟨av, hav, rfl⟩ := hv
    exact hrs0 av hav
  have hlen : vals.length = d.params.length := by
    have := congrArg List.length htags
    simpa using this
  refine ⟨good_enter hP hg1 hd vals htags hrs, ?_⟩
  intro i pn pt hi
  have hip : i < d.params.length := (List.getElem?_eq_some_iff.mp hi).1
  have hiv : i < vals.length := by omega
  refine ⟨vals[i], List.getElem?_eq_getElem hiv, ?_, (hP.procs f d hd).1.1 i pn pt hi, ?_, hrs _ (List.getElem_mem hiv)⟩
  · rw [param_bound d f vals s1 i hiv (by omega)]; exact List.getElem?_eq_getElem hiv
  · have h1 : (vals.map Val.tag)[i]? = some vals[i].tag := by
      rw [List.getElem?_map, List.getElem?_eq_getElem hiv]; rfl
    rw [htags, List.getElem?_map, hi] at h1
    simpa using h1.symm

/-- **an array element passed by reference receives the callee's final parameter value, in range**: copy-out of ONE
element actual `a(…)` bound to parameter `i` (declared at the element type `t` of the array), at the location `(a, is)`
its subscripts denoted when the argument was evaluated — with the array dimensioned and `is` inside its box (which
`evalElem` checked then) the element reads back as exactly the value `callee[i]` the parameter held when the callee
returned, that value is a value of type `t` within `t`'s range, and the caller's state still satisfies the invariant -/
theorem elem_byref_receives_param {P : Program} {sl al dsl : List Ty} {callee : List Val} {s : St}
    (hg : Good P sl al s) (hc : GoodEnv dsl callee) (a : Nat) (idx : Exprs) (t : Ty) (p : Pos) (is : List Int) (i : Nat)
    (A : RArr) (ha : al[a]? = some t) (hi : dsl[i]? = some t) (hA : s.arrs[a]? = some (some A)) :
    let v := callee.getD i (zeroOf t)
    let s' := writeOne (.elem a idx t p) (some (a, is)) v s
    v.tag = t ∧ v.InRange ∧ Good P sl al s' ∧
      ∃ A', s'.arrs[a]? = some (some A') ∧ A'.get is = v ∧ A'.bounds = A.bounds := by
  intro v s'
  obtain ⟨ht, hr⟩ := hc.getD hi (zeroOf t)
  refine ⟨ht, hr, ?_, ?_⟩
  · show Good P sl al (s.setElem a is v)
    exact hg.setElem ha is ht hr
  · have hlt : a < s.arrs.length := (List.getElem?_eq_some_iff.mp hA).1
    refine ⟨A.set is v, ?_, RbThm.ProcArrProps.rget_set_self A is v, rfl⟩
    show (s.setElem a is v).arrs[a]? = _
    simp only [St.setElem, hA, St.setArr]
    exact List.getElem?_set_self hlt

open RbModel.ProcArr.Spec (elemAt elemLocs argTy) in
/-- what `Good` says about an element read through `Spec.elemAt` (dimensioned array, subscripts inside the box) -/
theorem Good.elemAt {P : Program} {sl al : List Ty} {s : St} (h : Good P sl al s) {a : Nat} {is : List Int} {v : Val}
    (hv : elemAt s a is = some v) : ∃ t, al[a]? = some t ∧ v.tag = t ∧ v.InRange := by
  unfold RbModel.ProcArr.Spec.elemAt at hv
  cases hA : s.arrs[a]? with
  | none => rw [hA] at hv; simp at hv
  | some oA =>
    cases oA with
    | none => rw [hA] at hv; simp at hv
    | some A =>
      rw [hA] at hv
      simp only [Option.join_some] at hv
      have hlt : a < al.length := by rw [← h.arrs.1]; exact (List.getElem?_eq_some_iff.mp hA).1
      refine ⟨al[a], List.getElem?_eq_getElem hlt, ?_⟩
      have hgA := h.arrs.2 a al[a] A (List.getElem?_eq_getElem hlt) hA
      split at hv
      · injection hv with hv; subst hv; exact hgA.get is
      · cases hv

open RbModel.ProcArr.Spec (elemAt elemLocs argTy) in
/-- **`elem_byref_call_inrange`** — the new case of `byref_writeback_inrange`, read on a whole call: a call that returns
is — arguments evaluated once (`evalArgs`, yielding for every element actual the location `(a, is)` its subscripts denote
THEN), the body, the copy-out — and afterwards the caller's state satisfies the invariant, and every ARRAY ELEMENT passed by
reference (the last actual bound to its location: the rightmost wins on aliasing) holds exactly the callee's final value of
its parameter (`ProcArrProps.element_byref_writeback`), which is a value of the array's declared element type within that
type's range -/
theorem elem_byref_call_inrange {P : Program} {sg : Sigs} (hP : ProcsGood P sg) (fuel : Nat) (sl al : List Ty) (f : Nat)
    (args : Args) (cs : Bool) (res : Option Ty) (s s' : St) (r : Val) (hg : Good P sl al s)
    (hs : sg[f]? = some (res, args.params)) (hw : AWf sg (tabs P sl al) cs args) (hl : litsA args = true)
    (h : call P (fuel + 1) f args s = (s', .ok r)) :
    ∃ d s1 avs s2 o, P.procs[f]? = some d ∧ evalArgs P fuel args s = (s1, .ok avs) ∧
      exec P fuel d.body (enter d f (avs.map (·.1)) s1) = (s2, o) ∧ returns o = true ∧ Good P sl al s' ∧
      ∀ i a is, (i, (a, is)) ∈ elemLocs args avs 0 →
        (∀ j l, (j, l) ∈ elemLocs args avs 0 → i < j → l ≠ (a, is)) →
        ∃ t, al[a]? = some t ∧ elemAt s' a is = some (s2.locals.getD i (zeroOf (argTy args i))) ∧
          (s2.locals.getD i (zeroOf (argTy args i))).tag = t ∧ (s2.locals.getD i (zeroOf (argTy args i))).InRange := by
  obtain ⟨d, s1, avs, s2, o, hd, ha, hb, ho, hloc, _, _, _⟩ :=
    RbThm.ProcArrProps.element_byref_writeback P fuel f args s s' r h
  have hgs' : Good P sl al s' := by
    have := call_inrange hP (fuel + 1) sl al f args cs res s hg hs hw hl
    rw [h] at this
    exact this.1
  refine ⟨d, s1, avs, s2, o, hd, ha, hb, ho, hgs', ?_⟩
  intro i a is hm hlast
  have e := hloc i a is hm hlast
  obtain ⟨t, hat, ht, hr⟩ := hgs'.elemAt e
  exact ⟨t, hat, e, ht, hr⟩

/-! ### to the VM model, through the simulation theorem of the layer -/

namespace ToVm
open RbThm.ProcArrSim RbThm.ProcArrLen RbModel.ProcArr.Compile RbModel.ProcArr.Vm

/-- the invariant read on a state of the VM model that runs the main module: the context stack is the main module's block
alone; every declared variable of the main module, every DIM SHARED variable and every variable of every STATIC
procedure's persistent block reads (a variable that was never created reads as zero) as a value of its declared type within
that type's range; and every element the VM can read from every dimensioned array of the main module (row-major vector +
`abs_index`) is a value of the array's element type within its range -/
structure VmGood (prog : SProgram) (τ : Vm) : Prop where
  main : ∃ b : Block, τ.ctx = [.frame b] ∧ τ.curFrame = some b.vars ∧
    (∀ x t, prog.slots[x]? = some t → (getVar b.vars x t).tag = t ∧ (getVar b.vars x t).InRange) ∧
    (∀ (a : Nat) (t : Ty) (V : VArr), prog.arrs[a]? = some t → b.arrs[a]?.join = some V →
      ∀ (idx : List Int) (v : Val), Arr.getElem V idx = some v → v.tag = t ∧ v.InRange)
  glob : ∀ x t, prog.gslots[x]? = some t → (getVar τ.glob x t).tag = t ∧ (getVar τ.glob x t).InRange
  stat : ∀ f d, prog.procs[f]? = some d → d.static = true → ∀ x t, d.slots[x]? = some t →
    (ogetVar (τ.statics f) x t).tag = t ∧ (ogetVar (τ.statics f) x t).InRange

/-- `ProcArr.compile_correct` for a run that ends normally, keeping the state relation at the final `Halt` (the proof of
`ProcArrSim.compile_correct_of`, which states the output only) -/
theorem compile_correct_rel (prog : SProgram) (fuel : Nat) (hw : ProgWf prog) (s' : ProcArr.Ref.St)
    (hrun : ProcArr.Ref.run fuel prog.toAst = (s', .normal)) :
    ∃ τ, Steps (compile prog) Vm.init τ ∧ Vm.step (compile prog) τ = .halt τ ∧
      Rel (world prog) (mainScope prog) [] [] s' τ := by
  have hst : ∀ fuel, StmtIH (world prog) fuel :=
    fun f => (ih_all (world prog) prog.procs (procsOk_world prog hw) f).stmt
  have hall2 : CodeAt (compile prog) 0
      (compileStmt (layout prog) "" 0 0 0 (seqOf (datas prog.body ++ others prog.body)) ++ [(.halt, maxPos)] ++
        compileProcs (layout prog) (sizeStmt 0 0 (seqOf (datas prog.body ++ others prog.body)) + 1) prog.procs) := by
    intro i _; rw [Nat.zero_add]; rfl
  have hbody := hall2.append_left.append_left
  rw [code_seqOf_append] at hbody
  have hcd := hbody.append_left
  have hco := hbody.append_right
  rw [len_stmt, Nat.zero_add] at hco
  have hhalt := hall2.append_left.append_right.head
  rw [len_stmt, size_seqOf_append, Nat.zero_add] at hhalt
  obtain ⟨σ1, st1, hp1, hd1, hcx1, hk1⟩ :=
    data_list (compile prog) (layout prog) "" (datas prog.body) (datas_isData prog.body) 0 Vm.init (.frame Block.empty) []
      hcd rfl rfl
  rw [Nat.zero_add] at hp1
  have hrel : Rel (world prog) (mainScope prog) [] [] (startSt prog) σ1 := by
    refine ⟨trivial, rfl, ⟨Block.empty, by rw [hcx1]; rfl, ?_, frameRel_init (mainScope prog) rfl, ?_, rfl⟩,
      typed_init prog.slots, rfl, ?_,
      ?_, typed_init prog.gslots, ?_, ?_, by rw [hk1.out]; rfl, ?_, by rw [hk1.dataIdx]; rfl, by rw [hk1.queue]; rfl,
      by rw [hk1.funRes]; rfl, by rw [hk1.arrA]; rfl⟩
    · unfold Vm.curFrame; rw [hcx1]; rfl
    · exact arrsRel_init prog.arrs
    · show statOf prog = (prog.procs.map fun d => { d with body := desugar d.body }).map (·.static)
      rw [List.map_map]; rfl
    · rw [hk1.glob]; exact tabRel_init prog.gslots
    · intro f d hd hs
      have e1 : σ1.statics f = none := by rw [hk1.statics]; rfl
      have e2 : (startSt prog).statics f = d.slots.map zeroOf := by
        show (match (world prog).P.procs[f]? with | some d => d.slots.map zeroOf | none => []) = _
        rw [hd]
      rw [e1, e2]
      exact statRel_init d.slots
    · intro f h
      simp [mainScope] at h
    · rw [hd1, ← dataOf_eq]; simp [Vm.init, startSt, ProcArr.Ref.St.init, SProgram.toAst]
  have hact : ActInv (mainScope prog) 0 0 σ1 :=
    ⟨fun _ => by rw [hk1.skipNewline]; rfl, fun h => by simp [mainScope] at h⟩
  have hs : StmtPost (world prog) (mainScope prog) [] 0 0 _ _ σ1
      (ProcArr.Ref.exec prog.toAst fuel (desugar prog.body) (startSt prog)) :=
    top_spec (world prog) (mainScope prog) hst prog.body hw.body fuel _ [] (startSt prog) σ1 hco hp1 hrel hact
  rw [run_eq] at hrun
  rw [hrun] at hs
  obtain ⟨τ, st, hp, hrel', _⟩ := hs
  refine ⟨τ, st1.trans st, ?_, hrel'⟩
  have : (compile prog)[τ.pc]? = some (CInstr.halt, maxPos) := by rw [hp]; exact hhalt
  simp only [Vm.step, this]

/-- the state relation of the simulation carries the invariant over -/
theorem vmGood_of_rel (prog : SProgram) (s' : ProcArr.Ref.St) (τ : Vm)
    (hrel : Rel (world prog) (mainScope prog) [] [] s' τ) (hg : Good prog.toAst prog.slots prog.arrs s') :
    VmGood prog τ := by
  obtain ⟨b, hctx, hcur, hfr, harr, _⟩ := hrel.ctx
  refine ⟨⟨b, hctx, hcur, ?_, ?_⟩, ?_, ?_⟩
  · intro x t hx
    rw [hfr.get x t hx]
    exact hg.loc.getD hx _
  · intro a t V ha hV idx v hgv
    rcases harr.at_ a t ha with ⟨_, h2⟩ | ⟨A, V', h1, h2, h3⟩
    · rw [h2] at hV; cases hV
    · have hVV : V = V' := by rw [h2] at hV; injection hV with hV; exact hV.symm
      subst hVV
      have hbox := (RbThm.C04.getElem_some_iff h3.wf idx).mp ⟨v, hgv⟩
      rw [h3.dims] at hbox
      have := h3.get idx hbox
      rw [hgv] at this
      injection this with this
      rw [this]
      exact (hg.arrs.2 a t A ha h1).get idx
  · intro x t hx
    rw [hrel.glob x t hx]
    exact hg.glob.getD hx _
  · intro f d hd hs x t hx
    have hd' : (world prog).P.procs[f]? = some { d with body := desugar d.body } := by
      simp only [world, SProgram.toAst, List.getElem?_map, hd, Option.map_some]
    have h1 := (hrel.stat f _ hd' hs).get x t hx
    rw [h1]
    exact (hg.stat f _ hd').getD hx _

/-- **`procarr_run_inrange`** — corollary over the simulation theorem of the combined layer (`ProcArr.compile_correct`,
`Thm/ProcArrSim.lean`): when the reference run of a well-formed program ends normally, the VM model running the code the
generator model emits reaches `Halt` with the same output and with every declared variable — main module, DIM SHARED,
every STATIC procedure's persistent block — and every readable element of every dimensioned array of the main module
holding a value of its declared type within that type's range -/
theorem procarr_run_inrange (prog : SProgram) (fuel : Nat) (hw : ProgWf prog) (hr : progRangeB prog.toAst = true) :
    match ProcArr.Ref.run fuel prog.toAst with
    | (s', .normal) => ∃ τ, Steps (compile prog) Vm.init τ ∧ Vm.step (compile prog) τ = .halt τ ∧
        τ.out = s'.out ∧ VmGood prog τ
    | _ => True := by
  have h2 := run_inrange prog fuel hw hr
  generalize hrun : ProcArr.Ref.run fuel prog.toAst = r at h2
  obtain ⟨s', o⟩ := r
  cases o with
  | normal =>
    obtain ⟨τ, st, hh, hrel⟩ := compile_correct_rel prog fuel hw s' hrun
    exact ⟨τ, st, hh, hrel.out, vmGood_of_rel prog s' τ hrel (h2.2 rfl)⟩
  | exited => trivial
  | halted => trivial
  | error c p => trivial
  | inexact => trivial
  | outOfFuel => trivial
  | illFormed => trivial
  | tooBig => trivial

/-- `procarr_run_inrange` for the bounded interpreter `ProcArr.Vm.run` the correspondence check executes against the real
VM, with the premises in their decidable forms -/
theorem procarr_run_inrange_checked (prog : SProgram) (fuel : Nat) (hw : progWfB prog = true)
    (hr : progRangeB prog.toAst = true) :
    match ProcArr.Ref.run fuel prog.toAst with
    | (s', .normal) => ∃ n υ, (∀ m, n ≤ m → Vm.run (compile prog) m Vm.init = .halted υ) ∧ υ.out = s'.out ∧
        VmGood prog υ
    | _ => True := by
  have h := procarr_run_inrange prog fuel (progWfB_sound prog hw) hr
  generalize ProcArr.Ref.run fuel prog.toAst = r at h ⊢
  obtain ⟨s', o⟩ := r
  cases o with
  | normal =>
    obtain ⟨τ, st, hh, ho, hg⟩ := h
    obtain ⟨n, hn⟩ := run_of_steps _ st hh
    exact ⟨n, τ, fun m hm => by obtain ⟨ω, h1, h2⟩ := hn m hm; rw [h1, h2], ho, hg⟩
  | exited => trivial
  | halted => trivial
  | error c p => trivial
  | inexact => trivial
  | outOfFuel => trivial
  | illFormed => trivial
  | tooBig => trivial

end ToVm

/-! ### non-vacuity: a program that exercises the routes by which a value reaches a variable or an element of this layer

    DIM A%(1 TO 3)
    I% = 2
    A%(I%) = 2.5                 ' stores 3 (ties away from zero)
    S A%(I%), I%, 70000.5        ' X% = the ELEMENT A%(2) by reference, K% = I% by reference; C& by value: 70001
    A%(1) = 40000.5              ' Overflow (6) at the expression, nothing stored
    SUB S(X%, K%, C&) : K% = 3 : X% = X% + 1 : END SUB
-/

def demoCall : SStmt :=
  .callSub 0 (.cons (.elem 0 (.cons (.var ⟨false, 0⟩ .int ⟨4, 6⟩) .nil) .int ⟨4, 3⟩) "X" .int
    (.cons (.var ⟨false, 0⟩ .int ⟨4, 11⟩) "K" .int
      (.cons (.lit (.sgl (140001 / 2)) ⟨4, 15⟩) "C" .long .nil))) ⟨4, 1⟩

def demo : SProgram :=
  { slots := [.int],
    gslots := [],
    arrs := [.int],
    body :=
      .seq (.dimArr 0 .int (.cons (some (.lit (.int 1) ⟨1, 9⟩)) (.lit (.int 3) ⟨1, 14⟩) .nil) ⟨1, 5⟩)
      (.seq (.assign ⟨false, 0⟩ .int (.lit (.int 2) ⟨2, 6⟩) ⟨2, 1⟩)
      (.seq (.assignElem 0 .int (.cons (.var ⟨false, 0⟩ .int ⟨3, 4⟩) .nil) (.lit (.sgl (5 / 2)) ⟨3, 10⟩) ⟨3, 1⟩)
      (.seq demoCall
      (.seq (.assignElem 0 .int (.cons (.lit (.int 1) ⟨5, 4⟩) .nil) (.lit (.sgl (80001 / 2)) ⟨5, 9⟩) ⟨5, 1⟩) .skip)))),
    procs :=
      [ { result := none, name := "S", params := [("X", .int), ("K", .int), ("C", .long)], slots := [.int, .int, .long],
          body :=
            .seq (.assign ⟨false, 1⟩ .int (.lit (.int 3) ⟨6, 25⟩) ⟨6, 20⟩)
            (.seq (.assign ⟨false, 0⟩ .int (.bin .plus (.var ⟨false, 0⟩ .int ⟨6, 34⟩) (.lit (.int 1) ⟨6, 39⟩) .int ⟨6, 37⟩)
                    ⟨6, 29⟩) .skip),
          pos := ⟨6, 1⟩ } ] }

/-- the hypotheses of `run_inrange` / `procarr_run_inrange` hold for the demo program (both are decidable) -/
example : RbModel.ProcArr.progWfB demo = true ∧ progRangeB demo.toAst = true := by
  constructor <;> decide +kernel

def isOverflowAt (o : Outcome) (row col : Nat) : Bool :=
  match o with
  | .error 6 p => p.row == row && p.col == col
  | _ => false

def elemOf (s : St) (a : Nat) (idx : List Int) : Option Val :=
  match s.arrs[a]? with
  | some (some A) => some (A.get idx)
  | _ => none

/-- and its run ends with Overflow at the right-hand side `40000.5` of the last element assignment (5:9), with `I% = 3`
(written back), `A%(2) = 4` (2.5 rounded to 3 when stored, passed by reference, incremented by the callee and written back
to the element the subscript denoted BEFORE the call), `A%(1) = 0` (nothing stored), `A%(3) = 0` -/
example : isOverflowAt (ProcArr.Ref.run 40 demo.toAst).2 5 9 = true ∧
    (ProcArr.Ref.run 40 demo.toAst).1.env = [.int 3] ∧
    elemOf (ProcArr.Ref.run 40 demo.toAst).1 0 [1] = some (.int 0) ∧
    elemOf (ProcArr.Ref.run 40 demo.toAst).1 0 [2] = some (.int 4) ∧
    elemOf (ProcArr.Ref.run 40 demo.toAst).1 0 [3] = some (.int 0) := by
  decide +kernel

/-- the demo program without its last statement -/
def demoOk : SProgram :=
  { demo with
    body :=
      SStmt.seq (.dimArr 0 .int (.cons (some (.lit (.int 1) ⟨1, 9⟩)) (.lit (.int 3) ⟨1, 14⟩) .nil) ⟨1, 5⟩)
      (.seq (.assign ⟨false, 0⟩ .int (.lit (.int 2) ⟨2, 6⟩) ⟨2, 1⟩)
      (.seq (.assignElem 0 .int (.cons (.var ⟨false, 0⟩ .int ⟨3, 4⟩) .nil) (.lit (.sgl (5 / 2)) ⟨3, 10⟩) ⟨3, 1⟩)
      (.seq demoCall .skip))) }

/-- it ends normally: the `normal` branch of `procarr_run_inrange` is inhabited too -/
example : RbModel.ProcArr.progWfB demoOk = true ∧ progRangeB demoOk.toAst = true ∧
    (ProcArr.Ref.run 40 demoOk.toAst).2 matches .normal := by
  refine ⟨?_, ?_, ?_⟩ <;> decide +kernel

/-- … so `procarr_run_inrange_checked` applies to it at every fuel -/
example (fuel : Nat) :
    match ProcArr.Ref.run fuel demoOk.toAst with
    | (s', .normal) => ∃ n υ, (∀ m, n ≤ m →
        RbModel.ProcArr.Vm.run (RbModel.ProcArr.Compile.compile demoOk) m RbModel.ProcArr.Vm.Vm.init = .halted υ) ∧
        υ.out = s'.out ∧ ToVm.VmGood demoOk υ
    | _ => True :=
  ToVm.procarr_run_inrange_checked demoOk fuel (by decide +kernel) (by decide +kernel)

end RbThm.C06ProcArr
