import Thm.ProcArrSimBase
/-!
Procedures + arrays layer, simulation part — whole programs: the statement hypothesis (`StmtIH` at every fuel, proved
case by case in the other `Thm/ProcArrSim*.lean` files) lifted to `ProcArr.Compile.compile` / `ProcArr.Ref.run`.

`compile` emits the top-level DATA statements of the main module first (`move_data_statements_first`), then the other
top-level statements, then `Halt`, then the procedures at their layout addresses.  The DATA phase fills the VM's data
segment with `dataOf body` and touches nothing else; the reference semantics, which treats DATA as `skip`, is followed
along the ORIGINAL top-level structure (so no fuel bookkeeping is needed for the flattening); the procedures' code is
where `layout` says (`procs_at`), which gives `ProcsOk` for the world of the program.
-/
namespace RbThm.ProcArrSim
set_option linter.unusedVariables false
set_option linter.unusedSimpArgs false
open RbModel RbModel.Num RbModel.ProcArr RbModel.ProcArr.Compile RbModel.ProcArr.Vm
open RbModel.Ast (Pos)
open RbThm.ProcArrLen

/-- the top-level DATA statements, in program order -/
def datas (body : SStmt) : List SStmt := (topLevel body).filter isData

/-- the other top-level statements, in program order -/
def others (body : SStmt) : List SStmt := (topLevel body).filter (fun s => !isData s)

theorem compile_eq (prog : SProgram) :
    compile prog =
      compileStmt (layout prog) "" 0 0 0 (seqOf (datas prog.body ++ others prog.body)) ++ [(.halt, maxPos)] ++
        compileProcs (layout prog) (sizeStmt 0 0 (seqOf (datas prog.body ++ others prog.body)) + 1) prog.procs := rfl

/-- induction over the top-level sequence structure of a statement: `seq` nodes, and everything else -/
theorem top_induction {P : SStmt → Prop} (hseq : ∀ a b, P a → P b → P (.seq a b))
    (hatom : ∀ st, (∀ a b, st ≠ .seq a b) → P st) : ∀ st, P st
  | .seq a b => hseq a b (top_induction hseq hatom a) (top_induction hseq hatom b)
  | .skip => hatom _ (by intro a b h; cases h)
  | .comment => hatom _ (by intro a b h; cases h)
  | .dim _ _ _ => hatom _ (by intro a b h; cases h)
  | .sdim _ _ _ => hatom _ (by intro a b h; cases h)
  | .assign _ _ _ _ => hatom _ (by intro a b h; cases h)
  | .dimArr _ _ _ _ => hatom _ (by intro a b h; cases h)
  | .assignElem _ _ _ _ _ => hatom _ (by intro a b h; cases h)
  | .print _ _ => hatom _ (by intro a b h; cases h)
  | .data _ _ => hatom _ (by intro a b h; cases h)
  | .read _ _ => hatom _ (by intro a b h; cases h)
  | .ifBlock _ _ _ _ _ _ => hatom _ (by intro a b h; cases h)
  | .select _ _ _ _ _ => hatom _ (by intro a b h; cases h)
  | .forLoop _ _ _ _ _ _ _ => hatom _ (by intro a b h; cases h)
  | .while _ _ _ => hatom _ (by intro a b h; cases h)
  | .doLoop _ _ _ _ _ => hatom _ (by intro a b h; cases h)
  | .end_ _ => hatom _ (by intro a b h; cases h)
  | .callSub _ _ _ => hatom _ (by intro a b h; cases h)
  | .exitProc _ => hatom _ (by intro a b h; cases h)

theorem dataOf_eq : ∀ body : SStmt, dataOf body = (datas body).flatMap dataOf := by
  refine top_induction ?_ ?_
  · intro a b iha ihb
    simp only [datas] at iha ihb ⊢
    simp only [dataOf, topLevel, List.filter_append, List.flatMap_append, ← iha, ← ihb]
  · intro st hns
    cases st with
    | seq a b => exact absurd rfl (hns a b)
    | data items p => simp [datas, dataOf, topLevel, isData, List.filter]
    | _ => simp [datas, dataOf, topLevel, isData]

theorem datas_isData (body : SStmt) : ∀ x ∈ datas body, isData x = true := by
  intro x hx
  simp only [datas, List.mem_filter] at hx
  exact hx.2

theorem size_seqOf_append (l1 l2 : List SStmt) :
    sizeStmt 0 0 (seqOf (l1 ++ l2)) = sizeStmt 0 0 (seqOf l1) + sizeStmt 0 0 (seqOf l2) := by
  induction l1 with
  | nil => simp [seqOf, sizeStmt]
  | cons a rest ih => simp only [List.cons_append, seqOf, sizeStmt, ih]; omega

theorem code_seqOf_append (lay : Layout) (sfx : String) : ∀ (l1 l2 : List SStmt) (off : Nat),
    compileStmt lay sfx 0 0 off (seqOf (l1 ++ l2)) =
      compileStmt lay sfx 0 0 off (seqOf l1) ++ compileStmt lay sfx 0 0 (off + sizeStmt 0 0 (seqOf l1)) (seqOf l2) := by
  intro l1
  induction l1 with
  | nil => intro l2 off; simp [seqOf, compileStmt, sizeStmt]
  | cons a rest ih =>
    intro l2 off
    simp only [List.cons_append, seqOf, compileStmt, sizeStmt, ih, List.append_assoc, Nat.add_assoc]

/-! ### the statement hypothesis along the top-level structure -/

theorem others_seq (a b : SStmt) : others (.seq a b) = others a ++ others b := by
  simp only [others, topLevel, List.filter_append]

/-- the reference semantics runs the body as written (DATA = `skip`); the code is that of the non-DATA top-level
statements in order -/
theorem top_spec (W : World) (sc : Scope) (hst : ∀ fuel, StmtIH W fuel) : ∀ (b : SStmt), WfTop W.sg sc b →
    ∀ (fuel off : Nat) (below : List CtxState) (s : St) (σ : Vm),
    CodeAt W.code off (compileStmt W.lay "" 0 0 off (seqOf (others b))) → σ.pc = off → Rel W sc [] below s σ →
    ActInv sc 0 0 σ →
    StmtPost W sc below 0 0 (sizeStmt 0 0 (seqOf (others b))) off σ (ProcArr.Ref.exec W.P fuel (desugar b) s) := by
  refine top_induction ?_ ?_
  · intro a b iha ihb hw fuel off below s σ hc hpc hr ha
    simp only [WfTop] at hw
    cases fuel with
    | zero => simp only [desugar, ProcArr.Ref.exec, StmtPost]
    | succ fuel =>
      rw [others_seq, code_seqOf_append] at hc
      rw [others_seq, size_seqOf_append]
      have h1 := iha hw.1 fuel off below s σ hc.append_left hpc hr ha
      simp only [desugar, ProcArr.Ref.exec]
      generalize ProcArr.Ref.exec W.P fuel (desugar a) s = ra at h1 ⊢
      obtain ⟨s1, o1⟩ := ra
      cases o1 with
      | normal =>
        obtain ⟨τ, st, hp, hrel, hss⟩ := h1
        have hcb := hc.append_right
        rw [len_stmt] at hcb
        have h2 := ihb hw.2 fuel _ below s1 τ hcb hp hrel (ha.of_same hss)
        simp only
        exact StmtPost.of_steps st hss (h2.addr (by omega))
      | exited => exact h1
      | halted => exact h1
      | error c p => exact h1
      | inexact => trivial
      | outOfFuel => trivial
      | tooBig => trivial
      | illFormed => exact h1
  · intro st hns hw fuel off below s σ hc hpc hr ha
    have hskip : ∀ (st' : SStmt), others st' = [] → desugar st' = .skip →
        StmtPost W sc below 0 0 (sizeStmt 0 0 (seqOf (others st'))) off σ
          (ProcArr.Ref.exec W.P fuel (desugar st') s) := by
      intro st' ho hd
      rw [ho, hd]
      cases fuel with
      | zero => simp only [ProcArr.Ref.exec, StmtPost]
      | succ fuel =>
        simp only [ProcArr.Ref.exec, StmtPost, seqOf, sizeStmt, Nat.add_zero]
        exact ⟨σ, Steps.refl σ, hpc, hr, SameStacks.refl σ⟩
    have hatom : others st = [st] → Wf W.sg sc st →
        StmtPost W sc below 0 0 (sizeStmt 0 0 (seqOf (others st))) off σ
          (ProcArr.Ref.exec W.P fuel (desugar st) s) := by
      intro ho hwf
      rw [ho] at hc ⊢
      simp only [seqOf, compileStmt] at hc
      have := hst fuel sc st "" 0 0 off below s σ hc.append_left hpc hr hwf ha
      exact this.addr (by simp only [seqOf, sizeStmt]; omega)
    cases st with
    | seq a b => exact absurd rfl (hns a b)
    | skip => exact hskip _ (by simp [others, topLevel]) rfl
    | data items p => exact hskip _ (by simp [others, topLevel, isData]) rfl
    | comment => exact hatom (by simp [others, topLevel, isData]) (by simpa only [WfTop] using hw)
    | dim x t p => exact hatom (by simp [others, topLevel, isData]) (by simpa only [WfTop] using hw)
    | sdim x t p => exact hatom (by simp [others, topLevel, isData]) (by simpa only [WfTop] using hw)
    | assign x t e p => exact hatom (by simp [others, topLevel, isData]) (by simpa only [WfTop] using hw)
    | dimArr a t dims p => exact hatom (by simp [others, topLevel, isData]) (by simpa only [WfTop] using hw)
    | assignElem a t idx e p => exact hatom (by simp [others, topLevel, isData]) (by simpa only [WfTop] using hw)
    | print items p => exact hatom (by simp [others, topLevel, isData]) (by simpa only [WfTop] using hw)
    | read vars p => exact hatom (by simp [others, topLevel, isData]) (by simpa only [WfTop] using hw)
    | ifBlock c thn elifs hasElse els p =>
      exact hatom (by simp [others, topLevel, isData]) (by simpa only [WfTop] using hw)
    | select e cases hasElse els p =>
      exact hatom (by simp [others, topLevel, isData]) (by simpa only [WfTop] using hw)
    | forLoop x t lo hi step body p =>
      exact hatom (by simp [others, topLevel, isData]) (by simpa only [WfTop] using hw)
    | «while» c body p => exact hatom (by simp [others, topLevel, isData]) (by simpa only [WfTop] using hw)
    | doLoop c top u body p => exact hatom (by simp [others, topLevel, isData]) (by simpa only [WfTop] using hw)
    | end_ p => exact hatom (by simp [others, topLevel, isData]) (by simpa only [WfTop] using hw)
    | callSub f args p => exact hatom (by simp [others, topLevel, isData]) (by simpa only [WfTop] using hw)
    | exitProc p => exact hatom (by simp [others, topLevel, isData]) (by simpa only [WfTop] using hw)

/-! ### the DATA phase -/

/-- what the code of a DATA statement leaves alone (it changes the program counter, A, the data segment and —
temporarily — the context stack) -/
structure DKeeps (σ τ : Vm) : Prop where
  regStack : τ.regStack = σ.regStack
  vals : τ.vals = σ.vals
  paths : τ.paths = σ.paths
  glob : τ.glob = σ.glob
  statics : τ.statics = σ.statics
  out : τ.out = σ.out
  skipNewline : τ.skipNewline = σ.skipNewline
  dataIdx : τ.dataIdx = σ.dataIdx
  queue : τ.queue = σ.queue
  funRes : τ.funRes = σ.funRes
  arrA : τ.arrA = σ.arrA
  rets : τ.rets = σ.rets
  marks : τ.marks = σ.marks
  trace : τ.trace = σ.trace

theorem DKeeps.refl (σ : Vm) : DKeeps σ σ := ⟨rfl, rfl, rfl, rfl, rfl, rfl, rfl, rfl, rfl, rfl, rfl, rfl, rfl, rfl⟩

theorem DKeeps.trans {a b c : Vm} (h₁ : DKeeps a b) (h₂ : DKeeps b c) : DKeeps a c :=
  ⟨h₂.regStack.trans h₁.regStack, h₂.vals.trans h₁.vals, h₂.paths.trans h₁.paths, h₂.glob.trans h₁.glob,
    h₂.statics.trans h₁.statics, h₂.out.trans h₁.out,
    h₂.skipNewline.trans h₁.skipNewline, h₂.dataIdx.trans h₁.dataIdx, h₂.queue.trans h₁.queue,
    h₂.funRes.trans h₁.funRes, h₂.arrA.trans h₁.arrA, h₂.rets.trans h₁.rets, h₂.marks.trans h₁.marks, h₂.trace.trans h₁.trace⟩

/-- `(LoadIntoA v; PushUnnamedByVal)*`: the items of a DATA statement join the collecting state -/
theorem data_items (code : Code) (f : Val × Pos → Code)
    (hf : ∀ it, f it = [(CInstr.loadA it.1, it.2), (CInstr.pushByVal, it.2)]) :
    ∀ (items : List (Val × Pos)) (off : Nat) (σ : Vm) (vs : List (Val × Option Path)) (rest : List CtxState),
      CodeAt code off (items.flatMap f) → σ.pc = off → σ.ctx = .args vs :: rest →
      ∃ τ, Steps code σ τ ∧ τ.pc = off + 2 * items.length ∧
        τ.ctx = .args (vs ++ items.map (fun it => (it.1, none))) :: rest ∧ τ.data = σ.data ∧ DKeeps σ τ := by
  intro items
  induction items with
  | nil =>
    intro off σ vs rest _ hpc hcx
    exact ⟨σ, Steps.refl σ, by simp [hpc], by simp [hcx], rfl, DKeeps.refl σ⟩
  | cons it items ih =>
    intro off σ vs rest hc hpc hcx
    rw [List.flatMap_cons, hf it] at hc
    subst hpc
    have h0 : code[σ.pc]? = some (CInstr.loadA it.1, it.2) := hc.append_left.head
    have h1 : code[σ.pc + 1]? = some (CInstr.pushByVal, it.2) := hc.append_left.tail.head
    let σ1 : Vm := Vm.advance (Vm.setA σ it.1)
    let σ2 : Vm := Vm.advance { σ1 with ctx := .args (vs ++ [(it.1, none)]) :: rest }
    have s1 : Vm.step code σ = .next σ1 := by simp only [Vm.step, h0]; rfl
    have s2 : Vm.step code σ1 = .next σ2 := by
      simp only [Vm.step, σ1, Vm.advance, Vm.setA, h1, pushArg, hcx]; rfl
    have hcr : CodeAt code (σ.pc + 2) (items.flatMap f) := by
      have := hc.append_right
      simpa using this
    obtain ⟨τ, st, hp, hcx', hd, hk⟩ := ih (σ.pc + 2) σ2 (vs ++ [(it.1, none)]) rest hcr rfl rfl
    refine ⟨τ, Steps.cons s1 (Steps.cons s2 st), ?_, ?_, ?_, ?_⟩
    · rw [hp]; simp only [List.length_cons]; omega
    · rw [hcx']; simp
    · exact hd
    · exact DKeeps.trans (show DKeeps σ σ2 from ⟨rfl, rfl, rfl, rfl, rfl, rfl, rfl, rfl, rfl, rfl, rfl, rfl, rfl, rfl⟩) hk

theorem mapM_id_some : ∀ (vs : List Val), (vs.map some).mapM id = some vs
  | [] => rfl
  | v :: rest => by
    simp only [List.map_cons, List.mapM_cons, id, mapM_id_some rest]
    rfl

/-- the block `PushStack` builds from the collected DATA items holds exactly their values -/
theorem mapM_id_items (items : List (Val × Pos)) :
    ((items.map (fun it => (it.1, (none : Option Path)))).map (fun a => some a.1)).mapM id = some (items.map (·.1)) := by
  rw [List.map_map, ← mapM_id_some (items.map (·.1)), List.map_map]
  rfl

/-- one DATA statement: `BeginCollectArguments; (LoadIntoA v; PushUnnamedByVal)*; PushStack; BuiltInSub Data;
PopStack` appends its items to the data segment -/
theorem data_stmt (code : Code) (lay : Layout) (items : List (Val × Pos)) (p : Pos) (sfx : String) (off : Nat)
    (σ : Vm) (c : CtxState) (rest : List CtxState)
    (hc : CodeAt code off (compileStmt lay sfx 0 0 off (.data items p))) (hpc : σ.pc = off)
    (hcx : σ.ctx = c :: rest) :
    ∃ τ, Steps code σ τ ∧ τ.pc = off + sizeStmt 0 0 (.data items p) ∧ τ.data = σ.data ++ items.map (·.1) ∧
      τ.ctx = σ.ctx ∧ DKeeps σ τ := by
  simp only [compileStmt] at hc
  subst hpc
  have h0 : code[σ.pc]? = some (CInstr.beginArgs, p) := hc.append_left.append_left.head
  let σ1 : Vm := Vm.advance { σ with ctx := .args [] :: σ.ctx }
  have s1 : Vm.step code σ = .next σ1 := by simp only [Vm.step, h0]; rfl
  have hci := hc.append_left.append_right
  simp only [List.length_singleton] at hci
  obtain ⟨τ1, st1, hp1, hcx1, hd1, hk1⟩ :=
    data_items code _ (fun it => rfl) items (σ.pc + 1) σ1 [] σ.ctx hci rfl rfl
  have hct := hc.append_right
  have hl := flatMap_const_len (fun x : Val × Pos => [(CInstr.loadA x.fst, x.snd), (CInstr.pushByVal, x.snd)]) 2
    (fun _ => rfl) items
  simp only [List.length_append, List.length_singleton, hl] at hct
  have e : σ.pc + (1 + 2 * items.length) = τ1.pc := by rw [hp1]; omega
  rw [e] at hct
  have h2 : code[τ1.pc]? = some (CInstr.pushStack, p) := hct.head
  have h3 : code[τ1.pc + 1]? = some (CInstr.builtInData, p) := hct.tail.head
  have h4 : code[τ1.pc + 1 + 1]? = some (CInstr.popStack, p) := hct.tail.tail.head
  simp only [List.nil_append] at hcx1
  let τ2 : Vm := Vm.advance { τ1 with ctx := .frame ⟨(items.map (fun it => (it.1, (none : Option Path)))).map (fun a => some a.1), [],
    (items.map (fun it => (it.1, (none : Option Path)))).map (·.2)⟩ :: σ.ctx, trace := p :: τ1.trace }
  let τ3 : Vm := Vm.advance { τ2 with data := τ2.data ++ items.map (·.1) }
  let τ4 : Vm := Vm.advance { τ3 with ctx := c :: rest, trace := τ1.trace }
  have s2 : Vm.step code τ1 = .next τ2 := by simp only [Vm.step, h2, hcx1]; rfl
  have s3 : Vm.step code τ2 = .next τ3 := by
    simp only [Vm.step, τ2, Vm.advance, h3, mapM_id_items]; rfl
  have s4 : Vm.step code τ3 = .next τ4 := by
    simp only [Vm.step, τ3, τ2, Vm.advance, h4, hcx]; rfl
  refine ⟨τ4, (Steps.cons s1 st1).trans (Steps.cons s2 (Steps.cons s3 (Steps.one s4))), ?_, ?_, hcx.symm, ?_⟩
  · simp only [τ4, τ3, τ2, Vm.advance, hp1, sizeStmt]; omega
  · simp only [τ4, τ3, τ2, Vm.advance, hd1, σ1]
  · exact DKeeps.trans (DKeeps.trans (show DKeeps σ σ1 from ⟨rfl, rfl, rfl, rfl, rfl, rfl, rfl, rfl, rfl, rfl, rfl, rfl, rfl, rfl⟩) hk1)
      (show DKeeps τ1 τ4 from ⟨rfl, rfl, rfl, rfl, rfl, rfl, rfl, rfl, rfl, rfl, rfl, rfl, rfl, rfl⟩)

/-- the hoisted DATA statements, run in order, build the data segment -/
theorem data_list (code : Code) (lay : Layout) (sfx : String) : ∀ (l : List SStmt), (∀ x ∈ l, isData x = true) →
    ∀ (off : Nat) (σ : Vm) (c : CtxState) (rest : List CtxState),
      CodeAt code off (compileStmt lay sfx 0 0 off (seqOf l)) → σ.pc = off → σ.ctx = c :: rest →
      ∃ τ, Steps code σ τ ∧ τ.pc = off + sizeStmt 0 0 (seqOf l) ∧ τ.data = σ.data ++ l.flatMap dataOf ∧
        τ.ctx = σ.ctx ∧ DKeeps σ τ := by
  intro l
  induction l with
  | nil =>
    intro _ off σ c rest _ hpc _
    exact ⟨σ, Steps.refl σ, by simp [seqOf, sizeStmt, hpc], by simp, rfl, DKeeps.refl σ⟩
  | cons a l ih =>
    intro hall off σ c rest hc hpc hcx
    have hd : isData a = true := hall a (by simp)
    cases a with
    | data items p =>
      have hc : CodeAt code off (compileStmt lay sfx 0 0 off (.data items p) ++
          compileStmt lay sfx 0 0 (off + sizeStmt 0 0 (.data items p)) (seqOf l)) := by
        simpa only [seqOf, compileStmt] using hc
      obtain ⟨τ1, st1, hp1, hd1, hcx1, hk1⟩ := data_stmt code lay items p sfx off σ c rest hc.append_left hpc hcx
      have hcr := hc.append_right
      rw [len_stmt] at hcr
      obtain ⟨τ2, st2, hp2, hd2, hcx2, hk2⟩ :=
        ih (fun x hx => hall x (by simp [hx])) _ τ1 c rest hcr hp1 (by rw [hcx1, hcx])
      refine ⟨τ2, st1.trans st2, ?_, ?_, by rw [hcx2, hcx1], DKeeps.trans hk1 hk2⟩
      · rw [hp2]; simp only [seqOf, sizeStmt]; omega
      · rw [hd2, hd1]; simp [List.flatMap_cons, dataOf]
    | _ => simp [isData] at hd

/-! ### the procedures are where the layout says -/

theorem procs_at (lay0 : Layout) (code : Code) : ∀ (procs : List (ProcDecl SStmt)) (off : Nat),
    CodeAt code off (compileProcs lay0 off procs) → ∀ (f : Nat) (d : ProcDecl SStmt), procs[f]? = some d →
    CodeAt code ((layoutFrom off procs).addr f) (compileProc lay0 ((layoutFrom off procs).addr f) d)
  | [], _, _, f, d, h => by simp at h
  | d0 :: rest, off, hc, 0, d, h => by
    simp only [List.getElem?_cons_zero, Option.some.injEq] at h
    subst h
    simp only [compileProcs] at hc
    simpa [layoutFrom, Layout.addr] using hc.append_left
  | d0 :: rest, off, hc, f + 1, d, h => by
    simp only [List.getElem?_cons_succ] at h
    simp only [compileProcs] at hc
    have hcr := hc.append_right
    rw [len_proc] at hcr
    have := procs_at lay0 code rest (off + sizeProc d0) hcr f d h
    simpa [layoutFrom, Layout.addr] using this

/-- the layout records the STATIC flag of every procedure -/
theorem layoutFrom_static : ∀ (procs : List (ProcDecl SStmt)) (off : Nat) (f : Nat) (d : ProcDecl SStmt),
    procs[f]? = some d → ((layoutFrom off procs).getD f (0, false)).2 = d.static
  | [], _, f, d, h => by simp at h
  | d0 :: rest, off, 0, d, h => by
    simp only [List.getElem?_cons_zero, Option.some.injEq] at h
    subst h
    simp [layoutFrom]
  | d0 :: rest, off, f + 1, d, h => by
    simp only [List.getElem?_cons_succ] at h
    have := layoutFrom_static rest (off + sizeProc d0) f d h
    simpa [layoutFrom] using this

/-! ### the program theorem -/

/-- the start state of the reference semantics -/
def startSt (prog : SProgram) : St := ProcArr.Ref.St.init prog.toAst

theorem run_eq (prog : SProgram) (fuel : Nat) :
    ProcArr.Ref.run fuel prog.toAst = ProcArr.Ref.exec prog.toAst fuel (desugar prog.body) (startSt prog) := rfl

theorem typed_init (sl : List Ty) : Typed sl (sl.map zeroOf) := by
  refine ⟨by simp, ?_⟩
  intro x t hx
  exact ⟨zeroOf t, by simp [List.getElem?_map, hx], by cases t <;> rfl⟩

theorem tabRel_init (sl : List Ty) : TabRel sl [] (sl.map zeroOf) := by
  intro x t hx
  simp [getVar, List.getD, List.getElem?_map, hx]

theorem frameRel_init (sc : Scope) (hnp : sc.np = 0) : FrameRel sc [] (sc.slots.loc.map zeroOf) :=
  ⟨tabRel_init sc.slots.loc, fun i hi => by omega⟩

/-- no array of the main module is dimensioned at the start -/
theorem arrsRel_init (al : List Ty) : ArrsRel al (al.map fun _ => none) [] := by
  refine ⟨by simp, ?_⟩
  intro a t ha
  exact Or.inl ⟨by simp [List.getElem?_map, ha], by simp⟩

/-- a block that does not exist yet represents the all-zero environment -/
theorem statRel_init (sl : List Ty) : StatRel sl none (sl.map zeroOf) := by
  refine ⟨typed_init sl, ?_⟩
  intro x t hx
  simp [ogetVar, List.getD, List.getElem?_map, hx]

/-- the procedures of a well-formed program are `ProcsOk` in the program's world -/
theorem procsOk_world (prog : SProgram) (hw : ProgWf prog) : ProcsOk (world prog) prog.procs := by
  refine ⟨rfl, rfl, ?_, fun f d hd => layoutFrom_static prog.procs _ f d hd, hw.procs⟩
  intro f d hd
  have hall : CodeAt (compile prog) 0
      (compileStmt (layout prog) "" 0 0 0 (seqOf (datas prog.body ++ others prog.body)) ++ [(.halt, maxPos)] ++
        compileProcs (layout prog) (sizeStmt 0 0 (seqOf (datas prog.body ++ others prog.body)) + 1) prog.procs) := by
    intro i _; rw [Nat.zero_add]; rfl
  have hcp := hall.append_right
  simp only [List.length_append, List.length_singleton, len_stmt, Nat.zero_add] at hcp
  exact procs_at (layout prog) (compile prog) prog.procs _ hcp f d hd

/-- **the whole-program theorem, given the induction hypothesis at every fuel** (assembled in `Thm/ProcSim.lean`): for
every well-formed program with procedures and every amount of fuel, if the reference semantics ends normally or with
END, the VM model running the generator model's code from the initial state reaches a `Halt` with the same output; if it
ends with BASIC error `c` at position `p`, the VM stops with error `c` at `p` with the same output; and the reference
semantics never answers `exited` or `illFormed` -/
theorem compile_correct_of (prog : SProgram) (fuel : Nat) (hw : ProgWf prog)
    (hst : ∀ fuel, StmtIH (world prog) fuel) :
    match ProcArr.Ref.run fuel prog.toAst with
    | (s', .normal) => HaltsWith (compile prog) Vm.init s'.out
    | (s', .halted) => HaltsWith (compile prog) Vm.init s'.out
    | (s', .error c p) => ErrsWith (compile prog) Vm.init c p s'.out
    | (_, .inexact) => True
    | (_, .outOfFuel) => True
    | (_, .tooBig) => True
    | (_, .exited) => False
    | (_, .illFormed) => False := by
  have hall2 : CodeAt (compile prog) 0
      (compileStmt (layout prog) "" 0 0 0 (seqOf (datas prog.body ++ others prog.body)) ++ [(.halt, maxPos)] ++
        compileProcs (layout prog) (sizeStmt 0 0 (seqOf (datas prog.body ++ others prog.body)) + 1) prog.procs) := by
    intro i _; rw [Nat.zero_add]; rfl
  have hbody := hall2.append_left.append_left
  rw [code_seqOf_append] at hbody
  have hcd := hbody.append_left
  have hco := hbody.append_right
  rw [len_stmt, Nat.zero_add] at hco
  have hhalt := hall2.append_left.append_right.head
  rw [len_stmt, size_seqOf_append, Nat.zero_add] at hhalt
  -- DATA phase
  obtain ⟨σ1, st1, hp1, hd1, hcx1, hk1⟩ :=
    data_list (compile prog) (layout prog) "" (datas prog.body) (datas_isData prog.body) 0 Vm.init (.frame Block.empty) []
      hcd rfl rfl
  rw [Nat.zero_add] at hp1
  have hrel : Rel (world prog) (mainScope prog) [] [] (startSt prog) σ1 := by
    refine ⟨trivial, rfl, ⟨Block.empty, by rw [hcx1]; rfl, ?_, frameRel_init (mainScope prog) rfl, ?_, rfl⟩,
      typed_init prog.slots, rfl, ?_,
      ?_, typed_init prog.gslots, ?_, ?_, by rw [hk1.out]; rfl, ?_, by rw [hk1.dataIdx]; rfl, by rw [hk1.queue]; rfl,
      by rw [hk1.funRes]; rfl, by rw [hk1.arrA]; rfl⟩
    · unfold Vm.curFrame; rw [hcx1]; rfl
    · exact arrsRel_init prog.arrs
    · show statOf prog = (prog.procs.map fun d => { d with body := desugar d.body }).map (·.static)
      rw [List.map_map]; rfl
    · rw [hk1.glob]; exact tabRel_init prog.gslots
    · intro f d hd hs
      have e1 : σ1.statics f = none := by rw [hk1.statics]; rfl
      have e2 : (startSt prog).statics f = d.slots.map zeroOf := by
        show (match (world prog).P.procs[f]? with | some d => d.slots.map zeroOf | none => []) = _
        rw [hd]
      rw [e1, e2]
      exact statRel_init d.slots
    · intro f h
      simp [mainScope] at h
    · rw [hd1, ← dataOf_eq]; simp [Vm.init, startSt, ProcArr.Ref.St.init, SProgram.toAst]
  have hact : ActInv (mainScope prog) 0 0 σ1 :=
    ⟨fun _ => by rw [hk1.skipNewline]; rfl, fun h => by simp [mainScope] at h⟩
  have hs : StmtPost (world prog) (mainScope prog) [] 0 0 _ _ σ1
      (ProcArr.Ref.exec prog.toAst fuel (desugar prog.body) (startSt prog)) :=
    top_spec (world prog) (mainScope prog) hst prog.body hw.body fuel _ [] (startSt prog) σ1 hco hp1 hrel hact
  rw [run_eq]
  generalize ProcArr.Ref.exec prog.toAst fuel (desugar prog.body) (startSt prog) = r at hs ⊢
  obtain ⟨s', o⟩ := r
  cases o with
  | normal =>
    obtain ⟨τ, st, hp, hrel', _⟩ := hs
    refine ⟨τ, τ, st1.trans st, ?_, hrel'.out⟩
    have : (compile prog)[τ.pc]? = some (CInstr.halt, maxPos) := by rw [hp]; exact hhalt
    simp only [Vm.step, this]
  | halted => exact HaltsWith.of_steps st1 hs
  | error c p => exact ErrsWith.of_steps st1 hs
  | inexact => trivial
  | outOfFuel => trivial
  | tooBig => trivial
  | exited =>
    obtain ⟨τ, st, hx, _⟩ := hs
    obtain ⟨a, m, h1, _, _⟩ := hx.ret
    rw [hk1.rets] at h1
    simp [Vm.init] at h1
  | illFormed => exact hs

end RbThm.ProcArrSim
