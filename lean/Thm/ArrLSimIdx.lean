import Thm.ArrLSimBase
/-!
Arrays layer, simulation part — subscript evaluation onto the var-path (`compileIdx` vs `Ref.evalIdx`): every
subscript is `PushAToValueStack · ⟦e⟧ [Cast %] · VarPathIndex · PopValueStackIntoA`; the path on top of the path stack
grows by the converted subscript, register A (the value to be stored, when the path is an assignment target) is saved
and restored.
-/
namespace RbThm.ArrLSim
set_option linter.unusedVariables false
set_option linter.unusedSimpArgs false
open RbModel RbModel.Num RbModel.ArrL RbModel.ArrL.Compile RbModel.ArrL.Vm
open RbModel.Ast (Pos)
open RbThm.ArrLLen RbThm.ArrLNum

theorem case_idx_nil (code : Code) (sc : Scope) : IdxSpec code sc .nil := by
  intro off s σ pth rest hc hpc hr hw hp
  simp only [ArrL.Ref.evalIdx, IdxPost, compileIdx, List.length_nil, Nat.add_zero]
  exact ⟨σ, Steps.refl σ, hpc, rfl, hr, by rw [hp]; simp, rfl, rfl, rfl, rfl, id⟩

theorem case_idx_cons (code : Code) (sc : Scope) (e : ArrL.Expr) (rest : Exprs) (hE : ExprSpec code sc e)
    (hI : IdxSpec code sc rest) : IdxSpec code sc (.cons e rest) := by
  intro off s σ pth prest hc hpc hr hw hpaths
  simp only [IdxWf] at hw
  obtain ⟨hwe, hwr⟩ := hw
  simp only [compileIdx] at hc
  have hpush : code[σ.pc]? = some (CInstr.pushA, e.pos) := by
    rw [hpc]; exact hc.append_left.append_left.append_left.append_left.head
  have hce : CodeAt code (off + 1) (compileExpr e) := by
    have := hc.append_left.append_left.append_left.append_right
    simpa using this
  have hcc : CodeAt code (off + 1 + (compileExpr e).length)
      (if e.ty = .int then [] else [(CInstr.cast .int, e.pos)]) := by
    have := hc.append_left.append_left.append_right
    simp only [List.length_append, List.length_singleton] at this
    exact this.at (by omega)
  -- push A
  let σ1 : Vm := Vm.advance { σ with vals := σ.regs.a :: σ.vals }
  have s1 : Vm.step code σ = .next σ1 := by simp only [Vm.step, hpush]; rfl
  have hr1 : Rel sc s σ1 := hr.same rfl rfl rfl rfl rfl rfl rfl
  have he := hE (off + 1) s σ1 hce (by simp [σ1, Vm.advance, hpc]) hr1 hwe
  simp only [ArrL.Ref.evalIdx]
  generalize ArrL.Ref.eval s.env s.arrs e = r at he ⊢
  cases r with
  | err c p => exact ErrsWith.of_steps (Steps.one s1) he
  | inexact => trivial
  | illFormed => trivial
  | ok v =>
    obtain ⟨τ, st, hp, ha, hrel, hss, htag⟩ := he
    have hct := cast_tail code sc s e.ty .int e.pos τ v (by rw [hp]; exact hcc) hrel ha htag
    simp only [ArrL.Ref.ERes.bind]
    have pre : Steps code σ τ := (Steps.one s1).trans st
    cases hsc : storeCast e.ty .int v with
    | err er =>
      simp only [hsc, ArrL.Ref.lift, ExprPost] at hct
      simp only [ArrL.Ref.toIndex, ArrL.Ref.ERes.bind, IdxPost]
      exact ErrsWith.of_steps pre hct
    | inexact => simp only [ArrL.Ref.toIndex, ArrL.Ref.ERes.bind, IdxPost]
    | ok w =>
      simp only [hsc, ArrL.Ref.lift, ExprPost] at hct
      obtain ⟨υ, st2, hp2, ha2, hrel2, hss2, htag2⟩ := hct
      cases w with
      | long _ => cases htag2
      | sgl _ => cases htag2
      | dbl _ => cases htag2
      | str _ => cases htag2
      | int i =>
        simp only [ArrL.Ref.toIndex, ArrL.Ref.ERes.bind]
        -- VarPathIndex, PopValueStackIntoA
        have hlen : (if e.ty = .int then ([] : Code) else [(CInstr.cast .int, e.pos)]).length =
            if e.ty = .int then 0 else 1 := by
          by_cases h : e.ty = .int <;> simp [h]
        have hpi : code[υ.pc]? = some (CInstr.pathIndex, e.pos) := by
          have := hc.append_left.append_right.head
          simp only [List.length_append, List.length_singleton, hlen] at this
          rw [hp2, hp, ← this]; congr 1; omega
        have hpop : code[υ.pc + 1]? = some (CInstr.popA, e.pos) := by
          have := hc.append_left.append_right.tail.head
          simp only [List.length_append, List.length_singleton, hlen] at this
          rw [hp2, hp, ← this]; congr 1; omega
        have hpaths2 : υ.paths = pth :: prest := by
          rw [hss2.paths, hss.paths]; exact hpaths
        have hvals2 : υ.vals = σ.regs.a :: σ.vals := by
          rw [hss2.vals, hss.vals]; rfl
        let υ1 : Vm := Vm.advance { υ with paths := { pth with idx := pth.idx ++ [i] } :: prest }
        let υ2 : Vm := Vm.advance { Vm.setRA υ1 σ.regs.a with vals := σ.vals }
        have s2 : Vm.step code υ = .next υ1 := by
          simp only [Vm.step, hpi, ha2, hpaths2]; rfl
        have s3 : Vm.step code υ1 = .next υ2 := by
          simp only [Vm.step, υ1, Vm.advance, hpop, hvals2]; rfl
        have hr3 : Rel sc s υ2 := hrel2.same rfl rfl rfl rfl rfl rfl rfl
        have hcr : CodeAt code υ2.pc (compileIdx rest) := by
          have := hc.append_right
          simp only [List.length_append, List.length_singleton, List.length_cons, List.length_nil, hlen] at this
          refine this.at ?_
          simp only [υ2, υ1, Vm.advance, Vm.setRA, hp2, hp]; omega
        have hrest := hI υ2.pc s υ2 { pth with idx := pth.idx ++ [i] } prest hcr rfl hr3 hwr rfl
        have pre2 : Steps code σ υ2 := pre.trans (st2.trans (Steps.cons s2 (Steps.one s3)))
        generalize ArrL.Ref.evalIdx s.env s.arrs rest = rr at hrest ⊢
        cases rr with
        | err c p => exact ErrsWith.of_steps pre2 hrest
        | inexact => trivial
        | illFormed => trivial
        | ok is =>
          obtain ⟨ω, st4, hp4, ha4, hrel4, hpaths4, hvals4, hregs4, hctx4, htr4, hsk4⟩ := hrest
          refine ⟨ω, pre2.trans st4, ?_, ?_, hrel4, ?_, ?_, ?_, ?_, ?_, ?_⟩
          · rw [hp4]
            simp only [υ2, υ1, Vm.advance, Vm.setRA, hp2, hp, compileIdx, List.length_append, List.length_singleton,
              List.length_cons, List.length_nil, hlen]
            omega
          · rw [ha4]; rfl
          · rw [hpaths4]; simp [List.append_assoc]
          · rw [hvals4]; rfl
          · rw [hregs4]; simp only [υ2, υ1, Vm.advance, Vm.setRA]; rw [hss2.regStack, hss.regStack]; rfl
          · rw [hctx4]; simp only [υ2, υ1, Vm.advance, Vm.setRA]; rw [hss2.ctx, hss.ctx]; rfl
          · rw [htr4]; simp only [υ2, υ1, Vm.advance, Vm.setRA]; rw [hss2.trace, hss.trace]; rfl
          · intro hk; exact hsk4 (hss2.skip (hss.skip hk))

/-- as many converted subscripts as subscript expressions -/
theorem evalIdx_length (env : List Val) (arrs : List (Option RArr)) : ∀ (idx : Exprs) (is : List Int),
    ArrL.Ref.evalIdx env arrs idx = .ok is → is.length = idx.length
  | .nil, is, h => by simp only [ArrL.Ref.evalIdx] at h; cases h; rfl
  | .cons e rest, is, h => by
    simp only [ArrL.Ref.evalIdx] at h
    cases he : ArrL.Ref.eval env arrs e with
    | ok v =>
      simp only [he, ArrL.Ref.ERes.bind] at h
      cases ht : ArrL.Ref.toIndex e.pos (storeCast e.ty .int v) with
      | ok i =>
        simp only [ht] at h
        cases hr : ArrL.Ref.evalIdx env arrs rest with
        | ok js =>
          simp only [hr] at h
          cases h
          simp [Exprs.length, evalIdx_length env arrs rest js hr]
        | err c p => simp only [hr] at h; cases h
        | inexact => simp only [hr] at h; cases h
        | illFormed => simp only [hr] at h; cases h
      | err c p => simp only [ht] at h; cases h
      | inexact => simp only [ht] at h; cases h
      | illFormed => simp only [ht] at h; cases h
    | err c p => simp only [he, ArrL.Ref.ERes.bind] at h; cases h
    | inexact => simp only [he, ArrL.Ref.ERes.bind] at h; cases h
    | illFormed => simp only [he, ArrL.Ref.ERes.bind] at h; cases h

theorem evalIdx_ne_nil {env : List Val} {arrs : List (Option RArr)} {idx : Exprs} {is : List Int}
    (h : ArrL.Ref.evalIdx env arrs idx = .ok is) (hne : idx ≠ .nil) : is ≠ [] := by
  have hl := evalIdx_length env arrs idx is h
  cases idx with
  | nil => exact absurd rfl hne
  | cons e rest =>
    intro hn; rw [hn] at hl; simp [Exprs.length] at hl

/-- `VarPathName a` followed by the subscripts: the path of the element is on top of the path stack -/
theorem path_correct (code : Code) (sc : Scope) (a : Nat) (idx : Exprs) (p : Pos) (hI : IdxSpec code sc idx)
    (off : Nat) (s : St) (σ : Vm) (hc : CodeAt code off ([(CInstr.arrPath a, p)] ++ compileIdx idx))
    (hpc : σ.pc = off) (hr : Rel sc s σ) (hw : IdxWf sc idx) :
    IdxPost code sc (1 + (compileIdx idx).length) off s σ ⟨.arr a, []⟩ σ.paths (ArrL.Ref.evalIdx s.env s.arrs idx) := by
  have h0 : code[σ.pc]? = some (CInstr.arrPath a, p) := by rw [hpc]; exact hc.append_left.head
  let σ1 : Vm := Vm.advance { σ with paths := ⟨.arr a, []⟩ :: σ.paths }
  have s1 : Vm.step code σ = .next σ1 := by simp only [Vm.step, h0]; rfl
  have hci : CodeAt code (off + 1) (compileIdx idx) := by simpa using hc.append_right
  have h := hI (off + 1) s σ1 ⟨.arr a, []⟩ σ.paths hci (by simp [σ1, Vm.advance, hpc])
    (hr.same rfl rfl rfl rfl rfl rfl rfl) hw rfl
  generalize ArrL.Ref.evalIdx s.env s.arrs idx = r at h ⊢
  cases r with
  | err c q => exact ErrsWith.of_steps (Steps.one s1) h
  | inexact => trivial
  | illFormed => trivial
  | ok is =>
    obtain ⟨τ, st, hp, ha, hrel, hpaths, hvals, hregs, hctx, htr, hsk⟩ := h
    exact ⟨τ, (Steps.one s1).trans st, by rw [hp]; omega, ha, hrel, hpaths, hvals, hregs, hctx, htr, hsk⟩

/-! ### resolving a path -/

theorem readPath_elem_some {τ : Vm} {a : Nat} {is : List Int} {V : VArr} {v : Val}
    (hV : τ.arrs[a]? = some (some V)) (hne : is ≠ []) (hg : Arr.getElem V is = some v) :
    readPath τ ⟨.arr a, is⟩ = .ok (.sc v) := by
  cases is with
  | nil => exact absurd rfl hne
  | cons i rest => simp only [readPath, hV, hg]

theorem readPath_elem_none {τ : Vm} {a : Nat} {is : List Int} {V : VArr}
    (hV : τ.arrs[a]? = some (some V)) (hne : is ≠ []) (hg : Arr.getElem V is = none) :
    readPath τ ⟨.arr a, is⟩ = .subscript := by
  cases is with
  | nil => exact absurd rfl hne
  | cons i rest => simp only [readPath, hV, hg]

theorem readPath_arr {τ : Vm} {a : Nat} {V : VArr} (hV : τ.arrs[a]? = some (some V)) :
    readPath τ ⟨.arr a, []⟩ = .ok (.arr V) := by
  simp only [readPath, hV]

theorem writePath_elem_some {τ : Vm} {a : Nat} {is : List Int} {V V' : VArr} (w : Val)
    (hV : τ.arrs[a]? = some (some V)) (hne : is ≠ []) (hs : Arr.setElem V is w = some V') :
    writePath τ ⟨.arr a, is⟩ (.sc w) = .ok { τ with arrs := τ.arrs.set a (some V') } := by
  cases is with
  | nil => exact absurd rfl hne
  | cons i rest => simp only [writePath, hV, hs]

theorem writePath_elem_none {τ : Vm} {a : Nat} {is : List Int} {V : VArr} (w : Val)
    (hV : τ.arrs[a]? = some (some V)) (hne : is ≠ []) (hs : Arr.setElem V is w = none) :
    writePath τ ⟨.arr a, is⟩ (.sc w) = .subscript := by
  cases is with
  | nil => exact absurd rfl hne
  | cons i rest => simp only [writePath, hV, hs]

theorem writePath_arr {τ : Vm} {a : Nat} (V : VArr) (h : a < τ.arrs.length) :
    writePath τ ⟨.arr a, []⟩ (.arr V) = .ok { τ with arrs := τ.arrs.set a (some V) } := by
  simp only [writePath, h, if_true]

theorem Rel.arrLt {sc : Scope} {s : St} {τ : Vm} (h : Rel sc s τ) {a : Nat} {t : Ty} (ha : sc.arrs[a]? = some t) :
    a < τ.arrs.length := by
  rw [h.arrs.lenV]; exact (List.getElem?_eq_some_iff.mp ha).1

/-- `CopyVarPathToA` with the path of an element of a dimensioned array on top: the element's value inside the box,
Subscript out of range outside -/
theorem elem_read_step (code : Code) (sc : Scope) (s : St) (τ : Vm) (a : Nat) (t : Ty) (is : List Int) (A : RArr)
    (rest : List Path) (p : Pos) (hrel : Rel sc s τ) (ha : sc.arrs[a]? = some t) (hA : s.arrs[a]? = some (some A))
    (hne : is ≠ []) (hpaths : τ.paths = ⟨.arr a, is⟩ :: rest) (hi : code[τ.pc]? = some (CInstr.copyVarPathToA, p)) :
    if A.inBounds is then
      Vm.step code τ = .next (Vm.advance (Vm.setRA τ (.sc (A.get is)))) ∧ (A.get is).tag = t
    else Vm.step code τ = .error ArrL.Ref.codeSubscript p τ := by
  obtain ⟨V, hV, hAV⟩ := hrel.arrs.lookup ha hA
  have hread := hAV.read is
  by_cases hb : A.inBounds is = true
  · simp only [hb, if_true] at hread ⊢
    refine ⟨?_, hAV.get_tag hb⟩
    simp only [Vm.step, hi, hpaths, readPath_elem_some hV hne hread]
  · simp only [hb] at hread ⊢
    simp only [Vm.step, hi, hpaths, readPath_elem_none hV hne hread]
    simp

/-- `CopyAToVarPath` with the path of an element of a dimensioned array on top and a scalar of the element type in A:
the store inside the box, Subscript out of range outside -/
theorem elem_write_step (code : Code) (sc : Scope) (s : St) (τ : Vm) (a : Nat) (t : Ty) (is : List Int) (A : RArr)
    (w : Val) (rest : List Path) (p : Pos) (hrel : Rel sc s τ) (ha : sc.arrs[a]? = some t)
    (hA : s.arrs[a]? = some (some A)) (hne : is ≠ []) (hpaths : τ.paths = ⟨.arr a, is⟩ :: rest)
    (hra : τ.regs.a = .sc w) (hw : w.tag = t) (hi : code[τ.pc]? = some (CInstr.copyAToVarPath, p)) :
    if A.inBounds is then
      ∃ V', Vm.step code τ = .next (Vm.advance { τ with arrs := τ.arrs.set a (some V'), paths := rest }) ∧
        ArrRel t (A.set is w) V'
    else Vm.step code τ = .error ArrL.Ref.codeSubscript p τ := by
  obtain ⟨V, hV, hAV⟩ := hrel.arrs.lookup ha hA
  have hst := hAV.store is w hw
  by_cases hb : A.inBounds is = true
  · simp only [hb, if_true] at hst ⊢
    obtain ⟨V', hs, hr'⟩ := hst
    refine ⟨V', ?_, hr'⟩
    simp only [Vm.step, hi, hpaths, hra, writePath_elem_some w hV hne hs]
  · simp only [hb] at hst ⊢
    simp only [Vm.step, hi, hpaths, hra, writePath_elem_none w hV hne hst]
    simp

end RbThm.ArrLSim
