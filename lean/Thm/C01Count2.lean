import Thm.C01Count
/-!
C01 — `DO` loops that run a symbolic number of rounds.

`Thm.C01Count` proves, for every `n ≤ 2147483647`, that `V& = n : WHILE V& : PRINT "w" : V& = V& - 1 : WEND : PRINT "end"`
prints `n` lines and `end` on the VM model.  This file ports the family to the two `DO` forms with a bare condition,
reusing the helpers of `C01Count` (`stOf`, `rounds`, `replicateLines`, `evalTo_decr`, `body_round`, `evalTo_numLit`,
`rounds_out`):

* top-tested — `V& = n : DO WHILE V& : PRINT "w" : V& = V& - 1 : LOOP : PRINT "end"` prints `n` lines and `end`, for
  every `n ≤ 2147483647` (`do_while_counts`, `vm_do_while_counts`; `do_top_bare_condition` with `until_ = false`);
* bottom-tested — `V& = n + 1 : DO : PRINT "w" : V& = V& - 1 : LOOP WHILE V& : PRINT "end"` prints `n + 1` lines and
  `end`, for every `n + 1 ≤ 2147483647` (`do_loop_while_counts`, `vm_do_loop_while_counts`;
  `do_bottom_bare_condition`).  The body runs before the first test, so the family starts at one round; started at
  `V& = 0` the body would step to `-1` and count down through the negative LONGs, which is outside this family.

Method as in `C01Count`: the loop lemma by induction on the counter over `Ref.exec`, the whole program over the
reference semantics with fuel `n + 5` / `n + 6`, the checker's acceptance for every `n`, then `vmPrints_of_ref`.

Not proved here: `DO UNTIL V& = 0` / `LOOP UNTIL V& = 0` (a comparison, not a bare condition).
-/
namespace RbThm.C01Count
open RbModel RbModel.Num RbModel.Ast RbModel.Src RbModel.Core RbModel.CoreVm RbModel.Ref RbModel.CoreWf
open RbThm.C01Sim RbThm.C01Cond RbThm.C01Cond2

set_option linter.unusedSimpArgs false
set_option linter.unusedVariables false

/-! ## A. top-tested: `DO WHILE V& … LOOP` -/

/-- `DO WHILE V& : PRINT "w" : V& = V& - 1 : LOOP` -/
def doLoopS : SStmt := .doLoop (.var 0 .long ⟨2, 10⟩) true false loopBody ⟨2, 1⟩

/-- `V& = n : DO WHILE V& : PRINT "w" : V& = V& - 1 : LOOP : PRINT "end"` -/
def doCountProg (n : Nat) : SProgram :=
  { slots := [.long],
    body :=
      .seq (.assign 0 .long (.lit (numLit n) ⟨1, 6⟩) ⟨1, 1⟩)
      (.seq doLoopS
      (.seq (printS ['e', 'n', 'd'] ⟨6, 1⟩ ⟨6, 7⟩) .skip)) }

theorem doCountProg_wf (n : Nat) : wfTopB (doCountProg n).slots (doCountProg n).body = true := by
  simp [doCountProg, doLoopS, loopBody, decr, printS, wfTopB, wfB, wfElifsB, condB, slotsB, exprWtB, itemsB, isSkipB,
    Ast.Expr.ty, litS]
  decide

/-- **`do_while_counts`** — the loop lemma: from `V& = k` (any `k` up to the largest LONG) and any output device, data
and READ cursor, `DO WHILE V& : PRINT "w" : V& = V& - 1 : LOOP` with fuel `k + 3` ends normally with `V& = 0` after
exactly `k` rounds -/
theorem do_while_counts (k : Nat) (hk : k ≤ bound) (p : Print.WritePrinter) (d : List Val) (i : Nat) :
    Ref.exec (k + 3) (desugar doLoopS) (stOf (.long (k : Int)) p d i) =
      (stOf (.long 0) (rounds p k) d i, .normal) := by
  induction k generalizing p with
  | zero =>
    simp only [doLoopS, desugar]
    rw [do_top_bare_condition _ _ _ _ _ _ (.long 0) rfl trivial, if_neg (by decide)]
    rfl
  | succ k ih =>
    have hz : ¬ IsZero (.long ((k + 1 : Nat) : Int)) := by rw [isZero_long]; omega
    have hc : IsZero (.long ((k + 1 : Nat) : Int)) ↔ false = true :=
      ⟨fun h => absurd h hz, fun h => Bool.noConfusion h⟩
    have hb := body_round k k hk p d i
    have hi := ih (by omega) ((p.print ['w']).println)
    simp only [doLoopS, desugar] at hb hi ⊢
    rw [do_top_bare_condition _ _ _ _ _ _ (.long ((k + 1 : Nat) : Int)) rfl trivial, if_pos hc, hb,
      thenIfNormal_normal, hi]
    rfl

/-- every larger fuel gives the same -/
theorem do_while_counts_any_fuel (k : Nat) (hk : k ≤ bound) (p : Print.WritePrinter) (d : List Val) (i : Nat)
    (j : Nat) :
    Ref.exec (k + 3 + j) (desugar doLoopS) (stOf (.long (k : Int)) p d i) =
      (stOf (.long 0) (rounds p k) d i, .normal) :=
  C01.exec_fuel_mono _ _ _ _ _ _ (do_while_counts k hk p d i) rfl

theorem doCountProg_ref (n : Nat) (hn : n ≤ bound) :
    refPrintsB (Ref.run (n + 5) (doCountProg n).toAst) (replicateLines n ++ ['e', 'n', 'd', '\r', '\n']) = true := by
  apply refPrintsB_complete
  have hl := do_while_counts n hn Print.WritePrinter.new [] 0
  simp only [stOf] at hl
  simp only [Ref.run, doCountProg, SProgram.toAst, desugar, dataOf, List.map, List.append_nil]
  rw [show n + 5 = (n + 2) + 1 + 1 + 1 from rfl]
  simp only [Ref.exec, evalTo_numLit, St.set, List.set, Ref.zeroOf]
  have hd : dataOf doLoopS = [] := rfl
  simp only [hd, printS, dataOf, List.append_nil, hl, desugar, Ref.exec, printItems, Ref.eval, litS, printValue,
    endsInSeparator, Print.valueText, Bool.false_eq_true, if_false]
  refine ⟨trivial, ?_⟩
  simp [rounds_out, Print.WritePrinter.print, Print.WritePrinter.println, Print.WritePrinter.printAsIs,
    Print.WritePrinter.printRest, Print.splitCrLf, Print.isCrLf, Print.WritePrinter.new]

/-- **`vm_do_while_counts`** — `V& = n : DO WHILE V& : PRINT "w" : V& = V& - 1 : LOOP : PRINT "end"`: for every `n` up
to the largest LONG the VM model running the generated code halts (for every sufficient step budget) having printed
`w` exactly `n` times and then `end` -/
theorem vm_do_while_counts (n : Nat) (hn : n ≤ bound) :
    VmPrints (doCountProg n) (replicateLines n ++ ['e', 'n', 'd', '\r', '\n']) :=
  vmPrints_of_ref _ (n + 5) _ (doCountProg_wf n) (doCountProg_ref n hn)

/-- the VM model's output has `3 * n + 5` characters, for every `n` -/
theorem vm_do_while_counts_length (n : Nat) (hn : n ≤ bound) :
    ∃ n₀ υ, (∀ m, n₀ ≤ m → CoreVm.run (compile (doCountProg n)) m (Vm.init (doCountProg n).slots) = .halted υ) ∧
      υ.out.out.length = 3 * n + 5 := by
  obtain ⟨n₀, υ, hr, ho⟩ := vm_do_while_counts n hn
  refine ⟨n₀, υ, hr, ?_⟩
  rw [ho, List.length_append, replicateLines_length]
  rfl

/-- `n = 0`: the body never runs -/
example : VmPrints (doCountProg 0) ['e', 'n', 'd', '\r', '\n'] := vm_do_while_counts 0 (by decide)
/-- `n = 3` -/
example : VmPrints (doCountProg 3) ['w', '\r', '\n', 'w', '\r', '\n', 'w', '\r', '\n', 'e', 'n', 'd', '\r', '\n'] :=
  vm_do_while_counts 3 (by decide)
/-- `n = 100000`: a LONG literal, 100000 rounds; nothing is run -/
example : VmPrints (doCountProg 100000) (replicateLines 100000 ++ ['e', 'n', 'd', '\r', '\n']) :=
  vm_do_while_counts 100000 (by decide)
/-- the reference side of `n = 3` again, by evaluation (fuel `n + 5`), and one unit less does not suffice -/
example : refPrintsB (Ref.run 8 (doCountProg 3).toAst)
    ['w', '\r', '\n', 'w', '\r', '\n', 'w', '\r', '\n', 'e', 'n', 'd', '\r', '\n'] = true := by decide +kernel
example : refPrintsB (Ref.run 7 (doCountProg 3).toAst)
    ['w', '\r', '\n', 'w', '\r', '\n', 'w', '\r', '\n', 'e', 'n', 'd', '\r', '\n'] = false := by decide +kernel

/-! ## B. bottom-tested: `DO … LOOP WHILE V&` -/

/-- `DO : PRINT "w" : V& = V& - 1 : LOOP WHILE V&` -/
def doBotS : SStmt := .doLoop (.var 0 .long ⟨5, 12⟩) false false loopBody ⟨2, 1⟩

/-- `V& = n : DO : PRINT "w" : V& = V& - 1 : LOOP WHILE V& : PRINT "end"` -/
def doBotProg (n : Nat) : SProgram :=
  { slots := [.long],
    body :=
      .seq (.assign 0 .long (.lit (numLit n) ⟨1, 6⟩) ⟨1, 1⟩)
      (.seq doBotS
      (.seq (printS ['e', 'n', 'd'] ⟨6, 1⟩ ⟨6, 7⟩) .skip)) }

theorem doBotProg_wf (n : Nat) : wfTopB (doBotProg n).slots (doBotProg n).body = true := by
  simp [doBotProg, doBotS, loopBody, decr, printS, wfTopB, wfB, wfElifsB, condB, slotsB, exprWtB, itemsB, isSkipB,
    Ast.Expr.ty, litS]
  decide

/-- **`do_loop_while_counts`** — the loop lemma: from `V& = k + 1` (up to the largest LONG) and any output device, data
and READ cursor, `DO : PRINT "w" : V& = V& - 1 : LOOP WHILE V&` with fuel `k + 4` ends normally with `V& = 0` after
exactly `k + 1` rounds -/
theorem do_loop_while_counts (k : Nat) (hk : k + 1 ≤ bound) (p : Print.WritePrinter) (d : List Val) (i : Nat) :
    Ref.exec (k + 4) (desugar doBotS) (stOf (.long ((k + 1 : Nat) : Int)) p d i) =
      (stOf (.long 0) (rounds p (k + 1)) d i, .normal) := by
  induction k generalizing p with
  | zero =>
    have hb := body_round 0 0 hk p d i
    simp only [doBotS, desugar] at hb ⊢
    rw [do_bottom_bare_condition _ _ _ _ _ _ _ (.long ((0 : Nat) : Int)) hb rfl trivial, if_neg (by decide)]
    rfl
  | succ k ih =>
    have hz : ¬ IsZero (.long ((k + 1 : Nat) : Int)) := by rw [isZero_long]; omega
    have hc : IsZero (.long ((k + 1 : Nat) : Int)) ↔ false = true :=
      ⟨fun h => absurd h hz, fun h => Bool.noConfusion h⟩
    have hb := body_round (k + 1) (k + 1) hk p d i
    have hi := ih (by omega) ((p.print ['w']).println)
    simp only [doBotS, desugar] at hb hi ⊢
    rw [do_bottom_bare_condition _ _ _ _ _ _ _ (.long ((k + 1 : Nat) : Int)) hb rfl trivial, if_pos hc, hi]
    rfl

theorem doBotProg_ref (n : Nat) (hn : n + 1 ≤ bound) :
    refPrintsB (Ref.run (n + 6) (doBotProg (n + 1)).toAst)
      (replicateLines (n + 1) ++ ['e', 'n', 'd', '\r', '\n']) = true := by
  apply refPrintsB_complete
  have hl := do_loop_while_counts n hn Print.WritePrinter.new [] 0
  simp only [stOf] at hl
  simp only [Ref.run, doBotProg, SProgram.toAst, desugar, dataOf, List.map, List.append_nil]
  rw [show n + 6 = (n + 3) + 1 + 1 + 1 from rfl]
  simp only [Ref.exec, evalTo_numLit, St.set, List.set, Ref.zeroOf]
  have hd : dataOf doBotS = [] := rfl
  simp only [hd, printS, dataOf, List.append_nil, hl, desugar, Ref.exec, printItems, Ref.eval, litS, printValue,
    endsInSeparator, Print.valueText, Bool.false_eq_true, if_false]
  refine ⟨trivial, ?_⟩
  simp [rounds_out, Print.WritePrinter.print, Print.WritePrinter.println, Print.WritePrinter.printAsIs,
    Print.WritePrinter.printRest, Print.splitCrLf, Print.isCrLf, Print.WritePrinter.new]

/-- **`vm_do_loop_while_counts`** — `V& = n + 1 : DO : PRINT "w" : V& = V& - 1 : LOOP WHILE V& : PRINT "end"`: for
every `n + 1` up to the largest LONG the VM model running the generated code halts (for every sufficient step budget)
having printed `w` exactly `n + 1` times and then `end` -/
theorem vm_do_loop_while_counts (n : Nat) (hn : n + 1 ≤ bound) :
    VmPrints (doBotProg (n + 1)) (replicateLines (n + 1) ++ ['e', 'n', 'd', '\r', '\n']) :=
  vmPrints_of_ref _ (n + 6) _ (doBotProg_wf (n + 1)) (doBotProg_ref n hn)

/-- `V& = 1`: one round -/
example : VmPrints (doBotProg 1) ['w', '\r', '\n', 'e', 'n', 'd', '\r', '\n'] :=
  vm_do_loop_while_counts 0 (by decide)
/-- `V& = 3` -/
example : VmPrints (doBotProg 3) ['w', '\r', '\n', 'w', '\r', '\n', 'w', '\r', '\n', 'e', 'n', 'd', '\r', '\n'] :=
  vm_do_loop_while_counts 2 (by decide)
/-- `V& = 100000` -/
example : VmPrints (doBotProg 100000) (replicateLines 100000 ++ ['e', 'n', 'd', '\r', '\n']) :=
  vm_do_loop_while_counts 99999 (by decide)
/-- the reference side of `V& = 3` again, by evaluation (fuel `n + 6`) -/
example : refPrintsB (Ref.run 8 (doBotProg 3).toAst)
    ['w', '\r', '\n', 'w', '\r', '\n', 'w', '\r', '\n', 'e', 'n', 'd', '\r', '\n'] = true := by decide +kernel

end RbThm.C01Count
