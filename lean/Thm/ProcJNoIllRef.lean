import Thm.ProcJRef
/-!
Layer "procedures ∪ jumps", the reference semantics `ProcJ.Ref` alone: **a program whose bodies keep the jump discipline and
whose calls name existing procedures never answers `illFormed`** (port of `Thm/JmpLNoIllRef.lean` to the thirteen mutual
functions of `ProcJ.Ref`).

`Disc fd sd P B d e s`: the statement `s` of the body `B` (the main module's, or a procedure's) keeps the discipline at FOR depth
`d` / SELECT depth `e` relative to the recorded depths `fd` / `sd` (one table for the whole program: a label is defined once in
the whole program):

* a `label L` at depths `d` / `e` has `fd L = d`, `sd L = e`;
* a `goto L` at depths `d` / `e` has `fd L ≤ d`, `sd L ≤ e`; a GOTO inside a FOR body (the blocks of a SELECT) whose label is
  outside names a label that is not deeper than the FOR (the SELECT);
* a `gosub L` names a label of `B` recorded at depth 0 / 0;
* every call (in an expression, a PRINT item, a CASE item, a condition, a `callSub`) names a procedure that exists.

`ActOk`: a body keeps the discipline at depth 0 / 0 and every GOTO in it names one of its own labels.  The invariant `Inv`
(induction on the fuel): with every procedure body `ActOk`, the eight evaluation functions never fail with `illFormed` on
expressions whose calls exist, and the five statement functions never answer `illFormed` on disciplined statements of an `ActOk`
body, in `run` mode and in `seek L` mode with `L` recorded at the statement's depths.  New against the jump layer: `callFail` —
a callee's body answering `jump` (its GOTOs name its own labels and a statement handles the jumps to its own labels),
`notHere` (a body run from its first statement is entered) or `illFormed` (induction hypothesis, the callee's body is `ActOk`).
-/
namespace RbThm.ProcJNoIll
set_option linter.unusedVariables false
set_option linter.unusedSimpArgs false
open RbModel RbModel.ProcJ RbModel.ProcJ.Ref
open RbModel.Num hiding Expr
open RbModel.Ast (Pos)
open RbModel.Proc (Var Expr Args PrintItem CaseExpr ProcDecl zeroOf)
open RbModel.Proc.Ref (St codeOf StepSign)
open RbThm.ProcJRef

/-! ### calls name existing procedures -/

mutual
def CallsE (P : Program) : Expr → Prop
  | .lit _ _ => True
  | .var _ _ _ => True
  | .un _ e _ => CallsE P e
  | .bin _ l r _ _ => CallsE P l ∧ CallsE P r
  | .paren e _ => CallsE P e
  | .callFn f args _ _ => (P.procs[f]?).isSome = true ∧ CallsA P args
def CallsA (P : Program) : Args → Prop
  | .nil => True
  | .cons e _ _ rest => CallsE P e ∧ CallsA P rest
end

def CallsI (P : Program) : List PrintItem → Prop
  | [] => True
  | .expr e :: rest => CallsE P e ∧ CallsI P rest
  | .comma :: rest => CallsI P rest
  | .semicolon :: rest => CallsI P rest

def CallsC (P : Program) : CaseExpr → Prop
  | .simple e => CallsE P e
  | .is _ e => CallsE P e
  | .range lo hi => CallsE P lo ∧ CallsE P hi

def CallsCs (P : Program) : List CaseExpr → Prop
  | [] => True
  | c :: rest => CallsC P c ∧ CallsCs P rest

/-! ### the jump discipline on the lean syntax -/

mutual
/-- the statement (of the body `B`) keeps the discipline at FOR depth `d` and SELECT depth `e` -/
def Disc (fd sd : Nat → Nat) (P : Program) (B : Stmt) : Nat → Nat → Stmt → Prop
  | d, e, .seq a b => Disc fd sd P B d e a ∧ Disc fd sd P B d e b
  | _, _, .assign _ _ ex _ => CallsE P ex
  | _, _, .print items _ => CallsI P items
  | d, e, .ifs c thn els _ => CallsE P c ∧ Disc fd sd P B d e thn ∧ Disc fd sd P B d e els
  | d, e, .select ex cases _ =>
    CallsE P ex ∧ DiscC fd sd P B d (e + 1) cases ∧ ∀ L ∈ gotosC cases, cases.hasLabel L = true ∨ sd L ≤ e
  | d, e, .forLoop _ _ lo hi step body _ =>
    CallsE P lo ∧ CallsE P hi ∧ (∀ se, step = some se → CallsE P se) ∧ Disc fd sd P B (d + 1) e body ∧
      ∀ L ∈ gotosS body, body.hasLabel L = true ∨ fd L ≤ d
  | d, e, .while c body _ => CallsE P c ∧ Disc fd sd P B d e body
  | d, e, .doLoop c _ _ body _ => CallsE P c ∧ Disc fd sd P B d e body
  | _, _, .callSub f args _ => (P.procs[f]?).isSome = true ∧ CallsA P args
  | d, e, .label L => fd L = d ∧ sd L = e
  | d, e, .goto L => fd L ≤ d ∧ sd L ≤ e
  | _, _, .gosub L => fd L = 0 ∧ sd L = 0 ∧ B.hasLabel L = true
  | _, _, .skip => True
  | _, _, .read _ _ _ => True
  | _, _, .end_ _ => True
  | _, _, .exitProc _ => True
  | _, _, .ret _ => True
def DiscC (fd sd : Nat → Nat) (P : Program) (B : Stmt) : Nat → Nat → Cases → Prop
  | _, _, .nil => True
  | d, e, .else_ body => Disc fd sd P B d e body
  | d, e, .case conds body rest => CallsCs P conds ∧ Disc fd sd P B d e body ∧ DiscC fd sd P B d e rest
end

/-- a body an activation may run: it keeps the discipline at depth 0 / 0 and its GOTOs name its own labels -/
def ActOk (fd sd : Nat → Nat) (P : Program) (B : Stmt) : Prop :=
  Disc fd sd P B 0 0 B ∧ ∀ L ∈ gotosS B, B.hasLabel L = true

section
variable {fd sd : Nat → Nat} {P : Program} {B : Stmt}

mutual
/-- a label inside a statement is recorded at least as deep as the statement -/
theorem label_ge : ∀ (s : Stmt) (d e L : Nat), Disc fd sd P B d e s → s.hasLabel L = true → d ≤ fd L ∧ e ≤ sd L
  | .seq a b, d, e, L, h, hl => by
    simp only [hasLabel_seq, Bool.or_eq_true] at hl
    rcases hl with hl | hl
    · exact label_ge a d e L h.1 hl
    · exact label_ge b d e L h.2 hl
  | .ifs _ thn els _, d, e, L, h, hl => by
    simp only [hasLabel_ifs, Bool.or_eq_true] at hl
    rcases hl with hl | hl
    · exact label_ge thn d e L h.2.1 hl
    · exact label_ge els d e L h.2.2 hl
  | .select _ cases _, d, e, L, h, hl => by
    simp only [hasLabel_select] at hl
    have := label_geC cases d (e + 1) L h.2.1 hl
    omega
  | .forLoop _ _ _ _ _ body _, d, e, L, h, hl => by
    simp only [hasLabel_forLoop] at hl
    have := label_ge body (d + 1) e L h.2.2.2.1 hl
    omega
  | .while _ body _, d, e, L, h, hl => by
    simp only [hasLabel_while] at hl
    exact label_ge body d e L h.2 hl
  | .doLoop _ _ _ body _, d, e, L, h, hl => by
    simp only [hasLabel_doLoop] at hl
    exact label_ge body d e L h.2 hl
  | .label L', d, e, L, h, hl => by
    simp only [hasLabel_label, decide_eq_true_eq] at hl
    subst hl
    have h' : fd L = d ∧ sd L = e := h
    omega
  | .goto _, _, _, _, _, hl => by simp at hl
  | .gosub _, _, _, _, _, hl => by simp at hl
  | .skip, _, _, _, _, hl => by simp at hl
  | .assign _ _ _ _, _, _, _, _, hl => by simp at hl
  | .print _ _, _, _, _, _, hl => by simp at hl
  | .read _ _ _, _, _, _, _, hl => by simp at hl
  | .end_ _, _, _, _, _, hl => by simp at hl
  | .callSub _ _ _, _, _, _, _, hl => by simp at hl
  | .exitProc _, _, _, _, _, hl => by simp at hl
  | .ret _, _, _, _, _, hl => by simp at hl
theorem label_geC : ∀ (cs : Cases) (d e L : Nat), DiscC fd sd P B d e cs → cs.hasLabel L = true → d ≤ fd L ∧ e ≤ sd L
  | .nil, _, _, _, _, hl => by simp at hl
  | .else_ body, d, e, L, h, hl => by
    simp only [casesHasLabel_else] at hl
    exact label_ge body d e L h hl
  | .case _ body rest, d, e, L, h, hl => by
    simp only [casesHasLabel_case, Bool.or_eq_true] at hl
    rcases hl with hl | hl
    · exact label_ge body d e L h.2.1 hl
    · exact label_geC rest d e L h.2.2 hl
end

mutual
/-- a GOTO inside a statement whose label is outside it names a label that is not deeper than the statement -/
theorem goto_le : ∀ (s : Stmt) (d e L : Nat), Disc fd sd P B d e s → L ∈ gotosS s → s.hasLabel L = false →
    fd L ≤ d ∧ sd L ≤ e
  | .seq a b, d, e, L, h, hg, hl => by
    simp only [gotosS, List.mem_append] at hg
    simp only [hasLabel_seq, Bool.or_eq_false_iff] at hl
    rcases hg with hg | hg
    · exact goto_le a d e L h.1 hg hl.1
    · exact goto_le b d e L h.2 hg hl.2
  | .ifs _ thn els _, d, e, L, h, hg, hl => by
    simp only [gotosS, List.mem_append] at hg
    simp only [hasLabel_ifs, Bool.or_eq_false_iff] at hl
    rcases hg with hg | hg
    · exact goto_le thn d e L h.2.1 hg hl.1
    · exact goto_le els d e L h.2.2 hg hl.2
  | .select _ cases _, d, e, L, h, hg, hl => by
    simp only [gotosS] at hg
    simp only [hasLabel_select] at hl
    have h1 := goto_leC cases d (e + 1) L h.2.1 hg hl
    rcases h.2.2 L hg with h2 | h2
    · rw [hl] at h2; cases h2
    · exact ⟨h1.1, h2⟩
  | .forLoop _ _ _ _ _ body _, d, e, L, h, hg, hl => by
    simp only [gotosS] at hg
    simp only [hasLabel_forLoop] at hl
    have h1 := goto_le body (d + 1) e L h.2.2.2.1 hg hl
    rcases h.2.2.2.2 L hg with h2 | h2
    · rw [hl] at h2; cases h2
    · exact ⟨h2, h1.2⟩
  | .while _ body _, d, e, L, h, hg, hl => by
    simp only [gotosS] at hg
    simp only [hasLabel_while] at hl
    exact goto_le body d e L h.2 hg hl
  | .doLoop _ _ _ body _, d, e, L, h, hg, hl => by
    simp only [gotosS] at hg
    simp only [hasLabel_doLoop] at hl
    exact goto_le body d e L h.2 hg hl
  | .goto L', d, e, L, h, hg, _ => by
    simp only [gotosS, List.mem_singleton] at hg
    subst hg
    exact h
  | .label _, _, _, _, _, hg, _ => by simp [gotosS] at hg
  | .gosub _, _, _, _, _, hg, _ => by simp [gotosS] at hg
  | .skip, _, _, _, _, hg, _ => by simp [gotosS] at hg
  | .assign _ _ _ _, _, _, _, _, hg, _ => by simp [gotosS] at hg
  | .print _ _, _, _, _, _, hg, _ => by simp [gotosS] at hg
  | .read _ _ _, _, _, _, _, hg, _ => by simp [gotosS] at hg
  | .end_ _, _, _, _, _, hg, _ => by simp [gotosS] at hg
  | .callSub _ _ _, _, _, _, _, hg, _ => by simp [gotosS] at hg
  | .exitProc _, _, _, _, _, hg, _ => by simp [gotosS] at hg
  | .ret _, _, _, _, _, hg, _ => by simp [gotosS] at hg
theorem goto_leC : ∀ (cs : Cases) (d e L : Nat), DiscC fd sd P B d e cs → L ∈ gotosC cs → cs.hasLabel L = false →
    fd L ≤ d ∧ sd L ≤ e
  | .nil, _, _, _, _, hg, _ => by simp [gotosC] at hg
  | .else_ body, d, e, L, h, hg, hl => by
    simp only [gotosC] at hg
    simp only [casesHasLabel_else] at hl
    exact goto_le body d e L h hg hl
  | .case _ body rest, d, e, L, h, hg, hl => by
    simp only [gotosC, List.mem_append] at hg
    simp only [casesHasLabel_case, Bool.or_eq_false_iff] at hl
    rcases hg with hg | hg
    · exact goto_le body d e L h.2.1 hg hl.1
    · exact goto_leC rest d e L h.2.2 hg hl.2
end

/-- **the label of a jump that leaves a statement is not deeper than the statement** -/
theorem jump_le {n : Nat} {A : Act} {s : Stmt} {m : Mode} {st st' : St} {L d e : Nat} (hd : Disc fd sd P B d e s)
    (h : exec P n A s m st = (st', .jump L)) : fd L ≤ d ∧ sd L ≤ e := by
  obtain ⟨hg, hl⟩ := jump_shape n P A s m st st' L h
  exact goto_le s d e L hd hg hl

/-- a jump that comes out of the blocks of a SELECT in run mode left the block it was executed in -/
theorem execCases_jump_le : ∀ (cs : Cases) (n : Nat) (A : Act) (p : Pos) (v : Val) (st st' : St) (L d e : Nat),
    DiscC fd sd P B d e cs → execCases P n A p v cs st = (st', .jump L) → fd L ≤ d ∧ sd L ≤ e
  | _, 0, _, _, _, _, _, _, _, _, _, h => by simp [ProcJ.Ref.execCases] at h
  | .nil, _ + 1, _, _, _, _, _, _, _, _, _, h => by simp [ProcJ.Ref.execCases] at h
  | .else_ body, n + 1, _, _, _, _, _, _, _, _, hd, h => by
    simp only [ProcJ.Ref.execCases] at h
    exact jump_le hd h
  | .case conds body rest, n + 1, A, p, v, st, st', L, d, e, hd, h => by
    simp only [ProcJ.Ref.execCases] at h
    generalize hr : ProcJ.Ref.anyMatches P n p v conds st = r at h
    obtain ⟨s1, rv⟩ := r
    cases rv with
    | error o1 => cases h; exact absurd rfl (ends_ne_jump (anyMatches_ends hr) L)
    | ok bv =>
      cases bv with
      | true => exact jump_le hd.2.1 h
      | false => exact execCases_jump_le rest n A p v s1 st' L d e hd.2.2 h

/-- the same for a block entered at a label -/
theorem seekCases_jump_le : ∀ (cs : Cases) (n : Nat) (A : Act) (L0 : Nat) (st st' : St) (L d e : Nat),
    DiscC fd sd P B d e cs → seekCases P n A cs L0 st = (st', .jump L) → fd L ≤ d ∧ sd L ≤ e
  | _, 0, _, _, _, _, _, _, _, _, h => by simp [ProcJ.Ref.seekCases] at h
  | .nil, _ + 1, _, _, _, _, _, _, _, _, h => by simp [ProcJ.Ref.seekCases] at h
  | .else_ body, n + 1, _, _, _, _, _, _, _, hd, h => by
    simp only [ProcJ.Ref.seekCases] at h
    exact jump_le hd h
  | .case conds body rest, n + 1, A, L0, st, st', L, d, e, hd, h => by
    simp only [ProcJ.Ref.seekCases] at h
    split at h
    · exact jump_le hd.2.1 h
    · exact seekCases_jump_le rest n A L0 st st' L d e hd.2.2 h

end

/-! ### what the statement-independent pieces cannot answer -/

theorem liftV_ne_ill {s s' : St} {p : Pos} {r : Res Val} : liftV s p r ≠ (s', .error .illFormed) := by
  cases r <;> simp [liftV]

theorem relTest_ne_ill {p : Pos} {op : Op} {a b : Val} : relTest p op a b ≠ .error .illFormed := by
  unfold relTest
  split <;> simp

theorem stepSign_ne_ill {p : Pos} {sv : Val} : stepSign p sv ≠ .error .illFormed := by
  intro h
  unfold stepSign at h
  split at h
  · rename_i o ho
    cases h
    exact relTest_ne_ill ho
  · cases h
  · split at h
    · rename_i o ho
      cases h
      exact relTest_ne_ill ho
    · cases h
    · cases h

/-! ### the invariant -/

/-- the mode a statement at depths `d` / `e` may be executed in -/
def ModeOk (fd sd : Nat → Nat) (d e : Nat) : Mode → Prop
  | .run => True
  | .seek L => fd L = d ∧ sd L = e

/-- the thirteen functions of the mutual block never answer `illFormed`, at one amount of fuel -/
structure Inv (fd sd : Nat → Nat) (P : Program) (n : Nat) : Prop where
  eval : ∀ (e : Expr) (s s' : St), CallsE P e → eval P n e s ≠ (s', .error .illFormed)
  evalTo : ∀ (e : Expr) (t : Ty) (s s' : St), CallsE P e → evalTo P n e t s ≠ (s', .error .illFormed)
  evalArgs : ∀ (args : Args) (s s' : St), CallsA P args → evalArgs P n args s ≠ (s', .error .illFormed)
  call : ∀ (f : Nat) (args : Args) (s s' : St), (P.procs[f]?).isSome = true → CallsA P args →
    call P n f args s ≠ (s', .error .illFormed)
  printItems : ∀ (items : List PrintItem) (s s' : St), CallsI P items → printItems P n items s ≠ (s', .illFormed)
  evalCond : ∀ (c : Expr) (s s' : St), CallsE P c → evalCond P n c s ≠ (s', .error .illFormed)
  caseMatches : ∀ (p : Pos) (subj : Val) (c : CaseExpr) (s s' : St), CallsC P c →
    caseMatches P n p subj c s ≠ (s', .error .illFormed)
  anyMatches : ∀ (p : Pos) (subj : Val) (cs : List CaseExpr) (s s' : St), CallsCs P cs →
    anyMatches P n p subj cs s ≠ (s', .error .illFormed)
  exec : ∀ (A : Act) (s : Stmt) (d e : Nat) (m : Mode) (st st' : St), ActOk fd sd P A.body → Disc fd sd P A.body d e s →
    ModeOk fd sd d e m → exec P n A s m st ≠ (st', .illFormed)
  execCases : ∀ (A : Act) (p : Pos) (v : Val) (cs : Cases) (d e : Nat) (st st' : St), ActOk fd sd P A.body →
    DiscC fd sd P A.body d e cs → execCases P n A p v cs st ≠ (st', .illFormed)
  seekCases : ∀ (A : Act) (cs : Cases) (L d e : Nat) (st st' : St), ActOk fd sd P A.body → DiscC fd sd P A.body d e cs →
    fd L = d ∧ sd L = e → seekCases P n A cs L st ≠ (st', .illFormed)
  selectSeek : ∀ (A : Act) (cs : Cases) (L d e : Nat) (st st' : St), ActOk fd sd P A.body → DiscC fd sd P A.body d e cs →
    fd L = d ∧ sd L = e → selectSeek P n A cs L st ≠ (st', .illFormed)
  forIter : ∀ (A : Act) (x : Var) (t : Ty) (h sv : Val) (up : Bool) (body : Stmt) (p : Pos) (m : Mode) (d e : Nat)
    (st st' : St), ActOk fd sd P A.body → Disc fd sd P A.body d e body → ModeOk fd sd d e m →
    forIter P n A x t h sv up body p m st ≠ (st', .illFormed)

section
variable {fd sd : Nat → Nat} {P : Program}

theorem inv_zero : Inv fd sd P 0 := by
  refine ⟨?_, ?_, ?_, ?_, ?_, ?_, ?_, ?_, ?_, ?_, ?_, ?_, ?_⟩ <;> intros <;> intro h <;>
    simp only [ProcJ.Ref.eval, ProcJ.Ref.evalTo, ProcJ.Ref.evalArgs, ProcJ.Ref.call, ProcJ.Ref.printItems,
      ProcJ.Ref.evalCond, ProcJ.Ref.caseMatches, ProcJ.Ref.anyMatches, ProcJ.Ref.exec, ProcJ.Ref.execCases,
      ProcJ.Ref.seekCases, ProcJ.Ref.selectSeek, ProcJ.Ref.forIter] at h <;> cases h

/-- the rule of `seq` and IF for a jump out of one of their parts -/
theorem catch_noIll {n : Nat} (ih : Inv fd sd P n) (A : Act) (hA : ActOk fd sd P A.body) (whole : Stmt) (d e : Nat)
    (hw : Disc fd sd P A.body d e whole) (r : St × Outcome) (st' : St) (hr1 : ∀ s1, r ≠ (s1, .illFormed))
    (hr2 : ∀ s1 L1, r = (s1, .jump L1) → fd L1 ≤ d ∧ sd L1 ≤ e)
    (h : (match (generalizing := false) r with
          | (s', .jump L) => if whole.hasLabel L = true then ProcJ.Ref.exec P n A whole (.seek L) s' else (s', .jump L)
          | r => r) = (st', .illFormed)) : False := by
  obtain ⟨s1, o1⟩ := r
  cases o1 with
  | jump L1 =>
    simp only at h
    split at h
    · rename_i hl
      have hge := label_ge whole d e L1 hw hl
      have hle := hr2 _ _ rfl
      exact ih.exec A whole d e (.seek L1) s1 st' hA hw ⟨by omega, by omega⟩ h
    · cases h
  | illFormed => exact hr1 s1 rfl
  | _ => cases h

/-- the rule of WHILE and DO for the answer of the body -/
theorem loop_noIll {n : Nat} (ih : Inv fd sd P n) (A : Act) (hA : ActOk fd sd P A.body) (whole body : Stmt) (d e : Nat)
    (hw : Disc fd sd P A.body d e whole) (hb : Disc fd sd P A.body d e body) (r : St × Outcome) (st' : St)
    (hr1 : ∀ s1, r ≠ (s1, .illFormed)) (hr2 : ∀ s1 L1, r = (s1, .jump L1) → fd L1 ≤ d ∧ sd L1 ≤ e)
    (h : (match (generalizing := false) r with
          | (s', .normal) => ProcJ.Ref.exec P n A whole .run s'
          | (s', .jump L) => if body.hasLabel L = true then ProcJ.Ref.exec P n A whole (.seek L) s' else (s', .jump L)
          | r => r) = (st', .illFormed)) : False := by
  obtain ⟨s1, o1⟩ := r
  cases o1 with
  | normal => exact ih.exec A whole d e .run s1 st' hA hw trivial h
  | jump L1 =>
    simp only at h
    split at h
    · rename_i hl
      have hge := label_ge body d e L1 hb hl
      have hle := hr2 _ _ rfl
      exact ih.exec A whole d e (.seek L1) s1 st' hA hw ⟨by omega, by omega⟩ h
    · cases h
  | illFormed => exact hr1 s1 rfl
  | _ => cases h

/-- the induction step; `hW`: every procedure body may be run by an activation -/
theorem inv_succ (hW : ∀ (f : Nat) (d : ProcDecl Stmt), P.procs[f]? = some d → ActOk fd sd P d.body) (n : Nat)
    (ih : Inv fd sd P n) : Inv fd sd P (n + 1) := by
  refine ⟨?_, ?_, ?_, ?_, ?_, ?_, ?_, ?_, ?_, ?_, ?_, ?_, ?_⟩
  · -- eval
    intro e s s' hc h
    cases e with
    | lit v p => simp only [ProcJ.Ref.eval] at h; cases h
    | var x t p => simp only [ProcJ.Ref.eval] at h; cases h
    | un op e p =>
      simp only [ProcJ.Ref.eval] at h
      generalize hr : ProcJ.Ref.eval P n e s = r at h
      obtain ⟨s1, rv⟩ := r
      cases rv with
      | ok v => exact liftV_ne_ill h
      | error o1 => cases h; exact ih.eval e _ _ hc hr
    | bin op l r t p =>
      have hc' : CallsE P l ∧ CallsE P r := hc
      simp only [ProcJ.Ref.eval] at h
      generalize hr : ProcJ.Ref.eval P n l s = r1 at h
      obtain ⟨s1, rv⟩ := r1
      cases rv with
      | error o1 => cases h; exact ih.eval _ _ _ hc'.1 hr
      | ok a =>
        simp only at h
        generalize hr2 : ProcJ.Ref.eval P n r s1 = r2 at h
        obtain ⟨s2, rv2⟩ := r2
        cases rv2 with
        | error o2 => cases h; exact ih.eval _ _ _ hc'.2 hr2
        | ok b => exact liftV_ne_ill h
    | paren e p => simp only [ProcJ.Ref.eval] at h; exact ih.eval e _ _ hc h
    | callFn f args t p =>
      have hc' : (P.procs[f]?).isSome = true ∧ CallsA P args := hc
      simp only [ProcJ.Ref.eval] at h
      exact ih.call _ _ _ _ hc'.1 hc'.2 h
  · -- evalTo
    intro e t s s' hc h
    simp only [ProcJ.Ref.evalTo] at h
    generalize hr : ProcJ.Ref.eval P n e s = r at h
    obtain ⟨s1, rv⟩ := r
    cases rv with
    | ok v => exact liftV_ne_ill h
    | error o1 => cases h; exact ih.eval _ _ _ hc hr
  · -- evalArgs
    intro args s s' hc h
    cases args with
    | nil => simp only [ProcJ.Ref.evalArgs] at h; cases h
    | cons e pn pt rest =>
      have hc' : CallsE P e ∧ CallsA P rest := hc
      simp only [ProcJ.Ref.evalArgs] at h
      generalize hr : ProcJ.Ref.evalTo P n e pt s = r at h
      obtain ⟨s1, rv⟩ := r
      cases rv with
      | error o1 => cases h; exact ih.evalTo _ _ _ _ hc'.1 hr
      | ok v =>
        simp only at h
        generalize hr2 : ProcJ.Ref.evalArgs P n rest s1 = r2 at h
        obtain ⟨s2, rv2⟩ := r2
        cases rv2 with
        | error o2 => cases h; exact ih.evalArgs _ _ _ hc'.2 hr2
        | ok vs => cases h
  · -- call
    intro f args s s' hf hc h
    simp only [ProcJ.Ref.call] at h
    cases hd : P.procs[f]? with
    | none => rw [hd] at hf; cases hf
    | some d =>
      simp only [hd] at h
      generalize hr : ProcJ.Ref.evalArgs P n args s = r at h
      obtain ⟨s1, rv⟩ := r
      cases rv with
      | error o1 => cases h; exact ih.evalArgs _ _ _ hc hr
      | ok vals =>
        simp only at h
        generalize hb : ProcJ.Ref.exec P n ⟨true, d.body⟩ d.body .run (enter d f vals s1) = rb at h
        obtain ⟨s2, ob⟩ := rb
        simp only at h
        have hA := hW f d hd
        cases hret : returns ob with
        | true => simp only [hret, if_true] at h; cases h
        | false =>
          simp only [hret, Bool.false_eq_true, if_false] at h
          cases ob with
          | jump L =>
            have hs := jump_shape n P _ _ _ _ _ L hb
            have := hA.2 L hs.1
            rw [hs.2] at this
            cases this
          | notHere => exact exec_run_ne_notHere hb rfl
          | illFormed => exact ih.exec ⟨true, d.body⟩ d.body 0 0 .run _ s2 hA hA.1 trivial hb
          | normal => cases hret
          | exited => cases hret
          | halted => simp [callFail] at h
          | ret q => simp [callFail] at h
          | error c q => simp [callFail] at h
          | inexact => simp [callFail] at h
          | outOfFuel => simp [callFail] at h
  · -- printItems
    intro items s s' hc h
    cases items with
    | nil => simp only [ProcJ.Ref.printItems] at h; cases h
    | cons it rest =>
      cases it with
      | comma => simp only [ProcJ.Ref.printItems] at h; exact ih.printItems rest _ _ hc h
      | semicolon => simp only [ProcJ.Ref.printItems] at h; exact ih.printItems rest _ _ hc h
      | expr e =>
        have hc' : CallsE P e ∧ CallsI P rest := hc
        simp only [ProcJ.Ref.printItems] at h
        generalize hr : ProcJ.Ref.eval P n e s = r at h
        obtain ⟨s1, rv⟩ := r
        cases rv with
        | error o1 => cases h; exact ih.eval _ _ _ hc'.1 hr
        | ok v =>
          simp only at h
          cases hpv : RbModel.Proc.Ref.printValue v with
          | none => simp only [hpv] at h; cases h
          | some pv => simp only [hpv] at h; exact ih.printItems _ _ _ hc'.2 h
  · -- evalCond
    intro c s s' hc h
    simp only [ProcJ.Ref.evalCond] at h
    generalize hr : ProcJ.Ref.eval P n c s = r at h
    obtain ⟨s1, rv⟩ := r
    cases rv with
    | error o1 => cases h; exact ih.eval _ _ _ hc hr
    | ok v =>
      simp only at h
      cases ht : RbModel.Proc.Ref.truthy v with
      | some b => simp only [ht] at h; cases h
      | none => simp only [ht] at h; cases h
  · -- caseMatches
    intro p subj c s s' hc h
    cases c with
    | simple e =>
      simp only [ProcJ.Ref.caseMatches] at h
      generalize hr : ProcJ.Ref.eval P n e s = r at h
      obtain ⟨s1, rv⟩ := r
      cases rv with
      | error o1 => cases h; exact ih.eval _ _ _ hc hr
      | ok v =>
        simp only [Prod.mk.injEq] at h
        exact relTest_ne_ill h.2
    | is op e =>
      simp only [ProcJ.Ref.caseMatches] at h
      generalize hr : ProcJ.Ref.eval P n e s = r at h
      obtain ⟨s1, rv⟩ := r
      cases rv with
      | error o1 => cases h; exact ih.eval _ _ _ hc hr
      | ok v =>
        simp only [Prod.mk.injEq] at h
        exact relTest_ne_ill h.2
    | range lo hi =>
      have hc' : CallsE P lo ∧ CallsE P hi := hc
      simp only [ProcJ.Ref.caseMatches] at h
      generalize hr : ProcJ.Ref.eval P n lo s = r at h
      obtain ⟨s1, rv⟩ := r
      cases rv with
      | error o1 => cases h; exact ih.eval _ _ _ hc'.1 hr
      | ok l =>
        simp only at h
        cases hrt : relTest p .greaterOrEqual subj l with
        | error o1 => simp only [hrt] at h; cases h; exact relTest_ne_ill hrt
        | ok b =>
          cases b with
          | false => simp only [hrt] at h; cases h
          | true =>
            simp only [hrt] at h
            generalize hr2 : ProcJ.Ref.eval P n hi s1 = r2 at h
            obtain ⟨s2, rv2⟩ := r2
            cases rv2 with
            | error o2 => cases h; exact ih.eval _ _ _ hc'.2 hr2
            | ok hv =>
              simp only [Prod.mk.injEq] at h
              exact relTest_ne_ill h.2
  · -- anyMatches
    intro p subj cs s s' hc h
    cases cs with
    | nil => simp only [ProcJ.Ref.anyMatches] at h; cases h
    | cons c rest =>
      have hc' : CallsC P c ∧ CallsCs P rest := hc
      simp only [ProcJ.Ref.anyMatches] at h
      generalize hr : ProcJ.Ref.caseMatches P n p subj c s = r at h
      obtain ⟨s1, rv⟩ := r
      cases rv with
      | error o1 => cases h; exact ih.caseMatches _ _ _ _ _ hc'.1 hr
      | ok b =>
        cases b with
        | true => cases h
        | false => exact ih.anyMatches _ _ _ _ _ hc'.2 h
  · -- exec
    intro A st d e m s s' hA hd hm h
    cases st with
    | skip => cases m <;> simp only [ProcJ.Ref.exec] at h <;> cases h
    | assign x t ex p =>
      cases m with
      | seek L0 => simp only [ProcJ.Ref.exec] at h; cases h
      | run =>
        have hd' : CallsE P ex := hd
        simp only [ProcJ.Ref.exec] at h
        generalize hr : ProcJ.Ref.evalTo P n ex t s = r at h
        obtain ⟨s1, rv⟩ := r
        cases rv with
        | ok v => cases h
        | error o1 => cases h; exact ih.evalTo _ _ _ _ hd' hr
    | print items p =>
      cases m with
      | seek L0 => simp only [ProcJ.Ref.exec] at h; cases h
      | run =>
        have hd' : CallsI P items := hd
        simp only [ProcJ.Ref.exec] at h
        generalize hr : ProcJ.Ref.printItems P n items s = r at h
        obtain ⟨s1, o1⟩ := r
        cases o1 with
        | illFormed => exact ih.printItems _ _ _ hd' hr
        | normal => simp only at h; split at h <;> cases h
        | _ => cases h
    | read x t p =>
      cases m with
      | seek L0 => simp only [ProcJ.Ref.exec] at h; cases h
      | run =>
        simp only [ProcJ.Ref.exec] at h
        split at h
        · cases h
        · split at h <;> cases h
    | end_ p => cases m <;> simp only [ProcJ.Ref.exec] at h <;> cases h
    | callSub f args p =>
      cases m with
      | seek L0 => simp only [ProcJ.Ref.exec] at h; cases h
      | run =>
        have hd' : (P.procs[f]?).isSome = true ∧ CallsA P args := hd
        simp only [ProcJ.Ref.exec] at h
        generalize hr : ProcJ.Ref.call P n f args s = r at h
        obtain ⟨s1, rv⟩ := r
        cases rv with
        | ok v => cases h
        | error o1 => cases h; exact ih.call _ _ _ _ hd'.1 hd'.2 hr
    | exitProc p => cases m <;> simp only [ProcJ.Ref.exec] at h <;> cases h
    | label L' =>
      cases m with
      | run => simp only [ProcJ.Ref.exec] at h; cases h
      | seek L0 => simp only [ProcJ.Ref.exec] at h; split at h <;> cases h
    | goto L' => cases m <;> simp only [ProcJ.Ref.exec] at h <;> cases h
    | ret p => cases m <;> simp only [ProcJ.Ref.exec] at h <;> cases h
    | gosub L' =>
      cases m with
      | seek L0 => simp only [ProcJ.Ref.exec] at h; cases h
      | run =>
        have hd' : fd L' = 0 ∧ sd L' = 0 ∧ A.body.hasLabel L' = true := hd
        simp only [ProcJ.Ref.exec] at h
        generalize hr : ProcJ.Ref.exec P n A A.body (.seek L') s = r at h
        obtain ⟨s1, o1⟩ := r
        simp only [Prod.mk.injEq] at h
        cases o1 with
        | jump L1 =>
          have hs := jump_shape n P A A.body _ s s1 L1 hr
          have := hA.2 L1 hs.1
          rw [hs.2] at this
          cases this
        | notHere => exact exec_seek_ne_notHere hr hd'.2.2 rfl
        | illFormed => exact ih.exec A A.body 0 0 (.seek L') s s1 hA hA.1 ⟨hd'.1, hd'.2.1⟩ hr
        | normal => cases hip : A.inProc <;> simp [gosubEnd, hip] at h
        | ret q => simp [gosubEnd] at h
        | exited => simp [gosubEnd] at h
        | halted => simp [gosubEnd] at h
        | error c q => simp [gosubEnd] at h
        | inexact => simp [gosubEnd] at h
        | outOfFuel => simp [gosubEnd] at h
    | seq a b =>
      have hd' : Disc fd sd P A.body d e a ∧ Disc fd sd P A.body d e b := hd
      simp only [ProcJ.Ref.exec] at h
      split at h
      · refine catch_noIll ih A hA (.seq a b) d e hd _ s' ?_ ?_ h
        · intro s1 hr
          split at hr
          · generalize hra : ProcJ.Ref.exec P n A a m s = ra at hr
            obtain ⟨s2, o2⟩ := ra
            cases o2 with
            | normal => exact ih.exec A b d e .run s2 s1 hA hd'.2 trivial hr
            | illFormed => exact ih.exec A a d e m s s2 hA hd'.1 hm hra
            | _ => cases hr
          · exact ih.exec A b d e m s s1 hA hd'.2 hm hr
        · intro s1 L1 hr
          split at hr
          · generalize hra : ProcJ.Ref.exec P n A a m s = ra at hr
            obtain ⟨s2, o2⟩ := ra
            cases o2 with
            | normal => exact jump_le hd'.2 hr
            | jump L2 => cases hr; exact jump_le hd'.1 hra
            | _ => cases hr
          · exact jump_le hd'.2 hr
      · cases h
    | ifs c thn els p =>
      have hd' : CallsE P c ∧ Disc fd sd P A.body d e thn ∧ Disc fd sd P A.body d e els := hd
      simp only [ProcJ.Ref.exec] at h
      split at h
      · refine catch_noIll ih A hA (.ifs c thn els p) d e hd _ s' ?_ ?_ h
        · intro s1 hr
          cases m with
          | run =>
            simp only at hr
            generalize hrc : ProcJ.Ref.evalCond P n c s = rc at hr
            obtain ⟨s0, rv⟩ := rc
            cases rv with
            | error o1 => cases hr; exact ih.evalCond _ _ _ hd'.1 hrc
            | ok bv =>
              cases bv with
              | true => exact ih.exec A thn d e .run s0 s1 hA hd'.2.1 trivial hr
              | false => exact ih.exec A els d e .run s0 s1 hA hd'.2.2 trivial hr
          | seek L0 =>
            simp only at hr
            split at hr
            · exact ih.exec A thn d e (.seek L0) s s1 hA hd'.2.1 hm hr
            · exact ih.exec A els d e (.seek L0) s s1 hA hd'.2.2 hm hr
        · intro s1 L1 hr
          cases m with
          | run =>
            simp only at hr
            generalize hrc : ProcJ.Ref.evalCond P n c s = rc at hr
            obtain ⟨s0, rv⟩ := rc
            cases rv with
            | error o1 => cases hr; exact absurd rfl (ends_ne_jump (evalCond_ends hrc) L1)
            | ok bv =>
              cases bv with
              | true => exact jump_le hd'.2.1 hr
              | false => exact jump_le hd'.2.2 hr
          | seek L0 =>
            simp only at hr
            split at hr
            · exact jump_le hd'.2.1 hr
            · exact jump_le hd'.2.2 hr
      · cases h
    | select ex cases p =>
      have hd' : CallsE P ex ∧ DiscC fd sd P A.body d (e + 1) cases ∧
        ∀ L ∈ gotosC cases, cases.hasLabel L = true ∨ sd L ≤ e := hd
      cases m with
      | seek L0 =>
        simp only [ProcJ.Ref.exec] at h
        split at h
        · rename_i hl
          have hge := label_geC cases d (e + 1) L0 hd'.2.1 hl
          have hm' : fd L0 = d ∧ sd L0 = e := hm
          omega
        · cases h
      | run =>
        simp only [ProcJ.Ref.exec] at h
        generalize hre : ProcJ.Ref.eval P n ex s = re at h
        obtain ⟨s1, rv⟩ := re
        cases rv with
        | error o1 => cases h; exact ih.eval _ _ _ hd'.1 hre
        | ok subject =>
          simp only at h
          generalize hr : ProcJ.Ref.execCases P n A p subject cases s1 = r at h
          obtain ⟨s2, o2⟩ := r
          cases o2 with
          | jump L1 =>
            simp only at h
            split at h
            · rename_i hl
              have hle := execCases_jump_le cases n A p subject s1 s2 L1 d (e + 1) hd'.2.1 hr
              have hge := label_geC cases d (e + 1) L1 hd'.2.1 hl
              exact ih.selectSeek A cases L1 d (e + 1) s2 s' hA hd'.2.1 ⟨by omega, by omega⟩ h
            · cases h
          | illFormed => exact ih.execCases A p subject cases d (e + 1) s1 s2 hA hd'.2.1 hr
          | _ => cases h
    | forLoop x t lo hi step body p =>
      have hd' : CallsE P lo ∧ CallsE P hi ∧ (∀ se, step = some se → CallsE P se) ∧ Disc fd sd P A.body (d + 1) e body ∧
        ∀ L ∈ gotosS body, body.hasLabel L = true ∨ fd L ≤ d := hd
      cases m with
      | seek L0 =>
        simp only [ProcJ.Ref.exec] at h
        split at h
        · rename_i hl
          have hge := label_ge body (d + 1) e L0 hd'.2.2.2.1 hl
          have hm' : fd L0 = d ∧ sd L0 = e := hm
          omega
        · cases h
      | run =>
        simp only [ProcJ.Ref.exec] at h
        have key : ∀ (h' sv : Val) (up : Bool) (s0 : St),
            ProcJ.Ref.forIter P n A x t h' sv up body p .run s0 = (s', .illFormed) → False :=
          fun h' sv up s0 hf => ih.forIter A x t h' sv up body p .run (d + 1) e s0 s' hA hd'.2.2.2.1 trivial hf
        generalize hr1 : ProcJ.Ref.evalTo P n lo t s = r1 at h
        obtain ⟨s1, rv1⟩ := r1
        cases rv1 with
        | error o1 => cases h; exact ih.evalTo _ _ _ _ hd'.1 hr1
        | ok l =>
          simp only at h
          generalize hr2 : ProcJ.Ref.evalTo P n hi t (s1.set x l) = r2 at h
          obtain ⟨s2, rv2⟩ := r2
          cases rv2 with
          | error o2 => cases h; exact ih.evalTo _ _ _ _ hd'.2.1 hr2
          | ok hv =>
            simp only at h
            cases step with
            | none => exact key _ _ _ _ h
            | some se =>
              simp only at h
              generalize hr3 : ProcJ.Ref.eval P n se s2 = r3 at h
              obtain ⟨s3, rv3⟩ := r3
              cases rv3 with
              | error o3 => cases h; exact ih.eval _ _ _ (hd'.2.2.1 se rfl) hr3
              | ok sv =>
                simp only at h
                cases hsg : stepSign p sv with
                | error o4 => simp only [hsg] at h; cases h; exact stepSign_ne_ill hsg
                | ok sg =>
                  cases sg <;> simp only [hsg] at h
                  · exact key _ _ _ _ h
                  · exact key _ _ _ _ h
                  · cases h
    | «while» c body p =>
      have hd' : CallsE P c ∧ Disc fd sd P A.body d e body := hd
      simp only [ProcJ.Ref.exec] at h
      split at h
      · cases m with
        | run =>
          simp only at h
          generalize hrc : ProcJ.Ref.evalCond P n c s = rc at h
          obtain ⟨s1, rv⟩ := rc
          cases rv with
          | error o1 => cases h; exact ih.evalCond _ _ _ hd'.1 hrc
          | ok bv =>
            cases bv with
            | false => cases h
            | true =>
              simp only at h
              refine loop_noIll ih A hA (.while c body p) body d e hd hd'.2 _ s' ?_ ?_ h
              · intro s2 hr; exact ih.exec A body d e .run s1 s2 hA hd'.2 trivial hr
              · intro s2 L1 hr; exact jump_le hd'.2 hr
        | seek L0 =>
          simp only at h
          refine loop_noIll ih A hA (.while c body p) body d e hd hd'.2 _ s' ?_ ?_ h
          · intro s2 hr; exact ih.exec A body d e (.seek L0) s s2 hA hd'.2 hm hr
          · intro s2 L1 hr; exact jump_le hd'.2 hr
      · cases h
    | doLoop c top until_ body p =>
      have hd' : CallsE P c ∧ Disc fd sd P A.body d e body := hd
      simp only [ProcJ.Ref.exec] at h
      split at h
      · cases top with
        | true =>
          simp only [if_true] at h
          cases m with
          | run =>
            simp only at h
            generalize hrc : ProcJ.Ref.evalCond P n c s = rc at h
            obtain ⟨s1, rv⟩ := rc
            cases rv with
            | error o1 => cases h; exact ih.evalCond _ _ _ hd'.1 hrc
            | ok bv =>
              simp only at h
              split at h
              · refine loop_noIll ih A hA (.doLoop c true until_ body p) body d e hd hd'.2 _ s' ?_ ?_ h
                · intro s2 hr; exact ih.exec A body d e .run s1 s2 hA hd'.2 trivial hr
                · intro s2 L1 hr; exact jump_le hd'.2 hr
              · cases h
          | seek L0 =>
            simp only at h
            split at h
            · refine loop_noIll ih A hA (.doLoop c true until_ body p) body d e hd hd'.2 _ s' ?_ ?_ h
              · intro s2 hr; exact ih.exec A body d e (.seek L0) s s2 hA hd'.2 hm hr
              · intro s2 L1 hr; exact jump_le hd'.2 hr
            · cases h
        | false =>
          simp only [Bool.false_eq_true, if_false] at h
          generalize hrb : ProcJ.Ref.exec P n A body m s = rb at h
          obtain ⟨s3, o3⟩ := rb
          cases o3 with
          | normal =>
            simp only at h
            generalize hrc : ProcJ.Ref.evalCond P n c s3 = rc at h
            obtain ⟨s1, rv⟩ := rc
            cases rv with
            | error o1 => cases h; exact ih.evalCond _ _ _ hd'.1 hrc
            | ok bv =>
              simp only at h
              split at h
              · exact ih.exec A _ d e .run s1 s' hA hd trivial h
              · cases h
          | jump L1 =>
            simp only at h
            split at h
            · rename_i hl
              have hge := label_ge body d e L1 hd'.2 hl
              have hle := jump_le hd'.2 hrb
              exact ih.exec A _ d e (.seek L1) s3 s' hA hd ⟨by omega, by omega⟩ h
            · cases h
          | illFormed => exact ih.exec A body d e m s s3 hA hd'.2 hm hrb
          | _ => cases h
      · cases h
  · -- execCases
    intro A p v cs d e st st' hA hd h
    cases cs with
    | nil => simp only [ProcJ.Ref.execCases] at h; cases h
    | else_ body =>
      simp only [ProcJ.Ref.execCases] at h
      exact ih.exec A body d e .run st st' hA hd trivial h
    | case conds body rest =>
      have hd' : CallsCs P conds ∧ Disc fd sd P A.body d e body ∧ DiscC fd sd P A.body d e rest := hd
      simp only [ProcJ.Ref.execCases] at h
      generalize hr : ProcJ.Ref.anyMatches P n p v conds st = r at h
      obtain ⟨s1, rv⟩ := r
      cases rv with
      | error o1 => cases h; exact ih.anyMatches _ _ _ _ _ hd'.1 hr
      | ok bv =>
        cases bv with
        | true => exact ih.exec A body d e .run s1 st' hA hd'.2.1 trivial h
        | false => exact ih.execCases A p v rest d e s1 st' hA hd'.2.2 h
  · -- seekCases
    intro A cs L d e st st' hA hd hm h
    cases cs with
    | nil => simp only [ProcJ.Ref.seekCases] at h; cases h
    | else_ body =>
      simp only [ProcJ.Ref.seekCases] at h
      exact ih.exec A body d e (.seek L) st st' hA hd hm h
    | case conds body rest =>
      have hd' : CallsCs P conds ∧ Disc fd sd P A.body d e body ∧ DiscC fd sd P A.body d e rest := hd
      simp only [ProcJ.Ref.seekCases] at h
      split at h
      · exact ih.exec A body d e (.seek L) st st' hA hd'.2.1 hm h
      · exact ih.seekCases A rest L d e st st' hA hd'.2.2 hm h
  · -- selectSeek
    intro A cs L d e st st' hA hd hm h
    simp only [ProcJ.Ref.selectSeek] at h
    generalize hr : ProcJ.Ref.seekCases P n A cs L st = r at h
    obtain ⟨s1, o1⟩ := r
    cases o1 with
    | jump L1 =>
      simp only at h
      split at h
      · rename_i hl
        have hle := seekCases_jump_le cs n A L st s1 L1 d e hd hr
        have hge := label_geC cs d e L1 hd hl
        exact ih.selectSeek A cs L1 d e s1 st' hA hd ⟨by omega, by omega⟩ h
      · cases h
    | illFormed => exact ih.seekCases A cs L d e st s1 hA hd hm hr
    | _ => cases h
  · -- forIter
    intro A x t hv sv up body p m d e st st' hA hd hm h
    simp only [ProcJ.Ref.forIter] at h
    have body_part : ∀ (r : St × Outcome), ProcJ.Ref.exec P n A body m st = r →
        (match r with
          | (s', .normal) =>
            match (plus (s'.get x t) sv).bind (fun v => cast v t) with
            | .ok v => ProcJ.Ref.forIter P n A x t hv sv up body p .run (s'.set x v)
            | .err e => (s', .error (codeOf e) p)
            | .inexact => (s', .inexact)
          | (s', .jump L) =>
            if body.hasLabel L = true then ProcJ.Ref.forIter P n A x t hv sv up body p (.seek L) s' else (s', .jump L)
          | r => r) = (st', .illFormed) → False := by
      intro rb hrb h
      obtain ⟨s3, o3⟩ := rb
      cases o3 with
      | normal =>
        simp only at h
        split at h
        · exact ih.forIter A x t hv sv up body p .run d e _ st' hA hd trivial h
        · cases h
        · cases h
      | jump L1 =>
        simp only at h
        split at h
        · rename_i hl
          have hge := label_ge body d e L1 hd hl
          have hle := jump_le hd hrb
          exact ih.forIter A x t hv sv up body p (.seek L1) d e s3 st' hA hd ⟨by omega, by omega⟩ h
        · cases h
      | illFormed => exact ih.exec A body d e m st s3 hA hd hm hrb
      | _ => cases h
    cases m with
    | run =>
      simp only at h
      generalize hrc : relTest p (if up = true then Op.lessOrEqual else Op.greaterOrEqual) (st.get x t) hv = rc at h
      cases rc with
      | error o1 => cases h; exact relTest_ne_ill hrc
      | ok bv =>
        cases bv with
        | false => cases h
        | true => exact body_part _ rfl h
    | seek L0 => exact body_part _ rfl h

theorem inv_all (hW : ∀ (f : Nat) (d : ProcDecl Stmt), P.procs[f]? = some d → ActOk fd sd P d.body) :
    ∀ n, Inv fd sd P n
  | 0 => inv_zero
  | n + 1 => inv_succ hW n (inv_all hW n)

/-- **a disciplined statement of a disciplined program never answers `illFormed`** -/
theorem exec_never_illFormed (hW : ∀ (f : Nat) (d : ProcDecl Stmt), P.procs[f]? = some d → ActOk fd sd P d.body)
    (n : Nat) (A : Act) (s : Stmt) (d e : Nat) (m : Mode) (st : St) (hA : ActOk fd sd P A.body)
    (hd : Disc fd sd P A.body d e s) (hm : ModeOk fd sd d e m) : (exec P n A s m st).2 ≠ .illFormed := by
  intro h
  exact (inv_all hW n).exec A s d e m st (exec P n A s m st).1 hA hd hm (Prod.ext rfl h)

end

end RbThm.ProcJNoIll
