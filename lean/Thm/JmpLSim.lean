import Thm.JmpLSimAsm
import Thm.JmpLSimSelect
import Thm.JmpLSimFor
import Thm.JmpLWf
/-!
Jump layer (property C05), simulation part — the statement theorem and the whole-program theorem.

`Thm/JmpLSimBase.lean` holds the infrastructure (`Ctx`, `Rel`, `LabAt`, `Entry`, the relative `StmtSpec`); `Thm/JmpLSimJump.lean`
the four new statements (`label`, `goto` with its `PopRegisters` / `PopValueStackIntoA` runs, `gosub` as a nested run of the whole
program body, `ret`); `Thm/JmpLSim{Seq,Stmt,While,Do,If,Read,Select,For}.lean` the constructs of the core language, each with
its two entry forms (first instruction / a label inside) and the jump-handling rule; `Thm/JmpLSimProg.lean` the lift to whole
programs (DATA hoisting, the DATA phase, the label tables of the reordered body, the final `Halt`, RETURN without GOSUB);
`Thm/JmpLWf.lean` the soundness of the boolean premise check.  Here they are put together.
-/
namespace RbThm.JmpLSim
set_option linter.unusedVariables false
set_option linter.unusedSimpArgs false
open RbModel RbModel.Num RbModel.JmpL RbModel.JmpL.Compile RbModel.JmpL.Vm
open RbModel.Ast (Pos PrintItem CaseExpr)
open RbModel.Ref (St)
open RbModel.JmpL.Ref
open RbThm.JmpLLen

/-- **`compileStmt_correct`** — every statement of the jump layer (the core language of C01 plus `label`, `GOTO`, `GOSUB`,
`RETURN`), placed anywhere in the code of a program whose context is consistent (`Ctx.Ok`), at any FOR / SELECT depth, entered
from its first instruction or — in seek mode — at a label inside it, on top of any register / value / GOSUB stacks: for every
amount of fuel the VM does what `JmpL.Ref.exec` prescribes, in the relative sense of `StmtSpec` (normal end: end of the
statement's code, the four stacks restored; `jump L`: at the label, the frames and selectors of the constructs left behind
removed; `ret`: at the `Return` instruction, everything below the statement's own depth intact; END / error: the run ends that
way with the same output).  No bound on program size, nesting depth, number of pending GOSUBs or run length. -/
theorem compileStmt_correct (C : Ctx) (hC : C.Ok) : ∀ fuel, StmtIH C fuel :=
  compileStmt_correct_of C hC
    (fun fuel ih sel cases hasElse els p sfx d e off m σ s hc hl hw hen hr hd he =>
      case_select C hC fuel ih sel cases hasElse els p sfx d e off m σ s hc hl hw hen hr hd he)
    (fun fuel ih x t lo hi step body p sfx d e off m σ s hc hl hw hen hr hd he =>
      case_for C hC fuel ih x t lo hi step body p sfx d e off m σ s hc hl hw hen hr hd he)

/-- **`compile_correct`** — whole programs: for every program of the jump layer that satisfies the premise `ProgWf` (what
`progWfB` decides) and every amount of fuel: if the reference semantics `JmpL.Ref.run` ends normally or with END, the VM model
running the code the generator model emits (`JmpL.Compile.compile`) from the initial state reaches a `Halt` with the same
variables and the same output; if it ends with BASIC error `c` at position `p` — including error 3 at a RETURN that no GOSUB is
waiting for — the VM stops with error `c` at `p` with the same output.  (`inexact`, `outOfFuel`, `illFormed` claim nothing.) -/
theorem compile_correct (prog : SProgram) (fuel : Nat) (hw : ProgWf prog) :
    ProgSpec prog (JmpL.Ref.run fuel prog.toAst) :=
  compile_correct_of prog fuel hw compileStmt_correct

/-- **`run_correct`** — the same for the bounded interpreter `JmpL.Vm.run` that the correspondence check executes against the
real VM: for every sufficient step budget the run of the generated code ends as the reference semantics prescribes -/
theorem run_correct (prog : SProgram) (fuel : Nat) (hw : ProgWf prog) :
    RunSpec prog (JmpL.Ref.run fuel prog.toAst) :=
  runSpec_of_progSpec prog _ (compile_correct prog fuel hw)

/-- **`compile_correct_checked`** — the premise replaced by the boolean check the driver evaluates on the real front end's tree
of every explored program (`jmpl.wf`) -/
theorem compile_correct_checked (prog : SProgram) (fuel : Nat) (hw : progWfB prog = true) :
    ProgSpec prog (JmpL.Ref.run fuel prog.toAst) :=
  compile_correct prog fuel (progWfB_sound prog hw)

theorem run_correct_checked (prog : SProgram) (fuel : Nat) (hw : progWfB prog = true) :
    RunSpec prog (JmpL.Ref.run fuel prog.toAst) :=
  run_correct prog fuel (progWfB_sound prog hw)

/-- the three clauses of `ProgSpec`, spelled out -/
theorem compile_correct_normal (prog : SProgram) (fuel : Nat) (hw : ProgWf prog) (s' : St)
    (h : JmpL.Ref.run fuel prog.toAst = (s', .normal) ∨ JmpL.Ref.run fuel prog.toAst = (s', .halted)) :
    ∃ τ υ, Steps (compile prog) (Vm.init prog.slots) τ ∧ Vm.step (compile prog) τ = .halt υ ∧
      υ.env = s'.env ∧ υ.out = s'.out := by
  have := compile_correct prog fuel hw
  rcases h with h | h <;> (rw [h] at this; exact this)

theorem compile_correct_error (prog : SProgram) (fuel : Nat) (hw : ProgWf prog) (s' : St) (c : Nat) (p : Pos)
    (h : JmpL.Ref.run fuel prog.toAst = (s', .error c p)) :
    ∃ τ υ, Steps (compile prog) (Vm.init prog.slots) τ ∧ Vm.step (compile prog) τ = .error c p υ ∧ υ.out = s'.out := by
  have := compile_correct prog fuel hw
  rw [h] at this; exact this

/-! #### non-vacuity: concrete programs in the covered fragment -/

/-- `X% = 0 : GOSUB Sub1 : PRINT X% : GOTO Fin : Sub1: X% = X% + 1 : RETURN : Fin: END` -/
private def demo : SProgram :=
  ⟨[.int],
   .seq (.assign 0 .int (.lit (.int 0) ⟨1, 6⟩) ⟨1, 1⟩)
   (.seq (.gosub 0 ⟨2, 1⟩)
   (.seq (.print [.expr (.var 0 .int ⟨3, 7⟩)] ⟨3, 1⟩)
   (.seq (.goto 1 ⟨4, 1⟩)
   (.seq (.label 0 "Sub1" ⟨5, 1⟩)
   (.seq (.assign 0 .int (.bin .plus (.var 0 .int ⟨6, 6⟩) (.lit (.int 1) ⟨6, 11⟩) .int ⟨6, 9⟩) ⟨6, 1⟩)
   (.seq (.ret ⟨7, 1⟩)
   (.seq (.label 1 "Fin" ⟨8, 1⟩)
   (.seq (.end_ ⟨9, 1⟩) .skip))))))))⟩

/-- a RETURN with no GOSUB pending, from inside a FOR body: `FOR I% = 1 TO 3 : RETURN : NEXT` -/
private def demoRet : SProgram :=
  ⟨[.int],
   .seq (.forLoop 0 .int (.lit (.int 1) ⟨1, 10⟩) (.lit (.int 3) ⟨1, 15⟩) none (.seq (.ret ⟨2, 3⟩) .skip) ⟨1, 1⟩) .skip⟩

/-- the premise of `compile_correct` is satisfiable on programs that use every new statement -/
example : progWfB demo = true := by decide
example : ProgWf demo := progWfB_sound demo (by decide)
example : progWfB demoRet = true := by decide
example : ProgWf demoRet := progWfB_sound demoRet (by decide)

/-- the reference semantics answers `halted` (END after GOSUB / RETURN / GOTO) and error 3 at the RETURN: the `halted` and the
`error` clause of `ProgSpec` are hit -/
example : (JmpL.Ref.run 30 demo.toAst).2 = .halted := by decide
example : (JmpL.Ref.run 30 demoRet.toAst).2 = .error 3 ⟨2, 3⟩ := by decide

/-- … and the theorem applies to them -/
example (fuel : Nat) : ProgSpec demo (JmpL.Ref.run fuel demo.toAst) := compile_correct_checked demo fuel (by decide)
example (fuel : Nat) : RunSpec demoRet (JmpL.Ref.run fuel demoRet.toAst) := run_correct_checked demoRet fuel (by decide)

end RbThm.JmpLSim
