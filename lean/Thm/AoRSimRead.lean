import Thm.AoRSimExpr0
/-!
Layer AoR (port of the records-layer file `Thm/RecLSimRead.lean`), simulation part — `READ` with scalar variables as targets (port of `Thm/ArrLSimRead.lean`).

`READ a, b, …` is generated as `READ a : READ b : …` (one call of the built-in per target, repo fix fd1c771), which is what
the reference semantics does (`desugar (.read tgs p) = readSeq p tgs`).  One target:

    BeginCollectArguments · VarPathName x · CopyVarPathToA · PushUnnamedByRef · PushStack · BuiltInSub(Read) ·
    EnqueueToReturnStack 0 · PopStack · DequeueFromReturnStack · VarPathName x · CopyAToVarPath
-/
namespace RbThm.AoRSim
set_option linter.unusedVariables false
set_option linter.unusedSimpArgs false
open RbModel RbModel.Num RbModel.AoR RbModel.AoR.Compile RbModel.AoR.Vm
open RbModel.Ast (Pos)
open RbModel.RecL (ETy FTy FFields expand zeroOf)
open RbModel.RecL.Vm (allocTy defaultVar)
open RbThm.AoRLen RbThm.ArrLNum RbThm.RecLTy RbThm.AoRTy

set_option linter.unusedSectionVars false
variable [ExprOk]

namespace SimRead

/-- `VarPathName x · CopyVarPathToA · PushUnnamedByRef` for a scalar variable holding `cur` -/
theorem push_var_steps (code : Code) (x : Nat) (q : Pos) (τ : Vm) (c : Call) (ctx0 : List Call) (cur : Val)
    (hc : CodeAt code τ.pc [(CInstr.varPath x, q), (CInstr.copyVarPathToA, q), (CInstr.pushByRef, q)])
    (hctx : τ.ctx = c :: ctx0) (hv : τ.vars[x]? = some (.leaf cur)) :
    Steps code τ { τ with pc := τ.pc + 3, regs := { τ.regs with a := .leaf cur },
                          ctx := { c with args := c.args ++ [(.leaf cur, some ⟨.var x, [], []⟩)] } :: ctx0 } := by
  have h0 : code[τ.pc]? = some (CInstr.varPath x, q) := hc.head
  have h1 : code[τ.pc + 1]? = some (CInstr.copyVarPathToA, q) := hc.tail.head
  have h2 : code[τ.pc + 1 + 1]? = some (CInstr.pushByRef, q) := hc.tail.tail.head
  let τ1 : Vm := Vm.advance { τ with paths := ⟨.var x, [], []⟩ :: τ.paths }
  let τ2 : Vm := Vm.advance (Vm.setRA τ1 (.leaf cur))
  have s1 : Vm.step code τ = .next τ1 := by simp only [Vm.step, h0]; rfl
  have s2 : Vm.step code τ1 = .next τ2 := by
    simp only [Vm.step, τ1, Vm.advance, h1, readPath, hv, Path.flds, List.map_nil, ArrPath.getAt]; rfl
  refine Steps.cons s1 (Steps.cons s2 (Steps.one ?_))
  simp only [Vm.step, τ2, τ1, Vm.advance, Vm.setRA, h2, hctx]

/-- `DequeueFromReturnStack · VarPathName x · CopyAToVarPath`: the head of the queue is stored into variable `x` -/
theorem deq_var_steps (code : Code) (x : Nat) (q : Pos) (τ : Vm) (w : Val) (o : Option Path)
    (qr : List (RV × Option Path))
    (hc : CodeAt code τ.pc [(CInstr.dequeue, q), (CInstr.varPath x, q), (CInstr.copyAToVarPath, q)])
    (hq : τ.queue = (.leaf w, o) :: qr) (hx : x < τ.vars.length) :
    Steps code τ { τ with pc := τ.pc + 3, regs := { τ.regs with a := .leaf w }, queue := qr,
                          vars := τ.vars.set x (.leaf w) } := by
  have h0 : code[τ.pc]? = some (CInstr.dequeue, q) := hc.head
  have h1 : code[τ.pc + 1]? = some (CInstr.varPath x, q) := hc.tail.head
  have h2 : code[τ.pc + 1 + 1]? = some (CInstr.copyAToVarPath, q) := hc.tail.tail.head
  obtain ⟨w0, hv⟩ : ∃ w0, τ.vars[x]? = some w0 := ⟨_, List.getElem?_eq_getElem hx⟩
  let τ1 : Vm := Vm.advance { Vm.setRA τ (.leaf w) with queue := qr }
  let τ2 : Vm := Vm.advance { τ1 with paths := ⟨.var x, [], []⟩ :: τ.paths }
  have s1 : Vm.step code τ = .next τ1 := by simp only [Vm.step, h0, hq]; rfl
  have s2 : Vm.step code τ1 = .next τ2 := by simp only [Vm.step, τ1, Vm.advance, Vm.setRA, h1]; rfl
  refine Steps.cons s1 (Steps.cons s2 (Steps.one ?_))
  simp only [Vm.step, τ2, τ1, Vm.advance, Vm.setRA, h2, writePath, hv, Path.flds, List.map_nil, ArrPath.modAt]

/-- the call of the built-in with one collected by-reference argument holding `cur`: the next DATA item converted to the
type of `cur` is queued for the write-back, the DATA cursor advances; errors are reported at the `PushStack` -/
theorem read_call (code : Code) (p q : Pos) (τ : Vm) (cur : Val) (pth : Path) (ctx0 : List Call)
    (hc : CodeAt code τ.pc [(CInstr.pushStack, p), (CInstr.builtInRead, p), (CInstr.enqueue 0, q),
      (CInstr.popStack, p)])
    (hctx : τ.ctx = ⟨[(.leaf cur, some pth)], none⟩ :: ctx0) (hq : τ.queue = []) :
    match τ.data[τ.dataIdx]? with
    | none => ErrsWith code τ AoR.Ref.codeOutOfData p τ.out
    | some v =>
      match cast v cur.tag with
      | .ok w =>
        Steps code τ { τ with pc := τ.pc + 4, ctx := ctx0, dataIdx := τ.dataIdx + 1, queue := [(.leaf w, some pth)] }
      | .err e => ErrsWith code τ (AoR.Ref.codeOf e) p τ.out
      | .inexact => True := by
  have h0 : code[τ.pc]? = some (CInstr.pushStack, p) := hc.head
  have h1 : code[τ.pc + 1]? = some (CInstr.builtInRead, p) := hc.tail.head
  have h2 : code[τ.pc + 1 + 1]? = some (CInstr.enqueue 0, q) := hc.tail.tail.head
  have h3 : code[τ.pc + 1 + 1 + 1]? = some (CInstr.popStack, p) := hc.tail.tail.tail.head
  let τ1 : Vm := Vm.advance { τ with trace := p :: τ.trace }
  have s1 : Vm.step code τ = .next τ1 := by simp only [Vm.step, h0]; rfl
  cases hd : τ.data[τ.dataIdx]? with
  | none =>
    simp only
    refine ⟨τ1, τ1, Steps.one s1, ?_, rfl⟩
    simp only [Vm.step, τ1, Vm.advance, h1, hctx, readArgs, hd]; rfl
  | some v =>
    simp only
    cases hcst : cast v cur.tag with
    | inexact => trivial
    | err e =>
      simp only
      refine ⟨τ1, τ1, Steps.one s1, ?_, rfl⟩
      simp only [Vm.step, τ1, Vm.advance, h1, hctx, readArgs, hd, hcst]; rfl
    | ok w =>
      simp only
      let τ2 : Vm := Vm.advance { τ1 with ctx := ⟨[(.leaf w, some pth)], none⟩ :: ctx0, dataIdx := τ.dataIdx + 1 }
      let τ3 : Vm := Vm.advance { τ2 with queue := [(.leaf w, some pth)] }
      have s2 : Vm.step code τ1 = .next τ2 := by
        simp only [Vm.step, τ1, Vm.advance, h1, hctx, readArgs, hd, hcst]; rfl
      have s3 : Vm.step code τ2 = .next τ3 := by
        simp only [Vm.step, τ2, τ1, Vm.advance, h2, List.getElem?_cons_zero, hq, List.nil_append]; rfl
      refine Steps.cons s1 (Steps.cons s2 (Steps.cons s3 (Steps.one ?_)))
      simp only [Vm.step, τ3, τ2, τ1, Vm.advance, h3]

/-- `Ref.readItem` against the VM's data (the two states hold the same DATA and cursor) -/
theorem readItem_eq {sc : Scope} {s : St} {τ : Vm} (h : Rel sc s τ) (t : Ty) (p : Pos) :
    AoR.Ref.readItem s t p =
      match τ.data[τ.dataIdx]? with
      | none => .error (.error AoR.Ref.codeOutOfData p)
      | some v =>
        match cast v t with
        | .ok w => .ok w
        | .err e => .error (.error (AoR.Ref.codeOf e) p)
        | .inexact => .error .inexact := by
  simp only [AoR.Ref.readItem, h.data, h.dataIdx]
  cases s.data[s.dataIdx]? with
  | none => rfl
  | some v => simp only; cases cast v t <;> rfl

/-- one target -/
theorem read_one (code : Code) (sc : Scope) (p : Pos) (tg : ReadTarget) (f : Nat) (off : Nat) (s : St) (σ : Vm)
    (hc : CodeAt code off (readOne p tg)) (hpc : σ.pc = off) (hr : Rel sc s σ) (hw : TargetWf sc tg) :
    StmtPost code sc (sizeRead tg) off σ (AoR.Ref.exec (f + 1) (.read tg p) s) := by
  subst hpc
  obtain ⟨x, t, q⟩ := tg
  simp only [TargetWf] at hw
  simp only [readOne, pushTarget, writeTarget] at hc
  have h0 : code[σ.pc]? = some (CInstr.beginArgs, p) := hc.append_left.append_left.append_left.head
  let σ1 : Vm := Vm.advance { σ with ctx := ⟨[], none⟩ :: σ.ctx }
  have s1 : Vm.step code σ = .next σ1 := by simp only [Vm.step, h0]; rfl
  have hr1 : Rel sc s σ1 := hr.same rfl rfl rfl rfl rfl rfl rfl rfl
  let cur : Val := s.getS x t
  obtain ⟨hcurv, htag, _⟩ := hr1.getS hw
  have hcpv : CodeAt code (σ.pc + 1) [(CInstr.varPath x, q), (CInstr.copyVarPathToA, q), (CInstr.pushByRef, q)] := by
    simpa using hc.append_left.append_left.append_right
  have st2 := push_var_steps code x q σ1 ⟨[], none⟩ σ.ctx cur hcpv rfl hcurv
  let σ2 : Vm := { σ1 with pc := σ1.pc + 3, regs := { σ1.regs with a := .leaf cur },
                           ctx := ⟨[(.leaf cur, some ⟨.var x, [], []⟩)], none⟩ :: σ.ctx }
  have hcall := read_call code p q σ2 cur ⟨.var x, [], []⟩ σ.ctx
    (by
      have := hc.append_left.append_right
      simp only [List.length_append, List.length_cons, List.length_nil] at this
      exact this.at (by simp only [σ2, σ1, Vm.advance]))
    rfl hr.queue
  have pre : Steps code σ σ2 := (Steps.one s1).trans st2
  simp only [AoR.Ref.exec, readItem_eq (τ := σ2) (hr.same rfl rfl rfl rfl rfl rfl rfl rfl) t p, sizeRead]
  have htag' : cur.tag = t := htag
  rw [htag'] at hcall
  cases hd : σ2.data[σ2.dataIdx]? with
  | none =>
    simp only [hd] at hcall ⊢
    simp only [StmtPost]
    rw [← hr.out]; exact ErrsWith.of_steps pre hcall
  | some v =>
    simp only [hd] at hcall ⊢
    cases hcst : cast v t with
    | inexact => simp only [StmtPost]
    | err e =>
      simp only [hcst] at hcall ⊢
      simp only [StmtPost]
      rw [← hr.out]; exact ErrsWith.of_steps pre hcall
    | ok w =>
      simp only [hcst] at hcall ⊢
      let σ3 : Vm := { σ2 with pc := σ2.pc + 4, ctx := σ.ctx, dataIdx := σ2.dataIdx + 1,
                               queue := [(.leaf w, some ⟨.var x, [], []⟩)] }
      have st4 := deq_var_steps code x q σ3 w _ []
        (by
          have := hc.append_right
          simp only [List.length_append, List.length_cons, List.length_nil] at this
          exact this.at (by simp only [σ3, σ2, σ1, Vm.advance]))
        rfl (hr.lt hw)
      have hvd : v ∈ s.data := by
        have : s.data[s.dataIdx]? = some v := by
          have := hd
          simp only [σ2, σ1, Vm.advance] at this
          rw [← hr.data, ← hr.dataIdx]; exact this
        exact List.mem_of_getElem? this
      have hnw : NoNulVal w := cast_noNul hcst (hr.dnonul v hvd)
      let σ4 : Vm := { σ3 with pc := σ3.pc + 3, regs := { σ3.regs with a := .leaf w }, queue := ([] : List (RV × Option Path)),
                               vars := σ3.vars.set x (.leaf w) }
      have hrel' : Rel sc (s.set x w) { σ4 with dataIdx := σ.dataIdx } :=
        hr.store hw (cast_tag _ _ _ hcst) hnw rfl rfl rfl rfl rfl rfl hr.queue.symm rfl
      refine ⟨_, pre.trans (hcall.trans st4), ?_, ?_, ?_⟩
      · simp only [σ3, σ2, σ1, Vm.advance, readOne, pushTarget, writeTarget, List.length_append, List.length_cons,
          List.length_nil]
      · exact hrel'.congr rfl rfl rfl rfl rfl rfl hrel'.out hrel'.data rfl
          (by show σ.dataIdx + 1 = s.dataIdx + 1; rw [hr.dataIdx]) rfl hrel'.funRes
      · exact ⟨rfl, rfl, rfl, rfl, rfl, id⟩

/-- the targets one after the other -/
theorem reads_correct (code : Code) (sc : Scope) (p : Pos) : ∀ (tgs : List ReadTarget) (f : Nat) (off : Nat) (s : St)
    (σ : Vm), CodeAt code off (compileReads p tgs) → σ.pc = off → Rel sc s σ → (∀ tg ∈ tgs, TargetWf sc tg) →
    StmtPost code sc (sizeReads tgs) off σ (AoR.Ref.exec f (readSeq p tgs) s)
  | _, 0, _, _, _, _, _, _, _ => by simp only [AoR.Ref.exec, StmtPost]
  | [], f + 1, off, s, σ, hc, hpc, hr, hw => by
    simp only [readSeq, AoR.Ref.exec, StmtPost, sizeReads, Nat.add_zero]
    exact ⟨σ, Steps.refl σ, hpc, hr, SameStacks.refl σ⟩
  | tg :: rest, f + 1, off, s, σ, hc, hpc, hr, hw => by
    simp only [compileReads] at hc
    simp only [readSeq, AoR.Ref.exec, sizeReads]
    cases f with
    | zero => simp only [AoR.Ref.exec, StmtPost]
    | succ g =>
      have h1 := read_one code sc p tg g off s σ hc.append_left hpc hr (hw tg (by simp))
      generalize AoR.Ref.exec (g + 1) (.read tg p) s = r1 at h1 ⊢
      obtain ⟨s1, o1⟩ := r1
      cases o1 with
      | normal =>
        obtain ⟨τ, st, hp, hrel, hss⟩ := h1
        have hcr : CodeAt code (off + sizeRead tg) (compileReads p rest) := by
          have := hc.append_right
          rwa [len_readOne] at this
        have h2 := reads_correct code sc p rest (g + 1) _ s1 τ hcr hp hrel (fun t ht => hw t (by simp [ht]))
        simp only
        exact StmtPost.of_steps st hss (h2.addr (by omega))
      | halted => exact h1
      | error c q => exact h1
      | inexact => trivial
      | outOfFuel => trivial
      | illFormed => trivial
      | tooBig => trivial

end SimRead

open SimRead in
/-- **READ** -/
theorem case_read (code : Code) (fuel : Nat) (ih : IHle code fuel) (tgs : List ReadTarget) (p : Pos)
    (sc : Scope) (sfx : String) (off : Nat) (s : St) (σ : Vm)
    (hc : CodeAt code off (compileStmt sfx off (.read tgs p))) (hpc : σ.pc = off)
    (hr : Rel sc s σ) (hw : Wf sc (.read tgs p)) (ha : ActInv σ) :
    StmtPost code sc (sizeStmt (.read tgs p)) off σ (AoR.Ref.exec (fuel + 1) (desugar (.read tgs p)) s) := by
  simp only [Wf] at hw
  simp only [compileStmt] at hc
  cases tgs with
  | nil =>
    simp only [List.isEmpty_nil, if_true] at hc
    simp only [desugar, readSeq, AoR.Ref.exec, sizeStmt, List.isEmpty_nil, if_true, StmtPost]
    subst hpc
    have h0 : code[σ.pc]? = some (CInstr.beginArgs, p) := hc.head
    have h1 : code[σ.pc + 1]? = some (CInstr.pushStack, p) := hc.tail.head
    have h2 : code[σ.pc + 1 + 1]? = some (CInstr.builtInRead, p) := hc.tail.tail.head
    have h3 : code[σ.pc + 1 + 1 + 1]? = some (CInstr.popStack, p) := hc.tail.tail.tail.head
    let σ1 : Vm := Vm.advance { σ with ctx := ⟨[], none⟩ :: σ.ctx }
    let σ2 : Vm := Vm.advance { σ1 with trace := p :: σ.trace }
    let σ3 : Vm := Vm.advance σ2
    let σ4 : Vm := Vm.advance { σ3 with ctx := σ.ctx, trace := σ.trace }
    have s1 : Vm.step code σ = .next σ1 := by simp only [Vm.step, h0]; rfl
    have s2 : Vm.step code σ1 = .next σ2 := by simp only [Vm.step, σ1, Vm.advance, h1]; rfl
    have s3 : Vm.step code σ2 = .next σ3 := by simp only [Vm.step, σ2, σ1, Vm.advance, h2, readArgs]; rfl
    have s4 : Vm.step code σ3 = .next σ4 := by simp only [Vm.step, σ3, σ2, σ1, Vm.advance, h3]; rfl
    exact ⟨σ4, Steps.cons s1 (Steps.cons s2 (Steps.cons s3 (Steps.one s4))), rfl,
      hr.same rfl rfl rfl rfl rfl rfl rfl rfl, ⟨rfl, rfl, rfl, rfl, rfl, id⟩⟩
  | cons tg rest =>
    simp only [List.isEmpty_cons, Bool.false_eq_true, if_false] at hc
    simp only [desugar, sizeStmt, List.isEmpty_cons, Bool.false_eq_true, if_false]
    exact reads_correct code sc p (tg :: rest) (fuel + 1) off s σ hc hpc hr hw

end RbThm.AoRSim
