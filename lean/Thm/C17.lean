import RbModel.Str
/-!
C17 — string functions satisfy their defining equations.

All theorems are over the model `RbModel.Str` (strings = lists of code points, any length, any code
points; integers = any `Int`).  No ASCII premise is needed for the repaired code; the section
`Legacy` states what the pinned tree's RIGHT$ / SPACE$ did instead and proves the witnesses.
-/
namespace RbThm.C17
open RbModel.Str

/-- only used by the `decide` examples below (kept inside the namespace so that it cannot clash) -/
local instance instDecEqExcept {ε α : Type} [DecidableEq ε] [DecidableEq α] : DecidableEq (Except ε α) := fun a b =>
  match a, b with
  | .ok x, .ok y => if h : x = y then isTrue (by rw [h]) else isFalse (by intro e; cases e; exact h rfl)
  | .error x, .error y => if h : x = y then isTrue (by rw [h]) else isFalse (by intro e; cases e; exact h rfl)
  | .ok _, .error _ => isFalse (by intro e; cases e)
  | .error _, .ok _ => isFalse (by intro e; cases e)

/-! ### Argument checks: Illegal function call (5) -/

theorem illegalFunctionCall_code : Err.illegalFunctionCall.code = 5 := rfl

theorem toNonNegativeInt_neg {n : Int} (h : n < 0) : toNonNegativeInt n = .error .illegalFunctionCall := by
  unfold toNonNegativeInt
  rw [if_neg (by omega)]

theorem toNonNegativeInt_nonneg {n : Int} (h : 0 ≤ n) : toNonNegativeInt n = .ok n.toNat := by
  unfold toNonNegativeInt
  rw [if_pos (by omega)]

theorem toPositiveInt_nonpos {n : Int} (h : n ≤ 0) : toPositiveInt n = .error .illegalFunctionCall := by
  unfold toPositiveInt
  rw [if_neg (by omega)]

theorem toPositiveInt_pos {n : Int} (h : 0 < n) : toPositiveInt n = .ok n.toNat := by
  unfold toPositiveInt
  rw [if_pos (by omega)]

/-- A negative count makes LEFT$, RIGHT$, MID$, SPACE$ and STRING$ fail with Illegal function call. -/
theorem negative_count_error5 (s t : List Nat) (n st c : Int) (h : n < 0) :
    left s n = .error .illegalFunctionCall ∧
    right s n = .error .illegalFunctionCall ∧
    mid s st (some n) = .error .illegalFunctionCall ∧
    space n = .error .illegalFunctionCall ∧
    stringCode n c = .error .illegalFunctionCall ∧
    stringStr n t = .error .illegalFunctionCall := by
  refine ⟨?_, ?_, ?_, ?_, ?_, ?_⟩
  · simp [left, toNonNegativeInt_neg h]
  · simp [right, toNonNegativeInt_neg h]
  · unfold mid
    by_cases hs : 0 < st
    · simp [toPositiveInt_pos hs, toNonNegativeInt_neg h]
    · simp [toPositiveInt_nonpos (Int.not_lt.mp hs)]
  · simp [space, toNonNegativeInt_neg h]
  · simp [stringCode, toNonNegativeInt_neg h]
  · simp [stringStr, toNonNegativeInt_neg h]

/-- A start position `≤ 0` makes MID$ and INSTR fail with Illegal function call. -/
theorem nonpositive_start_error5 (s t : List Nat) (n : Int) (l : Option Int) (h : n ≤ 0) :
    mid s n l = .error .illegalFunctionCall ∧
    instr (some n) s t = .error .illegalFunctionCall := by
  constructor
  · simp [mid, toPositiveInt_nonpos h]
  · simp [instr, toPositiveInt_nonpos h]

/-- With non-negative counts and positive starts nothing fails. -/
theorem no_error_otherwise (s t : List Nat) (n st : Int) (hn : 0 ≤ n) (hst : 0 < st) :
    (∃ r, left s n = .ok r) ∧ (∃ r, right s n = .ok r) ∧ (∃ r, mid s st none = .ok r) ∧
    (∃ r, mid s st (some n) = .ok r) ∧ (∃ r, instr (some st) s t = .ok r) ∧ (∃ r, space n = .ok r) := by
  refine ⟨?_, ?_, ?_, ?_, ?_, ?_⟩
  · simp [left, toNonNegativeInt_nonneg hn]
  · simp only [right, toNonNegativeInt_nonneg hn]
    split <;> simp
  · simp [mid, toPositiveInt_pos hst]
  · simp [mid, toPositiveInt_pos hst, toNonNegativeInt_nonneg hn]
  · simp [instr, toPositiveInt_pos hst]
  · simp [space, toNonNegativeInt_nonneg hn]

/-! ### LEFT$, RIGHT$, MID$ -/

/-- LEFT$(s, n) is the prefix of `s` of length `min n (LEN s)`. -/
theorem left_is_prefix (s : List Nat) (n : Int) (hn : 0 ≤ n) :
    ∃ l, left s n = .ok l ∧ l <+: s ∧ l.length = min n.toNat s.length := by
  refine ⟨s.take n.toNat, ?_, List.take_prefix _ _, List.length_take⟩
  simp [left, toNonNegativeInt_nonneg hn]

/-- RIGHT$(s, n) is the suffix of `s` of length `min n (LEN s)`. -/
theorem right_is_suffix (s : List Nat) (n : Int) (hn : 0 ≤ n) :
    ∃ r, right s n = .ok r ∧ r <:+ s ∧ r.length = min n.toNat s.length := by
  simp only [right, toNonNegativeInt_nonneg hn]
  by_cases h : s.length > n.toNat
  · refine ⟨s.drop (s.length - n.toNat), by simp [h], List.drop_suffix _ _, ?_⟩
    rw [List.length_drop]; omega
  · refine ⟨s, by simp [h], List.suffix_refl _, ?_⟩
    omega

/-- MID$(s, start, len) is the substring of `s` that starts after `min (start-1) (LEN s)` characters
and has `min len (what is left)` characters. -/
theorem mid_is_substring (s : List Nat) (st l : Int) (hst : 0 < st) (hl : 0 ≤ l) :
    ∃ pre r post, mid s st (some l) = .ok r ∧ s = pre ++ r ++ post ∧
      pre.length = min (st.toNat - 1) s.length ∧
      r.length = min l.toNat (s.length - (st.toNat - 1)) := by
  refine ⟨s.take (st.toNat - 1), (s.drop (st.toNat - 1)).take l.toNat,
    (s.drop (st.toNat - 1)).drop l.toNat, ?_, ?_, List.length_take, ?_⟩
  · simp [mid, doMid, toPositiveInt_pos hst, toNonNegativeInt_nonneg hl]
  · rw [List.append_assoc, List.take_append_drop, List.take_append_drop]
  · rw [List.length_take, List.length_drop]

/-- MID$(s, start) is what is left of `s` after its first `min (start-1) (LEN s)` characters. -/
theorem mid_is_tail (s : List Nat) (st : Int) (hst : 0 < st) :
    ∃ pre r, mid s st none = .ok r ∧ s = pre ++ r ∧ pre.length = min (st.toNat - 1) s.length := by
  refine ⟨s.take (st.toNat - 1), s.drop (st.toNat - 1), ?_, (List.take_append_drop _ _).symm, List.length_take⟩
  simp [mid, doMid, toPositiveInt_pos hst]

/-- MID$ without a length is MID$ with any length that reaches the end. -/
theorem mid_none_eq_long (s : List Nat) (st l : Int) (hst : 0 < st) (hl : (s.length : Int) ≤ l) :
    mid s st none = mid s st (some l) := by
  have hl0 : 0 ≤ l := by omega
  simp only [mid, doMid, toPositiveInt_pos hst, toNonNegativeInt_nonneg hl0]
  rw [List.take_of_length_le]
  rw [List.length_drop]; omega

/-- LEFT$(s, n) + MID$(s, n + 1) = s for every string and every count `n ≥ 0` (clamped or not). -/
theorem left_mid_concat (s : List Nat) (n : Int) (hn : 0 ≤ n) :
    ∃ l r, left s n = .ok l ∧ mid s (n + 1) none = .ok r ∧ concat l r = s := by
  refine ⟨s.take n.toNat, s.drop n.toNat, ?_, ?_, List.take_append_drop _ _⟩
  · simp [left, toNonNegativeInt_nonneg hn]
  · have h1 : 0 < n + 1 := by omega
    have h2 : (n + 1).toNat - 1 = n.toNat := by omega
    simp [mid, doMid, toPositiveInt_pos h1, h2]

example : left [104, 97, 121] 2 = .ok [104, 97] ∧ mid [104, 97, 121] 3 none = .ok [121] ∧
    right [200, 97, 98] 1 = .ok [98] ∧ mid [200, 97, 98] 2 (some 5) = .ok [97, 98] := by decide

/-! ### INSTR -/

/-- `t` occurs in `s` at the 1-based position `p`. -/
def OccursAt (s t : List Nat) (p : Nat) : Prop := 1 ≤ p ∧ t <+: s.drop (p - 1)

theorem take_eq_iff_prefix (t u : List Nat) : u.take t.length = t ↔ t <+: u := by
  rw [List.prefix_iff_eq_take]
  exact eq_comm

theorem prefix_drop_length {t hay : List Nat} {j : Nat} (h : t <+: hay.drop j) : j + t.length ≤ hay.length ∨ t = [] := by
  have h1 := h.length_le
  rw [List.length_drop] at h1
  by_cases ht : t = []
  · exact Or.inr ht
  · left
    have : 0 < t.length := List.length_pos_iff.mpr ht
    omega

/-- The search loop returns the least index `≥ i` at which `needle` is a prefix of the rest, plus one;
or 0 if there is none. -/
theorem instrLoop_spec (hay needle : List Nat) (hne : needle ≠ []) :
    ∀ fuel i, hay.length + 1 ≤ fuel + i →
      (instrLoop hay needle fuel i = 0 ∧ ∀ j, i ≤ j → ¬ needle <+: hay.drop j) ∨
      (i < instrLoop hay needle fuel i ∧ needle <+: hay.drop (instrLoop hay needle fuel i - 1) ∧
        ∀ j, i ≤ j → j < instrLoop hay needle fuel i - 1 → ¬ needle <+: hay.drop j) := by
  have hpos : 0 < needle.length := List.length_pos_iff.mpr hne
  intro fuel
  induction fuel with
  | zero =>
    intro i hi
    left
    refine ⟨rfl, ?_⟩
    intro j hj hp
    rcases prefix_drop_length hp with h | h
    · omega
    · exact hne h
  | succ fuel ih =>
    intro i hi
    unfold instrLoop
    by_cases hfit : i + needle.length ≤ hay.length
    · rw [if_pos hfit]
      by_cases hm : (hay.drop i).take needle.length = needle
      · rw [if_pos hm]
        right
        refine ⟨by omega, ?_, ?_⟩
        · simpa using (take_eq_iff_prefix needle (hay.drop i)).mp hm
        · intro j h1 h2
          omega
      · rw [if_neg hm]
        have hnot : ¬ needle <+: hay.drop i := fun hp => hm ((take_eq_iff_prefix _ _).mpr hp)
        rcases ih (i + 1) (by omega) with ⟨h0, hall⟩ | ⟨hlt, hocc, hall⟩
        · left
          refine ⟨h0, ?_⟩
          intro j hj
          by_cases hji : j = i
          · subst hji; exact hnot
          · exact hall j (by omega)
        · right
          refine ⟨by omega, hocc, ?_⟩
          intro j hj hjr
          by_cases hji : j = i
          · subst hji; exact hnot
          · exact hall j (by omega) hjr
    · rw [if_neg hfit]
      left
      refine ⟨rfl, ?_⟩
      intro j hj hp
      rcases prefix_drop_length hp with h | h
      · omega
      · exact hne h

/-- INSTR(n, s, t) for a non-empty `t` and `n ≥ 1`: the least position `≥ n` at which `t` occurs in `s`,
or 0 if there is no such position. -/
theorem instr_least (s t : List Nat) (n : Int) (ht : t ≠ []) (hn : 0 < n) :
    ∃ r, instr (some n) s t = .ok r ∧
      ((r = 0 ∧ ∀ p, n.toNat ≤ p → ¬ OccursAt s t p) ∨
       (n.toNat ≤ r ∧ OccursAt s t r ∧ ∀ p, n.toNat ≤ p → p < r → ¬ OccursAt s t p)) := by
  refine ⟨doInstr n.toNat s t, by simp [instr, toPositiveInt_pos hn], ?_⟩
  have hn1 : 1 ≤ n.toNat := by omega
  unfold doInstr
  by_cases hs : s = []
  · subst hs
    left
    refine ⟨by simp, ?_⟩
    intro p _ hocc
    have := hocc.2
    simp at this
    exact ht this
  · have hs' : s.isEmpty = false := by cases s <;> simp_all
    have ht' : t.isEmpty = false := by cases t <;> simp_all
    simp only [hs', ht', Bool.false_eq_true, if_false]
    rcases instrLoop_spec s t ht (s.length + 1) (n.toNat - 1) (by omega) with ⟨h0, hall⟩ | ⟨hlt, hocc, hall⟩
    · left
      refine ⟨h0, ?_⟩
      intro p hp hocc
      exact hall (p - 1) (by omega) hocc.2
    · right
      refine ⟨by omega, ⟨by omega, hocc⟩, ?_⟩
      intro p hp hpr hocc'
      exact hall (p - 1) (by omega) (by omega) hocc'.2

/-- INSTR without a start position searches from position 1. -/
theorem instr_default_start (s t : List Nat) : instr none s t = instr (some 1) s t := by
  simp [instr, toPositiveInt]

example : instr (some 2) [116, 104, 101, 32, 116, 104, 101] [116, 104, 101] = .ok 5 ∧
    instr none [200, 97] [97] = .ok 2 ∧ instr (some 3) [97, 98] [98] = .ok 0 := by decide

/-! ### LEN -/

/-- LEN(a + b) = LEN(a) + LEN(b). -/
theorem len_concat (a b : List Nat) : len (concat a b) = len a + len b := by
  simp [len, concat]

/-! ### UCASE$, LCASE$ -/

theorem ucaseChar_spec (c : Nat) :
    ((97 ≤ c ∧ c ≤ 122) → ucaseChar c = c - 32) ∧ (¬ (97 ≤ c ∧ c ≤ 122) → ucaseChar c = c) := by
  unfold ucaseChar
  constructor <;> intro h <;> simp [h]

theorem lcaseChar_spec (c : Nat) :
    ((65 ≤ c ∧ c ≤ 90) → lcaseChar c = c + 32) ∧ (¬ (65 ≤ c ∧ c ≤ 90) → lcaseChar c = c) := by
  unfold lcaseChar
  constructor <;> intro h <;> simp [h]

/-- UCASE$ and LCASE$ keep the length and change only letters: at every position, a lower-case
(upper-case) letter is replaced by its upper-case (lower-case) partner, anything else is kept. -/
theorem ucase_lcase_only_letters (s : List Nat) :
    (ucase s).length = s.length ∧ (lcase s).length = s.length ∧
    ∀ (i c : Nat), s[i]? = some c →
      (ucase s)[i]? = some (if 97 ≤ c ∧ c ≤ 122 then c - 32 else c) ∧
      (lcase s)[i]? = some (if 65 ≤ c ∧ c ≤ 90 then c + 32 else c) := by
  refine ⟨by simp [ucase], by simp [lcase], ?_⟩
  intro i c h
  simp [ucase, lcase, List.getElem?_map, h, ucaseChar, lcaseChar]

/-- The result of UCASE$ has no lower-case letter, the result of LCASE$ no upper-case letter. -/
theorem ucase_no_lower (s : List Nat) : ∀ c ∈ ucase s, ¬ (97 ≤ c ∧ c ≤ 122) := by
  intro c hc
  simp only [ucase, List.mem_map] at hc
  obtain ⟨d, _, rfl⟩ := hc
  unfold ucaseChar
  split <;> omega

theorem lcase_no_upper (s : List Nat) : ∀ c ∈ lcase s, ¬ (65 ≤ c ∧ c ≤ 90) := by
  intro c hc
  simp only [lcase, List.mem_map] at hc
  obtain ⟨d, _, rfl⟩ := hc
  unfold lcaseChar
  split <;> omega

theorem lcase_ucase (s : List Nat) : lcase (ucase s) = lcase s := by
  simp only [lcase, ucase, List.map_map]
  apply List.map_congr_left
  intro c _
  simp only [Function.comp, lcaseChar, ucaseChar]
  split <;> split <;> (try split) <;> omega

theorem ucase_lcase (s : List Nat) : ucase (lcase s) = ucase s := by
  simp only [lcase, ucase, List.map_map]
  apply List.map_congr_left
  intro c _
  simp only [Function.comp, lcaseChar, ucaseChar]
  split <;> split <;> (try split) <;> omega

example : ucase [79, 111, 112, 115, 33, 233] = [79, 79, 80, 83, 33, 233] ∧
    lcase [79, 111, 112, 115, 33, 201] = [111, 111, 112, 115, 33, 201] := by decide

/-! ### LTRIM$, RTRIM$ -/

/-- LTRIM$ removes exactly the leading blanks: `s` is some blanks followed by the result, and the
result does not start with a blank. -/
theorem ltrim_exact (s : List Nat) :
    ∃ k, s = List.replicate k 32 ++ ltrim s ∧ (ltrim s).head? ≠ some 32 := by
  induction s with
  | nil => exact ⟨0, by simp [ltrim], by simp [ltrim]⟩
  | cons c cs ih =>
    by_cases hc : c = 32
    · obtain ⟨k, h1, h2⟩ := ih
      refine ⟨k + 1, ?_, ?_⟩
      · subst hc
        have : ltrim (32 :: cs) = ltrim cs := List.dropWhile_cons_of_pos (by simp)
        rw [this, List.replicate_succ, List.cons_append, ← h1]
      · subst hc
        have : ltrim (32 :: cs) = ltrim cs := List.dropWhile_cons_of_pos (by simp)
        rw [this]; exact h2
    · have : ltrim (c :: cs) = c :: cs := List.dropWhile_cons_of_neg (by simp [hc])
      refine ⟨0, by simp [this], ?_⟩
      rw [this]
      simp [hc]

/-- ... and that decomposition is unique. -/
theorem ltrim_unique (k : Nat) (r : List Nat) (hr : r.head? ≠ some 32) :
    ltrim (List.replicate k 32 ++ r) = r := by
  induction k with
  | zero =>
    cases r with
    | nil => simp [ltrim]
    | cons c cs =>
      have hc : c ≠ 32 := by simpa using hr
      exact List.dropWhile_cons_of_neg (by simp [hc])
  | succ k ih =>
    rw [List.replicate_succ, List.cons_append]
    have : ltrim (32 :: (List.replicate k 32 ++ r)) = ltrim (List.replicate k 32 ++ r) :=
      List.dropWhile_cons_of_pos (by simp)
    rw [this, ih]

theorem rtrim_eq (s : List Nat) : rtrim s = (ltrim s.reverse).reverse := rfl

/-- RTRIM$ removes exactly the trailing blanks. -/
theorem rtrim_exact (s : List Nat) :
    ∃ k, s = rtrim s ++ List.replicate k 32 ∧ (rtrim s).getLast? ≠ some 32 := by
  obtain ⟨k, h1, h2⟩ := ltrim_exact s.reverse
  refine ⟨k, ?_, ?_⟩
  · have := congrArg List.reverse h1
    rw [List.reverse_reverse, List.reverse_append, List.reverse_replicate] at this
    rw [rtrim_eq]; exact this
  · rw [rtrim_eq, List.getLast?_reverse]; exact h2

theorem rtrim_unique (k : Nat) (r : List Nat) (hr : r.getLast? ≠ some 32) :
    rtrim (r ++ List.replicate k 32) = r := by
  rw [rtrim_eq, List.reverse_append, List.reverse_replicate, ltrim_unique, List.reverse_reverse]
  rw [List.head?_reverse]; exact hr

/-- The two together: the property "LTRIM$/RTRIM$ remove exactly the leading/trailing blanks". -/
theorem trim_exact (s : List Nat) :
    (∃ k, s = List.replicate k 32 ++ ltrim s ∧ (ltrim s).head? ≠ some 32) ∧
    (∃ k, s = rtrim s ++ List.replicate k 32 ∧ (rtrim s).getLast? ≠ some 32) :=
  ⟨ltrim_exact s, rtrim_exact s⟩

example : ltrim [32, 32, 9, 97, 32] = [9, 97, 32] ∧ rtrim [32, 97, 160, 32, 32] = [32, 97, 160] := by decide

/-! ### SPACE$, STRING$ -/

/-- SPACE$(n) = STRING$(n, 32) for every `n` (both fail for `n < 0`), and for `n ≥ 0` it is `n` blanks. -/
theorem space_eq_string32 (n : Int) :
    space n = stringCode n 32 ∧
    (0 ≤ n → ∃ r, space n = .ok r ∧ r.length = n.toNat ∧ ∀ c ∈ r, c = 32) := by
  constructor
  · unfold space stringCode
    cases toNonNegativeInt n with
    | error e => rfl
    | ok count => simp
  · intro hn
    refine ⟨List.replicate n.toNat 32, by simp [space, toNonNegativeInt_nonneg hn], by simp, ?_⟩
    intro c hc
    exact (List.mem_replicate.mp hc).2

/-- STRING$(n, t$) repeats the first character of `t$`. -/
theorem string_str_first (n : Int) (c : Nat) (cs : List Nat) (hn : 0 ≤ n) :
    stringStr n (c :: cs) = .ok (List.replicate n.toNat c) := by
  simp [stringStr, toNonNegativeInt_nonneg hn]

example : space 3 = .ok [32, 32, 32] ∧ stringCode 2 33 = .ok [33, 33] ∧
    stringCode 2 256 = .error .illegalFunctionCall ∧ stringStr 1 [] = .error .illegalFunctionCall := by decide

/-! ### VAL(STR$(k)) -/

theorem valScan_digit (d : Nat) (hd : d < 10) (cs : List Nat) (pos : Bool) (v : Nat) (st : VState)
    (hst : st = .initial ∨ st = .sign ∨ st = .int) (hv : v * 10 + d < exactLimit) :
    valScan ((48 + d) :: cs) pos v st = valScan cs pos (v * 10 + d) .int := by
  have h1 : 48 ≤ 48 + d ∧ 48 + d ≤ 57 := by omega
  have h2 : ¬ (st = .dot ∨ st = .fraction) := by
    rcases hst with h | h | h <;> subst h <;> simp
  have h3 : 48 + d - 48 = d := by omega
  have h4 : ¬ (v * 10 + d ≥ exactLimit) := by omega
  conv => lhs; unfold valScan
  simp only [h1, and_self, if_true, h2, if_false, h3, h4]

/-- Scanning the decimal digits of `n` from value 0 yields `n` (below 2^53, where `f64` is exact). -/
theorem valScan_decimal (n : Nat) (hn : n < exactLimit) (rest : List Nat) (pos : Bool) (st : VState)
    (hst : st = .initial ∨ st = .sign ∨ st = .int) :
    valScan (decimal n ++ rest) pos 0 st = valScan rest pos n .int := by
  induction n using Nat.strongRecOn generalizing rest st with
  | _ n ih =>
    rw [decimal]
    by_cases h : n < 10
    · rw [if_pos h]
      have := valScan_digit n h rest pos 0 st hst (by omega)
      simpa using this
    · rw [if_neg h, List.append_assoc]
      rw [ih (n / 10) (by omega) (by omega) _ st hst]
      have := valScan_digit (n % 10) (Nat.mod_lt _ (by omega)) rest pos (n / 10) .int (by simp)
        (by have := Nat.div_add_mod n 10; omega)
      have e : n / 10 * 10 + n % 10 = n := by have := Nat.div_add_mod n 10; omega
      rw [e] at this
      simpa using this

theorem val_strInt_nonneg (n : Nat) (hn : n < exactLimit) :
    val (strInt (n : Int)) = some (valFinish true n .int) := by
  have h0 : (n : Int) ≥ 0 := by omega
  have h1 : strInt (n : Int) = 32 :: decimal n := by simp [strInt, h0]
  have h2 : valScan (32 :: decimal n) true 0 .initial = valScan (decimal n ++ []) true 0 .initial := by
    rw [List.append_nil]
    conv => lhs; unfold valScan
    simp
  rw [val, h1, h2, valScan_decimal n hn [] true .initial (by simp)]
  simp [valScan]

theorem val_strInt_neg (m : Nat) (hm : 0 < m) (hn : m < exactLimit) :
    val (strInt (-(m : Int))) = some (valFinish false m .int) := by
  have h0 : ¬ (-(m : Int) ≥ 0) := by omega
  have hm' : m ≠ 0 := by omega
  have h1 : strInt (-(m : Int)) = 45 :: decimal m := by simp [strInt, hm']
  have h2 : valScan (45 :: decimal m) true 0 .initial = valScan (decimal m ++ []) false 0 .sign := by
    rw [List.append_nil]
    conv => lhs; unfold valScan
    simp
  rw [val, h1, h2, valScan_decimal m hn [] false .sign (by simp)]
  simp [valScan]

/-- VAL(STR$(k)) = k, as a DOUBLE, for every whole number `k` with `|k| < 2^53` — in particular for every
INTEGER and every LONG.  The result is the double with the sign and the magnitude of `k`. -/
theorem val_str_roundtrip (k : Int) (hlo : -(exactLimit : Int) < k) (hhi : k < (exactLimit : Int)) :
    val (strInt k) = some (.double (decide (k < 0)) k.natAbs) ∧
    ∀ r, val (strInt k) = some r → r.toInt = k := by
  have main : val (strInt k) = some (.double (decide (k < 0)) k.natAbs) := by
    by_cases hk : 0 ≤ k
    · obtain ⟨n, rfl⟩ := Int.eq_ofNat_of_zero_le hk
      rw [val_strInt_nonneg n (by omega)]
      have : ¬ ((n : Int) < 0) := by omega
      simp [valFinish, this]
    · obtain ⟨m, hm⟩ : ∃ m : Nat, k = -(m : Int) := ⟨(-k).toNat, by omega⟩
      subst hm
      have hm0 : 0 < m := by omega
      rw [val_strInt_neg m hm0 (by omega)]
      simp [valFinish]
      omega
  refine ⟨main, ?_⟩
  intro r hr
  rw [main] at hr
  cases hr
  by_cases hk : k < 0
  · simp only [hk, decide_true, VRes.toInt]; omega
  · simp only [hk, decide_false, VRes.toInt]; omega

/-- The INTEGER and LONG instances of the property's clause. -/
theorem val_str_roundtrip_long (k : Int) (hlo : -2147483648 ≤ k) (hhi : k ≤ 2147483647) :
    ∃ r, val (strInt k) = some r ∧ r.toInt = k := by
  have h := val_str_roundtrip k (by unfold exactLimit; omega) (by unfold exactLimit; omega)
  exact ⟨_, h.1, h.2 _ h.1⟩

/-- The same for STR$ of a whole SINGLE/DOUBLE value below 2^53 (it prints the plain digits). -/
theorem val_str_roundtrip_whole_float (k : Int) (hlo : -(exactLimit : Int) < k) (hhi : k < (exactLimit : Int)) :
    ∃ r, val (strWholeFloat k) = some r ∧ r.toInt = k := by
  have h := val_str_roundtrip k hlo hhi
  exact ⟨_, h.1, h.2 _ h.1⟩

/-- VAL never fails on the modelled fragment and an empty scan gives (positive) zero. -/
theorem val_empty_scan : val [] = some (.double false 0) ∧ val [45] = some (.double false 0) ∧
    val [120, 49] = some (.double false 0) := by decide

example : val (strInt 9007199254740991) = some (.double false 9007199254740991) :=
  (val_str_roundtrip 9007199254740991 (by decide) (by decide)).1

/-- The digits `decimal` prints are digits, and they denote `n` (so `decimal` is the standard decimal
numeral of `n`, the assumption made about `format!("{}", n)`). -/
theorem decimal_digits (n : Nat) : ∀ d ∈ decimal n, 48 ≤ d ∧ d ≤ 57 := by
  induction n using Nat.strongRecOn with
  | _ n ih =>
    rw [decimal]
    by_cases h : n < 10
    · rw [if_pos h]; intro d hd; simp at hd; omega
    · rw [if_neg h]
      intro d hd
      rcases List.mem_append.mp hd with hd | hd
      · exact ih (n / 10) (by omega) d hd
      · simp at hd; omega

theorem decimal_value (n : Nat) : (decimal n).foldl (fun acc d => acc * 10 + (d - 48)) 0 = n := by
  induction n using Nat.strongRecOn with
  | _ n ih =>
    rw [decimal]
    by_cases h : n < 10
    · rw [if_pos h]; simp
    · rw [if_neg h, List.foldl_append, ih (n / 10) (by omega)]
      simp
      have := Nat.div_add_mod n 10
      omega

example : val [32, 45, 32, 52, 50, 120] = some (.double true 42) ∧ val [49, 46, 53] = none ∧
    val [51, 50, 55, 54, 56] = some (.double false 32768) ∧ val [43, 55, 46, 120] = some (.double false 7) ∧
    val [45, 48] = some (.double true 0) := by decide

example : strInt 42 = [32, 52, 50] ∧ strInt (-32768) = [45, 51, 50, 55, 54, 56] := by
  simp [strInt, decimal]

/-! ### Laws that relate several functions (the compositions the harness runs as nested calls) -/

/-- RIGHT$(s, n) = MID$(s, LEN(s) - n + 1) for `0 ≤ n ≤ LEN(s)`. -/
theorem right_eq_mid (s : List Nat) (n : Int) (h0 : 0 ≤ n) (hn : n ≤ (len s : Int)) :
    right s n = mid s ((len s : Int) - n + 1) none := by
  have hlen : len s = s.length := rfl
  rw [hlen] at hn ⊢
  have hpos : 0 < (s.length : Int) - n + 1 := by omega
  simp only [right, mid, doMid, toNonNegativeInt_nonneg h0, toPositiveInt_pos hpos]
  have e : ((s.length : Int) - n + 1).toNat - 1 = s.length - n.toNat := by omega
  rw [e]
  by_cases h : s.length > n.toNat
  · rw [if_pos h]
  · rw [if_neg h]
    have : s.length - n.toNat = 0 := by omega
    rw [this, List.drop_zero]

/-- For `n > LEN(s)` RIGHT$ returns the whole string, while the MID$ expression has a non-positive start:
the hypothesis `n ≤ LEN(s)` of `right_eq_mid` cannot be dropped. -/
theorem right_eq_mid_needs_bound :
    right [97] 3 = .ok [97] ∧ mid [97] ((len [97] : Int) - 3 + 1) none = .error .illegalFunctionCall := by
  decide

example : right [104, 97, 121] 2 = mid [104, 97, 121] ((len [104, 97, 121] : Int) - 2 + 1) none ∧
    right [104, 97, 121] 2 = .ok [97, 121] := by decide

/-- LEFT$(LEFT$(s, n), m) = LEFT$(s, min n m). -/
theorem left_left (s : List Nat) (n m : Int) (hn : 0 ≤ n) (hm : 0 ≤ m) :
    (match left s n with | .ok l => left l m | .error e => .error e) = left s (min n m) := by
  have hmin : 0 ≤ min n m := by omega
  simp only [left, toNonNegativeInt_nonneg hn, toNonNegativeInt_nonneg hm, toNonNegativeInt_nonneg hmin]
  rw [List.take_take]
  congr 2
  omega

example : (match left [97, 98, 99, 100] 3 with | .ok l => left l 2 | .error e => .error e) = .ok [97, 98] := by
  decide

/-- LTRIM$(RTRIM$(s)) = RTRIM$(LTRIM$(s)): stripping both ends does not depend on the order. -/
theorem ltrim_rtrim_comm (s : List Nat) : ltrim (rtrim s) = rtrim (ltrim s) := by
  obtain ⟨k, hk, hhead⟩ := ltrim_exact s
  obtain ⟨j, hj, hlast⟩ := rtrim_exact (ltrim s)
  by_cases hc : rtrim (ltrim s) = []
  · -- `s` consists of blanks only
    rw [hc] at hj
    have hs : s = [] ++ List.replicate (k + j) 32 := by
      rw [hk, hj]; simp
    have : rtrim s = [] := by
      rw [hs]; exact rtrim_unique (k + j) [] (by simp)
    rw [this, hc]; rfl
  · -- `s` = k blanks, a core `c` without a blank at either end, j blanks
    have hc' : ∃ a cs, rtrim (ltrim s) = a :: cs := by
      cases h : rtrim (ltrim s) with
      | nil => exact absurd h hc
      | cons a cs => exact ⟨a, cs, rfl⟩
    obtain ⟨a, cs, hcore⟩ := hc'
    have hhead' : (rtrim (ltrim s)).head? ≠ some 32 := by
      rw [hj, hcore] at hhead
      rw [hcore]
      simpa using hhead
    have hs : s = (List.replicate k 32 ++ rtrim (ltrim s)) ++ List.replicate j 32 := by
      rw [List.append_assoc, ← hj, ← hk]
    have hlast' : (List.replicate k 32 ++ rtrim (ltrim s)).getLast? ≠ some 32 := by
      rw [hcore] at hlast ⊢
      rw [List.getLast?_append]
      cases h : (a :: cs).getLast? with
      | none => simp at h
      | some x => rw [h] at hlast; simpa using hlast
    have h1 : rtrim s = List.replicate k 32 ++ rtrim (ltrim s) := by
      conv => lhs; rw [hs]
      exact rtrim_unique j _ hlast'
    rw [h1]
    exact ltrim_unique k _ hhead'

example : ltrim (rtrim [32, 32, 97, 32, 98, 32]) = [97, 32, 98] ∧ rtrim (ltrim [32, 32, 97, 32, 98, 32]) = [97, 32, 98] := by
  decide

/-- Trimming is idempotent. -/
theorem ltrim_idem (s : List Nat) : ltrim (ltrim s) = ltrim s := by
  obtain ⟨_, _, hhead⟩ := ltrim_exact s
  simpa using ltrim_unique 0 (ltrim s) hhead

theorem rtrim_idem (s : List Nat) : rtrim (rtrim s) = rtrim s := by
  obtain ⟨_, _, hlast⟩ := rtrim_exact s
  simpa using rtrim_unique 0 (rtrim s) hlast

/-- LEN(UCASE$(s)) = LEN(s) = LEN(LCASE$(s)), and LEN of a trimmed string is not larger. -/
theorem len_case_trim (s : List Nat) :
    len (ucase s) = len s ∧ len (lcase s) = len s ∧ len (ltrim s) ≤ len s ∧ len (rtrim s) ≤ len s := by
  refine ⟨by simp [len, ucase], by simp [len, lcase], ?_, ?_⟩
  · obtain ⟨k, hk, _⟩ := ltrim_exact s
    have := congrArg List.length hk
    simp only [List.length_append, List.length_replicate] at this
    simp only [len]; omega
  · obtain ⟨k, hk, _⟩ := rtrim_exact s
    have := congrArg List.length hk
    simp only [List.length_append, List.length_replicate] at this
    simp only [len]; omega

/-- INSTR(n, s, t) for non-empty `t`: the result is 0 or lies in `n ..= LEN(s) - LEN(t) + 1`, and
LEFT$/MID$ find `t` there: MID$(s, r, LEN(t)) = t. -/
theorem instr_bounds (s t : List Nat) (n : Int) (ht : t ≠ []) (hn : 0 < n) :
    ∃ r, instr (some n) s t = .ok r ∧
      (r = 0 ∨ (n.toNat ≤ r ∧ r + len t ≤ len s + 1 ∧ mid s (r : Int) (some (len t : Int)) = .ok t)) := by
  obtain ⟨r, hr, hcase⟩ := instr_least s t n ht hn
  refine ⟨r, hr, ?_⟩
  rcases hcase with ⟨h0, _⟩ | ⟨hge, hocc, _⟩
  · exact Or.inl h0
  · right
    have hr1 : 1 ≤ r := hocc.1
    have hpre := hocc.2
    refine ⟨hge, ?_, ?_⟩
    · rcases prefix_drop_length hpre with h | h
      · simp only [len]; omega
      · exact absurd h ht
    · have h1 : 0 < (r : Int) := by omega
      have h2 : 0 ≤ (len t : Int) := by omega
      have hlt : len t = t.length := rfl
      rw [hlt] at h2 ⊢
      simp only [mid, doMid, toPositiveInt_pos h1, toNonNegativeInt_nonneg h2]
      have e1 : (r : Int).toNat = r := by omega
      have e2 : ((t.length : Nat) : Int).toNat = t.length := by omega
      rw [e1, e2]
      congr 1
      exact (take_eq_iff_prefix t _).mpr hpre

example : instr (some 2) [116, 104, 101, 32, 116, 104, 101] [116, 104, 101] = .ok 5 ∧
    mid [116, 104, 101, 32, 116, 104, 101] 5 (some 3) = .ok [116, 104, 101] := by decide

/-- A string is found in itself at position 1, and LEFT$(s, n) is found in `s` at position 1. -/
theorem instr_self_prefix (s : List Nat) (n : Int) (hn : 0 < n) (hs : s ≠ []) :
    ∃ l, left s n = .ok l ∧ instr none s l = .ok 1 := by
  obtain ⟨l, hl, hpre, hlen⟩ := left_is_prefix s n (by omega)
  refine ⟨l, hl, ?_⟩
  have hlne : l ≠ [] := by
    intro h
    rw [h] at hlen
    have : 0 < s.length := List.length_pos_iff.mpr hs
    simp at hlen
    omega
  rw [instr_default_start]
  obtain ⟨r, hr, hcase⟩ := instr_least s l 1 hlne (by omega)
  rw [hr]
  have hocc : OccursAt s l 1 := ⟨by omega, by simpa using hpre⟩
  rcases hcase with ⟨_, hnone⟩ | ⟨hge, hocc', hmin⟩
  · exact absurd hocc (hnone 1 (by simp))
  · by_cases h1 : r = 1
    · rw [h1]
    · exact absurd hocc (hmin 1 (by simp) (by have := hocc'.1; simp at hge; omega))

example : instr none [104, 97, 121] [104, 97] = .ok 1 := by decide

/-! ### CHR$ -/

/-- CHR$(i) is the one-character string with code `i` for `0 ≤ i ≤ 255`, else Illegal function call. -/
theorem chr_spec (i : Int) :
    (0 ≤ i ∧ i ≤ 255 → chr i = .ok [i.toNat]) ∧ (¬ (0 ≤ i ∧ i ≤ 255) → chr i = .error .illegalFunctionCall) := by
  unfold chr
  constructor <;> intro h <;> simp [h]

/-! ### Legacy: what the pinned tree did (defects F13 in RIGHT$, F16 in SPACE$), before the `fix:` commits -/

/-- The suffix property, stated for the pinned tree's RIGHT$ (byte length against a character count). -/
def RightLegacySpec : Prop :=
  ∀ (s : List Nat) (n : Int), 0 ≤ n → ∃ r, rightLegacy s n = .ok r ∧ r <:+ s ∧ r.length = min n.toNat s.length

/-- It fails for a non-ASCII operand: RIGHT$(CHR$(200) + "ab", 1) was "" instead of "b". -/
theorem rightLegacy_counterexample : rightLegacy [200, 97, 98] 1 = .ok [] := by decide

theorem rightLegacy_violates : ¬ RightLegacySpec := by
  intro h
  obtain ⟨r, h1, _, h3⟩ := h [200, 97, 98] 1 (by omega)
  rw [rightLegacy_counterexample] at h1
  cases h1
  simp at h3

theorem utf8Len_ascii (s : List Nat) (h : allAscii s) : utf8Len s = s.length := by
  induction s with
  | nil => rfl
  | cons c cs ih =>
    have hc : c < 128 := h c (by simp)
    have hcs : allAscii cs := fun d hd => h d (by simp [hd])
    have := ih hcs
    simp only [utf8Len, List.map_cons, List.sum_cons, List.length_cons] at *
    simp [utf8LenChar, hc]
    omega

/-- On ASCII strings the pinned tree's RIGHT$ was right (it is the repaired RIGHT$ there). -/
theorem rightLegacy_partial (s : List Nat) (n : Int) (h : allAscii s) : rightLegacy s n = right s n := by
  unfold rightLegacy right
  rw [utf8Len_ascii s h]

/-- The pinned tree's SPACE$ accepted a negative count (F16); the repaired one raises error 5. -/
theorem spaceLegacy_counterexample :
    spaceLegacy (-1) = .ok [] ∧ space (-1) = .error .illegalFunctionCall := by decide

end RbThm.C17
