import Thm.AoRSimIdx
/-!
Layer AoR (arrays of records / of fixed-length strings), simulation part — the element read `a(i…).f.g`
(`VarPathName a · ⟦i…⟧path · VarPathProperty f · VarPathProperty g · CopyVarPathToA · PopVarPath`): the subscripts extend
the path (`idx_path_correct`), the field names are appended (`idx_props_steps`), `CopyVarPathToA` resolves the path parent
first — the array, the element through `abs_index` (`ArrRel.read`: Subscript out of range (9) at the position of the
expression outside the index box), the fields below the element (`RbThm.RecLSim.path_get_rel`) — and leaves a tree that
represents the value of the reference semantics (a scalar, a fixed-length string or a whole record) in A.
-/
namespace RbThm.AoRSim
set_option linter.unusedVariables false
set_option linter.unusedSimpArgs false
open RbModel RbModel.Num RbModel.AoR RbModel.AoR.Compile RbModel.AoR.Vm
open RbModel.Ast (Pos)
open RbModel.RecL (ETy FTy FFields expand zeroOf)
open RbModel.RecL.Vm (allocTy defaultVar)
open RbThm.AoRLen RbThm.ArrLNum RbThm.RecLTy RbThm.AoRTy

/-- resolving the path of a field of an element of a dimensioned array: the element exists -/
theorem elem_readPath_some {τ : Vm} {a : Nat} {is : List Int} {props : List String} {V : VArr} {el w : RV}
    (hV : τ.arrs[a]? = some (some V)) (hne : is ≠ []) (hg : Arr.getElem V is = some el)
    (hf : ArrPath.getAt el (stepsOf props) = some w) :
    readPath τ ⟨.arr a, is, props⟩ = .ok w := by
  cases is with
  | nil => exact absurd rfl hne
  | cons i rest =>
    have hf' : ArrPath.getAt el (props.map fun f => ArrPath.Step.fld f.toList) = some w := hf
    simp only [readPath, hV, hg, Path.flds, hf']

/-- … the subscripts are outside the index box (or their number is not the number of dimensions) -/
theorem elem_readPath_none {τ : Vm} {a : Nat} {is : List Int} {props : List String} {V : VArr}
    (hV : τ.arrs[a]? = some (some V)) (hne : is ≠ []) (hg : Arr.getElem V is = none) :
    readPath τ ⟨.arr a, is, props⟩ = .subscript := by
  cases is with
  | nil => exact absurd rfl hne
  | cons i rest => simp only [readPath, hV, hg]

/-- element read `a(i…).f.g`: `VarPathName a · ⟦i…⟧path · VarPathProperty… · CopyVarPathToA · PopVarPath` -/
theorem case_elem (code : Code) (sc : Scope) (a : Nat) (idx : Exprs) (path : List String) (t : ETy) (p : Pos)
    (hI : IdxSpec code sc idx) : RvSpec code sc (.elem a idx path t p) := by
  intro off s σ hc hpc hr hw
  simp only [EWf, ExprTyped] at hw
  obtain ⟨⟨et, root, ft, h1, h2, h3, h4⟩, hne, hwi⟩ := hw
  simp only [compileExpr] at hc
  have hpath := idx_path_correct code sc a idx p hI off s σ hc.append_left.append_left hpc hr hwi
  have hlen : (compileExpr (.elem a idx path t p)).length = 1 + (compileIdx idx).length + path.length + 2 := by
    simp only [compileExpr, List.length_append, List.length_singleton, List.length_cons, List.length_nil,
      idx_len_props]
  rw [hlen]
  simp only [AoR.Ref.eval]
  cases hev : AoR.Ref.evalIdx s.env s.arrs idx with
  | err c q => rw [hev] at hpath; exact hpath
  | inexact => trivial
  | illFormed => trivial
  | ok is =>
    rw [hev] at hpath
    obtain ⟨τ, st, hp, ha, hrel, hpaths, hvals, hregs, hctx, htr, hsk⟩ := hpath
    simp only [RecL.Ref.ERes.bind, AoR.Ref.getArr]
    cases hA : s.arrs[a]? with
    | none => trivial
    | some oA =>
      cases oA with
      | none => trivial
      | some A =>
        simp only
        have hisne : is ≠ [] := idx_evalIdx_ne_nil hev hne
        have hpaths' : τ.paths = ⟨.arr a, is, []⟩ :: σ.paths := by simpa using hpaths
        -- the field names
        have hcp : CodeAt code τ.pc (compileProps path p) := by
          have := hc.append_left.append_right
          simp only [List.length_append, List.length_singleton] at this
          rw [hp]; exact this
        have st2 := idx_props_steps code (.arr a) is p path [] σ.paths τ hcp hpaths'
        let τp : Vm := idxPropsSt τ (.arr a) is [] path σ.paths
        have hrelp : Rel sc s τp := hrel.idxPropsSt _ _ _ _ _
        have hcv : code[τp.pc]? = some (CInstr.copyVarPathToA, p) := by
          have := hc.append_right.head
          simp only [List.length_append, List.length_singleton, idx_len_props] at this
          simp only [τp, idxPropsSt, hp]; rw [← this]; congr 1; omega
        have hpop : code[τp.pc + 1]? = some (CInstr.popVarPath, p) := by
          have := hc.append_right.tail.head
          simp only [List.length_append, List.length_singleton, idx_len_props] at this
          simp only [τp, idxPropsSt, hp]; rw [← this]; congr 1; omega
        have hpathsp : τp.paths = ⟨.arr a, is, path⟩ :: σ.paths := by
          simp only [τp, idxPropsSt, List.nil_append]
        obtain ⟨V, ft', hV, he', hAV⟩ := hrel.arrs.lookup h1 hA
        have hft : ft' = root := by rw [h2] at he'; injection he' with he'; exact he'.symm
        subst hft
        have hVp : τp.arrs[a]? = some (some V) := hV
        have hread := hAV.read is
        by_cases hb : A.inBounds is = true
        · simp only [hb, if_true] at hread ⊢
          obtain ⟨w, hg, hvw⟩ := hread
          obtain ⟨v', w', g1, g2, g3, g4⟩ :=
            RbThm.RecLSim.path_get_rel hr.twf path ft' ft (A.get is) w (tyIn_expand h2) (hAV.typed is) hvw h3
          simp only [g1, RvPost]
          let τ1 : Vm := Vm.advance (Vm.setRA τp w')
          have s3 : Vm.step code τp = .next τ1 := by
            simp only [Vm.step, hcv, hpathsp, elem_readPath_some hVp hisne hg g2]; rfl
          have s4 : Vm.step code τ1 = .next (Vm.advance { τ1 with paths := σ.paths }) := by
            have hp1 : τ1.paths = ⟨.arr a, is, path⟩ :: σ.paths := hpathsp
            have hc1 : code[τ1.pc]? = some (CInstr.popVarPath, p) := hpop
            simp only [Vm.step, hc1, hp1]
          refine ⟨_, st.trans (st2.trans (Steps.cons s3 (Steps.one s4))), ?_, g3,
            hrelp.same rfl rfl rfl rfl rfl rfl rfl rfl, ⟨hvals, rfl, hregs, hctx, htr, hsk⟩⟩
          simp only [τ1, τp, idxPropsSt, Vm.advance, Vm.setRA, hp]; omega
        · simp only [hb] at hread ⊢
          simp only [RvPost]
          rw [← hrelp.out]
          refine ⟨τp, τp, st.trans st2, ?_, rfl⟩
          simp only [Vm.step, hcv, hpathsp, elem_readPath_none hVp hisne hread]

end RbThm.AoRSim
