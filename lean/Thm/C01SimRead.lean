import Thm.C01SimBase
import Thm.C06
/-!
C01, simulation part: type preservation of the reference semantics (`exec_typed : ExecTyped`) and the case lemma of
the statement theorem for `READ` (`case_read`).
-/
set_option linter.unusedVariables false
set_option linter.unusedSimpArgs false

/-! The auxiliary definitions and lemmas live in their own namespace so that they cannot clash with those of the other
case-lemma files; the two deliverables `exec_typed` and `case_read` are in `RbThm.C01Sim`. -/
namespace RbThm.C01Sim.SimRead
open RbModel RbModel.Num RbModel.Ast RbModel.Src RbModel.Core RbModel.CoreVm RbModel.Ref
open RbThm.C01Len

/-! ### tags of the results of the numeric operations (no range hypotheses) -/

theorem res_bind_ok {α β : Type} {r : Res α} {f : α → Res β} {b : β} (h : r.bind f = .ok b) :
    ∃ a, r = .ok a ∧ f a = .ok b := by
  cases r with
  | ok a => exact ⟨a, rfl, h⟩
  | err e => cases h
  | inexact => cases h

theorem mkSgl_tag {q : Rat} {w : Val} (h : mkSgl q = .ok w) : w.tag = .sgl := by
  unfold mkSgl at h; split at h
  · cases h; rfl
  · cases h

theorem mkDbl_tag {q : Rat} {w : Val} (h : mkDbl q = .ok w) : w.tag = .dbl := by
  unfold mkDbl at h; split at h
  · cases h; rfl
  · cases h

theorem castRound_bind_tag {lo hi : Int} {q : Rat} {mk : Int → Val} {t : Ty} {w : Val} (hmk : ∀ r, (mk r).tag = t)
    (h : ((castRound lo hi q).bind fun r => .ok (mk r)) = .ok w) : w.tag = t := by
  obtain ⟨r, _, h2⟩ := res_bind_ok h
  cases h2; exact hmk r

/-- what a successful conversion returns has the tag of the target type -/
theorem cast_tag (v : Val) (t : Ty) (w : Val) (h : Num.cast v t = .ok w) : w.tag = t := by
  cases t <;> cases v <;> simp only [Num.cast] at h <;>
    first
    | (cases h <;> rfl)
    | (exact mkSgl_tag h)
    | (exact mkDbl_tag h)
    | (split at h
       · first
         | (cases h <;> rfl)
         | (exact mkSgl_tag h)
         | (exact mkDbl_tag h)
         | (exact castRound_bind_tag (fun _ => rfl) h)
       · cases h)

theorem negate_tag (a w : Val) (h : negate a = .ok w) : w.tag = a.tag := by
  cases a <;> simp only [negate] at h
  · split at h
    · cases h
    · cases h; rfl
  · split at h
    · cases h
    · cases h; rfl
  · cases h; rfl
  · cases h; rfl
  · cases h

theorem unaryNot_tag (a w : Val) (h : unaryNot a = .ok w) : w.tag = a.tag := by
  cases a <;> simp only [unaryNot] at h
  · cases h; rfl
  · cases h; rfl
  · split at h
    · exact mkSgl_tag h
    · cases h
  · split at h
    · exact mkDbl_tag h
    · cases h
  · cases h

theorem modulo_tag (a b w : Val) (h : modulo a b = .ok w) : w.tag = .int := by
  unfold modulo at h
  obtain ⟨ra, _, h⟩ := res_bind_ok h
  obtain ⟨rb, _, h⟩ := res_bind_ok h
  split at h
  · cases h
  · cases h
  · split at h
    · cases h; rfl
    · cases h

theorem and_tag (a b w : Val) (h : Num.and a b = .ok w) : w.tag = .int := by
  cases a <;> cases b <;> simp only [Num.and] at h <;> cases h <;> rfl

theorem or_tag (a b w : Val) (h : Num.or a b = .ok w) : w.tag = .int := by
  cases a <;> cases b <;> simp only [Num.or] at h <;> cases h <;> rfl

theorem ofBool_tag (b : Bool) : (ofBool b).tag = .int := rfl

/-- the checker's table types `MOD`, the comparisons, `AND` and `OR` as INTEGER -/
theorem binType_int (op : Op) (ta tb t : Ty) (hop : op ≠ .plus ∧ op ≠ .minus ∧ op ≠ .multiply ∧ op ≠ .divide)
    (h : Gen.NumTables.binType op ta tb = some t) : t = .int := by
  obtain ⟨h1, h2, h3, h4⟩ := hop
  cases op <;> first | (exact absurd rfl h1) | (exact absurd rfl h2) | (exact absurd rfl h3) | (exact absurd rfl h4) |
    (cases ta <;> cases tb <;> first | (cases h <;> rfl) | (cases h))

/-- the value the VM's operator instruction returns has the type the checker's table gives for the operand types -/
theorem vmBin_tag (op : Op) (a b w : Val) (t : Ty) (hd : op ≠ .divide)
    (ht : Gen.NumTables.binType op a.tag b.tag = some t)
    (h : vmBin Gen.NumTables.binType op a b = .ok w) : w.tag = t := by
  have harith : ∀ ao : Arith, op = ao.toOp → arith ao a b = .ok w → w.tag = t := by
    intro ao ho hh
    have := (RbThm.C06.arith_typed ao a b w hh).1
    rw [← ho, ht] at this
    injection this with this
    exact this.symm
  cases op <;> simp only [vmBin] at h
  case plus => exact harith .add rfl h
  case minus => exact harith .sub rfl h
  case multiply => exact harith .mul rfl h
  case divide => exact absurd rfl hd
  case modulo =>
    rw [binType_int _ _ _ _ (by decide) ht]; exact modulo_tag a b w h
  case and =>
    obtain ⟨x, _, h⟩ := res_bind_ok h
    obtain ⟨y, _, h⟩ := res_bind_ok h
    rw [binType_int _ _ _ _ (by decide) ht]; exact and_tag x y w h
  case or =>
    obtain ⟨x, _, h⟩ := res_bind_ok h
    obtain ⟨y, _, h⟩ := res_bind_ok h
    rw [binType_int _ _ _ _ (by decide) ht]; exact or_tag x y w h
  all_goals
    obtain ⟨o, _, h⟩ := res_bind_ok h
    cases h
    rw [binType_int _ _ _ _ (by decide) ht]; rfl

/-! ### expressions: the value has the static type -/

theorem eres_bind_ok {r : ERes} {f : Val → ERes} {b : Val} (h : r.bind f = .ok b) :
    ∃ a, r = .ok a ∧ f a = .ok b := by
  cases r with
  | ok a => exact ⟨a, rfl, h⟩
  | err c p => cases h
  | inexact => cases h

theorem lift_ok {p : Pos} {r : Res Val} {v : Val} (h : lift p r = .ok v) : r = .ok v := by
  cases r with
  | ok a => simp only [lift] at h; cases h; rfl
  | err e => cases h
  | inexact => cases h

theorem typed_getD_tag {sl : List Ty} {env : List Val} (h : Typed sl env) {x : Nat} {t : Ty} (hx : sl[x]? = some t)
    (d : Val) : (env.getD x d).tag = t := by
  obtain ⟨v, hv, ht⟩ := h.2 x t hx
  simp only [List.getD, hv, Option.getD_some, ht]

theorem typed_set {sl : List Ty} {env : List Val} (h : Typed sl env) {x : Nat} {t : Ty} {v : Val}
    (hx : sl[x]? = some t) (hv : v.tag = t) : Typed sl (env.set x v) := by
  refine ⟨by simp only [List.length_set]; exact h.1, ?_⟩
  intro y u hy
  by_cases hxy : x = y
  · subst hxy
    have hu : u = t := by rw [hx] at hy; injection hy with hy; exact hy.symm
    refine ⟨v, ?_, by rw [hv, hu]⟩
    rw [List.getElem?_set_self (h.lt hx)]
  · obtain ⟨w, hw, hwt⟩ := h.2 y u hy
    exact ⟨w, by rw [List.getElem?_set_ne hxy]; exact hw, hwt⟩

/-- type soundness of expression evaluation: in an environment whose variables hold values of their declared types, a
well-typed expression evaluates to a value of its static type -/
theorem eval_tag (sl : List Ty) (env : List Val) (hty : Typed sl env) :
    ∀ (e : Ast.Expr) (v : Val), ExprWt sl e → eval env e = .ok v → v.tag = e.ty := by
  intro e
  induction e with
  | lit w p => intro v _ h; simp only [eval] at h; cases h; rfl
  | var x t p => intro v hw h; simp only [eval] at h; cases h; exact typed_getD_tag hty hw _
  | un op e p ih =>
    intro v hw h
    cases op with
    | neg =>
      simp only [eval] at h
      obtain ⟨a, ha, hn⟩ := eres_bind_ok h
      rw [negate_tag a v (lift_ok hn)]; exact ih a hw ha
    | not =>
      simp only [eval] at h
      obtain ⟨a, ha, hn⟩ := eres_bind_ok h
      rw [unaryNot_tag a v (lift_ok hn)]; exact ih a hw ha
  | paren e p ih => intro v hw h; simp only [eval] at h; exact ih v hw h
  | bin op l r t p ihl ihr =>
    intro v hw h
    obtain ⟨hwl, hwr, hop⟩ := hw
    simp only [eval] at h
    obtain ⟨a, ha, h⟩ := eres_bind_ok h
    obtain ⟨b, hb, h⟩ := eres_bind_ok h
    have h := lift_ok h
    have hta := ihl a hwl ha
    have htb := ihr b hwr hb
    show v.tag = t
    by_cases hd : op = .divide
    · subst hd
      simp only [binStep] at h
      obtain ⟨q, _, hc⟩ := res_bind_ok h
      exact cast_tag q t v hc
    · have hb' : binStep op t a b = vmBin Gen.NumTables.binType op a b := by
        cases op <;> first | rfl | exact absurd rfl hd
      rw [hb'] at h
      rcases hop with hop | hop
      · exact absurd hop hd
      · exact vmBin_tag op a b v t hd (by rw [hta, htb]; exact hop) h

theorem storeCast_tag (s t : Ty) (v w : Val) (hs : v.tag = s) (h : storeCast s t v = .ok w) : w.tag = t := by
  unfold storeCast at h
  split at h
  · next hst => cases h; rw [hs, hst]
  · exact cast_tag v t w h

theorem evalTo_tag (sl : List Ty) (env : List Val) (hty : Typed sl env) (e : Ast.Expr) (t : Ty) (v : Val)
    (hw : ExprWt sl e) (h : evalTo env e t = .ok v) : v.tag = t := by
  unfold evalTo at h
  obtain ⟨a, ha, h⟩ := eres_bind_ok h
  exact storeCast_tag e.ty t a v (eval_tag sl env hty e a hw ha) (lift_ok h)

/-! ### type preservation of the reference semantics -/

mutual
/-- what type preservation needs of a statement of the reference syntax: assigned, read and loop variables are
declared slots used at their declared types, assigned expressions (and FOR's start value) are well typed -/
def WfA (sl : List Ty) : Stmt → Prop
  | .skip => True
  | .seq a b => WfA sl a ∧ WfA sl b
  | .assign x t e _ => sl[x]? = some t ∧ ExprWt sl e
  | .print _ _ => True
  | .read x t _ => sl[x]? = some t
  | .ifs _ thn els _ => WfA sl thn ∧ WfA sl els
  | .select _ cases _ => WfAC sl cases
  | .forLoop x t lo _ _ body _ => sl[x]? = some t ∧ ExprWt sl lo ∧ WfA sl body
  | .while _ body _ => WfA sl body
  | .doLoop _ _ _ body _ => WfA sl body
  | .end_ _ => True
def WfAC (sl : List Ty) : Cases → Prop
  | .nil => True
  | .else_ body => WfA sl body
  | .case _ body rest => WfA sl body ∧ WfAC sl rest
end

theorem wfA_readSeq (sl : List Ty) (p : Pos) : ∀ (vars : List (Nat × Ty × Pos)),
    (∀ v ∈ vars, sl[v.1]? = some v.2.1) → WfA sl (readSeq p vars)
  | [], _ => by simp only [readSeq, WfA]
  | (x, t, q) :: rest, h => by
    simp only [readSeq, WfA]
    exact ⟨h (x, t, q) (List.mem_cons_self ..), wfA_readSeq sl p rest (fun v hv => h v (List.mem_cons_of_mem _ hv))⟩

mutual
theorem wfA_desugar (sl : List Ty) : ∀ (s : SStmt), Wf sl s → WfA sl (desugar s)
  | .skip, _ => by simp only [desugar, WfA]
  | .comment, _ => by simp only [desugar, WfA]
  | .seq a b, h => by
    simp only [Wf] at h
    simp only [desugar, WfA]
    exact ⟨wfA_desugar sl a h.1, wfA_desugar sl b h.2⟩
  | .dim x t p, h => by
    simp only [Wf] at h
    simp only [desugar, WfA, ExprWt]
    exact ⟨h, trivial⟩
  | .assign x t e p, h => by
    simp only [Wf] at h
    simp only [desugar, WfA]
    exact ⟨h.1, h.2.2⟩
  | .print items p, _ => by simp only [desugar, WfA]
  | .data items p, h => by simp only [Wf] at h
  | .read vars p, h => by
    simp only [Wf] at h
    simp only [desugar]
    exact wfA_readSeq sl p vars h
  | .ifBlock c thn elifs hasElse els p, h => by
    simp only [Wf] at h
    simp only [desugar, WfA]
    exact ⟨wfA_desugar sl thn h.2.2.1, wfA_elifs sl elifs _ p h.2.2.2.1 (wfA_desugar sl els h.2.2.2.2.1)⟩
  | .select e cases hasElse els p, h => by
    simp only [Wf] at h
    simp only [desugar, WfA]
    refine wfA_cases sl cases _ h.2.1 ?_
    cases hasElse
    · simp only [Bool.false_eq_true, if_false, WfAC]
    · simp only [if_true, WfAC]; exact wfA_desugar sl els h.2.2.1
  | .forLoop x t lo hi step body p, h => by
    simp only [Wf] at h
    simp only [desugar, WfA]
    exact ⟨h.1, h.2.2.1, wfA_desugar sl body h.2.2.2.2.2⟩
  | .while c body p, h => by
    simp only [Wf] at h
    simp only [desugar, WfA]
    exact wfA_desugar sl body h.2.2
  | .doLoop c top u body p, h => by
    simp only [Wf] at h
    simp only [desugar, WfA]
    exact wfA_desugar sl body h.2.2
  | .end_ p, _ => by simp only [desugar, WfA]
theorem wfA_elifs (sl : List Ty) : ∀ (e : ElseIfs) (els : Stmt) (p : Pos),
    WfElifs sl e → WfA sl els → WfA sl (desugarElifs e els p)
  | .nil, els, p, _, h => by simp only [desugarElifs]; exact h
  | .cons c body rest, els, p, hw, h => by
    simp only [WfElifs] at hw
    simp only [desugarElifs, WfA]
    exact ⟨wfA_desugar sl body hw.2.2.1, wfA_elifs sl rest els p hw.2.2.2 h⟩
theorem wfA_cases (sl : List Ty) : ∀ (cs : SCases) (tail : Cases),
    WfCases sl cs → WfAC sl tail → WfAC sl (desugarCases cs tail)
  | .nil, tail, _, h => by simp only [desugarCases]; exact h
  | .cons conds body rest, tail, hw, h => by
    simp only [WfCases] at hw
    simp only [desugarCases, WfAC]
    exact ⟨wfA_desugar sl body hw.2.2.1, wfA_cases sl rest tail hw.2.2.2 h⟩
end

theorem printItems_env (items : List PrintItem) : ∀ (s s' : St) (o : Outcome),
    printItems s items = (s', o) → s'.env = s.env := by
  induction items with
  | nil => intro s s' o h; simp only [printItems] at h; cases h; rfl
  | cons it rest ih =>
    intro s s' o h
    cases it with
    | comma => simp only [printItems] at h; have := ih _ _ _ h; exact this
    | semicolon => simp only [printItems] at h; exact ih _ _ _ h
    | expr e =>
      simp only [printItems] at h
      cases hev : eval s.env e with
      | err c q => simp only [hev] at h; cases h; rfl
      | inexact => simp only [hev] at h; cases h; rfl
      | ok v =>
        simp only [hev] at h
        cases hpv : printValue v with
        | none => simp only [hpv] at h; cases h; rfl
        | some pv => simp only [hpv] at h; have := ih _ _ _ h; exact this

/-- type preservation at a given amount of fuel, for the three mutually recursive functions -/
def Pres (sl : List Ty) (fuel : Nat) : Prop :=
  (∀ stmt s s', WfA sl stmt → Typed sl s.env → exec fuel stmt s = (s', .normal) → Typed sl s'.env) ∧
  (∀ p subj cs s s', WfAC sl cs → Typed sl s.env → execCases fuel p subj cs s = (s', .normal) → Typed sl s'.env) ∧
  (∀ x t h sv up body p s s', sl[x]? = some t → WfA sl body → Typed sl s.env →
      forIter fuel x t h sv up body p s = (s', .normal) → Typed sl s'.env)

theorem pres_zero (sl : List Ty) : Pres sl 0 := by
  refine ⟨?_, ?_, ?_⟩
  · intro stmt s s' _ _ h; simp only [exec] at h; cases h
  · intro p subj cs s s' _ _ h; simp only [execCases] at h; cases h
  · intro x t hv sv up body p s s' _ _ _ h; simp only [forIter] at h; cases h

theorem pres_succ (sl : List Ty) (n : Nat) (ih : Pres sl n) : Pres sl (n + 1) := by
  obtain ⟨ihE, ihC, ihF⟩ := ih
  refine ⟨?_, ?_, ?_⟩
  · intro stmt s s' hw hty h
    cases stmt with
    | skip => simp only [exec] at h; cases h; exact hty
    | seq a b =>
      simp only [WfA] at hw
      simp only [exec] at h
      generalize hr : exec n a s = r at h
      obtain ⟨s1, o1⟩ := r
      cases o1 with
      | normal => simp only at h; exact ihE b s1 s' hw.2 (ihE a s s1 hw.1 hty hr) h
      | halted => simp only at h; cases h
      | error c q => simp only at h; cases h
      | inexact => simp only at h; cases h
      | outOfFuel => simp only at h; cases h
    | assign x t e p =>
      simp only [WfA] at hw
      simp only [exec] at h
      cases hev : evalTo s.env e t with
      | err c q => simp only [hev] at h; cases h
      | inexact => simp only [hev] at h; cases h
      | ok v =>
        simp only [hev] at h; cases h
        exact typed_set hty hw.1 (evalTo_tag sl s.env hty e t v hw.2 hev)
    | print items p =>
      simp only [exec] at h
      generalize hr : printItems s items = r at h
      obtain ⟨s1, o1⟩ := r
      have he := printItems_env items s s1 o1 hr
      cases o1 with
      | normal =>
        simp only at h
        split at h
        · cases h; rw [he]; exact hty
        · cases h; show Typed sl s1.env; rw [he]; exact hty
      | halted => simp only at h; cases h
      | error c q => simp only at h; cases h
      | inexact => simp only at h; cases h
      | outOfFuel => simp only at h; cases h
    | read x t p =>
      simp only [WfA] at hw
      simp only [exec] at h
      cases hd : s.data[s.dataIdx]? with
      | none => simp only [hd] at h; cases h
      | some v =>
        simp only [hd] at h
        cases hc : Num.cast v t with
        | err e => simp only [hc] at h; cases h
        | inexact => simp only [hc] at h; cases h
        | ok w =>
          simp only [hc] at h; cases h
          exact typed_set hty hw (cast_tag v t w hc)
    | ifs c thn els p =>
      simp only [WfA] at hw
      simp only [exec] at h
      cases hc : evalCond s.env c with
      | error o' => simp only [hc] at h; cases h; exact hty
      | ok b =>
        cases b with
        | true => simp only [hc] at h; exact ihE thn s s' hw.1 hty h
        | false => simp only [hc] at h; exact ihE els s s' hw.2 hty h
    | select e cases p =>
      simp only [WfA] at hw
      simp only [exec] at h
      cases he : evalE s.env e with
      | error o' => simp only [he] at h; cases h; exact hty
      | ok subj => simp only [he] at h; exact ihC p subj cases s s' hw hty h
    | forLoop x t lo hi step body p =>
      simp only [WfA] at hw
      obtain ⟨hx, hlo, hwb⟩ := hw
      simp only [exec] at h
      cases hl : evalTo s.env lo t with
      | err c q => simp only [hl] at h; cases h
      | inexact => simp only [hl] at h; cases h
      | ok l =>
        simp only [hl] at h
        have hty1 : Typed sl (s.set x l).env := typed_set hty hx (evalTo_tag sl s.env hty lo t l hlo hl)
        cases hh : evalTo (s.set x l).env hi t with
        | err c q => simp only [hh] at h; cases h
        | inexact => simp only [hh] at h; cases h
        | ok hv =>
          simp only [hh] at h
          cases step with
          | none => simp only at h; exact ihF x t hv _ true body p _ s' hx hwb hty1 h
          | some se =>
            simp only at h
            cases hs : evalE (s.set x l).env se with
            | error o' => simp only [hs] at h; cases h; exact hty1
            | ok sv =>
              simp only [hs] at h
              cases hsg : stepSign p sv with
              | error o' => simp only [hsg] at h; cases h; exact hty1
              | ok sg =>
                cases sg with
                | neg => simp only [hsg] at h; exact ihF x t hv sv false body p _ s' hx hwb hty1 h
                | pos => simp only [hsg] at h; exact ihF x t hv sv true body p _ s' hx hwb hty1 h
                | zero => simp only [hsg] at h; cases h
    | «while» c body p =>
      have hw0 := hw
      simp only [WfA] at hw
      simp only [exec] at h
      cases hc : evalCond s.env c with
      | error o' => simp only [hc] at h; cases h; exact hty
      | ok b =>
        cases b with
        | false => simp only [hc] at h; cases h; exact hty
        | true =>
          simp only [hc] at h
          generalize hr : exec n body s = r at h
          obtain ⟨s1, o1⟩ := r
          cases o1 with
          | normal => simp only at h; exact ihE _ s1 s' hw0 (ihE body s s1 hw hty hr) h
          | halted => simp only at h; cases h
          | error c q => simp only at h; cases h
          | inexact => simp only at h; cases h
          | outOfFuel => simp only at h; cases h
    | doLoop c top until_ body p =>
      have hw0 := hw
      simp only [WfA] at hw
      simp only [exec] at h
      cases top with
      | true =>
        simp only [if_true] at h
        cases hc : evalCond s.env c with
        | error o' => simp only [hc] at h; cases h; exact hty
        | ok b =>
          simp only [hc] at h
          by_cases hb : (b != until_) = true
          · simp only [hb, if_true] at h
            generalize hr : exec n body s = r at h
            obtain ⟨s1, o1⟩ := r
            cases o1 with
            | normal => simp only at h; exact ihE _ s1 s' hw0 (ihE body s s1 hw hty hr) h
            | halted => simp only at h; cases h
            | error c q => simp only at h; cases h
            | inexact => simp only at h; cases h
            | outOfFuel => simp only at h; cases h
          · simp only [hb] at h; cases h; exact hty
      | false =>
        simp only [Bool.false_eq_true, if_false] at h
        generalize hr : exec n body s = r at h
        obtain ⟨s1, o1⟩ := r
        cases o1 with
        | normal =>
          simp only at h
          have hty1 := ihE body s s1 hw hty hr
          cases hc : evalCond s1.env c with
          | error o' => simp only [hc] at h; cases h; exact hty1
          | ok b =>
            simp only [hc] at h
            by_cases hb : (b != until_) = true
            · simp only [hb, if_true] at h; exact ihE _ s1 s' hw0 hty1 h
            · simp only [hb] at h; cases h; exact hty1
        | halted => simp only at h; cases h
        | error c q => simp only at h; cases h
        | inexact => simp only at h; cases h
        | outOfFuel => simp only at h; cases h
    | end_ p => simp only [exec] at h; cases h
  · intro p subj cs s s' hw hty h
    cases cs with
    | nil => simp only [execCases] at h; cases h; exact hty
    | else_ body => simp only [WfAC] at hw; simp only [execCases] at h; exact ihE body s s' hw hty h
    | case conds body rest =>
      simp only [WfAC] at hw
      simp only [execCases] at h
      cases hm : anyMatches s.env p subj conds with
      | error o' => simp only [hm] at h; cases h; exact hty
      | ok b =>
        cases b with
        | true => simp only [hm] at h; exact ihE body s s' hw.1 hty h
        | false => simp only [hm] at h; exact ihC p subj rest s s' hw.2 hty h
  · intro x t hv sv up body p s s' hx hwb hty h
    simp only [forIter] at h
    generalize hr0 : relTest p (if up = true then Op.lessOrEqual else Op.greaterOrEqual)
        (s.env.getD x (Ref.zeroOf t)) hv = rt at h
    cases rt with
    | error o' => simp only at h; cases h; exact hty
    | ok b =>
      cases b with
      | false => simp only at h; cases h; exact hty
      | true =>
        simp only at h
        generalize hr : exec n body s = r at h
        obtain ⟨s1, o1⟩ := r
        cases o1 with
        | normal =>
          simp only at h
          have hty1 := ihE body s s1 hwb hty hr
          generalize hp : (plus (s1.env.getD x (Ref.zeroOf t)) sv).bind (fun v => Num.cast v t) = pr at h
          cases pr with
          | ok v =>
            simp only at h
            obtain ⟨u, _, hc⟩ := res_bind_ok hp
            exact ihF x t hv sv up body p _ s' hx hwb (typed_set hty1 hx (cast_tag u t v hc)) h
          | err e => simp only at h; cases h
          | inexact => simp only at h; cases h
        | halted => simp only at h; cases h
        | error c q => simp only at h; cases h
        | inexact => simp only at h; cases h
        | outOfFuel => simp only at h; cases h

theorem pres_all (sl : List Ty) : ∀ n, Pres sl n
  | 0 => pres_zero sl
  | n + 1 => pres_succ sl n (pres_all sl n)

end RbThm.C01Sim.SimRead

namespace RbThm.C01Sim
open RbModel RbModel.Num RbModel.Ast RbModel.Src RbModel.Core RbModel.CoreVm RbModel.Ref
open RbThm.C01Len RbThm.C01Sim.SimRead

/-- type preservation of the reference semantics -/
theorem exec_typed : ExecTyped := by
  intro sl fuel stmt s s' hw hty h
  exact (pres_all sl fuel).1 (desugar stmt) s s' (wfA_desugar sl stmt hw) hty h

end RbThm.C01Sim

namespace RbThm.C01Sim.SimRead
open RbModel RbModel.Num RbModel.Ast RbModel.Src RbModel.Core RbModel.CoreVm RbModel.Ref
open RbThm.C01Len

/-! ### READ

`READ a, b` is generated as `READ a : READ b`: one call of the built-in per variable
(`BeginCollectArguments; VarPathName x; CopyVarPathToA; PushUnnamedByRef; PushStack; BuiltInSub Read;
EnqueueToReturnStack 0; PopStack; DequeueFromReturnStack; VarPathName x; CopyAToVarPath`), so every variable is assigned
before the next DATA item is converted — the `readSeq` of the reference semantics, round by round. -/

theorem steps_cast {code : Code} {σ τ τ' : Vm} (h : Steps code σ τ) (e : τ = τ') : Steps code σ τ' := e ▸ h

/-- the variables assigned one after the other -/
def setAll : List Val → List (Nat × Ty × Pos) → List Val → List Val
  | env, v :: vs, w :: ws => setAll (env.set v.1 w) vs ws
  | env, _, _ => env

theorem setAll_length : ∀ (vars : List (Nat × Ty × Pos)) (ws : List Val) (env : List Val),
    (setAll env vars ws).length = env.length
  | [], _, _ => by simp only [setAll]
  | _ :: _, [], _ => by simp only [setAll]
  | v :: vs, w :: ws, env => by simp only [setAll, setAll_length vs ws, List.length_set]

/-- the code of one single-variable READ -/
def readBlock (p : Pos) (v : Nat × Ty × Pos) : Code :=
  [(CInstr.beginArgs, p), (CInstr.varPath v.1, v.2.2), (CInstr.copyVarPathToA, v.2.2), (CInstr.pushByRef, v.2.2),
   (CInstr.pushStack, p), (CInstr.builtInRead, p), (CInstr.enqueue 0, v.2.2), (CInstr.popStack, p),
   (CInstr.dequeue, v.2.2), (CInstr.varPath v.1, v.2.2), (CInstr.copyAToVarPath, v.2.2)]

theorem compile_read (sfx : String) (off : Nat) (vars : List (Nat × Ty × Pos)) (p : Pos) :
    compileStmt sfx off (.read vars p) =
      if vars.isEmpty then
        [(CInstr.beginArgs, p), (CInstr.pushStack, p), (CInstr.builtInRead, p), (CInstr.popStack, p)]
      else vars.flatMap (readBlock p) := by
  simp only [compileStmt]
  rfl

theorem len_readBlocks (p : Pos) (vars : List (Nat × Ty × Pos)) : (vars.flatMap (readBlock p)).length = 11 * vars.length :=
  flatMap_const_len _ 11 (fun _ => rfl) vars

/-- **one single-variable READ**: the built-in converts the next DATA item to the type of the value the variable holds
(`v0`, of the declared type `t`), the converted value travels through the return queue back into the variable -/
theorem one_read (code : Code) (f : Nat) (x : Nat) (t : Ty) (q p : Pos) (off : Nat) (σ : Vm) (s : St) (v0 : Val)
    (hc : CodeAt code off (readBlock p (x, t, q))) (hpc : σ.pc = off) (hr : Rel s σ)
    (hv0 : s.env[x]? = some v0) (htag : v0.tag = t) :
    StmtSpec code 11 off σ s (exec (f + 1) (.read x t p) s) := by
  subst hpc
  simp only [readBlock] at hc
  have h0 : code[σ.pc]? = some (CInstr.beginArgs, p) := hc.head
  have h1 : code[σ.pc + 1]? = some (CInstr.varPath x, q) := hc.tail.head
  have h2 : code[σ.pc + 1 + 1]? = some (CInstr.copyVarPathToA, q) := hc.tail.tail.head
  have h3 : code[σ.pc + 1 + 1 + 1]? = some (CInstr.pushByRef, q) := hc.tail.tail.tail.head
  have h4 : code[σ.pc + 1 + 1 + 1 + 1]? = some (CInstr.pushStack, p) := hc.tail.tail.tail.tail.head
  have h5 : code[σ.pc + 1 + 1 + 1 + 1 + 1]? = some (CInstr.builtInRead, p) := hc.tail.tail.tail.tail.tail.head
  have h6 : code[σ.pc + 1 + 1 + 1 + 1 + 1 + 1]? = some (CInstr.enqueue 0, q) := hc.tail.tail.tail.tail.tail.tail.head
  have h7 : code[σ.pc + 1 + 1 + 1 + 1 + 1 + 1 + 1]? = some (CInstr.popStack, p) :=
    hc.tail.tail.tail.tail.tail.tail.tail.head
  have h8 : code[σ.pc + 1 + 1 + 1 + 1 + 1 + 1 + 1 + 1]? = some (CInstr.dequeue, q) :=
    hc.tail.tail.tail.tail.tail.tail.tail.tail.head
  have h9 : code[σ.pc + 1 + 1 + 1 + 1 + 1 + 1 + 1 + 1 + 1]? = some (CInstr.varPath x, q) :=
    hc.tail.tail.tail.tail.tail.tail.tail.tail.tail.head
  have h10 : code[σ.pc + 1 + 1 + 1 + 1 + 1 + 1 + 1 + 1 + 1 + 1]? = some (CInstr.copyAToVarPath, q) :=
    hc.tail.tail.tail.tail.tail.tail.tail.tail.tail.tail.head
  have hs : σ.env[x]? = some v0 := by rw [hr.env]; exact hv0
  -- the call with its one argument
  let σ1 : Vm := advance { σ with args := [] }
  let σ2 : Vm := advance { σ1 with paths := x :: σ1.paths }
  let σ3 : Vm := advance (setA σ2 v0)
  let σ4 : Vm := advance { σ3 with args := [(v0, some x)], paths := σ.paths }
  let σ5 : Vm := advance { σ4 with callPos := p }
  have s1 : CoreVm.step code σ = .next σ1 := by simp only [CoreVm.step, h0]; rfl
  have s2 : CoreVm.step code σ1 = .next σ2 := by simp only [CoreVm.step, σ1, advance, h1]; rfl
  have s3 : CoreVm.step code σ2 = .next σ3 := by simp only [CoreVm.step, σ2, σ1, advance, h2, hs]; rfl
  have s4 : CoreVm.step code σ3 = .next σ4 := by simp only [CoreVm.step, σ3, σ2, σ1, advance, setA, h3]; rfl
  have s5 : CoreVm.step code σ4 = .next σ5 := by simp only [CoreVm.step, σ4, σ3, σ2, σ1, advance, setA, h4]; rfl
  have pre : Steps code σ σ5 := Steps.cons s1 (Steps.cons s2 (Steps.cons s3 (Steps.cons s4 (Steps.one s5))))
  have hread : CoreVm.step code σ5 =
      match readArgs [(v0, some x)] s.data s.dataIdx with
      | .inr () => .error Ref.codeOutOfData p σ5
      | .inl (.error e) => .error (Ref.codeOf e) p σ5
      | .inl (.ok (args', idx')) => .next (advance { σ5 with args := args', dataIdx := idx' }) := by
    have h5' : code[σ5.pc]? = some (CInstr.builtInRead, p) := h5
    have e : readArgs σ5.args σ5.data σ5.dataIdx = readArgs [(v0, some x)] s.data s.dataIdx := by
      have e2 : σ5.data = s.data := hr.data
      have e3 : σ5.dataIdx = s.dataIdx := hr.dataIdx
      rw [e2, e3]; rfl
    simp only [CoreVm.step, h5']
    rw [e]; rfl
  simp only [exec]
  cases hd : s.data[s.dataIdx]? with
  | none =>
    simp only [StmtSpec]
    refine ⟨σ.env, σ5, σ5, pre, ?_, rfl, hr.out⟩
    rw [hread]; simp only [readArgs, hd]
  | some v =>
    simp only
    cases hcst : Num.cast v t with
    | inexact => simp only [StmtSpec]
    | err e =>
      simp only [StmtSpec]
      refine ⟨σ.env, σ5, σ5, pre, ?_, rfl, hr.out⟩
      rw [hread]; simp only [readArgs, hd, htag, hcst]
    | ok w =>
      simp only [StmtSpec]
      let σ6 : Vm := advance { σ5 with args := [(w, some x)], dataIdx := s.dataIdx + 1 }
      let σ7 : Vm := advance { σ6 with queue := σ6.queue ++ [w] }
      let σ8 : Vm := advance { σ7 with args := [] }
      let σ9 : Vm := advance { setA σ8 w with queue := [] }
      let σ10 : Vm := advance { σ9 with paths := x :: σ9.paths }
      let σ11 : Vm := advance { σ10 with env := σ10.env.set x σ10.regs.a, paths := σ.paths }
      have s6 : CoreVm.step code σ5 = .next σ6 := by
        rw [hread]; simp only [readArgs, hd, htag, hcst]; rfl
      have s7 : CoreVm.step code σ6 = .next σ7 := by
        have h6' : code[σ6.pc]? = some (CInstr.enqueue 0, q) := h6
        have ha : σ6.args[0]? = some (w, some x) := rfl
        simp only [CoreVm.step, h6', ha]; rfl
      have s8 : CoreVm.step code σ7 = .next σ8 := by
        have h7' : code[σ7.pc]? = some (CInstr.popStack, p) := h7
        simp only [CoreVm.step, h7']; rfl
      have s9 : CoreVm.step code σ8 = .next σ9 := by
        have h8' : code[σ8.pc]? = some (CInstr.dequeue, q) := h8
        have hq8 : σ8.queue = [w] := by show σ.queue ++ [w] = [w]; rw [hr.queue]; rfl
        simp only [CoreVm.step, h8', hq8]; rfl
      have s10 : CoreVm.step code σ9 = .next σ10 := by
        have h9' : code[σ9.pc]? = some (CInstr.varPath x, q) := h9
        simp only [CoreVm.step, h9']; rfl
      have s11 : CoreVm.step code σ10 = .next σ11 := by
        have h10' : code[σ10.pc]? = some (CInstr.copyAToVarPath, q) := h10
        have hp10 : σ10.paths = x :: σ.paths := rfl
        simp only [CoreVm.step, h10', hp10]; rfl
      refine ⟨σ11, pre.trans (Steps.cons s6 (Steps.cons s7 (Steps.cons s8 (Steps.cons s9
        (Steps.cons s10 (Steps.one s11)))))), rfl, ?_, ⟨rfl, rfl, rfl⟩, ?_⟩
      · refine rel_of _ _ ?_ hr.out hr.skip hr.data ?_ rfl
        · show σ.env.set x w = s.env.set x w
          rw [hr.env]
        · show s.dataIdx + 1 = s.dataIdx + 1
          rfl
      · show (s.env.set x w).length = s.env.length
        rw [List.length_set]

/-- the rounds of a READ statement: `readSeq` against the blocks, one unit of fuel per round -/
theorem reads_correct (code : Code) (p : Pos) (sl : List Ty) :
    ∀ (vars : List (Nat × Ty × Pos)) (fuel : Nat) (off : Nat) (σ : Vm) (s : St),
      CodeAt code off (vars.flatMap (readBlock p)) → σ.pc = off → Rel s σ →
      (∀ v ∈ vars, sl[v.1]? = some v.2.1) → Typed sl s.env →
      StmtSpec code (11 * vars.length) off σ s (exec (fuel + 1) (readSeq p vars) s)
  | [], fuel, off, σ, s, _, hpc, hr, _, _ => by
    simp only [readSeq, exec, StmtSpec]
    refine ⟨σ, Steps.refl σ, ?_, hr, SameStacks.refl σ, ?_⟩ <;> simp [hpc]
  | (x, t, q) :: rest, fuel, off, σ, s, hc, hpc, hr, hw, hty => by
    simp only [List.flatMap_cons] at hc
    simp only [readSeq, exec]
    cases fuel with
    | zero => simp only [exec, StmtSpec]
    | succ f =>
      have hx : sl[x]? = some t := hw (x, t, q) (List.mem_cons_self ..)
      obtain ⟨v0, hv0, htag⟩ := hty.2 x t hx
      have h1 := one_read code f x t q p off σ s v0 hc.append_left hpc hr hv0 htag
      generalize hra : exec (f + 1) (Stmt.read x t p) s = ra at h1 ⊢
      obtain ⟨s1, o1⟩ := ra
      cases o1 with
      | normal =>
        simp only [StmtSpec] at h1
        obtain ⟨τ, st, hp, hrel, hss, hlen⟩ := h1
        have hty1 : Typed sl s1.env := (pres_all sl (f + 1)).1 (.read x t p) s s1 (by simp only [WfA]; exact hx) hty hra
        have hcr : CodeAt code (off + 11) (rest.flatMap (readBlock p)) := hc.append_right
        have h2 := reads_correct code p sl rest f (off + 11) τ s1 hcr hp hrel
          (fun v hv => hw v (List.mem_cons_of_mem _ hv)) hty1
        simp only
        generalize exec (f + 1) (readSeq p rest) s1 = rb at h2 ⊢
        obtain ⟨s2, o2⟩ := rb
        cases o2 with
        | normal =>
          simp only [StmtSpec] at h2 ⊢
          obtain ⟨υ, st2, hp2, hrel2, hss2, hlen2⟩ := h2
          exact ⟨υ, st.trans st2, by rw [hp2]; simp only [List.length_cons]; omega, hrel2, hss.trans hss2, by omega⟩
        | halted =>
          simp only [StmtSpec] at h2 ⊢
          obtain ⟨υ, ω, st2, hh, hrel2⟩ := h2
          exact ⟨υ, ω, st.trans st2, hh, hrel2⟩
        | error c q' =>
          simp only [StmtSpec] at h2 ⊢
          obtain ⟨ev, h2⟩ := h2
          exact ⟨ev, ErrsWith.of_steps st h2⟩
        | inexact => simp only [StmtSpec]
        | outOfFuel => simp only [StmtSpec]
      | halted => simpa only [StmtSpec] using h1
      | error c q' => simpa only [StmtSpec] using h1
      | inexact => simp only [StmtSpec]
      | outOfFuel => simp only [StmtSpec]

end RbThm.C01Sim.SimRead

namespace RbThm.C01Sim
open RbModel RbModel.Num RbModel.Ast RbModel.Src RbModel.Core RbModel.CoreVm RbModel.Ref
open RbThm.C01Len RbThm.C01Sim.SimRead

/-- **READ**: one call of the built-in per variable (`READ a, b` = `READ a : READ b`); the built-in converts the DATA
item to the type of the value the variable currently holds — its declared type, because the environment is `Typed`.
A READ without variables is an empty call. -/
theorem case_read (code : Code) (fuel : Nat) (vars : List (Nat × Ty × Pos)) (p : Pos) (sfx : String) (off : Nat)
    (σ : Vm) (s : St)
    (hc : CodeAt code off (compileStmt sfx off (.read vars p))) (hpc : σ.pc = off) (hr : Rel s σ)
    (sl : List Ty) (hw : Wf sl (.read vars p)) (hty : Typed sl s.env) :
    StmtSpec code (sizeStmt (.read vars p)) off σ s (exec (fuel + 1) (desugar (.read vars p)) s) := by
  rw [compile_read] at hc
  simp only [Wf] at hw
  cases vars with
  | nil =>
    simp only [List.isEmpty_nil, if_true] at hc
    subst hpc
    have h0 : code[σ.pc]? = some (CInstr.beginArgs, p) := hc.head
    have h1 : code[σ.pc + 1]? = some (CInstr.pushStack, p) := hc.tail.head
    have h2 : code[σ.pc + 1 + 1]? = some (CInstr.builtInRead, p) := hc.tail.tail.head
    have h3 : code[σ.pc + 1 + 1 + 1]? = some (CInstr.popStack, p) := hc.tail.tail.tail.head
    let σ1 : Vm := advance { σ with args := [] }
    let σ2 : Vm := advance { σ1 with callPos := p }
    let σ3 : Vm := advance { σ2 with args := [], dataIdx := σ2.dataIdx }
    let σ4 : Vm := advance { σ3 with args := [] }
    have s1 : CoreVm.step code σ = .next σ1 := by simp only [CoreVm.step, h0]; rfl
    have s2 : CoreVm.step code σ1 = .next σ2 := by simp only [CoreVm.step, σ1, advance, h1]; rfl
    have s3 : CoreVm.step code σ2 = .next σ3 := by
      have h2' : code[σ2.pc]? = some (CInstr.builtInRead, p) := h2
      have ha : σ2.args = [] := rfl
      simp only [CoreVm.step, h2', ha, readArgs]; rfl
    have s4 : CoreVm.step code σ3 = .next σ4 := by
      have h3' : code[σ3.pc]? = some (CInstr.popStack, p) := h3
      simp only [CoreVm.step, h3']; rfl
    simp only [desugar, readSeq, exec, sizeStmt, List.isEmpty_nil, if_true, StmtSpec]
    exact ⟨σ4, Steps.cons s1 (Steps.cons s2 (Steps.cons s3 (Steps.one s4))), rfl,
      rel_of _ _ hr.env hr.out hr.skip hr.data hr.dataIdx hr.queue, ⟨rfl, rfl, rfl⟩, trivial⟩
  | cons v rest =>
    simp only [List.isEmpty_cons, Bool.false_eq_true, if_false] at hc
    have h := reads_correct code p sl (v :: rest) fuel off σ s hc hpc hr hw hty
    simp only [desugar, sizeStmt, List.isEmpty_cons, Bool.false_eq_true, if_false]
    exact h

end RbThm.C01Sim
