import Thm.C01SimBase
import Thm.C06
/-!
C01, simulation part: type preservation of the reference semantics (`exec_typed : ExecTyped`) and the case lemma of
the statement theorem for `READ` (`case_read`).
-/
set_option linter.unusedVariables false
set_option linter.unusedSimpArgs false

/-! The auxiliary definitions and lemmas live in their own namespace so that they cannot clash with those of the other
case-lemma files; the two deliverables `exec_typed` and `case_read` are in `RbThm.C01Sim`. -/
namespace RbThm.C01Sim.SimRead
open RbModel RbModel.Num RbModel.Ast RbModel.Src RbModel.Core RbModel.CoreVm RbModel.Ref
open RbThm.C01Len

/-! ### tags of the results of the numeric operations (no range hypotheses) -/

theorem res_bind_ok {α β : Type} {r : Res α} {f : α → Res β} {b : β} (h : r.bind f = .ok b) :
    ∃ a, r = .ok a ∧ f a = .ok b := by
  cases r with
  | ok a => exact ⟨a, rfl, h⟩
  | err e => cases h
  | inexact => cases h

theorem mkSgl_tag {q : Rat} {w : Val} (h : mkSgl q = .ok w) : w.tag = .sgl := by
  unfold mkSgl at h; split at h
  · cases h; rfl
  · cases h

theorem mkDbl_tag {q : Rat} {w : Val} (h : mkDbl q = .ok w) : w.tag = .dbl := by
  unfold mkDbl at h; split at h
  · cases h; rfl
  · cases h

theorem castRound_bind_tag {lo hi : Int} {q : Rat} {mk : Int → Val} {t : Ty} {w : Val} (hmk : ∀ r, (mk r).tag = t)
    (h : ((castRound lo hi q).bind fun r => .ok (mk r)) = .ok w) : w.tag = t := by
  obtain ⟨r, _, h2⟩ := res_bind_ok h
  cases h2; exact hmk r

/-- what a successful conversion returns has the tag of the target type -/
theorem cast_tag (v : Val) (t : Ty) (w : Val) (h : Num.cast v t = .ok w) : w.tag = t := by
  cases t <;> cases v <;> simp only [Num.cast] at h <;>
    first
    | (cases h <;> rfl)
    | (exact mkSgl_tag h)
    | (exact mkDbl_tag h)
    | (split at h
       · first
         | (cases h <;> rfl)
         | (exact mkSgl_tag h)
         | (exact mkDbl_tag h)
         | (exact castRound_bind_tag (fun _ => rfl) h)
       · cases h)

theorem negate_tag (a w : Val) (h : negate a = .ok w) : w.tag = a.tag := by
  cases a <;> simp only [negate] at h
  · split at h
    · cases h
    · cases h; rfl
  · split at h
    · cases h
    · cases h; rfl
  · cases h; rfl
  · cases h; rfl
  · cases h

theorem unaryNot_tag (a w : Val) (h : unaryNot a = .ok w) : w.tag = a.tag := by
  cases a <;> simp only [unaryNot] at h
  · cases h; rfl
  · cases h; rfl
  · split at h
    · exact mkSgl_tag h
    · cases h
  · split at h
    · exact mkDbl_tag h
    · cases h
  · cases h

theorem modulo_tag (a b w : Val) (h : modulo a b = .ok w) : w.tag = .int := by
  unfold modulo at h
  obtain ⟨ra, _, h⟩ := res_bind_ok h
  obtain ⟨rb, _, h⟩ := res_bind_ok h
  split at h
  · cases h
  · cases h
  · split at h
    · cases h; rfl
    · cases h

theorem and_tag (a b w : Val) (h : Num.and a b = .ok w) : w.tag = .int := by
  cases a <;> cases b <;> simp only [Num.and] at h <;> cases h <;> rfl

theorem or_tag (a b w : Val) (h : Num.or a b = .ok w) : w.tag = .int := by
  cases a <;> cases b <;> simp only [Num.or] at h <;> cases h <;> rfl

theorem ofBool_tag (b : Bool) : (ofBool b).tag = .int := rfl

/-- the checker's table types `MOD`, the comparisons, `AND` and `OR` as INTEGER -/
theorem binType_int (op : Op) (ta tb t : Ty) (hop : op ≠ .plus ∧ op ≠ .minus ∧ op ≠ .multiply ∧ op ≠ .divide)
    (h : Gen.NumTables.binType op ta tb = some t) : t = .int := by
  obtain ⟨h1, h2, h3, h4⟩ := hop
  cases op <;> first | (exact absurd rfl h1) | (exact absurd rfl h2) | (exact absurd rfl h3) | (exact absurd rfl h4) |
    (cases ta <;> cases tb <;> first | (cases h <;> rfl) | (cases h))

/-- the value the VM's operator instruction returns has the type the checker's table gives for the operand types -/
theorem vmBin_tag (op : Op) (a b w : Val) (t : Ty) (hd : op ≠ .divide)
    (ht : Gen.NumTables.binType op a.tag b.tag = some t)
    (h : vmBin Gen.NumTables.binType op a b = .ok w) : w.tag = t := by
  have harith : ∀ ao : Arith, op = ao.toOp → arith ao a b = .ok w → w.tag = t := by
    intro ao ho hh
    have := (RbThm.C06.arith_typed ao a b w hh).1
    rw [← ho, ht] at this
    injection this with this
    exact this.symm
  cases op <;> simp only [vmBin] at h
  case plus => exact harith .add rfl h
  case minus => exact harith .sub rfl h
  case multiply => exact harith .mul rfl h
  case divide => exact absurd rfl hd
  case modulo =>
    rw [binType_int _ _ _ _ (by decide) ht]; exact modulo_tag a b w h
  case and =>
    obtain ⟨x, _, h⟩ := res_bind_ok h
    obtain ⟨y, _, h⟩ := res_bind_ok h
    rw [binType_int _ _ _ _ (by decide) ht]; exact and_tag x y w h
  case or =>
    obtain ⟨x, _, h⟩ := res_bind_ok h
    obtain ⟨y, _, h⟩ := res_bind_ok h
    rw [binType_int _ _ _ _ (by decide) ht]; exact or_tag x y w h
  all_goals
    obtain ⟨o, _, h⟩ := res_bind_ok h
    cases h
    rw [binType_int _ _ _ _ (by decide) ht]; rfl

/-! ### expressions: the value has the static type -/

theorem eres_bind_ok {r : ERes} {f : Val → ERes} {b : Val} (h : r.bind f = .ok b) :
    ∃ a, r = .ok a ∧ f a = .ok b := by
  cases r with
  | ok a => exact ⟨a, rfl, h⟩
  | err c p => cases h
  | inexact => cases h

theorem lift_ok {p : Pos} {r : Res Val} {v : Val} (h : lift p r = .ok v) : r = .ok v := by
  cases r with
  | ok a => simp only [lift] at h; cases h; rfl
  | err e => cases h
  | inexact => cases h

theorem typed_getD_tag {sl : List Ty} {env : List Val} (h : Typed sl env) {x : Nat} {t : Ty} (hx : sl[x]? = some t)
    (d : Val) : (env.getD x d).tag = t := by
  obtain ⟨v, hv, ht⟩ := h.2 x t hx
  simp only [List.getD, hv, Option.getD_some, ht]

theorem typed_set {sl : List Ty} {env : List Val} (h : Typed sl env) {x : Nat} {t : Ty} {v : Val}
    (hx : sl[x]? = some t) (hv : v.tag = t) : Typed sl (env.set x v) := by
  refine ⟨by simp only [List.length_set]; exact h.1, ?_⟩
  intro y u hy
  by_cases hxy : x = y
  · subst hxy
    have hu : u = t := by rw [hx] at hy; injection hy with hy; exact hy.symm
    refine ⟨v, ?_, by rw [hv, hu]⟩
    rw [List.getElem?_set_self (h.lt hx)]
  · obtain ⟨w, hw, hwt⟩ := h.2 y u hy
    exact ⟨w, by rw [List.getElem?_set_ne hxy]; exact hw, hwt⟩

/-- type soundness of expression evaluation: in an environment whose variables hold values of their declared types, a
well-typed expression evaluates to a value of its static type -/
theorem eval_tag (sl : List Ty) (env : List Val) (hty : Typed sl env) :
    ∀ (e : Ast.Expr) (v : Val), ExprWt sl e → eval env e = .ok v → v.tag = e.ty := by
  intro e
  induction e with
  | lit w p => intro v _ h; simp only [eval] at h; cases h; rfl
  | var x t p => intro v hw h; simp only [eval] at h; cases h; exact typed_getD_tag hty hw _
  | un op e p ih =>
    intro v hw h
    cases op with
    | neg =>
      simp only [eval] at h
      obtain ⟨a, ha, hn⟩ := eres_bind_ok h
      rw [negate_tag a v (lift_ok hn)]; exact ih a hw ha
    | not =>
      simp only [eval] at h
      obtain ⟨a, ha, hn⟩ := eres_bind_ok h
      rw [unaryNot_tag a v (lift_ok hn)]; exact ih a hw ha
  | paren e p ih => intro v hw h; simp only [eval] at h; exact ih v hw h
  | bin op l r t p ihl ihr =>
    intro v hw h
    obtain ⟨hwl, hwr, hop⟩ := hw
    simp only [eval] at h
    obtain ⟨a, ha, h⟩ := eres_bind_ok h
    obtain ⟨b, hb, h⟩ := eres_bind_ok h
    have h := lift_ok h
    have hta := ihl a hwl ha
    have htb := ihr b hwr hb
    show v.tag = t
    by_cases hd : op = .divide
    · subst hd
      simp only [binStep] at h
      obtain ⟨q, _, hc⟩ := res_bind_ok h
      exact cast_tag q t v hc
    · have hb' : binStep op t a b = vmBin Gen.NumTables.binType op a b := by
        cases op <;> first | rfl | exact absurd rfl hd
      rw [hb'] at h
      rcases hop with hop | hop
      · exact absurd hop hd
      · exact vmBin_tag op a b v t hd (by rw [hta, htb]; exact hop) h

theorem storeCast_tag (s t : Ty) (v w : Val) (hs : v.tag = s) (h : storeCast s t v = .ok w) : w.tag = t := by
  unfold storeCast at h
  split at h
  · next hst => cases h; rw [hs, hst]
  · exact cast_tag v t w h

theorem evalTo_tag (sl : List Ty) (env : List Val) (hty : Typed sl env) (e : Ast.Expr) (t : Ty) (v : Val)
    (hw : ExprWt sl e) (h : evalTo env e t = .ok v) : v.tag = t := by
  unfold evalTo at h
  obtain ⟨a, ha, h⟩ := eres_bind_ok h
  exact storeCast_tag e.ty t a v (eval_tag sl env hty e a hw ha) (lift_ok h)

/-! ### type preservation of the reference semantics -/

mutual
/-- what type preservation needs of a statement of the reference syntax: assigned, read and loop variables are
declared slots used at their declared types, assigned expressions (and FOR's start value) are well typed -/
def WfA (sl : List Ty) : Stmt → Prop
  | .skip => True
  | .seq a b => WfA sl a ∧ WfA sl b
  | .assign x t e _ => sl[x]? = some t ∧ ExprWt sl e
  | .print _ _ => True
  | .read x t _ => sl[x]? = some t
  | .ifs _ thn els _ => WfA sl thn ∧ WfA sl els
  | .select _ cases _ => WfAC sl cases
  | .forLoop x t lo _ _ body _ => sl[x]? = some t ∧ ExprWt sl lo ∧ WfA sl body
  | .while _ body _ => WfA sl body
  | .doLoop _ _ _ body _ => WfA sl body
  | .end_ _ => True
def WfAC (sl : List Ty) : Cases → Prop
  | .nil => True
  | .else_ body => WfA sl body
  | .case _ body rest => WfA sl body ∧ WfAC sl rest
end

theorem wfA_readSeq (sl : List Ty) (p : Pos) : ∀ (vars : List (Nat × Ty × Pos)),
    (∀ v ∈ vars, sl[v.1]? = some v.2.1) → WfA sl (readSeq p vars)
  | [], _ => by simp only [readSeq, WfA]
  | (x, t, q) :: rest, h => by
    simp only [readSeq, WfA]
    exact ⟨h (x, t, q) (List.mem_cons_self ..), wfA_readSeq sl p rest (fun v hv => h v (List.mem_cons_of_mem _ hv))⟩

mutual
theorem wfA_desugar (sl : List Ty) : ∀ (s : SStmt), Wf sl s → WfA sl (desugar s)
  | .skip, _ => by simp only [desugar, WfA]
  | .comment, _ => by simp only [desugar, WfA]
  | .seq a b, h => by
    simp only [Wf] at h
    simp only [desugar, WfA]
    exact ⟨wfA_desugar sl a h.1, wfA_desugar sl b h.2⟩
  | .dim x t p, h => by
    simp only [Wf] at h
    simp only [desugar, WfA, ExprWt]
    exact ⟨h, trivial⟩
  | .assign x t e p, h => by
    simp only [Wf] at h
    simp only [desugar, WfA]
    exact ⟨h.1, h.2.2⟩
  | .print items p, _ => by simp only [desugar, WfA]
  | .data items p, h => by simp only [Wf] at h
  | .read vars p, h => by
    simp only [Wf] at h
    simp only [desugar]
    exact wfA_readSeq sl p vars h
  | .ifBlock c thn elifs hasElse els p, h => by
    simp only [Wf] at h
    simp only [desugar, WfA]
    exact ⟨wfA_desugar sl thn h.2.2.1, wfA_elifs sl elifs _ p h.2.2.2.1 (wfA_desugar sl els h.2.2.2.2.1)⟩
  | .select e cases hasElse els p, h => by
    simp only [Wf] at h
    simp only [desugar, WfA]
    refine wfA_cases sl cases _ h.2.1 ?_
    cases hasElse
    · simp only [Bool.false_eq_true, if_false, WfAC]
    · simp only [if_true, WfAC]; exact wfA_desugar sl els h.2.2.1
  | .forLoop x t lo hi step body p, h => by
    simp only [Wf] at h
    simp only [desugar, WfA]
    exact ⟨h.1, h.2.2.1, wfA_desugar sl body h.2.2.2.2.2⟩
  | .while c body p, h => by
    simp only [Wf] at h
    simp only [desugar, WfA]
    exact wfA_desugar sl body h.2.2
  | .doLoop c top u body p, h => by
    simp only [Wf] at h
    simp only [desugar, WfA]
    exact wfA_desugar sl body h.2.2
  | .end_ p, _ => by simp only [desugar, WfA]
theorem wfA_elifs (sl : List Ty) : ∀ (e : ElseIfs) (els : Stmt) (p : Pos),
    WfElifs sl e → WfA sl els → WfA sl (desugarElifs e els p)
  | .nil, els, p, _, h => by simp only [desugarElifs]; exact h
  | .cons c body rest, els, p, hw, h => by
    simp only [WfElifs] at hw
    simp only [desugarElifs, WfA]
    exact ⟨wfA_desugar sl body hw.2.2.1, wfA_elifs sl rest els p hw.2.2.2 h⟩
theorem wfA_cases (sl : List Ty) : ∀ (cs : SCases) (tail : Cases),
    WfCases sl cs → WfAC sl tail → WfAC sl (desugarCases cs tail)
  | .nil, tail, _, h => by simp only [desugarCases]; exact h
  | .cons conds body rest, tail, hw, h => by
    simp only [WfCases] at hw
    simp only [desugarCases, WfAC]
    exact ⟨wfA_desugar sl body hw.2.2.1, wfA_cases sl rest tail hw.2.2.2 h⟩
end

theorem printItems_env (items : List PrintItem) : ∀ (s s' : St) (o : Outcome),
    printItems s items = (s', o) → s'.env = s.env := by
  induction items with
  | nil => intro s s' o h; simp only [printItems] at h; cases h; rfl
  | cons it rest ih =>
    intro s s' o h
    cases it with
    | comma => simp only [printItems] at h; have := ih _ _ _ h; exact this
    | semicolon => simp only [printItems] at h; exact ih _ _ _ h
    | expr e =>
      simp only [printItems] at h
      cases hev : eval s.env e with
      | err c q => simp only [hev] at h; cases h; rfl
      | inexact => simp only [hev] at h; cases h; rfl
      | ok v =>
        simp only [hev] at h
        cases hpv : printValue v with
        | none => simp only [hpv] at h; cases h; rfl
        | some pv => simp only [hpv] at h; have := ih _ _ _ h; exact this

/-- type preservation at a given amount of fuel, for the three mutually recursive functions -/
def Pres (sl : List Ty) (fuel : Nat) : Prop :=
  (∀ stmt s s', WfA sl stmt → Typed sl s.env → exec fuel stmt s = (s', .normal) → Typed sl s'.env) ∧
  (∀ p subj cs s s', WfAC sl cs → Typed sl s.env → execCases fuel p subj cs s = (s', .normal) → Typed sl s'.env) ∧
  (∀ x t h sv up body p s s', sl[x]? = some t → WfA sl body → Typed sl s.env →
      forIter fuel x t h sv up body p s = (s', .normal) → Typed sl s'.env)

theorem pres_zero (sl : List Ty) : Pres sl 0 := by
  refine ⟨?_, ?_, ?_⟩
  · intro stmt s s' _ _ h; simp only [exec] at h; cases h
  · intro p subj cs s s' _ _ h; simp only [execCases] at h; cases h
  · intro x t hv sv up body p s s' _ _ _ h; simp only [forIter] at h; cases h

theorem pres_succ (sl : List Ty) (n : Nat) (ih : Pres sl n) : Pres sl (n + 1) := by
  obtain ⟨ihE, ihC, ihF⟩ := ih
  refine ⟨?_, ?_, ?_⟩
  · intro stmt s s' hw hty h
    cases stmt with
    | skip => simp only [exec] at h; cases h; exact hty
    | seq a b =>
      simp only [WfA] at hw
      simp only [exec] at h
      generalize hr : exec n a s = r at h
      obtain ⟨s1, o1⟩ := r
      cases o1 with
      | normal => simp only at h; exact ihE b s1 s' hw.2 (ihE a s s1 hw.1 hty hr) h
      | halted => simp only at h; cases h
      | error c q => simp only at h; cases h
      | inexact => simp only at h; cases h
      | outOfFuel => simp only at h; cases h
    | assign x t e p =>
      simp only [WfA] at hw
      simp only [exec] at h
      cases hev : evalTo s.env e t with
      | err c q => simp only [hev] at h; cases h
      | inexact => simp only [hev] at h; cases h
      | ok v =>
        simp only [hev] at h; cases h
        exact typed_set hty hw.1 (evalTo_tag sl s.env hty e t v hw.2 hev)
    | print items p =>
      simp only [exec] at h
      generalize hr : printItems s items = r at h
      obtain ⟨s1, o1⟩ := r
      have he := printItems_env items s s1 o1 hr
      cases o1 with
      | normal =>
        simp only at h
        split at h
        · cases h; rw [he]; exact hty
        · cases h; show Typed sl s1.env; rw [he]; exact hty
      | halted => simp only at h; cases h
      | error c q => simp only at h; cases h
      | inexact => simp only at h; cases h
      | outOfFuel => simp only at h; cases h
    | read x t p =>
      simp only [WfA] at hw
      simp only [exec] at h
      cases hd : s.data[s.dataIdx]? with
      | none => simp only [hd] at h; cases h
      | some v =>
        simp only [hd] at h
        cases hc : Num.cast v t with
        | err e => simp only [hc] at h; cases h
        | inexact => simp only [hc] at h; cases h
        | ok w =>
          simp only [hc] at h; cases h
          exact typed_set hty hw (cast_tag v t w hc)
    | ifs c thn els p =>
      simp only [WfA] at hw
      simp only [exec] at h
      cases hc : evalCond s.env c with
      | error o' => simp only [hc] at h; cases h; exact hty
      | ok b =>
        cases b with
        | true => simp only [hc] at h; exact ihE thn s s' hw.1 hty h
        | false => simp only [hc] at h; exact ihE els s s' hw.2 hty h
    | select e cases p =>
      simp only [WfA] at hw
      simp only [exec] at h
      cases he : evalE s.env e with
      | error o' => simp only [he] at h; cases h; exact hty
      | ok subj => simp only [he] at h; exact ihC p subj cases s s' hw hty h
    | forLoop x t lo hi step body p =>
      simp only [WfA] at hw
      obtain ⟨hx, hlo, hwb⟩ := hw
      simp only [exec] at h
      cases hl : evalTo s.env lo t with
      | err c q => simp only [hl] at h; cases h
      | inexact => simp only [hl] at h; cases h
      | ok l =>
        simp only [hl] at h
        have hty1 : Typed sl (s.set x l).env := typed_set hty hx (evalTo_tag sl s.env hty lo t l hlo hl)
        cases hh : evalTo (s.set x l).env hi t with
        | err c q => simp only [hh] at h; cases h
        | inexact => simp only [hh] at h; cases h
        | ok hv =>
          simp only [hh] at h
          cases step with
          | none => simp only at h; exact ihF x t hv _ true body p _ s' hx hwb hty1 h
          | some se =>
            simp only at h
            cases hs : evalE (s.set x l).env se with
            | error o' => simp only [hs] at h; cases h; exact hty1
            | ok sv =>
              simp only [hs] at h
              cases hsg : stepSign p sv with
              | error o' => simp only [hsg] at h; cases h; exact hty1
              | ok sg =>
                cases sg with
                | neg => simp only [hsg] at h; exact ihF x t hv sv false body p _ s' hx hwb hty1 h
                | pos => simp only [hsg] at h; exact ihF x t hv sv true body p _ s' hx hwb hty1 h
                | zero => simp only [hsg] at h; cases h
    | «while» c body p =>
      have hw0 := hw
      simp only [WfA] at hw
      simp only [exec] at h
      cases hc : evalCond s.env c with
      | error o' => simp only [hc] at h; cases h; exact hty
      | ok b =>
        cases b with
        | false => simp only [hc] at h; cases h; exact hty
        | true =>
          simp only [hc] at h
          generalize hr : exec n body s = r at h
          obtain ⟨s1, o1⟩ := r
          cases o1 with
          | normal => simp only at h; exact ihE _ s1 s' hw0 (ihE body s s1 hw hty hr) h
          | halted => simp only at h; cases h
          | error c q => simp only at h; cases h
          | inexact => simp only at h; cases h
          | outOfFuel => simp only at h; cases h
    | doLoop c top until_ body p =>
      have hw0 := hw
      simp only [WfA] at hw
      simp only [exec] at h
      cases top with
      | true =>
        simp only [if_true] at h
        cases hc : evalCond s.env c with
        | error o' => simp only [hc] at h; cases h; exact hty
        | ok b =>
          simp only [hc] at h
          by_cases hb : (b != until_) = true
          · simp only [hb, if_true] at h
            generalize hr : exec n body s = r at h
            obtain ⟨s1, o1⟩ := r
            cases o1 with
            | normal => simp only at h; exact ihE _ s1 s' hw0 (ihE body s s1 hw hty hr) h
            | halted => simp only at h; cases h
            | error c q => simp only at h; cases h
            | inexact => simp only at h; cases h
            | outOfFuel => simp only at h; cases h
          · simp only [hb] at h; cases h; exact hty
      | false =>
        simp only [Bool.false_eq_true, if_false] at h
        generalize hr : exec n body s = r at h
        obtain ⟨s1, o1⟩ := r
        cases o1 with
        | normal =>
          simp only at h
          have hty1 := ihE body s s1 hw hty hr
          cases hc : evalCond s1.env c with
          | error o' => simp only [hc] at h; cases h; exact hty1
          | ok b =>
            simp only [hc] at h
            by_cases hb : (b != until_) = true
            · simp only [hb, if_true] at h; exact ihE _ s1 s' hw0 hty1 h
            · simp only [hb] at h; cases h; exact hty1
        | halted => simp only at h; cases h
        | error c q => simp only at h; cases h
        | inexact => simp only at h; cases h
        | outOfFuel => simp only at h; cases h
    | end_ p => simp only [exec] at h; cases h
  · intro p subj cs s s' hw hty h
    cases cs with
    | nil => simp only [execCases] at h; cases h; exact hty
    | else_ body => simp only [WfAC] at hw; simp only [execCases] at h; exact ihE body s s' hw hty h
    | case conds body rest =>
      simp only [WfAC] at hw
      simp only [execCases] at h
      cases hm : anyMatches s.env p subj conds with
      | error o' => simp only [hm] at h; cases h; exact hty
      | ok b =>
        cases b with
        | true => simp only [hm] at h; exact ihE body s s' hw.1 hty h
        | false => simp only [hm] at h; exact ihC p subj rest s s' hw.2 hty h
  · intro x t hv sv up body p s s' hx hwb hty h
    simp only [forIter] at h
    generalize hr0 : relTest p (if up = true then Op.lessOrEqual else Op.greaterOrEqual)
        (s.env.getD x (Ref.zeroOf t)) hv = rt at h
    cases rt with
    | error o' => simp only at h; cases h; exact hty
    | ok b =>
      cases b with
      | false => simp only at h; cases h; exact hty
      | true =>
        simp only at h
        generalize hr : exec n body s = r at h
        obtain ⟨s1, o1⟩ := r
        cases o1 with
        | normal =>
          simp only at h
          have hty1 := ihE body s s1 hwb hty hr
          generalize hp : (plus (s1.env.getD x (Ref.zeroOf t)) sv).bind (fun v => Num.cast v t) = pr at h
          cases pr with
          | ok v =>
            simp only at h
            obtain ⟨u, _, hc⟩ := res_bind_ok hp
            exact ihF x t hv sv up body p _ s' hx hwb (typed_set hty1 hx (cast_tag u t v hc)) h
          | err e => simp only at h; cases h
          | inexact => simp only at h; cases h
        | halted => simp only at h; cases h
        | error c q => simp only at h; cases h
        | inexact => simp only at h; cases h
        | outOfFuel => simp only at h; cases h

theorem pres_all (sl : List Ty) : ∀ n, Pres sl n
  | 0 => pres_zero sl
  | n + 1 => pres_succ sl n (pres_all sl n)

end RbThm.C01Sim.SimRead

namespace RbThm.C01Sim
open RbModel RbModel.Num RbModel.Ast RbModel.Src RbModel.Core RbModel.CoreVm RbModel.Ref
open RbThm.C01Len RbThm.C01Sim.SimRead

/-- type preservation of the reference semantics -/
theorem exec_typed : ExecTyped := by
  intro sl fuel stmt s s' hw hty h
  exact (pres_all sl fuel).1 (desugar stmt) s s' (wfA_desugar sl stmt hw) hty h

end RbThm.C01Sim

namespace RbThm.C01Sim.SimRead
open RbModel RbModel.Num RbModel.Ast RbModel.Src RbModel.Core RbModel.CoreVm RbModel.Ref
open RbThm.C01Len

/-! ### READ -/

theorem steps_cast {code : Code} {σ τ τ' : Vm} (h : Steps code σ τ) (e : τ = τ') : Steps code σ τ' := e ▸ h

/-- `VarPathName x; CopyVarPathToA; PushUnnamedByRef` per variable -/
def pushCode (vars : List (Nat × Ty × Pos)) : Code :=
  vars.flatMap (fun v => [(CInstr.varPath v.1, v.2.2), (CInstr.copyVarPathToA, v.2.2), (CInstr.pushByRef, v.2.2)])

/-- `EnqueueToReturnStack i` per variable -/
def enqCode (k : Nat) (vars : List (Nat × Ty × Pos)) : Code :=
  (vars.zipIdx k).map (fun vi => (CInstr.enqueue vi.2, vi.1.2.2))

/-- `DequeueFromReturnStack; VarPathName x; CopyAToVarPath` per variable -/
def deqCode (vars : List (Nat × Ty × Pos)) : Code :=
  vars.flatMap (fun v => [(CInstr.dequeue, v.2.2), (CInstr.varPath v.1, v.2.2), (CInstr.copyAToVarPath, v.2.2)])

theorem compile_read (sfx : String) (off : Nat) (vars : List (Nat × Ty × Pos)) (p : Pos) :
    compileStmt sfx off (.read vars p) =
      [(CInstr.beginArgs, p)] ++ pushCode vars ++ [(CInstr.pushStack, p), (CInstr.builtInRead, p)] ++ enqCode 0 vars ++
        [(CInstr.popStack, p)] ++ deqCode vars := by
  simp only [compileStmt, pushCode, enqCode, deqCode]

theorem len_pushCode (vars : List (Nat × Ty × Pos)) : (pushCode vars).length = 3 * vars.length :=
  flatMap_const_len _ 3 (fun _ => rfl) vars

theorem len_deqCode (vars : List (Nat × Ty × Pos)) : (deqCode vars).length = 3 * vars.length :=
  flatMap_const_len _ 3 (fun _ => rfl) vars

theorem len_enqCode (k : Nat) (vars : List (Nat × Ty × Pos)) : (enqCode k vars).length = vars.length := by
  simp only [enqCode, List.length_map, List.length_zipIdx]

def pushedSt (σ : Vm) (pc : Nat) (a : Val) (args : List (Val × Option Nat)) : Vm :=
  { σ with pc := pc, regs := { σ.regs with a := a }, args := args }

/-- collecting the by-reference arguments: every variable's current value and its slot are appended to the argument list -/
theorem push_phase (code : Code) : ∀ (vars : List (Nat × Ty × Pos)) (off : Nat) (σ : Vm),
    CodeAt code off (pushCode vars) → σ.pc = off → (∀ v ∈ vars, v.1 < σ.env.length) →
    ∃ a, Steps code σ (pushedSt σ (off + 3 * vars.length) a
      (σ.args ++ vars.map (fun v => (σ.env.getD v.1 (.int 0), some v.1))))
  | [], off, σ, _, hpc, _ => by
    subst hpc
    refine ⟨σ.regs.a, steps_cast (Steps.refl σ) ?_⟩
    simp only [pushedSt, List.length_nil, Nat.mul_zero, Nat.add_zero, List.map_nil, List.append_nil]
  | (x, t, q) :: rest, off, σ, hc, hpc, hlt => by
    subst hpc
    have hx : x < σ.env.length := hlt (x, t, q) (List.mem_cons_self ..)
    obtain ⟨hg, hs⟩ := getD_of_lt (Val.int 0) hx
    simp only [pushCode, List.flatMap_cons] at hc
    have h0 : code[σ.pc]? = some (CInstr.varPath x, q) := hc.append_left.head
    have h1 : code[σ.pc + 1]? = some (CInstr.copyVarPathToA, q) := hc.append_left.tail.head
    have h2 : code[σ.pc + 1 + 1]? = some (CInstr.pushByRef, q) := hc.append_left.tail.tail.head
    let σ1 : Vm := advance { σ with paths := x :: σ.paths }
    let σ2 : Vm := advance (setA σ1 σ.env[x])
    let σ3 : Vm := advance { σ2 with args := σ2.args ++ [(σ2.regs.a, some x)], paths := σ.paths }
    have s1 : CoreVm.step code σ = .next σ1 := by simp only [CoreVm.step, h0]; rfl
    have s2 : CoreVm.step code σ1 = .next σ2 := by simp only [CoreVm.step, σ1, advance, h1, hs]; rfl
    have s3 : CoreVm.step code σ2 = .next σ3 := by simp only [CoreVm.step, σ2, σ1, advance, setA, h2]; rfl
    have hcr : CodeAt code (σ.pc + 3) (pushCode rest) := hc.append_right
    obtain ⟨a, st⟩ := push_phase code rest (σ.pc + 3) σ3 hcr rfl (fun v hv => hlt v (List.mem_cons_of_mem _ hv))
    have e1 : σ.pc + 3 + 3 * rest.length = σ.pc + 3 * ((x, t, q) :: rest).length := by
      simp only [List.length_cons]; omega
    have e2 : σ3.args ++ rest.map (fun v => (σ3.env.getD v.1 (Val.int 0), some v.1)) =
        σ.args ++ ((x, t, q) :: rest).map (fun v => (σ.env.getD v.1 (Val.int 0), some v.1)) := by
      simp only [σ3, σ2, σ1, advance, setA, hg, List.map_cons, List.append_assoc, List.singleton_append]
    rw [e1, e2] at st
    exact ⟨a, (Steps.cons s1 (Steps.cons s2 (Steps.one s3))).trans st⟩

def enqSt (σ : Vm) (pc : Nat) (queue : List Val) : Vm := { σ with pc := pc, queue := queue }

/-- the converted values are put into the by-reference return queue, in order -/
theorem enq_phase (code : Code) : ∀ (vars : List (Nat × Ty × Pos)) (k off : Nat) (σ : Vm),
    CodeAt code off (enqCode k vars) → σ.pc = off → k + vars.length ≤ σ.args.length →
    Steps code σ (enqSt σ (off + vars.length) (σ.queue ++ ((σ.args.drop k).take vars.length).map (·.1)))
  | [], k, off, σ, _, hpc, _ => by
    subst hpc
    refine steps_cast (Steps.refl σ) ?_
    simp only [enqSt, List.length_nil, Nat.add_zero, List.take_zero, List.map_nil, List.append_nil]
  | v :: rest, k, off, σ, hc, hpc, hlen => by
    subst hpc
    simp only [enqCode, List.zipIdx_cons, List.map_cons] at hc
    have h0 : code[σ.pc]? = some (CInstr.enqueue k, v.2.2) := hc.head
    have hk : k < σ.args.length := by simp only [List.length_cons] at hlen; omega
    cases hpair : σ.args[k] with
    | mk av asl =>
    have hak : σ.args[k]? = some (av, asl) := by rw [List.getElem?_eq_getElem hk, hpair]
    let σ1 : Vm := advance { σ with queue := σ.queue ++ [av] }
    have s1 : CoreVm.step code σ = .next σ1 := by simp only [CoreVm.step, h0, hak]; rfl
    have hcr : CodeAt code (σ.pc + 1) (enqCode (k + 1) rest) := hc.tail
    have st := enq_phase code rest (k + 1) (σ.pc + 1) σ1 hcr rfl
      (by simp only [List.length_cons] at hlen; show k + 1 + rest.length ≤ σ.args.length; omega)
    have e1 : σ.pc + 1 + rest.length = σ.pc + (v :: rest).length := by simp only [List.length_cons]; omega
    have e2 : σ1.queue ++ ((σ1.args.drop (k + 1)).take rest.length).map (·.1) =
        σ.queue ++ ((σ.args.drop k).take (v :: rest).length).map (·.1) := by
      show σ.queue ++ [av] ++ ((σ.args.drop (k + 1)).take rest.length).map (·.1) = _
      rw [List.drop_eq_getElem_cons hk, hpair]
      simp only [List.length_cons, List.take_succ_cons, List.map_cons, List.append_assoc, List.singleton_append]
    rw [e1, e2] at st
    exact Steps.cons s1 st

/-- the variables assigned one after the other -/
def setAll : List Val → List (Nat × Ty × Pos) → List Val → List Val
  | env, v :: vs, w :: ws => setAll (env.set v.1 w) vs ws
  | env, _, _ => env

theorem setAll_length : ∀ (vars : List (Nat × Ty × Pos)) (ws : List Val) (env : List Val),
    (setAll env vars ws).length = env.length
  | [], _, _ => by simp only [setAll]
  | _ :: _, [], _ => by simp only [setAll]
  | v :: vs, w :: ws, env => by simp only [setAll, setAll_length vs ws, List.length_set]

def deqSt (σ : Vm) (pc : Nat) (a : Val) (queue env : List Val) : Vm :=
  { σ with pc := pc, regs := { σ.regs with a := a }, queue := queue, env := env }

/-- the copy-back: the queued values are stored into the variables, in order -/
theorem deq_phase (code : Code) : ∀ (vars : List (Nat × Ty × Pos)) (ws : List Val) (off : Nat) (σ : Vm) (tail : List Val),
    CodeAt code off (deqCode vars) → σ.pc = off → σ.queue = ws ++ tail → ws.length = vars.length →
    ∃ a, Steps code σ (deqSt σ (off + 3 * vars.length) a tail (setAll σ.env vars ws))
  | [], [], off, σ, tail, _, hpc, hq, _ => by
    subst hpc
    have ht : tail = σ.queue := by rw [hq]; rfl
    subst ht
    exact ⟨σ.regs.a, Steps.refl σ⟩
  | [], _ :: _, _, _, _, _, _, _, hl => by simp at hl
  | _ :: _, [], _, _, _, _, _, _, hl => by simp at hl
  | (x, t, q) :: rest, w :: ws, off, σ, tail, hc, hpc, hq, hl => by
    subst hpc
    simp only [deqCode, List.flatMap_cons] at hc
    have h0 : code[σ.pc]? = some (CInstr.dequeue, q) := hc.append_left.head
    have h1 : code[σ.pc + 1]? = some (CInstr.varPath x, q) := hc.append_left.tail.head
    have h2 : code[σ.pc + 1 + 1]? = some (CInstr.copyAToVarPath, q) := hc.append_left.tail.tail.head
    have hq' : σ.queue = w :: (ws ++ tail) := hq
    let σ1 : Vm := advance { setA σ w with queue := ws ++ tail }
    let σ2 : Vm := advance { σ1 with paths := x :: σ1.paths }
    let σ3 : Vm := advance { σ2 with env := σ2.env.set x σ2.regs.a, paths := σ.paths }
    have s1 : CoreVm.step code σ = .next σ1 := by simp only [CoreVm.step, h0, hq']; rfl
    have s2 : CoreVm.step code σ1 = .next σ2 := by simp only [CoreVm.step, σ1, advance, setA, h1]; rfl
    have s3 : CoreVm.step code σ2 = .next σ3 := by simp only [CoreVm.step, σ2, σ1, advance, setA, h2]; rfl
    have hcr : CodeAt code (σ.pc + 3) (deqCode rest) := hc.append_right
    obtain ⟨a, st⟩ := deq_phase code rest ws (σ.pc + 3) σ3 tail hcr rfl rfl
      (by simp only [List.length_cons] at hl; omega)
    have e1 : σ.pc + 3 + 3 * rest.length = σ.pc + 3 * ((x, t, q) :: rest).length := by
      simp only [List.length_cons]; omega
    rw [e1] at st
    exact ⟨a, (Steps.cons s1 (Steps.cons s2 (Steps.one s3))).trans st⟩

/-- the reference semantics of `READ x1, …, xn` against the built-in's loop over the collected arguments (any argument
list whose values carry the declared types of the variables) -/
theorem read_ref (p : Pos) (f : (Nat × Ty × Pos) → Val × Option Nat) :
    ∀ (vars : List (Nat × Ty × Pos)) (fuel : Nat) (s : St),
      (∀ v ∈ vars, (f v).1.tag = v.2.1) →
      match exec (fuel + 1) (readSeq p vars) s with
      | (s', .normal) => ∃ rs, readArgs (vars.map f) s.data s.dataIdx = .inl (.ok (rs, s.dataIdx + vars.length)) ∧
          rs.length = vars.length ∧ s'.env = setAll s.env vars (rs.map (·.1)) ∧ s'.out = s.out ∧ s'.data = s.data ∧
          s'.dataIdx = s.dataIdx + vars.length
      | (s', .error c q) => s'.out = s.out ∧ q = p ∧
          ((readArgs (vars.map f) s.data s.dataIdx = .inr () ∧ c = codeOutOfData) ∨
           (∃ e, readArgs (vars.map f) s.data s.dataIdx = .inl (.error e) ∧ c = codeOf e))
      | (_, .halted) => False
      | _ => True
  | [], fuel, s, _ => by
    simp only [readSeq, exec]
    refine ⟨[], ?_⟩
    simp [readArgs, setAll]
  | (x, t, q) :: rest, fuel, s, hf => by
    simp only [readSeq, exec]
    cases fuel with
    | zero => simp only [exec]
    | succ fl =>
      simp only [exec]
      cases hfv : f (x, t, q) with
      | mk cur slot =>
      have hcur : cur.tag = t := by
        have := hf (x, t, q) (List.mem_cons_self ..)
        rw [hfv] at this; exact this
      simp only [List.map_cons, hfv, readArgs, hcur]
      cases hd : s.data[s.dataIdx]? with
      | none => simp
      | some v =>
        simp only
        cases hc : Num.cast v t with
        | err e => simp
        | inexact => simp only
        | ok w =>
          simp only
          have ih := read_ref p f rest fl { s.set x w with dataIdx := s.dataIdx + 1 }
            (fun v hv => hf v (List.mem_cons_of_mem _ hv))
          generalize hr : exec (fl + 1) (readSeq p rest) { s.set x w with dataIdx := s.dataIdx + 1 } = r at ih ⊢
          obtain ⟨s2, o2⟩ := r
          cases o2 with
          | normal =>
            simp only [St.set] at ih ⊢
            obtain ⟨rs, h1, h2, h3, h4, h5, h6⟩ := ih
            refine ⟨(w, slot) :: rs, ?_, ?_, ?_, h4, h5, ?_⟩
            · rw [h1]
              simp only [List.length_cons]
              congr 3; omega
            · simp only [List.length_cons, h2]
            · simp only [List.map_cons, setAll]; exact h3
            · rw [h6]; simp only [List.length_cons]; omega
          | error c q' =>
            simp only [St.set] at ih ⊢
            obtain ⟨h1, h2, h3⟩ := ih
            refine ⟨h1, h2, ?_⟩
            rcases h3 with ⟨h3, hc'⟩ | ⟨e, h3, hc'⟩
            · left; rw [h3]; exact ⟨rfl, hc'⟩
            · right; rw [h3]; exact ⟨e, rfl, hc'⟩
          | halted => simp only at ih
          | inexact => simp only
          | outOfFuel => simp only

end RbThm.C01Sim.SimRead

namespace RbThm.C01Sim
open RbModel RbModel.Num RbModel.Ast RbModel.Src RbModel.Core RbModel.CoreVm RbModel.Ref
open RbThm.C01Len RbThm.C01Sim.SimRead

/-- **READ**: `BeginCollectArguments`, the variables by reference, `PushStack`, the built-in, the converted values through
the return queue back into the variables.  The built-in converts every DATA item to the type of the value the variable
currently holds, which is its declared type because the environment is `Typed`. -/
theorem case_read (code : Code) (fuel : Nat) (vars : List (Nat × Ty × Pos)) (p : Pos) (sfx : String) (off : Nat)
    (σ : Vm) (s : St)
    (hc : CodeAt code off (compileStmt sfx off (.read vars p))) (hpc : σ.pc = off) (hr : Rel s σ)
    (sl : List Ty) (hw : Wf sl (.read vars p)) (hty : Typed sl s.env) :
    StmtSpec code (sizeStmt (.read vars p)) off σ s (exec (fuel + 1) (desugar (.read vars p)) s) := by
  rw [compile_read] at hc
  simp only [Wf] at hw
  subst hpc
  have hlt : ∀ v ∈ vars, v.1 < σ.env.length := fun v hv => by rw [hr.env]; exact hty.lt (hw v hv)
  -- BeginCollectArguments
  have h0 : code[σ.pc]? = some (CInstr.beginArgs, p) :=
    hc.append_left.append_left.append_left.append_left.append_left.head
  let σ1 : Vm := advance { σ with args := [] }
  have s1 : CoreVm.step code σ = .next σ1 := by simp only [CoreVm.step, h0]; rfl
  -- the arguments
  have hcp : CodeAt code (σ.pc + 1) (pushCode vars) :=
    hc.append_left.append_left.append_left.append_left.append_right
  obtain ⟨a, st2⟩ := push_phase code vars (σ.pc + 1) σ1 hcp rfl hlt
  let f : (Nat × Ty × Pos) → Val × Option Nat := fun v => (σ.env.getD v.1 (Val.int 0), some v.1)
  let σ2 : Vm := pushedSt σ1 (σ.pc + 1 + 3 * vars.length) a (vars.map f)
  have st2' : Steps code σ1 σ2 := st2
  -- PushStack; BuiltInSub Read
  have h3 : code[σ.pc + 1 + 3 * vars.length]? = some (CInstr.pushStack, p) := by
    have := hc.append_left.append_left.append_left.append_right.head
    simp only [List.length_append, List.length_singleton, len_pushCode] at this
    rw [← this]; congr 1; omega
  have h4 : code[σ.pc + 1 + 3 * vars.length + 1]? = some (CInstr.builtInRead, p) := by
    have := hc.append_left.append_left.append_left.append_right.tail.head
    simp only [List.length_append, List.length_singleton, len_pushCode] at this
    rw [← this]; congr 1; omega
  let σ3 : Vm := advance { σ2 with callPos := p }
  have s3 : CoreVm.step code σ2 = .next σ3 := by simp only [CoreVm.step, σ2, pushedSt, h3]; rfl
  have pre : Steps code σ σ3 := (Steps.cons s1 st2').trans (Steps.one s3)
  have hread : CoreVm.step code σ3 =
      match readArgs (vars.map f) s.data s.dataIdx with
      | .inr () => .error Ref.codeOutOfData p σ3
      | .inl (.error e) => .error (Ref.codeOf e) p σ3
      | .inl (.ok (args', idx')) => .next (advance { σ3 with args := args', dataIdx := idx' }) := by
    have h4' : code[σ3.pc]? = some (CInstr.builtInRead, p) := h4
    have e : readArgs σ3.args σ3.data σ3.dataIdx = readArgs (vars.map f) s.data s.dataIdx := by
      have e2 : σ3.data = s.data := hr.data
      have e3 : σ3.dataIdx = s.dataIdx := hr.dataIdx
      rw [e2, e3]; rfl
    simp only [CoreVm.step, h4']
    rw [e]; rfl
  have htag : ∀ v ∈ vars, (f v).1.tag = v.2.1 := fun v hv => by
    show (σ.env.getD v.1 (Val.int 0)).tag = v.2.1
    rw [hr.env]; exact typed_getD_tag hty (hw v hv) _
  have href := read_ref p f vars fuel s htag
  simp only [desugar, sizeStmt]
  generalize hrr : exec (fuel + 1) (readSeq p vars) s = r at href ⊢
  obtain ⟨s', o⟩ := r
  cases o with
  | halted => exact href.elim
  | inexact => simp [StmtSpec]
  | outOfFuel => simp [StmtSpec]
  | error c q =>
    simp only at href
    obtain ⟨hout, hq, hcase⟩ := href
    subst hq
    simp only [StmtSpec]
    refine ⟨σ.env, σ3, σ3, pre, ?_, rfl, ?_⟩
    · rcases hcase with ⟨hra, hcd⟩ | ⟨e, hra, hcd⟩
      · rw [hread, hra, hcd]
      · rw [hread, hra, hcd]
    · rw [hout]; exact hr.out
  | normal =>
    simp only at href
    obtain ⟨rs, hra, hlen, henv, hout, hdata, hidx⟩ := href
    rw [hra] at hread
    simp only at hread
    let σ4 : Vm := advance { σ3 with args := rs, dataIdx := s.dataIdx + vars.length }
    have s4 : CoreVm.step code σ3 = .next σ4 := hread
    -- the return queue
    have hce : CodeAt code (σ.pc + 1 + 3 * vars.length + 2) (enqCode 0 vars) := by
      have := hc.append_left.append_left.append_right
      simp only [List.length_append, List.length_singleton, List.length_cons, List.length_nil, len_pushCode] at this
      have e : σ.pc + (0 + 1 + 3 * vars.length + (0 + 1 + 1)) = σ.pc + 1 + 3 * vars.length + 2 := by omega
      rw [e] at this; exact this
    have st5 := enq_phase code vars 0 (σ.pc + 1 + 3 * vars.length + 2) σ4 hce rfl
      (by show 0 + vars.length ≤ rs.length; omega)
    have hq4 : σ4.queue = [] := hr.queue
    have hws : ((σ4.args.drop 0).take vars.length).map (·.1) = rs.map (·.1) := by
      show ((rs.drop 0).take vars.length).map (·.1) = rs.map (·.1)
      rw [List.drop_zero, ← hlen, List.take_length]
    rw [hq4, hws, List.nil_append] at st5
    let σ5 : Vm := enqSt σ4 (σ.pc + 1 + 3 * vars.length + 2 + vars.length) (rs.map (·.1))
    -- PopStack
    have h6 : code[σ.pc + 1 + 3 * vars.length + 2 + vars.length]? = some (CInstr.popStack, p) := by
      have := hc.append_left.append_right.head
      simp only [List.length_append, List.length_singleton, List.length_cons, List.length_nil, len_pushCode,
        len_enqCode] at this
      rw [← this]; congr 1; omega
    let σ6 : Vm := advance { σ5 with args := [] }
    have s6 : CoreVm.step code σ5 = .next σ6 := by simp only [CoreVm.step, σ5, enqSt, h6]; rfl
    -- the copy-back
    have hcd : CodeAt code (σ.pc + 1 + 3 * vars.length + 2 + vars.length + 1) (deqCode vars) := by
      have := hc.append_right
      simp only [List.length_append, List.length_singleton, List.length_cons, List.length_nil, len_pushCode,
        len_enqCode] at this
      have e : σ.pc + (0 + 1 + 3 * vars.length + (0 + 1 + 1) + vars.length + 1) =
          σ.pc + 1 + 3 * vars.length + 2 + vars.length + 1 := by omega
      rw [e] at this; exact this
    obtain ⟨a7, st7⟩ := deq_phase code vars (rs.map (·.1)) _ σ6 [] hcd rfl
      (by show rs.map (·.1) = rs.map (·.1) ++ []; rw [List.append_nil])
      (by rw [List.length_map, hlen])
    simp only [StmtSpec]
    refine ⟨_, ((pre.trans (Steps.cons s4 st5)).trans (Steps.one s6)).trans st7, ?_, ?_, ⟨rfl, rfl, rfl⟩, ?_⟩
    · show σ.pc + 1 + 3 * vars.length + 2 + vars.length + 1 + 3 * vars.length = _
      omega
    · refine rel_of _ _ ?_ ?_ hr.skip ?_ ?_ rfl
      · show setAll σ.env vars (rs.map (·.1)) = s'.env
        rw [henv, hr.env]
      · show σ.out = s'.out
        rw [hout]; exact hr.out
      · show σ.data = s'.data
        rw [hdata]; exact hr.data
      · show s.dataIdx + vars.length = s'.dataIdx
        rw [hidx]
    · rw [henv, setAll_length]

end RbThm.C01Sim
