import RbModel.ArrPath
import Thm.C04
import Thm.C06
/-!
C04, second part — stores through *paths* (arrays of records of records / fixed strings) change only the
addressed location, and what is read back is the stored value converted to the type of the location.

* navigation (`var_path.rs`): `path_read_store_same`, `path_read_store_other`, `path_read_store_under`, by
  induction on the step list, composed from the per-container theorems of `Thm/C04.lean`;
* conversion (`generate_expression_instructions_casting`, `handlers/cast.rs`): `store_converts` (uses
  `RbThm.C06.cast_sound`), `assign_fix_length`, `writeBack_fix_length`.
-/
namespace RbThm.C04
open RbModel RbModel.Arr RbModel.ArrPath

/-! ### One step (helper lemmas) -/

/-- The part of a step that selects the child: the index tuple, or the case-folded field name. -/
def stepKey : Step → Step
  | .idx i => .idx i
  | .fld n => .fld (foldName n)

/-- Two steps that select *different* children of the same container. -/
def Sib : Step → Step → Prop
  | .idx i, .idx j => i ≠ j
  | .fld n, .fld m => foldName n ≠ foldName m
  | _, _ => False

/-- Two step lists that part ways at some container: a common stretch (same children, whatever the spelling of
field names), then two different children of the same container. -/
def Diverge : List Step → List Step → Prop
  | s :: ss, t :: tt => Sib s t ∨ (stepKey s = stepKey t ∧ Diverge ss tt)
  | _, _ => False

theorem stepGet_stepSet_same {v v' c : Val} {s : Step} (h : stepSet v s c = some v') :
    stepGet v' s = some c := by
  cases v with
  | leaf x => cases s <;> simp [stepSet] at h
  | arr d es =>
    cases s with
    | fld n => simp [stepSet] at h
    | idx i =>
      simp only [stepSet, Option.map_eq_some_iff] at h
      obtain ⟨a, ha, rfl⟩ := h
      exact get_set_same ha
  | udt fs =>
    cases s with
    | idx i => simp [stepSet] at h
    | fld n =>
      simp only [stepSet, Option.map_eq_some_iff] at h
      obtain ⟨r, hr, rfl⟩ := h
      exact field_get_set_same hr rfl

theorem stepGet_stepSet_sib {v v' c : Val} {s t : Step} (h : stepSet v s c = some v') (hs : Sib s t) :
    stepGet v' t = stepGet v t := by
  cases v with
  | leaf x => cases s <;> simp [stepSet] at h
  | arr d es =>
    cases s with
    | fld n => simp [stepSet] at h
    | idx i =>
      simp only [stepSet, Option.map_eq_some_iff] at h
      obtain ⟨a, ha, rfl⟩ := h
      cases t with
      | fld m => exact hs.elim
      | idx j => exact get_set_other ha (fun e => hs e.symm)
  | udt fs =>
    cases s with
    | idx i => simp [stepSet] at h
    | fld n =>
      simp only [stepSet, Option.map_eq_some_iff] at h
      obtain ⟨r, hr, rfl⟩ := h
      cases t with
      | idx j => exact hs.elim
      | fld m => exact field_get_set_other hr (fun e => hs e.symm)

theorem stepGet_key {v : Val} {s t : Step} (h : stepKey s = stepKey t) : stepGet v s = stepGet v t := by
  cases s <;> cases t <;> simp only [stepKey, Step.idx.injEq, Step.fld.injEq, reduceCtorEq] at h
  · subst h; rfl
  · cases v <;> simp [stepGet, getField, h]

/-! ### Along a list of steps (helper lemmas) -/

theorem modAt_same : ∀ (ss : List Step) (v v' : Val) (f : Val → Option Val), modAt v ss f = some v' →
    ∃ old new, getAt v ss = some old ∧ f old = some new ∧ getAt v' ss = some new
  | [], v, v', f, h => ⟨v, v', rfl, h, rfl⟩
  | s :: ss, v, v', f, h => by
      simp only [modAt] at h
      split at h
      · cases h
      · rename_i c hc
        split at h
        · cases h
        · rename_i c' hc'
          obtain ⟨old, new, h1, h2, h3⟩ := modAt_same ss c c' f hc'
          refine ⟨old, new, ?_, h2, ?_⟩
          · simp only [getAt, hc]; exact h1
          · simp only [getAt, stepGet_stepSet_same h]; exact h3

theorem modAt_diverge : ∀ (ss tt : List Step) (v v' : Val) (f : Val → Option Val), modAt v ss f = some v' →
    Diverge ss tt → getAt v' tt = getAt v tt
  | [], _, _, _, _, _, hd => hd.elim
  | _ :: _, [], _, _, _, _, hd => hd.elim
  | s :: ss, t :: tt, v, v', f, h, hd => by
      simp only [modAt] at h
      split at h
      · cases h
      · rename_i c hc
        split at h
        · cases h
        · rename_i c' hc'
          rcases hd with hd | ⟨hk, hd⟩
          · simp only [getAt, stepGet_stepSet_sib h hd]
          · have h1 : stepGet v' t = some c' := by rw [← stepGet_key hk]; exact stepGet_stepSet_same h
            have h2 : stepGet v t = some c := by rw [← stepGet_key hk]; exact hc
            simp only [getAt, h1, h2]
            exact modAt_diverge ss tt c c' f hc' hd

theorem getAt_append : ∀ (ss tt : List Step) (v : Val),
    getAt v (ss ++ tt) = match getAt v ss with | some w => getAt w tt | none => none
  | [], _, _ => rfl
  | s :: ss, tt, v => by
      simp only [List.cons_append, getAt]
      cases stepGet v s with
      | none => rfl
      | some c => exact getAt_append ss tt c

theorem modAt_snoc : ∀ (ss : List Step) (s : Step) (v : Val) (f : Val → Option Val),
    modAt v (ss ++ [s]) f = modAt v ss (liftStep s f)
  | [], s, v, f => by
      simp only [List.nil_append, modAt, liftStep]
  | s' :: ss, s, v, f => by
      simp only [List.cons_append, modAt, modAt_snoc ss s]

/-- `resolve` (parent first, as `resolve_some_name_ptr_mut`) is navigation from the root variable along the steps. -/
theorem resolve_eq_getAt (vars : Vars) : ∀ (p : Path),
    resolve vars p = match lookupField vars p.rootName with | some v => getAt v p.steps | none => none
  | .root n => by
      simp only [resolve, Path.rootName, Path.steps, getAt]
      cases lookupField vars n <;> rfl
  | .elem p i => by
      simp only [resolve, Path.rootName, Path.steps, resolve_eq_getAt vars p]
      cases lookupField vars p.rootName with
      | none => rfl
      | some v =>
        simp only [getAt_append]
        cases getAt v p.steps <;> simp [getAt]
        split <;> simp_all
  | .prop p n => by
      simp only [resolve, Path.rootName, Path.steps, resolve_eq_getAt vars p]
      cases lookupField vars p.rootName with
      | none => rfl
      | some v =>
        simp only [getAt_append]
        cases getAt v p.steps <;> simp [getAt]
        split <;> simp_all

/-- `modifyPath` is: look the root variable up, update inside it along the steps, put it back. -/
theorem modifyPath_eq_modAt (vars : Vars) : ∀ (p : Path) (f : Val → Option Val),
    modifyPath vars p f =
      match lookupField vars p.rootName with
      | none => none
      | some old =>
        match modAt old p.steps f with
        | none => none
        | some new => updateField vars p.rootName new
  | .root n, f => by
      simp only [modifyPath, Path.rootName, Path.steps, modAt]
      cases lookupField vars n with
      | none => rfl
      | some old => cases f old <;> rfl
  | .elem p i, f => by
      simp only [modifyPath, Path.rootName, Path.steps, modifyPath_eq_modAt vars p, modAt_snoc]
  | .prop p n, f => by
      simp only [modifyPath, Path.rootName, Path.steps, modifyPath_eq_modAt vars p, modAt_snoc]

/-- A successful store decomposes into: old root value, new root value, updated variable map. -/
theorem store_decompose {vars vars' : Vars} {p : Path} {f : Val → Option Val}
    (h : modifyPath vars p f = some vars') :
    ∃ old new, lookupField vars p.rootName = some old ∧ modAt old p.steps f = some new ∧
      updateField vars p.rootName new = some vars' := by
  rw [modifyPath_eq_modAt] at h
  split at h
  · cases h
  · rename_i old ho
    split at h
    · cases h
    · rename_i new hn
      exact ⟨old, new, ho, hn, h⟩

/-! ### Property theorems: stores through paths -/

/-- **Reading the location just written yields the written value** — for any path: a variable, an array
element, a field, a field of an element of an array of records, a field of a nested record, … -/
theorem path_read_store_same {vars vars' : Vars} {p : Path} {v : Val}
    (h : store vars p v = some vars') : resolve vars' p = some v := by
  obtain ⟨old, new, h1, h2, h3⟩ := store_decompose h
  obtain ⟨o, n, _, g2, g3⟩ := modAt_same _ _ _ _ h2
  cases g2
  rw [resolve_eq_getAt, lookup_update_same _ _ _ _ h3]
  exact g3

/-- The same for any in-place update `f` of the location (the general form of the lens law). -/
theorem path_read_modify {vars vars' : Vars} {p : Path} {f : Val → Option Val}
    (h : modifyPath vars p f = some vars') :
    ∃ old new, resolve vars p = some old ∧ f old = some new ∧ resolve vars' p = some new := by
  obtain ⟨old, new, h1, h2, h3⟩ := store_decompose h
  obtain ⟨o, n, g1, g2, g3⟩ := modAt_same _ _ _ _ h2
  refine ⟨o, n, ?_, g2, ?_⟩
  · rw [resolve_eq_getAt, h1]; exact g1
  · rw [resolve_eq_getAt, lookup_update_same _ _ _ _ h3]; exact g3

/-- Two locations are *apart* when they live in different variables, or in the same variable on step lists
that part ways at some container (different index tuples of one array, different fields of one record). -/
def Apart (p q : Path) : Prop :=
  q.rootName ≠ p.rootName ∨ (q.rootName = p.rootName ∧ Diverge p.steps q.steps)

/-- **A store changes nothing else**: reading any location that is apart from the written one gives what it
gave before the store (also the same failure, if that read fails). -/
theorem path_read_store_other {vars vars' : Vars} {p q : Path} {v : Val}
    (h : store vars p v = some vars') (hq : Apart p q) : resolve vars' q = resolve vars q := by
  obtain ⟨old, new, h1, h2, h3⟩ := store_decompose h
  rw [resolve_eq_getAt, resolve_eq_getAt]
  rcases hq with hr | ⟨hr, hd⟩
  · rw [lookup_update_other _ _ _ _ _ h3 hr]
  · rw [hr, lookup_update_same _ _ _ _ h3, h1]
    exact modAt_diverge _ _ _ _ _ h2 hd

/-- Reading *below* the written location reads inside the written value (a whole record stored into an array
element is read back field by field). -/
theorem path_read_store_under {vars vars' : Vars} {p : Path} {v : Val} (tt : List Step)
    (h : store vars p v = some vars') :
    (match lookupField vars' p.rootName with | some r => getAt r (p.steps ++ tt) | none => none) = getAt v tt := by
  obtain ⟨old, new, h1, h2, h3⟩ := store_decompose h
  obtain ⟨o, n, _, g2, g3⟩ := modAt_same _ _ _ _ h2
  cases g2
  rw [lookup_update_same _ _ _ _ h3]
  simp only [getAt_append, g3]

/-- A store keeps every variable (names and order of the variable map). -/
theorem store_preserves_names {vars vars' : Vars} {p : Path} {v : Val}
    (h : store vars p v = some vars') : vars'.map (·.1) = vars.map (·.1) := by
  obtain ⟨old, new, h1, h2, h3⟩ := store_decompose h
  exact update_keys _ _ _ _ h3

/-- A store succeeds exactly when the location can be read (same bounds checks, same field lookups). -/
theorem store_some_iff (vars : Vars) (p : Path) (v : Val) :
    (∃ vars', store vars p v = some vars') ↔ ∃ w, resolve vars p = some w := by
  constructor
  · rintro ⟨vars', h⟩
    obtain ⟨o, n, g1, _, _⟩ := path_read_modify h
    exact ⟨o, g1⟩
  · rintro ⟨w, hw⟩
    -- by induction on the path, for any total update
    suffices H : ∀ (p : Path) (f : Val → Option Val) (w : Val), resolve vars p = some w →
        (∃ w', f w = some w') → ∃ vars', modifyPath vars p f = some vars' from
      H p _ w hw ⟨v, rfl⟩
    intro p
    induction p with
    | root n =>
      intro f w hw ⟨w', hf⟩
      simp only [resolve] at hw
      simp only [modifyPath, hw, hf]
      exact (update_some_iff vars n w').mpr ⟨w, hw⟩
    | elem p i ih =>
      intro f w hw ⟨w', hf⟩
      simp only [resolve] at hw
      split at hw
      · rename_i pv hpv
        apply ih (liftStep (.idx i) f) pv hpv
        simp only [liftStep, hw, hf]
        cases pv with
        | leaf x => simp [stepGet] at hw
        | udt fs => simp [stepGet] at hw
        | arr d es =>
          simp only [stepGet] at hw
          unfold Arr.getElem at hw
          split at hw
          · rename_i k hk
            change es[k]? = some w at hw
            have hlt : k < es.length := by
              apply Classical.byContradiction
              intro hn
              rw [List.getElem?_eq_none (by omega)] at hw
              cases hw
            simp [stepSet, setElem, hk, hlt]
          · cases hw
      · cases hw
    | prop p n ih =>
      intro f w hw ⟨w', hf⟩
      simp only [resolve] at hw
      split at hw
      · rename_i pv hpv
        apply ih (liftStep (.fld n) f) pv hpv
        simp only [liftStep, hw, hf]
        cases pv with
        | leaf x => simp [stepGet] at hw
        | arr d es => simp [stepGet] at hw
        | udt fs =>
          simp only [stepGet] at hw
          obtain ⟨r', hr'⟩ := (field_set_some_iff ⟨fs⟩ n w').mpr ⟨w, hw⟩
          exact ⟨.udt r'.fields, by simp [stepSet, hr']⟩
      · cases hw

/-! ### Property theorems: what is stored is the converted value -/

/-- A scalar is a value of the given static type: tag and range for a built-in type, exactly `n` characters for
`STRING * n`. -/
def HasETy : ETy → Num.Val → Prop
  | .num t, w => w.tag = t ∧ w.InRange
  | .fix n, w => ∃ cs, w = .str cs ∧ cs.length = n

/-- The conversion in front of a store yields a value of the location's type: for a built-in target a value
with that tag and in its range (`RbThm.C06.cast_sound`), for `STRING * n` a string of exactly `n` characters. -/
theorem storeConv_typed {s T : ETy} {v w : Num.Val} (hv : v.InRange) (hs : HasETy s v)
    (h : storeConv s T v = .ok w) : HasETy T w := by
  unfold storeConv at h
  split at h
  · rename_i heq
    cases h
    subst heq
    exact hs
  · cases T with
    | num t => exact RbThm.C06.cast_sound v t w hv h
    | fix n =>
      simp only [fixLengthInA] at h
      cases hc : Num.cast v .str with
      | err e => simp [hc, Num.Res.bind] at h
      | inexact => simp [hc, Num.Res.bind] at h
      | ok x =>
        have ht := (RbThm.C06.cast_sound v .str x hv hc).1
        cases x <;> simp [Num.Val.tag] at ht
        rename_i cs
        simp only [hc, Num.Res.bind] at h
        cases h
        exact ⟨_, rfl, fixLength_length cs n⟩

/-- **store_converts**: after `target = expr`, the location holds exactly the value of the expression converted
to the type of the location (`Num.cast` for a numeric or string location, cast-to-string + `fix_length` for a
`STRING * n` location), that value has the location's type and range, and every location apart from it is
unchanged. -/
theorem store_converts {vars vars' : Vars} {p : Path} {s T : ETy} {v : Num.Val}
    (h : assign vars p s T v = .ok (some vars')) :
    ∃ w, storeConv s T v = .ok w ∧ resolve vars' p = some (.leaf w) ∧
      ∀ q, Apart p q → resolve vars' q = resolve vars q := by
  unfold assign at h
  cases hc : storeConv s T v with
  | err e => simp [hc, Num.Res.bind] at h
  | inexact => simp [hc, Num.Res.bind] at h
  | ok w =>
    simp only [hc, Num.Res.bind, Num.Res.ok.injEq] at h
    exact ⟨w, rfl, path_read_store_same h, fun q hq => path_read_store_other h hq⟩

/-- … and the value read back is of the location's type (tag and range, resp. exactly `n` characters). -/
theorem store_converts_typed {vars vars' : Vars} {p : Path} {s T : ETy} {v : Num.Val} (hv : v.InRange)
    (hs : HasETy s v) (h : assign vars p s T v = .ok (some vars')) :
    ∃ w, resolve vars' p = some (.leaf w) ∧ HasETy T w := by
  obtain ⟨w, h1, h2, _⟩ := store_converts h
  exact ⟨w, h2, storeConv_typed hv hs h1⟩

/-- **Fixed strings, direct assignment**: whatever string is assigned to a `STRING * n` location — of any static
type other than `STRING * n` itself, or a `STRING * n` value, which has `n` characters — the location then holds
exactly `n` characters. -/
theorem assign_fix_length {vars vars' : Vars} {p : Path} {s : ETy} {n : Nat} {v : Num.Val}
    (hs : s = .fix n → ∃ cs, v = .str cs ∧ cs.length = n)
    (h : assign vars p s (.fix n) v = .ok (some vars')) :
    ∃ cs, resolve vars' p = some (.leaf (.str cs)) ∧ cs.length = n := by
  obtain ⟨w, h1, h2, _⟩ := store_converts h
  unfold storeConv at h1
  split at h1
  · rename_i heq
    obtain ⟨cs, rfl, hl⟩ := hs heq
    cases h1
    exact ⟨cs, h2, hl⟩
  · simp only [fixLengthInA] at h1
    cases hc : Num.cast v .str with
    | err e => simp [hc, Num.Res.bind] at h1
    | inexact => simp [hc, Num.Res.bind] at h1
    | ok x =>
      cases v <;> simp [Num.cast] at hc
      subst hc
      simp only [Num.cast, Num.Res.bind] at h1
      cases h1
      exact ⟨_, h2, fixLength_length _ n⟩

/-- **Fixed strings, by-reference write-back**: after a call with a `STRING * n` location as by-reference
argument, whatever string the procedure left in its parameter, the location holds exactly `n` characters
(`generate_fix_string_length` puts `FixLength(n)` in front of the write-back store). -/
theorem writeBack_fix_length {vars vars' : Vars} {p : Path} {n : Nat} {v : Num.Val}
    (h : writeBack vars p (.fix n) v = .ok (some vars')) :
    ∃ cs, resolve vars' p = some (.leaf (.str cs)) ∧ cs.length = n ∧
      ∀ q, Apart p q → resolve vars' q = resolve vars q := by
  simp only [writeBack, fixLengthInA] at h
  cases v <;> simp [Num.cast, Num.Res.bind] at h
  exact ⟨_, path_read_store_same h, fixLength_length _ n, fun q hq => path_read_store_other h hq⟩

/-- Numeric by-reference write-back stores the parameter's value as it is (the linter demands equal types). -/
theorem writeBack_num {vars vars' : Vars} {p : Path} {t : Num.Ty} {v : Num.Val}
    (h : writeBack vars p (.num t) v = .ok (some vars')) :
    resolve vars' p = some (.leaf v) ∧ ∀ q, Apart p q → resolve vars' q = resolve vars q := by
  simp only [writeBack, Num.Res.ok.injEq] at h
  exact ⟨path_read_store_same h, fun q hq => path_read_store_other h hq⟩

/-! ### The hypotheses are satisfiable (non-trivial instances) -/

/-- `TYPE Inner : X AS INTEGER : Y AS STRING * 2 : END TYPE`, `TYPE T : K AS LONG : P AS Inner : END TYPE`,
`DIM RA(1 TO 2) AS T`, `DIM S AS STRING * 3`. -/
def exElem : Val :=
  .udt [(['K'], .leaf (.long 0)), (['P'], .udt [(['X'], .leaf (.int 0)), (['Y'], .leaf (.str [' ', ' ']))])]
def exVars : Vars := [(['R', 'A'], .arr [(1, 2)] [exElem, exElem]), (['S', '$'], .leaf (.str [' ', ' ', ' ']))]
/-- `RA(2).p.x` -/
def exP : Path := .prop (.prop (.elem (.root ['R', 'A']) [2]) ['p']) ['x']
/-- `RA(2).K` -/
def exQ : Path := .prop (.elem (.root ['R', 'A']) [2]) ['K']
/-- `RA(1).P.X` -/
def exQ' : Path := .prop (.prop (.elem (.root ['R', 'A']) [1]) ['P']) ['X']
/-- `RA(2).P.Y` -/
def exY : Path := .prop (.prop (.elem (.root ['R', 'A']) [2]) ['P']) ['Y']

example : resolve exVars exP = some (.leaf (.int 0)) := rfl
example : ∃ vars', store exVars exP (.leaf (.int 7)) = some vars' :=
  (store_some_iff _ _ _).mpr ⟨_, (rfl : resolve exVars exP = some (.leaf (.int 0)))⟩
example : Apart exP exQ :=
  Or.inr ⟨rfl, Or.inr ⟨rfl, Or.inl (show foldName ['p'] ≠ foldName ['K'] by decide)⟩⟩
example : Apart exP exQ' := Or.inr ⟨rfl, Or.inl (show [2] ≠ [(1 : Int)] by decide)⟩
example : Apart exP (.root ['S', '$']) := Or.inl (show ['S', '$'] ≠ ['R', 'A'] by decide)
/-- `RA(2).p.x = 7&` (a LONG expression into an INTEGER field): `Cast(%)`, then the store succeeds -/
example : ∃ vars', assign exVars exP (.num .long) (.num .int) (.long 7) = .ok (some vars') := ⟨_, rfl⟩
/-- `RA(2).P.Y = "hello"` (a string expression into a `STRING * 2` field): `FixLength(2)`, then the store -/
example : ∃ vars', assign exVars exY (.num .str) (.fix 2) (.str ['h', 'e', 'l', 'l', 'o']) = .ok (some vars') := by
  have h : fixLength ['h', 'e', 'l', 'l', 'o'] 2 = ['h', 'e'] := by rw [fixLength_eq]; decide
  simp only [assign, storeConv, fixLengthInA, Num.cast, Num.Res.bind, h, reduceCtorEq, if_false]
  exact ⟨_, rfl⟩
/-- by-reference write-back into `S` (a `STRING * 3` variable) -/
example : ∃ vars', writeBack exVars (.root ['S', '$']) (.fix 3) (.str ['Q']) = .ok (some vars') := by
  have h : fixLength ['Q'] 3 = ['Q', ' ', ' '] := by rw [fixLength_eq]; decide
  simp only [writeBack, fixLengthInA, Num.cast, Num.Res.bind, h]
  exact ⟨_, rfl⟩
example : HasETy (.num .long) (.long 7) := ⟨rfl, by decide⟩
example : HasETy (.fix 2) (.str ['a', 'b']) := ⟨_, rfl, rfl⟩

end RbThm.C04
