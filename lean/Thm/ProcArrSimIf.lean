import Thm.ProcArrSimBase
/-!
Procedures layer, simulation part: the block IF statement (`IF … THEN … ELSEIF … ELSE … END IF`); port of
`Thm/C01SimIf.lean`.

Every arm (the first one and each ELSEIF arm) has the shape `<cond>; JumpIfFalse next; <body>; Jump endOff`;
`SimIf.ifs_correct` treats one arm against one `.ifs` node of the desugared statement, `SimIf.elifs_correct` walks the
ELSEIF chain by structural recursion (one unit of fuel per arm), `case_if` puts the first arm, the chain, the optional
ELSE part and the closing `end-if` label together.  A condition may call functions, so the state after the condition
(not the one before) is handed to the body / to the rest of the chain.

Convention: `StmtPost code sc below fd sd 0 tgt σ r` is used as "what `r` prescribes, arriving at address `tgt` on a
normal end".
-/
namespace RbThm.ProcArrSim
set_option linter.unusedVariables false
set_option linter.unusedSimpArgs false
open RbModel RbModel.Num RbModel.ProcArr RbModel.ProcArr.Compile RbModel.ProcArr.Vm
open RbModel.Ast (Pos)
open RbThm.ProcArrLen

namespace SimIf

/-- a `Jump tgt` after the statement: a normal end arrives at `tgt` -/
theorem post_then_jump {W : World} {sc : Scope} {below : List CtxState} {fd sd n off tgt : Nat} {p : Pos} {σ : Vm}
    {r : St × Outcome} (h : StmtPost W sc below fd sd n off σ r)
    (hj : W.code[off + n]? = some (CInstr.jump tgt, p)) : StmtPost W sc below fd sd 0 tgt σ r := by
  obtain ⟨s', o⟩ := r
  cases o with
  | normal =>
    obtain ⟨τ, st, hp, hrel, hss⟩ := h
    have hj' : W.code[τ.pc]? = some (CInstr.jump tgt, p) := by rw [hp]; exact hj
    have s1 : Vm.step W.code τ = .next { τ with pc := tgt } := by simp only [Vm.step, hj']
    exact ⟨{ τ with pc := tgt }, st.trans (Steps.one s1), rfl, hrel.setPc tgt,
      hss.trans ⟨rfl, rfl, rfl, rfl, rfl, rfl, id⟩⟩
  | exited => exact h
  | halted => exact h
  | error c q => exact h
  | inexact => trivial
  | outOfFuel => trivial
  | tooBig => trivial
  | illFormed => exact h

/-- a label after the statement: a normal end steps over it -/
theorem post_then_label {W : World} {sc : Scope} {below : List CtxState} {fd sd n off : Nat} {name : String}
    {p : Pos} {σ : Vm} {r : St × Outcome} (h : StmtPost W sc below fd sd n off σ r)
    (hl : W.code[off + n]? = some (CInstr.label name, p)) : StmtPost W sc below fd sd (n + 1) off σ r := by
  obtain ⟨s', o⟩ := r
  cases o with
  | normal =>
    obtain ⟨τ, st, hp, hrel, hss⟩ := h
    have hl' : W.code[τ.pc]? = some (CInstr.label name, p) := by rw [hp]; exact hl
    have s1 : Vm.step W.code τ = .next (Vm.advance τ) := by simp only [Vm.step, hl']
    exact ⟨Vm.advance τ, st.trans (Steps.one s1), by simp [Vm.advance, hp]; omega, hrel.advance,
      hss.trans ⟨rfl, rfl, rfl, rfl, rfl, rfl, id⟩⟩
  | exited => exact h
  | halted => exact h
  | error c q => exact h
  | inexact => trivial
  | outOfFuel => trivial
  | tooBig => trivial
  | illFormed => exact h

/-- one arm `<cond>; JumpIfFalse next; <body>; Jump endOff` against one `.ifs` node: the true branch runs the body
(at fuel `f`, by the statement hypothesis) and jumps to `endOff`; the false branch continues at `next` with whatever
`hels` says about the rest, from the state the condition left -/
theorem ifs_correct (W : World) (fuel f : Nat) (ih : IHle W fuel) (hf : f ≤ fuel) (c : ProcArr.Expr) (body : SStmt)
    (els : Stmt) (sc : Scope) (sfx : String) (fd sd : Nat) (p : Pos) (off next endOff : Nat)
    (below : List CtxState) (s : St) (σ : Vm)
    (hc : CodeAt W.code off (compileExpr W.lay off c ++ [(CInstr.jumpIfFalse next, p)] ++
      compileStmt W.lay sfx fd sd (off + sizeExpr c + 1) body ++ [(CInstr.jump endOff, p)]))
    (hpc : σ.pc = off) (hr : Rel W sc [] below s σ) (hwc : EWf W.sg sc.slots c) (hnc : c.ty ≠ .str)
    (hwb : Wf W.sg sc body) (ha : ActInv sc fd sd σ)
    (hels : ∀ (s1 : St) (τ : Vm), τ.pc = next → Rel W sc [] below s1 τ → ActInv sc fd sd τ →
      StmtPost W sc below fd sd 0 endOff τ (ProcArr.Ref.exec W.P f els s1)) :
    StmtPost W sc below fd sd 0 endOff σ (ProcArr.Ref.exec W.P (f + 1) (.ifs c (desugar body) els p) s) := by
  have hcond := cond_correct' W f (ih.mono hf) sc c next p off [] below s σ hc.append_left.append_left hpc hr hwc hnc
  simp only [ProcArr.Ref.exec]
  generalize ProcArr.Ref.evalCond W.P f c s = r at hcond ⊢
  obtain ⟨s1, rb⟩ := r
  cases rb with
  | error o => exact StmtPost.of_err hcond
  | ok b =>
    cases b with
    | false =>
      obtain ⟨τ, st, hp, hrel, hss⟩ := hcond
      exact StmtPost.of_steps st hss (hels s1 τ hp hrel (ha.of_same hss))
    | true =>
      obtain ⟨τ, st, hp, hrel, hss⟩ := hcond
      have hcb : CodeAt W.code (off + sizeExpr c + 1) (compileStmt W.lay sfx fd sd (off + sizeExpr c + 1) body) := by
        have := hc.append_left.append_right
        simp only [List.length_append, List.length_singleton, len_expr] at this
        exact this.at (by omega)
      have hb := (ih f hf).stmt sc body sfx fd sd _ below s1 τ hcb hp hrel hwb (ha.of_same hss)
      have hj : W.code[off + sizeExpr c + 1 + sizeStmt fd sd body]? = some (CInstr.jump endOff, p) := by
        have := hc.append_right.head
        simp only [List.length_append, List.length_singleton, len_expr, len_stmt] at this
        rw [← this]; congr 1; omega
      exact StmtPost.of_steps st hss (post_then_jump hb hj)

/-- the ELSEIF chain: running from the label of arm `i` does what the nested `.ifs` chain prescribes and, on a normal
end, arrives at `endOff`; `helse` says what happens once the chain is exhausted and control is at `elseOff` -/
theorem elifs_correct (W : World) (fuel : Nat) (ih : IHle W fuel) (sc : Scope) (sfx : String) (fd sd : Nat) (p : Pos)
    (endOff elseOff : Nat) (els : SStmt) (below : List CtxState)
    (helse : ∀ f, f ≤ fuel → ∀ (s : St) (σ : Vm), σ.pc = elseOff → Rel W sc [] below s σ → ActInv sc fd sd σ →
      StmtPost W sc below fd sd 0 endOff σ (ProcArr.Ref.exec W.P f (desugar els) s)) :
    ∀ (elifs : ElseIfs) (f : Nat), f ≤ fuel → ∀ (off i : Nat) (s : St) (σ : Vm),
      CodeAt W.code off (compileElifs W.lay sfx fd sd p endOff off i elifs) → off + sizeElifs fd sd elifs = elseOff →
      σ.pc = off → Rel W sc [] below s σ → WfElifs W.sg sc elifs → ActInv sc fd sd σ →
      StmtPost W sc below fd sd 0 endOff σ (ProcArr.Ref.exec W.P f (desugarElifs elifs (desugar els) p) s)
  | .nil, f, hf, off, i, s, σ, hc, he, hpc, hr, hw, ha => by
    simp only [desugarElifs]
    simp only [sizeElifs] at he
    exact helse f hf s σ (by omega) hr ha
  | .cons c body rest, f, hf, off, i, s, σ, hc, he, hpc, hr, hw, ha => by
    cases f with
    | zero => simp only [desugarElifs, ProcArr.Ref.exec, StmtPost]
    | succ f' =>
      simp only [desugarElifs]
      simp only [compileElifs] at hc
      simp only [WfElifs] at hw
      obtain ⟨hwc, hnc, hwb, hwr⟩ := hw
      simp only [sizeElifs] at he
      subst hpc
      have hlab : W.code[σ.pc]? = some (CInstr.label (labelName ("else-if-" ++ toString i) p sfx), p) :=
        hc.append_left.append_left.append_left.append_left.append_left.head
      have s1 : Vm.step W.code σ = .next (Vm.advance σ) := by simp only [Vm.step, hlab]
      have harm : CodeAt W.code (σ.pc + 1) (compileExpr W.lay (σ.pc + 1) c ++
          [(CInstr.jumpIfFalse (σ.pc + 1 + sizeExpr c + 1 + sizeStmt fd sd body + 1), p)] ++
          compileStmt W.lay sfx fd sd (σ.pc + 1 + sizeExpr c + 1) body ++ [(CInstr.jump endOff, p)]) := by
        have h := hc.append_left
        have h' : CodeAt W.code σ.pc ([(CInstr.label (labelName ("else-if-" ++ toString i) p sfx), p)] ++
            (compileExpr W.lay (σ.pc + 1) c ++
              [(CInstr.jumpIfFalse (σ.pc + 1 + sizeExpr c + 1 + sizeStmt fd sd body + 1), p)] ++
              compileStmt W.lay sfx fd sd (σ.pc + 1 + sizeExpr c + 1) body ++ [(CInstr.jump endOff, p)])) := by
          simpa only [List.append_assoc] using h
        have := h'.append_right
        simpa only [List.length_singleton] using this
      have hcr : CodeAt W.code (σ.pc + 1 + sizeExpr c + 1 + sizeStmt fd sd body + 1)
          (compileElifs W.lay sfx fd sd p endOff (σ.pc + 1 + sizeExpr c + 1 + sizeStmt fd sd body + 1) (i + 1)
            rest) := by
        have := hc.append_right
        simp only [List.length_append, List.length_singleton, len_expr, len_stmt] at this
        exact this.at (by omega)
      have hss : SameStacks σ (Vm.advance σ) := ⟨rfl, rfl, rfl, rfl, rfl, rfl, id⟩
      refine StmtPost.of_steps (Steps.one s1) hss ?_
      refine ifs_correct W fuel f' ih (by omega) c body _ sc sfx fd sd p (σ.pc + 1) _ endOff below s (Vm.advance σ)
        harm rfl hr.advance hwc hnc hwb (ha.of_same hss) ?_
      intro s1' τ hτ hrτ haτ
      exact elifs_correct W fuel ih sc sfx fd sd p endOff elseOff els below helse rest f' (by omega) _ (i + 1) s1' τ
        hcr (by omega) hτ hrτ hwr haτ

end SimIf

open SimIf in
theorem case_if (W : World) (fuel : Nat) (ih : IHle W fuel) (c : ProcArr.Expr) (thn : SStmt) (elifs : ElseIfs)
    (hasElse : Bool) (els : SStmt) (p : Pos)
    (sc : Scope) (sfx : String) (fd sd off : Nat) (below : List CtxState) (s : St) (σ : Vm)
    (hc : CodeAt W.code off (compileStmt W.lay sfx fd sd off (.ifBlock c thn elifs hasElse els p))) (hpc : σ.pc = off)
    (hr : Rel W sc [] below s σ) (hw : Wf W.sg sc (.ifBlock c thn elifs hasElse els p)) (ha : ActInv sc fd sd σ) :
    StmtPost W sc below fd sd (sizeStmt fd sd (.ifBlock c thn elifs hasElse els p)) off σ
      (ProcArr.Ref.exec W.P (fuel + 1) (desugar (.ifBlock c thn elifs hasElse els p)) s) := by
  simp only [Wf] at hw
  obtain ⟨hwc, hnc, hwt, hwe, hwels, hnoelse⟩ := hw
  cases hasElse with
  | false =>
    have hskip : els = .skip := hnoelse rfl
    subst hskip
    simp only [compileStmt, Bool.false_eq_true, if_false, Nat.add_zero, List.append_nil] at hc
    simp only [desugar, sizeStmt, Bool.false_eq_true, if_false, Nat.add_zero]
    have harm := hc.append_left.append_left
    have hend : W.code[off + sizeExpr c + 1 + sizeStmt fd sd thn + 1 + sizeElifs fd sd elifs + 0]? =
        some (CInstr.label (labelName "end-if" p sfx), p) := by
      have := hc.append_right.head
      simp only [List.length_append, List.length_singleton, len_expr, len_stmt, len_elifs] at this
      rw [← this]; congr 1; omega
    have hce : CodeAt W.code (off + sizeExpr c + 1 + sizeStmt fd sd thn + 1)
        (compileElifs W.lay sfx fd sd p (off + sizeExpr c + 1 + sizeStmt fd sd thn + 1 + sizeElifs fd sd elifs)
          (off + sizeExpr c + 1 + sizeStmt fd sd thn + 1) 0 elifs) := by
      have := hc.append_left.append_right
      simp only [List.length_append, List.length_singleton, len_expr, len_stmt] at this
      exact this.at (by omega)
    refine (post_then_label ?_ hend).addr (by omega)
    refine ifs_correct W fuel fuel ih (Nat.le_refl _) c thn _ sc sfx fd sd p off _ _ below s σ harm hpc hr hwc hnc hwt
      ha ?_
    intro s1 τ hτ hrτ haτ
    refine elifs_correct W fuel ih sc sfx fd sd p _ _ .skip below ?_ elifs fuel (Nat.le_refl _) _ 0 s1 τ hce rfl hτ hrτ
      hwe haτ
    intro f hf s' σ' hpc' hr' ha'
    cases f with
    | zero => simp only [ProcArr.Ref.exec, StmtPost]
    | succ f' =>
      simp only [desugar, ProcArr.Ref.exec]
      exact ⟨σ', Steps.refl σ', by omega, hr', SameStacks.refl σ'⟩
  | true =>
    simp only [compileStmt, if_true] at hc
    simp only [desugar, sizeStmt, if_true]
    have harm := hc.append_left.append_left.append_left
    have hend : W.code[off + sizeExpr c + 1 + sizeStmt fd sd thn + 1 + sizeElifs fd sd elifs +
          (1 + sizeStmt fd sd els) + 0]? = some (CInstr.label (labelName "end-if" p sfx), p) := by
      have := hc.append_right.head
      simp only [List.length_append, List.length_singleton, len_expr, len_stmt, len_elifs] at this
      rw [← this]; congr 1; omega
    have hce : CodeAt W.code (off + sizeExpr c + 1 + sizeStmt fd sd thn + 1)
        (compileElifs W.lay sfx fd sd p
          (off + sizeExpr c + 1 + sizeStmt fd sd thn + 1 + sizeElifs fd sd elifs + (1 + sizeStmt fd sd els))
          (off + sizeExpr c + 1 + sizeStmt fd sd thn + 1) 0 elifs) := by
      have := hc.append_left.append_left.append_right
      simp only [List.length_append, List.length_singleton, len_expr, len_stmt] at this
      exact this.at (by omega)
    have hlab : W.code[off + sizeExpr c + 1 + sizeStmt fd sd thn + 1 + sizeElifs fd sd elifs]? =
        some (CInstr.label (labelName "else" p sfx), p) := by
      have := hc.append_left.append_right.append_left.head
      simp only [List.length_append, List.length_singleton, len_expr, len_stmt, len_elifs] at this
      rw [← this]; congr 1; omega
    have hcels : CodeAt W.code (off + sizeExpr c + 1 + sizeStmt fd sd thn + 1 + sizeElifs fd sd elifs + 1)
        (compileStmt W.lay sfx fd sd (off + sizeExpr c + 1 + sizeStmt fd sd thn + 1 + sizeElifs fd sd elifs + 1)
          els) := by
      have := hc.append_left.append_right.append_right
      simp only [List.length_append, List.length_singleton, len_expr, len_stmt, len_elifs] at this
      exact this.at (by omega)
    refine (post_then_label ?_ hend).addr (by omega)
    refine ifs_correct W fuel fuel ih (Nat.le_refl _) c thn _ sc sfx fd sd p off _ _ below s σ harm hpc hr hwc hnc hwt
      ha ?_
    intro s1 τ hτ hrτ haτ
    refine elifs_correct W fuel ih sc sfx fd sd p _ _ els below ?_ elifs fuel (Nat.le_refl _) _ 0 s1 τ hce rfl hτ hrτ
      hwe haτ
    intro f hf s' σ' hpc' hr' ha'
    have hlab' : W.code[σ'.pc]? = some (CInstr.label (labelName "else" p sfx), p) := by rw [hpc']; exact hlab
    have s1 : Vm.step W.code σ' = .next (Vm.advance σ') := by simp only [Vm.step, hlab']
    have hss : SameStacks σ' (Vm.advance σ') := ⟨rfl, rfl, rfl, rfl, rfl, rfl, id⟩
    have hb := (ih f hf).stmt sc els sfx fd sd _ below s' (Vm.advance σ') hcels (by simp [Vm.advance, hpc'])
      hr'.advance hwels (ha'.of_same hss)
    exact StmtPost.of_steps (Steps.one s1) hss (hb.addr (by omega))

end RbThm.ProcArrSim
