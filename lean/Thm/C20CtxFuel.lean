import Thm.C20CtxWb
import Thm.C20Fuel
/-!
C20, sixth part — fuel exactness lifted to whole expressions of the context model (`RbModel.PcCtx`).

`runCF F G` is `runC` with loop fuel `F` for the loops of the context-free parts (`many`, `delimited_by` below `lift` /
`iif_ctx`) and loop fuel `G` for the `many_ctx` loops; the model is `runCF (len + 3) (2 * len + 5)` (`runCF_model`).

* `runCF_le` / `runC_fuel_mono`: an answer other than `hang` (a panic included) is the answer at all larger fuels;
* `chang_iff_stalls`: the model answers `hang` exactly when the evaluation path (`CConsults`) reaches a loop that does
  not progress — a `many_ctx` whose loop state `(position, context == Sym(0))` repeats after some rounds (`Stuck2`), or,
  below `lift` / `iif_ctx`, a `many` / `delimited_by` with a non-consuming round;
* `runC_fuel_exact`: both clauses, `runCF F G = runC` from the model's fuels on, `hang` at every fuel iff the path stalls.
-/
namespace RbThm.C20
open RbModel.Pc RbModel.PcCtx

/-! ## 1. The interpreter with explicit loop fuels -/

def runCF (F G : Nat) : CExpr → Option Val → List Nat → Nat → CRes
  | .lift e, _, inp, pos => .res (runF F e inp pos)
  | .ctx, env, _, pos =>
    match env with
    | some v => .res (.ok v pos)
    | none => .panic
  | .iif l r, env, inp, pos =>
    match env with
    | some v => .res (if v == .sym 0 then runF F l inp pos else runF F r inp pos)
    | none => .panic
  | .mapCtx f c, env, inp, pos => runCF F G c (env.map f.app) inp pos
  | .noCtx c, _, inp, pos => runCF F G c none inp pos
  | .thenWith cmb l r, env, inp, pos =>
    match runCF F G l env inp pos with
    | .panic => .panic
    | .res (.ok a p1) =>
      if setPanics r then .panic
      else
        match runCF F G r (some a) inp p1 with
        | .panic => .panic
        | .res (.ok b p2) => .res (.ok (cmb.app a b) p2)
        | .res (.soft e p2) => .res (.fatal e p2)
        | .res (.fatal e p2) => .res (.fatal e p2)
        | .res .hang => .res .hang
    | .res x => .res x
  | .manyCtx an c, _, inp, pos =>
    if setPanics c then .panic
    else
      match runCF F G c (some .nil) inp pos with
      | .panic => .panic
      | .res (.ok v q) => manyCtxLoop (fun env p => runCF F G c env inp p) G q [v] v
      | .res (.soft e q) => if an then .res (.ok .nil q) else .res (.soft e q)
      | .res x => .res x
  | .and cmb l r, env, inp, pos =>
    match runCF F G l env inp pos with
    | .panic => .panic
    | .res (.ok a p1) =>
      match runCF F G r env inp p1 with
      | .panic => .panic
      | .res (.ok b p2) => .res (.ok (cmb.app a b) p2)
      | .res (.soft e _) => .res (.soft e pos)
      | .res x => .res x
    | .res x => .res x
  | .or2 a b, env, inp, pos =>
    match runCF F G a env inp pos with
    | .res (.soft _ _) => runCF F G b env inp pos
    | x => x
  | .seq2 a b, env, inp, pos =>
    match runCF F G a env inp pos with
    | .panic => .panic
    | .res (.ok v q) =>
      match runCF F G b env inp q with
      | .panic => .panic
      | .res (.ok w q2) => .res (.ok (Val.ofList [v, w]) q2)
      | .res (.soft e q2) => .res (.fatal e q2)
      | .res x => .res x
    | .res x => .res x
  | .map f c, env, inp, pos =>
    match runCF F G c env inp pos with
    | .res (.ok v q) => .res (.ok (f.app v) q)
    | x => x

/-- the model is `runCF` at the model's two fuels -/
theorem runCF_model (inp : List Nat) : ∀ (c : CExpr) (env : Option Val) (pos : Nat),
    runCF (inp.length + 3) (2 * inp.length + 5) c env inp pos = runC c env inp pos := by
  intro c
  induction c with
  | lift e => intro env pos; simp only [runCF, runC, runF_len]
  | ctx => intro env pos; rfl
  | iif l r => intro env pos; simp only [runCF, runC, runF_len] <;> rfl
  | mapCtx f c ih => intro env pos; simp only [runCF, runC, ih]
  | noCtx c ih => intro env pos; simp only [runCF, runC, ih]
  | thenWith cmb l r ihl ihr => intro env pos; simp only [runCF, runC, ihl, ihr] <;> rfl
  | manyCtx an c ih =>
    intro env pos
    have hb : (fun en p => runCF (inp.length + 3) (2 * inp.length + 5) c en inp p) = fun en p => runC c en inp p := by
      funext en p; exact ih en p
    simp only [runCF, runC, ih, hb] <;> rfl
  | and cmb l r ihl ihr => intro env pos; simp only [runCF, runC, ihl, ihr] <;> rfl
  | or2 a b iha ihb => intro env pos; simp only [runCF, runC, iha, ihb] <;> rfl
  | seq2 a b iha ihb => intro env pos; simp only [runCF, runC, iha, ihb] <;> rfl
  | map f c ih => intro env pos; simp only [runCF, runC, ih] <;> rfl

/-! ## 2. More fuel only turns `hang` into an answer -/

def CRLe (r r' : CRes) : Prop := r = .res .hang ∨ r = r'

theorem manyCtxLoop_le {body body' : Option Val → Nat → CRes} (hb : ∀ env pos, CRLe (body env pos) (body' env pos)) :
    ∀ (G G' : Nat), G ≤ G' → ∀ pos acc ctx, CRLe (manyCtxLoop body G pos acc ctx) (manyCtxLoop body' G' pos acc ctx) := by
  intro G
  induction G with
  | zero => intros; exact .inl rfl
  | succ n ih =>
    intro G' hG pos acc ctx
    obtain ⟨m, rfl⟩ : ∃ m, G' = m + 1 := ⟨G' - 1, by omega⟩
    have ih' := ih m (by omega)
    have h := hb (some ctx) pos
    simp only [CRLe, manyCtxLoop] at *
    grind

/-- **every context expression is monotone in both fuels** -/
theorem runCF_le (inp : List Nat) {F F' G G' : Nat} (hF : F ≤ F') (hG : G ≤ G') :
    ∀ (c : CExpr) (env : Option Val) (pos : Nat), CRLe (runCF F G c env inp pos) (runCF F' G' c env inp pos) := by
  intro c
  induction c with
  | lift e =>
    intro env pos
    have := runF_le inp hF e pos
    simp only [CRLe, RLe, runCF] at *
    grind
  | ctx => intro env pos; exact .inr rfl
  | iif l r =>
    intro env pos
    have h1 := runF_le inp hF l pos
    have h2 := runF_le inp hF r pos
    simp only [CRLe, RLe, runCF] at *
    grind
  | mapCtx f c ih => intro env pos; exact ih _ pos
  | noCtx c ih => intro env pos; exact ih _ pos
  | thenWith cmb l r ihl ihr =>
    intro env pos
    simp only [runCF]
    rcases ihl env pos with h | h
    · rw [h]; exact .inl rfl
    · rw [h]
      generalize runCF F' G' l env inp pos = r1
      cases r1 with
      | panic => exact .inr rfl
      | res x =>
        cases x with
        | ok a p1 =>
          simp only
          split
          · exact .inr rfl
          · rcases ihr (some a) p1 with h2 | h2
            · rw [h2]; exact .inl rfl
            · rw [h2]; exact .inr rfl
        | soft e q => exact .inr rfl
        | fatal e q => exact .inr rfl
        | hang => exact .inr rfl
  | manyCtx an c ih =>
    intro env pos
    have hl := manyCtxLoop_le (body := fun en p => runCF F G c en inp p) (body' := fun en p => runCF F' G' c en inp p)
      (fun en p => ih en p) G G' hG
    have h1 := ih (some .nil) pos
    simp only [CRLe, runCF] at *
    grind
  | and cmb l r ihl ihr =>
    intro env pos
    have h1 := ihl env pos
    simp only [CRLe, runCF] at *
    grind
  | or2 a b iha ihb =>
    intro env pos
    have h1 := iha env pos
    have h2 := ihb env pos
    simp only [CRLe, runCF] at *
    grind
  | seq2 a b iha ihb =>
    intro env pos
    have h1 := iha env pos
    simp only [CRLe, runCF] at *
    grind
  | map f c ih =>
    intro env pos
    have h1 := ih env pos
    simp only [CRLe, runCF] at *
    grind

/-- **`runC_fuel_mono`.** An answer other than `hang` — a result or a panic — is the answer at all larger fuels. -/
theorem runC_fuel_mono (inp : List Nat) (c : CExpr) (env : Option Val) (pos : Nat) {F F' G G' : Nat} (hF : F ≤ F')
    (hG : G ≤ G') (h : runCF F G c env inp pos ≠ .res .hang) :
    runCF F' G' c env inp pos = runCF F G c env inp pos := by
  rcases runCF_le inp hF hG c env pos with h1 | h1
  · exact absurd h1 h
  · exact h1.symm

/-- where the model answers, every pair of fuels either hangs or answers the same -/
theorem runCF_vs_runC (inp : List Nat) (F G : Nat) (c : CExpr) (env : Option Val) (pos : Nat)
    (h : runC c env inp pos ≠ .res .hang) :
    runCF F G c env inp pos = .res .hang ∨ runCF F G c env inp pos = runC c env inp pos := by
  have h1 := runCF_le inp (F := inp.length + 3) (F' := max F (inp.length + 3)) (G := 2 * inp.length + 5)
    (G' := max G (2 * inp.length + 5)) (by omega) (by omega) c env pos
  have h2 := runCF_le inp (F := F) (F' := max F (inp.length + 3)) (G := G)
    (G' := max G (2 * inp.length + 5)) (by omega) (by omega) c env pos
  rw [runCF_model] at h1
  rcases h1 with h1 | h1
  · exact absurd h1 h
  · rcases h2 with h2 | h2
    · exact .inl h2
    · exact .inr (by rw [h2, ← h1])

/-! ## 3. A loop that does not progress on the evaluation path of a context expression -/

def Node.runF (F G : Nat) (inp : List Nat) : Node → Nat → CRes
  | .ce c env, pos => runCF F G c env inp pos
  | .pe e, pos => .res (RbThm.C20.runF F e inp pos)

/-- the consulted node is a loop that does not progress: a `many_ctx` whose state `(position, context == Sym(0))`
repeats after a chain of rounds, or a context-free repetition / delimited list with a non-consuming round -/
def CStuckAt (inp : List Nat) : Node → Nat → Prop
  | .ce (.manyCtx _ c) _, q => setPanics c = false ∧
      ∃ vs r last, CChain (fun en p => runC c en inp p) .nil q vs r last ∧ Stuck2 (fun en p => runC c en inp p) r last
  | .pe e, q => LoopStuck inp e q
  | _, _ => False

/-- **the evaluation of the node from `pos` reaches a non-progressing loop** -/
def CStalls (inp : List Nat) (n : Node) (pos : Nat) : Prop :=
  ∃ s q, CConsults inp n pos s q ∧ CStuckAt inp s q

/-- `body` is `body0` run with other fuels -/
def CAg (body0 body : Option Val → Nat → CRes) : Prop :=
  ∀ env x, body0 env x ≠ .res .hang → body env x = .res .hang ∨ body env x = body0 env x

theorem cag_runCF (inp : List Nat) (F G : Nat) (c : CExpr) :
    CAg (fun en p => runC c en inp p) (fun en p => runCF F G c en inp p) :=
  fun env x h => runCF_vs_runC inp F G c env x h

theorem CAg.of_eq {body0 body : Option Val → Nat → CRes} (ha : CAg body0 body) {env : Option Val} {x : Nat} {r : CRes}
    (h : body0 env x = r) (hr : r ≠ .res .hang) : body env x = .res .hang ∨ body env x = r := by
  have := ha env x (by rw [h]; exact hr)
  rwa [h] at this

theorem manyCtxLoop_hang_chain {body0 body : Option Val → Nat → CRes} (ha : CAg body0 body) {ctx : Val} {pos : Nat}
    {vs : List Val} {q : Nat} {last : Val} (hc : CChain body0 ctx pos vs q last)
    (hq : ∀ G acc, manyCtxLoop body G q acc last = .res .hang) :
    ∀ G acc, manyCtxLoop body G pos acc ctx = .res .hang := by
  induction hc with
  | nil => exact hq
  | cons h1 _ ih =>
    intro G acc
    cases G with
    | zero => rfl
    | succ n =>
      simp only [manyCtxLoop]
      rcases ha.of_eq h1 (by simp) with h | h
      · rw [h]
      · rw [h]; exact ih hq n _

/-- a repeating state of the model's body is one for the body at any fuel, or that body hangs on the way -/
theorem manyCtxLoop_hang_stuck {len : Nat} {body0 body : Option Val → Nat → CRes} (hb : BodyOK len body0)
    (ha : CAg body0 body) {r : Nat} : ∀ (G : Nat) (last : Val) (acc : List Val), Stuck2 body0 r last →
    manyCtxLoop body G r acc last = .res .hang := by
  intro G
  induction G with
  | zero => intros; rfl
  | succ n ih =>
    intro last acc hs
    obtain ⟨v', h1, hs'⟩ := hs.step hb
    simp only [manyCtxLoop]
    rcases ha.of_eq h1 (by simp) with h | h
    · rw [h]
    · rw [h]; exact ih v' _ hs'

theorem manyCtxLoop_hang_body {body : Option Val → Nat → CRes} {q : Nat} {last : Val}
    (h : body (some last) q = .res .hang) : ∀ G acc, manyCtxLoop body G q acc last = .res .hang := by
  intro G acc
  cases G with
  | zero => rfl
  | succ n => simp only [manyCtxLoop, h]

/-- the whole `many_ctx` at fuels `F G`, given a chain of the model's rounds after which every fuel hangs -/
theorem manyCtxF_hang {inp : List Nat} {F G : Nat} {an : Bool} {c : CExpr} {env : Option Val} {pos : Nat} {vs : List Val}
    {q : Nat} {last : Val} (hsp : setPanics c = false)
    (hc : CChain (fun en p => runC c en inp p) .nil pos vs q last)
    (hq : ∀ G' acc, manyCtxLoop (fun en p => runCF F G c en inp p) G' q acc last = .res .hang)
    (hq0 : vs = [] → runCF F G c (some .nil) inp pos = .res .hang ∨
      ∃ v, runCF F G c (some .nil) inp pos = .res (.ok v pos) ∧
        ∀ G' acc, manyCtxLoop (fun en p => runCF F G c en inp p) G' pos acc v = .res .hang) :
    runCF F G (.manyCtx an c) env inp pos = .res .hang := by
  simp only [runCF, hsp, Bool.false_eq_true, if_false]
  cases hc with
  | nil =>
    rcases hq0 rfl with h | ⟨v, h, hl⟩
    · rw [h]
    · rw [h]; exact hl _ _
  | cons h1 hc' =>
    rcases (cag_runCF inp F G c).of_eq h1 (by simp) with h | h
    · rw [h]
    · rw [h]; exact manyCtxLoop_hang_chain (cag_runCF inp F G c) hc' hq _ _

/-- **One call, any fuels.** If evaluating `c` (in the model) calls the node `m` at `q`, and `m` hangs there with
fuels `F G`, then `c` hangs with fuels `F G`. -/
theorem CCalls.hangF {inp : List Nat} {c : CExpr} {env : Option Val} {pos : Nat} {m : Node} {q : Nat} (F G : Nat)
    (h : CCalls inp c env pos m q) (hf : m.runF F G inp q = .res .hang) : runCF F G c env inp pos = .res .hang := by
  have ag := fun x => cag_runCF inp F G x
  cases h with
  | lift => simpa [Node.runF, runCF] using hf
  | iif_l hv => simp only [Node.runF, CRes.res.injEq] at hf; simp [runCF, hv, hf]
  | iif_r hv => simp only [Node.runF, CRes.res.injEq] at hf; simp [runCF, hv, hf]
  | mapCtx => simpa [Node.runF, runCF] using hf
  | noCtx => simpa [Node.runF, runCF] using hf
  | thenWith_l => simp only [Node.runF] at hf; simp [runCF, hf]
  | thenWith_r h1 hsp =>
    simp only [Node.runF] at hf
    rcases (ag _).of_eq h1 (by simp) with h | h <;> simp [runCF, h, hsp, hf]
  | manyCtx hsp hc =>
    simp only [Node.runF] at hf
    refine manyCtxF_hang hsp hc (manyCtxLoop_hang_body hf) (fun hvs => ?_)
    subst hvs
    cases hc
    exact .inl hf
  | and_l => simp only [Node.runF] at hf; simp [runCF, hf]
  | and_r h1 => simp only [Node.runF] at hf; rcases (ag _).of_eq h1 (by simp) with h | h <;> simp [runCF, h, hf]
  | or2_a => simp only [Node.runF] at hf; simp [runCF, hf]
  | or2_b h1 => simp only [Node.runF] at hf; rcases (ag _).of_eq h1 (by simp) with h | h <;> simp [runCF, h, hf]
  | seq2_a => simp only [Node.runF] at hf; simp [runCF, hf]
  | seq2_b h1 => simp only [Node.runF] at hf; rcases (ag _).of_eq h1 (by simp) with h | h <;> simp [runCF, h, hf]
  | map => simp only [Node.runF] at hf; simp [runCF, hf]

/-- a non-progressing loop hangs with every pair of fuels -/
theorem CStuckAt.hangF {inp : List Nat} {s : Node} {q : Nat} (h : CStuckAt inp s q) (F G : Nat) :
    s.runF F G inp q = .res .hang := by
  cases s with
  | pe e => simp only [CStuckAt] at h; simp only [Node.runF, h.hangF F]
  | ce c env =>
    cases c <;> simp only [CStuckAt] at h
    case manyCtx an c =>
      obtain ⟨hsp, vs, r, last, hc, hs⟩ := h
      simp only [Node.runF]
      have hq := fun G' acc => manyCtxLoop_hang_stuck (bodyOK_runC inp c) (cag_runCF inp F G c) G' last acc hs
      refine manyCtxF_hang hsp hc hq (fun hvs => ?_)
      subst hvs
      cases hc
      obtain ⟨v', h1, hs'⟩ := hs.step (bodyOK_runC inp c)
      rcases (cag_runCF inp F G c).of_eq h1 (by simp) with h | h
      · exact .inl h
      · exact .inr ⟨v', h, fun G' acc => manyCtxLoop_hang_stuck (bodyOK_runC inp c) (cag_runCF inp F G c) G' v' acc hs'⟩

/-- **a stalled path hangs with every pair of fuels** -/
theorem CStalls.hangF {inp : List Nat} {n : Node} {pos : Nat} (h : CStalls inp n pos) (F G : Nat) :
    n.runF F G inp pos = .res .hang := by
  obtain ⟨s, q, hc, hl⟩ := h
  induction hc with
  | refl n pos => exact hl.hangF F G
  | cstep hcall _ ih => exact hcall.hangF F G (ih hl)
  | pstep hcons =>
    simp only [CStuckAt] at hl
    simp only [Node.runF, Stalls.hangF ⟨_, _, hcons, hl⟩ F]

/-! ## 4. `hang` comes from nowhere else -/

theorem CChain.snoc {body : Option Val → Nat → CRes} {ctx : Val} {pos : Nat} {vs : List Val} {q : Nat} {last v : Val}
    {q' : Nat} (hc : CChain body ctx pos vs q last) (h : body (some last) q = .res (.ok v q')) :
    CChain body ctx pos (vs ++ [v]) q' v := by
  induction hc with
  | nil ctx pos => exact .cons h (.nil _ _)
  | cons h1 _ ih => exact .cons h1 (ih h)

/-- the `many_ctx` loop with enough fuel answers `hang` only if, after a chain of successful rounds, the body hangs or
the loop state repeats -/
theorem manyCtxLoop_hang_cases {len : Nat} {body : Option Val → Nat → CRes} (hb : BodyOK len body) :
    ∀ (F pos : Nat) (acc : List Val) (ctx : Val), pos ≤ len → 2 * (len - pos) + 2 < F →
    manyCtxLoop body F pos acc ctx = .res .hang →
    ∃ vs r last, CChain body ctx pos vs r last ∧ (body (some last) r = .res .hang ∨ Stuck2 body r last) := by
  intro F
  induction F using Nat.strongRecOn with
  | _ F ih =>
    intro pos acc ctx hpos hF h
    obtain ⟨n, rfl⟩ : ∃ n, F = n + 1 := ⟨F - 1, by omega⟩
    simp only [manyCtxLoop] at h
    cases h0 : body (some ctx) pos with
    | panic => rw [h0] at h; simp at h
    | res r0 =>
      cases r0 with
      | soft e q => rw [h0] at h; simp at h
      | fatal e q => rw [h0] at h; simp at h
      | hang => exact ⟨[], pos, ctx, .nil _ _, .inl h0⟩
      | ok v q =>
        rw [h0] at h; simp only at h
        have hq := (hb.mono (some ctx)).ok _ _ _ hpos h0
        by_cases hqp : q = pos
        · subst hqp
          obtain ⟨m, rfl⟩ : ∃ m, n = m + 1 := ⟨n - 1, by omega⟩
          simp only [manyCtxLoop] at h
          cases h1 : body (some v) q with
          | panic => rw [h1] at h; simp at h
          | res r1 =>
            cases r1 with
            | soft e q1 => rw [h1] at h; simp at h
            | fatal e q1 => rw [h1] at h; simp at h
            | hang => exact ⟨[v], q, v, .cons h0 (.nil _ _), .inl h1⟩
            | ok v2 q2 =>
              rw [h1] at h; simp only at h
              have hq2 := (hb.mono (some v)).ok _ _ _ hpos h1
              by_cases hq2p : q2 = q
              · subst hq2p
                by_cases h10 : bit v = bit ctx
                · exact ⟨[], q2, ctx, .nil _ _, .inr (Stuck2.of_same_bit hb h0 h10)⟩
                · by_cases h20 : bit v2 = bit ctx
                  · exact ⟨[], q2, ctx, .nil _ _, .inr ⟨v, v2, h0, h1, h20⟩⟩
                  · have h21 : bit v2 = bit v := by
                      cases hv2 : bit v2 <;> cases hv : bit v <;> cases hc : bit ctx <;> simp_all
                    exact ⟨[v], q2, v, .cons h0 (.nil _ _), .inr (Stuck2.of_same_bit hb h1 h21)⟩
              · obtain ⟨vs, r, last, hc, hr⟩ := ih m (by omega) q2 _ v2 hq2.2 (by omega) h
                exact ⟨v :: v2 :: vs, r, last, .cons h0 (.cons h1 hc), hr⟩
        · obtain ⟨vs, r, last, hc, hr⟩ := ih n (by omega) q _ v hq.2 (by omega) h
          exact ⟨v :: vs, r, last, .cons h0 hc, hr⟩

/-- **where a `hang` of a context expression comes from**: a called node that hangs, or this very `many_ctx` loop
not progressing -/
theorem chang_cases {inp : List Nat} : ∀ (c : CExpr) (env : Option Val) (pos : Nat), pos ≤ inp.length →
    runC c env inp pos = .res .hang →
    (∃ m q, CCalls inp c env pos m q ∧ m.run inp q = .res .hang) ∨ CStuckAt inp (.ce c env) pos := by
  intro c env pos hpos h
  cases c with
  | lift e => exact .inl ⟨.pe e, pos, .lift, by simpa [Node.run, runC] using h⟩
  | ctx => simp only [runC] at h; split at h <;> simp at h
  | iif l r =>
    simp only [runC] at h
    split at h
    · next v =>
      simp only [CRes.res.injEq] at h
      cases hv : (v == Val.sym 0) with
      | true => rw [hv] at h; exact .inl ⟨.pe l, pos, .iif_l hv, by simpa [Node.run] using h⟩
      | false => rw [hv] at h; exact .inl ⟨.pe r, pos, .iif_r hv, by simpa [Node.run] using h⟩
    · simp at h
  | mapCtx f c => exact .inl ⟨.ce c (env.map f.app), pos, .mapCtx, by simpa [Node.run, runC] using h⟩
  | noCtx c => exact .inl ⟨.ce c none, pos, .noCtx, by simpa [Node.run, runC] using h⟩
  | thenWith cmb l r =>
    simp only [runC] at h
    cases hl : runC l env inp pos with
    | panic => rw [hl] at h; simp at h
    | res x =>
      cases x with
      | ok a p1 =>
        rw [hl] at h; simp only at h
        cases hsp : setPanics r with
        | true => rw [hsp] at h; simp at h
        | false =>
          rw [hsp] at h; simp only [Bool.false_eq_true, if_false] at h
          cases hr : runC r (some a) inp p1 with
          | panic => rw [hr] at h; simp at h
          | res y =>
            cases y with
            | hang => exact .inl ⟨.ce r (some a), p1, .thenWith_r hl hsp, by simpa [Node.run] using hr⟩
            | ok b p2 => rw [hr] at h; simp at h
            | soft e p2 => rw [hr] at h; simp at h
            | fatal e p2 => rw [hr] at h; simp at h
      | soft e q => rw [hl] at h; simp at h
      | fatal e q => rw [hl] at h; simp at h
      | hang => exact .inl ⟨.ce l env, pos, .thenWith_l, by simpa [Node.run] using hl⟩
  | manyCtx an c =>
    simp only [runC] at h
    cases hsp : setPanics c with
    | true => rw [hsp] at h; simp at h
    | false =>
      rw [hsp] at h; simp only [Bool.false_eq_true, if_false] at h
      cases h0 : runC c (some .nil) inp pos with
      | panic => rw [h0] at h; simp at h
      | res x =>
        cases x with
        | ok v q =>
          rw [h0] at h; simp only at h
          have hq := ((runC_mono inp c (some .nil)).ok _ _ _ hpos h0).2
          obtain ⟨vs, r, last, hc, hr⟩ :=
            manyCtxLoop_hang_cases (bodyOK_runC inp c) _ q _ v hq (by omega) h
          have hc' : CChain (fun en p => runC c en inp p) .nil pos (v :: vs) r last := .cons h0 hc
          rcases hr with hr | hr
          · exact .inl ⟨.ce c (some last), r, .manyCtx hsp hc', by simpa [Node.run] using hr⟩
          · exact .inr ⟨hsp, v :: vs, r, last, hc', hr⟩
        | soft e q => rw [h0] at h; cases an <;> simp at h
        | fatal e q => rw [h0] at h; simp at h
        | hang =>
          exact .inl ⟨.ce c (some .nil), pos, .manyCtx hsp (.nil _ _), by simpa [Node.run] using h0⟩
  | and cmb l r =>
    simp only [runC] at h
    cases hl : runC l env inp pos with
    | panic => rw [hl] at h; simp at h
    | res x =>
      cases x with
      | ok a p1 =>
        rw [hl] at h; simp only at h
        cases hr : runC r env inp p1 with
        | panic => rw [hr] at h; simp at h
        | res y =>
          cases y with
          | hang => exact .inl ⟨.ce r env, p1, .and_r hl, by simpa [Node.run] using hr⟩
          | ok b p2 => rw [hr] at h; simp at h
          | soft e p2 => rw [hr] at h; simp at h
          | fatal e p2 => rw [hr] at h; simp at h
      | soft e q => rw [hl] at h; simp at h
      | fatal e q => rw [hl] at h; simp at h
      | hang => exact .inl ⟨.ce l env, pos, .and_l, by simpa [Node.run] using hl⟩
  | or2 a b =>
    simp only [runC] at h
    cases ha : runC a env inp pos with
    | panic => rw [ha] at h; simp at h
    | res x =>
      cases x with
      | soft e q => rw [ha] at h; simp only at h; exact .inl ⟨.ce b env, pos, .or2_b ha, by simpa [Node.run] using h⟩
      | ok v q => rw [ha] at h; simp at h
      | fatal e q => rw [ha] at h; simp at h
      | hang => exact .inl ⟨.ce a env, pos, .or2_a, by simpa [Node.run] using ha⟩
  | seq2 a b =>
    simp only [runC] at h
    cases ha : runC a env inp pos with
    | panic => rw [ha] at h; simp at h
    | res x =>
      cases x with
      | ok v q =>
        rw [ha] at h; simp only at h
        cases hb : runC b env inp q with
        | panic => rw [hb] at h; simp at h
        | res y =>
          cases y with
          | hang => exact .inl ⟨.ce b env, q, .seq2_b ha, by simpa [Node.run] using hb⟩
          | ok w q2 => rw [hb] at h; simp at h
          | soft e q2 => rw [hb] at h; simp at h
          | fatal e q2 => rw [hb] at h; simp at h
      | soft e q => rw [ha] at h; simp at h
      | fatal e q => rw [ha] at h; simp at h
      | hang => exact .inl ⟨.ce a env, pos, .seq2_a, by simpa [Node.run] using ha⟩
  | map f c =>
    simp only [runC] at h
    cases hc : runC c env inp pos with
    | panic => rw [hc] at h; simp at h
    | res x =>
      cases x with
      | hang => exact .inl ⟨.ce c env, pos, .map, by simpa [Node.run] using hc⟩
      | ok v q => rw [hc] at h; simp at h
      | soft e q => rw [hc] at h; simp at h
      | fatal e q => rw [hc] at h; simp at h

/-- number of nodes of a context expression -/
def csize : CExpr → Nat
  | .lift _ | .ctx | .iif _ _ => 1
  | .mapCtx _ c | .noCtx c | .manyCtx _ c | .map _ c => csize c + 1
  | .thenWith _ l r | .and _ l r | .or2 l r | .seq2 l r => csize l + csize r + 1

def Node.size : Node → Nat
  | .ce c _ => csize c
  | .pe _ => 0

theorem CCalls.size_lt {inp : List Nat} {c : CExpr} {env : Option Val} {pos : Nat} {m : Node} {q : Nat}
    (h : CCalls inp c env pos m q) : m.size < csize c := by
  cases h <;> simp [Node.size, csize] <;> omega

/-- **`hang` only by stalling** (context model) -/
theorem cstalls_of_hang {inp : List Nat} : ∀ (n : Nat) (c : CExpr), csize c < n → ∀ env pos, pos ≤ inp.length →
    runC c env inp pos = .res .hang → CStalls inp (.ce c env) pos := by
  intro n
  induction n with
  | zero => intro c h; omega
  | succ n ih =>
    intro c hn env pos hpos h
    rcases chang_cases c env pos hpos h with ⟨m, q, hcall, hm⟩ | hstuck
    · have hq := hcall.pos_le hpos
      cases m with
      | ce c' env' =>
        have hlt := hcall.size_lt
        simp only [Node.size] at hlt
        obtain ⟨s, q', hcons, hl⟩ := ih c' (by omega) env' q hq (by simpa [Node.run] using hm)
        exact ⟨s, q', .cstep hcall hcons, hl⟩
      | pe e =>
        simp only [Node.run, CRes.res.injEq] at hm
        obtain ⟨s, q', hcons, hl⟩ := (hang_iff_stalls inp e q hq).1 hm
        exact ⟨.pe s, q', .cstep hcall (.pstep hcons), hl⟩
    · exact ⟨.ce c env, pos, .refl _ _, hstuck⟩

/-! ## 5. The statements -/

/-- **`chang_iff_stalls`.** From a start position inside the input and under any context, the context model answers
`hang` exactly when the evaluation reaches a non-progressing loop. -/
theorem chang_iff_stalls (inp : List Nat) (c : CExpr) (env : Option Val) (pos : Nat) (hpos : pos ≤ inp.length) :
    runC c env inp pos = .res .hang ↔ CStalls inp (.ce c env) pos := by
  constructor
  · exact cstalls_of_hang (csize c + 1) c (by omega) env pos hpos
  · intro h
    have := h.hangF (inp.length + 3) (2 * inp.length + 5)
    simpa [Node.runF, runCF_model] using this

/-- the fuels of the model are exact for whole context expressions -/
theorem runCF_exact (inp : List Nat) (c : CExpr) (env : Option Val) (pos : Nat) (hpos : pos ≤ inp.length) (F G : Nat)
    (hF : inp.length + 3 ≤ F) (hG : 2 * inp.length + 5 ≤ G) : runCF F G c env inp pos = runC c env inp pos := by
  by_cases h : runC c env inp pos = .res .hang
  · rw [h]
    have := ((chang_iff_stalls inp c env pos hpos).1 h).hangF F G
    simpa [Node.runF] using this
  · have := runCF_le inp hF hG c env pos
    rw [runCF_model] at this
    rcases this with h1 | h1
    · exact absurd h1 h
    · exact h1.symm

/-- **`runC_fuel_exact`** (context model) — every expression, every context, every input, every start position
inside it:
1. an answer other than `hang` (a result or a panic) with loop fuels `F G` is the answer with all larger fuels;
2. all fuels from `len + 3` / `2 * len + 5` on give the model's answer (so the bound of the `many_ctx` loop, so far
   argued and tested, is exact);
3. the answer is `hang` at every pair of fuels iff the evaluation path reaches a non-progressing loop (`CStalls`) —
   otherwise the model's answer is not `hang`. -/
theorem runC_fuel_exact (inp : List Nat) (c : CExpr) (env : Option Val) (pos : Nat) (hpos : pos ≤ inp.length) :
    (∀ F F' G G', F ≤ F' → G ≤ G' → runCF F G c env inp pos ≠ .res .hang →
      runCF F' G' c env inp pos = runCF F G c env inp pos) ∧
    (∀ F G, inp.length + 3 ≤ F → 2 * inp.length + 5 ≤ G → runCF F G c env inp pos = runC c env inp pos) ∧
    ((∀ F G, runCF F G c env inp pos = .res .hang) ↔ CStalls inp (.ce c env) pos) ∧
    (¬ CStalls inp (.ce c env) pos → runC c env inp pos ≠ .res .hang) := by
  refine ⟨fun F F' G G' hF hG h => runC_fuel_mono inp c env pos hF hG h,
    fun F G hF hG => runCF_exact inp c env pos hpos F G hF hG, ⟨fun h => ?_, fun h F G => ?_⟩,
    fun hns h => hns ((chang_iff_stalls inp c env pos hpos).1 h)⟩
  · have := h (inp.length + 3) (2 * inp.length + 5)
    rw [runCF_model] at this
    exact (chang_iff_stalls inp c env pos hpos).1 this
  · simpa [Node.runF] using h.hangF F G

/-- what the caller observes (`runTop`), every top context: `hang` iff the path stalls (no panic at the top) -/
theorem runTop_hang_iff_stalls (inp : List Nat) (c : CExpr) (top : Option Val) (pos : Nat) (hpos : pos ≤ inp.length)
    (hsp : (top.isSome && setPanics c) = false) :
    runTop c top inp pos = .res .hang ↔ CStalls inp (.ce c top) pos := by
  simp only [runTop, hsp, Bool.false_eq_true, if_false]
  exact chang_iff_stalls inp c top pos hpos

/-! ### the hypotheses are satisfiable -/

/-- `peek any >>= (iif (wrap (peek any)) (peek any))*` on `a`: the `many_ctx` alternates between the two bits at
position 0 without consuming: the path stalls and the model answers `hang` -/
example : CStalls [0] (.ce (.thenWith .right (.lift .peekAny) (.manyCtx false (.iif (.map .wrap .peekAny) .peekAny))) none) 0 :=
  ⟨.ce (.manyCtx false (.iif (.map .wrap .peekAny) .peekAny)) (some (.sym 0)), 0,
    .cstep (.thenWith_r (a := .sym 0) (p1 := 0) (by decide) (by decide)) (.refl _ _),
    by decide, [.sym 0], 0, .sym 0, .cons (v := .sym 0) (q := 0) (by decide) (.nil _ _),
    ⟨.some (.sym 0), .sym 0, by decide, by decide, rfl⟩⟩

/-- with the loop fuel 1 a terminating `many_ctx` reads `hang`; from the model's fuels on the answer is the model's -/
example : runCF 5 1 (.manyCtx false (.iif (.one 0) (.oneOf [0, 1]))) none [1, 0, 0] 0 = .res .hang ∧
    runCF 5 3 (.manyCtx false (.iif (.one 0) (.oneOf [0, 1]))) none [1, 0, 0] 0 =
      .res (.ok (Val.ofList [.sym 1, .sym 0, .sym 0]) 3) ∧
    runC (.manyCtx false (.iif (.one 0) (.oneOf [0, 1]))) none [1, 0, 0] 0 =
      .res (.ok (Val.ofList [.sym 1, .sym 0, .sym 0]) 3) := by decide

end RbThm.C20
