import Thm.ErrLSimBase
/-!
Error layer, simulation part: sequences (and the two empty statements), ported from `Thm/JmpLSimSeq.lean`.

`seq a b` shows the jump discipline (entered from its first instruction or at a label inside `a` or inside `b`; a jump out
of `a` or `b` to a label inside the sequence re-enters the sequence in seek mode: `restart_seek`) and the one new point of
this layer: `a` may end `normal`ly not at its last address but at the entry that *follows* it in the statement-address table
(RESUME NEXT / ON ERROR RESUME NEXT after `a`'s last unit).  By `marks_seq` that entry is `b`'s first instruction — unless
`b` has no entries at all (comments only), then it is what follows the sequence, and `b` does nothing (`seq_noMarks_run`).
-/
namespace RbThm.ErrLSim
set_option linter.unusedVariables false
set_option linter.unusedSimpArgs false
open RbModel RbModel.Num RbModel.ErrL RbModel.ErrL.Compile RbModel.ErrL.Vm
open RbModel.JmpL.Compile (CInstr Code labelName compileExpr compileExprTo storeVar loadVar compileItems compileConds
  sizeCaseExpr sizeItems sizeConds Dp lookupNat lookupDepth stepSuffix maxPos)
open RbModel.JmpL.Vm (Vm truncTop)
open RbModel.Ast (Pos PrintItem CaseExpr)
open RbModel.Ref (St)
open RbModel.ErrL.Ref
open RbThm.ErrLLen
open RbThm.C01Sim (Typed SlotsBelow ExprWt NumericAt NumericCond ItemsSlots CaseSlots CondsSlots)

/-- the entry state is an exit state of an empty run -/
theorem seq_refl_normal {C : Ctx} {d e vb gd fin nx : Nat} {σ : EVm} {s : ESt}
    (hpc : σ.b.pc = fin ∨ (σ.b.pc = nx ∧ σ.errAddr = none))
    (hr : ERel C.sl C.env s σ) (hi : Inv C d e vb gd σ) : StmtSpec C d e vb fin nx σ (s, .normal) :=
  ⟨σ, Steps.refl σ, hpc, hr, rfl, ⟨hi.he, fun _ => by simp⟩, rfl, rfl, rfl⟩

theorem case_skip (C : Ctx) (hC : C.Ok) (fuel : Nat) (ih : StmtIHle C fuel)
    (sfx : String) (d e off nx vb gd : Nat) (m : Mode) (σ : EVm) (s : ESt)
    (hc : CodeAt C.prog.code off (compileStmt C.env sfx d e off .skip))
    (hl : LabAt C.env d e off .skip) (hw : Wf C.sl C.env.dp C.rl d e .skip)
    (hm : MarksAt C.prog.marks (marksStmt C.env.dp d e off .skip) nx) (hnx : off + sizeStmt C.env.dp d e .skip ≤ nx)
    (hen : Entry C.env off .skip m σ) (hr : ERel C.sl C.env s σ) (hi : Inv C d e vb gd σ) :
    StmtSpec C d e vb (off + sizeStmt C.env.dp d e .skip) nx σ (exec (fuel + 1) C.P gd (desugar .skip) m s) := by
  obtain ⟨rfl, hpc⟩ := hen.of_nolabels rfl
  simp only [desugar, exec, sizeStmt]
  exact seq_refl_normal (.inl (by omega)) hr hi

theorem case_comment (C : Ctx) (hC : C.Ok) (fuel : Nat) (ih : StmtIHle C fuel)
    (sfx : String) (d e off nx vb gd : Nat) (m : Mode) (σ : EVm) (s : ESt)
    (hc : CodeAt C.prog.code off (compileStmt C.env sfx d e off .comment))
    (hl : LabAt C.env d e off .comment) (hw : Wf C.sl C.env.dp C.rl d e .comment)
    (hm : MarksAt C.prog.marks (marksStmt C.env.dp d e off .comment) nx) (hnx : off + sizeStmt C.env.dp d e .comment ≤ nx)
    (hen : Entry C.env off .comment m σ) (hr : ERel C.sl C.env s σ) (hi : Inv C d e vb gd σ) :
    StmtSpec C d e vb (off + sizeStmt C.env.dp d e .comment) nx σ (exec (fuel + 1) C.P gd (desugar .comment) m s) := by
  obtain ⟨rfl, hpc⟩ := hen.of_nolabels rfl
  simp only [desugar, exec, sizeStmt]
  exact seq_refl_normal (.inl (by omega)) hr hi

/-- the jump-handling rule of a construct, as the reference semantics writes it (`match r with | (s', .jump L) => if … then
restart else pass | r => r`), given the specification of the part's result relative to the construct's entry state -/
theorem catch_spec {C : Ctx} {fuel : Nat} (ih : StmtIH C fuel) {stmt : SStmt} {sfx : String} {d e off nx vb gd : Nat}
    {σ : EVm} (hc : CodeAt C.prog.code off (compileStmt C.env sfx d e off stmt)) (hl : LabAt C.env d e off stmt)
    (hw : Wf C.sl C.env.dp C.rl d e stmt) (hm : MarksAt C.prog.marks (marksStmt C.env.dp d e off stmt) nx)
    (hnx : off + sizeStmt C.env.dp d e stmt ≤ nx) (hi : Inv C d e vb gd σ)
    (r1 : ESt × Outcome) (h1 : StmtSpec C d e vb (off + sizeStmt C.env.dp d e stmt) nx σ r1)
    (hdep : ∀ s' L, r1 = (s', .jump L) → C.env.dp.fd L ≤ d ∧ C.env.dp.sd L ≤ e) :
    StmtSpec C d e vb (off + sizeStmt C.env.dp d e stmt) nx σ
      (match (generalizing := false) r1 with
       | (s', .jump L) =>
         if (desugar stmt).hasLabel L = true then exec fuel C.P gd (desugar stmt) (.seek L) s' else (s', .jump L)
       | r => r) := by
  obtain ⟨s1, o1⟩ := r1
  cases o1 with
  | jump L =>
    simp only
    by_cases hL : (desugar stmt).hasLabel L = true
    · simp only [hL, if_true]
      exact restart_seek ih hc hl hw hm hnx hi h1 (hdep _ _ rfl) ((hasLabel_iff hw L).mp hL)
    · simp only [hL]
      exact h1
  | normal => exact h1
  | halted => exact h1
  | ret p => exact h1
  | resumed k => exact h1
  | error c p => exact h1
  | inexact => trivial
  | outOfFuel => trivial
  | illFormed => trivial
  | unspec => trivial
  | notHere => trivial

/-- a statement without entries in the statement-address table (comments only) does nothing -/
theorem seq_noMarks_run (dp : Dp) : ∀ (b : SStmt) (d e off : Nat), marksStmt dp d e off b = [] →
    ∀ (fuel : Nat) (P : Stmt) (gd : Nat) (s : ESt),
      exec fuel P gd (desugar b) .run s = (s, .normal) ∨ exec fuel P gd (desugar b) .run s = (s, .outOfFuel)
  | .skip, _, _, _, _, fuel, P, gd, s => by cases fuel <;> simp [desugar, exec]
  | .comment, _, _, _, _, fuel, P, gd, s => by cases fuel <;> simp [desugar, exec]
  | .seq a b, d, e, off, h, fuel, P, gd, s => by
    simp only [marksStmt, List.append_eq_nil_iff] at h
    cases fuel with
    | zero => right; simp only [desugar, exec]
    | succ f =>
      rcases seq_noMarks_run dp a d e off h.1 f P gd s with ha | ha
      · rcases seq_noMarks_run dp b d e _ h.2 f P gd s with hb | hb
        · left; simp only [desugar, exec, Mode.enters, ha, hb, if_true]
        · right; simp only [desugar, exec, Mode.enters, ha, hb, if_true]
      · right; simp only [desugar, exec, Mode.enters, ha, if_true]
  | .dim .., _, _, _, h, _, _, _, _ => by simp [marksStmt] at h
  | .assign .., _, _, _, h, _, _, _, _ => by simp [marksStmt] at h
  | .print .., _, _, _, h, _, _, _, _ => by simp [marksStmt] at h
  | .data .., _, _, _, h, _, _, _, _ => by simp [marksStmt] at h
  | .read .., _, _, _, h, _, _, _, _ => by simp [marksStmt] at h
  | .ifBlock .., _, _, _, h, _, _, _, _ => by simp [marksStmt] at h
  | .select .., _, _, _, h, _, _, _, _ => by simp [marksStmt] at h
  | .forLoop _ _ _ _ none _ _, _, _, _, h, _, _, _, _ => by simp [marksStmt] at h
  | .forLoop _ _ _ _ (some _) _ _, _, _, _, h, _, _, _, _ => by simp [marksStmt] at h
  | .while .., _, _, _, h, _, _, _, _ => by simp [marksStmt] at h
  | .doLoop _ true _ _ _, _, _, _, h, _, _, _, _ => by simp [marksStmt] at h
  | .doLoop _ false _ _ _, _, _, _, h, _, _, _, _ => by simp [marksStmt] at h
  | .end_ .., _, _, _, h, _, _, _, _ => by simp [marksStmt] at h
  | .label .., _, _, _, h, _, _, _, _ => by simp [marksStmt] at h
  | .goto .., _, _, _, h, _, _, _, _ => by simp [marksStmt] at h
  | .gosub .., _, _, _, h, _, _, _, _ => by simp [marksStmt] at h
  | .ret .., _, _, _, h, _, _, _, _ => by simp [marksStmt] at h
  | .onErrorGoto .., _, _, _, h, _, _, _, _ => by simp [marksStmt] at h
  | .onErrorResumeNext .., _, _, _, h, _, _, _, _ => by simp [marksStmt] at h
  | .onErrorGoto0 .., _, _, _, h, _, _, _, _ => by simp [marksStmt] at h
  | .resume .., _, _, _, h, _, _, _, _ => by simp [marksStmt] at h
  | .resumeNext .., _, _, _, h, _, _, _, _ => by simp [marksStmt] at h
  | .resumeLabel .., _, _, _, h, _, _, _, _ => by simp [marksStmt] at h

/-- the entry state of the second part of a sequence, after the first part ended `normal`ly -/
theorem seq_inv_after {C : Ctx} {d e vb gd : Nat} {σ τ : EVm} (hi : Inv C d e vb gd σ)
    (e1 : τ.b.regStack = σ.b.regStack) (e2 : ValsOk vb e 0 σ τ) (e4 : τ.b.gosubs = σ.b.gosubs) (e5 : HKeep σ τ) :
    Inv C d e vb gd τ :=
  hi.congr e1 e2.1 e4 e5.addr

theorem case_seq (C : Ctx) (hC : C.Ok) (fuel : Nat) (ih : StmtIHle C fuel) (a b : SStmt)
    (sfx : String) (d e off nx vb gd : Nat) (m : Mode) (σ : EVm) (s : ESt)
    (hc : CodeAt C.prog.code off (compileStmt C.env sfx d e off (.seq a b)))
    (hl : LabAt C.env d e off (.seq a b)) (hw : Wf C.sl C.env.dp C.rl d e (.seq a b))
    (hm : MarksAt C.prog.marks (marksStmt C.env.dp d e off (.seq a b)) nx)
    (hnx : off + sizeStmt C.env.dp d e (.seq a b) ≤ nx)
    (hen : Entry C.env off (.seq a b) m σ) (hr : ERel C.sl C.env s σ) (hi : Inv C d e vb gd σ) :
    StmtSpec C d e vb (off + sizeStmt C.env.dp d e (.seq a b)) nx σ
      (exec (fuel + 1) C.P gd (desugar (.seq a b)) m s) := by
  have ih0 : StmtIH C fuel := ih.self
  have hcs := hc
  simp only [compileStmt] at hc
  have hw0 := hw
  obtain ⟨hwa, hwb⟩ := hw
  obtain ⟨hla, hlb⟩ := hl.seq
  obtain ⟨hmb, hma⟩ := marks_seq hm
  have hcb : CodeAt C.prog.code (off + sizeStmt C.env.dp d e a)
      (compileStmt C.env sfx d e (off + sizeStmt C.env.dp d e a) b) := by
    have := hc.append_right
    rwa [len_stmt] at this
  have hfin : off + sizeStmt C.env.dp d e a + sizeStmt C.env.dp d e b = off + sizeStmt C.env.dp d e (.seq a b) := by
    simp only [sizeStmt]; omega
  have hnxb : off + sizeStmt C.env.dp d e a + sizeStmt C.env.dp d e b ≤ nx := by rw [hfin]; exact hnx
  -- the sequence is entered
  have hent : m.enters (desugar (.seq a b)) = true := by
    cases m with
    | run => rfl
    | seek L => exact (hasLabel_iff hw0 L).mpr hen.1
  -- `b`, entered either way
  have hbspec : ∀ (mb : Mode) (τ : EVm) (sb : ESt), Entry C.env (off + sizeStmt C.env.dp d e a) b mb τ →
      ERel C.sl C.env sb τ → Inv C d e vb gd τ →
      StmtSpec C d e vb (off + sizeStmt C.env.dp d e (.seq a b)) nx τ (exec fuel C.P gd (desugar b) mb sb) := by
    intro mb τ sb hen' hr' hi'
    have := ih0 b sfx d e _ nx vb gd mb τ sb hcb hlb hwb hmb hnxb hen' hr' hi'
    exact this.addr hfin
  -- what the two parts do, before the jump-handling rule
  have hinner : StmtSpec C d e vb (off + sizeStmt C.env.dp d e (.seq a b)) nx σ
      (if m.enters (desugar a) = true then
        match exec fuel C.P gd (desugar a) m s with
        | (s', .normal) => exec fuel C.P gd (desugar b) .run s'
        | r => r
      else exec fuel C.P gd (desugar b) m s) ∧
      ∀ s' L, (if m.enters (desugar a) = true then
        match exec fuel C.P gd (desugar a) m s with
        | (s', .normal) => exec fuel C.P gd (desugar b) .run s'
        | r => r
      else exec fuel C.P gd (desugar b) m s) = (s', .jump L) → C.env.dp.fd L ≤ d ∧ C.env.dp.sd L ≤ e := by
    by_cases hea : m.enters (desugar a) = true
    · simp only [hea, if_true]
      have hena : Entry C.env off a m σ := by
        cases m with
        | run => exact hen
        | seek L => exact ⟨(hasLabel_iff hwa L).mp hea, hen.2⟩
      -- the result of `a`, whatever entry follows it; its `normal` exit is at `b`'s first instruction or — only when `b`
      -- has no entries — at `nx`
      have ha : ∃ nxa, StmtSpec C d e vb (off + sizeStmt C.env.dp d e a) nxa σ (exec fuel C.P gd (desugar a) m s) ∧
          (nxa = off + sizeStmt C.env.dp d e a ∨
            (nxa = nx ∧ marksStmt C.env.dp d e (off + sizeStmt C.env.dp d e a) b = [] ∧ sizeStmt C.env.dp d e b = 0)) := by
        rcases hma with hma | ⟨hb0, hsz, hma⟩
        · exact ⟨_, ih0 a sfx d e off _ vb gd m σ s hc.append_left hla hwa hma (Nat.le_refl _) hena hr hi, .inl rfl⟩
        · exact ⟨nx, ih0 a sfx d e off nx vb gd m σ s hc.append_left hla hwa hma (by omega) hena hr hi, .inr ⟨rfl, hb0, hsz⟩⟩
      obtain ⟨nxa, ha, hnxa⟩ := ha
      generalize hra : exec fuel C.P gd (desugar a) m s = ra at ha ⊢
      obtain ⟨s1, o1⟩ := ra
      cases o1 with
      | normal =>
        obtain ⟨τ, st, hp, hrel, a1, a2, a3, a4, a5⟩ := ha
        simp only
        have hiτ : Inv C d e vb gd τ := seq_inv_after hi a1 a2 a4 a5
        refine ⟨StmtSpec.after st a1 a2 a3 a4 a5 ?_, fun s' L h => (Ctx.Ok.jump_depths hC.shape hwb hlb h).2⟩
        rcases hnxa with rfl | ⟨rfl, hb0, hsz⟩
        · exact hbspec .run τ s1 (by rcases hp with h | ⟨h, _⟩ <;> exact h) hrel hiτ
        · -- `b` is comments only
          have hpc : τ.b.pc = off + sizeStmt C.env.dp d e (.seq a b) ∨ (τ.b.pc = nxa ∧ τ.errAddr = none) := by
            rcases hp with h | ⟨h, hn⟩
            · left; rw [h, ← hfin, hsz]; rfl
            · right; exact ⟨h, a5.addr.trans hn⟩
          rcases seq_noMarks_run C.env.dp b d e _ hb0 fuel C.P gd s1 with hb | hb
          · rw [hb]; exact seq_refl_normal hpc hrel hiτ
          · rw [hb]; trivial
      | jump L => exact ⟨ha, fun s' L' h => by cases h; exact (Ctx.Ok.jump_depths hC.shape hwa hla hra).2⟩
      | halted => exact ⟨ha, fun s' L' h => by cases h⟩
      | ret p => exact ⟨ha, fun s' L' h => by cases h⟩
      | resumed k => exact ⟨ha, fun s' L' h => by cases h⟩
      | error c p => exact ⟨ha, fun s' L' h => by cases h⟩
      | inexact => exact ⟨trivial, fun s' L' h => by cases h⟩
      | outOfFuel => exact ⟨trivial, fun s' L' h => by cases h⟩
      | illFormed => exact ⟨trivial, fun s' L' h => by cases h⟩
      | unspec => exact ⟨trivial, fun s' L' h => by cases h⟩
      | notHere => exact ⟨trivial, fun s' L' h => by cases h⟩
    · simp only [hea]
      -- seek mode, and the label is in `b`
      cases m with
      | run => exact absurd rfl hea
      | seek L =>
        have hLa : L ∉ a.labels := fun h => hea ((hasLabel_iff hwa L).mpr h)
        have hLb : L ∈ b.labels := by
          have := hen.1
          simp only [SStmt.labels, List.mem_append] at this
          exact this.resolve_left hLa
        exact ⟨hbspec (.seek L) σ s ⟨hLb, hen.2⟩ hr hi,
          fun s' L' h => (Ctx.Ok.jump_depths hC.shape hwb hlb h).2⟩
  have := catch_spec ih0 hcs hl hw0 hm hnx hi _ hinner.1 hinner.2
  simp only [desugar] at hent this ⊢
  simp only [exec, hent, if_true]
  exact this

end RbThm.ErrLSim
