import Thm.ProcArrSimBase
/-!
Procedures layer, simulation part — the expression cases: literal, variable, unary and binary operators, parentheses,
function call (from the call hypothesis `CallIH`).
-/
namespace RbThm.ProcArrSim
set_option linter.unusedVariables false
set_option linter.unusedSimpArgs false
open RbModel RbModel.Num RbModel.ProcArr RbModel.ProcArr.Compile RbModel.ProcArr.Vm
open RbModel.Ast (Pos)
open RbThm.ProcArrLen

theorem case_lit (W : World) (fuel : Nat) (v : Val) (p : Pos) (sc : Scope) (off : Nat) (pre below : List CtxState)
    (s : St) (σ : Vm) (hc : CodeAt W.code off (compileExpr W.lay off (.lit v p))) (hpc : σ.pc = off)
    (hr : Rel W sc pre below s σ) :
    ExprPost W sc pre below (sizeExpr (.lit v p)) (ProcArr.Expr.lit v p).ty off σ
      (ProcArr.Ref.eval W.P (fuel + 1) (.lit v p) s) := by
  simp only [compileExpr] at hc
  have h0 : W.code[σ.pc]? = some (CInstr.loadA v, p) := by rw [hpc]; exact hc.head
  simp only [ProcArr.Ref.eval, ExprPost, sizeExpr, ProcArr.Expr.ty]
  refine ⟨Vm.advance (Vm.setA σ v), Steps.one ?_, by simp [Vm.advance, Vm.setA, hpc], rfl, (hr.setA v).advance,
    ⟨rfl, rfl, rfl, rfl, rfl, rfl, id⟩, trivial⟩
  simp only [Vm.step, h0]

theorem case_var (W : World) (fuel : Nat) (x : Var) (t : Ty) (p : Pos) (sc : Scope) (off : Nat)
    (pre below : List CtxState) (s : St) (σ : Vm) (hc : CodeAt W.code off (compileExpr W.lay off (.var x t p)))
    (hpc : σ.pc = off) (hr : Rel W sc pre below s σ) (hw : EWf W.sg sc.slots (.var x t p)) :
    ExprPost W sc pre below (sizeExpr (.var x t p)) (ProcArr.Expr.var x t p).ty off σ
      (ProcArr.Ref.eval W.P (fuel + 1) (.var x t p) s) := by
  simp only [EWf] at hw
  have hc' : CodeAt W.code σ.pc (loadVar x t p) := by rw [hpc]; exact hc
  have st := var_steps W sc pre below s x t p σ hc' hr hw
  simp only [ProcArr.Ref.eval, ExprPost, sizeExpr, ProcArr.Expr.ty]
  exact ⟨_, st, by simp [loadSt, hpc], rfl, hr.loadSt _, SameStacks.loadSt σ _,
    hr.get_tag hw⟩

/-- an instruction that rewrites A by a `Res`-valued operation, after an expression whose value is in A -/
theorem after_resA (W : World) (sc : Scope) (pre below : List CtxState) (σ τ : Vm) (s1 : St) (p : Pos)
    (r : Res Val) (n : Nat) (off : Nat) (ty : Ty) (st : Steps W.code σ τ) (hp : τ.pc = off + n)
    (hrel : Rel W sc pre below s1 τ) (hss : SameStacks σ τ) (hs : Vm.step W.code τ = Vm.resA τ p r)
    (htag : ∀ w, r = .ok w → w.tag = ty) :
    ExprPost W sc pre below (n + 1) ty off σ (ProcArr.Ref.liftR s1 p r) := by
  cases hr : r with
  | ok w =>
    simp only [ProcArr.Ref.liftR, ExprPost]
    exact ⟨_, st.trans (resA_ok hs hr), by simp [Vm.advance, Vm.setA, hp]; omega, rfl, (hrel.setA w).advance,
      hss.trans ⟨rfl, rfl, rfl, rfl, rfl, rfl, id⟩, htag w hr⟩
  | err e =>
    simp only [ProcArr.Ref.liftR, ExprPost, ErrPost]
    rw [← hrel.out]
    exact ErrsWith.of_steps st (resA_err hs hr)
  | inexact => simp only [ProcArr.Ref.liftR, ExprPost, ErrPost]

theorem case_un (W : World) (fuel : Nat) (ih : IHle W fuel) (op : UnOp) (e : ProcArr.Expr) (p : Pos) (sc : Scope)
    (off : Nat) (pre below : List CtxState) (s : St) (σ : Vm)
    (hc : CodeAt W.code off (compileExpr W.lay off (.un op e p))) (hpc : σ.pc = off) (hr : Rel W sc pre below s σ)
    (hw : EWf W.sg sc.slots (.un op e p)) :
    ExprPost W sc pre below (sizeExpr (.un op e p)) (ProcArr.Expr.un op e p).ty off σ
      (ProcArr.Ref.eval W.P (fuel + 1) (.un op e p) s) := by
  simp only [EWf] at hw
  have hce : CodeAt W.code off (compileExpr W.lay off e) := by
    cases op <;> (simp only [compileExpr] at hc; exact hc.append_left)
  have he := ih.self.expr sc e off pre below s σ hce hpc hr hw
  simp only [ProcArr.Ref.eval, sizeExpr, ProcArr.Expr.ty]
  generalize ProcArr.Ref.eval W.P fuel e s = r at he ⊢
  obtain ⟨s1, rv⟩ := r
  cases rv with
  | error o => exact he
  | ok v =>
    obtain ⟨τ, st, hp, ha, hrel, hss, htag⟩ := he
    simp only
    cases op with
    | neg =>
      simp only [compileExpr] at hc
      have hi : W.code[τ.pc]? = some (CInstr.negateA, p) := by
        have := hc.append_right.head
        rw [len_expr] at this
        rw [hp]; exact this
      refine after_resA W sc pre below σ τ s1 p (negate v) (sizeExpr e) off e.ty st hp hrel hss ?_ ?_
      · simp only [Vm.step, hi, ha]
      · intro w hw'
        rw [RbThm.C01Sim.SimRead.negate_tag v w hw']; exact htag
    | not =>
      simp only [compileExpr] at hc
      have hi : W.code[τ.pc]? = some (CInstr.notA, p) := by
        have := hc.append_right.head
        rw [len_expr] at this
        rw [hp]; exact this
      refine after_resA W sc pre below σ τ s1 p (unaryNot v) (sizeExpr e) off e.ty st hp hrel hss ?_ ?_
      · simp only [Vm.step, hi, ha]
      · intro w hw'
        rw [RbThm.C01Sim.SimRead.unaryNot_tag v w hw']; exact htag

theorem case_paren (W : World) (fuel : Nat) (ih : IHle W fuel) (e : ProcArr.Expr) (p : Pos) (sc : Scope)
    (off : Nat) (pre below : List CtxState) (s : St) (σ : Vm)
    (hc : CodeAt W.code off (compileExpr W.lay off (.paren e p))) (hpc : σ.pc = off) (hr : Rel W sc pre below s σ)
    (hw : EWf W.sg sc.slots (.paren e p)) :
    ExprPost W sc pre below (sizeExpr (.paren e p)) (ProcArr.Expr.paren e p).ty off σ
      (ProcArr.Ref.eval W.P (fuel + 1) (.paren e p) s) := by
  simp only [EWf] at hw
  simp only [compileExpr] at hc
  simp only [ProcArr.Ref.eval, sizeExpr, ProcArr.Expr.ty]
  exact ih.self.expr sc e off pre below s σ hc hpc hr hw

/-- `binStep` of the reference semantics is the VM's operator instruction followed, for `/`, by the `Cast` the generator
emits -/
theorem binStep_eq (op : Op) (t : Ty) (a b : Val) :
    ProcArr.Ref.binStep op t a b =
      (if op = .divide then (Vm.binInstr op a b).bind (fun q => cast q t) else Vm.binInstr op a b) := by
  cases op <;> simp [ProcArr.Ref.binStep, RbModel.Ref.binStep, Vm.binInstr]

/-- the value of an operator node has the node's static type -/
theorem binStep_tag (op : Op) (l r : ProcArr.Expr) (t : Ty) (a b w : Val) (hta : a.tag = l.ty) (htb : b.tag = r.ty)
    (hop : op = .divide ∨ Gen.NumTables.binType op l.ty r.ty = some t) (h : ProcArr.Ref.binStep op t a b = .ok w) :
    w.tag = t := by
  by_cases hd : op = .divide
  · subst hd
    simp only [ProcArr.Ref.binStep, RbModel.Ref.binStep] at h
    obtain ⟨q, _, hc⟩ := RbThm.C01Sim.SimRead.res_bind_ok h
    exact RbThm.C01Sim.SimRead.cast_tag q t w hc
  · have hb' : ProcArr.Ref.binStep op t a b = vmBin Gen.NumTables.binType op a b := by
      cases op <;> first | rfl | exact absurd rfl hd
    rw [hb'] at h
    rcases hop with hop | hop
    · exact absurd hop hd
    · exact RbThm.C01Sim.SimRead.vmBin_tag op a b w t hd (by rw [hta, htb]; exact hop) h

/-- the operator tail of a binary expression: `CopyAToB; PopValueStackIntoA; <op>; [Cast t]` -/
theorem bin_tail (code : Code) (op : Op) (t : Ty) (p : Pos) (q : Nat) (τ : Vm) (a bv : Val) (vs : List Val)
    (hc : CodeAt code q ([(CInstr.copyAToB, p), (CInstr.popA, p), (CInstr.bin op, p)] ++
      (if op = .divide then [(CInstr.cast t, p)] else [])))
    (hpc : τ.pc = q) (ha : τ.regs.a = bv) (hv : τ.vals = a :: vs) :
    match ProcArr.Ref.binStep op t a bv with
    | .ok w => Steps code τ { τ with pc := q + 3 + (if op = .divide then 1 else 0),
                                      regs := { τ.regs with a := w, b := bv }, vals := vs }
    | .err e => ErrsWith code τ (ProcArr.Ref.codeOf e) p τ.out
    | .inexact => True := by
  have h0 : code[τ.pc]? = some (CInstr.copyAToB, p) := by rw [hpc]; exact hc.append_left.head
  have h1 : code[τ.pc + 1]? = some (CInstr.popA, p) := by rw [hpc]; exact hc.append_left.tail.head
  have h2 : code[τ.pc + 1 + 1]? = some (CInstr.bin op, p) := by rw [hpc]; exact hc.append_left.tail.tail.head
  let τ1 : Vm := Vm.advance { τ with regs := { τ.regs with b := τ.regs.a } }
  let τ2 : Vm := Vm.advance { Vm.setA τ1 a with vals := vs }
  have s1 : Vm.step code τ = .next τ1 := by simp only [Vm.step, h0]; rfl
  have s2 : Vm.step code τ1 = .next τ2 := by
    simp only [Vm.step, τ1, Vm.advance, h1, hv]; rfl
  have s3 : Vm.step code τ2 = Vm.resA τ2 p (Vm.binInstr op a bv) := by
    simp only [Vm.step, τ2, τ1, Vm.advance, Vm.setA, h2, ha]
  have st : Steps code τ τ2 := Steps.cons s1 (Steps.one s2)
  rw [binStep_eq]
  by_cases hd : op = .divide
  · simp only [hd, if_true] at hc ⊢
    have h3 : code[τ.pc + 1 + 1 + 1]? = some (CInstr.cast t, p) := by
      rw [hpc]; exact hc.append_right.head
    subst hd
    cases hb : Vm.binInstr .divide a bv with
    | ok qv =>
      let τ3 : Vm := Vm.advance (Vm.setA τ2 qv)
      have s3' : Vm.step code τ2 = .next τ3 := by rw [s3, hb]; rfl
      have s4 : Vm.step code τ3 = Vm.resA τ3 p (cast qv t) := by
        simp only [Vm.step, τ3, τ2, τ1, Vm.advance, Vm.setA, h3]
      simp only [Res.bind]
      cases hcst : cast qv t with
      | ok w =>
        simp only
        refine st.trans (Steps.cons s3' (Steps.one ?_))
        rw [s4, hcst]
        simp only [Vm.resA, τ3, τ2, τ1, Vm.advance, Vm.setA, ha, hpc]
      | err e =>
        simp only
        refine ⟨τ3, τ3, st.trans (Steps.one s3'), ?_, rfl⟩
        rw [s4, hcst]; rfl
      | inexact => simp
    | err e =>
      simp only [Res.bind]
      refine ⟨τ2, τ2, st, ?_, rfl⟩
      rw [s3, hb]; rfl
    | inexact => simp [Res.bind]
  · simp only [hd, if_false]
    cases hb : Vm.binInstr op a bv with
    | ok w =>
      simp only
      refine st.trans (Steps.one ?_)
      rw [s3, hb]
      simp only [Vm.resA, τ2, τ1, Vm.advance, Vm.setA, ha, hpc, Nat.add_zero]
    | err e =>
      simp only
      refine ⟨τ2, τ2, st, ?_, rfl⟩
      rw [s3, hb]; rfl
    | inexact => simp

theorem case_bin (W : World) (fuel : Nat) (ih : IHle W fuel) (op : Op) (l r : ProcArr.Expr) (t : Ty) (p : Pos)
    (sc : Scope) (off : Nat) (pre below : List CtxState) (s : St) (σ : Vm)
    (hc : CodeAt W.code off (compileExpr W.lay off (.bin op l r t p))) (hpc : σ.pc = off)
    (hr : Rel W sc pre below s σ) (hw : EWf W.sg sc.slots (.bin op l r t p)) :
    ExprPost W sc pre below (sizeExpr (.bin op l r t p)) (ProcArr.Expr.bin op l r t p).ty off σ
      (ProcArr.Ref.eval W.P (fuel + 1) (.bin op l r t p) s) := by
  simp only [EWf] at hw
  obtain ⟨hwl, hwr, hop⟩ := hw
  simp only [compileExpr] at hc
  have hcl : CodeAt W.code off (compileExpr W.lay off l) := hc.append_left.append_left.append_left.append_left
  have hpush : W.code[off + sizeExpr l]? = some (CInstr.pushA, p) := by
    have := hc.append_left.append_left.append_left.append_right.head
    rwa [len_expr] at this
  have hcr : CodeAt W.code (off + sizeExpr l + 1) (compileExpr W.lay (off + sizeExpr l + 1) r) := by
    have := hc.append_left.append_left.append_right
    simp only [List.length_append, List.length_singleton, len_expr] at this
    exact this.at (by omega)
  have hct : CodeAt W.code (off + sizeExpr l + 1 + sizeExpr r)
      ([(CInstr.copyAToB, p), (CInstr.popA, p), (CInstr.bin op, p)] ++
        (if op = .divide then [(CInstr.cast t, p)] else [])) := by
    have h1 := hc.append_left.append_right
    have h2 := hc.append_right
    intro i hi
    by_cases h3 : i < 3
    · have := h1 i (by simpa using h3)
      simp only [List.length_append, List.length_singleton, len_expr] at this
      rw [List.getElem?_append_left (by simpa using h3)]
      rw [← this]; congr 1; omega
    · have := h2 (i - 3) (by simp at hi ⊢; omega)
      simp only [List.length_append, List.length_cons, List.length_nil, len_expr] at this
      rw [List.getElem?_append_right (by simp; omega)]
      simp only [List.length_cons, List.length_nil]
      rw [← this]; congr 1; omega
  have hl := ih.self.expr sc l off pre below s σ hcl hpc hr hwl
  simp only [ProcArr.Ref.eval, sizeExpr, ProcArr.Expr.ty]
  generalize ProcArr.Ref.eval W.P fuel l s = rl at hl ⊢
  obtain ⟨s1, rv⟩ := rl
  cases rv with
  | error o => exact hl
  | ok a =>
    obtain ⟨τ1, st1, hp1, ha1, hrel1, hss1, htag1⟩ := hl
    -- push the left value
    let τ2 : Vm := Vm.advance { τ1 with vals := τ1.regs.a :: τ1.vals }
    have spush : Vm.step W.code τ1 = .next τ2 := by
      have : W.code[τ1.pc]? = some (CInstr.pushA, p) := by rw [hp1]; exact hpush
      simp only [Vm.step, this]; rfl
    have hrel2 : Rel W sc pre below s1 τ2 := hrel1.same rfl rfl rfl rfl rfl rfl
    have hrr := ih.self.expr sc r (off + sizeExpr l + 1) pre below s1 τ2 hcr (by simp [τ2, Vm.advance, hp1]) hrel2 hwr
    simp only
    generalize ProcArr.Ref.eval W.P fuel r s1 = rr at hrr ⊢
    obtain ⟨s2, rv2⟩ := rr
    have pre12 : Steps W.code σ τ2 := st1.trans (Steps.one spush)
    cases rv2 with
    | error o => exact ErrPost.of_steps pre12 hrr
    | ok bv =>
      obtain ⟨τ3, st3, hp3, ha3, hrel3, hss3, htag3⟩ := hrr
      have hv3 : τ3.vals = a :: σ.vals := by
        rw [hss3.vals]; simp only [τ2, Vm.advance]; rw [ha1, hss1.vals]
      have tail := bin_tail W.code op t p _ τ3 a bv σ.vals hct hp3 ha3 hv3
      have pre13 : Steps W.code σ τ3 := pre12.trans st3
      simp only
      cases hb : ProcArr.Ref.binStep op t a bv with
      | ok w =>
        simp only [hb] at tail
        simp only [ProcArr.Ref.liftR, ExprPost]
        refine ⟨_, pre13.trans tail, ?_, rfl, hrel3.same rfl rfl rfl rfl rfl rfl, ?_,
          binStep_tag op l r t a bv w htag1 htag3 hop hb⟩
        · simp only; omega
        · refine ⟨by simp [hss1.vals], ?_, ?_, ?_, ?_, ?_, ?_⟩
          · simp only; rw [hss3.paths]; simp only [τ2, Vm.advance]; exact hss1.paths
          · simp only; rw [hss3.regStack]; simp only [τ2, Vm.advance]; exact hss1.regStack
          · simp only; rw [hss3.rets]; simp only [τ2, Vm.advance]; exact hss1.rets
          · simp only; rw [hss3.marks]; simp only [τ2, Vm.advance]; exact hss1.marks
          · simp only; rw [hss3.trace]; simp only [τ2, Vm.advance]; exact hss1.trace
          · intro hk; exact hss3.skip (hss1.skip hk)
      | err e =>
        simp only [hb] at tail
        simp only [ProcArr.Ref.liftR, ExprPost, ErrPost]
        rw [← hrel3.out]
        exact ErrsWith.of_steps pre13 tail
      | inexact => simp only [ProcArr.Ref.liftR, ExprPost, ErrPost]

theorem case_callFn (W : World) (fuel : Nat) (ih : IHle W fuel) (f : Nat) (args : Args) (t : Ty) (p : Pos)
    (sc : Scope) (off : Nat) (pre below : List CtxState) (s : St) (σ : Vm)
    (hc : CodeAt W.code off (compileExpr W.lay off (.callFn f args t p))) (hpc : σ.pc = off)
    (hr : Rel W sc pre below s σ) (hw : EWf W.sg sc.slots (.callFn f args t p)) :
    ExprPost W sc pre below (sizeExpr (.callFn f args t p)) (ProcArr.Expr.callFn f args t p).ty off σ
      (ProcArr.Ref.eval W.P (fuel + 1) (.callFn f args t p) s) := by
  simp only [EWf] at hw
  rw [callCode_fn] at hc
  have h := ih.self.call sc f args p (some t) off pre below s σ hc hpc hr hw.1 hw.2
  rw [sizeCall_fn]
  simp only [ProcArr.Ref.eval, ProcArr.Expr.ty]
  generalize ProcArr.Ref.call W.P fuel f args s = r at h ⊢
  obtain ⟨s1, rv⟩ := r
  cases rv with
  | error o => exact h
  | ok v =>
    obtain ⟨τ, st, hp, hrel, hss, hres⟩ := h
    obtain ⟨ha, htag⟩ := hres t rfl
    exact ⟨τ, st, hp, ha, hrel, hss, htag⟩

end RbThm.ProcArrSim
