import RbModel.ErrL.Compile
import RbModel.ErrL.WfB
import RbModel.ErrL.Vm
import Thm.JmpLLen
/-!
Error layer (property C05), sizes, labels and **statement marks**.

* sizes: `(compileStmt env sfx d e off s).length = sizeStmt env.dp d e s` (port of `Thm/JmpLLen.lean`);
* the depth table lists every label of a statement (port);
* the statement-address table (`marksStmt`): it is strictly ascending and lies inside the statement's code, and for every
  *resume unit* of a construct the table contains the address of the unit's first instruction, `find_current` at an address
  inside the unit's code answers it, and `find_next` answers the address `ErrL.Ref`'s `next(u)` continues at
  (section "statement marks" below).
-/
namespace RbThm.ErrLLen
set_option linter.unusedSimpArgs false
set_option linter.unusedVariables false
open RbModel RbModel.Num RbModel.Ast RbModel.ErrL RbModel.ErrL.Compile
open RbModel.JmpL.Compile (CInstr Code labelName compileExpr compileExprTo storeVar loadVar compileItems compileConds
  sizeCaseExpr sizeItems sizeConds Dp lookupNat lookupDepth stepSuffix maxPos)
open RbThm.JmpLLen (len_caseExpr len_items len_conds flatMap_const_len)

theorem len_forHead (sfx : String) (x : Nat) (up : Bool) (p : Pos) (outOff : Nat) :
    (forHead sfx x up p outOff).length = 8 := by
  simp [forHead, loadVar]

theorem len_forTail (x : Nat) (t : Ty) (p : Pos) (off : Nat) : (forTail x t p off).length = 10 := by
  simp [forTail, loadVar, storeVar]

theorem len_goto (env : LEnv) (d e L : Nat) (p : Pos) : (compileGoto env d e L p).length = sizeGoto env.dp d e L := by
  simp [compileGoto, sizeGoto]; omega

mutual
theorem len_stmt (env : LEnv) : ∀ (s : SStmt) (sfx : String) (d e off : Nat),
    (compileStmt env sfx d e off s).length = sizeStmt env.dp d e s
  | .skip, _, _, _, _ => by simp [compileStmt, sizeStmt]
  | .seq a b, sfx, d, e, off => by simp [compileStmt, sizeStmt, len_stmt env a, len_stmt env b]
  | .comment, _, _, _, _ => by simp [compileStmt, sizeStmt]
  | .dim _ _ _, _, _, _, _ => by simp [compileStmt, sizeStmt]
  | .assign x t ex p, _, _, _, _ => by simp [compileStmt, sizeStmt, storeVar]
  | .print items p, _, _, _, _ => by simp [compileStmt, sizeStmt, len_items] <;> try omega
  | .data items p, _, _, _, _ => by
    simp only [compileStmt, sizeStmt, lift_length, List.length_append, List.length_cons, List.length_nil]
    rw [flatMap_const_len _ 2 (fun _ => rfl)] <;> (try omega)
  | .read vars p, _, _, _, _ => by
    simp only [compileStmt, sizeStmt, lift_length]
    split
    · rfl
    · exact flatMap_const_len _ 11 (fun _ => rfl) vars
  | .ifBlock c thn elifs hasElse els p, sfx, d, e, off => by
    simp only [compileStmt, sizeStmt, lift_length, List.length_append, List.length_singleton, len_stmt env thn,
      len_elifs env elifs]
    cases hasElse <;> simp [len_stmt env els] <;> try omega
  | .select sel cases hasElse els p, sfx, d, e, off => by
    simp only [compileStmt, sizeStmt, lift_length, List.length_append, List.length_singleton, List.length_cons,
      List.length_nil, len_cases env cases]
    cases hasElse <;> simp [len_stmt env els] <;> try omega
  | .forLoop x t lo hi step body p, sfx, d, e, off => by
    cases step with
    | none =>
      simp only [compileStmt, sizeStmt, sizeForBody, lift_length, List.length_append, List.length_singleton,
        List.length_cons, List.length_nil, len_forHead, len_forTail, len_stmt env body, storeVar]
      (try omega)
    | some s =>
      simp only [compileStmt, sizeStmt, sizeForBody, lift_length, List.length_append, List.length_singleton,
        List.length_cons, List.length_nil, len_forHead, len_forTail, len_stmt env body, storeVar]
      (try omega)
  | .while c body p, sfx, d, e, off => by
    simp only [compileStmt, sizeStmt, lift_length, List.length_append, List.length_singleton, List.length_cons,
      List.length_nil, len_stmt env body]
    (try omega)
  | .doLoop c top u body p, sfx, d, e, off => by
    cases top <;> cases u <;>
      simp [compileStmt, sizeStmt, len_stmt env body] <;> try omega
  | .end_ _, _, _, _, _ => by simp [compileStmt, sizeStmt]
  | .label _ _ _, _, _, _, _ => by simp [compileStmt, sizeStmt]
  | .goto L p, _, d, e, _ => by simp [compileStmt, sizeStmt, len_goto]
  | .gosub _ _, _, _, _, _ => by simp [compileStmt, sizeStmt]
  | .ret _, _, _, _, _ => by simp [compileStmt, sizeStmt]
  | .onErrorGoto _ _, _, _, _, _ => by simp [compileStmt, sizeStmt]
  | .onErrorResumeNext _, _, _, _, _ => by simp [compileStmt, sizeStmt]
  | .onErrorGoto0 _, _, _, _, _ => by simp [compileStmt, sizeStmt]
  | .resume _, _, _, _, _ => by simp [compileStmt, sizeStmt]
  | .resumeNext _, _, _, _, _ => by simp [compileStmt, sizeStmt]
  | .resumeLabel _ _, _, _, _, _ => by simp [compileStmt, sizeStmt]
theorem len_elifs (env : LEnv) : ∀ (el : ElseIfs) (sfx : String) (d e : Nat) (p : Pos) (endOff elseOff off i : Nat),
    (compileElifs env sfx d e p endOff elseOff off i el).length = sizeElifs env.dp d e el
  | .nil, _, _, _, _, _, _, _, _ => by simp [compileElifs, sizeElifs]
  | .cons c body rest, sfx, d, e, p, endOff, elseOff, off, i => by
    simp only [compileElifs, sizeElifs, lift_length, List.length_append, List.length_singleton, List.length_cons,
      List.length_nil, len_stmt env body, len_elifs env rest]
    (try omega)
theorem len_cases (env : LEnv) : ∀ (cs : SCases) (sfx : String) (d e : Nat) (p : Pos) (endOff elseOff off i : Nat),
    (compileCases env sfx d e p endOff elseOff off i cs).length = sizeCases env.dp d e cs
  | .nil, _, _, _, _, _, _, _, _ => by simp [compileCases, sizeCases]
  | .cons conds body rest, sfx, d, e, p, endOff, elseOff, off, i => by
    simp only [compileCases, sizeCases, lift_length, List.length_append, List.length_singleton, List.length_cons,
      List.length_nil, len_conds, len_stmt env body, len_cases env rest]
    by_cases h : conds.length > 1
    · simp [h] <;> (try omega)
    · simp [h] <;> (try omega)
end

/-! ### the depth table lists every label of the statement, at depths that are at least the statement's own -/

mutual
theorem depth_of_label : ∀ (s : SStmt) (d e L : Nat), L ∈ s.labels →
    ∃ d' e', (L, d', e') ∈ depthTable d e s ∧ d ≤ d' ∧ e ≤ e'
  | .seq a b, d, e, L, h => by
    simp only [SStmt.labels, List.mem_append] at h
    simp only [depthTable, List.mem_append]
    rcases h with h | h
    · obtain ⟨d', e', hm, h1, h2⟩ := depth_of_label a d e L h
      exact ⟨d', e', .inl hm, h1, h2⟩
    · obtain ⟨d', e', hm, h1, h2⟩ := depth_of_label b d e L h
      exact ⟨d', e', .inr hm, h1, h2⟩
  | .ifBlock c thn elifs hasElse els p, d, e, L, h => by
    simp only [SStmt.labels, List.mem_append] at h
    simp only [depthTable, List.mem_append]
    rcases h with h | h | h
    · obtain ⟨d', e', hm, h1, h2⟩ := depth_of_label thn d e L h
      exact ⟨d', e', .inl (.inl hm), h1, h2⟩
    · obtain ⟨d', e', hm, h1, h2⟩ := depth_of_label_elifs elifs d e L h
      exact ⟨d', e', .inl (.inr hm), h1, h2⟩
    · obtain ⟨d', e', hm, h1, h2⟩ := depth_of_label els d e L h
      exact ⟨d', e', .inr hm, h1, h2⟩
  | .select sel cases hasElse els p, d, e, L, h => by
    simp only [SStmt.labels, List.mem_append] at h
    simp only [depthTable, List.mem_append]
    rcases h with h | h
    · obtain ⟨d', e', hm, h1, h2⟩ := depth_of_label_cases cases d (e + 1) L h
      exact ⟨d', e', .inl hm, h1, by omega⟩
    · obtain ⟨d', e', hm, h1, h2⟩ := depth_of_label els d (e + 1) L h
      exact ⟨d', e', .inr hm, h1, by omega⟩
  | .forLoop x t lo hi step body p, d, e, L, h => by
    simp only [SStmt.labels] at h
    simp only [depthTable]
    obtain ⟨d', e', hm, h1, h2⟩ := depth_of_label body (d + 1) e L h
    exact ⟨d', e', hm, by omega, h2⟩
  | .while c body p, d, e, L, h => by
    simp only [SStmt.labels] at h
    simp only [depthTable]
    exact depth_of_label body d e L h
  | .doLoop c top u body p, d, e, L, h => by
    simp only [SStmt.labels] at h
    simp only [depthTable]
    exact depth_of_label body d e L h
  | .label L' name p, d, e, L, h => by
    simp only [SStmt.labels, List.mem_singleton] at h
    subst h
    exact ⟨d, e, by simp [depthTable], Nat.le_refl _, Nat.le_refl _⟩
  | .skip, _, _, _, h => by simp [SStmt.labels] at h
  | .comment, _, _, _, h => by simp [SStmt.labels] at h
  | .dim _ _ _, _, _, _, h => by simp [SStmt.labels] at h
  | .assign _ _ _ _, _, _, _, h => by simp [SStmt.labels] at h
  | .print _ _, _, _, _, h => by simp [SStmt.labels] at h
  | .data _ _, _, _, _, h => by simp [SStmt.labels] at h
  | .read _ _, _, _, _, h => by simp [SStmt.labels] at h
  | .end_ _, _, _, _, h => by simp [SStmt.labels] at h
  | .goto _ _, _, _, _, h => by simp [SStmt.labels] at h
  | .gosub _ _, _, _, _, h => by simp [SStmt.labels] at h
  | .ret _, _, _, _, h => by simp [SStmt.labels] at h
  | .onErrorGoto _ _, _, _, _, h => by simp [SStmt.labels] at h
  | .onErrorResumeNext _, _, _, _, h => by simp [SStmt.labels] at h
  | .onErrorGoto0 _, _, _, _, h => by simp [SStmt.labels] at h
  | .resume _, _, _, _, h => by simp [SStmt.labels] at h
  | .resumeNext _, _, _, _, h => by simp [SStmt.labels] at h
  | .resumeLabel _ _, _, _, _, h => by simp [SStmt.labels] at h
theorem depth_of_label_elifs : ∀ (el : ElseIfs) (d e L : Nat), L ∈ el.labels →
    ∃ d' e', (L, d', e') ∈ depthElifs d e el ∧ d ≤ d' ∧ e ≤ e'
  | .nil, _, _, _, h => by simp [ElseIfs.labels] at h
  | .cons c body rest, d, e, L, h => by
    simp only [ElseIfs.labels, List.mem_append] at h
    simp only [depthElifs, List.mem_append]
    rcases h with h | h
    · obtain ⟨d', e', hm, h1, h2⟩ := depth_of_label body d e L h
      exact ⟨d', e', .inl hm, h1, h2⟩
    · obtain ⟨d', e', hm, h1, h2⟩ := depth_of_label_elifs rest d e L h
      exact ⟨d', e', .inr hm, h1, h2⟩
theorem depth_of_label_cases : ∀ (cs : SCases) (d e L : Nat), L ∈ cs.labels →
    ∃ d' e', (L, d', e') ∈ depthCases d e cs ∧ d ≤ d' ∧ e ≤ e'
  | .nil, _, _, _, h => by simp [SCases.labels] at h
  | .cons conds body rest, d, e, L, h => by
    simp only [SCases.labels, List.mem_append] at h
    simp only [depthCases, List.mem_append]
    rcases h with h | h
    · obtain ⟨d', e', hm, h1, h2⟩ := depth_of_label body d e L h
      exact ⟨d', e', .inl hm, h1, h2⟩
    · obtain ⟨d', e', hm, h1, h2⟩ := depth_of_label_cases rest d e L h
      exact ⟨d', e', .inr hm, h1, h2⟩
end


/-! ## statement marks

The statement-address table is what `NearestStatementFinder` searches: `find_current a` is the greatest entry `≤ a`,
`find_next a` the least entry `> a`.  Everything below is about the list `marksStmt dp d e off s`; nothing depends on the
instructions. -/

open RbModel.ErrL.Vm (findCurrent findNext)

/-! ### the finder on a strictly ascending table -/

/-- **the finder**: in a strictly ascending table in which `m1` is immediately followed by `m2`, every address in
`[m1, m2)` has `find_current = m1` and `find_next = m2` -/
theorem find_of_adj {l pre post : List Nat} {m1 m2 a : Nat} (hs : l.Pairwise (· < ·))
    (hl : l = pre ++ m1 :: m2 :: post) (h1 : m1 ≤ a) (h2 : a < m2) :
    findCurrent l a = some m1 ∧ findNext l a = some m2 := by
  subst hl
  have hpre : ∀ x ∈ pre, x < m1 := by
    intro x hx
    have := (List.pairwise_append.1 hs).2.2 x hx m1 (by simp)
    exact this
  have hpre' : ∀ x ∈ pre, decide (x < a) = true := by
    intro x hx; have := hpre x hx; simp; omega
  by_cases heq : a = m1
  · subst heq
    have htw : ((pre ++ a :: m2 :: post).takeWhile (· < a)).length = pre.length := by
      rw [List.takeWhile_append_of_pos hpre']
      simp [List.takeWhile_cons]
    have hget : (pre ++ a :: m2 :: post)[pre.length]? = some a := by
      rw [List.getElem?_append_right (Nat.le_refl _)]; simp
    have hget2 : (pre ++ a :: m2 :: post)[pre.length + 1]? = some m2 := by
      rw [List.getElem?_append_right (by omega)]; simp
    have hnl : ¬ (pre.length + 1 = (pre ++ a :: m2 :: post).length) := by simp
    simp only [findCurrent, findNext, Ctl.bsFirst, htw, hget, if_true, Ctl.findCurrentWith, Ctl.findNextWith, hnl,
      if_false, hget2, and_self]
  · have hlt : m1 < a := by omega
    have htw : ((pre ++ m1 :: m2 :: post).takeWhile (· < a)).length = pre.length + 1 := by
      rw [List.takeWhile_append_of_pos hpre']
      have : ¬ (m2 < a) := by omega
      simp [List.takeWhile_cons, hlt, this]
    have hget : (pre ++ m1 :: m2 :: post)[pre.length + 1]? = some m2 := by
      rw [List.getElem?_append_right (by omega)]; simp
    have hget1 : (pre ++ m1 :: m2 :: post)[pre.length]? = some m1 := by
      rw [List.getElem?_append_right (Nat.le_refl _)]; simp
    have hne : ¬ (some m2 = some a) := by simp; omega
    simp only [findCurrent, findNext, Ctl.bsFirst, htw, hget, hne, if_false, Ctl.findCurrentWith, Ctl.findNextWith]
    simp [hget1]

/-! ### the table of a statement is strictly ascending and lies inside the statement's code -/

/-- strictly ascending, every entry in `[lo, hi)` -/
def Asc (lo hi : Nat) (l : List Nat) : Prop := l.Pairwise (· < ·) ∧ ∀ x ∈ l, lo ≤ x ∧ x < hi

theorem Asc.nil (lo hi : Nat) : Asc lo hi [] := ⟨List.Pairwise.nil, by simp⟩

theorem Asc.single {lo hi x : Nat} (h1 : lo ≤ x) (h2 : x < hi) : Asc lo hi [x] :=
  ⟨by simp, by simp; omega⟩

theorem Asc.append {lo mid hi : Nat} {a b : List Nat} (ha : Asc lo mid a) (hb : Asc mid hi b) (h1 : lo ≤ mid)
    (h2 : mid ≤ hi) : Asc lo hi (a ++ b) := by
  refine ⟨List.pairwise_append.2 ⟨ha.1, hb.1, ?_⟩, ?_⟩
  · intro x hx y hy
    have := ha.2 x hx; have := hb.2 y hy; omega
  · intro x hx
    rcases List.mem_append.1 hx with h | h
    · have := ha.2 x h; omega
    · have := hb.2 x h; omega

theorem Asc.mono {lo hi lo' hi' : Nat} {l : List Nat} (h : Asc lo hi l) (h1 : lo' ≤ lo) (h2 : hi ≤ hi') : Asc lo' hi' l :=
  ⟨h.1, fun x hx => by have := h.2 x hx; omega⟩

mutual
/-- every CASE clause has at least one item (what the parser guarantees; part of the premise `Wf`): without it the mark at
the items of an empty CASE would coincide with the mark of the block's first statement -/
def CasesNE : SStmt → Prop
  | .seq a b => CasesNE a ∧ CasesNE b
  | .ifBlock _ thn elifs _ els _ => CasesNE thn ∧ CasesNEElifs elifs ∧ CasesNE els
  | .select _ cases _ els _ => CasesNECases cases ∧ CasesNE els
  | .forLoop _ _ _ _ _ body _ => CasesNE body
  | .while _ body _ => CasesNE body
  | .doLoop _ _ _ body _ => CasesNE body
  | _ => True
def CasesNEElifs : ElseIfs → Prop
  | .nil => True
  | .cons _ body rest => CasesNE body ∧ CasesNEElifs rest
def CasesNECases : SCases → Prop
  | .nil => True
  | .cons conds body rest => conds ≠ [] ∧ CasesNE body ∧ CasesNECases rest
end

theorem sizeConds_pos : ∀ {conds : List CaseExpr}, conds ≠ [] → 1 ≤ sizeConds conds
  | [], h => absurd rfl h
  | [c], _ => by cases c <;> simp [sizeConds, sizeCaseExpr] <;> omega
  | c :: c' :: rest, _ => by simp [sizeConds]; omega

theorem compileExpr_pos (e : Ast.Expr) : 1 ≤ (compileExpr e).length := by
  induction e with
  | lit v p => simp [compileExpr]
  | var x t p => simp [compileExpr]
  | un op e p ih => cases op <;> simp [compileExpr]
  | paren e p ih => simpa [compileExpr] using ih
  | bin op l r t p ihl ihr => simp [compileExpr]; omega

mutual
/-- **the table of a statement is strictly ascending and lies in `[off, off + size)`** -/
theorem marks_asc (dp : Dp) : ∀ (s : SStmt) (d e off : Nat), CasesNE s →
    Asc off (off + sizeStmt dp d e s) (marksStmt dp d e off s)
  | .skip, d, e, off, _ => by simp only [marksStmt]; exact Asc.nil _ _
  | .comment, d, e, off, _ => by simp only [marksStmt]; exact Asc.nil _ _
  | .seq a b, d, e, off, h => by
    simp only [marksStmt, sizeStmt]
    exact Asc.append (mid := off + sizeStmt dp d e a) (marks_asc dp a d e off h.1)
      ((marks_asc dp b d e (off + sizeStmt dp d e a) h.2).mono (Nat.le_refl _) (by omega)) (by omega) (by omega)
  | .ifBlock c thn elifs hasElse els p, d, e, off, h => by
    obtain ⟨h1, h2, h3⟩ := h
    have a1 := marks_asc dp thn d e (off + (compileExpr c).length + 1) h1
    have a2 := marksElifs_asc dp elifs d e (off + (compileExpr c).length + 1 + sizeStmt dp d e thn + 1) h2
    have a3 := marks_asc dp els d e
      (off + (compileExpr c).length + 1 + sizeStmt dp d e thn + 1 + sizeElifs dp d e elifs + 1) h3
    simp only [marksStmt, sizeStmt]
    refine Asc.append (mid := off + (compileExpr c).length + 1 + sizeStmt dp d e thn + 1 + sizeElifs dp d e elifs) ?_ ?_
      (by omega) (by cases hasElse <;> simp <;> omega)
    · refine Asc.append (mid := off + (compileExpr c).length + 1 + sizeStmt dp d e thn + 1) ?_ a2 (by omega) (by omega)
      refine Asc.append (mid := off + (compileExpr c).length + 1 + sizeStmt dp d e thn) ?_ (Asc.single (by omega) (by omega))
        (by omega) (by omega)
      exact Asc.append (mid := off + (compileExpr c).length + 1) (Asc.single (by omega) (by omega)) a1 (by omega) (by omega)
    · cases hasElse with
      | false => simp only [Bool.false_eq_true, if_false]; exact Asc.nil _ _
      | true => simp only [if_true]; exact a3.mono (by omega) (by omega)
  | .select sel cases hasElse els p, d, e, off, h => by
    obtain ⟨h1, h2⟩ := h
    have a1 := marksCases_asc dp cases d (e + 1) (off + (compileExpr sel).length + 1 + 3) h1
    have a2 := marks_asc dp els d (e + 1)
      (off + (compileExpr sel).length + 1 + 3 + sizeCases dp d (e + 1) cases + 1) h2
    simp only [marksStmt, sizeStmt, List.append_assoc]
    refine Asc.append (mid := off + (compileExpr sel).length + 1 + 3 + 1) ?_ ?_ (by omega)
      (by cases hasElse <;> simp <;> omega)
    · exact Asc.append (a := [off]) (mid := off + 1) (Asc.single (by omega) (by omega))
        (Asc.append (a := [off + (compileExpr sel).length + 2]) (mid := off + (compileExpr sel).length + 3)
          (Asc.single (by omega) (by omega)) (Asc.single (by omega) (by omega)) (by omega) (by omega))
        (by omega) (by omega)
    · refine Asc.append (mid := off + (compileExpr sel).length + 1 + 3 + sizeCases dp d (e + 1) cases + 1)
        (a1.mono (Nat.le_refl _) (by omega)) ?_ (by omega) (by cases hasElse <;> simp <;> omega)
      cases hasElse with
      | false => simp only [Bool.false_eq_true, if_false]; exact Asc.nil _ _
      | true => simp only [if_true]; exact a2.mono (by omega) (by omega)
  | .forLoop x t lo hi step body p, d, e, off, h => by
    cases step with
    | none =>
      have a1 := marks_asc dp body (d + 1) e
        (off + (compileExprTo lo t).length + 2 + (compileExprTo hi t).length + 6 + 8) h
      simp only [marksStmt, sizeStmt]
      refine Asc.append (mid := off + (compileExprTo lo t).length + 2 + (compileExprTo hi t).length + 6 + 8 +
        sizeStmt dp (d + 1) e body) ?_ ?_ (by omega) (by omega)
      · refine Asc.append (mid := off + (compileExprTo lo t).length + 2 + (compileExprTo hi t).length + 6 + 8) ?_ a1
          (by omega) (by omega)
        exact Asc.append (a := [off]) (mid := off + 1) (Asc.single (by omega) (by omega))
          (Asc.single (by omega) (by omega)) (by omega) (by omega)
      · exact Asc.append (a := [_]) (mid := off + (compileExprTo lo t).length + 2 + (compileExprTo hi t).length + 6 + 8 +
          sizeStmt dp (d + 1) e body + 1) (Asc.single (by omega) (by omega)) (Asc.single (by omega) (by omega))
          (by omega) (by omega)
    | some se =>
      have a1 := marks_asc dp body (d + 1) e
        (off + (compileExprTo lo t).length + 2 + (compileExprTo hi t).length + 1 + (compileExpr se).length + 11 + 8) h
      have a2 := marks_asc dp body (d + 1) e
        (off + (compileExprTo lo t).length + 2 + (compileExprTo hi t).length + 1 + (compileExpr se).length + 11 +
          sizeForBody dp d e body + 1 + 4 + 8) h
      simp only [marksStmt, sizeStmt, sizeForBody] at a2 ⊢
      -- the three entries behind a copy of the body that ends at `b`
      have three : ∀ b c hi', b + 1 < c → c < hi' → Asc b hi' [b, b + 1, c] := fun b c hi' h1 h2 =>
        Asc.append (a := [b]) (mid := b + 1) (Asc.single (by omega) (by omega))
          (Asc.append (a := [b + 1]) (mid := b + 2) (Asc.single (by omega) (by omega)) (Asc.single (by omega) (by omega))
            (by omega) (by omega)) (by omega) (by omega)
      generalize hN : off + (compileExprTo lo t).length + 2 + (compileExprTo hi t).length + 1 + (compileExpr se).length + 11 = negOff at a1 a2 ⊢
      generalize hB : sizeStmt dp (d + 1) e body = sb at a1 a2 ⊢
      refine Asc.append (mid := negOff + (18 + sb) + 1 + 4 + 8 + sb) ?_ (three _ _ _ (by omega) (by omega)) (by omega) (by omega)
      refine Asc.append (mid := negOff + (18 + sb) + 1 + 4 + 8) ?_ a2 (by omega) (by omega)
      refine Asc.append (mid := negOff + 8 + sb) ?_ (three _ _ _ (by omega) (by omega)) (by omega) (by omega)
      refine Asc.append (mid := negOff + 8) ?_ a1 (by omega) (by omega)
      exact Asc.append (a := [off]) (mid := off + 1) (Asc.single (by omega) (by omega))
        (Asc.single (by omega) (by omega)) (by omega) (by omega)
  | .while c body p, d, e, off, h => by
    have a1 := marks_asc dp body d e (off + 1 + (compileExpr c).length + 1) h
    simp only [marksStmt, sizeStmt]
    refine Asc.append (mid := off + 1 + (compileExpr c).length + 1 + sizeStmt dp d e body) ?_
      (Asc.single (by omega) (by omega)) (by omega) (by omega)
    exact Asc.append (mid := off + 1 + (compileExpr c).length + 1) (Asc.single (by omega) (by omega)) a1
      (by omega) (by omega)
  | .doLoop c top u body p, d, e, off, h => by
    cases top with
    | true =>
      have a1 := marks_asc dp body d e (off + 1 + (compileExpr c).length + (if u then 3 else 1)) h
      simp only [marksStmt, sizeStmt, if_true]
      refine Asc.append (mid := off + 1 + (compileExpr c).length + (if u then 3 else 1) + sizeStmt dp d e body) ?_
        (Asc.single (by omega) (by omega)) (by omega) (by omega)
      exact Asc.append (mid := off + 1 + (compileExpr c).length + (if u then 3 else 1))
        (Asc.single (by omega) (by cases u <;> simp <;> omega)) a1 (by cases u <;> simp <;> omega) (by omega)
    | false =>
      have a1 := marks_asc dp body d e (off + 1) h
      have hc := compileExpr_pos c
      simp only [marksStmt, sizeStmt, Bool.false_eq_true, if_false]
      refine Asc.append (mid := off + 1 + sizeStmt dp d e body) ?_
        (Asc.single (by omega) (by cases u <;> simp <;> omega)) (by omega) (by cases u <;> simp <;> omega)
      exact Asc.append (mid := off + 1) (Asc.single (by omega) (by omega)) a1 (by omega) (by omega)
  | .dim _ _ _, d, e, off, _ => by simp only [marksStmt, sizeStmt]; exact Asc.single (by omega) (by omega)
  | .assign _ _ _ _, d, e, off, _ => by simp only [marksStmt, sizeStmt]; exact Asc.single (by omega) (by omega)
  | .print _ _, d, e, off, _ => by simp only [marksStmt, sizeStmt]; exact Asc.single (by omega) (by omega)
  | .data _ _, d, e, off, _ => by simp only [marksStmt, sizeStmt]; exact Asc.single (by omega) (by omega)
  | .read vars _, d, e, off, _ => by
    simp only [marksStmt, sizeStmt]
    refine Asc.single (by omega) ?_
    cases vars with
    | nil => simp
    | cons v r => simp <;> omega
  | .end_ _, d, e, off, _ => by simp only [marksStmt, sizeStmt]; exact Asc.single (by omega) (by omega)
  | .label _ _ _, d, e, off, _ => by simp only [marksStmt, sizeStmt]; exact Asc.single (by omega) (by omega)
  | .goto _ _, d, e, off, _ => by
    simp only [marksStmt, sizeStmt, sizeGoto]; exact Asc.single (by omega) (by omega)
  | .gosub _ _, d, e, off, _ => by simp only [marksStmt, sizeStmt]; exact Asc.single (by omega) (by omega)
  | .ret _, d, e, off, _ => by simp only [marksStmt, sizeStmt]; exact Asc.single (by omega) (by omega)
  | .onErrorGoto _ _, d, e, off, _ => by simp only [marksStmt, sizeStmt]; exact Asc.single (by omega) (by omega)
  | .onErrorResumeNext _, d, e, off, _ => by simp only [marksStmt, sizeStmt]; exact Asc.single (by omega) (by omega)
  | .onErrorGoto0 _, d, e, off, _ => by simp only [marksStmt, sizeStmt]; exact Asc.single (by omega) (by omega)
  | .resume _, d, e, off, _ => by simp only [marksStmt, sizeStmt]; exact Asc.single (by omega) (by omega)
  | .resumeNext _, d, e, off, _ => by simp only [marksStmt, sizeStmt]; exact Asc.single (by omega) (by omega)
  | .resumeLabel _ _, d, e, off, _ => by simp only [marksStmt, sizeStmt]; exact Asc.single (by omega) (by omega)
theorem marksElifs_asc (dp : Dp) : ∀ (el : ElseIfs) (d e off : Nat), CasesNEElifs el →
    Asc off (off + sizeElifs dp d e el) (marksElifs dp d e off el)
  | .nil, d, e, off, _ => by simp only [marksElifs]; exact Asc.nil _ _
  | .cons c body rest, d, e, off, h => by
    have a1 := marks_asc dp body d e (off + 1 + (compileExpr c).length + 1) h.1
    have a2 := marksElifs_asc dp rest d e (off + 1 + (compileExpr c).length + 1 + sizeStmt dp d e body + 1) h.2
    simp only [marksElifs, sizeElifs]
    refine Asc.append (mid := off + 1 + (compileExpr c).length + 1 + sizeStmt dp d e body + 1) ?_
      (a2.mono (Nat.le_refl _) (by omega)) (by omega) (by omega)
    refine Asc.append (mid := off + 1 + (compileExpr c).length + 1 + sizeStmt dp d e body) ?_
      (Asc.single (by omega) (by omega)) (by omega) (by omega)
    exact Asc.append (mid := off + 1 + (compileExpr c).length + 1) (Asc.single (by omega) (by omega)) a1
      (by omega) (by omega)
theorem marksCases_asc (dp : Dp) : ∀ (cs : SCases) (d e off : Nat), CasesNECases cs →
    Asc (off + 1) (off + sizeCases dp d e cs) (marksCases dp d e off cs)
  | .nil, d, e, off, _ => by simp only [marksCases]; exact Asc.nil _ _
  | .cons conds body rest, d, e, off, h => by
    have hp := sizeConds_pos h.1
    have a1 := marks_asc dp body d e (off + 1 + sizeConds conds + (if conds.length > 1 then 1 else 0)) h.2.1
    have a2 := marksCases_asc dp rest d e
      (off + 1 + sizeConds conds + (if conds.length > 1 then 1 else 0) + sizeStmt dp d e body + 1) h.2.2
    simp only [marksCases, sizeCases]
    refine Asc.append (mid := off + 1 + sizeConds conds + (if conds.length > 1 then 1 else 0) + sizeStmt dp d e body + 1) ?_
      (a2.mono (by omega) (by omega)) (by omega) (by omega)
    refine Asc.append (mid := off + 1 + sizeConds conds + (if conds.length > 1 then 1 else 0) + sizeStmt dp d e body) ?_
      (Asc.single (by omega) (by omega)) (by omega) (by omega)
    exact Asc.append (mid := off + 1 + sizeConds conds + (if conds.length > 1 then 1 else 0))
      (Asc.single (by omega) (by split <;> omega)) a1 (by split <;> omega) (by omega)
end


/-! ### where a statement's entries sit in the whole table; resume units

`MarksAt T ms nx`: the entries `ms` sit in the table `T` as a block and the entry that follows them is `nx`.  For a statement
`s` placed at `off`, `MarksAt T (marksStmt dp d e off s) nx` says that `nx` is **the entry that follows the statement**: the
address RESUME NEXT continues at after the statement's last resume unit.  In most contexts `nx = off + size s` (the
back-edge of a loop, the `Jump end-if` of a THEN block, the `PopRegisters` of a FOR body, the next statement); in an ELSE /
CASE ELSE block it is the entry that follows the whole IF / SELECT (the `end-if` label, and the `end-select` label *and its
`PopValueStackIntoA`*, are skipped).

A **resume unit** that starts at `m1` and is followed by the entry `m2` is `MarksAt T [m1] m2`. -/

def MarksAt (T : List Nat) (ms : List Nat) (nx : Nat) : Prop := ∃ pre post, T = pre ++ ms ++ nx :: post

theorem MarksAt.sub {T ms sub p q : List Nat} {nx x : Nat} (h : MarksAt T ms nx)
    (heq : ms ++ [nx] = p ++ sub ++ x :: q) : MarksAt T sub x := by
  obtain ⟨pre, post, rfl⟩ := h
  refine ⟨pre ++ p, q ++ post, ?_⟩
  have : pre ++ ms ++ nx :: post = pre ++ (ms ++ [nx]) ++ post := by simp
  rw [this, heq]; simp

/-- **the dispatch finds the unit**: for an error address inside a resume unit, `find_current` answers the unit's first
instruction (where RESUME continues) and `find_next` the entry that follows the unit (where RESUME NEXT and
ON ERROR RESUME NEXT continue) -/
theorem unit_find {T : List Nat} {m1 m2 a : Nat} (hT : T.Pairwise (· < ·)) (h : MarksAt T [m1] m2) (h1 : m1 ≤ a)
    (h2 : a < m2) : findCurrent T a = some m1 ∧ findNext T a = some m2 := by
  obtain ⟨pre, post, hl⟩ := h
  exact find_of_adj hT (by simpa using hl) h1 h2

/-- a statement's entries followed by its end address start with its own address (a statement without entries — comments —
has no code) -/
theorem marks_head (dp : Dp) : ∀ (s : SStmt) (d e off : Nat) (post : List Nat),
    ∃ r, marksStmt dp d e off s ++ (off + sizeStmt dp d e s) :: post = off :: r
  | .skip, d, e, off, post => ⟨post, by simp [marksStmt, sizeStmt]⟩
  | .comment, d, e, off, post => ⟨post, by simp [marksStmt, sizeStmt]⟩
  | .seq a b, d, e, off, post => by
    obtain ⟨rb, hb⟩ := marks_head dp b d e (off + sizeStmt dp d e a) post
    obtain ⟨ra, ha⟩ := marks_head dp a d e off rb
    refine ⟨ra, ?_⟩
    simp only [marksStmt, sizeStmt, List.append_assoc]
    rw [← Nat.add_assoc, hb, ha]
  | .ifBlock .., d, e, off, post => ⟨_, by simp only [marksStmt, List.singleton_append, List.cons_append]; rfl⟩
  | .select .., d, e, off, post => ⟨_, by simp only [marksStmt, List.cons_append]; rfl⟩
  | .forLoop x t lo hi none body p, d, e, off, post => ⟨_, by simp only [marksStmt, List.cons_append]; rfl⟩
  | .forLoop x t lo hi (some se) body p, d, e, off, post => ⟨_, by simp only [marksStmt, List.cons_append]; rfl⟩
  | .while .., d, e, off, post => ⟨_, by simp only [marksStmt, List.singleton_append, List.cons_append]; rfl⟩
  | .doLoop c true u body p, d, e, off, post =>
    ⟨_, by simp only [marksStmt, if_true, List.singleton_append, List.cons_append]; rfl⟩
  | .doLoop c false u body p, d, e, off, post =>
    ⟨_, by simp only [marksStmt, Bool.false_eq_true, if_false, List.singleton_append, List.cons_append]; rfl⟩
  | .dim .., d, e, off, post => ⟨_, by simp only [marksStmt, List.singleton_append]; rfl⟩
  | .assign .., d, e, off, post => ⟨_, by simp only [marksStmt, List.singleton_append]; rfl⟩
  | .print .., d, e, off, post => ⟨_, by simp only [marksStmt, List.singleton_append]; rfl⟩
  | .data .., d, e, off, post => ⟨_, by simp only [marksStmt, List.singleton_append]; rfl⟩
  | .read .., d, e, off, post => ⟨_, by simp only [marksStmt, List.singleton_append]; rfl⟩
  | .end_ .., d, e, off, post => ⟨_, by simp only [marksStmt, List.singleton_append]; rfl⟩
  | .label .., d, e, off, post => ⟨_, by simp only [marksStmt, List.singleton_append]; rfl⟩
  | .goto .., d, e, off, post => ⟨_, by simp only [marksStmt, List.singleton_append]; rfl⟩
  | .gosub .., d, e, off, post => ⟨_, by simp only [marksStmt, List.singleton_append]; rfl⟩
  | .ret .., d, e, off, post => ⟨_, by simp only [marksStmt, List.singleton_append]; rfl⟩
  | .onErrorGoto .., d, e, off, post => ⟨_, by simp only [marksStmt, List.singleton_append]; rfl⟩
  | .onErrorResumeNext .., d, e, off, post => ⟨_, by simp only [marksStmt, List.singleton_append]; rfl⟩
  | .onErrorGoto0 .., d, e, off, post => ⟨_, by simp only [marksStmt, List.singleton_append]; rfl⟩
  | .resume .., d, e, off, post => ⟨_, by simp only [marksStmt, List.singleton_append]; rfl⟩
  | .resumeNext .., d, e, off, post => ⟨_, by simp only [marksStmt, List.singleton_append]; rfl⟩
  | .resumeLabel .., d, e, off, post => ⟨_, by simp only [marksStmt, List.singleton_append]; rfl⟩


/-! ### the resume units of every construct

For every construct: which entries its code has, which entry follows each of its resume units (= where `ErrL.Ref`'s
`next(u)` continues), and which entry follows each of its blocks.  `nc = (compileExpr c).length`. -/

section units
variable {T : List Nat} {dp : Dp} {d e off nx : Nat}

/-- `a ; b`: `b` is followed by what follows the sequence; `a` is followed by `b`'s first instruction — unless `b` has no
entries at all (comments only: no code), then by what follows the sequence -/
theorem marks_seq {a b : SStmt} (h : MarksAt T (marksStmt dp d e off (.seq a b)) nx) :
    MarksAt T (marksStmt dp d e (off + sizeStmt dp d e a) b) nx ∧
    (MarksAt T (marksStmt dp d e off a) (off + sizeStmt dp d e a) ∨
      (marksStmt dp d e (off + sizeStmt dp d e a) b = [] ∧ sizeStmt dp d e b = 0 ∧ MarksAt T (marksStmt dp d e off a) nx)) := by
  refine ⟨h.sub (p := marksStmt dp d e off a) (q := []) (by simp [marksStmt]), ?_⟩
  cases hb : marksStmt dp d e (off + sizeStmt dp d e a) b with
  | nil =>
    refine .inr ⟨rfl, ?_, h.sub (p := []) (q := []) (by simp [marksStmt, hb])⟩
    obtain ⟨r, hr⟩ := marks_head dp b d e (off + sizeStmt dp d e a) []
    rw [hb] at hr
    simp at hr; omega
  | cons x r =>
    obtain ⟨r', hr⟩ := marks_head dp b d e (off + sizeStmt dp d e a) []
    rw [hb] at hr
    have hx : x = off + sizeStmt dp d e a := by simp at hr; exact hr.1
    subst hx
    exact .inl (h.sub (p := []) (q := r ++ [nx]) (by simp [marksStmt, hb]))

/-- a statement with no entries has no code -/
theorem size_of_marks_nil {s : SStmt} (h : marksStmt dp d e off s = []) : sizeStmt dp d e s = 0 := by
  obtain ⟨r, hr⟩ := marks_head dp s d e off []
  rw [h] at hr
  simp at hr; omega

/-- WHILE: the condition unit `[off, bodyOff)` is followed by the body's first instruction (RESUME NEXT enters the body); the
body by the back-edge `Jump` -/
theorem marks_while {c : Ast.Expr} {body : SStmt} {p : Pos} (h : MarksAt T (marksStmt dp d e off (.while c body p)) nx) :
    MarksAt T [off] (off + 1 + (compileExpr c).length + 1) ∧
    MarksAt T (marksStmt dp d e (off + 1 + (compileExpr c).length + 1) body)
      (off + 1 + (compileExpr c).length + 1 + sizeStmt dp d e body) ∧
    MarksAt T [off + 1 + (compileExpr c).length + 1 + sizeStmt dp d e body] nx := by
  obtain ⟨r, hr⟩ := marks_head dp body d e (off + 1 + (compileExpr c).length + 1) [nx]
  refine ⟨h.sub (p := []) (q := r) (by simp [marksStmt, hr]), h.sub (p := [off]) (q := [nx]) (by simp [marksStmt]),
    h.sub (p := [off] ++ marksStmt dp d e (off + 1 + (compileExpr c).length + 1) body) (q := []) (by simp [marksStmt])⟩

/-- DO WHILE / UNTIL … LOOP: as WHILE -/
theorem marks_doTop {c : Ast.Expr} {u : Bool} {body : SStmt} {p : Pos}
    (h : MarksAt T (marksStmt dp d e off (.doLoop c true u body p)) nx) :
    MarksAt T [off] (off + 1 + (compileExpr c).length + (if u then 3 else 1)) ∧
    MarksAt T (marksStmt dp d e (off + 1 + (compileExpr c).length + (if u then 3 else 1)) body)
      (off + 1 + (compileExpr c).length + (if u then 3 else 1) + sizeStmt dp d e body) ∧
    MarksAt T [off + 1 + (compileExpr c).length + (if u then 3 else 1) + sizeStmt dp d e body] nx := by
  obtain ⟨r, hr⟩ := marks_head dp body d e (off + 1 + (compileExpr c).length + (if u then 3 else 1)) [nx]
  refine ⟨h.sub (p := []) (q := r) (by simp [marksStmt, hr]), h.sub (p := [off]) (q := [nx]) (by simp [marksStmt]),
    h.sub (p := [off] ++ marksStmt dp d e (off + 1 + (compileExpr c).length + (if u then 3 else 1)) body) (q := [])
      (by simp [marksStmt])⟩

/-- DO … LOOP WHILE / UNTIL: the body is followed by the first instruction of the condition; the condition unit by what
follows the loop (RESUME NEXT leaves the loop) -/
theorem marks_doBottom {c : Ast.Expr} {u : Bool} {body : SStmt} {p : Pos}
    (h : MarksAt T (marksStmt dp d e off (.doLoop c false u body p)) nx) :
    MarksAt T [off] (off + 1) ∧
    MarksAt T (marksStmt dp d e (off + 1) body) (off + 1 + sizeStmt dp d e body) ∧
    MarksAt T [off + 1 + sizeStmt dp d e body] nx := by
  obtain ⟨r, hr⟩ := marks_head dp body d e (off + 1) [nx]
  refine ⟨h.sub (p := []) (q := r) (by simp [marksStmt, hr]), h.sub (p := [off]) (q := [nx]) (by simp [marksStmt]),
    h.sub (p := [off] ++ marksStmt dp d e (off + 1) body) (q := []) (by simp [marksStmt])⟩

/-- IF: the condition unit is followed by the THEN block's first instruction (RESUME NEXT enters the block); the THEN
block by its `Jump end-if`; the ELSE block by **what follows the IF** -/
theorem marks_if {c : Ast.Expr} {thn : SStmt} {elifs : ElseIfs} {hasElse : Bool} {els : SStmt} {p : Pos}
    (h : MarksAt T (marksStmt dp d e off (.ifBlock c thn elifs hasElse els p)) nx) :
    MarksAt T [off] (off + (compileExpr c).length + 1) ∧
    MarksAt T (marksStmt dp d e (off + (compileExpr c).length + 1) thn)
      (off + (compileExpr c).length + 1 + sizeStmt dp d e thn) ∧
    (∃ nxE, MarksAt T (marksElifs dp d e (off + (compileExpr c).length + 1 + sizeStmt dp d e thn + 1) elifs) nxE) ∧
    (hasElse = true → MarksAt T (marksStmt dp d e
      (off + (compileExpr c).length + 1 + sizeStmt dp d e thn + 1 + sizeElifs dp d e elifs + 1) els) nx) := by
  obtain ⟨r, hr⟩ := marks_head dp thn d e (off + (compileExpr c).length + 1)
    (marksElifs dp d e (off + (compileExpr c).length + 1 + sizeStmt dp d e thn + 1) elifs ++
      (if hasElse then marksStmt dp d e
        (off + (compileExpr c).length + 1 + sizeStmt dp d e thn + 1 + sizeElifs dp d e elifs + 1) els else []) ++ [nx])
  refine ⟨h.sub (p := []) (q := r) (by simp only [List.append_assoc] at hr; simp [marksStmt, hr]),
    h.sub (p := [off]) (q := _) (by simp [marksStmt]; rfl), ?_, ?_⟩
  · cases hh : ((if hasElse then marksStmt dp d e
        (off + (compileExpr c).length + 1 + sizeStmt dp d e thn + 1 + sizeElifs dp d e elifs + 1) els else []) ++ [nx]) with
    | nil => simp at hh
    | cons x q =>
      exact ⟨x, h.sub (p := [off] ++ marksStmt dp d e (off + (compileExpr c).length + 1) thn ++
        [off + (compileExpr c).length + 1 + sizeStmt dp d e thn]) (q := q) (by
          simp only [marksStmt, List.append_assoc]; rw [hh]; try simp)⟩
  · intro he
    subst he
    exact h.sub (p := [off] ++ marksStmt dp d e (off + (compileExpr c).length + 1) thn ++
      [off + (compileExpr c).length + 1 + sizeStmt dp d e thn] ++
      marksElifs dp d e (off + (compileExpr c).length + 1 + sizeStmt dp d e thn + 1) elifs) (q := [])
      (by simp [marksStmt])

/-- one ELSEIF arm (`off`: the address of its label): the condition unit starts behind the label and is followed by the
block's first instruction; the block by its `Jump end-if` -/
theorem marks_elif {c : Ast.Expr} {body : SStmt} {rest : ElseIfs}
    (h : MarksAt T (marksElifs dp d e off (.cons c body rest)) nx) :
    MarksAt T [off + 1] (off + 1 + (compileExpr c).length + 1) ∧
    MarksAt T (marksStmt dp d e (off + 1 + (compileExpr c).length + 1) body)
      (off + 1 + (compileExpr c).length + 1 + sizeStmt dp d e body) ∧
    MarksAt T (marksElifs dp d e (off + 1 + (compileExpr c).length + 1 + sizeStmt dp d e body + 1) rest) nx := by
  obtain ⟨r, hr⟩ := marks_head dp body d e (off + 1 + (compileExpr c).length + 1)
    (marksElifs dp d e (off + 1 + (compileExpr c).length + 1 + sizeStmt dp d e body + 1) rest ++ [nx])
  refine ⟨h.sub (p := []) (q := r) (by simp [marksElifs, hr]), h.sub (p := [off + 1]) (q := _) (by simp [marksElifs]; rfl),
    h.sub (p := [off + 1] ++ marksStmt dp d e (off + 1 + (compileExpr c).length + 1) body ++
      [off + 1 + (compileExpr c).length + 1 + sizeStmt dp d e body]) (q := []) (by simp [marksElifs])⟩

/-- SELECT CASE: the selector unit is followed by the `Jump select-skip` (RESUME NEXT continues after END SELECT, nothing
pushed yet); the CASE ELSE block by **what follows the SELECT** (the `PopValueStackIntoA` of END SELECT is skipped) -/
theorem marks_select {sel : Ast.Expr} {cases : SCases} {hasElse : Bool} {els : SStmt} {p : Pos}
    (h : MarksAt T (marksStmt dp d e off (.select sel cases hasElse els p)) nx) :
    MarksAt T [off] (off + (compileExpr sel).length + 2) ∧
    (∃ nxC, MarksAt T (marksCases dp d (e + 1) (off + (compileExpr sel).length + 1 + 3) cases) nxC) ∧
    (hasElse = true → MarksAt T (marksStmt dp d (e + 1)
      (off + (compileExpr sel).length + 1 + 3 + sizeCases dp d (e + 1) cases + 1) els) nx) := by
  refine ⟨h.sub (p := []) (q := _) (by simp [marksStmt]; rfl), ?_, ?_⟩
  · cases hh : ((if hasElse then marksStmt dp d (e + 1)
        (off + (compileExpr sel).length + 1 + 3 + sizeCases dp d (e + 1) cases + 1) els else []) ++ [nx]) with
    | nil => simp at hh
    | cons x q =>
      exact ⟨x, h.sub (p := [off, off + (compileExpr sel).length + 2, off + (compileExpr sel).length + 1 + 3]) (q := q) (by
          simp only [marksStmt, List.append_assoc]; rw [hh]; try simp)⟩
  · intro he
    subst he
    exact h.sub (p := [off, off + (compileExpr sel).length + 2, off + (compileExpr sel).length + 1 + 3] ++
      marksCases dp d (e + 1) (off + (compileExpr sel).length + 1 + 3) cases) (q := []) (by simp [marksStmt])

/-- one CASE block (`off`: the address of its label): the items unit starts behind the label and is followed by the block's
first instruction (RESUME NEXT enters the block); the block by its `Jump end-select` -/
theorem marks_case {conds : List CaseExpr} {body : SStmt} {rest : SCases}
    (h : MarksAt T (marksCases dp d e off (.cons conds body rest)) nx) :
    MarksAt T [off + 1] (off + 1 + sizeConds conds + (if conds.length > 1 then 1 else 0)) ∧
    MarksAt T (marksStmt dp d e (off + 1 + sizeConds conds + (if conds.length > 1 then 1 else 0)) body)
      (off + 1 + sizeConds conds + (if conds.length > 1 then 1 else 0) + sizeStmt dp d e body) ∧
    MarksAt T (marksCases dp d e
      (off + 1 + sizeConds conds + (if conds.length > 1 then 1 else 0) + sizeStmt dp d e body + 1) rest) nx := by
  obtain ⟨r, hr⟩ := marks_head dp body d e (off + 1 + sizeConds conds + (if conds.length > 1 then 1 else 0))
    (marksCases dp d e (off + 1 + sizeConds conds + (if conds.length > 1 then 1 else 0) + sizeStmt dp d e body + 1) rest ++
      [nx])
  refine ⟨h.sub (p := []) (q := r) (by simp [marksCases, hr]), h.sub (p := [off + 1]) (q := _) (by simp [marksCases]; rfl),
    h.sub (p := [off + 1] ++ marksStmt dp d e (off + 1 + sizeConds conds + (if conds.length > 1 then 1 else 0)) body ++
      [off + 1 + sizeConds conds + (if conds.length > 1 then 1 else 0) + sizeStmt dp d e body]) (q := [])
      (by simp [marksCases])⟩

/-- FOR without STEP (`hdr`: behind the bounds): the header unit is followed by the `Jump out-of-for` (RESUME NEXT continues
after NEXT, no frame pushed yet); the body by the `PopRegisters` of NEXT; the `PopRegisters` by the first instruction of the
increment; **the increment of NEXT is a unit of its own** (3abb028) and is followed by what follows the loop -/
theorem marks_forNone {x : Nat} {t : Ty} {lo hi : Ast.Expr} {body : SStmt} {p : Pos}
    (h : MarksAt T (marksStmt dp d e off (.forLoop x t lo hi none body p)) nx) :
    MarksAt T [off] (off + (compileExprTo lo t).length + 2 + (compileExprTo hi t).length + 4) ∧
    MarksAt T (marksStmt dp (d + 1) e (off + (compileExprTo lo t).length + 2 + (compileExprTo hi t).length + 6 + 8) body)
      (off + (compileExprTo lo t).length + 2 + (compileExprTo hi t).length + 6 + 8 + sizeStmt dp (d + 1) e body) ∧
    MarksAt T [off + (compileExprTo lo t).length + 2 + (compileExprTo hi t).length + 6 + 8 + sizeStmt dp (d + 1) e body]
      (off + (compileExprTo lo t).length + 2 + (compileExprTo hi t).length + 6 + 8 + sizeStmt dp (d + 1) e body + 1) ∧
    MarksAt T [off + (compileExprTo lo t).length + 2 + (compileExprTo hi t).length + 6 + 8 + sizeStmt dp (d + 1) e body + 1]
      nx := by
  refine ⟨h.sub (p := []) (q := _) (by simp [marksStmt]; rfl),
    h.sub (p := [off, off + (compileExprTo lo t).length + 2 + (compileExprTo hi t).length + 4]) (q := _)
      (by simp [marksStmt]; rfl),
    h.sub (p := [off, off + (compileExprTo lo t).length + 2 + (compileExprTo hi t).length + 4] ++
      marksStmt dp (d + 1) e (off + (compileExprTo lo t).length + 2 + (compileExprTo hi t).length + 6 + 8) body) (q := [nx])
      (by simp [marksStmt]),
    h.sub (p := [off, off + (compileExprTo lo t).length + 2 + (compileExprTo hi t).length + 4] ++
      marksStmt dp (d + 1) e (off + (compileExprTo lo t).length + 2 + (compileExprTo hi t).length + 6 + 8) body ++
      [off + (compileExprTo lo t).length + 2 + (compileExprTo hi t).length + 6 + 8 + sizeStmt dp (d + 1) e body]) (q := [])
      (by simp [marksStmt])⟩

theorem marks_two_copies {a b c1 c2 c3 d1 d2 d3 : Nat} {B1 B2 : List Nat}
    (h : MarksAt T ([a, b] ++ B1 ++ [c1, c2, c3] ++ B2 ++ [d1, d2, d3]) nx) :
    MarksAt T [a] b ∧ MarksAt T B1 c1 ∧ MarksAt T [c1] c2 ∧ MarksAt T [c2] c3 ∧ MarksAt T B2 d1 ∧ MarksAt T [d1] d2 ∧
      MarksAt T [d2] d3 ∧ MarksAt T [d3] nx :=
  ⟨h.sub (p := []) (q := B1 ++ [c1, c2, c3] ++ B2 ++ [d1, d2, d3] ++ [nx]) (by simp),
    h.sub (p := [a, b]) (q := [c2, c3] ++ B2 ++ [d1, d2, d3] ++ [nx]) (by simp),
    h.sub (p := [a, b] ++ B1) (q := [c3] ++ B2 ++ [d1, d2, d3] ++ [nx]) (by simp),
    h.sub (p := [a, b] ++ B1 ++ [c1]) (q := B2 ++ [d1, d2, d3] ++ [nx]) (by simp),
    h.sub (p := [a, b] ++ B1 ++ [c1, c2, c3]) (q := [d2, d3] ++ [nx]) (by simp),
    h.sub (p := [a, b] ++ B1 ++ [c1, c2, c3] ++ B2) (q := [d3] ++ [nx]) (by simp),
    h.sub (p := [a, b] ++ B1 ++ [c1, c2, c3] ++ B2 ++ [d1]) (q := [nx]) (by simp),
    h.sub (p := [a, b] ++ B1 ++ [c1, c2, c3] ++ B2 ++ [d1, d2]) (q := []) (by simp)⟩

/-- FOR … STEP (`negOff` / `posOff`: the loop heads of the two copies): the header unit (bounds and step) is followed by the
`Jump out-of-for`; in each copy the body is followed by its `PopRegisters`, that by the increment, and **the increment unit by
the `Jump out-of-for` behind the copy** (7249205: not by the other copy's body); the jump behind the positive copy is followed
by what follows the loop, so it is the unit the zero-step `Throw` belongs to (fe11300) -/
theorem marks_forSome {x : Nat} {t : Ty} {lo hi se : Ast.Expr} {body : SStmt} {p : Pos} {negOff posOff : Nat}
    (hneg : negOff = off + (compileExprTo lo t).length + 2 + (compileExprTo hi t).length + 1 + (compileExpr se).length + 11)
    (hpos : posOff = negOff + sizeForBody dp d e body + 1 + 4)
    (h : MarksAt T (marksStmt dp d e off (.forLoop x t lo hi (some se) body p)) nx) :
    MarksAt T [off] (off + (compileExprTo lo t).length + 2 + (compileExprTo hi t).length + 1 + (compileExpr se).length + 4) ∧
    MarksAt T (marksStmt dp (d + 1) e (negOff + 8) body) (negOff + 8 + sizeStmt dp (d + 1) e body) ∧
    MarksAt T [negOff + 8 + sizeStmt dp (d + 1) e body] (negOff + 8 + sizeStmt dp (d + 1) e body + 1) ∧
    MarksAt T [negOff + 8 + sizeStmt dp (d + 1) e body + 1] (negOff + sizeForBody dp d e body) ∧
    MarksAt T (marksStmt dp (d + 1) e (posOff + 8) body) (posOff + 8 + sizeStmt dp (d + 1) e body) ∧
    MarksAt T [posOff + 8 + sizeStmt dp (d + 1) e body] (posOff + 8 + sizeStmt dp (d + 1) e body + 1) ∧
    MarksAt T [posOff + 8 + sizeStmt dp (d + 1) e body + 1] (posOff + sizeForBody dp d e body) ∧
    MarksAt T [posOff + sizeForBody dp d e body] nx := by
  subst hneg hpos
  refine marks_two_copies ?_
  simpa only [marksStmt] using h

end units

/-! ### the table of a whole program -/

/-- the statement-address table of a program is strictly ascending (so `binary_search`'s answer is the one the model
computes, `Ctl.bsFirst`) -/
theorem marks_sorted (prog : SProgram) (h : CasesNE (reorder prog.body)) : (Compile.marks prog).Pairwise (· < ·) := by
  have a := marks_asc (depthsOf (reorder prog.body)) (reorder prog.body) 0 0 0 h
  have : Asc 0 (0 + sizeStmt (depthsOf (reorder prog.body)) 0 0 (reorder prog.body) + 1)
      (Compile.marks prog) := by
    simp only [Compile.marks]
    exact Asc.append (mid := 0 + sizeStmt (depthsOf (reorder prog.body)) 0 0 (reorder prog.body)) a
      (Asc.single (by omega) (by omega)) (by omega) (by omega)
  exact this.1

/-- the body's entries sit in the program's table and are followed by the final `Halt` -/
theorem marks_body (prog : SProgram) :
    MarksAt (Compile.marks prog) (marksStmt (depthsOf (reorder prog.body)) 0 0 0 (reorder prog.body))
      (sizeStmt (depthsOf (reorder prog.body)) 0 0 (reorder prog.body)) :=
  ⟨[], [], by simp [Compile.marks]⟩


/-! ### non-vacuity -/

/-- `unit_find` on a concrete table: the unit `[3, 5)` -/
example : findCurrent [0, 3, 5, 9] 4 = some 3 ∧ findNext [0, 3, 5, 9] 4 = some 5 :=
  unit_find (by decide) ⟨[0], [9], rfl⟩ (by decide) (by decide)

/-- `WHILE x < 1 : x = 2 : WEND` placed at address 10 and followed by the entry 25: the entries are `[10, 20, 23]`; the
condition unit `[10, 20)` is followed by the body's first instruction, the body by the back-edge `Jump` at 23 -/
example :
    let c : Ast.Expr := .bin .less (.var 0 .int ⟨1, 7⟩) (.lit (.int 1) ⟨1, 11⟩) .int ⟨1, 9⟩
    let w : SStmt := .while c (.seq (.assign 0 .int (.lit (.int 2) ⟨2, 5⟩) ⟨2, 1⟩) .skip) ⟨1, 1⟩
    let dp : Dp := ⟨fun _ => 0, fun _ => 0⟩
    marksStmt dp 0 0 10 w = [10, 20, 23] ∧
    (MarksAt ([3] ++ marksStmt dp 0 0 10 w ++ [25]) (marksStmt dp 0 0 10 w) 25 →
      MarksAt ([3] ++ marksStmt dp 0 0 10 w ++ [25]) [10] 20 ∧
      findCurrent ([3] ++ marksStmt dp 0 0 10 w ++ [25]) 14 = some 10 ∧
      findNext ([3] ++ marksStmt dp 0 0 10 w ++ [25]) 14 = some 20) := by
  intro c w dp
  refine ⟨by decide, fun h => ?_⟩
  have h1 := (marks_while h).1
  have hc : (compileExpr c).length = 8 := by decide
  have e : 10 + 1 + (compileExpr c).length + 1 = 20 := by rw [hc]
  rw [e] at h1
  exact ⟨h1, unit_find (by decide) h1 (by decide) (by decide)⟩

end RbThm.ErrLLen
